/-
C01 — executable model of gc.c's root-set protocol, collection suspension and the collection decision.
Core Lean only (linked into jm_c01).

  janet_gc_idequals                 `idEq`        (types listed in Gen.GC.idequalsAlwaysTypes: always 1; else pointer compare)
  janet_gcroot                      `gcroot`      (grow to rootGrowMul * newcount when full, then push)
  janet_gcunroot                    `gcunroot`    (ascending scan, FIRST id-equal slot is overwritten with the last root)
  janet_gcunrootall                 `gcunrootall` (same swap; `rescan` = does the loop look again at the refilled slot)
  janet_gclock / janet_gcunlock     `gclock` / `gcunlock`   (`return gc_suspend++` / `gc_suspend = handle`)
  janet_gcpressure, janet_gcalloc   `gcpressure` / `gcallocAcct`
  maybe_collect (vm.c)              `shouldCollect`
  janet_collect                     `collectVM`   (early-out on gc_suspend; gc_mark_phase; interval heuristic; mark +
                                                   sweep of the heap model with the explicit roots; next_collection := 0;
                                                   scratch memory released)
  janet_smalloc / janet_sfree / janet_free_all_scratch      `smalloc` / `sfree` / `freeAllScratch`

The roots array is a `List RVal` = `janet_vm.roots[0 .. root_count)`, index 0 first.
-/
import JanetModel.GC.Model

namespace JanetModel.GC

/-- a Janet value as far as `janet_gc_idequals` and `janet_mark` are concerned: its JanetType and its payload (the
pointer — here the id of the heap block — for reference types; whatever bits for immediates) -/
structure RVal where
  ty : Nat
  payload : Nat
  deriving Repr, DecidableEq

/-- the `case`s of janet_gc_idequals that `return 1` (regenerated list) -/
def alwaysEq (ty : Nat) : Bool := Gen.GC.idequalsAlwaysTypes.contains ty

/-- janet_gc_idequals -/
def idEq (a b : RVal) : Bool :=
  if a.ty != b.ty then false
  else if alwaysEq a.ty then true
  else a.payload == b.payload

/-- the class representative of a value under `idEq` -/
def RVal.norm (a : RVal) : RVal :=
  if alwaysEq a.ty then ⟨a.ty, 0⟩ else a

/-- value types `janet_mark` follows into the heap (the `case`s of its switch, by number) -/
def isRefTy (ty : Nat) : Bool :=
  open Gen.GC in
  [tyString, tyKeyword, tySymbol, tyFunction, tyArray, tyTable, tyStruct, tyTuple, tyBuffer, tyFiber, tyAbstract].contains ty

/-- `janet_mark(roots[i])`: the edge a root value contributes -/
def RVal.edge (a : RVal) : List Edge := if isRefTy a.ty then [⟨true, a.payload, false⟩] else []

structure VM where
  roots : List RVal := []
  rootCap : Nat := 0
  gcSuspend : Int := 0
  markPhase : Bool := false
  nextCollection : Nat := 0
  gcInterval : Nat := Gen.GC.initialGcInterval
  blockCount : Nat := 0
  /-- janet_vm.scratch_mem[0 .. scratch_len): ids of scratch allocations -/
  scratch : List Nat := []
  /-- ghost: number of collections that actually ran -/
  collections : Nat := 0
  deriving Repr

/-! ### roots -/

def gcroot (vm : VM) (x : RVal) : VM :=
  let newcount := vm.roots.length + 1
  { vm with
    rootCap := if newcount > vm.rootCap then Gen.GC.rootGrowMul * newcount else vm.rootCap,
    roots := vm.roots ++ [x] }

/-- `*v = janet_vm.roots[--janet_vm.root_count]` where `v` points at the head of `v :: rest` = roots[v .. root_count) -/
def swapLast (rest : List RVal) : List RVal :=
  match rest.getLast? with
  | none => []                              -- v was the last root: it overwrites itself and is cut off
  | some last => last :: rest.dropLast

/-- the scan loop of janet_gcunroot over roots[v .. root_count): `none` = fell off the end (return 0) -/
def unrootGo (x : RVal) : List RVal → Option (List RVal)
  | [] => none
  | v :: rest => if idEq x v then some (swapLast rest) else (unrootGo x rest).map (v :: ·)

def gcunroot (vm : VM) (x : RVal) : VM × Nat :=
  match unrootGo x vm.roots with
  | some rs => ({ vm with roots := rs }, 1)
  | none => (vm, 0)

/-- the loop of janet_gcunrootall over roots[v .. vtop); fuel ≥ length suffices (`unrootAllGo_fuel`) -/
def unrootAllGo (rescan : Bool) (x : RVal) : Nat → List RVal → List RVal × Bool
  | 0, l => (l, false)
  | _ + 1, [] => ([], false)
  | fuel + 1, v :: rest =>
    if idEq x v then
      match rest.getLast? with
      | none => ([], true)
      | some last =>
        if rescan then ((unrootAllGo rescan x fuel (last :: rest.dropLast)).1, true)
        else (last :: (unrootAllGo rescan x fuel rest.dropLast).1, true)       -- `v++` steps over the refilled slot
    else
      let r := unrootAllGo rescan x fuel rest
      (v :: r.1, r.2)

def gcunrootallWith (rescan : Bool) (vm : VM) (x : RVal) : VM × Nat :=
  let r := unrootAllGo rescan x (vm.roots.length + 1) vm.roots
  ({ vm with roots := r.1 }, if r.2 then 1 else 0)

/-- janet_gcunrootall as it is in the current source -/
def gcunrootall (vm : VM) (x : RVal) : VM × Nat := gcunrootallWith Gen.GC.unrootallRescans vm x

/-! ### suspension, pressure, decision -/

/-- `return janet_vm.gc_suspend++` -/
def gclock (vm : VM) : VM × Int := ({ vm with gcSuspend := vm.gcSuspend + 1 }, vm.gcSuspend)
/-- `janet_vm.gc_suspend = handle` -/
def gcunlock (vm : VM) (handle : Int) : VM := { vm with gcSuspend := handle }

def gcpressure (vm : VM) (s : Nat) : VM := { vm with nextCollection := vm.nextCollection + s }
/-- the accounting part of janet_gcalloc -/
def gcallocAcct (vm : VM) (size : Nat) : VM :=
  { vm with nextCollection := vm.nextCollection + size, blockCount := vm.blockCount + 1 }

/-- maybe_collect: `forced` is the verification safepoint hook's answer -/
def shouldCollect (vm : VM) (forced : Bool) : Bool :=
  forced || (if Gen.GC.maybeCollectGe then decide (vm.gcInterval ≤ vm.nextCollection) else decide (vm.gcInterval < vm.nextCollection))

/-- does a call of janet_collect get past `if (janet_vm.gc_suspend) return;` -/
def collectEnters (vm : VM) : Bool := vm.gcSuspend == 0

/-! ### scratch memory -/

def smalloc (vm : VM) (id : Nat) : VM := { vm with scratch := vm.scratch ++ [id] }

/-- janet_sfree: search from the top (`for (i = scratch_len - 1; ; i--)`), overwrite the slot with the last entry, shrink;
`none` = "invalid janet_sfree" (the process exits) -/
def sfreeGo (id : Nat) (l : List Nat) : Option (List Nat) :=
  match (List.range l.length).reverse.find? (fun i => l[i]? == some id) with
  | none => none
  | some i => some ((l.set i (l.getLast?.getD 0)).dropLast)

def sfree (vm : VM) (id : Nat) : Option VM := (sfreeGo id vm.scratch).map (fun s => { vm with scratch := s })
def freeAllScratch (vm : VM) : VM := { vm with scratch := [] }

/-! ### janet_collect on a heap whose explicit roots are the roots array -/

/-- the heap the collector sees: `base` roots (root fiber, event-loop roots) followed by `janet_vm.roots` -/
def heapWithRoots (h : Heap) (vm : VM) : Heap := { h with roots := h.roots ++ vm.roots.flatMap RVal.edge }

def liveCount (h : Heap) : Nat := ((List.range h.size).filter (fun i => (h.get i).isSome)).length

/-- janet_collect.  `h.roots` holds the non-array roots; the result keeps them. -/
def collectVM (D : Nat) (h : Heap) (vm : VM) : Heap × VM :=
  if vm.gcSuspend != 0 then (h, vm)                                   -- if (janet_vm.gc_suspend) return;
  else
    let interval := if vm.blockCount * Gen.GC.intervalMul > vm.gcInterval then vm.blockCount * Gen.GC.gcObjectSize
                    else vm.gcInterval
    let hv := heapWithRoots h vm
    let h' := { collect D hv with roots := h.roots }
    let freed := liveCount hv - liveCount h'
    (h', { vm with gcInterval := interval, markPhase := false, nextCollection := 0, blockCount := vm.blockCount - freed,
                   scratch := [], collections := vm.collections + 1 })

/-- maybe_collect() -/
def maybeCollect (D : Nat) (h : Heap) (vm : VM) (forced : Bool) : Heap × VM :=
  if shouldCollect vm forced then collectVM D h vm else (h, vm)

/-! ### op histories (what harness/C01/roots.c replays against the real functions) -/

inductive ROp where
  | root (x : RVal)
  | unroot (x : RVal)
  | unrootall (x : RVal)
  | lock
  | unlock (handle : Int)
  | pressure (n : Nat)
  | newObj (o : Obj) (size : Nat)     -- janet_gcalloc of a block (held only in a C local until rooted)
  | collect
  | safepoint (forced : Bool)
  | smalloc (id : Nat)
  | sfree (id : Nat)
  | setInterval (n : Nat)            -- corelib.c janet_core_gcsetinterval: janet_vm.gc_interval = s
  deriving Repr

def heapAdd (h : Heap) (o : Obj) : Heap :=
  { h with size := h.size + 1, obj := fun j => if j = h.size then some o else h.get j }

/-- one op; the `Int` is the C return value (0 where the function returns void) -/
def stepOp (D : Nat) (s : Heap × VM) : ROp → (Heap × VM) × Int
  | .root x => ((s.1, gcroot s.2 x), 0)
  | .unroot x => let r := gcunroot s.2 x; ((s.1, r.1), r.2)
  | .unrootall x => let r := gcunrootall s.2 x; ((s.1, r.1), r.2)
  | .lock => let r := gclock s.2; ((s.1, r.1), r.2)
  | .unlock hd => ((s.1, gcunlock s.2 hd), 0)
  | .pressure n => ((s.1, gcpressure s.2 n), 0)
  | .newObj o size => ((heapAdd s.1 o, gcallocAcct s.2 size), s.1.size)
  | .collect => (collectVM D s.1 s.2, 0)
  | .safepoint f => (maybeCollect D s.1 s.2 f, 0)
  | .smalloc id => ((s.1, smalloc s.2 id), 0)
  | .sfree id => match sfree s.2 id with
    | some vm => ((s.1, vm), 0)
    | none => (s, -1)
  | .setInterval n => ((s.1, { s.2 with gcInterval := n }), 0)

def runOps (D : Nat) (s : Heap × VM) (ops : List ROp) : Heap × VM := ops.foldl (fun s op => (stepOp D s op).1) s

end JanetModel.GC
