/-
C01 — a mutator that can name heap objects only by paths from the roots, runs with a collection schedule, and the
simulation argument: collecting at any subset of safepoints does not change what the mutator observes.
-/
import JanetModel.GC.Collect

namespace JanetModel.GC
open Std

/-- how a program names an object: the n-th root, or the k-th strong reference of an object it can already name -/
inductive Path where
  | root (n : Nat)
  | field (p : Path) (k : Nat)
  deriving Repr, DecidableEq

inductive Step where
  | alloc (kind : Nat) (fields : List Path)   -- new object referencing the named objects; becomes a root (a local)
  | store (p : Path) (k : Nat) (q : Path)     -- p.field[k] := q
  | root (p : Path)                           -- janet_gcroot / push on the stack
  | unroot (n : Nat)                          -- drop the n-th root
  | emit (p : Path)                           -- observe kind and size of an object
  | same (p q : Path)                         -- observe identity of two objects
  deriving Repr

inductive Obs where
  | obj (kind nfields : Nat)
  | absent
  | same (b : Bool)
  deriving Repr, DecidableEq

def live (h : Heap) (i : Id) : Option Id := if (h.get i).isSome then some i else none

def resolve (h : Heap) : Path → Option Id
  | .root n => (h.roots[n]?).bind (fun e => live h e.tgt)
  | .field p k => (resolve h p).bind fun i => (h.get i).bind fun o => (o.strong[k]?).bind fun e => live h e.tgt

def setObj (h : Heap) (i : Id) (o : Obj) : Heap := { h with obj := fun j => if j = i then some o else h.get j }

def allocObj (h : Heap) (o : Obj) : Heap :=
  { size := h.size + 1, obj := fun j => if j = h.size then some o else h.get j, roots := ⟨true, h.size, false⟩ :: h.roots }

def execHeap (h : Heap) : Step → Heap
  | .alloc kind fields => allocObj h { kind, strong := (fields.filterMap (resolve h)).map (fun i => ⟨true, i, false⟩) }
  | .store p k q =>
    match resolve h p with
    | none => h
    | some i =>
      match resolve h q with
      | none => h
      | some t =>
        match h.get i with
        | some o => setObj h i { o with strong := o.strong.set k ⟨true, t, false⟩ }
        | none => h
  | .root p =>
    match resolve h p with
    | some i => { h with roots := ⟨true, i, false⟩ :: h.roots }
    | none => h
  | .unroot n => { h with roots := h.roots.eraseIdx n }
  | .emit _ => h
  | .same _ _ => h

def execObs (h : Heap) : Step → List Obs
  | .emit p =>
    [match (resolve h p).bind h.get with
     | some o => Obs.obj o.kind o.strong.length
     | none => Obs.absent]
  | .same p q =>
    [match resolve h p with
     | none => Obs.absent
     | some i =>
       match resolve h q with
       | none => Obs.absent
       | some j => Obs.same (i == j)]
  | _ => []

def exec (h : Heap) (st : Step) : Heap × List Obs := (execHeap h st, execObs h st)

/-- run a program; safepoint number `n` precedes the n-th step, and the collector runs there iff `sched n` -/
def run (D : Nat) : List Step → (Nat → Bool) → Nat → Heap → List Obs
  | [], _, _, _ => []
  | st :: rest, sched, n, h =>
    let h1 := if sched n then collect D h else h
    let r := exec h1 st
    r.2 ++ run D rest sched (n + 1) r.1

/-! ### what the mutator can reach, and the simulation relation -/

inductive MReach (h : Heap) : Id → Prop
  | root {e : Edge} : e ∈ h.roots → (h.get e.tgt).isSome → MReach h e.tgt
  | step {i : Id} {o : Obj} {e : Edge} : MReach h i → h.get i = some o → e ∈ o.strong → (h.get e.tgt).isSome →
      MReach h e.tgt

theorem MReach.reachable {h : Heap} {i : Id} (m : MReach h i) : Reachable h i := by
  induction m with
  | root he hs => exact Reachable.root he hs
  | step _ ho he hs ih => exact Reachable.step ih ho (by simp [outEdges, he]) hs

theorem MReach.isSome {h : Heap} {i : Id} (m : MReach h i) : (h.get i).isSome := by
  cases m <;> assumption

/-- the part of an object the mutator can see -/
def objView (h : Heap) (i : Id) : Option (Nat × List Edge) := (h.get i).map (fun o => (o.kind, o.strong))

structure Agree (h h' : Heap) : Prop where
  size : h.size = h'.size
  roots : h.roots = h'.roots
  view : ∀ i, MReach h i ∨ MReach h' i → objView h i = objView h' i

theorem Agree.isSome_iff {h h' : Heap} (a : Agree h h') {i : Id} (m : MReach h i ∨ MReach h' i) :
    (h.get i).isSome = (h'.get i).isSome := by
  have := a.view i m
  simp only [objView] at this
  cases h1 : h.get i <;> cases h2 : h'.get i <;> simp [h1, h2] at this ⊢

theorem Agree.refl (h : Heap) : Agree h h := ⟨rfl, rfl, fun _ _ => rfl⟩

theorem live_eq_some {h : Heap} {i j : Id} (hl : live h i = some j) : j = i ∧ (h.get i).isSome := by
  unfold live at hl
  by_cases c : (h.get i).isSome
  · simp [c] at hl; exact ⟨hl.symm, c⟩
  · simp [c] at hl

theorem resolve_mreach {h : Heap} : ∀ {p : Path} {i : Id}, resolve h p = some i → MReach h i := by
  intro p
  induction p with
  | root n =>
    intro i hr
    simp only [resolve, Option.bind_eq_some_iff] at hr
    obtain ⟨e, he, hl⟩ := hr
    obtain ⟨rfl, hs⟩ := live_eq_some hl
    exact MReach.root (List.mem_of_getElem? he) hs
  | field p k ih =>
    intro i hr
    simp only [resolve, Option.bind_eq_some_iff] at hr
    obtain ⟨j, hj, o, ho, e, he, hl⟩ := hr
    obtain ⟨rfl, hs⟩ := live_eq_some hl
    exact MReach.step (ih hj) ho (List.mem_of_getElem? he) hs

theorem Agree.live_eq {h h' : Heap} (a : Agree h h') {i : Id}
    (hm : (h.get i).isSome → MReach h i) (hm' : (h'.get i).isSome → MReach h' i) : live h i = live h' i := by
  unfold live
  by_cases c : (h.get i).isSome
  · have := a.isSome_iff (Or.inl (hm c))
    simp [c, ← this]
  · by_cases c' : (h'.get i).isSome
    · have := a.isSome_iff (Or.inr (hm' c'))
      rw [this] at c; exact absurd c' c
    · simp [c, c']

theorem Agree.strong_eq {h h' : Heap} (a : Agree h h') {i : Id} (m : MReach h i ∨ MReach h' i) {o : Obj}
    (ho : h.get i = some o) : ∃ o', h'.get i = some o' ∧ o'.kind = o.kind ∧ o'.strong = o.strong := by
  have := a.view i m
  simp only [objView, ho, Option.map_some] at this
  cases h2 : h'.get i with
  | none => simp [h2] at this
  | some o' =>
    simp only [h2, Option.map_some, Option.some.injEq, Prod.mk.injEq] at this
    exact ⟨o', rfl, this.1.symm, this.2.symm⟩

theorem Agree.symm {h h' : Heap} (a : Agree h h') : Agree h' h :=
  ⟨a.size.symm, a.roots.symm, fun i m => (a.view i m.symm).symm⟩

theorem Agree.resolve_eq {h h' : Heap} (a : Agree h h') : ∀ p, resolve h p = resolve h' p := by
  intro p
  induction p with
  | root n =>
    simp only [resolve, a.roots]
    cases he : h'.roots[n]? with
    | none => rfl
    | some e =>
      simp only [Option.bind_some]
      have hmem : e ∈ h'.roots := List.mem_of_getElem? he
      exact a.live_eq (fun c => MReach.root (a.roots ▸ hmem) c) (fun c => MReach.root hmem c)
  | field p k ih =>
    simp only [resolve, ← ih]
    cases hr : resolve h p with
    | none => rfl
    | some j =>
      have mj : MReach h j := resolve_mreach hr
      simp only [Option.bind_some]
      cases ho : h.get j with
      | none =>
        have := a.isSome_iff (Or.inl mj)
        rw [ho] at this
        cases ho' : h'.get j with
        | none => rfl
        | some _ => rw [ho'] at this; simp at this
      | some o =>
        obtain ⟨o', ho', _, hst⟩ := a.strong_eq (Or.inl mj) ho
        simp only [ho', Option.bind_some, hst]
        cases he : o.strong[k]? with
        | none => rfl
        | some e =>
          simp only [Option.bind_some]
          have hmem : e ∈ o.strong := List.mem_of_getElem? he
          exact a.live_eq (fun c => MReach.step mj ho hmem c)
            (fun c => MReach.step (resolve_mreach (ih ▸ hr)) ho' (hst ▸ hmem) c)

/-! ### heap updates -/

theorem setObj_get (h : Heap) (i : Id) (o : Obj) (hi : (h.get i).isSome) (j : Nat) :
    (setObj h i o).get j = if j = i then some o else h.get j := by
  have hlt : i < h.size := by
    cases hx : h.get i with
    | none => rw [hx] at hi; cases hi
    | some o0 => exact get_lt hx
  unfold setObj Heap.get
  by_cases c : j = i
  · subst c; simp [hlt]
  · by_cases c2 : j < h.size <;> simp [c, c2]

theorem allocObj_get (h : Heap) (o : Obj) (j : Nat) :
    (allocObj h o).get j = if j = h.size then some o else h.get j := by
  unfold allocObj Heap.get
  by_cases c : j = h.size
  · subst c; simp
  · by_cases c2 : j < h.size
    · have : j < h.size + 1 := by omega
      simp [c, c2, this]
    · have : ¬ j < h.size + 1 := by omega
      simp [c, c2, this]

theorem get_size_none (h : Heap) : h.get h.size = none := by simp [Heap.get]

/-- MReach only depends on roots and on `get` -/
theorem MReach.congr {h h' : Heap} {i : Id} (m : MReach h i) (hr : ∀ e ∈ h.roots, e ∈ h'.roots)
    (hg : ∀ j, h.get j = h'.get j) : MReach h' i := by
  induction m with
  | root he hs => exact MReach.root (hr _ he) (hg _ ▸ hs)
  | step _ ho he hs ih => exact MReach.step ih (hg _ ▸ ho) he (hg _ ▸ hs)

/-- everything the mutator reaches after a step it reached before, or it is the freshly allocated object -/
theorem exec_mreach (h : Heap) (st : Step) (i : Id) (m : MReach (execHeap h st) i) : MReach h i ∨ i = h.size := by
  cases st with
  | alloc kind fields =>
    simp only [execHeap] at m
    generalize hO : ({ kind := kind, strong := (fields.filterMap (resolve h)).map (fun i => (⟨true, i, false⟩ : Edge)) } : Obj) = onew at m
    induction m with
    | root he hs =>
      rename_i e
      rw [allocObj_get] at hs
      by_cases c : e.tgt = h.size
      · exact Or.inr c
      · simp only [c, if_false] at hs
        simp only [allocObj, List.mem_cons] at he
        rcases he with he | he
        · rw [he] at c; simp at c
        · exact Or.inl (MReach.root he hs)
    | step _ ho he hs ih =>
      rename_i j o e _
      rw [allocObj_get] at hs ho
      by_cases c : e.tgt = h.size
      · exact Or.inr c
      · simp only [c, if_false] at hs
        left
        by_cases cj : j = h.size
        · simp only [cj, if_true, Option.some.injEq] at ho
          subst ho; subst hO
          simp only [List.mem_map, List.mem_filterMap] at he
          obtain ⟨t, ⟨p, _, hp⟩, rfl⟩ := he
          exact resolve_mreach hp
        · simp only [cj, if_false] at ho
          rcases ih with ih | ih
          · exact MReach.step ih ho he hs
          · exact absurd ih cj
  | store p k q =>
    left
    simp only [execHeap] at m
    cases hp : resolve h p with
    | none => simp only [hp] at m; exact m
    | some ip =>
      cases hq : resolve h q with
      | none => simp only [hp, hq] at m; exact m
      | some t =>
        cases ho : h.get ip with
        | none => simp only [hp, hq, ho] at m; exact m
        | some o =>
          simp only [hp, hq, ho] at m
          have hsome : (h.get ip).isSome := by simp [ho]
          generalize hO : ({ o with strong := o.strong.set k ⟨true, t, false⟩ } : Obj) = onew at m
          have hlive : ∀ j, ((setObj h ip onew).get j).isSome = (h.get j).isSome := by
            intro j; rw [setObj_get h ip onew hsome]
            by_cases c : j = ip
            · subst c; simp [ho]
            · simp [c]
          induction m with
          | root he hs => exact MReach.root he (hlive _ ▸ hs)
          | step _ hoj he hs ih =>
            rename_i j oj e _
            rw [hlive] at hs
            rw [setObj_get h ip onew hsome] at hoj
            by_cases c : j = ip
            · simp only [c, if_true, Option.some.injEq] at hoj
              subst hoj; subst hO
              simp only at he
              rcases List.mem_or_eq_of_mem_set he with he | he
              · exact MReach.step (c ▸ ih) ho he hs
              · subst he; exact resolve_mreach hq
            · simp only [c, if_false] at hoj
              exact MReach.step ih hoj he hs
  | root p =>
    left
    simp only [execHeap] at m
    cases hp : resolve h p with
    | none => simp only [hp] at m; exact m
    | some ip =>
      simp only [hp] at m
      generalize hH : ({ h with roots := ⟨true, ip, false⟩ :: h.roots } : Heap) = hnew at m
      induction m with
      | root he hs =>
        subst hH
        simp only [List.mem_cons] at he
        rcases he with he | he
        · subst he; exact resolve_mreach hp
        · exact MReach.root he hs
      | step _ ho he hs ih => subst hH; exact MReach.step ih ho he hs
  | unroot n =>
    left
    simp only [execHeap] at m
    exact m.congr (fun e he => List.mem_of_mem_eraseIdx he) (fun _ => rfl)
  | emit p => left; exact m
  | same p q => left; exact m

theorem exec_obs {h h' : Heap} (a : Agree h h') (st : Step) : execObs h st = execObs h' st := by
  cases st with
  | emit p =>
    simp only [execObs, ← a.resolve_eq p]
    cases hp : resolve h p with
    | none => rfl
    | some ip =>
      have mip : MReach h ip := resolve_mreach hp
      simp only [Option.bind_some]
      cases ho : h.get ip with
      | none =>
        have := a.isSome_iff (Or.inl mip)
        rw [ho] at this
        cases ho' : h'.get ip with
        | none => rfl
        | some _ => rw [ho'] at this; simp at this
      | some o =>
        obtain ⟨o', ho', hk, hst⟩ := a.strong_eq (Or.inl mip) ho
        simp [ho', hk, hst]
  | same p q => simp only [execObs, ← a.resolve_eq p, ← a.resolve_eq q]
  | alloc _ _ => rfl
  | store _ _ _ => rfl
  | root _ => rfl
  | unroot _ => rfl

theorem view_of_fresh {h h' : Heap} (a : Agree h h') {i : Id} (k : i = h.size) : objView h i = objView h' i := by
  have e1 : h.get i = none := k ▸ get_size_none h
  have e2 : h'.get i = none := by rw [k, a.size]; exact get_size_none h'
  simp only [objView, e1, e2]

/-- one step preserves agreement -/
theorem exec_agree {h h' : Heap} (a : Agree h h') (st : Step) : Agree (execHeap h st) (execHeap h' st) := by
  have key : ∀ i, MReach (execHeap h st) i ∨ MReach (execHeap h' st) i → (MReach h i ∨ MReach h' i) ∨ i = h.size := by
    intro i m
    rcases m with m | m
    · rcases exec_mreach h st i m with c | c
      · exact Or.inl (Or.inl c)
      · exact Or.inr c
    · rcases exec_mreach h' st i m with c | c
      · exact Or.inl (Or.inr c)
      · exact Or.inr (a.size ▸ c)
  have old : ∀ i, (MReach h i ∨ MReach h' i) ∨ i = h.size → objView h i = objView h' i := by
    intro i k
    rcases k with k | k
    · exact a.view i k
    · exact view_of_fresh a k
  cases st with
  | alloc kind fields =>
    have hf : fields.filterMap (resolve h) = fields.filterMap (resolve h') := by
      congr 1; funext p; exact a.resolve_eq p
    refine ⟨by simp [execHeap, allocObj, a.size], by simp [execHeap, allocObj, a.size, a.roots], ?_⟩
    intro i m
    simp only [execHeap, objView, allocObj_get, hf, a.size]
    by_cases c : i = h'.size
    · simp [c]
    · simp only [c, if_false]
      exact old i (key i m)
  | store p k q =>
    have kk := key
    simp only [execHeap, ← a.resolve_eq p, ← a.resolve_eq q] at kk ⊢
    cases hp : resolve h p with
    | none => simp only [hp]; exact a
    | some ip =>
      cases hq : resolve h q with
      | none => simp only [hp, hq]; exact a
      | some t =>
        have mip : MReach h ip := resolve_mreach hp
        cases ho : h.get ip with
        | none =>
          have := a.isSome_iff (Or.inl mip)
          rw [ho] at this
          cases ho' : h'.get ip with
          | none => simp only [hp, hq, ho, ho']; exact a
          | some _ => rw [ho'] at this; simp at this
        | some o =>
          obtain ⟨o', ho', hk, hst⟩ := a.strong_eq (Or.inl mip) ho
          simp only [hp, hq, ho, ho'] at kk ⊢
          refine ⟨a.size, a.roots, ?_⟩
          intro i m
          simp only [objView]
          rw [setObj_get h ip _ (by simp [ho]), setObj_get h' ip _ (by simp [ho'])]
          by_cases c : i = ip
          · simp [c, hk, hst]
          · simp only [c, if_false]
            exact old i (kk i m)
  | root p =>
    have kk := key
    simp only [execHeap, ← a.resolve_eq p] at kk ⊢
    cases hp : resolve h p with
    | none => simp only [hp]; exact a
    | some ip =>
      simp only [hp] at kk ⊢
      exact ⟨a.size, by simp [a.roots], fun i m => old i (kk i m)⟩
  | unroot n =>
    have kk := key
    simp only [execHeap] at kk ⊢
    exact ⟨a.size, by simp [a.roots], fun i m => old i (kk i m)⟩
  | emit p => exact a
  | same p q => exact a

/-! ### a collection preserves agreement -/

theorem collect_mreach {D : Nat} {h : Heap} {i : Id} (m : MReach (collect D h) i) : MReach h i := by
  have hsome : ∀ j, ((collect D h).get j).isSome → (h.get j).isSome := by
    intro j hj
    rw [collect_get] at hj
    cases hx : h.get j with
    | none => rw [hx] at hj; cases hj
    | some _ => rfl
  have hstrong : ∀ j o', (collect D h).get j = some o' → ∃ o, h.get j = some o ∧ o'.strong = o.strong := by
    intro j o' hj
    rw [collect_get] at hj
    cases hx : h.get j with
    | none => rw [hx] at hj; cases hj
    | some o =>
      rw [hx] at hj
      by_cases c : (mark D h).marked.contains j = true
      · simp only [c, if_true, Option.some.injEq] at hj
        exact ⟨o, rfl, by rw [← hj]; rfl⟩
      · simp [c] at hj
  induction m with
  | root he hs => exact MReach.root he (hsome _ hs)
  | step _ ho he hs ih =>
    obtain ⟨o, ho2, hst⟩ := hstrong _ _ ho
    exact MReach.step ih ho2 (hst ▸ he) (hsome _ hs)

theorem collect_view (D : Nat) (hD : 1 ≤ D) (h : Heap) (i : Id) (m : MReach h i) : objView (collect D h) i = objView h i := by
  have hm := mark_complete h D hD i m.reachable
  have hs := m.isSome
  cases hx : h.get i with
  | none => rw [hx] at hs; cases hs
  | some o => simp [objView, collect_get, hx, hm]

theorem collect_agree (D : Nat) (hD : 1 ≤ D) {h h' : Heap} (a : Agree h h') : Agree (collect D h) h' := by
  -- the mutator reaches the same objects in h and h'
  have back : ∀ i, MReach h' i → MReach h i := by
    intro i m
    induction m with
    | root he hs =>
      have m' : MReach h' _ := MReach.root he hs
      exact MReach.root (a.roots ▸ he) (by rw [a.isSome_iff (Or.inr m')]; exact hs)
    | step m0 ho he hs ih =>
      obtain ⟨o, ho2, _, hst⟩ := a.symm.strong_eq (Or.inr ih) ho
      have m' : MReach h' _ := MReach.step m0 ho he hs
      exact MReach.step ih ho2 (hst ▸ he) (by rw [a.isSome_iff (Or.inr m')]; exact hs)
  refine ⟨a.size, a.roots, ?_⟩
  intro i m
  have mi : MReach h i := by
    rcases m with m | m
    · exact collect_mreach m
    · exact back i m
  rw [collect_view D hD h i mi]
  exact a.view i (Or.inl mi)

/-- the simulation: runs from agreeing heaps under any schedule and under the never-collecting schedule observe the same -/
theorem run_agree (D : Nat) (hD : 1 ≤ D) (sched : Nat → Bool) :
    ∀ (prog : List Step) (n : Nat) (h h' : Heap), Agree h h' →
      run D prog sched n h = run D prog (fun _ => false) n h' := by
  intro prog
  induction prog with
  | nil => intro n h h' _; rfl
  | cons st rest ih =>
    intro n h h' a
    simp only [run, exec]
    have a1 : Agree (if sched n then collect D h else h) h' := by
      by_cases c : sched n = true
      · simp only [c, if_true]; exact collect_agree D hD a
      · simp only [c]; exact a
    rw [exec_obs a1 st]
    simp only [Bool.false_eq_true, if_false]
    rw [ih (n + 1) _ _ (exec_agree a1 st)]

end JanetModel.GC
