/-
C01 — slot-level model of the weak pass of janet_sweep (gc.c, "Sweep weak heap to drop weak refs") and of
janet_check_liveref, for weak-key / weak-value / weak-key-value tables and weak arrays.  Core Lean only (linked into
jm_c01).  The abstract heap model (GC/Model.lean) represents a weak container by `Obj.entries` and the pass by
`clearWeak`; `absTable` / `absArray` below are the abstraction functions and GC/WeakLemmas.lean proves that the slot-level
pass refines `clearWeak`, so every theorem about `collect` speaks about the C-shaped pass.
-/
import JanetModel.GC.Model

namespace JanetModel.GC
open Std

/-- what a table / array slot holds, as far as the collector is concerned -/
inductive SVal where
  | nil
  | fls                 -- boolean false (the value of a tombstone)
  | imm                 -- any other immediate (number, true, cfunction, pointer)
  | ref (i : Id)        -- a heap block
  deriving Repr, DecidableEq

/-- janet_check_liveref: immediates are always live, a reference is live iff its block was marked -/
def checkLiveref (m : HashSet Nat) : SVal → Bool
  | .ref i => m.contains i
  | _ => true

def SVal.toVal : SVal → Val
  | .ref i => .ref i
  | _ => .imm

structure KV where
  key : SVal
  value : SVal
  deriving Repr, DecidableEq

/-- a weak table block: `data[0 .. capacity)`, `count`, `deleted`, prototype -/
structure WTable where
  kind : Nat
  data : List KV
  count : Nat
  deleted : Nat
  proto : Option Id := none
  deriving Repr, DecidableEq

def checkKeys (kind : Nat) : Bool := kind == Gen.GC.memTableWeakK || kind == Gen.GC.memTableWeakKV
def checkValues (kind : Nat) : Bool := kind == Gen.GC.memTableWeakV || kind == Gen.GC.memTableWeakKV

/-- `drop` of one slot:  `if (check_keys && !liveref(key)) drop = 1; if (check_values && !liveref(value)) drop = 1;` -/
def dropSlot (m : HashSet Nat) (kind : Nat) (kv : KV) : Bool :=
  (checkKeys kind && !checkLiveref m kv.key) || (checkValues kind && !checkLiveref m kv.value)

/-- the tombstone the pass writes: `kvs->key = janet_wrap_nil(); kvs->value = janet_wrap_false();` -/
def tombstone : KV := ⟨.nil, .fls⟩

/-- the `while (kvs < end)` loop over the slots, threading `count` and `deleted` -/
def sweepSlots (m : HashSet Nat) (kind : Nat) : List KV → Nat → Nat → List KV × Nat × Nat
  | [], c, d => ([], c, d)
  | kv :: rest, c, d =>
    if dropSlot m kind kv then
      let r := sweepSlots m kind rest (c - 1) (d + 1)          -- table->count--; table->deleted++;
      (tombstone :: r.1, r.2)
    else
      let r := sweepSlots m kind rest c d
      (kv :: r.1, r.2)

def sweepWeakTable (m : HashSet Nat) (t : WTable) : WTable :=
  let r := sweepSlots m t.kind t.data t.count t.deleted
  { t with data := r.1, count := r.2.1, deleted := r.2.2 }

/-- weak array: `if (!janet_check_liveref(array->data[i])) array->data[i] = janet_wrap_nil();` — `count` does not change -/
def nilIfDead (m : HashSet Nat) (v : SVal) : SVal := if checkLiveref m v then v else .nil

def sweepWeakArray (m : HashSet Nat) (items : List SVal) : List SVal := items.map (nilIfDead m)

/-! ### abstraction to the heap model's weak entries -/

/-- a slot that holds an entry (its key is not nil) -/
def KV.occupied (kv : KV) : Bool := kv.key != .nil

/-- the model block of a weak table: one weak entry per occupied slot (as `Obj.table` builds them) -/
def absTable (t : WTable) : Obj :=
  Obj.table (checkKeys t.kind) (checkValues t.kind) ((t.data.filter KV.occupied).map (fun kv => (kv.key.toVal, kv.value.toVal))) t.proto

def refEntry : SVal → Option WeakEntry
  | .ref i => some ⟨[i], []⟩
  | _ => none

/-- the model block of a weak array: one weak entry per slot that holds a reference -/
def absArray (items : List SVal) : Obj :=
  { kind := Gen.GC.memArrayWeak, strong := [], entries := items.filterMap refEntry }

/-- well-formed table slots: an empty slot or tombstone (nil key) holds no reference, and `count` counts the occupied slots -/
def WTable.wf (t : WTable) : Bool :=
  t.data.all (fun kv => kv.occupied || (kv.value matches .nil | .fls | .imm)) && t.count == (t.data.filter KV.occupied).length

end JanetModel.GC
