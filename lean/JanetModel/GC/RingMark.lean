/- The mark phase's walks over a JanetQueue (ev.c): `janet_ev_mark` (the run queue janet_vm.spawn - a ROOT set),
   `janet_chanat_mark_fq` (fibers pending on a channel) and `janet_chanat_mark` (values in flight in a channel).
   The loops are regenerated from the source as data (`Gen.GC.ringWalk*` : for-loops with init / comparison / bound / step
   over the terms 0, head, tail, capacity, optionally under one if/else); this file interprets that data and proves that the
   two loop shapes known to be right visit exactly the occupied slots of the ring, head first, for EVERY well-formed queue
   state - contiguous, wrapped, write position at slot 0, empty - and hence (with `Ev/QueueLemmas.lean`) mark exactly the
   abstract content of the queue after every history of janet_q_push / push_head / pop.
   CORE LEAN ONLY. -/
import JanetModel.Gen.GC
import JanetModel.Ev.QueueLemmas

namespace JanetModel.GC.RingMark
open JanetModel.Gen.GC JanetModel.Ev

/-- the three integers of a JanetQueue the walks read -/
structure QS where
  head : Nat
  tail : Nat
  cap : Nat
  deriving DecidableEq, Repr

def evalT (s : QS) : QTerm → Nat
  | .head => s.head
  | .tail => s.tail
  | .cap => s.cap
  | .zero => 0

def holds : QCmp → Nat → Nat → Bool
  | .lt, a, b => decide (a < b)
  | .le, a, b => decide (a ≤ b)
  | .ne, a, b => decide (a ≠ b)

def nextI (s : QS) : QStep → Nat → Nat
  | .inc, i => i + 1
  | .wrapInc, i => if i + 1 < s.cap then i + 1 else 0

/-- `for (i = a; i cmp bound; step) visit(i)`: the indices visited, in order.  `fuel` bounds the number of iterations;
    the theorems below hold for every fuel ≥ capacity, i.e. the loops stop by themselves. -/
def runLoop (s : QS) (l : ForLoop) : Nat → Nat → List Nat
  | 0, _ => []
  | fuel + 1, i => if holds l.cmp i (evalT s l.bound) then i :: runLoop s l fuel (nextI s l.step i) else []

def runLoops (fuel : Nat) (s : QS) : List ForLoop → List Nat
  | [] => []
  | l :: ls => runLoop s l fuel (evalT s l.init) ++ runLoops fuel s ls

def runWalk (fuel : Nat) (s : QS) : RingWalk → List Nat
  | .seq ls => runLoops fuel s ls
  | .ite a c b t e => if holds c (evalT s a) (evalT s b) then runLoops fuel s t else runLoops fuel s e

/-! ### specification: the occupied slots of the ring, head first (same definitions as `RingQ.count` / `RingQ.slot`) -/

def WF (s : QS) : Prop := (s.cap = 0 ∧ s.head = 0 ∧ s.tail = 0) ∨ (s.head < s.cap ∧ s.tail < s.cap)
def count (s : QS) : Nat := if s.head > s.tail then s.tail + s.cap - s.head else s.tail - s.head
def slot (s : QS) (i : Nat) : Nat := if s.head + i < s.cap then s.head + i else s.head + i - s.cap
def ringSlots (s : QS) : List Nat := (List.range (count s)).map (slot s)

instance (s : QS) : Decidable (WF s) := by unfold WF; exact inferInstance

/-! ### the two loop shapes -/

/-- `if (head <= tail) for (i = head; i < tail; i++) …  else { for (i = head; i < capacity; i++) …  for (i = 0; i < tail; i++) … }` -/
def twoSegment : RingWalk :=
  .ite .head .le .tail [⟨.head, .lt, .tail, .inc⟩] [⟨.head, .lt, .cap, .inc⟩, ⟨.zero, .lt, .tail, .inc⟩]

/-- `for (i = head; i != tail; i = i + 1 < capacity ? i + 1 : 0) …` (the idiom of janet_channel_has_reader) -/
def wrapLoop : RingWalk := .seq [⟨.head, .ne, .tail, .wrapInc⟩]

/-- the walk is one of the shapes proved right below (anything else - e.g. `i < tail` with the wrapping step, a bound off
    by one, a missing second segment - is rejected) -/
def knownSound (w : RingWalk) : Bool := decide (w = twoSegment) || decide (w = wrapLoop)

theorem runLoop_inc_lt (s : QS) (i0 b : QTerm) : ∀ (fuel a : Nat), evalT s b - a ≤ fuel →
    runLoop s ⟨i0, .lt, b, .inc⟩ fuel a = List.range' a (evalT s b - a) := by
  intro fuel
  induction fuel with
  | zero =>
    intro a h
    have : evalT s b - a = 0 := by omega
    rw [this]; rfl
  | succ n ih =>
    intro a h
    unfold runLoop
    by_cases hlt : a < evalT s b
    · have e : evalT s b - a = (evalT s b - (a + 1)) + 1 := by omega
      simp only [holds, nextI, hlt, decide_true, if_true]
      rw [ih (a + 1) (by omega), e, List.range'_succ]
    · have e : evalT s b - a = 0 := by omega
      simp only [holds, hlt, decide_false]
      rw [e]; rfl

theorem runLoop_ne_wrap (s : QS) (h1 : s.head < s.cap) (h2 : s.tail < s.cap) (i0 : QTerm) :
    ∀ (fuel k : Nat), k ≤ count s → count s - k ≤ fuel →
      runLoop s ⟨i0, .ne, .tail, .wrapInc⟩ fuel (slot s k) = (List.range (count s - k)).map (fun i => slot s (k + i)) := by
  intro fuel
  induction fuel with
  | zero =>
    intro k hk hf
    have : count s - k = 0 := by omega
    rw [this]; rfl
  | succ n ih =>
    intro k hk hf
    unfold runLoop
    by_cases hend : k = count s
    · have e1 : slot s k = s.tail := by
        rw [hend]; unfold slot count; repeat' split
        all_goals omega
      simp only [holds, evalT, e1, ne_eq, not_true_eq_false, decide_false]
      rw [hend]; simp
    · have hlt : k < count s := by omega
      have e1 : slot s k ≠ s.tail := by
        unfold slot; unfold count at hlt; repeat' split
        all_goals (split at hlt <;> omega)
      have e2 : (if slot s k + 1 < s.cap then slot s k + 1 else 0) = slot s (k + 1) := by
        unfold slot; unfold count at hlt; repeat' split
        all_goals (split at hlt <;> omega)
      simp only [holds, evalT, nextI, ne_eq, e1, not_false_eq_true, decide_true, if_true]
      rw [e2, ih (k + 1) (by omega) (by omega)]
      have : count s - k = (count s - (k + 1)) + 1 := by omega
      rw [this, List.range_succ_eq_map, List.map_cons, List.map_map]
      congr 1
      apply List.map_congr_left
      intro i _
      simp only [Function.comp]
      congr 1
      omega

theorem twoSegment_visits_ring (s : QS) (wf : WF s) (fuel : Nat) (hf : s.cap ≤ fuel) :
    runWalk fuel s twoSegment = ringSlots s := by
  unfold twoSegment runWalk ringSlots
  by_cases hle : s.head ≤ s.tail
  · have hc : count s = s.tail - s.head := by unfold count; rw [if_neg (by omega)]
    simp only [holds, evalT, hle, decide_true, if_true, runLoops, List.append_nil]
    have hfu : evalT s .tail - s.head ≤ fuel := by
      simp only [evalT]; rcases wf with ⟨a, b, c⟩ | ⟨a, b⟩ <;> omega
    rw [runLoop_inc_lt s .head .tail fuel s.head hfu, hc, List.range'_eq_map_range]
    simp only [evalT]
    apply List.map_congr_left
    intro i hi
    have := List.mem_range.mp hi
    unfold slot
    rcases wf with ⟨a, b, c⟩ | ⟨a, b⟩
    · omega
    · rw [if_pos (by omega)]
  · have hgt : s.head > s.tail := by omega
    have hc : count s = (s.cap - s.head) + s.tail := by
      unfold count; rw [if_pos hgt]
      rcases wf with ⟨a, b, c⟩ | ⟨a, b⟩ <;> omega
    have hh : s.head < s.cap := by rcases wf with ⟨a, b, c⟩ | ⟨a, b⟩ <;> omega
    have ht : s.tail < s.cap := by rcases wf with ⟨a, b, c⟩ | ⟨a, b⟩ <;> omega
    simp only [holds, evalT, hle, decide_false, runLoops, List.append_nil]
    have hf1 : evalT s .cap - s.head ≤ fuel := by simp only [evalT]; omega
    have hf2 : evalT s .tail - 0 ≤ fuel := by simp only [evalT]; omega
    have r1 := runLoop_inc_lt s .head .cap fuel s.head hf1
    have r2 := runLoop_inc_lt s .zero .tail fuel 0 hf2
    simp only [evalT] at r1 r2
    simp only [Bool.false_eq_true, if_false]
    rw [r1, r2, hc, List.range_add, List.map_append, List.map_map, List.range'_eq_map_range, List.range'_eq_map_range]
    congr 1
    · apply List.map_congr_left
      intro i hi
      have := List.mem_range.mp hi
      unfold slot
      rw [if_pos (by omega)]
    · simp only [Nat.sub_zero]
      apply List.map_congr_left
      intro i hi
      have := List.mem_range.mp hi
      simp only [Function.comp]
      unfold slot
      rw [if_neg (by omega)]
      omega

theorem wrapLoop_visits_ring (s : QS) (wf : WF s) (fuel : Nat) (hf : s.cap ≤ fuel) :
    runWalk fuel s wrapLoop = ringSlots s := by
  unfold wrapLoop runWalk ringSlots
  simp only [runLoops, List.append_nil, evalT]
  rcases wf with ⟨a, b, c⟩ | ⟨a, b⟩
  · have hc : count s = 0 := by unfold count; split <;> omega
    rw [hc]
    cases fuel with
    | zero => rfl
    | succ n =>
      unfold runLoop
      simp only [holds, evalT, b, c, ne_eq, not_true_eq_false, decide_false]
      rfl
  · have hcl : count s < s.cap := by unfold count; split <;> omega
    have hs0 : slot s 0 = s.head := by unfold slot; rw [if_pos (by omega)]; rfl
    have := runLoop_ne_wrap s a b .head fuel 0 (Nat.zero_le _) (by omega)
    rw [hs0] at this
    rw [this]
    simp

/-- every walk of a known-sound shape visits exactly the occupied slots, head first, whatever the state of the ring -/
theorem sound_walk_visits_ring (w : RingWalk) (hw : knownSound w = true) (s : QS) (wf : WF s) (fuel : Nat)
    (hf : s.cap ≤ fuel) : runWalk fuel s w = ringSlots s := by
  unfold knownSound at hw
  rcases Bool.or_eq_true _ _ |>.mp hw with h | h
  · rw [of_decide_eq_true h]; exact twoSegment_visits_ring s wf fuel hf
  · rw [of_decide_eq_true h]; exact wrapLoop_visits_ring s wf fuel hf

/-! ### on the queue model of `Ev/Queue.lean` -/

def qs {α : Type} (q : RingQ α) : QS := ⟨q.head, q.tail, q.cap⟩

/-- what the walk passes to janet_mark -/
def marked {α : Type} (fuel : Nat) (w : RingWalk) (q : RingQ α) : List α := (runWalk fuel (qs q) w).map q.data

theorem marked_eq_toList {α : Type} (w : RingWalk) (hw : knownSound w = true) (q : RingQ α) (h : q.WF) (fuel : Nat)
    (hf : q.cap ≤ fuel) : marked fuel w q = q.toList := by
  unfold marked
  rw [sound_walk_visits_ring w hw (qs q) h fuel hf, RingQ.toList_eq q h]
  unfold ringSlots
  rw [List.map_map]
  rfl

/-- the operations ev.c performs on a queue -/
inductive QOp (α : Type) where
  | push (x : α)
  | pushHead (x : α)
  | pop

/-- one operation; `none` = the queue is at JANET_MAX_Q_CAPACITY (janet_q_push returns 1, callers raise an error);
    a pop from an empty queue changes nothing (returns 1) -/
def stepQ {α : Type} (maxCap : Nat) (q : RingQ α) : QOp α → Option (RingQ α)
  | .push x => q.push maxCap x
  | .pushHead x => q.pushHead maxCap x
  | .pop => match q.pop with
    | none => some q
    | some (_, q') => some q'

def runQ {α : Type} (maxCap : Nat) : RingQ α → List (QOp α) → Option (RingQ α)
  | q, [] => some q
  | q, op :: ops => match stepQ maxCap q op with
    | none => none
    | some q' => runQ maxCap q' ops

/-- the same operations on the abstract content -/
def absStep {α : Type} (l : List α) : QOp α → List α
  | .push x => l ++ [x]
  | .pushHead x => x :: l
  | .pop => l.tail

theorem stepQ_spec {α : Type} (maxCap : Nat) (q q' : RingQ α) (h : q.WF) (op : QOp α) (hs : stepQ maxCap q op = some q') :
    q'.WF ∧ q'.toList = absStep q.toList op := by
  cases op with
  | push x => have := RingQ.push_spec maxCap q h x q' hs; exact ⟨this.2, this.1⟩
  | pushHead x => have := RingQ.pushHead_spec maxCap q h x q' hs; exact ⟨this.2, this.1⟩
  | pop =>
    unfold stepQ at hs
    cases hp : q.pop with
    | none =>
      rw [hp] at hs
      cases hs
      refine ⟨h, ?_⟩
      rw [(RingQ.pop_none q h).mp hp]; rfl
    | some r =>
      obtain ⟨x, q2⟩ := r
      rw [hp] at hs
      cases hs
      have := RingQ.pop_some q h x q' hp
      refine ⟨this.2, ?_⟩
      rw [this.1]; rfl

theorem runQ_spec {α : Type} (maxCap : Nat) : ∀ (ops : List (QOp α)) (q q' : RingQ α), q.WF → runQ maxCap q ops = some q' →
    q'.WF ∧ q'.toList = ops.foldl absStep q.toList := by
  intro ops
  induction ops with
  | nil => intro q q' h hr; cases hr; exact ⟨h, rfl⟩
  | cons op ops ih =>
    intro q q' h hr
    unfold runQ at hr
    cases hs : stepQ maxCap q op with
    | none => rw [hs] at hr; cases hr
    | some q1 =>
      rw [hs] at hr
      have s1 := stepQ_spec maxCap q q1 h op hs
      have := ih q1 q' s1.1 hr
      refine ⟨this.1, ?_⟩
      rw [this.2, s1.2]; rfl

theorem init_wf {α : Type} (d : α) : (RingQ.init d).WF := Or.inl ⟨rfl, rfl, rfl⟩
theorem init_toList {α : Type} (d : α) : (RingQ.init d).toList = [] := rfl

end JanetModel.GC.RingMark
