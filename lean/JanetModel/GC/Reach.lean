/-
C01 — reachability in a model heap (specification side; no executable content).
-/
import JanetModel.GC.Model

namespace JanetModel.GC

/-- `i` is a heap block the mark phase has to find: it is referenced from the root set, or strongly from a reachable block -/
inductive Reachable (h : Heap) : Id → Prop
  | root {e : Edge} : e ∈ h.roots → (h.get e.tgt).isSome → Reachable h e.tgt
  | step {i : Id} {o : Obj} {e : Edge} : Reachable h i → h.get i = some o → e ∈ outEdges o → (h.get e.tgt).isSome →
      Reachable h e.tgt

theorem Reachable.isSome {h : Heap} {i : Id} (r : Reachable h i) : (h.get i).isSome := by
  cases r <;> assumption

end JanetModel.GC
