/-
C01 — sweep / collect facts.
-/
import JanetModel.GC.MarkCorrect

namespace JanetModel.GC
open Std

theorem get_lt {h : Heap} {i : Id} {o : Obj} (hx : h.get i = some o) : i < h.size := by
  unfold Heap.get at hx
  by_cases c : i < h.size
  · exact c
  · simp [c] at hx

@[simp] theorem clearWeak_kind (m : HashSet Nat) (o : Obj) : (clearWeak m o).kind = o.kind := rfl
@[simp] theorem clearWeak_strong (m : HashSet Nat) (o : Obj) : (clearWeak m o).strong = o.strong := rfl

/-- the three passes together: a block survives iff it is marked; survivors only lose dead weak slots -/
theorem sweep_get (m : HashSet Nat) (h : Heap) (i : Id) :
    (sweep m h).get i = match h.get i with
      | some o => if m.contains i then some (clearWeak m o) else none
      | none => none := by
  cases hx : h.get i with
  | none =>
    simp only [sweep, sweepFree, sweepPass1, Heap.get]
    by_cases c : i < h.size
    · have : h.obj i = none := by simpa [Heap.get, c] using hx
      simp [c, Heap.get, this]
    · simp [c]
  | some o =>
    have c := get_lt hx
    have ho : h.obj i = some o := by simpa [Heap.get, c] using hx
    by_cases hm : m.contains i = true
    · have hm2 : i ∈ m := HashSet.mem_iff_contains.mpr hm
      by_cases hk : isWeakKind o.kind = true <;>
        simp [sweep, sweepFree, sweepPass1, Heap.get, c, ho, hm, hm2, hk]
    · have hm' : m.contains i = false := by simpa using hm
      have hm2 : ¬ i ∈ m := fun c => hm (HashSet.mem_iff_contains.mp c)
      by_cases hk : isWeakKind o.kind = true <;>
        simp [sweep, sweepFree, sweepPass1, Heap.get, c, ho, hm', hm2, hk]

theorem collect_size (D : Nat) (h : Heap) : (collect D h).size = h.size := rfl
theorem collect_roots (D : Nat) (h : Heap) : (collect D h).roots = h.roots := rfl

theorem collect_get (D : Nat) (h : Heap) (i : Id) :
    (collect D h).get i = match h.get i with
      | some o => if (mark D h).marked.contains i then some (clearWeak (mark D h).marked o) else none
      | none => none := sweep_get _ h i

theorem mem_outEdges_clearWeak {m : HashSet Nat} {o : Obj} {e : Edge} (he : e ∈ outEdges (clearWeak m o)) :
    e ∈ outEdges o := by
  simp only [outEdges, clearWeak, List.mem_append, List.mem_flatMap, List.mem_filter] at he ⊢
  rcases he with he | ⟨en, ⟨hen, _⟩, he⟩
  · exact Or.inl he
  · exact Or.inr ⟨en, hen, he⟩

end JanetModel.GC
