/-
C01 — executable model of janet's collector (src/core/gc.c).  Core Lean + Std only (linked into jm_c01).

Heap      finite map Id → Obj (ids < size), root list.
Obj       kind (JanetMemoryType), ordered strong references, weak entries.
          A strong reference carries how the collector reaches its target:
            dec = true   through a Janet value, i.e. `janet_mark(x)`: the depth counter is checked / decremented
            dec = false  through a typed C pointer: direct call `janet_mark_function(frame->func)`,
                         `janet_mark_funcenv(func->envs[i])`, or the manual tail loops
                         `table = table->proto; goto recur`, `fiber = fiber->child; goto recur` (no depth change);
                         with lvl = true: `if (depth) { depth--; janet_mark_funcdef(def->defs[i]); depth++; } else
                         janet_mark_funcdef(def->defs[i]);` — a level is taken while one is left, never a spill
          A weak entry is one slot of a weak table / weak array: the weakly held referents and what the slot holds
          strongly while it exists (the value of a weak-key table slot, the key of a weak-value slot).
mark      mirrors janet_collect's mark phase:  `markObj` = janet_mark_<type>, `markVal` = janet_mark (depth check,
          spill to the root list with janet_gcroot when the counter is 0), `markRoots` = ev roots / root fiber / explicit
          roots, `drain` = the loop `while (orig_rootcount < janet_vm.root_count)`.
sweep     mirrors janet_sweep: pass 1 clears weak slots whose referent is dead, pass 2 frees unmarked blocks of the weak
          list, pass 3 frees unmarked blocks of the normal list.
The per-type constructors at the end (`Obj.table`, `Obj.fiber`, `Obj.funcenv`, …) mirror the janet_mark_* functions
field by field; the theorems are about arbitrary `Obj`s.
-/
import Std.Data.HashSet
import JanetModel.Gen.GC

namespace JanetModel.GC
open Std

abbrev Id := Nat

structure Edge where
  dec : Bool
  tgt : Id
  /-- for a typed-pointer edge (`dec = false`): the callee is entered one marking level lower while a level is left, and
  at level 0 it is entered all the same — nothing is deferred (`janet_mark_funcdef(def->defs[i])` since a60a379) -/
  lvl : Bool
  deriving Repr, DecidableEq

structure WeakEntry where
  weak : List Id
  strong : List Edge
  deriving Repr, DecidableEq

structure Obj where
  kind : Nat
  strong : List Edge
  entries : List WeakEntry := []
  deriving Repr, DecidableEq

/-- every reference the mark phase follows out of `o` -/
def outEdges (o : Obj) : List Edge := o.strong ++ o.entries.flatMap WeakEntry.strong

structure Heap where
  size : Nat
  obj : Id → Option Obj
  roots : List Edge

def Heap.get (h : Heap) (i : Id) : Option Obj := if i < h.size then h.obj i else none

/-- mark-phase state: mark bits, the values spilled to `janet_vm.roots[orig_rootcount ..]` (head = top), and a flag
that is raised only if the model's recursion fuel runs out (`mark_terminates` proves it never is) -/
structure MState where
  marked : HashSet Nat
  spill : List Id
  stuck : Bool

def MState.isMarked (s : MState) (i : Id) : Bool := s.marked.contains i

/-- `janet_mark_<type>(x)` with the depth counter currently `d` -/
def markObj (h : Heap) : Nat → Nat → Id → MState → MState
  | 0, _, _, s => { s with stuck := true }
  | fuel + 1, d, x, s =>
    match h.get x with
    | none => s
    | some o =>
      if s.marked.contains x then s
      else
        (outEdges o).foldl
          (fun s e =>
            if e.dec then
              -- janet_mark(child): `if (depth) { depth--; …; depth++ } else janet_gcroot(child)`
              (if d = 0 then { s with spill := e.tgt :: s.spill } else markObj h fuel (d - 1) e.tgt s)
            else markObj h fuel (if e.lvl then d - 1 else d) e.tgt s)
          { s with marked := s.marked.insert x }

/-- one reference followed from an object or from the root set, depth counter `d` -/
def markEdge (h : Heap) (fuel d : Nat) (s : MState) (e : Edge) : MState :=
  if e.dec then (if d = 0 then { s with spill := e.tgt :: s.spill } else markObj h fuel (d - 1) e.tgt s)
  else markObj h fuel (if e.lvl then d - 1 else d) e.tgt s

/-- weight of the unmarked part of the heap: bounds both the recursion depth and the number of drain iterations -/
def objWeight (h : Heap) (i : Id) : Nat :=
  match h.get i with
  | some o => (outEdges o).length + 1
  | none => 0

def weight (h : Heap) (s : MState) : Nat :=
  ((List.range h.size).map (fun i => if s.marked.contains i then 0 else objWeight h i)).sum

/-- `while (orig_rootcount < janet_vm.root_count) { x = roots[--root_count]; janet_mark(x); }` -/
def drain (h : Heap) (fuel D : Nat) : Nat → MState → MState
  | 0, s => match s.spill with
    | [] => s
    | _ :: _ => { s with stuck := true }
  | n + 1, s => match s.spill with
    | [] => s
    | x :: rest => drain h fuel D n (markEdge h fuel D { s with spill := rest } ⟨true, x, false⟩)

def MState.init : MState := { marked := ∅, spill := [], stuck := false }

def markRoots (h : Heap) (fuel D : Nat) (s : MState) : MState :=
  h.roots.foldl (markEdge h fuel D) s

/-- the mark phase of `janet_collect` with `depth = D` -/
def mark (D : Nat) (h : Heap) : MState :=
  let fuel := weight h MState.init + 1
  let s := markRoots h fuel D MState.init
  drain h fuel D (s.spill.length + weight h s + 1) s

/-! ### sweep -/

def isWeakKind (k : Nat) : Bool := decide (Gen.GC.memTableWeakK ≤ k)

/-- pass 1 on one reachable weak block: drop every slot one of whose weak referents was not marked -/
def clearWeak (m : HashSet Nat) (o : Obj) : Obj :=
  { o with entries := o.entries.filter (fun en => en.weak.all (fun w => m.contains w)) }

def sweepPass1 (m : HashSet Nat) (h : Heap) : Heap :=
  { h with obj := fun i => (h.get i).map (fun o => if m.contains i then clearWeak m o else o) }

/-- passes 2 and 3: free the unmarked blocks of the weak list (`weakList = true`) resp. of the normal list -/
def sweepFree (weakList : Bool) (m : HashSet Nat) (h : Heap) : Heap :=
  { h with obj := fun i =>
      match h.get i with
      | some o => if isWeakKind o.kind = weakList ∧ ¬ m.contains i then none else some o
      | none => none }

def sweep (m : HashSet Nat) (h : Heap) : Heap := sweepFree false m (sweepFree true m (sweepPass1 m h))

def collect (D : Nat) (h : Heap) : Heap := sweep (mark D h).marked h

/-! ### per-type constructors mirroring `janet_mark_*` (gc.c:99-312) -/

/-- a Janet value as far as the collector is concerned -/
inductive Val where
  | imm
  | ref (i : Id)
  deriving Repr, DecidableEq

def Val.edges : Val → List Edge
  | .imm => []
  | .ref i => [⟨true, i, false⟩]

def Val.ids : Val → List Id
  | .imm => []
  | .ref i => [i]

def vals (vs : List Val) : List Edge := vs.flatMap Val.edges
def ptr (p : Option Id) : List Edge := match p with | some i => [⟨false, i, false⟩] | none => []

open Gen.GC in
def Obj.leaf (kind : Nat) : Obj := { kind, strong := [] }
open Gen.GC in
/-- janet_mark_array: items only when the block type is ARRAY (not ARRAY_WEAK) -/
def Obj.array (weak : Bool) (items : List Val) : Obj :=
  if weak then { kind := memArrayWeak, strong := [], entries := items.map (fun v => ⟨v.ids, []⟩) }
  else { kind := memArray, strong := vals items }
open Gen.GC in
def Obj.tuple (items : List Val) : Obj := { kind := memTuple, strong := vals items }
open Gen.GC in
/-- janet_mark_table: values / keys / both / neither by weak kind, then the prototype tail loop -/
def Obj.table (weakK weakV : Bool) (kvs : List (Val × Val)) (proto : Option Id) : Obj :=
  match weakK, weakV with
  | false, false => { kind := memTable, strong := kvs.flatMap (fun kv => kv.1.edges ++ kv.2.edges) ++ ptr proto }
  | true, false => { kind := memTableWeakK, strong := ptr proto, entries := kvs.map (fun kv => ⟨kv.1.ids, kv.2.edges⟩) }
  | false, true => { kind := memTableWeakV, strong := ptr proto, entries := kvs.map (fun kv => ⟨kv.2.ids, kv.1.edges⟩) }
  | true, true => { kind := memTableWeakKV, strong := ptr proto, entries := kvs.map (fun kv => ⟨kv.1.ids ++ kv.2.ids, []⟩) }
open Gen.GC in
def Obj.struct (kvs : List (Val × Val)) (proto : Option Id) : Obj :=
  { kind := memStruct, strong := kvs.flatMap (fun kv => kv.1.edges ++ kv.2.edges) ++ ptr proto }

structure Frame where
  func : Option Id
  env : Option Id
  slots : List Val

open Gen.GC in
/-- janet_mark_fiber: last_value, pushed arguments, each frame's function / environment / slots, the dynamic-binding
table, supervisor channel, stream, whatever the pending event callback marks, then the child tail loop -/
def Obj.fiber (lastValue : Val) (args : List Val) (frames : List Frame) (env supervisor stream : Option Id)
    (evState : List Val) (child : Option Id) : Obj :=
  { kind := memFiber,
    strong := lastValue.edges ++ vals args ++ frames.flatMap (fun f => ptr f.func ++ ptr f.env ++ vals f.slots)
      ++ ptr env ++ ptr supervisor ++ ptr stream ++ vals evState ++ ptr child }
open Gen.GC in
def Obj.function (fdef : Option Id) (envs : List Id) : Obj :=
  { kind := memFunction, strong := match fdef with
      | some d => envs.map (fun e => ⟨false, e, false⟩) ++ [⟨false, d, false⟩]
      | none => [] }
/-- janet_env_maybe_detach, run by the mark phase on every reachable closure environment that is still on a fiber's
stack: the environment is copied off the stack iff the owning fiber's status is in the (regenerated) detach set -/
def detachOnMark (fiberStatus : Nat) : Bool := Gen.GC.detachStatuses.contains fiberStatus

/-- where a closure environment keeps its slots -/
inductive EnvMode where
  | onStack (fiber : Id)
  | detached
  deriving Repr, DecidableEq

/-- the mode of an environment after the mark phase has visited it -/
def envModeAfterMark (onStack : Option Id) (fiberStatus : Nat) : EnvMode :=
  match onStack with
  | some f => if detachOnMark fiberStatus then .detached else .onStack f
  | none => .detached

open Gen.GC in
/-- janet_mark_funcenv after janet_env_maybe_detach: still on the stack of a fiber that can run again → the fiber
(through `janet_mark`, so that fiber → frame function → environment → fiber chains are cut by the depth guard);
otherwise (already detached, or the fiber is finished and the slots are copied out) → the captured values -/
def Obj.funcenv (onStack : Option Id) (fiberStatus : Nat) (values : List Val) : Obj :=
  { kind := memFuncEnv, strong := match envModeAfterMark onStack fiberStatus with
      | .onStack f => [⟨true, f, false⟩]
      | .detached => vals values }
open Gen.GC in
def Obj.funcdef (constants : List Val) (defs : List Id) (source name : Option Id) (symbols : List Id) : Obj :=
  { kind := memFuncDef, strong := vals constants ++ defs.map (fun d => ⟨false, d, Gen.GC.funcdefNestTakesLevel⟩) ++ ptr source ++ ptr name
      ++ symbols.map (fun s => ⟨false, s, false⟩) }
open Gen.GC in
/-- janet_mark_abstract: the type's gcmark callback marks values (stream fibers, channel items and waiters, parser
stack, peg constants, process pipes) -/
def Obj.abstract (marks : List Val) : Obj := { kind := memAbstract, strong := vals marks }

def Heap.ofList (objs : List Obj) (roots : List Edge) : Heap :=
  { size := objs.length, obj := fun i => objs[i]?, roots }

end JanetModel.GC
