/-
C01 — correctness of the model's mark phase: invariants of `markObj` / `markEdge` / `drain`.
-/
import JanetModel.GC.Reach

namespace JanetModel.GC
open Std

/-! ### sums over the id range -/

theorem sum_map_le {l : List Nat} {f g : Nat → Nat} (hle : ∀ i ∈ l, g i ≤ f i) : (l.map g).sum ≤ (l.map f).sum := by
  induction l with
  | nil => simp
  | cons a l ih =>
    simp only [List.map_cons, List.sum_cons]
    have h1 := hle a (by simp)
    have h2 := ih (fun i hi => hle i (by simp [hi]))
    omega

theorem sum_map_drop {l : List Nat} {f g : Nat → Nat} (hle : ∀ i ∈ l, g i ≤ f i) {x : Nat} (hx : x ∈ l) {c : Nat}
    (hc : g x + c ≤ f x) : (l.map g).sum + c ≤ (l.map f).sum := by
  induction l with
  | nil => simp at hx
  | cons a l ih =>
    simp only [List.map_cons, List.sum_cons]
    have h1 := hle a (by simp)
    have h2 : (l.map g).sum ≤ (l.map f).sum := sum_map_le (fun i hi => hle i (by simp [hi]))
    rcases List.mem_cons.mp hx with hxa | hxl
    · subst hxa; omega
    · have h3 := ih (fun i hi => hle i (by simp [hi])) hxl
      omega

/-! ### unfolding -/

theorem markObj_zero (h : Heap) (d x : Nat) (s : MState) : markObj h 0 d x s = { s with stuck := true } := rfl

theorem markObj_succ (h : Heap) (fuel d x : Nat) (s : MState) :
    markObj h (fuel + 1) d x s =
      match h.get x with
      | none => s
      | some o =>
        if s.marked.contains x then s
        else (outEdges o).foldl (markEdge h fuel d) { s with marked := s.marked.insert x } := rfl

/-! ### weight -/

theorem weight_mono (h : Heap) {s s' : MState} (hm : ∀ i, s.marked.contains i = true → s'.marked.contains i = true) :
    weight h s' ≤ weight h s := by
  unfold weight
  apply sum_map_le
  intro i _
  by_cases c : s.marked.contains i = true
  · simp [c, hm i c]
  · by_cases c' : s'.marked.contains i = true <;> simp [c, c']

theorem weight_insert (h : Heap) (s : MState) (x : Nat) (o : Obj) (hx : h.get x = some o)
    (hnm : s.marked.contains x = false) (sp : List Id) (st : Bool) :
    weight h { marked := s.marked.insert x, spill := sp, stuck := st } + ((outEdges o).length + 1) ≤ weight h s := by
  unfold weight
  have hlt : x < h.size := by
    unfold Heap.get at hx
    by_cases c : x < h.size
    · exact c
    · simp [c] at hx
  apply sum_map_drop (x := x)
  · intro i _
    simp only [HashSet.contains_insert]
    by_cases c : s.marked.contains i = true
    · simp [c]
    · by_cases c2 : (x == i) = true <;> simp [c, c2]
  · exact List.mem_range.mpr hlt
  · simp [HashSet.contains_insert, hnm, objWeight, hx]

/-! ### the specification carried through the recursion -/

/-- `s'` is a legal successor of `s` in a mark phase over `h`, everything new being inside the edge-closed set `R` -/
structure Spec (h : Heap) (R : Id → Prop) (s s' : MState) : Prop where
  stuck : s'.stuck = false
  mono : ∀ i, s.marked.contains i = true → s'.marked.contains i = true
  spillMono : ∀ i, i ∈ s.spill → i ∈ s'.spill
  closed : ∀ i, s'.marked.contains i = true → s.marked.contains i = false → ∀ o, h.get i = some o →
    ∀ e ∈ outEdges o, (h.get e.tgt).isSome → s'.marked.contains e.tgt = true ∨ e.tgt ∈ s'.spill
  sound : ∀ i, s'.marked.contains i = true → s.marked.contains i = true ∨ (R i ∧ (h.get i).isSome)
  soundSpill : ∀ i, i ∈ s'.spill → i ∈ s.spill ∨ ((h.get i).isSome → R i)

theorem Spec.refl (h : Heap) (R : Id → Prop) (s : MState) (hs : s.stuck = false) : Spec h R s s where
  stuck := hs
  mono := fun _ hi => hi
  spillMono := fun _ hi => hi
  closed := fun i h1 h2 => by simp [h1] at h2
  sound := fun _ hi => Or.inl hi
  soundSpill := fun _ hi => Or.inl hi

theorem Spec.wt {h : Heap} {R : Id → Prop} {s s' : MState} (sp : Spec h R s s') : weight h s' ≤ weight h s :=
  weight_mono h sp.mono

theorem Spec.trans {h : Heap} {R : Id → Prop} {s s' s'' : MState} (a : Spec h R s s') (b : Spec h R s' s'') :
    Spec h R s s'' where
  stuck := b.stuck
  mono := fun i hi => b.mono i (a.mono i hi)
  spillMono := fun i hi => b.spillMono i (a.spillMono i hi)
  closed := by
    intro i h2 h0 o ho e he hs
    by_cases c : s'.marked.contains i = true
    · rcases a.closed i c h0 o ho e he hs with m | m
      · exact Or.inl (b.mono _ m)
      · exact Or.inr (b.spillMono _ m)
    · exact b.closed i h2 (by simpa using c) o ho e he hs
  sound := by
    intro i h2
    rcases b.sound i h2 with m | m
    · exact a.sound i m
    · exact Or.inr m
  soundSpill := by
    intro i h2
    rcases b.soundSpill i h2 with m | m
    · exact a.soundSpill i m
    · exact Or.inr m

/-- potential that bounds the drain loop: pending spills + weight of the unmarked part -/
def Phi (h : Heap) (s : MState) : Nat := s.spill.length + weight h s

/-- statement proved by induction on the fuel -/
def ObjSpec (h : Heap) (R : Id → Prop) (fuel : Nat) : Prop :=
  ∀ (d x : Nat) (s : MState), s.stuck = false → weight h s < fuel → ((h.get x).isSome → R x) →
    Spec h R s (markObj h fuel d x s) ∧ ((h.get x).isSome → (markObj h fuel d x s).marked.contains x = true) ∧
      Phi h (markObj h fuel d x s) ≤ Phi h s

theorem markEdge_spec {h : Heap} {R : Id → Prop} {fuel : Nat} (ih : ObjSpec h R fuel) (d : Nat) (s : MState) (e : Edge)
    (hs : s.stuck = false) (hw : weight h s < fuel) (hr : (h.get e.tgt).isSome → R e.tgt) :
    Spec h R s (markEdge h fuel d s e) ∧
      ((h.get e.tgt).isSome → (markEdge h fuel d s e).marked.contains e.tgt = true ∨ e.tgt ∈ (markEdge h fuel d s e).spill) ∧
      ((e.dec = false ∨ 1 ≤ d) → (h.get e.tgt).isSome → (markEdge h fuel d s e).marked.contains e.tgt = true) ∧
      Phi h (markEdge h fuel d s e) ≤ Phi h s + 1 ∧
      ((e.dec = false ∨ 1 ≤ d) → Phi h (markEdge h fuel d s e) ≤ Phi h s) := by
  unfold markEdge
  by_cases hdec : e.dec = true
  · by_cases hd : d = 0
    · rw [if_pos hdec, if_pos hd]
      refine ⟨?_, ?_, ?_, ?_, ?_⟩
      · exact {
          stuck := hs
          mono := fun _ hi => hi
          spillMono := fun i hi => List.mem_cons_of_mem _ hi
          closed := fun i h1 h2 => by simp [h1] at h2
          sound := fun _ hi => Or.inl hi
          soundSpill := fun i hi => by
            rcases List.mem_cons.mp hi with c | c
            · subst c; exact Or.inr hr
            · exact Or.inl c }
      · intro _; exact Or.inr (List.mem_cons_self)
      · intro c; rcases c with c | c
        · rw [hdec] at c; cases c
        · omega
      · have : weight h { s with spill := e.tgt :: s.spill } = weight h s := rfl
        simp only [Phi, List.length_cons, this]; omega
      · intro c; rcases c with c | c
        · rw [hdec] at c; cases c
        · omega
    · rw [if_pos hdec, if_neg hd]
      obtain ⟨sp, mk, ph⟩ := ih (d - 1) e.tgt s hs hw hr
      exact ⟨sp, fun c => Or.inl (mk c), fun _ c => mk c, by omega, fun _ => ph⟩
  · rw [if_neg hdec]
    obtain ⟨sp, mk, ph⟩ := ih (if e.lvl then d - 1 else d) e.tgt s hs hw hr
    exact ⟨sp, fun c => Or.inl (mk c), fun _ c => mk c, by omega, fun _ => ph⟩

theorem fold_spec {h : Heap} {R : Id → Prop} {fuel : Nat} (ih : ObjSpec h R fuel) (d : Nat) (es : List Edge) :
    ∀ (s : MState), s.stuck = false → weight h s < fuel → (∀ e ∈ es, (h.get e.tgt).isSome → R e.tgt) →
      Spec h R s (es.foldl (markEdge h fuel d) s) ∧
      (∀ e ∈ es, (h.get e.tgt).isSome →
        (es.foldl (markEdge h fuel d) s).marked.contains e.tgt = true ∨ e.tgt ∈ (es.foldl (markEdge h fuel d) s).spill) ∧
      ((∀ e ∈ es, e.dec = false ∨ 1 ≤ d) → ∀ e ∈ es, (h.get e.tgt).isSome →
        (es.foldl (markEdge h fuel d) s).marked.contains e.tgt = true) ∧
      Phi h (es.foldl (markEdge h fuel d) s) ≤ Phi h s + es.length ∧
      ((∀ e ∈ es, e.dec = false ∨ 1 ≤ d) → Phi h (es.foldl (markEdge h fuel d) s) ≤ Phi h s) := by
  induction es with
  | nil =>
    intro s hs _ _
    exact ⟨Spec.refl h R s hs, fun e he => by simp at he, fun _ e he => by simp at he, by simp, fun _ => by simp⟩
  | cons a es ihl =>
    intro s hs hw hr
    simp only [List.foldl_cons]
    obtain ⟨sp1, ms1, mk1, ph1, phs1⟩ := markEdge_spec ih d s a hs hw (hr a (by simp))
    have hw1 : weight h (markEdge h fuel d s a) < fuel := Nat.lt_of_le_of_lt sp1.wt hw
    obtain ⟨sp2, ms2, mk2, ph2, phs2⟩ := ihl (markEdge h fuel d s a) sp1.stuck hw1 (fun e he => hr e (by simp [he]))
    refine ⟨sp1.trans sp2, ?_, ?_, ?_, ?_⟩
    · intro e he hsome
      rcases List.mem_cons.mp he with c | c
      · subst c
        rcases ms1 hsome with m | m
        · exact Or.inl (sp2.mono _ m)
        · exact Or.inr (sp2.spillMono _ m)
      · exact ms2 e c hsome
    · intro hall e he hsome
      rcases List.mem_cons.mp he with c | c
      · subst c
        exact sp2.mono _ (mk1 (hall e (by simp)) hsome)
      · exact mk2 (fun e' he' => hall e' (by simp [he'])) e c hsome
    · simp only [List.length_cons]; omega
    · intro hall
      have a1 := phs1 (hall a (by simp))
      have a2 := phs2 (fun e' he' => hall e' (by simp [he']))
      omega

theorem markObj_spec (h : Heap) (R : Id → Prop)
    (hR : ∀ i o e, R i → h.get i = some o → e ∈ outEdges o → (h.get e.tgt).isSome → R e.tgt) :
    ∀ fuel, ObjSpec h R fuel := by
  intro fuel
  induction fuel with
  | zero => intro d x s _ hw _; omega
  | succ fuel ih =>
    intro d x s hs hw hr
    rw [markObj_succ]
    cases hx : h.get x with
    | none =>
      simp only
      exact ⟨Spec.refl h R s hs, fun c => by simp at c, Nat.le_refl _⟩
    | some o =>
      simp only
      by_cases hm : s.marked.contains x = true
      · rw [if_pos hm]
        exact ⟨Spec.refl h R s hs, fun _ => hm, Nat.le_refl _⟩
      · rw [if_neg hm]
        have hm' : s.marked.contains x = false := by simpa using hm
        have hw1 := weight_insert h s x o hx hm' s.spill s.stuck
        have hRx : R x := hr (by simp [hx])
        obtain ⟨sp, ms, _, ph, _⟩ := fold_spec ih d (outEdges o) { s with marked := s.marked.insert x } hs (by omega)
          (fun e he hsome => hR x o e hRx hx he hsome)
        have hx1 : ({ s with marked := s.marked.insert x } : MState).marked.contains x = true := by
          simp [HashSet.contains_insert]
        refine ⟨?_, fun _ => sp.mono x hx1, ?_⟩
        · exact {
            stuck := sp.stuck
            mono := fun i hi => sp.mono i (by simp [HashSet.contains_insert, hi])
            spillMono := fun i hi => sp.spillMono i hi
            closed := by
              intro i h2 h0 o' ho' e he hsome
              by_cases hix : i = x
              · subst hix
                rw [hx] at ho'
                cases ho'
                exact ms e he hsome
              · refine sp.closed i h2 ?_ o' ho' e he hsome
                have : (x == i) = false := by simp; exact fun c => hix c.symm
                simp [HashSet.contains_insert, this, h0]
            sound := by
              intro i h2
              rcases sp.sound i h2 with m | m
              · simp only [HashSet.contains_insert, Bool.or_eq_true, beq_iff_eq] at m
                rcases m with m | m
                · subst m; exact Or.inr ⟨hRx, by simp [hx]⟩
                · exact Or.inl m
              · exact Or.inr m
            soundSpill := fun i hi => sp.soundSpill i hi }
        · simp only [Phi] at ph hw1 ⊢
          have : ({ s with marked := s.marked.insert x } : MState).spill = s.spill := rfl
          rw [this] at ph
          omega

end JanetModel.GC
