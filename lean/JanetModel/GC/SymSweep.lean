/- The sweep's side effect OUTSIDE the heap graph: for every symbol / keyword block it frees, `janet_deinit_block` calls
   `janet_symbol_deinit` (symcache.c), which removes the symbol from the interning cache `janet_vm.cache`.
   "Collection is transparent" includes this: afterwards the cache must still find every surviving symbol from its bytes
   (otherwise the next `(keyword name)` / parse of that name interns a second object and identity of a reachable keyword
   depends on the schedule), and must not mention freed memory.

   This file composes the collector model (`GC/Model.lean`: mark + sweep of the block lists) with the symbol-cache model of
   `Value/SymCache.lean` (open addressing with tombstones, the probe order of janet_symcache_findmem incl. the wrap from the
   last bucket to bucket 0 and the move of a found entry into the first tombstone, janet_symbol_deinit) and proves the
   invariant that ties the two together across a collection, for every heap, cache state, depth limit and order of the
   block list.  (The cache model and its lemmas belong to C03; nothing is restated here - the new statements are about the
   composition with `collect`.) -/
import JanetModel.GC.Collect
import JanetModel.GC.MarkCorrect
import JanetModel.Value.SymCacheLemmas

namespace JanetModel.GC.SymSweep
open JanetModel.GC JanetModel.Value.SymCache Std

/-- bytes of the symbol / keyword blocks (`none`: the block is not a symbol) -/
abbrev Names := Id → Option (List UInt8)

/-- the part of `janet_sweep` that touches the cache: walking the block list in its order, every block that is a symbol and
    is not marked is handed to `janet_symbol_deinit` -/
def sweepCache (m : HashSet Nat) (names : Names) : List Id → Cache → Cache
  | [], c => c
  | i :: is, c =>
    match names i with
    | some b => if m.contains i then sweepCache m names is c else sweepCache m names is (deinit c b)
    | none => sweepCache m names is c

/-- heap + symbol cache -/
structure SymVM where
  heap : Heap
  names : Names
  cache : Cache

/-- `janet_collect` on both: mark, sweep the block lists, and - during the sweep - deinit the freed symbols.
    `order` = the order in which the blocks are met on `janet_vm.blocks`. -/
def collectSym (D : Nat) (order : List Id) (s : SymVM) : SymVM :=
  { heap := collect D s.heap, names := s.names, cache := sweepCache (mark D s.heap).marked s.names order s.cache }

/-- the cache and the heap agree: the cache holds exactly the existing symbol blocks, each under its own bytes at its own
    address (`janet_symbol` puts every symbol it allocates into the cache; only `janet_symbol_deinit` takes one out) -/
def Tied (h : Heap) (names : Names) (c : Cache) : Prop :=
  ∀ i b, Live c.slots i b ↔ (names i = some b ∧ (h.get i).isSome = true)

theorem live_ptr_unique {c : Cache} (h : CInvC c) {i j : Nat} {b : List UInt8} (hi : Live c.slots i b) (hj : Live c.slots j b) :
    i = j := by
  obtain ⟨y1, h1⟩ := hi
  obtain ⟨y2, h2⟩ := hj
  have := h.inv.nodup y1 y2 i j b h1 h2
  subst this
  rw [h1] at h2
  cases h2; rfl

/-- what the cache pass of the sweep leaves: a symbol stays iff no unmarked block of the list carries its bytes -/
theorem sweepCache_spec (m : HashSet Nat) (names : Names) : ∀ (order : List Id) (c : Cache), CInvC c →
    CInvC (sweepCache m names order c) ∧
    ∀ q x, Live (sweepCache m names order c).slots q x ↔
      (Live c.slots q x ∧ ¬ ∃ i, i ∈ order ∧ names i = some x ∧ m.contains i = false) := by
  intro order
  induction order with
  | nil => intro c h; exact ⟨h, fun q x => ⟨fun hl => ⟨hl, fun ⟨_, hi, _⟩ => by cases hi⟩, fun hl => hl.1⟩⟩
  | cons i is ih =>
    intro c h
    unfold sweepCache
    cases hn : names i with
    | none =>
      simp only
      obtain ⟨h1, h2⟩ := ih c h
      refine ⟨h1, fun q x => ?_⟩
      rw [h2 q x]
      constructor
      · rintro ⟨hl, hno⟩
        refine ⟨hl, ?_⟩
        rintro ⟨j, hj, hnj, hmj⟩
        rcases List.mem_cons.mp hj with e | e
        · subst e; rw [hn] at hnj; cases hnj
        · exact hno ⟨j, e, hnj, hmj⟩
      · rintro ⟨hl, hno⟩
        exact ⟨hl, fun ⟨j, hj, hnj, hmj⟩ => hno ⟨j, List.mem_cons_of_mem _ hj, hnj, hmj⟩⟩
    | some b =>
      simp only
      by_cases hm : m.contains i = true
      · rw [if_pos hm]
        obtain ⟨h1, h2⟩ := ih c h
        refine ⟨h1, fun q x => ?_⟩
        rw [h2 q x]
        constructor
        · rintro ⟨hl, hno⟩
          refine ⟨hl, ?_⟩
          rintro ⟨j, hj, hnj, hmj⟩
          rcases List.mem_cons.mp hj with e | e
          · subst e; rw [hm] at hmj; cases hmj
          · exact hno ⟨j, e, hnj, hmj⟩
        · rintro ⟨hl, hno⟩
          exact ⟨hl, fun ⟨j, hj, hnj, hmj⟩ => hno ⟨j, List.mem_cons_of_mem _ hj, hnj, hmj⟩⟩
      · have hm' : m.contains i = false := by simpa using hm
        rw [if_neg hm]
        have hd := deinit_spec h.toCInv b
        obtain ⟨h1, h2⟩ := ih (deinit c b) (deinit_cnt h b)
        refine ⟨h1, fun q x => ?_⟩
        rw [h2 q x, hd.2 q x]
        constructor
        · rintro ⟨⟨hl, hne⟩, hno⟩
          refine ⟨hl, ?_⟩
          rintro ⟨j, hj, hnj, hmj⟩
          rcases List.mem_cons.mp hj with e | e
          · subst e; rw [hn] at hnj; cases hnj; exact hne rfl
          · exact hno ⟨j, e, hnj, hmj⟩
        · rintro ⟨hl, hno⟩
          refine ⟨⟨hl, fun e => hno ⟨i, List.mem_cons_self .., by rw [hn, e], hm'⟩⟩, ?_⟩
          exact fun ⟨j, hj, hnj, hmj⟩ => hno ⟨j, List.mem_cons_of_mem _ hj, hnj, hmj⟩

/-- **The cache/heap tie survives a collection.**  Hypotheses: the cache invariant, the tie, and that the block list
    `order` lists exactly existing blocks and every one of them (any order, repetitions allowed). -/
theorem collectSym_tied (D : Nat) (order : List Id) (s : SymVM) (hc : CInvC s.cache) (ht : Tied s.heap s.names s.cache)
    (hall : ∀ i, (s.heap.get i).isSome = true → i ∈ order) (hex : ∀ i, i ∈ order → (s.heap.get i).isSome = true) :
    CInvC (collectSym D order s).cache ∧ Tied (collectSym D order s).heap (collectSym D order s).names (collectSym D order s).cache := by
  obtain ⟨h1, h2⟩ := sweepCache_spec (mark D s.heap).marked s.names order s.cache hc
  refine ⟨h1, ?_⟩
  intro q x
  show Live (sweepCache (mark D s.heap).marked s.names order s.cache).slots q x ↔ (s.names q = some x ∧ ((collect D s.heap).get q).isSome = true)
  rw [h2 q x, ht q x, collect_get]
  constructor
  · rintro ⟨⟨hn, hs⟩, hno⟩
    refine ⟨hn, ?_⟩
    cases hx : s.heap.get q with
    | none => rw [hx] at hs; cases hs
    | some o =>
      simp only
      by_cases hm : (mark D s.heap).marked.contains q = true
      · rw [if_pos hm]; rfl
      · exfalso
        exact hno ⟨q, hall q hs, hn, by simpa using hm⟩
  · rintro ⟨hn, hs⟩
    cases hx : s.heap.get q with
    | none => rw [hx] at hs; cases hs
    | some o =>
      rw [hx] at hs
      simp only at hs
      by_cases hm : (mark D s.heap).marked.contains q = true
      · refine ⟨⟨hn, rfl⟩, ?_⟩
        rintro ⟨j, hj, hnj, hmj⟩
        -- j is an existing symbol block with the same bytes: it is in the cache, so it is q itself - which is marked
        have lj : Live s.cache.slots j x := (ht j x).mpr ⟨hnj, hex j hj⟩
        have lq : Live s.cache.slots q x := (ht q x).mpr ⟨hn, by rw [hx]; rfl⟩
        have := live_ptr_unique hc lj lq
        subst this
        rw [hm] at hmj; cases hmj
      · rw [if_neg hm] at hs; cases hs

/-- **Interning is transparent.**  For the bytes of every symbol block that is reachable, `janet_symbol` after the
    collection returns the very same object as it does without the collection (its own address) - whatever else was
    freed, wherever the freed symbols sat on its probe path (home bucket, last bucket before the wrap, middle of the chain). -/
theorem intern_after_collect (D : Nat) (hD : 1 ≤ D) (order : List Id) (s : SymVM) (hc : CInvC s.cache)
    (ht : Tied s.heap s.names s.cache)
    (hall : ∀ i, (s.heap.get i).isSome = true → i ∈ order) (hex : ∀ i, i ∈ order → (s.heap.get i).isSome = true)
    (i : Id) (b : List UInt8) (hn : s.names i = some b) (r : Reachable s.heap i) :
    (∃ c', intern s.cache b = some (c', i)) ∧ (∃ c', intern (collectSym D order s).cache b = some (c', i)) := by
  have hs := r.isSome
  have l0 : Live s.cache.slots i b := (ht i b).mpr ⟨hn, hs⟩
  obtain ⟨h1, h2⟩ := collectSym_tied D order s hc ht hall hex
  have hm := mark_complete s.heap D hD i r
  have l1 : Live (collectSym D order s).cache.slots i b := by
    refine (h2 i b).mpr ⟨hn, ?_⟩
    show ((collect D s.heap).get i).isSome = true
    rw [collect_get]
    cases hx : s.heap.get i with
    | none => rw [hx] at hs; cases hs
    | some o => simp [hm]
  obtain ⟨c1, e1, _⟩ := intern_liveC hc l0
  obtain ⟨c2, e2, _⟩ := intern_liveC h1 l1
  exact ⟨⟨c1, e1⟩, ⟨c2, e2⟩⟩

/-- no entry of the cache points to a freed block after the collection, and its `cache_count` is the number of entries -/
theorem cache_after_collect_no_dangling (D : Nat) (order : List Id) (s : SymVM) (hc : CInvC s.cache)
    (ht : Tied s.heap s.names s.cache)
    (hall : ∀ i, (s.heap.get i).isSome = true → i ∈ order) (hex : ∀ i, i ∈ order → (s.heap.get i).isSome = true) :
    (∀ q x, Live (collectSym D order s).cache.slots q x → ((collectSym D order s).heap.get q).isSome = true) ∧
    (collectSym D order s).cache.count = liveCount (collectSym D order s).cache.slots := by
  obtain ⟨h1, h2⟩ := collectSym_tied D order s hc ht hall hex
  exact ⟨fun q x hl => ((h2 q x).mp hl).2, h1.cnt⟩

end JanetModel.GC.SymSweep
