/-
C01 — the mark phase marks exactly the reachable blocks, for every depth limit D ≥ 1, and never runs out of fuel.
-/
import JanetModel.GC.Lemmas

namespace JanetModel.GC
open Std

theorem reachable_closed (h : Heap) :
    ∀ i o e, Reachable h i → h.get i = some o → e ∈ outEdges o → (h.get e.tgt).isSome → Reachable h e.tgt :=
  fun _ _ _ r ho he hs => Reachable.step r ho he hs

/-- invariant of the drain loop -/
structure DInv (h : Heap) (s : MState) : Prop where
  stuck : s.stuck = false
  closed : ∀ i, s.marked.contains i = true → ∀ o, h.get i = some o → ∀ e ∈ outEdges o, (h.get e.tgt).isSome →
    s.marked.contains e.tgt = true ∨ e.tgt ∈ s.spill
  roots : ∀ e ∈ h.roots, (h.get e.tgt).isSome → s.marked.contains e.tgt = true ∨ e.tgt ∈ s.spill
  sound : ∀ i, s.marked.contains i = true → Reachable h i
  soundSpill : ∀ i, i ∈ s.spill → (h.get i).isSome → Reachable h i

theorem init_marked (i : Nat) : MState.init.marked.contains i = false := by
  simp [MState.init]

theorem markRoots_inv (h : Heap) (D : Nat) (fuel : Nat) (hf : weight h MState.init < fuel) :
    DInv h (markRoots h fuel D MState.init) ∧ weight h (markRoots h fuel D MState.init) < fuel := by
  have ih := markObj_spec h (Reachable h) (reachable_closed h) fuel
  obtain ⟨sp, ms, _, _, _⟩ := fold_spec ih D h.roots MState.init rfl hf (fun e he hs => Reachable.root he hs)
  refine ⟨?_, Nat.lt_of_le_of_lt sp.wt hf⟩
  exact {
    stuck := sp.stuck
    closed := fun i hi o ho e he hs => sp.closed i hi (init_marked i) o ho e he hs
    roots := ms
    sound := fun i hi => by
      rcases sp.sound i hi with m | m
      · rw [init_marked] at m; cases m
      · exact m.1
    soundSpill := fun i hi hs => by
      rcases sp.soundSpill i hi with m | m
      · simp [MState.init] at m
      · exact m hs }

theorem drain_inv (h : Heap) (D : Nat) (hD : 1 ≤ D) (fuel : Nat) :
    ∀ (n : Nat) (s : MState), DInv h s → weight h s < fuel → Phi h s < n →
      DInv h (drain h fuel D n s) ∧ (drain h fuel D n s).spill = [] := by
  have ih := markObj_spec h (Reachable h) (reachable_closed h) fuel
  intro n
  induction n with
  | zero => intro s _ _ hp; omega
  | succ n ihn =>
    intro s inv hw hp
    cases hsp : s.spill with
    | nil =>
      have : drain h fuel D (n + 1) s = s := by simp [drain, hsp]
      rw [this]; exact ⟨inv, hsp⟩
    | cons x rest =>
      have hd : drain h fuel D (n + 1) s = drain h fuel D n (markEdge h fuel D { s with spill := rest } ⟨true, x, false⟩) := by
        simp [drain, hsp]
      rw [hd]
      have hwpop : weight h { s with spill := rest } = weight h s := rfl
      have hxr : (h.get x).isSome → Reachable h x := fun c => inv.soundSpill x (by simp [hsp]) c
      obtain ⟨sp, _, mk, _, phs⟩ := markEdge_spec ih D { s with spill := rest } ⟨true, x, false⟩ inv.stuck (by rw [hwpop]; exact hw) hxr
      have hmk := mk (Or.inr hD)
      have hph := phs (Or.inr hD)
      apply ihn
      · exact {
          stuck := sp.stuck
          closed := by
            intro i hi o ho e he hs
            by_cases c : s.marked.contains i = true
            · rcases inv.closed i c o ho e he hs with m | m
              · exact Or.inl (sp.mono _ m)
              · rw [hsp] at m
                rcases List.mem_cons.mp m with m | m
                · rw [m]; rw [m] at hs; exact Or.inl (hmk hs)
                · exact Or.inr (sp.spillMono _ m)
            · exact sp.closed i hi (by simpa using c) o ho e he hs
          roots := by
            intro e he hs
            rcases inv.roots e he hs with m | m
            · exact Or.inl (sp.mono _ m)
            · rw [hsp] at m
              rcases List.mem_cons.mp m with m | m
              · rw [m]; rw [m] at hs; exact Or.inl (hmk hs)
              · exact Or.inr (sp.spillMono _ m)
          sound := by
            intro i hi
            rcases sp.sound i hi with m | m
            · exact inv.sound i m
            · exact m.1
          soundSpill := by
            intro i hi hs
            rcases sp.soundSpill i hi with m | m
            · exact inv.soundSpill i (by rw [hsp]; exact List.mem_cons_of_mem _ m) hs
            · exact m hs }
      · exact Nat.lt_of_le_of_lt sp.wt (by rw [hwpop]; exact hw)
      · have : Phi h { s with spill := rest } + 1 = Phi h s := by
          simp only [Phi, hsp, List.length_cons, hwpop]; omega
        omega

theorem mark_inv (h : Heap) (D : Nat) (hD : 1 ≤ D) : DInv h (mark D h) ∧ (mark D h).spill = [] := by
  unfold mark
  obtain ⟨inv, hw⟩ := markRoots_inv h D (weight h MState.init + 1) (Nat.lt_succ_self _)
  exact drain_inv h D hD _ _ _ inv hw (by simp only [Phi]; omega)

/-- everything reachable is marked -/
theorem mark_complete (h : Heap) (D : Nat) (hD : 1 ≤ D) (i : Id) (r : Reachable h i) :
    (mark D h).marked.contains i = true := by
  obtain ⟨inv, hsp⟩ := mark_inv h D hD
  induction r with
  | root he hs =>
    rcases inv.roots _ he hs with m | m
    · exact m
    · rw [hsp] at m; cases m
  | step _ ho he hs ihr =>
    rcases inv.closed _ ihr _ ho _ he hs with m | m
    · exact m
    · rw [hsp] at m; cases m

/-- everything marked is reachable -/
theorem mark_sound (h : Heap) (D : Nat) (hD : 1 ≤ D) (i : Id) (m : (mark D h).marked.contains i = true) :
    Reachable h i := (mark_inv h D hD).1.sound i m

end JanetModel.GC
