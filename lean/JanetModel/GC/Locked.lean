/-
C01 — transparency for programs that hold objects in C locals while collection is suspended.

The mutator of GC/Mutator.lean is extended with what C code embedding the collector does (vm.c `janet_call`, compile.c):
    int handle = janet_gclock();  … allocate, keep the results only in C locals …  janet_gcunlock(handle);
A C local is a reference the program can use but the collector cannot see.  Safepoints precede every step; whether a
collection runs there is decided by the *modelled* `maybe_collect` / `janet_collect` of GC/Roots.lean (`shouldCollect`
on next_collection / gc_interval or the forced-schedule hook, then the `gc_suspend` early-out), not by a free schedule.

Representation: `h.roots = visible ++ locals` where the last `nloc` entries are the C locals (newest last).
-/
import JanetModel.GC.Mutator
import JanetModel.GC.RootsLemmas

namespace JanetModel.GC

inductive CStep where
  | step (st : Step)                         -- a step of the path-addressed mutator
  | newLocal (kind : Nat) (fields : List Path)  -- allocate; the only reference is a C local
  | keep                                     -- the oldest C local is stored where the collector looks (janet_gcroot / stack slot)
  | drop                                     -- the newest C local goes out of scope
  | lock                                     -- int handle = janet_gclock();   (handles are kept LIFO, as C scoping does)
  | unlock                                   -- janet_gcunlock(handle);
  | pressure (n : Nat)                       -- janet_gcpressure(n)
  deriving Repr

inductive CObs where
  | obs (o : Obs)
  | handle (i : Int)
  deriving Repr, DecidableEq

structure CState where
  h : Heap
  nloc : Nat
  vm : VM
  handles : List Int

def rotate : List Edge → List Edge
  | [] => []
  | e :: r => r ++ [e]

def reroot (g : List Edge → List Edge) (h : Heap) : Heap := { h with roots := g h.roots }

/-- allocation accounting of a mutator step (janet_gcalloc) -/
def acct (vm : VM) : Step → VM
  | .alloc _ fields => gcallocAcct vm ((fields.length + 1) * Gen.GC.gcObjectSize)
  | _ => vm

/-- a mutator step may not release a C local through `.unroot` (that is `.drop`) -/
def mutOk (s : CState) : Step → Bool
  | .unroot n => decide (n < s.h.roots.length - s.nloc)
  | _ => true

def execC (s : CState) : CStep → CState × List CObs
  | .step st =>
    if mutOk s st then ({ s with h := execHeap s.h st, vm := acct s.vm st }, (execObs s.h st).map CObs.obs) else (s, [])
  | .newLocal kind fields =>
    ({ s with h := reroot rotate (execHeap s.h (.alloc kind fields)), nloc := s.nloc + 1,
              vm := acct s.vm (.alloc kind fields) }, [])
  | .keep => ({ s with nloc := s.nloc - 1 }, [])
  | .drop => if s.nloc = 0 then (s, []) else ({ s with h := reroot List.dropLast s.h, nloc := s.nloc - 1 }, [])
  | .lock => let r := gclock s.vm; ({ s with vm := r.1, handles := r.2 :: s.handles }, [CObs.handle r.2])
  | .unlock => match s.handles with
    | [] => (s, [])
    | hd :: rest => ({ s with vm := gcunlock s.vm hd, handles := rest }, [])
  | .pressure n => ({ s with vm := gcpressure s.vm n }, [])

/-- what the collector can see -/
def visibleRoots (s : CState) : List Edge := s.h.roots.take (s.h.roots.length - s.nloc)

def Heap.withRoots (h : Heap) (r : List Edge) : Heap := { h with roots := r }
def VM.withRoots (vm : VM) (r : List RVal) : VM := { vm with roots := r }

/-- `maybe_collect()` at a safepoint; `forced` = answer of the forced-schedule hook -/
def safepoint (D : Nat) (s : CState) (forced : Bool) : CState :=
  let r := maybeCollect D (s.h.withRoots (visibleRoots s)) (s.vm.withRoots []) forced
  { s with h := r.1.withRoots s.h.roots, vm := r.2.withRoots s.vm.roots }

def runC (D : Nat) : List CStep → (Nat → Bool) → Nat → CState → List CObs
  | [], _, _, _ => []
  | st :: rest, sched, n, s =>
    let s1 := safepoint D s (sched n)
    let r := execC s1 st
    r.2 ++ runC D rest sched (n + 1) r.1

/-- the program's meaning without a collector -/
def runC0 : List CStep → CState → List CObs
  | [], _ => []
  | st :: rest, s => let r := execC s st; r.2 ++ runC0 rest r.1

/-- the rooting discipline, checked statically: C locals exist only while collection is suspended (`d` = lock depth,
`k` = number of C locals) -/
def disc : Nat → Nat → List CStep → Bool
  | _, _, [] => true
  | d, k, .step _ :: r => disc d k r
  | d, k, .newLocal _ _ :: r => decide (0 < d) && disc d (k + 1) r
  | d, k, .keep :: r => decide (0 < k) && disc d (k - 1) r
  | d, k, .drop :: r => decide (0 < k) && disc d (k - 1) r
  | d, k, .lock :: r => disc (d + 1) k r
  | d, k, .unlock :: r => decide (0 < d) && (decide (1 < d) || decide (k = 0)) && disc (d - 1) k r
  | d, k, .pressure _ :: r => disc d k r

/-- handles handed out by nested `janet_gclock` calls: n-1, …, 1, 0 -/
def wfH : List Int → Bool
  | [] => true
  | hd :: r => hd == (r.length : Int) && wfH r

/-! ### the simulation -/

structure CRel (s s' : CState) : Prop where
  agree : Agree s.h s'.h
  nloc : s.nloc = s'.nloc
  handles : s.handles = s'.handles
  susp : s.vm.gcSuspend = s'.vm.gcSuspend

theorem agree_reroot {h h' : Heap} (a : Agree h h') (g : List Edge → List Edge) (hg : ∀ l e, e ∈ g l → e ∈ l) :
    Agree (reroot g h) (reroot g h') := by
  refine ⟨a.size, by simp [reroot, a.roots], ?_⟩
  intro i m
  have back : ∀ (hh : Heap), MReach (reroot g hh) i → MReach hh i :=
    fun hh m => m.congr (fun e he => hg _ e he) (fun _ => rfl)
  have : MReach h i ∨ MReach h' i := m.imp (back h) (back h')
  exact a.view i this

theorem mem_rotate (l : List Edge) (e : Edge) (he : e ∈ rotate l) : e ∈ l := by
  cases l with
  | nil => exact he
  | cons x r =>
    simp only [rotate, List.mem_append, List.mem_singleton] at he
    rcases he with he | he
    · exact List.mem_cons_of_mem _ he
    · subst he; exact List.mem_cons_self

theorem acct_susp (vm : VM) (st : Step) : (acct vm st).gcSuspend = vm.gcSuspend := by
  cases st <;> rfl

@[simp] theorem Heap.withRoots_roots (h : Heap) (r : List Edge) : (h.withRoots r).roots = r := rfl
@[simp] theorem Heap.withRoots_size (h : Heap) (r : List Edge) : (h.withRoots r).size = h.size := rfl
@[simp] theorem Heap.withRoots_self (h : Heap) : h.withRoots h.roots = h := rfl
@[simp] theorem Heap.withRoots_withRoots (h : Heap) (r r' : List Edge) : (h.withRoots r).withRoots r' = h.withRoots r' := rfl
@[simp] theorem VM.withRoots_susp (vm : VM) (r : List RVal) : (vm.withRoots r).gcSuspend = vm.gcSuspend := rfl
@[simp] theorem VM.withRoots_roots (vm : VM) (r : List RVal) : (vm.withRoots r).roots = r := rfl

theorem collectVM_heap_enters (D : Nat) (h : Heap) (vm : VM) (hs : vm.gcSuspend = 0) (hr : vm.roots = []) :
    (collectVM D h vm).1 = collect D h := by
  rw [collectVM_eq]
  simp only [hs, if_true]
  have e : heapWithRoots h vm = h := by
    unfold heapWithRoots; simp [hr]
  rw [e]
  rfl

theorem collectVM_heap_size_roots (D : Nat) (h : Heap) (vm : VM) :
    (collectVM D h vm).1.size = h.size ∧ (collectVM D h vm).1.roots = h.roots := by
  rw [collectVM_eq]
  by_cases c : vm.gcSuspend = 0
  · rw [if_pos c]; exact ⟨rfl, rfl⟩
  · rw [if_neg c]; exact ⟨rfl, rfl⟩

theorem safepoint_fields (D : Nat) (s : CState) (f : Bool) :
    (safepoint D s f).nloc = s.nloc ∧ (safepoint D s f).handles = s.handles ∧
    (safepoint D s f).vm.gcSuspend = s.vm.gcSuspend ∧ (safepoint D s f).h.roots = s.h.roots ∧
    (safepoint D s f).h.size = s.h.size := by
  refine ⟨rfl, rfl, ?_, rfl, ?_⟩
  · simp only [safepoint, maybeCollect, VM.withRoots_susp]
    by_cases c : shouldCollect (s.vm.withRoots []) f = true
    · simp only [c, if_true]; rw [collectVM_susp]; rfl
    · simp only [c]; rfl
  · simp only [safepoint, maybeCollect, Heap.withRoots_size]
    by_cases c : shouldCollect (s.vm.withRoots []) f = true
    · simp only [c, if_true]; rw [(collectVM_heap_size_roots D _ _).1]; rfl
    · simp only [c]; rfl

/-- the heap after a safepoint: untouched, or — only when `gc_suspend = 0` — collected w.r.t. the visible roots -/
theorem safepoint_heap (D : Nat) (s : CState) (f : Bool) :
    (safepoint D s f).h = s.h ∨
    (s.vm.gcSuspend = 0 ∧ (safepoint D s f).h = (collect D (s.h.withRoots (visibleRoots s))).withRoots s.h.roots) := by
  simp only [safepoint, maybeCollect]
  by_cases c : shouldCollect (s.vm.withRoots []) f = true
  · simp only [c, if_true]
    by_cases c2 : s.vm.gcSuspend = 0
    · right
      refine ⟨c2, ?_⟩
      rw [collectVM_heap_enters D _ _ (show (s.vm.withRoots []).gcSuspend = 0 from c2) rfl]
    · left
      rw [collectVM_locked D _ _ (show (s.vm.withRoots []).gcSuspend ≠ 0 from c2)]
      rfl
  · left; simp only [c]; rfl

theorem safepoint_rel (D : Nat) (hD : 1 ≤ D) {s s' : CState} (r : CRel s s') (f : Bool)
    (hk : s.vm.gcSuspend = 0 → s.nloc = 0) : CRel (safepoint D s f) s' := by
  obtain ⟨f1, f2, f3, _, _⟩ := safepoint_fields D s f
  refine ⟨?_, f1.trans r.nloc, f2.trans r.handles, f3.trans r.susp⟩
  rcases safepoint_heap D s f with e | ⟨hs, e⟩
  · rw [e]; exact r.agree
  · rw [e]
    have hn := hk hs
    have hv : s.h.withRoots (visibleRoots s) = s.h := by
      unfold visibleRoots; simp [hn]
    rw [hv]
    exact collect_agree D hD r.agree

theorem mutOk_eq {s s' : CState} (r : CRel s s') (st : Step) : mutOk s st = mutOk s' st := by
  cases st <;> simp [mutOk, r.agree.roots, r.nloc]

theorem execC_rel {s s' : CState} (r : CRel s s') (st : CStep) :
    (execC s st).2 = (execC s' st).2 ∧ CRel (execC s st).1 (execC s' st).1 := by
  cases st with
  | step st =>
    simp only [execC, ← mutOk_eq r st]
    by_cases c : mutOk s st = true
    · simp only [c, if_true]
      exact ⟨by rw [exec_obs r.agree st], exec_agree r.agree st, r.nloc, r.handles,
        by simp [acct_susp, r.susp]⟩
    · simp only [c]; exact ⟨rfl, r⟩
  | newLocal kind fields =>
    simp only [execC]
    exact ⟨by first | rfl | trivial, agree_reroot (exec_agree r.agree (.alloc kind fields)) rotate mem_rotate, by simp [r.nloc], r.handles,
      by simp [acct_susp, r.susp]⟩
  | keep => exact ⟨rfl, r.agree, by simp [execC, r.nloc], r.handles, r.susp⟩
  | drop =>
    simp only [execC, ← r.nloc]
    by_cases c : s.nloc = 0
    · simp only [c, if_true]; exact ⟨by first | rfl | trivial, r⟩
    · simp only [c, if_false]
      exact ⟨by first | rfl | trivial, agree_reroot r.agree List.dropLast (fun l e he => (List.dropLast_sublist l).subset he), by simp [r.nloc], r.handles, r.susp⟩
  | lock =>
    simp only [execC, gclock]
    exact ⟨by rw [r.susp], r.agree, r.nloc, by simp [r.handles, r.susp], by simp [r.susp]⟩
  | unlock =>
    simp only [execC, ← r.handles]
    cases hh : s.handles with
    | nil => exact ⟨rfl, r⟩
    | cons hd rest =>
      exact ⟨rfl, r.agree, r.nloc, by simp [← r.handles, hh], by simp [gcunlock]⟩
  | pressure n => exact ⟨rfl, r.agree, r.nloc, r.handles, by simp [execC, gcpressure, r.susp]⟩

/-- run with the collector = run without one, for disciplined programs, from related states -/
theorem runC_sim (D : Nat) (hD : 1 ≤ D) (sched : Nat → Bool) :
    ∀ (prog : List CStep) (d k n : Nat) (s s' : CState), CRel s s' → s.nloc = k → s.handles.length = d →
      wfH s.handles = true → s.vm.gcSuspend = (d : Int) → (d = 0 → k = 0) → disc d k prog = true →
      runC D prog sched n s = runC0 prog s' := by
  intro prog
  induction prog with
  | nil => intros; rfl
  | cons st rest ih =>
    intro d k n s s' r hk hd hw hs hdk hdisc
    simp only [runC, runC0]
    obtain ⟨f1, f2, f3, _, _⟩ := safepoint_fields D s (sched n)
    have r1 : CRel (safepoint D s (sched n)) s' := safepoint_rel D hD r (sched n) (fun h0 => by
      rw [hk]; apply hdk
      rw [hs] at h0; exact_mod_cast h0)
    obtain ⟨eo, r2⟩ := execC_rel r1 st
    rw [eo]
    congr 1
    generalize safepoint D s (sched n) = s1 at f1 f2 f3 r1 r2 eo
    have hk1 : s1.nloc = k := f1.trans hk
    have hd1 : s1.handles.length = d := by rw [f2]; exact hd
    have hw1 : wfH s1.handles = true := by rw [f2]; exact hw
    have hs1 : s1.vm.gcSuspend = (d : Int) := f3.trans hs
    cases st with
    | step st0 =>
      simp only [disc] at hdisc
      refine ih d k (n + 1) _ _ r2 ?_ ?_ ?_ ?_ hdk hdisc
      all_goals (simp only [execC]; by_cases c : mutOk s1 st0 = true <;> simp [c, hk1, hd1, hw1, hs1, acct_susp])
    | newLocal kind fields =>
      simp only [disc, Bool.and_eq_true, decide_eq_true_eq] at hdisc
      exact ih d (k + 1) (n + 1) _ _ r2 (by simp [execC, hk1]) (by simp [execC, hd1]) (by simp [execC, hw1])
        (by simp [execC, acct_susp, hs1]) (by omega) hdisc.2
    | keep =>
      simp only [disc, Bool.and_eq_true, decide_eq_true_eq] at hdisc
      exact ih d (k - 1) (n + 1) _ _ r2 (by simp [execC, hk1]) (by simp [execC, hd1]) (by simp [execC, hw1])
        (by simp [execC, hs1]) (by omega) hdisc.2
    | drop =>
      simp only [disc, Bool.and_eq_true, decide_eq_true_eq] at hdisc
      have hne : ¬ k = 0 := by omega
      exact ih d (k - 1) (n + 1) _ _ r2 (by simp [execC, hne, hk1]) (by simp [execC, hne, hk1, hd1]) (by simp [execC, hne, hk1, hw1])
        (by simp [execC, hne, hk1, hs1]) (by omega) hdisc.2
    | lock =>
      simp only [disc] at hdisc
      exact ih (d + 1) k (n + 1) _ _ r2 (by simp [execC, hk1]) (by simp [execC, hd1])
        (by simp [execC, gclock, wfH, hw1, hs1, hd1]) (by simp [execC, gclock, hs1]) (by omega) hdisc
    | unlock =>
      simp only [disc, Bool.and_eq_true, Bool.or_eq_true, decide_eq_true_eq] at hdisc
      obtain ⟨⟨hpos, hor⟩, hrest⟩ := hdisc
      cases hh : s1.handles with
      | nil => rw [hh] at hd1; simp at hd1; omega
      | cons hd0 tl =>
        rw [hh] at hd1 hw1
        simp only [wfH, Bool.and_eq_true, beq_iff_eq] at hw1
        simp only [List.length_cons] at hd1
        refine ih (d - 1) k (n + 1) _ _ r2 (by simp [execC, hh, hk1]) (by simp [execC, hh]; omega) (by simp [execC, hh, hw1.2])
          ?_ (by omega) hrest
        simp only [execC, hh, gcunlock, hw1.1]
        have : tl.length = d - 1 := by omega
        rw [this]
    | pressure m =>
      simp only [disc] at hdisc
      exact ih d k (n + 1) _ _ r2 (by simp [execC, hk1]) (by simp [execC, hd1]) (by simp [execC, hw1])
        (by simp [execC, gcpressure, hs1]) hdk hdisc

end JanetModel.GC
