import JanetModel.Gen.GCRoot
/-!
# Which C functions can be interrupted by a collection (C01, session 4b)

A collection is `janet_collect` (the translator `tools/gen/gcroot.py` asserts that nothing else reaches the sweep).  A C local that
holds a freshly allocated, not yet rooted object is therefore in danger only across a call from which `janet_collect` is
reachable in the whole-program call graph.  The translator emits the call graph (direct edges, type-compatible indirect edges,
address-mentioned edges) and an UNTRUSTED mask of the functions that can reach `janet_collect`; this file defines call chains
and proves that the mask is conservative once a finite closure condition (`closedOK`, evaluated by the kernel) holds.
-/
namespace JanetModel.GC.RootWin

/-- call chains over the edge list (`caller * 4096 + callee`) -/
inductive Reaches (E : List Nat) : Nat → Nat → Prop
  | refl (a : Nat) : Reaches E a a
  | step {a b c : Nat} (hb : b < 4096) (he : a * 4096 + b ∈ E) (hr : Reaches E b c) : Reaches E a c

/-- function `f` is in the claimed may-collect set -/
def inMask (m f : Nat) : Bool := m.testBit f

/-- the certificate's closure condition: whenever a callee is in the mask, so is its caller -/
def closedOK (E : List Nat) (m : Nat) : Bool :=
  E.all fun e => !(inMask m (e % 4096)) || inMask m (e / 4096)

theorem edge_outside {E : List Nat} {m a b : Nat} (h : closedOK E m = true) (hb : b < 4096) (he : a * 4096 + b ∈ E)
    (ha : inMask m a = false) : inMask m b = false := by
  have h1 := (List.all_eq_true.mp h) _ he
  have e1 : (a * 4096 + b) % 4096 = b := by omega
  have e2 : (a * 4096 + b) / 4096 = a := by omega
  rw [e1, e2, ha] at h1
  cases hm : inMask m b with
  | false => rfl
  | true => rw [hm] at h1; simp at h1

/-- a call chain that starts outside a closed mask stays outside it -/
theorem reaches_outside {E : List Nat} {m : Nat} (h : closedOK E m = true) {a c : Nat} (hr : Reaches E a c)
    (ha : inMask m a = false) : inMask m c = false := by
  induction hr with
  | refl a => exact ha
  | step hb he _ ih => exact ih (edge_outside h hb he ha)

/-- … hence never arrives at a function that is inside the mask -/
theorem outside_never_reaches {E : List Nat} {m t : Nat} (h : closedOK E m = true) (ht : inMask m t = true) {a : Nat}
    (ha : inMask m a = false) : ¬ Reaches E a t := by
  intro hr
  have := reaches_outside h hr ha
  rw [ht] at this
  exact Bool.noConfusion this

/-- a chain over `U ++ L` either stays in `U`, or follows `U` up to a first edge of `L` -/
theorem reaches_split {U L : List Nat} {a c : Nat} (hr : Reaches (U ++ L) a c) :
    Reaches U a c ∨ ∃ x y, Reaches U a x ∧ y < 4096 ∧ x * 4096 + y ∈ L ∧ Reaches (U ++ L) y c := by
  induction hr with
  | refl a => exact Or.inl (.refl a)
  | @step a b c hb he hr ih =>
    rcases List.mem_append.mp he with hu | hl
    · rcases ih with h | ⟨x, y, h1, h2, h3, h4⟩
      · exact Or.inl (.step hb hu h)
      · exact Or.inr ⟨x, y, .step hb hu h1, h2, h3, h4⟩
    · exact Or.inr ⟨a, b, .refl a, hb, hl, hr⟩

/-- all listed functions are outside the mask -/
def allOutside (m : Nat) (l : List Nat) : Bool := l.all fun f => !(inMask m f)

theorem allOutside_mem {m : Nat} {l : List Nat} (h : allOutside m l = true) {f : Nat} (hf : f ∈ l) : inMask m f = false := by
  have := (List.all_eq_true.mp h) f hf
  cases hm : inMask m f with
  | false => rfl
  | true => rw [hm] at this; simp at this

/-- every function below `n` is outside the mask or among the listed ones -/
def coveredOrListed (m n : Nat) (listed : List Nat) : Bool :=
  (List.range n).all fun f => !(inMask m f) || listed.contains f

end JanetModel.GC.RootWin
