import JanetModel.Gen.Bytecode

/-!
Instruction-level semantics of the janet VM over *abstract* values (core Lean only; shared by C15 and meant for reuse
by C02).

* `Prims`      what the model assumes about values and the primitives the interpreter calls (numbers, truthiness,
                method lookup / invocation with side effects on a world `W`, comparison, equality), with the few laws
                the proofs need as fields.
* `M`          computations `W → Except E α × W`: a result or an error *and* the world after the effects performed so
                far, so equality of two computations includes the order of the method calls they make.
* `binop` / `immop` / `unop`   one definition per opcode family, following the `vm_binop`, `vm_binop_immediate`,
                `vm_bitop*`, `vm_compop*`, `JOP_EQUALS*` macros / cases of vm.c.
* `imm_agrees` `x opim i = x op (num i)` for every immediate opcode.
* `Instr`, `Frame`, `step`    decoded instructions, one `step` per opcode for the register / control subset.
-/

namespace JanetModel.Bytecode.VM
open JanetModel.Gen.Bytecode

structure Prims where
  V : Type
  E : Type
  W : Type
  /-- `janet_wrap_number((double) i)` -/
  num : Int → V
  nil : V
  tru : V
  fls : V
  truthy : V → Bool
  isNil : V → Bool
  isNum : V → Bool
  num_isNum : ∀ i, isNum (num i) = true
  truthy_tru : truthy tru = true
  truthy_fls : truthy fls = false
  /-- number-number fast path of an arithmetic / bitwise opcode (`x1 op x2`, range checks of the bit operations) -/
  arith : Op → V → V → Except E V
  /-- `janet_method_lookup(x, name)` = `janet_get(x, keyword name)`; `none` = nil -/
  lookup : V → String → Option V
  /-- numbers have no methods -/
  lookup_num : ∀ x m, isNum x = true → lookup x m = none
  /-- `janet_method_invoke(method, argc, argv)`: runs arbitrary janet code -/
  invoke : V → List V → W → Except E V × W
  /-- error raised when no method is found (error *class*: the message names one or two methods) -/
  noMethod : String → V → E
  /-- `x1 rel x2` on two numbers -/
  numRel : Op → V → V → Bool
  /-- `janet_compare(a, b) rel 0` -/
  cmpRel : Op → V → V → Bool
  /-- `janet_equals` -/
  eqv : V → V → Bool
  /-- `unwrap(a) == unwrap(b)` on numbers -/
  numEq : V → V → Bool
  /-- `janet_equals(a, number)` is false unless `a` is a number with the same value -/
  eqv_num : ∀ a i, eqv a (num i) = (isNum a && numEq a (num i))
  /-- every other two-operand opcode (`in`, `get`, `next`, `compare`, `propagate`, `resume`, `cancel`) -/
  other : Op → V → V → W → Except E V × W
  /-- one-operand opcodes on non-method path (`length`, `bnot` on a number) -/
  unary : Op → V → W → Except E V × W
  /-- `janet_getindex(ds, index)` (`JOP_GET_INDEX`) -/
  getIndex : V → Nat → W → Except E V × W
  /-- `janet_put(ds, key, value)` (`JOP_PUT`) -/
  put3 : V → V → V → W → Except E Unit × W
  /-- `JOP_SIGNAL`: suspend the fiber with a signal of the given type; the result is the value passed to the next resume -/
  signal : V → Nat → W → Except E V × W
  /-- `JOP_ERROR`: the error raised with payload `x` -/
  raise : V → E

/-- computations with effects on the world; the world is kept when an error is raised -/
def M (P : Prims) (α : Type) : Type := P.W → Except P.E α × P.W

namespace M
variable {P : Prims}

def pure {α} (a : α) : M P α := fun w => (.ok a, w)
def throw {α} (e : P.E) : M P α := fun w => (.error e, w)
def bind {α β} (x : M P α) (f : α → M P β) : M P β := fun w =>
  match x w with
  | (.ok a, w') => f a w'
  | (.error e, w') => (.error e, w')
def ofExcept {α} : Except P.E α → M P α
  | .ok a => pure a
  | .error e => throw e

/-- left fold with effects (the emitted accumulation loops) -/
def foldl {α β} (f : β → α → M P β) : β → List α → M P β
  | b, [] => pure b
  | b, a :: as => bind (f b a) (fun b' => foldl f b' as)

theorem foldl_congr {α β} {f g : β → α → M P β} (l : List α) (h : ∀ b a, a ∈ l → f b a = g b a) (b : β) :
    foldl f b l = foldl g b l := by
  induction l generalizing b with
  | nil => rfl
  | cons a as ih =>
    simp only [foldl]
    rw [h b a (List.mem_cons_self)]
    congr 1
    funext b'
    exact ih (fun b a' ha' => h b a' (List.mem_cons_of_mem _ ha')) b'

theorem pure_bind {α β} (a : α) (f : α → M P β) : bind (pure a) f = f a := rfl

end M

/-- which family an SSS opcode belongs to (vm.c) and, for the operator family, its method name -/
inductive Kind where
  | arith (method : String)
  | rel
  | eq
  | neq
  | other
  deriving DecidableEq, Repr

def kindOf : Op → Kind
  | .add => .arith "+"
  | .subtract => .arith "-"
  | .multiply => .arith "*"
  | .divide => .arith "/"
  | .divideFloor => .arith "div"
  | .modulo => .arith "mod"
  | .remainder => .arith "%"
  | .band => .arith "&"
  | .bor => .arith "|"
  | .bxor => .arith "^"
  | .shiftLeft => .arith "<<"
  | .shiftRight => .arith ">>"
  | .shiftRightUnsigned => .arith ">>"   -- vm_bitopu( >>): the macro stringifies its operator, so the method is :>> as well
  | .greaterThan => .rel
  | .lessThan => .rel
  | .greaterThanEqual => .rel
  | .lessThanEqual => .rel
  | .equals => .eq
  | .notEquals => .neq
  | _ => .other

/-- the SSS opcode an immediate (SSI) opcode is the immediate form of -/
def immBase : Op → Option Op
  | .addImmediate => some .add
  | .subtractImmediate => some .subtract
  | .multiplyImmediate => some .multiply
  | .divideImmediate => some .divide
  | .shiftLeftImmediate => some .shiftLeft
  | .shiftRightImmediate => some .shiftRight
  | .shiftRightUnsignedImmediate => some .shiftRightUnsigned
  | .greaterThanImmediate => some .greaterThan
  | .lessThanImmediate => some .lessThan
  | .equalsImmediate => some .equals
  | .notEqualsImmediate => some .notEquals
  | _ => none

variable (P : Prims)

def ofBool (b : Bool) : P.V := if b then P.tru else P.fls

theorem truthy_ofBool (b : Bool) : P.truthy (ofBool P b) = b := by
  cases b
  · simp [ofBool, P.truthy_fls]
  · simp [ofBool, P.truthy_tru]

/-- `janet_binop_call(m, "r" m, a, b)` -/
def binopCall (m : String) (a b : P.V) : M P P.V :=
  match P.lookup a m with
  | some f => P.invoke f [a, b]
  | none =>
    match P.lookup b ("r" ++ m) with
    | some f => P.invoke f [b, a]
    | none => M.throw (P.noMethod m a)

/-- `janet_mcall(m, 2, {a, b})` -/
def mcall (m : String) (a b : P.V) : M P P.V :=
  match P.lookup a m with
  | some f => P.invoke f [a, b]
  | none => M.throw (P.noMethod m a)

/-- semantics of an SSS opcode of family `k` -/
def binopK (k : Kind) (op : Op) (a b : P.V) : M P P.V :=
  match k with
  | .arith m => if P.isNum a && P.isNum b then M.ofExcept (P.arith op a b) else binopCall P m a b
  | .rel => M.pure (ofBool P (if P.isNum a && P.isNum b then P.numRel op a b else P.cmpRel op a b))
  | .eq => M.pure (ofBool P (P.eqv a b))
  | .neq => M.pure (ofBool P (!P.eqv a b))
  | .other => P.other op a b

/-- semantics of an SSS opcode: `stack[A] = stack[B] op stack[C]` -/
def binop (op : Op) (a b : P.V) : M P P.V := binopK P (kindOf op) op a b

/-- semantics of the immediate form of an opcode `op` of family `k` (`vm_binop_immediate`, `vm_bitop_immediate`,
    `vm_compop_imm`, `JOP_EQUALS_IMMEDIATE`, `JOP_NOT_EQUALS_IMMEDIATE`) -/
def immopK (k : Kind) (op : Op) (a : P.V) (i : Int) : M P P.V :=
  match k with
  | .arith m => if P.isNum a then M.ofExcept (P.arith op a (P.num i)) else mcall P m a (P.num i)
  | .rel => M.pure (ofBool P (if P.isNum a then P.numRel op a (P.num i) else P.cmpRel op a (P.num i)))
  | .eq => M.pure (ofBool P (P.isNum a && P.numEq a (P.num i)))
  | .neq => M.pure (ofBool P (!P.isNum a || !P.numEq a (P.num i)))
  | .other => P.other op a (P.num i)

/-- semantics of an SSI opcode: `stack[A] = stack[B] op (int8) C` -/
def immop (opim : Op) (a : P.V) (i : Int) : M P P.V :=
  match immBase opim with
  | none => binop P opim a (P.num i)
  | some op => immopK P (kindOf op) op a i

theorem immopK_eq (k : Kind) (op : Op) (a : P.V) (i : Int) : immopK P k op a i = binopK P k op a (P.num i) := by
  cases k with
  | arith m =>
    simp only [immopK, binopK, P.num_isNum, Bool.and_true]
    by_cases hn : P.isNum a = true
    · simp [hn]
    · simp only [hn]
      unfold mcall binopCall
      cases hl : P.lookup a m with
      | some f => rfl
      | none => simp [P.lookup_num (P.num i) ("r" ++ m) (P.num_isNum i)]
  | rel => simp [immopK, binopK, P.num_isNum]
  | eq => simp [immopK, binopK, P.eqv_num]
  | neq =>
    simp only [immopK, binopK, P.eqv_num]
    congr 2
    cases P.isNum a <;> cases P.numEq a (P.num i) <;> rfl
  | other => rfl

/-- ★ every immediate opcode computes what its three-register form computes on the immediate as a number:
    same value, same error class, same method calls -/
theorem imm_agrees (opim op : Op) (h : immBase opim = some op) (a : P.V) (i : Int) :
    immop P opim a i = binop P op a (P.num i) := by
  unfold immop binop
  rw [h]
  exact immopK_eq P (kindOf op) op a i

/-- `not=` is the negation of `=` (vm.c: `!janet_equals`) -/
theorem neq_eq_not (a b : P.V) : binop P .notEquals a b = M.pure (ofBool P (!P.eqv a b)) := rfl
theorem eq_eq (a b : P.V) : binop P .equals a b = M.pure (ofBool P (P.eqv a b)) := rfl

/-! ### instructions, frames, one step per opcode (register / control subset) -/

/-- a decoded instruction word: opcode (low 7 bits) and the 24 operand bits -/
structure Instr where
  op : Op
  bits : Nat
  deriving DecidableEq, Repr, Inhabited

def decode (w : Nat) : Option Instr := (Op.ofNat? (w % 128)).map fun op => ⟨op, w / 256⟩

def signExt (bits : Nat) (x : Nat) : Int := if x < 2 ^ (bits - 1) then (x : Int) else (x : Int) - (2 ^ bits : Nat)

namespace Instr
def A (i : Instr) : Nat := i.bits % 256
def B (i : Instr) : Nat := i.bits / 256 % 256
def C (i : Instr) : Nat := i.bits / 65536 % 256
def D (i : Instr) : Nat := i.bits % 16777216
def E (i : Instr) : Nat := i.bits / 256 % 65536
def CS (i : Instr) : Int := signExt 8 i.C
def ES (i : Instr) : Int := signExt 16 i.E
def DS (i : Instr) : Int := signExt 24 i.D
end Instr

/-- a frame: the slots of the running function and its program counter -/
structure Frame where
  slots : List P.V
  pc : Nat

def getSlot (f : Frame P) (i : Nat) : P.V := f.slots.getD i P.nil
def setSlot (f : Frame P) (i : Nat) (v : P.V) : Frame P := { f with slots := f.slots.set i v }
def next (f : Frame P) : Frame P := { f with pc := f.pc + 1 }
def jumpBy (f : Frame P) (d : Int) : Frame P := { f with pc := (Int.ofNat f.pc + d).toNat }

/-- what one instruction does: continue in the frame, or return a value -/
inductive Step where
  | cont (f : Frame P)
  | ret (v : P.V)

/-- one step of the interpreter for the register / control subset used by the specialisations, the generic templates and
    the clean-up passes; `none` for opcodes outside that subset (calls, closures, upvalues, constructors, signals) -/
def step (i : Instr) (f : Frame P) : Option (M P (Step P)) :=
  let cont (g : Frame P) : M P (Step P) := M.pure (.cont g)
  match i.op with
  | .noop => some (cont (next P f))
  | .return => some (M.pure (.ret (getSlot P f i.D)))
  | .returnNil => some (M.pure (.ret P.nil))
  | .loadNil => some (cont (next P (setSlot P f i.D P.nil)))
  | .loadTrue => some (cont (next P (setSlot P f i.D P.tru)))
  | .loadFalse => some (cont (next P (setSlot P f i.D P.fls)))
  | .loadInteger => some (cont (next P (setSlot P f i.A (P.num i.ES))))
  | .moveNear => some (cont (next P (setSlot P f i.A (getSlot P f i.E))))
  | .moveFar => some (cont (next P (setSlot P f i.E (getSlot P f i.A))))
  | .jump => some (cont (jumpBy P f i.DS))
  | .jumpIf => some (cont (if P.truthy (getSlot P f i.A) then jumpBy P f i.ES else next P f))
  | .jumpIfNot => some (cont (if P.truthy (getSlot P f i.A) then next P f else jumpBy P f i.ES))
  | .jumpIfNil => some (cont (if P.isNil (getSlot P f i.A) then jumpBy P f i.ES else next P f))
  | .jumpIfNotNil => some (cont (if P.isNil (getSlot P f i.A) then next P f else jumpBy P f i.ES))
  | .length | .bnot =>
    some (M.bind (P.unary i.op (getSlot P f i.E)) fun v => cont (next P (setSlot P f i.A v)))
  | .put => some (M.bind (P.put3 (getSlot P f i.A) (getSlot P f i.B) (getSlot P f i.C)) fun _ => cont (next P f))
  | .signal => some (M.bind (P.signal (getSlot P f i.B) i.C) fun v => cont (next P (setSlot P f i.A v)))
  | .error => some (M.throw (P.raise (getSlot P f i.A)))
  | .getIndex => some (M.bind (P.getIndex (getSlot P f i.B) i.C) fun v => cont (next P (setSlot P f i.A v)))
  | op =>
    match immBase op with
    | some _ => some (M.bind (immop P op (getSlot P f i.B) i.CS) fun v => cont (next P (setSlot P f i.A v)))
    | none =>
      match Op.itype op with
      | .sss => some (M.bind (binop P op (getSlot P f i.B) (getSlot P f i.C)) fun v => cont (next P (setSlot P f i.A v)))
      | _ => none

end JanetModel.Bytecode.VM
