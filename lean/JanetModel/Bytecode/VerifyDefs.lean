/- C10: model of `janet_verify` (bytecode.c) and of what `run_vm` (vm.c) dereferences, both parametrised by the tables
   that the translator regenerates from the current source (Gen/Bytecode.lean, Gen/VmAccess.lean).  Core Lean only. -/
import JanetModel.Gen.Bytecode
namespace JanetModel.Bytecode
open JanetModel.Gen.Bytecode

/-- operand field macros of vm.c: A B C D E (unsigned), CS DS ES (signed) -/
inductive Field where
  | fA | fB | fC | fD | fE | fCS | fDS | fES
  deriving DecidableEq, Repr, Inhabited

/-- what one `VM_OP` block does with the operand fields (extracted after macro expansion) -/
structure Access where
  slots : List Field := []            -- `stack[f]`
  consts : List (Field × Bool) := []  -- `func->def->constants[f]`, flag = a run-time bound check precedes it
  defs : List (Field × Bool) := []    -- `func->def->defs[f]`
  envs : List (Field × Bool) := []    -- `func->envs[f]`
  jumps : List Field := []            -- `pc += f`
  next : Bool := false                -- `pc++` in the frame of the instruction itself
  returns : Bool := false             -- block can leave run_vm
  entry : Bool := false               -- block enters a callee at its first instruction
  pushes : Bool := false              -- block saves pc and pushes a frame (the frame is returned into later)
  resumeSlots : List Field := []      -- after `vm_restore()`: `stack[f]` in the frame that is returned into
  resumeNext : Bool := false          -- after `vm_restore()`: `pc++` in that frame
  deriving Repr, Inhabited

/-- u32 instruction word reinterpreted as int32 -/
def toI32 (w : Nat) : Int := if w < 2147483648 then (w : Int) else (w : Int) - 4294967296

/-- value of an unsigned field macro on instruction word `w` -/
def fieldVal : Field → Nat → Nat
  | .fA, w => w / 256 % 256
  | .fB, w => w / 65536 % 256
  | .fC, w => w / 16777216
  | .fD, w => w / 256
  | .fE, w => w / 65536
  | _, _ => 0

/-- value of a signed field macro (arithmetic shift = floor division) -/
def sfieldVal : Field → Nat → Int
  | .fCS, w => toI32 w / 16777216
  | .fDS, w => toI32 w / 256
  | .fES, w => toI32 w / 65536
  | _, _ => 0

/-- the parts of a funcdef that verification and operand access depend on -/
structure FuncDef where
  slotcount : Nat
  arity : Nat
  vararg : Bool
  nconsts : Nat
  ndefs : Nat
  nenvs : Nat
  bytecode : List Nat
  deriving Repr, Inhabited

/-- everything regenerated from the source -/
structure Tables where
  count : Nat                       -- JOP_INSTRUCTION_COUNT
  itype : Nat → IType               -- janet_instructions[]
  access : Nat → Access             -- per VM_OP block
  lookup : List (Option Nat)        -- op_lookup[] initialisers (none = label_unknown_op)
  verifyRangeMod : Nat              -- (instr & 0x7F) >= COUNT        -> 0x7F + 1
  verifyTypeMod : Nat               -- janet_instructions[instr & 0x7F]
  verifyLastMod : Nat               -- lastop = ... & 0xFF
  dispatchMod : Nat                 -- vm_next: op_lookup[*pc & 0xFF]
  breakMod : Nat                    -- first opcode after a breakpoint: *pc & 0x7F
  terminals : List Nat              -- opcodes allowed as last instruction

/-- one iteration of the `for` loop of janet_verify: 0 = `continue`, else the returned error code -/
def checkInstr (T : Tables) (d : FuncDef) (i : Nat) (w : Nat) : Nat :=
  if w % T.verifyRangeMod ≥ T.count then 3 else
  match T.itype (w % T.verifyTypeMod) with
  | .none_ => 0
  | .s => if w / 256 ≥ d.slotcount then 4 else 0
  | .si => if w / 256 % 256 ≥ d.slotcount then 4 else 0
  | .su => if w / 256 % 256 ≥ d.slotcount then 4 else 0
  | .st => if w / 256 % 256 ≥ d.slotcount then 4 else 0
  | .l =>
    let dest : Int := (i : Int) + toI32 w / 256
    if dest < 0 ∨ dest ≥ (d.bytecode.length : Int) then 5 else 0
  | .ss => if w / 256 % 256 ≥ d.slotcount ∨ w / 65536 ≥ d.slotcount then 4 else 0
  | .ssi => if w / 256 % 256 ≥ d.slotcount ∨ w / 65536 % 256 ≥ d.slotcount then 4 else 0
  | .ssu => if w / 256 % 256 ≥ d.slotcount ∨ w / 65536 % 256 ≥ d.slotcount then 4 else 0
  | .sl =>
    let dest : Int := (i : Int) + toI32 w / 65536
    if w / 256 % 256 ≥ d.slotcount then 4
    else if dest < 0 ∨ dest ≥ (d.bytecode.length : Int) then 5 else 0
  | .sss => if w / 256 % 256 ≥ d.slotcount ∨ w / 65536 % 256 ≥ d.slotcount ∨ w / 16777216 % 256 ≥ d.slotcount then 4 else 0
  | .sd => if w / 256 % 256 ≥ d.slotcount then 4 else if w / 65536 ≥ d.ndefs then 6 else 0
  | .sc => if w / 256 % 256 ≥ d.slotcount then 4 else if w / 65536 ≥ d.nconsts then 7 else 0
  | .ses => if w / 256 % 256 ≥ d.slotcount then 4 else if w / 65536 % 256 ≥ d.nenvs then 8 else 0

/-- the `for (i = 0; i < bytecode_length; i++)` loop with its early returns -/
def verifyLoop (T : Tables) (d : FuncDef) : Nat → List Nat → Nat
  | _, [] => 0
  | i, w :: ws =>
    let r := checkInstr T d i w
    if r ≠ 0 then r else verifyLoop T d (i + 1) ws

/-- `janet_verify`: 0 = accepted -/
def verify (T : Tables) (d : FuncDef) : Nat :=
  if d.bytecode.length = 0 then 1
  else if d.arity + (if d.vararg then 1 else 0) > d.slotcount then 2
  else
    let r := verifyLoop T d 0 d.bytecode
    if r ≠ 0 then r
    else match d.bytecode.getLast? with
      | some w => if T.terminals.contains (w % T.verifyLastMod) then 0 else 9
      | none => 1

/-- slot fields that the verifier has compared with `slotcount` for an instruction of type `t`
    (a narrower field of a checked wider field is checked too: A ≤ D, B ≤ E) -/
def checkedSlots : IType → List Field
  | .none_ => []
  | .l => []
  | .s => [.fD, .fA]
  | .ss => [.fA, .fE, .fB]
  | .sss => [.fA, .fB, .fC]
  | .ssi => [.fA, .fB]
  | .ssu => [.fA, .fB]
  | .si => [.fA]
  | .su => [.fA]
  | .st => [.fA]
  | .sl => [.fA]
  | .sd => [.fA]
  | .sc => [.fA]
  | .ses => [.fA]

def checkedConsts : IType → List Field
  | .sc => [.fE]
  | _ => []
def checkedDefs : IType → List Field
  | .sd => [.fE]
  | _ => []
def checkedEnvs : IType → List Field
  | .ses => [.fB]
  | _ => []
def checkedJumps : IType → List Field
  | .l => [.fDS]
  | .sl => [.fES]
  | _ => []

/-- one row: the handler of an opcode of verifier type `t` only dereferences what the verifier checked -/
def rowOk (t : IType) (a : Access) (terminal : Bool) : Bool :=
  a.slots.all (fun f => (checkedSlots t).contains f) &&
  a.consts.all (fun p => p.2 || (checkedConsts t).contains p.1) &&
  a.defs.all (fun p => p.2 || (checkedDefs t).contains p.1) &&
  a.envs.all (fun p => p.2 || (checkedEnvs t).contains p.1) &&
  a.jumps.all (fun f => (checkedJumps t).contains f) &&
  (!(a.next && terminal)) &&
  (!a.pushes || ((checkedSlots t).contains .fA && !terminal)) &&
  a.resumeSlots.all (fun f => f == .fA)

def lookupOk (T : Tables) (idx : Nat) : Bool :=
  !(idx % T.verifyTypeMod < T.count) ||
    (if idx < T.count then T.lookup[idx]? == some (some idx) else T.lookup[idx]? == some none)

/-- `tables_consistent`: decidable, checked by evaluation on the generated tables -/
def Tables.consistent (T : Tables) : Bool :=
  T.verifyRangeMod == T.verifyTypeMod && T.breakMod == T.verifyTypeMod && T.dispatchMod == 2 * T.verifyTypeMod &&
  T.verifyLastMod == T.dispatchMod && decide (T.count ≤ T.verifyTypeMod) && decide (0 < T.verifyTypeMod) &&
  (List.range T.dispatchMod).all (lookupOk T) &&
  (List.range T.count).all (fun op => rowOk (T.itype op) (T.access op) (T.terminals.contains op)) &&
  T.terminals.all (fun t => decide (t < T.count))

/-- rows that fail, for naming the opcode when the obligation breaks -/
def Tables.badRows (T : Tables) : List Nat :=
  (List.range T.count).filter (fun op => !rowOk (T.itype op) (T.access op) (T.terminals.contains op))

end JanetModel.Bytecode
