/- C02: facts about the frame set-up of the VM model (`mkRegs` = `janet_fiber_funcframe` / `janet_fiber_funcframe_tail`):
   every slot that did not receive an argument is nil, for calls and tail calls alike (the model uses one function). -/
import JanetModel.Bytecode.Exec
namespace JanetModel.Bytecode.Exec
set_option linter.unusedSimpArgs false

theorem getD_set_ne (a : Array Value) (i j : Nat) (v : Value) (h : j ≠ i) : (a.setIfInBounds i v).getD j .nil = a.getD j .nil := by
  simp [Array.getD_eq_getD_getElem?, Array.getElem?_setIfInBounds, Ne.symm h]
theorem foldl_set_other (args : Array Value) (l : List Nat) (base : Array Value) (j : Nat) (hj : j ∉ l) :
    (l.foldl (fun (r : Array Value) i => r.setIfInBounds i (args.getD i .nil)) base).getD j .nil = base.getD j .nil := by
  induction l generalizing base with
  | nil => rfl
  | cons a l ih =>
    simp only [List.foldl_cons]
    rw [ih _ (fun h => hj (List.mem_cons_of_mem _ h))]
    exact getD_set_ne base a j _ (fun h => hj (h ▸ List.mem_cons_self))
theorem mkRegs_omitted_nil (heap : Array HeapObj) (d : FuncDef) (args regs : Array Value) (hv : d.vararg = false)
    (h : mkRegs heap d args = some regs) (i : Nat) (hi : args.size ≤ i) : regs.getD i .nil = .nil := by
  simp only [mkRegs, hv, Bool.false_eq_true, if_false] at h
  split at h
  · cases h
  · injection h with h
    subst h
    rw [foldl_set_other args _ _ i (by simp; omega)]
    simp [Array.getD_eq_getD_getElem?, Array.getElem?_replicate]
    split <;> rfl
end JanetModel.Bytecode.Exec
