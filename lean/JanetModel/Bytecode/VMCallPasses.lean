import JanetModel.Bytecode.VMCall
import JanetModel.Bytecode.VMMovopt

/-!
The clean-up passes of bytecode.c over the FULL interpreter `VM.execX` (all 77 opcodes: calls, tail calls, pushes,
constructors, closures, upvalues, constants, typecheck): `janet_bytecode_remove_noops` and `janet_bytecode_movopt` preserve
the result, the error, the world - hence the sequence of calls with their arguments, since every call is an oracle step on
the world - from every pc.
-/

namespace JanetModel.Bytecode.VMPasses
open JanetModel.Gen.Bytecode JanetModel.Gen.Cfuns JanetModel.Bytecode.VM

variable {P : Prims}

/-! ### a pc-independent core for `stepX` -/

inductive OutX (P : Prims) where
  | next (s a : List P.V)
  | jump (s a : List P.V) (off : Int)
  | ret (v : P.V)

def ofXOut : XOut P → OutX P
  | .next s a => .next s a
  | .ret v => .ret v

def ofOutcome (a : List P.V) : Outcome P → OutX P
  | .next s => .next s a
  | .jump s o => .jump s a o
  | .ret v => .ret v

def coreX (X : CallPrims P) (cap : Nat → Bool) (x : Instr) (s a : List P.V) : Option (M P (OutX P)) :=
  match callCore X cap x s a with
  | some m => some (M.map P ofXOut m)
  | none => (stepCore P x s).map (M.map P (ofOutcome a))

def toStepX (pc : Nat) : OutX P → XStep P
  | .next s a => .cont ⟨s, a, pc + 1⟩
  | .jump s a off => .cont ⟨s, a, (Int.ofNat pc + off).toNat⟩
  | .ret v => .ret v

theorem M.map_map {α β γ} (g : β → γ) (f : α → β) (m : M P α) : M.map P g (M.map P f m) = M.map P (fun x => g (f x)) m := by
  funext w
  simp only [M.map, M.bind, M.pure]
  rcases m w with ⟨(_ | _), _⟩ <;> rfl

theorem M.map_congr {α β} (g h : α → β) (m : M P α) (e : ∀ x, g x = h x) : M.map P g m = M.map P h m := by
  have : g = h := funext e
  rw [this]

/-- `stepX` is `coreX` on slots and pending arguments, with the outcome placed at the current pc -/
theorem stepX_core (X : CallPrims P) (cap : Nat → Bool) (i : Instr) (f : XFrame P) :
    stepX X cap i f = (coreX X cap i f.slots f.args).map (M.map P (toStepX f.pc)) := by
  unfold stepX coreX
  cases hcc : callCore X cap i f.slots f.args with
  | some m =>
    simp only [Option.map_some, M.map_map]
    congr 1
    apply M.map_congr
    intro o; cases o <;> rfl
  | none =>
    simp only [step_core, Option.map_map]
    congr 1
    funext m
    simp only [Function.comp, M.map_map]
    apply M.map_congr
    intro o; cases o <;> rfl

theorem isCallOp_not_jump (op : Op) (h : isCallOp op = true) : isJumpOp op = false := by
  cases op <;> first | rfl | (simp [isCallOp] at h)

theorem isCallOp_not_noop (op : Op) (h : isCallOp op = true) : (op != .noop) = true := by
  cases op <;> first | rfl | (simp [isCallOp] at h)

theorem callCore_none_of_op (X : CallPrims P) (cap) (x y : Instr) (s a : List P.V) (hop : y.op = x.op) (h : callCore X cap x s a = none) :
    ∀ s' a', callCore X cap y s' a' = none := by
  intro s' a'
  have h1 := callCore_isSome X cap x s a
  rw [h] at h1
  have h2 := callCore_isSome X cap y s' a'
  rw [hop, ← h1] at h2
  cases hc : callCore X cap y s' a' with
  | none => rfl
  | some _ => rw [hc] at h2; cases h2

/-! ### remove_noops -/

/-- ★ `janet_bytecode_remove_noops` preserves behaviour for code with ANY opcode - calls, tail calls, pushes, constructors, closures,
    upvalues included: whatever the original computes from `pc` (result or error and the world after all effects, so the same calls
    with the same arguments in the same order) the rewritten code computes from `pc_map[pc]` with the same slots and pending arguments -/
theorem remove_noops_preserves_x (X : CallPrims P) (cap : Nat → Bool) (code : List Instr) (hwf : JumpsWf code) :
    ∀ (fuel : Nat) (s a : List P.V) (pc : Nat) (w : P.W) (r : Except P.E P.V × P.W),
      execX X cap code fuel ⟨s, a, pc⟩ w = some r → execX X cap (removeNoopsFull code) fuel ⟨s, a, pcMap code pc⟩ w = some r := by
  intro fuel
  induction fuel with
  | zero => intro s a pc w r h; simp [execX] at h
  | succ k ih =>
    intro s a pc w r h
    simp only [execX] at h
    cases hc : code[pc]? with
    | none => simp [hc] at h
    | some x =>
      have hlt : pc < code.length := by
        rcases Nat.lt_or_ge pc code.length with h1 | h1
        · exact h1
        · rw [List.getElem?_eq_none h1] at hc; cases hc
      have hx : code[pc]'hlt = x := by
        have := List.getElem?_eq_getElem hlt
        rw [this] at hc
        exact Option.some.inj hc
      simp only [hc] at h
      by_cases hn : (x.op != .noop) = true
      · have hget := removeNoopsFull_get code pc hlt (by rw [hx]; exact hn)
        rw [hx] at hget
        have hsucc : pcMap code (pc + 1) = pcMap code pc + 1 := by
          rw [pcMap_succ code pc hlt, hx]; simp [hn]
        cases hcc : callCore X cap x s a with
        | some mc =>
          -- a call-family instruction: not a jump, so it is copied unchanged
          have hco : isCallOp x.op = true := by
            have := callCore_isSome X cap x s a
            rw [hcc] at this
            exact this.symm
          rw [retarget_nonjump code pc x (isCallOp_not_jump x.op hco)] at hget
          simp only [stepX, hcc] at h
          simp only [execX, hget, stepX, hcc]
          simp only [M.map, M.bind, M.pure] at h ⊢
          rcases hm : mc w with ⟨(e | o), w'⟩
          · rw [hm] at h; exact h
          · rw [hm] at h
            cases o with
            | ret v => exact h
            | next s' a' =>
              simp only [placeX] at h ⊢
              rw [← hsucc]
              exact ih s' a' (pc + 1) w' r h
        | none =>
          have hcc' := callCore_none_of_op X cap x (retarget code pc x) s a (retarget_op code pc x) hcc
          simp only [stepX, hcc] at h
          cases hs : step P x ⟨s, pc⟩ with
          | none => simp [hs] at h
          | some m =>
            simp only [hs, Option.map_some] at h
            obtain ⟨m', hm', hspec⟩ := retarget_step P code hwf pc hlt (by rw [hx]; exact hn) s m (by rw [hx]; exact hs)
            rw [hx] at hm'
            simp only [execX, hget, stepX, hcc' s a, hm', Option.map_some]
            have hw := hspec w
            simp only [M.map, M.bind, M.pure] at h ⊢
            rcases hmw : m w with ⟨(e | st), w'⟩
            · rw [hmw] at h hw; simp only [] at hw; rw [hw]; exact h
            · cases st with
              | ret v => rw [hmw] at h hw; simp only [] at hw; rw [hw]; exact h
              | cont g =>
                rw [hmw] at h hw
                simp only [] at hw h
                rw [hw]
                simp only [liftStep] at h ⊢
                exact ih g.slots a g.pc w' r h
      · have hop : x.op = .noop := by simpa using hn
        have hcc : callCore X cap x s a = none := by simp [callCore, hop]
        have hs : step P x ⟨s, pc⟩ = some (M.pure (.cont ⟨s, pc + 1⟩)) := by simp [step, hop, next]
        simp only [stepX, hcc, hs, Option.map_some, M.map, M.bind, M.pure, liftStep] at h
        have := ih s a (pc + 1) w r h
        have hpm : pcMap code (pc + 1) = pcMap code pc := by
          rw [pcMap_succ code pc hlt, hx]; simp [hop]
        rw [hpm] at this
        exact execX_mono X cap _ k _ w r this (k + 1) (by omega)

/-! ### movopt -/

/-- related outcomes: same control transfer, same value, same pending arguments, slots agreeing outside `D` -/
def OutRelX (D : Nat → Bool) : OutX P → OutX P → Prop
  | .next s a, .next s' a' => Agree P D s s' ∧ a = a'
  | .jump s a o, .jump s' a' o' => Agree P D s s' ∧ a = a' ∧ o = o'
  | .ret v, .ret v' => v = v'
  | _, _ => False

def MRelX (D : Nat → Bool) (m m' : M P (OutX P)) : Prop :=
  ∀ w, match m w, m' w with
    | (.error e, w1), (.error e', w2) => e = e' ∧ w1 = w2
    | (.ok o, w1), (.ok o', w2) => OutRelX D o o' ∧ w1 = w2
    | _, _ => False

def CoreRelX (D : Nat → Bool) : Option (M P (OutX P)) → Option (M P (OutX P)) → Prop
  | none, none => True
  | some m, some m' => MRelX D m m'
  | _, _ => False

theorem getElem?_of_agree (D : Nat → Bool) (s s' : List P.V) (h : Agree P D s s') (k : Nat) (hk : D k = false) : s[k]? = s'[k]? := by
  have hg := h.2 k hk
  unfold getS at hg
  rw [List.getD_eq_getElem?_getD, List.getD_eq_getElem?_getD] at hg
  by_cases hl : k < s.length
  · have hl' : k < s'.length := by rw [← h.1]; exact hl
    rw [List.getElem?_eq_getElem hl, List.getElem?_eq_getElem hl'] at hg ⊢
    simpa using hg
  · rw [List.getElem?_eq_none (by omega), List.getElem?_eq_none (by rw [← h.1]; omega)]

/-- a callee sees the same captured slots in both runs: no captured slot is dead -/
theorem view_agree (D cap : Nat → Bool) (hcap : ∀ k, cap k = true → D k = false) (s s' : List P.V) (h : Agree P D s s') :
    view P cap s = view P cap s' := by
  funext k
  unfold view
  by_cases hc : cap k = true
  · simp only [hc, if_true]
    exact getElem?_of_agree D s s' h k (hcap k hc)
  · simp [hc]

theorem getS_merge (cap : Nat → Bool) (s : List P.V) (u : Nat → Option P.V) (k : Nat) :
    getS P (merge P cap s u) k = if k < s.length then (if cap k then (u k).getD (getS P s k) else getS P s k) else P.nil := by
  unfold getS merge
  rw [List.getD_eq_getElem?_getD, List.getD_eq_getElem?_getD, List.getElem?_mapIdx]
  by_cases hl : k < s.length
  · simp [hl]
  · simp [hl, List.getElem?_eq_none (Nat.le_of_not_lt hl)]

theorem merge_agree (D cap : Nat → Bool) (s s' : List P.V) (h : Agree P D s s') (u : Nat → Option P.V) :
    Agree P D (merge P cap s u) (merge P cap s' u) := by
  refine ⟨by simp [merge, h.1], fun k hk => ?_⟩
  rw [getS_merge, getS_merge, h.1, h.2 k hk]

theorem mrelX_pure (D : Nat → Bool) (o o' : OutX P) (h : OutRelX D o o') : MRelX D (M.pure o) (M.pure o') := by
  intro w; exact ⟨h, rfl⟩

theorem mrelX_map_bind {α} (D : Nat → Bool) (c : M P α) (k k' : α → XOut P) (h : ∀ v, OutRelX D (ofXOut (k v)) (ofXOut (k' v))) :
    MRelX D (M.map P ofXOut (M.bind c fun v => M.pure (k v))) (M.map P ofXOut (M.bind c fun v => M.pure (k' v))) := by
  intro w
  simp only [M.map, M.bind, M.pure]
  rcases c w with ⟨(e | v), w1⟩
  · exact ⟨rfl, rfl⟩
  · exact ⟨h v, rfl⟩

/-- ★ the call family reads only the slots `vmReads` lists and the captured slots: on slot arrays that agree outside `D`, with no
    listed and no captured slot in `D`, an instruction makes the same call with the same arguments and the same view, and leaves slot
    arrays that agree outside `D` -/
theorem callCore_respects (X : CallPrims P) (D cap : Nat → Bool) (hcap : ∀ k, cap k = true → D k = false) (x : Instr)
    (hr : ∀ f ∈ vmReads x.op, D (fieldVal x f) = false) (s s' a : List P.V) (h : Agree P D s s') :
    CoreRelX D ((callCore X cap x s a).map (M.map P ofXOut)) ((callCore X cap x s' a).map (M.map P ofXOut)) := by
  have ha : Field.a ∈ vmReads x.op → getS P s x.A = getS P s' x.A := fun hm => h.2 _ (hr _ hm)
  have hb : Field.b ∈ vmReads x.op → getS P s x.B = getS P s' x.B := fun hm => h.2 _ (hr _ hm)
  have hc : Field.c ∈ vmReads x.op → getS P s x.C = getS P s' x.C := fun hm => h.2 _ (hr _ hm)
  have hd : Field.d ∈ vmReads x.op → getS P s x.D = getS P s' x.D := fun hm => h.2 _ (hr _ hm)
  have he : Field.e ∈ vmReads x.op → getS P s x.E = getS P s' x.E := fun hm => h.2 _ (hr _ hm)
  have hv := view_agree D cap hcap s s' h
  cases hop : x.op <;> rw [hop] at ha hb hc hd he <;>
    simp only [callCore, hop, Option.map_some, Option.map_none, CoreRelX] <;>
    (try rw [ha (by simp [vmReads])]) <;> (try rw [hb (by simp [vmReads])]) <;> (try rw [hc (by simp [vmReads])]) <;>
    (try rw [hd (by simp [vmReads])]) <;> (try rw [he (by simp [vmReads])]) <;> (try rw [hv]) <;>
    first
      | trivial
      | exact mrelX_pure D _ _ ⟨h, rfl⟩
      | exact mrelX_pure D _ _ ⟨agree_set P D s s' h _ _, rfl⟩
      | exact mrelX_map_bind D _ _ _ (fun v => ⟨agree_set P D s s' h _ _, rfl⟩)
      | exact mrelX_map_bind D _ _ _ (fun _ => ⟨h, rfl⟩)
      | exact mrelX_map_bind D _ _ _ (fun r => ⟨agree_set P D _ _ (merge_agree D cap s s' h r.2) _ _, rfl⟩)
      | (intro w; simp only [M.map, M.bind, M.pure]; rcases X.call _ a (view P cap s') w with ⟨(_ | _), _⟩ <;> exact ⟨rfl, rfl⟩)
      | (intro w; exact ⟨⟨agree_set P D s s' h _ _, rfl⟩, rfl⟩)
      | (intro w; exact ⟨⟨h, rfl⟩, rfl⟩)
      | (split <;> first | exact mrelX_pure D _ _ ⟨h, rfl⟩ | (intro w; exact ⟨rfl, rfl⟩))

theorem outRelX_ofOutcome (D : Nat → Bool) (a : List P.V) (o o' : Outcome P) (h : OutRel P D o o') :
    OutRelX D (ofOutcome a o) (ofOutcome a o') := by
  cases o <;> cases o' <;> simp_all [OutRel, OutRelX, ofOutcome]

/-- ★ every opcode reads only its `vmReads` slots and the captured slots -/
theorem coreX_respects (X : CallPrims P) (D cap : Nat → Bool) (hcap : ∀ k, cap k = true → D k = false) (x : Instr)
    (hr : ∀ f ∈ vmReads x.op, D (fieldVal x f) = false) (s s' a : List P.V) (h : Agree P D s s') :
    CoreRelX D (coreX X cap x s a) (coreX X cap x s' a) := by
  have hcr := callCore_respects X D cap hcap x hr s s' a h
  unfold coreX
  cases h1 : callCore X cap x s a with
  | some m =>
    cases h2 : callCore X cap x s' a with
    | some m' => rw [h1, h2] at hcr; exact hcr
    | none => rw [h1, h2] at hcr; simp [CoreRelX] at hcr
  | none =>
    cases h2 : callCore X cap x s' a with
    | some m' => rw [h1, h2] at hcr; simp [CoreRelX] at hcr
    | none =>
      have hsr := stepCore_respects P D x hr s s' h
      cases h3 : stepCore P x s with
      | none =>
        cases h4 : stepCore P x s' with
        | none => trivial
        | some _ => rw [h3, h4] at hsr; exact hsr
      | some mc =>
        cases h4 : stepCore P x s' with
        | none => rw [h3, h4] at hsr; exact hsr
        | some mc' =>
          rw [h3, h4] at hsr
          simp only [CoreRel] at hsr
          simp only [Option.map_some, CoreRelX]
          intro w
          have := hsr w
          simp only [M.map, M.bind, M.pure]
          rcases e1 : mc w with ⟨(e | o), w1⟩ <;> rcases e2 : mc' w with ⟨(e' | o'), w2⟩ <;> rw [e1, e2] at this <;>
            simp only [] at this ⊢ <;>
            first
              | exact this
              | exact this.elim
              | exact ⟨outRelX_ofOutcome D a _ _ this.1, this.2⟩

/-- an instruction the pass may delete: whenever it executes, all it does is write a dead slot (it may read the world) -/
def PureWriteDeadX (X : CallPrims P) (cap D : Nat → Bool) (x : Instr) : Prop :=
  ∀ s a m, coreX X cap x s a = some m → ∀ w, ∃ s', m w = (.ok (.next s' a), w) ∧ Agree P D s' s

def MovoptStepX (X : CallPrims P) (cap D : Nat → Bool) (code code' : List Instr) : Prop :=
  ∀ (i : Nat) (x : Instr), code[i]? = some x →
    code'[i]? = some x ∨ (∃ y : Instr, code'[i]? = some y ∧ y.op = Op.noop ∧ PureWriteDeadX X cap D x)

/-- ★ generic theorem over the full interpreter: `D` a set of slots that no instruction reads and no closure captures; the pass
    turns only pure writes to `D` into noops; then the rewritten code computes the same result / error / world - the same calls with
    the same arguments in the same order - from slot arrays that agree outside `D` -/
theorem movopt_preserves_x (X : CallPrims P) (D cap : Nat → Bool) (hcap : ∀ k, cap k = true → D k = false) (code code' : List Instr)
    (hreads : ∀ x ∈ code, ∀ f ∈ vmReads x.op, D (fieldVal x f) = false) (hstep : MovoptStepX X cap D code code') :
    ∀ (fuel : Nat) (s s' a : List P.V) (pc : Nat) (w : P.W) (r : Except P.E P.V × P.W), Agree P D s s' →
      execX X cap code fuel ⟨s, a, pc⟩ w = some r → execX X cap code' fuel ⟨s', a, pc⟩ w = some r := by
  intro fuel
  induction fuel with
  | zero => intro s s' a pc w r _ h; simp [execX] at h
  | succ k ih =>
    intro s s' a pc w r hag h
    simp only [execX] at h
    cases hc : code[pc]? with
    | none => simp [hc] at h
    | some x =>
      simp only [hc] at h
      have hmem : x ∈ code := List.mem_of_getElem? hc
      rw [stepX_core] at h
      cases hsc : coreX X cap x s a with
      | none => simp [hsc] at h
      | some mc =>
        simp only [hsc, Option.map_some] at h
        rcases hstep pc x hc with hsame | ⟨y, hy, hnoop, hpure⟩
        · have hrel := coreX_respects X D cap hcap x (hreads x hmem) s s' a hag
          rw [hsc] at hrel
          cases hsc' : coreX X cap x s' a with
          | none => rw [hsc'] at hrel; exact absurd hrel (by simp [CoreRelX])
          | some mc' =>
            rw [hsc'] at hrel
            simp only [CoreRelX] at hrel
            have hw := hrel w
            simp only [execX, hsame, stepX_core, hsc', Option.map_some]
            simp only [M.map, M.bind, M.pure] at h ⊢
            rcases h1 : mc w with ⟨(e | o), w1⟩ <;> rcases h2 : mc' w with ⟨(e' | o'), w2⟩ <;> rw [h1, h2] at hw <;>
              simp only [] at hw
            · obtain ⟨rfl, rfl⟩ := hw
              rw [h1] at h; exact h
            · obtain ⟨hor, rfl⟩ := hw
              rw [h1] at h
              cases o <;> cases o' <;> simp only [OutRelX] at hor
              · obtain ⟨hag', rfl⟩ := hor
                exact ih _ _ _ _ _ r hag' h
              · obtain ⟨hag', rfl, rfl⟩ := hor
                exact ih _ _ _ _ _ r hag' h
              · subst hor; exact h
        · obtain ⟨s1, hm1, hag1⟩ := hpure s a mc hsc w
          have hcy : callCore X cap y s' a = none := by simp [callCore, hnoop]
          have hs' : step P y ⟨s', pc⟩ = some (M.pure (.cont ⟨s', pc + 1⟩)) := by simp [step, hnoop, next]
          simp only [execX, hy, stepX, hcy, hs', Option.map_some, M.map, M.bind, M.pure, liftStep]
          simp only [M.map, M.bind, M.pure, hm1, toStepX] at h
          exact ih s1 s' a (pc + 1) w r (agree_trans P D _ _ _ hag1 hag) h

/-- the removable opcodes of the regenerated table are pure writes of the tested field, in the full interpreter too -/
theorem pureWriteDeadX_of_tables (X : CallPrims P) (cap D : Nat → Bool) (x : Instr) (f : Field) (hrem : movoptRemovable x.op = some f)
    (hok : movoptOpOk x.op = true) (hdead : D (fieldVal x f) = true)
    (hreadsC : ∀ g ∈ movoptReads x.op, D (fieldVal x g) = false) : PureWriteDeadX X cap D x := by
  unfold movoptOpOk at hok
  rw [hrem] at hok
  simp only [Bool.and_eq_true, beq_iff_eq, Bool.or_eq_true, List.contains_iff_mem] at hok
  obtain ⟨_, hw, hpure | hself⟩ := hok
  · intro s a m hm w
    simp only [pureOps, List.mem_cons, List.mem_nil_iff, or_false] at hpure
    rcases hpure with hop | hop | hop | hop | hop | hop | hop | hop | hop | hop <;>
      rw [hop] at hw <;> simp only [vmWrites, Option.some.injEq] at hw <;> subst hw <;>
      simp only [coreX, callCore, stepCore, hop, immBase, Op.itype, Option.map_some, Option.some.injEq, reduceCtorEq] at hm <;>
      subst hm <;>
      exact ⟨_, rfl, agree_set_dead P D s _ hdead _⟩
  · have := hreadsC f hself
    rw [this] at hdead
    cases hdead

/-- ★ instance for the tables of bytecode.c over the full interpreter: `D` = slots the first loop leaves unmarked (no opcode's
    `movoptReads` field names them; the closure bitset is marked first, so no captured slot is in `D`); the second loop overwrites with
    `JOP_NOOP` only instructions whose `movoptRemovable` field names a slot of `D` -/
theorem movopt_preserves_tables_x (X : CallPrims P) (D cap : Nat → Bool) (hcap : ∀ k, cap k = true → D k = false) (code code' : List Instr)
    (hreadsC : ∀ x ∈ code, ∀ g ∈ movoptReads x.op, D (fieldVal x g) = false)
    (hok : ∀ x ∈ code, movoptOpOk x.op = true)
    (hchg : ∀ (i : Nat) (x : Instr), code[i]? = some x →
      code'[i]? = some x ∨ (code'[i]? = some ⟨.noop, 0⟩ ∧ ∃ f, movoptRemovable x.op = some f ∧ D (fieldVal x f) = true)) :
    ∀ (fuel : Nat) (s a : List P.V) (pc : Nat) (w : P.W) (r : Except P.E P.V × P.W),
      execX X cap code fuel ⟨s, a, pc⟩ w = some r → execX X cap code' fuel ⟨s, a, pc⟩ w = some r := by
  intro fuel s a pc w r h
  refine movopt_preserves_x X D cap hcap code code' ?_ ?_ fuel s s a pc w r (agree_refl P D s) h
  · intro x hx f hf
    have := hok x hx
    unfold movoptOpOk at this
    simp only [Bool.and_eq_true, List.all_eq_true, List.contains_iff_mem] at this
    exact hreadsC x hx f (this.1 f hf)
  · intro i x hc
    rcases hchg i x hc with h1 | ⟨h1, f, hrem, hdead⟩
    · exact Or.inl h1
    · have hx : x ∈ code := List.mem_of_getElem? hc
      exact Or.inr ⟨_, h1, rfl, pureWriteDeadX_of_tables X cap D x f hrem (hok x hx) hdead (hreadsC x hx)⟩

end JanetModel.Bytecode.VMPasses
