/- C02: core functions callable from generated programs, as primitives over the abstract machine state.
   (The real functions are C functions or boot.janet functions; they are not what C02 validates.) -/
import JanetModel.Bytecode.ExecPrim
namespace JanetModel.Bytecode.Exec

def allocV (st : State) (o : HeapObj) (mk : Nat → Value) : Value × State :=
  let (st', a) := st.alloc o
  (mk a, st')

def foldArith (op : ArOp) (unit : Float) (one : Float → Float) (args : List Value) : PRes Value :=
  match args with
  | [] => .ok (.num unit)
  | [a] => do let x ← asNum a; pure (.num (one x))
  | a :: rest => rest.foldl (fun acc b => do let x ← acc; arith op x b) (do let x ← asNum a; pure (.num x))

def cmpChain (op : CmpOp) : List Value → PRes Bool
  | a :: b :: rest => do
    let r ← cmpOp op a b
    if r then cmpChain op (b :: rest) else pure false
  | _ => .ok true

def eqChain : List Value → Bool
  | a :: b :: rest => veq a b && eqChain (b :: rest)
  | _ => true

def sliceList (heap : Array HeapObj) (args : List Value) : PRes (List Value) := do
  let xs ← match args.head? with
    | some (.arr a) => match heap[a]? with | some (.arr xs) => PRes.ok xs.toList | _ => PRes.rt
    | some (.tuple xs _) => PRes.ok xs
    | _ => PRes.rt
  let n : Int := xs.length
  let getI (v : Option Value) (dflt : Int) : PRes Int :=
    match v with
    | none => .ok dflt
    | some .nil => .ok dflt
    | some (.num x) => if x == x.floor && x.abs <= two53 then .ok x.toInt64.toInt else .rt
    | _ => .rt
  let s ← getI args[1]? 0
  let e ← getI args[2]? n
  let s := if s < 0 then s + n + 1 else s
  let e := if e < 0 then e + n + 1 else e
  if s < 0 || s > n || e < 0 || e > n then .rt
  else if e >= s then pure ((xs.drop s.toNat).take (e - s).toNat) else pure []

def pickBy (want : Ordering) : List Value → PRes Value
  | [] => .ok .nil
  | a :: rest => rest.foldl (fun acc x => do
      let best ← acc
      match vcompare x best with
      | none => .unsup "min/max over reference types"
      | some o => pure (if o == want then x else best)) (.ok a)

/-- the part of the machine state a core function can see and change: heap, effect trace, result cell.  (Frames and
    pending call arguments are out of its reach by construction: `callPrim` below is `callPrimW` on `st.world`.) -/
structure World where
  heap : Array HeapObj := #[]
  trace : Array String := #[]
  result : Value := Value.nil
  deriving Inhabited

def World.alloc (w : World) (o : HeapObj) : World × Nat := ({ w with heap := w.heap.push o }, w.heap.size)
def World.emit (w : World) (s : String) : World := { w with trace := w.trace.push s }
def State.world (st : State) : World := { heap := st.heap, trace := st.trace, result := st.result }
def State.withWorld (st : State) (w : World) : State := { st with heap := w.heap, trace := w.trace, result := w.result }

def allocVW (st : World) (o : HeapObj) (mk : Nat → Value) : Value × World :=
  let (st', a) := st.alloc o
  (mk a, st')

def arr? (st : World) (v : Value) : PRes (Nat × Array Value) :=
  match v with
  | .arr a => match st.heap[a]? with | some (.arr xs) => .ok (a, xs) | _ => .rt
  | _ => .rt

/-- core function `name` applied to `args` -/
def callPrimW (name : String) (args : List Value) (st : World) : PRes (Value × World) :=
  let pure1 (r : PRes Value) : PRes (Value × World) := do let v ← r; pure (v, st)
  let bool1 (b : PRes Bool) : PRes (Value × World) := do let v ← b; pure (.bool v, st)
  let arg1 (f : Value → PRes Value) : PRes (Value × World) :=
    match args with | [a] => pure1 (f a) | _ => .rt
  match name with
  | "+" => pure1 (foldArith .add 0 id args)
  | "-" => pure1 (foldArith .sub 0 (fun x => -x) args)
  | "*" => pure1 (foldArith .mul 1 id args)
  | "mod" => match args with | [a, b] => pure1 (arith .modulo a b) | _ => .rt
  | "%" => match args with | [a, b] => pure1 (arith .rem a b) | _ => .rt
  | "div" => match args with | [a, b] => pure1 (arith .divFloor a b) | _ => .rt
  | "<" => bool1 (cmpChain .lt args)
  | ">" => bool1 (cmpChain .gt args)
  | "<=" => bool1 (cmpChain .le args)
  | ">=" => bool1 (cmpChain .ge args)
  | "=" => .ok (.bool (eqChain args), st)
  | "not=" => .ok (.bool (!eqChain args), st)
  | "not" => arg1 (fun a => .ok (.bool (!truthy a)))
  | "inc" => arg1 (fun a => arith .add a (.num 1))
  | "dec" => arg1 (fun a => arith .sub a (.num 1))
  | "length" => arg1 (fun a => do let n ← vlength st.heap a; pure (.num (Float.ofNat n)))
  | "get" => match args with
    | [ds, k] => .ok (vget st.heap ds k, st)
    | [ds, k, d] => .ok (vget st.heap ds k d, st)
    | _ => .rt
  | "in" => match args with
    | [ds, k] => pure1 (vin st.heap ds k)
    | [ds, k, d] => pure1 (vin st.heap ds k d)
    | _ => .rt
  | "put" => match args with
    | [ds, k, v] => do let h ← vput st.heap ds k v; pure (ds, { st with heap := h })
    | _ => .rt
  | "array/push" => match args with
    | a :: rest => do
      let (ad, xs) ← arr? st a
      pure (a, { st with heap := st.heap.setIfInBounds ad (.arr (xs ++ rest.toArray)) })
    | _ => .rt
  | "array/pop" => match args with
    | [a] => do
      let (ad, xs) ← arr? st a
      pure (xs.back?.getD .nil, { st with heap := st.heap.setIfInBounds ad (.arr xs.pop) })
    | _ => .rt
  | "array/peek" => match args with
    | [a] => do let (_, xs) ← arr? st a; pure (xs.back?.getD .nil, st)
    | _ => .rt
  | "array/concat" => match args with
    | a :: rest => do
      let (ad, xs) ← arr? st a
      let add := rest.foldl (fun (acc : Array Value) v =>
        match v with
        | .tuple ys _ => acc ++ ys.toArray
        | .arr b => match st.heap[b]? with
          | some (.arr ys) => acc ++ ys
          | _ => acc
        | v => acc.push v) #[]
      pure (a, { st with heap := st.heap.setIfInBounds ad (.arr (xs ++ add)) })
    | _ => .rt
  | "array/slice" => do
      let xs ← sliceList st.heap args
      let (v, st') := allocVW st (.arr xs.toArray) Value.arr
      pure (v, st')
  | "tuple/slice" => do let xs ← sliceList st.heap args; pure (.tuple xs false, st)
  | "array" => let (v, st') := allocVW st (.arr args.toArray) Value.arr; .ok (v, st')
  | "tuple" => .ok (.tuple args false, st)
  | "table" => if args.length % 2 == 1 then .rt else do
      let kvs ← mkTablePairs args
      let (v, st') := allocVW st (.tbl kvs) Value.tbl
      pure (v, st')
  | "struct" => if args.length % 2 == 1 then .rt else .ok (mkStruct st.heap args, st)
  | "string" => do
      let parts ← args.foldl (fun acc a => do
        let ps ← acc
        match a with
        | .nil => pure ps
        | a => do let s ← toStr a; pure (ps ++ [s])) (PRes.ok ([] : List String))
      pure (.str (String.join parts), st)
  | "print" => do
      let parts ← args.foldl (fun acc a => do let ps ← acc; let s ← toStr a; pure (ps ++ [s])) (PRes.ok ([] : List String))
      pure (.nil, st.emit (String.join parts))
  | "emit" => match args with
    | [a] => .ok (a, st.emit ("E " ++ ser st.heap a))
    | _ => .rt
  | "RES" => .ok (.nil, { st with result := args.headD .nil })
  | "type" => arg1 (fun a => .ok (.kw (typeName a)))
  | "first" => arg1 (fun a => match a with
      | .arr _ | .tuple _ _ | .str _ => .ok (vget st.heap a (.num 0))
      | _ => .rt)
  | "last" => arg1 (fun a => match a with
      | .arr _ | .tuple _ _ => do
        let n ← vlength st.heap a
        pure (if n == 0 then .nil else vget st.heap a (.num (Float.ofNat (n - 1))))
      | _ => .rt)
  | "min" => pure1 (pickBy .lt args)
  | "max" => pure1 (pickBy .gt args)
  | "nil?" => arg1 (fun a => .ok (.bool (match a with | .nil => true | _ => false)))
  | "number?" => arg1 (fun a => .ok (.bool (match a with | .num _ => true | _ => false)))
  | "string?" => arg1 (fun a => .ok (.bool (match a with | .str _ => true | _ => false)))
  | "keyword?" => arg1 (fun a => .ok (.bool (match a with | .kw _ => true | _ => false)))
  | "array?" => arg1 (fun a => .ok (.bool (match a with | .arr _ => true | _ => false)))
  | "tuple?" => arg1 (fun a => .ok (.bool (match a with | .tuple _ _ => true | _ => false)))
  | "table?" => arg1 (fun a => .ok (.bool (match a with | .tbl _ => true | _ => false)))
  | "struct?" => arg1 (fun a => .ok (.bool (match a with | .struct _ => true | _ => false)))
  | "function?" => arg1 (fun a => .ok (.bool (match a with | .fn _ => true | .cfun n => ser #[] (.cfun n) == "<function>" | _ => false)))
  | "true?" => arg1 (fun a => .ok (.bool (match a with | .bool true => true | _ => false)))
  | "false?" => arg1 (fun a => .ok (.bool (match a with | .bool false => true | _ => false)))
  | "truthy?" => arg1 (fun a => .ok (.bool (truthy a)))
  | "even?" => arg1 (fun a => do let x ← asNum a; pure (.bool (jmod x 2 == 0)))
  | "odd?" => arg1 (fun a => do let x ← asNum a; pure (.bool (jmod x 2 == 1)))
  | "zero?" => arg1 (fun a => do let r ← cmpOp .le a (.num 0); let r2 ← cmpOp .ge a (.num 0); pure (.bool (r && r2)))
  | "pos?" => arg1 (fun a => do let r ← cmpOp .gt a (.num 0); pure (.bool r))
  | "neg?" => arg1 (fun a => do let r ← cmpOp .lt a (.num 0); pure (.bool r))
  | "empty?" => arg1 (fun a => do let n ← vlength st.heap a; pure (.bool (n == 0)))
  | "identity" => arg1 (fun a => .ok a)
  | "math/abs" => arg1 (fun a => do let x ← asNum a; pure (.num x.abs))
  | "next" => match args with
    | [ds] => pure1 (vnext st.heap ds .nil)
    | [ds, k] => pure1 (vnext st.heap ds k)
    | _ => .rt
  | "error" => match args with | [a] => .user a | _ => .rt
  | n => .unsup ("core function " ++ n)

/-- core function `name` applied to `args` in machine state `st`: only the world part is read and changed -/
def callPrim (name : String) (args : List Value) (st : State) : PRes (Value × State) :=
  match callPrimW name args st.world with
  | .ok (v, w) => .ok (v, st.withWorld w)
  | .rt => .rt
  | .user v => .user v
  | .unsup w => .unsup w

end JanetModel.Bytecode.Exec
