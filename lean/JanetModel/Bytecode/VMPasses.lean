import JanetModel.Bytecode.VM
import JanetModel.Gen.Cfuns

/-!
Bytecode clean-up passes of bytecode.c over the VM model: `janet_bytecode_remove_noops` (pc map, jump retargeting) and
the side conditions `janet_bytecode_movopt` needs from its (regenerated) read / removable tables.
-/

namespace JanetModel.Bytecode.VMPasses
open JanetModel.Gen.Bytecode JanetModel.Gen.Cfuns JanetModel.Bytecode.VM

/-! ### movopt tables -/

/-- slots (by operand field) each opcode READS in vm.c - written from the interpreter, independently of bytecode.c -/
def vmReads : Op → List Field
  | .noop | .jump | .returnNil => []
  | .loadNil | .loadTrue | .loadFalse | .loadSelf => []
  | .loadInteger | .loadConstant | .loadUpvalue | .closure => []
  | .makeArray | .makeBuffer | .makeString | .makeStruct | .makeTable | .makeTuple | .makeBracketTuple => []
  | .error | .typecheck | .jumpIf | .jumpIfNot | .jumpIfNil | .jumpIfNotNil | .setUpvalue => [.a]
  | .moveFar => [.a]
  | .moveNear | .length | .bnot | .call => [.e]
  | .return | .push | .pushArray | .tailcall => [.d]
  | .signal | .getIndex => [.b]
  | .addImmediate | .subtractImmediate | .multiplyImmediate | .divideImmediate | .shiftLeftImmediate | .shiftRightImmediate
  | .shiftRightUnsignedImmediate | .greaterThanImmediate | .lessThanImmediate | .equalsImmediate | .notEqualsImmediate => [.b]
  | .putIndex => [.a, .b]
  | .push2 => [.a, .e]
  | .put | .push3 => [.a, .b, .c]
  | _ => [.b, .c]

/-- the slot field each opcode WRITES, if any -/
def vmWrites : Op → Option Field
  | .loadNil | .loadTrue | .loadFalse | .loadSelf => some .d
  | .makeArray | .makeBuffer | .makeString | .makeStruct | .makeTable | .makeTuple | .makeBracketTuple => some .d
  | .moveFar => some .e
  | .noop | .jump | .returnNil | .error | .typecheck | .jumpIf | .jumpIfNot | .jumpIfNil | .jumpIfNotNil | .setUpvalue
  | .return | .push | .pushArray | .tailcall | .putIndex | .push2 | .push3 | .put | .propagate => none
  | _ => some .a

/-- opcodes whose only effect is the slot write: cannot raise, touch no other state -/
def pureOps : List Op :=
  [.loadNil, .loadTrue, .loadFalse, .loadSelf, .loadInteger, .loadConstant, .loadUpvalue, .closure, .moveNear, .moveFar]

/-- side conditions of dead-write removal for one opcode: every slot the VM reads is marked as read; a removable opcode
    writes exactly the field that is tested, and is pure - or marks its own destination as read (then it is never removed) -/
def movoptOpOk (op : Op) : Bool :=
  (vmReads op).all (fun f => (movoptReads op).contains f) &&
  match movoptRemovable op with
  | none => true
  | some f => vmWrites op == some f && (pureOps.contains op || (movoptReads op).contains f)

def movoptTablesOk : Bool := Op.all.all movoptOpOk

/-- the opcodes for which the side conditions fail -/
def movoptBadOps : List Op := Op.all.filter (fun op => !movoptOpOk op)

/-! ### remove_noops -/

/-- `pc_map[i]`: number of non-noop instructions before index `i` -/
def pcMap (code : List Instr) (i : Nat) : Nat := ((code.take i).filter (fun x => x.op != .noop)).length

def isJumpD (op : Op) : Bool := op == .jump
def isJumpE (op : Op) : Bool := op == .jumpIf || op == .jumpIfNot || op == .jumpIfNil || op == .jumpIfNotNil

/-- relative jump offset of an instruction at index `i`, if it is a jump -/
def jumpOffset (x : Instr) : Option Int :=
  if isJumpD x.op then some x.DS else if isJumpE x.op then some x.ES else none

/-- new relative offset chosen by the C code for the jump at old index `i` (new index `j = pcMap i`):
    `instr += (new_target - old_target + (i - j)) << k` -/
def newOffset (code : List Instr) (i : Nat) (off : Int) : Int :=
  let oldT : Int := i + off
  let newT : Int := pcMap code oldT.toNat
  off + (newT - oldT + ((i : Int) - (pcMap code i : Int)))

/-- ★ jump retargeting: the rewritten jump, sitting at its new index `pcMap i`, lands on `pcMap` of the old target -/
theorem remove_noops_retarget (code : List Instr) (i : Nat) (off : Int) :
    (pcMap code i : Int) + newOffset code i off = (pcMap code ((i : Int) + off).toNat : Int) := by
  unfold newOffset
  simp only []
  omega

theorem pcMap_zero (code : List Instr) : pcMap code 0 = 0 := by simp [pcMap]

/-- `pc_map` advances by one exactly over non-noop instructions (the C loop `pc_map[i] = n; if (op != NOOP) n++`) -/
theorem pcMap_succ (code : List Instr) (i : Nat) (h : i < code.length) :
    pcMap code (i + 1) = pcMap code i + (if (code[i]'h).op != .noop then 1 else 0) := by
  unfold pcMap
  rw [List.take_succ_eq_append_getElem h, List.filter_append, List.length_append]
  by_cases hn : ((code[i]'h).op != .noop) = true
  · simp [hn]
  · simp [hn]

/-- so `pc_map` is monotone and never exceeds the index: a forward jump stays forward, targets stay in range -/
theorem pcMap_le (code : List Instr) (i : Nat) : pcMap code i ≤ i := by
  unfold pcMap
  exact Nat.le_trans (List.length_filter_le _ _) (by simp [List.length_take]; omega)

theorem pcMap_mono (code : List Instr) (i j : Nat) (h : i ≤ j) : pcMap code i ≤ pcMap code j := by
  unfold pcMap
  have : code.take i = (code.take j).take i := by rw [List.take_take]; congr 1; omega
  rw [this]
  exact List.Sublist.length_le ((List.take_sublist _ _).filter _)

/-- the instructions kept by the pass, in order (sourcemap rows are moved by the same index map `j ← i`) -/
def removeNoops (code : List Instr) : List Instr := code.filter (fun x => x.op != .noop)

/-- ★ the new length is `pc_map[len]` and the kept instruction of old index `i` sits at new index `pc_map[i]` -/
theorem removeNoops_length (code : List Instr) : (removeNoops code).length = pcMap code code.length := by
  simp [removeNoops, pcMap]

theorem removeNoops_get (code : List Instr) (i : Nat) (h : i < code.length) (hn : ((code[i]'h).op != .noop) = true) :
    (removeNoops code)[pcMap code i]? = some (code[i]'h) := by
  have hsplit : removeNoops code =
      (code.take i).filter (fun x => x.op != .noop) ++ (code.drop i).filter (fun x => x.op != .noop) := by
    unfold removeNoops
    rw [← List.filter_append, List.take_append_drop]
  rw [hsplit]
  unfold pcMap
  rw [List.getElem?_append_right (Nat.le_refl _)]
  simp only [Nat.sub_self]
  rw [List.drop_eq_getElem_cons h, List.filter_cons]
  simp [hn]

end JanetModel.Bytecode.VMPasses
