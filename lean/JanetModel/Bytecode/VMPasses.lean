import JanetModel.Bytecode.VMCore
import JanetModel.Gen.Cfuns

/-!
Bytecode clean-up passes of bytecode.c over the VM model: `janet_bytecode_remove_noops` (pc map, jump retargeting) and
the side conditions `janet_bytecode_movopt` needs from its (regenerated) read / removable tables.
-/

namespace JanetModel.Bytecode.VMPasses
open JanetModel.Gen.Bytecode JanetModel.Gen.Cfuns JanetModel.Bytecode.VM

/-! ### movopt tables -/

/-- slots (by operand field) each opcode READS in vm.c - written from the interpreter, independently of bytecode.c -/
def vmReads : Op → List Field
  | .noop | .jump | .returnNil => []
  | .loadNil | .loadTrue | .loadFalse | .loadSelf => []
  | .loadInteger | .loadConstant | .loadUpvalue | .closure => []
  | .makeArray | .makeBuffer | .makeString | .makeStruct | .makeTable | .makeTuple | .makeBracketTuple => []
  | .error | .typecheck | .jumpIf | .jumpIfNot | .jumpIfNil | .jumpIfNotNil | .setUpvalue => [.a]
  | .moveFar => [.a]
  | .moveNear | .length | .bnot | .call => [.e]
  | .return | .push | .pushArray | .tailcall => [.d]
  | .signal | .getIndex => [.b]
  | .addImmediate | .subtractImmediate | .multiplyImmediate | .divideImmediate | .shiftLeftImmediate | .shiftRightImmediate
  | .shiftRightUnsignedImmediate | .greaterThanImmediate | .lessThanImmediate | .equalsImmediate | .notEqualsImmediate => [.b]
  | .putIndex => [.a, .b]
  | .push2 => [.a, .e]
  | .put | .push3 => [.a, .b, .c]
  | _ => [.b, .c]

/-- the slot field each opcode WRITES, if any -/
def vmWrites : Op → Option Field
  | .loadNil | .loadTrue | .loadFalse | .loadSelf => some .d
  | .makeArray | .makeBuffer | .makeString | .makeStruct | .makeTable | .makeTuple | .makeBracketTuple => some .d
  | .moveFar => some .e
  | .noop | .jump | .returnNil | .error | .typecheck | .jumpIf | .jumpIfNot | .jumpIfNil | .jumpIfNotNil | .setUpvalue
  | .return | .push | .pushArray | .tailcall | .putIndex | .push2 | .push3 | .put | .propagate => none
  | _ => some .a

/-- opcodes whose only effect is the slot write: cannot raise, touch no other state -/
def pureOps : List Op :=
  [.loadNil, .loadTrue, .loadFalse, .loadSelf, .loadInteger, .loadConstant, .loadUpvalue, .closure, .moveNear, .moveFar]

/-- side conditions of dead-write removal for one opcode: every slot the VM reads is marked as read; a removable opcode
    writes exactly the field that is tested, and is pure - or marks its own destination as read (then it is never removed) -/
def movoptOpOk (op : Op) : Bool :=
  (vmReads op).all (fun f => (movoptReads op).contains f) &&
  match movoptRemovable op with
  | none => true
  | some f => vmWrites op == some f && (pureOps.contains op || (movoptReads op).contains f)

def movoptTablesOk : Bool := Op.all.all movoptOpOk

/-- the opcodes for which the side conditions fail -/
def movoptBadOps : List Op := Op.all.filter (fun op => !movoptOpOk op)

/-! ### remove_noops -/

/-- `pc_map[i]`: number of non-noop instructions before index `i` -/
def pcMap (code : List Instr) (i : Nat) : Nat := ((code.take i).filter (fun x => x.op != .noop)).length

def isJumpD (op : Op) : Bool := op == .jump
def isJumpE (op : Op) : Bool := op == .jumpIf || op == .jumpIfNot || op == .jumpIfNil || op == .jumpIfNotNil

/-- relative jump offset of an instruction at index `i`, if it is a jump -/
def jumpOffset (x : Instr) : Option Int :=
  if isJumpD x.op then some x.DS else if isJumpE x.op then some x.ES else none

/-- new relative offset chosen by the C code for the jump at old index `i` (new index `j = pcMap i`):
    `instr += (new_target - old_target + (i - j)) << k` -/
def newOffset (code : List Instr) (i : Nat) (off : Int) : Int :=
  let oldT : Int := i + off
  let newT : Int := pcMap code oldT.toNat
  off + (newT - oldT + ((i : Int) - (pcMap code i : Int)))

/-- ★ jump retargeting: the rewritten jump, sitting at its new index `pcMap i`, lands on `pcMap` of the old target -/
theorem remove_noops_retarget (code : List Instr) (i : Nat) (off : Int) :
    (pcMap code i : Int) + newOffset code i off = (pcMap code ((i : Int) + off).toNat : Int) := by
  unfold newOffset
  simp only []
  omega

theorem pcMap_zero (code : List Instr) : pcMap code 0 = 0 := by simp [pcMap]

/-- `pc_map` advances by one exactly over non-noop instructions (the C loop `pc_map[i] = n; if (op != NOOP) n++`) -/
theorem pcMap_succ (code : List Instr) (i : Nat) (h : i < code.length) :
    pcMap code (i + 1) = pcMap code i + (if (code[i]'h).op != .noop then 1 else 0) := by
  unfold pcMap
  rw [List.take_succ_eq_append_getElem h, List.filter_append, List.length_append]
  by_cases hn : ((code[i]'h).op != .noop) = true
  · simp [hn]
  · simp [hn]

/-- so `pc_map` is monotone and never exceeds the index: a forward jump stays forward, targets stay in range -/
theorem pcMap_le (code : List Instr) (i : Nat) : pcMap code i ≤ i := by
  unfold pcMap
  exact Nat.le_trans (List.length_filter_le _ _) (by simp [List.length_take]; omega)

theorem pcMap_mono (code : List Instr) (i j : Nat) (h : i ≤ j) : pcMap code i ≤ pcMap code j := by
  unfold pcMap
  have : code.take i = (code.take j).take i := by rw [List.take_take]; congr 1; omega
  rw [this]
  exact List.Sublist.length_le ((List.take_sublist _ _).filter _)

/-- the instructions kept by the pass, in order (sourcemap rows are moved by the same index map `j ← i`) -/
def removeNoops (code : List Instr) : List Instr := code.filter (fun x => x.op != .noop)

/-- ★ the new length is `pc_map[len]` and the kept instruction of old index `i` sits at new index `pc_map[i]` -/
theorem removeNoops_length (code : List Instr) : (removeNoops code).length = pcMap code code.length := by
  simp [removeNoops, pcMap]

theorem removeNoops_get (code : List Instr) (i : Nat) (h : i < code.length) (hn : ((code[i]'h).op != .noop) = true) :
    (removeNoops code)[pcMap code i]? = some (code[i]'h) := by
  have hsplit : removeNoops code =
      (code.take i).filter (fun x => x.op != .noop) ++ (code.drop i).filter (fun x => x.op != .noop) := by
    unfold removeNoops
    rw [← List.filter_append, List.take_append_drop]
  rw [hsplit]
  unfold pcMap
  rw [List.getElem?_append_right (Nat.le_refl _)]
  simp only [Nat.sub_self]
  rw [List.drop_eq_getElem_cons h, List.filter_cons]
  simp [hn]

/-! ### `janet_bytecode_remove_noops` preserves behaviour -/

/-- over any sublist boundary: `pc_map` contracts distances -/
theorem pcMap_sub_le (code : List Instr) (a b : Nat) (h : a ≤ b) : pcMap code b - pcMap code a ≤ b - a := by
  unfold pcMap
  have hsplit : code.take b = code.take a ++ (code.take b).drop a := by
    have : code.take a = (code.take b).take a := by rw [List.take_take]; congr 1; omega
    rw [this, List.take_append_drop]
  rw [hsplit, List.filter_append, List.length_append]
  have h1 : ((List.drop a (List.take b code)).filter fun x => x.op != Op.noop).length ≤ (List.drop a (List.take b code)).length :=
    List.length_filter_le _ _
  have h2 : (List.drop a (List.take b code)).length ≤ b - a := by simp [List.length_drop, List.length_take]; omega
  omega

/-- the instruction the pass writes for the kept instruction `x` of old index `i` (`instr += delta << 8 / 16` on the uint32 word) -/
def retarget (code : List Instr) (i : Nat) (x : Instr) : Instr :=
  if isJumpD x.op then ⟨x.op, ((newOffset code i x.DS) % 16777216).toNat⟩
  else if isJumpE x.op then ⟨x.op, x.A + 256 * ((newOffset code i x.ES) % 65536).toNat⟩
  else x

/-- second loop of the C function: drop noops, rewrite jumps; `i` = old index of the head of the remaining suffix -/
def rewriteFrom (code : List Instr) : Nat → List Instr → List Instr
  | _, [] => []
  | i, x :: xs => if x.op != .noop then retarget code i x :: rewriteFrom code (i + 1) xs else rewriteFrom code (i + 1) xs

def removeNoopsFull (code : List Instr) : List Instr := rewriteFrom code 0 code

theorem rewriteFrom_get (code : List Instr) : ∀ (suf : List Instr) (base j : Nat) (h : j < suf.length),
    ((suf[j]'h).op != .noop) = true →
    (rewriteFrom code base suf)[((suf.take j).filter (fun x => x.op != .noop)).length]? = some (retarget code (base + j) (suf[j]'h)) := by
  intro suf
  induction suf with
  | nil => intro base j h; simp at h
  | cons x xs ih =>
    intro base j h hn
    cases j with
    | zero =>
      simp only [List.getElem_cons_zero] at hn
      simp [rewriteFrom, hn]
    | succ j =>
      have h' : j < xs.length := by simpa using h
      have hn' : ((xs[j]'h').op != .noop) = true := by simpa using hn
      have := ih (base + 1) j h' hn'
      by_cases hx : (x.op != .noop) = true
      · simp only [rewriteFrom, hx, if_true, List.take_succ_cons, List.filter_cons, List.length_cons, List.getElem?_cons_succ,
          List.getElem_cons_succ]
        rw [this]
        congr 2
        omega
      · simp only [rewriteFrom, hx, List.take_succ_cons, List.filter_cons, List.getElem_cons_succ]
        simp only [Bool.false_eq_true, if_false]
        rw [this]
        congr 2
        omega

theorem removeNoopsFull_get (code : List Instr) (i : Nat) (h : i < code.length) (hn : ((code[i]'h).op != .noop) = true) :
    (removeNoopsFull code)[pcMap code i]? = some (retarget code i (code[i]'h)) := by
  have := rewriteFrom_get code code 0 i h hn
  simpa [removeNoopsFull, pcMap] using this

variable (P : Prims)

/-- a computation that never ends in a jump outcome -/
def NoJumpM (m : M P (Outcome P)) : Prop := ∀ w o w', m w = (.ok o, w') → ∀ s off, o ≠ .jump s off

theorem noJump_pure_next (s : List P.V) : NoJumpM P (M.pure (.next s)) := by
  intro w o w' h s' off; simp [M.pure] at h; rw [← h.1]; intro hh; cases hh
theorem noJump_pure_ret (v : P.V) : NoJumpM P (M.pure (.ret v)) := by
  intro w o w' h s' off; simp [M.pure] at h; rw [← h.1]; intro hh; cases hh
theorem noJump_throw (e : P.E) : NoJumpM P (M.throw e) := by
  intro w o w' h; simp [M.throw] at h
theorem noJump_bind {α} (m : M P α) (k : α → List P.V) : NoJumpM P (M.bind m fun v => M.pure (.next (k v))) := by
  intro w o w' h s' off
  simp only [M.bind, M.pure] at h
  rcases hm : m w with ⟨(e | v), w1⟩
  · rw [hm] at h; simp at h
  · rw [hm] at h
    simp at h
    rw [← h.1]
    intro hh; cases hh

def isJumpOp (op : Op) : Bool := isJumpD op || isJumpE op

/-- only the five jump opcodes produce a jump outcome -/
theorem stepCore_noJump (x : Instr) (s : List P.V) (hj : isJumpOp x.op = false) (m : M P (Outcome P)) (hm : stepCore P x s = some m) :
    NoJumpM P m := by
  cases hop : x.op <;> simp [hop, isJumpOp, isJumpD, isJumpE] at hj <;>
    simp [stepCore, hop, immBase, Op.itype] at hm <;> subst hm <;>
    first
      | exact noJump_pure_next P _
      | exact noJump_pure_ret P _
      | exact noJump_throw P _
      | exact noJump_bind P _ _

/-! field facts -/

theorem signExt24 (i : Int) (hi : -8388608 ≤ i ∧ i < 8388608) : signExt 24 (i % 16777216).toNat = i := by
  unfold signExt
  have h7 : (2 : Nat) ^ (24 - 1) = 8388608 := by decide
  have h8 : (2 : Nat) ^ 24 = 16777216 := by decide
  rw [h7, h8]
  split <;> omega

theorem ES_range (x : Instr) : -32768 ≤ x.ES ∧ x.ES < 32768 := by
  unfold Instr.ES signExt Instr.E
  have h7 : (2 : Nat) ^ (16 - 1) = 32768 := by decide
  have h8 : (2 : Nat) ^ 16 = 65536 := by decide
  rw [h7, h8]
  split <;> omega

theorem DS_range (x : Instr) : -8388608 ≤ x.DS ∧ x.DS < 8388608 := by
  unfold Instr.DS signExt Instr.D
  have h7 : (2 : Nat) ^ (24 - 1) = 8388608 := by decide
  have h8 : (2 : Nat) ^ 24 = 16777216 := by decide
  rw [h7, h8]
  split <;> omega

/-- the rewritten offset is the distance between the images of source and target, and is no larger than the old one -/
theorem newOffset_eq (code : List Instr) (i : Nat) (off : Int) (h : 0 ≤ (i : Int) + off) :
    newOffset code i off = (pcMap code ((i : Int) + off).toNat : Int) - (pcMap code i : Int) := by
  have := remove_noops_retarget code i off
  omega

theorem newOffset_bound (code : List Instr) (i : Nat) (off : Int) (h : 0 ≤ (i : Int) + off) :
    (0 ≤ off → 0 ≤ newOffset code i off ∧ newOffset code i off ≤ off) ∧ (off ≤ 0 → off ≤ newOffset code i off ∧ newOffset code i off ≤ 0) := by
  rw [newOffset_eq code i off h]
  constructor
  · intro hp
    have hle : i ≤ ((i : Int) + off).toNat := by omega
    have h1 := pcMap_mono code i _ hle
    have h2 := pcMap_sub_le code i _ hle
    omega
  · intro hn
    have hle : ((i : Int) + off).toNat ≤ i := by omega
    have h1 := pcMap_mono code _ i hle
    have h2 := pcMap_sub_le code _ i hle
    omega

theorem retarget_op (code : List Instr) (i : Nat) (x : Instr) : (retarget code i x).op = x.op := by
  unfold retarget; split
  · rfl
  · split <;> rfl

theorem retarget_nonjump (code : List Instr) (i : Nat) (x : Instr) (h : isJumpOp x.op = false) : retarget code i x = x := by
  simp only [isJumpOp, Bool.or_eq_false_iff] at h
  simp [retarget, h.1, h.2]

theorem retarget_DS (code : List Instr) (i : Nat) (x : Instr) (hd : isJumpD x.op = true) (h : 0 ≤ (i : Int) + x.DS) :
    (retarget code i x).DS = newOffset code i x.DS := by
  have hb := newOffset_bound code i x.DS h
  have hr := DS_range x
  have hrange : -8388608 ≤ newOffset code i x.DS ∧ newOffset code i x.DS < 8388608 := by
    by_cases hp : 0 ≤ x.DS
    · have := hb.1 hp; omega
    · have := hb.2 (by omega); omega
  simp only [retarget, hd, if_true, Instr.DS, Instr.D]
  have : ((newOffset code i (signExt 24 (x.bits % 16777216))) % 16777216).toNat % 16777216 =
      ((newOffset code i (signExt 24 (x.bits % 16777216))) % 16777216).toNat := by omega
  rw [this]
  exact signExt24 _ hrange

theorem retarget_E (code : List Instr) (i : Nat) (x : Instr) (hd : isJumpD x.op = false) (he : isJumpE x.op = true) (h : 0 ≤ (i : Int) + x.ES) :
    (retarget code i x).A = x.A ∧ (retarget code i x).ES = newOffset code i x.ES := by
  have hb := newOffset_bound code i x.ES h
  have hr := ES_range x
  have hrange : -32768 ≤ newOffset code i x.ES ∧ newOffset code i x.ES < 32768 := by
    by_cases hp : 0 ≤ x.ES
    · have := hb.1 hp; omega
    · have := hb.2 (by omega); omega
  have hA : x.A < 256 := by unfold Instr.A; omega
  constructor
  · simp only [retarget, hd, he, if_true, Bool.false_eq_true, if_false, Instr.A]
    have hA' : x.bits % 256 < 256 := hA
    omega
  · have hE : (retarget code i x).E = ((newOffset code i x.ES) % 65536).toNat := by
      simp only [retarget, hd, he, if_true, Bool.false_eq_true, if_false, Instr.E]
      omega
    unfold Instr.ES
    rw [hE]
    exact signExt16 _ hrange

/-- well-formed jumps (what `janet_verify` guarantees): every jump lands inside the code or just past its end -/
def JumpsWf (code : List Instr) : Prop :=
  ∀ (i : Nat) (x : Instr), code[i]? = some x →
    (isJumpD x.op = true → 0 ≤ (i : Int) + x.DS) ∧ (isJumpE x.op = true → 0 ≤ (i : Int) + x.ES)

/-- one instruction of the rewritten code simulates the kept instruction it came from: same effects, same slots, and the
    successor pc is the image under `pc_map` of the original successor pc -/
theorem retarget_step (code : List Instr) (hwf : JumpsWf code) (i : Nat) (h : i < code.length)
    (hn : ((code[i]'h).op != .noop) = true) (s : List P.V) (m : M P (Step P)) (hm : step P (code[i]'h) ⟨s, i⟩ = some m) :
    ∃ m', step P (retarget code i (code[i]'h)) ⟨s, pcMap code i⟩ = some m' ∧
      ∀ w, match m w with
        | (.error e, w') => m' w = (.error e, w')
        | (.ok (.ret v), w') => m' w = (.ok (.ret v), w')
        | (.ok (.cont g), w') => m' w = (.ok (.cont ⟨g.slots, pcMap code g.pc⟩), w') := by
  have hget : code[i]? = some (code[i]'h) := List.getElem?_eq_getElem h
  generalize hx : code[i]'h = x at *
  have hsucc : pcMap code (i + 1) = pcMap code i + 1 := by
    rw [pcMap_succ code i h, hx]; simp [hn]
  rw [step_core] at hm ⊢
  simp only [Option.map_eq_some_iff] at hm
  obtain ⟨mc, hmc, rfl⟩ := hm
  by_cases hj : isJumpOp x.op = true
  · -- a jump: same test, offset rewritten
    simp only [isJumpOp, Bool.or_eq_true] at hj
    by_cases hd : isJumpD x.op = true
    · have hwd := (hwf i x hget).1 hd
      have hDS := retarget_DS code i x hd hwd
      have hop : x.op = .jump := by simpa [isJumpD] using hd
      have hop' : (retarget code i x).op = .jump := by rw [retarget_op, hop]
      simp only [stepCore, hop, Option.some.injEq] at hmc
      subst hmc
      refine ⟨_, by simp only [stepCore, hop', Option.map_some]; rfl, ?_⟩
      intro w
      simp only [M.map, M.bind, M.pure, toStep, hDS]
      have := remove_noops_retarget code i x.DS
      simp only [Int.ofNat_eq_coe]
      congr 4
      omega
    · have hd' : isJumpD x.op = false := by simpa using hd
      have he : isJumpE x.op = true := by rcases hj with h1 | h1; exact absurd h1 hd; exact h1
      have hwe := (hwf i x hget).2 he
      obtain ⟨hA, hES⟩ := retarget_E code i x hd' he hwe
      have hret := remove_noops_retarget code i x.ES
      have hcases : x.op = .jumpIf ∨ x.op = .jumpIfNot ∨ x.op = .jumpIfNil ∨ x.op = .jumpIfNotNil := by
        simpa [isJumpE, or_assoc] using he
      rcases hcases with hop | hop | hop | hop <;>
        (have hop' : (retarget code i x).op = x.op := retarget_op code i x
         rw [hop] at hop'
         simp only [stepCore, hop, Option.some.injEq] at hmc
         subst hmc
         refine ⟨_, by simp only [stepCore, hop', Option.map_some]; rfl, ?_⟩
         intro w
         simp only [M.map, M.bind, M.pure, hA, hES]
         cases hc : P.truthy (getS P s x.A) <;> cases hc2 : P.isNil (getS P s x.A) <;>
           simp [toStep, hsucc, Int.ofNat_eq_coe] <;> omega)
  · -- not a jump: the instruction is unchanged and never produces a jump outcome
    have hj' : isJumpOp x.op = false := by simpa using hj
    rw [retarget_nonjump code i x hj']
    have hnj := stepCore_noJump P x s hj' mc hmc
    refine ⟨_, by rw [hmc]; rfl, ?_⟩
    intro w
    simp only [M.map, M.bind, M.pure]
    rcases hw : mc w with ⟨(e | o), w'⟩
    · rfl
    · cases o with
      | next s' => simp [toStep, hsucc]
      | ret v => simp [toStep]
      | jump s' off => exact absurd rfl (hnj w _ w' hw s' off)

/-- ★ `janet_bytecode_remove_noops` preserves behaviour: whatever the original code computes from pc `pc` (value or error,
    and the world after all effects, in the same order) the rewritten code computes from `pc_map[pc]`, with the same slots
    and within the same number of steps.  Jumps are retargeted through `pc_map` exactly as the C arithmetic does. -/
theorem remove_noops_preserves (code : List Instr) (hwf : JumpsWf code) :
    ∀ (fuel : Nat) (s : List P.V) (pc : Nat) (w : P.W) (r : Except P.E P.V × P.W),
      exec P code fuel ⟨s, pc⟩ w = some r → exec P (removeNoopsFull code) fuel ⟨s, pcMap code pc⟩ w = some r := by
  intro fuel
  induction fuel with
  | zero => intro s pc w r h; simp [exec] at h
  | succ k ih =>
    intro s pc w r h
    simp only [exec] at h
    cases hc : code[pc]? with
    | none => simp [hc] at h
    | some x =>
      have hlt : pc < code.length := by
        rcases Nat.lt_or_ge pc code.length with h1 | h1
        · exact h1
        · rw [List.getElem?_eq_none h1] at hc; cases hc
      have hx : code[pc]'hlt = x := by
        have := List.getElem?_eq_getElem hlt
        rw [this] at hc
        exact Option.some.inj hc
      simp only [hc] at h
      by_cases hn : (x.op != .noop) = true
      · cases hs : step P x ⟨s, pc⟩ with
        | none => simp [hs] at h
        | some m =>
          simp only [hs] at h
          obtain ⟨m', hm', hspec⟩ := retarget_step P code hwf pc hlt (by rw [hx]; exact hn) s m (by rw [hx]; exact hs)
          have hget := removeNoopsFull_get code pc hlt (by rw [hx]; exact hn)
          simp only [exec, hget, hm']
          have hw := hspec w
          rcases hmw : m w with ⟨(e | st), w'⟩
          · rw [hmw] at h hw; simp only [] at hw; rw [hw]; exact h
          · cases st with
            | ret v => rw [hmw] at h hw; simp only [] at hw; rw [hw]; exact h
            | cont g =>
              rw [hmw] at h hw
              simp only [] at hw h
              rw [hw]
              exact ih g.slots g.pc w' r h
      · have hop : x.op = .noop := by simpa using hn
        have hs : step P x ⟨s, pc⟩ = some (M.pure (.cont ⟨s, pc + 1⟩)) := by simp [step, hop, next]
        simp only [hs, M.pure] at h
        have := ih s (pc + 1) w r h
        have hpm : pcMap code (pc + 1) = pcMap code pc := by
          rw [pcMap_succ code pc hlt, hx]; simp [hop]
        rw [hpm] at this
        exact exec_mono P _ k _ w r this (k + 1) (by omega)

/-- sourcemap rows: the pass copies `sourcemap[j] = sourcemap[i]` with the same `j ← i` as the instructions, so pairing every
    instruction with its row and filtering keeps each kept instruction next to its own row -/
theorem remove_noops_sourcemap {Row : Type} (prog : List (Instr × Row)) (i : Nat) (h : i < prog.length)
    (hn : ((prog[i]'h).1.op != .noop) = true) :
    (prog.filter (fun p => p.1.op != .noop))[((prog.take i).filter (fun p => p.1.op != .noop)).length]? = some (prog[i]'h) := by
  have hsplit : prog.filter (fun p => p.1.op != .noop) =
      (prog.take i).filter (fun p => p.1.op != .noop) ++ (prog.drop i).filter (fun p => p.1.op != .noop) := by
    rw [← List.filter_append, List.take_append_drop]
  rw [hsplit, List.getElem?_append_right (Nat.le_refl _)]
  simp only [Nat.sub_self]
  rw [List.drop_eq_getElem_cons h, List.filter_cons]
  simp [hn]

end JanetModel.Bytecode.VMPasses
