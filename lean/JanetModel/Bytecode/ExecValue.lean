/- C02: abstract values, heap, frames and machine state of the executable VM model (`Bytecode/Exec.lean`),
   shared with the reference semantics (`Lang/Sem.lean`) and the emit-layer proofs (`Emit/*.lean`).
   Core Lean only (linked into the driver jm_c02).

   Mirrors: `Janet` (janet.h), `JanetFuncDef`, `JanetFuncEnv` (on-stack / detached), `JanetStackFrame`. -/
namespace JanetModel.Bytecode.Exec

/-- Abstract janet value.  Mutable / identity-carrying objects live in the heap and are named by address. -/
inductive Value where
  | nil
  | bool (b : Bool)
  | num (x : Float)
  | str (s : String)
  | sym (s : String)
  | kw (s : String)
  | tuple (xs : List Value) (bracket : Bool)
  | struct (kvs : List Value)          -- alternating key, value; kept in canonical (sorted-by-print) order
  | arr (addr : Nat)
  | tbl (addr : Nat)
  | buf (addr : Nat)
  | fn (addr : Nat)                    -- closure object in the heap
  | cfun (name : String)               -- core C function / primitive, by name
  deriving Inhabited

/-- `JanetFuncEnv`: either still on the fiber stack (names the frame by its depth from the bottom of the
    frame stack, `offset` in C) or detached with its own copy of the slots. -/
inductive EnvObj where
  | onStack (depth : Nat)
  | detached (vals : Array Value)
  deriving Inhabited

inductive HeapObj where
  | arr (xs : Array Value)
  | tbl (kvs : List (Value × Value))   -- association list in insertion order; no prototype
  | buf (s : String)
  | env (e : EnvObj)
  | closure (defIdx : Nat) (envs : Array Nat)   -- VM closure: funcdef index, captured env addresses
  | lam (lamIdx : Nat) (env : Nat)               -- Lang/Sem closure: lambda index, defining environment address
  deriving Inhabited

/-- `JanetFuncDef` as serialised by harness/C02 from the real compiler output. -/
structure FuncDef where
  code : Array Nat := #[]              -- 32-bit instruction words
  consts : Array Value := #[]
  defs : Array Nat := #[]              -- indices into `Program.defs`
  envs : Array Int := #[]              -- `def->environments`: -1 = frame of the creating function, k = its env k
  arity : Nat := 0
  minArity : Nat := 0
  maxArity : Nat := 0
  slotcount : Nat := 0
  vararg : Bool := false
  structarg : Bool := false
  smap : Array (Int × Int) := #[]      -- sourcemap line, column per instruction
  bitset : Option (Array Bool) := none -- closure_bitset (slots kept when the env is detached)
  name : String := ""
  deriving Inhabited

structure Program where
  defs : Array FuncDef := #[]
  deriving Inhabited

/-- `JanetStackFrame` + its slots. -/
structure Frame where
  defIdx : Nat := 0
  pc : Nat := 0
  regs : Array Value := #[]
  envs : Array Nat := #[]              -- `func->envs` (heap addresses of env objects)
  ownEnv : Option Nat := none          -- `frame->env` once a closure captured this frame
  retReg : Nat := 0                    -- register of the caller that receives the result
  self : Nat := 0                      -- heap address of the closure being run (JOP_LOAD_SELF)
  deriving Inhabited

/-- Source position of a raised error: (line, column), -1 when unknown -/
structure Pos where
  line : Int := -1
  col : Int := -1
  deriving Inhabited, BEq, DecidableEq, Repr

structure State where
  frames : List Frame := []            -- head = current frame
  heap : Array HeapObj := #[]
  args : Array Value := #[]            -- values pushed by push/push2/push3/pusha for the next call
  trace : Array String := #[]          -- ordered effect trace (canonical text of each effect)
  result : Value := Value.nil          -- value handed to (RES v)
  deriving Inhabited

/-! ### registers of the current frame -/

def Frame.get (f : Frame) (r : Nat) : Value := f.regs.getD r Value.nil

def Frame.set (f : Frame) (r : Nat) (v : Value) : Frame := { f with regs := f.regs.setIfInBounds r v }

def State.cur (st : State) : Frame := st.frames.headD default

def State.getReg (st : State) (r : Nat) : Value := st.cur.get r

def State.mapCur (st : State) (g : Frame → Frame) : State :=
  match st.frames with
  | [] => st
  | f :: rest => { st with frames := g f :: rest }

def State.setReg (st : State) (r : Nat) (v : Value) : State := st.mapCur (·.set r v)

/-- frame at depth `d` counted from the bottom of the frame stack (`frames` is top first) -/
def State.frameAt (st : State) (d : Nat) : Option Frame :=
  if d < st.frames.length then st.frames[st.frames.length - 1 - d]? else none

def State.setFrameAt (st : State) (d : Nat) (g : Frame → Frame) : State :=
  if d < st.frames.length then
    { st with frames := st.frames.modify (st.frames.length - 1 - d) g }
  else st

/-! ### upvalues: `func->envs[e]->values[i]` (vm.c JOP_LOAD_UPVALUE / JOP_SET_UPVALUE) -/

def State.envAddr (st : State) (e : Nat) : Option Nat := st.cur.envs[e]?

def State.readEnv (st : State) (addr i : Nat) : Option Value :=
  match st.heap[addr]? with
  | some (.env (.onStack d)) => (st.frameAt d).map (·.get i)
  | some (.env (.detached vals)) => some (vals.getD i Value.nil)
  | _ => none

def State.writeEnv (st : State) (addr i : Nat) (v : Value) : Option State :=
  match st.heap[addr]? with
  | some (.env (.onStack d)) => if d < st.frames.length then some (st.setFrameAt d (·.set i v)) else none
  | some (.env (.detached vals)) =>
      some { st with heap := st.heap.setIfInBounds addr (.env (.detached (vals.setIfInBounds i v))) }
  | _ => none

def State.readUp (st : State) (e i : Nat) : Option Value := (st.envAddr e).bind (st.readEnv · i)

def State.writeUp (st : State) (e i : Nat) (v : Value) : Option State := (st.envAddr e).bind (st.writeEnv · i v)

/-! ### heap -/

def State.alloc (st : State) (o : HeapObj) : State × Nat := ({ st with heap := st.heap.push o }, st.heap.size)

def State.emit (st : State) (s : String) : State := { st with trace := st.trace.push s }

/-- outcome of running code: a value, or an error value with the position it is attributed to -/
inductive Outcome where
  | ok (v : Value)
  | err (msg : Value) (pos : Pos)
  | timeout
  deriving Inhabited

end JanetModel.Bytecode.Exec
