import JanetModel.Bytecode.VMCore

/-!
The rest of the janet VM over abstract values: the argument stack (`JOP_PUSH*`), `JOP_CALL` / `JOP_TAILCALL`, the
constructors `JOP_MAKE_*`, `JOP_CLOSURE`, `JOP_LOAD_CONSTANT` / `JOP_LOAD_SELF`, `JOP_LOAD_UPVALUE` / `JOP_SET_UPVALUE`,
`JOP_TYPECHECK`, `JOP_PUT_INDEX`.  Together with `VM.step` every one of the 77 opcodes has a semantics (`stepX`).

* a call is an *oracle* on values (`CallPrims.call`): callee, argument list, the caller's captured slots; it returns a
  result or an error, a new world, and updates of the captured slots.  Two runs are equal exactly when they make the same
  sequence of calls with the same arguments in the same worlds and end in the same result.
* `cap` is the `closure_bitset` of the running function: the slots closures created by this activation may read or write
  (fiber.c `janet_env_detach` keeps exactly those).  A callee sees (`view`) and changes (`merge`) only those slots.
* pending pushed arguments survive every instruction that is not a call / constructor (vm.c `janet_call` protects a dirty
  stack with a `void_cfunction` frame, so operator methods do not consume them).

Core Lean only (linked into `jm_c15`).
-/

namespace JanetModel.Bytecode.VM
open JanetModel.Gen.Bytecode

structure CallPrims (P : Prims) where
  /-- `janet_indexed_view`: the elements of an array / tuple, `none` for anything else -/
  indexedView : P.V → Option (List P.V)
  /-- error of `JOP_PUSH_ARRAY` on a value that is not indexed -/
  notIndexed : P.V → P.E
  /-- `JOP_CALL` / `JOP_TAILCALL`: callee, arguments, the caller's captured slots -> result and updated captured slots -/
  call : P.V → List P.V → (Nat → Option P.V) → P.W → Except P.E (P.V × (Nat → Option P.V)) × P.W
  /-- `JOP_MAKE_*` on the pushed values (struct / table raise on an odd count) -/
  make : Op → List P.V → P.W → Except P.E P.V × P.W
  /-- `JOP_CLOSURE`: the function object for `def->defs[E]` over this activation's environments (a pure read: vm.c only allocates) -/
  closure : Nat → P.V
  /-- `def->constants[E]` -/
  constant : Nat → P.V
  /-- `JOP_LOAD_SELF` -/
  self : P.V
  /-- `func->envs[B]->values[C]` (enclosing activations live in the world) -/
  loadUpvalue : Nat → Nat → P.W → P.V
  setUpvalue : Nat → Nat → P.V → P.W → P.W
  /-- `JOP_TYPECHECK`: the error raised when the value's type is not in the mask -/
  typecheck : P.V → Nat → Option P.E
  /-- `janet_putindex(ds, C, value)` -/
  putIndex : P.V → Nat → P.V → P.W → Except P.E Unit × P.W

variable (P : Prims)

/-- what a callee can see of the caller's frame: the captured slots -/
def view (cap : Nat → Bool) (s : List P.V) : Nat → Option P.V := fun i => if cap i then s[i]? else none

/-- what a callee can change in the caller's frame: the captured slots -/
def merge (cap : Nat → Bool) (s : List P.V) (upd : Nat → Option P.V) : List P.V :=
  s.mapIdx fun i v => if cap i then (upd i).getD v else v

/-- outcome of a call-family instruction: fall through with new slots and pending arguments, or return -/
inductive XOut where
  | next (s a : List P.V)
  | ret (v : P.V)

/-- the opcodes `callCore` gives a semantics to -/
def isCallOp : Op → Bool
  | .push | .push2 | .push3 | .pushArray | .call | .tailcall
  | .makeArray | .makeBuffer | .makeString | .makeStruct | .makeTable | .makeTuple | .makeBracketTuple
  | .closure | .loadConstant | .loadSelf | .loadUpvalue | .setUpvalue | .typecheck | .putIndex => true
  | _ => false

variable {P} in
/-- pc-independent semantics of the call family on (slots, pending arguments) -/
def callCore (X : CallPrims P) (cap : Nat → Bool) (i : Instr) (s a : List P.V) : Option (M P (XOut P)) :=
  let nx (t b : List P.V) : M P (XOut P) := M.pure (.next t b)
  match i.op with
  | .push => some (nx s (a ++ [getS P s i.D]))
  | .push2 => some (nx s (a ++ [getS P s i.A, getS P s i.E]))
  | .push3 => some (nx s (a ++ [getS P s i.A, getS P s i.B, getS P s i.C]))
  | .pushArray =>
    some (match X.indexedView (getS P s i.D) with
      | some l => nx s (a ++ l)
      | none => M.throw (X.notIndexed (getS P s i.D)))
  | .call => some (M.bind (X.call (getS P s i.E) a (view P cap s)) fun r => nx ((merge P cap s r.2).set i.A r.1) [])
  | .tailcall => some (M.bind (X.call (getS P s i.D) a (view P cap s)) fun r => M.pure (.ret r.1))
  | .makeArray | .makeBuffer | .makeString | .makeStruct | .makeTable | .makeTuple | .makeBracketTuple =>
    some (M.bind (X.make i.op a) fun v => nx (s.set i.D v) [])
  | .closure => some (nx (s.set i.A (X.closure i.E)) a)
  | .loadConstant => some (nx (s.set i.A (X.constant i.E)) a)
  | .loadSelf => some (nx (s.set i.D X.self) a)
  | .loadUpvalue => some (fun w => (.ok (.next (s.set i.A (X.loadUpvalue i.B i.C w)) a), w))
  | .setUpvalue => some (fun w => (.ok (.next s a), X.setUpvalue i.B i.C (getS P s i.A) w))
  | .typecheck =>
    some (match X.typecheck (getS P s i.A) i.E with
      | some e => M.throw e
      | none => nx s a)
  | .putIndex => some (M.bind (X.putIndex (getS P s i.A) i.C (getS P s i.B)) fun _ => nx s a)
  | _ => none

variable {P} in
theorem callCore_isSome (X : CallPrims P) (cap : Nat → Bool) (i : Instr) (s a : List P.V) :
    (callCore X cap i s a).isSome = isCallOp i.op := by
  cases hop : i.op <;> simp [callCore, isCallOp, hop] <;> rfl

/-- a frame with the pending (pushed, not yet consumed) arguments -/
structure XFrame where
  slots : List P.V
  args : List P.V
  pc : Nat

inductive XStep where
  | cont (f : XFrame P)
  | ret (v : P.V)

def placeX (pc : Nat) : XOut P → XStep P
  | .next s a => .cont ⟨s, a, pc + 1⟩
  | .ret v => .ret v

def liftStep (a : List P.V) : Step P → XStep P
  | .cont g => .cont ⟨g.slots, a, g.pc⟩
  | .ret v => .ret v

variable {P} in
/-- one step of the full interpreter: the call family first (so `JOP_PUSH_3`, whose operand layout is SSS, is a push), every
    other opcode as `VM.step` with the pending arguments untouched -/
def stepX (X : CallPrims P) (cap : Nat → Bool) (i : Instr) (f : XFrame P) : Option (M P (XStep P)) :=
  match callCore X cap i f.slots f.args with
  | some m => some (M.map P (placeX P f.pc) m)
  | none => (step P i ⟨f.slots, f.pc⟩).map (M.map P (liftStep P f.args))

variable {P} in
/-- run `code` from frame `f`; `none` = out of fuel or fell off the code (every opcode is modelled) -/
def execX (X : CallPrims P) (cap : Nat → Bool) (code : List Instr) : Nat → XFrame P → P.W → Option (Except P.E P.V × P.W)
  | 0, _, _ => none
  | fuel + 1, f, w =>
    match code[f.pc]? with
    | none => none
    | some i =>
      match stepX X cap i f with
      | none => none
      | some m =>
        match m w with
        | (.error e, w') => some (.error e, w')
        | (.ok (.ret v), w') => some (.ok v, w')
        | (.ok (.cont g), w') => execX X cap code fuel g w'

variable {P} in
/-- every opcode has a semantics -/
theorem stepX_total (X : CallPrims P) (cap : Nat → Bool) (i : Instr) (f : XFrame P) : (stepX X cap i f).isSome = true := by
  unfold stepX
  cases hop : i.op <;> simp [callCore, step, hop, immBase, Op.itype]

variable {P} in
theorem execX_succ (X : CallPrims P) (cap : Nat → Bool) (code : List Instr) (k : Nat) (f : XFrame P) (w : P.W) (i : Instr)
    (m : M P (XStep P)) (hc : code[f.pc]? = some i) (hs : stepX X cap i f = some m) :
    execX X cap code (k + 1) f w =
      match m w with
      | (.error e, w') => some (.error e, w')
      | (.ok (.ret v), w') => some (.ok v, w')
      | (.ok (.cont g), w') => execX X cap code k g w' := by
  simp only [execX, hc, hs]

variable {P} in
/-- more fuel never changes a result -/
theorem execX_mono (X : CallPrims P) (cap : Nat → Bool) (code : List Instr) (k : Nat) (f : XFrame P) (w : P.W) (r)
    (h : execX X cap code k f w = some r) (k' : Nat) (hk : k ≤ k') : execX X cap code k' f w = some r := by
  induction k generalizing f w k' with
  | zero => simp [execX] at h
  | succ k ih =>
    cases k' with
    | zero => omega
    | succ k' =>
      simp only [execX] at h ⊢
      cases hc : code[f.pc]? with
      | none => simp [hc] at h
      | some i =>
        simp only [hc] at h ⊢
        cases hs : stepX X cap i f with
        | none => simp [hs] at h
        | some m =>
          simp only [hs] at h ⊢
          cases hm : m w with
          | mk res w' =>
            simp only [hm] at h ⊢
            cases res with
            | error e => exact h
            | ok st =>
              cases st with
              | ret v => exact h
              | cont g => exact ih g w' h k' (by omega)

variable {P} in
/-- on code without call-family opcodes the full interpreter is `VM.exec` (so the template theorems carry over) -/
theorem execX_of_exec (X : CallPrims P) (cap : Nat → Bool) (code : List Instr) (hno : ∀ x ∈ code, isCallOp x.op = false) :
    ∀ (fuel : Nat) (s a : List P.V) (pc : Nat) (w : P.W) (r), exec P code fuel ⟨s, pc⟩ w = some r →
      execX X cap code fuel ⟨s, a, pc⟩ w = some r := by
  intro fuel
  induction fuel with
  | zero => intro s a pc w r h; simp [exec] at h
  | succ k ih =>
    intro s a pc w r h
    simp only [exec] at h
    simp only [execX]
    cases hc : code[pc]? with
    | none => simp [hc] at h
    | some x =>
      simp only [hc] at h ⊢
      have hx : isCallOp x.op = false := hno x (List.mem_of_getElem? hc)
      have hcc : callCore X cap x s a = none := by
        have := callCore_isSome X cap x s a
        rw [hx] at this
        cases hcc : callCore X cap x s a with
        | none => rfl
        | some _ => rw [hcc] at this; cases this
      cases hs : step P x ⟨s, pc⟩ with
      | none => simp [hs] at h
      | some m =>
        simp only [hs] at h
        simp only [stepX, hcc, hs, Option.map_some, M.map, M.bind, M.pure]
        rcases hm : m w with ⟨(e | st), w'⟩
        · rw [hm] at h; exact h
        · cases st with
          | ret v => rw [hm] at h; exact h
          | cont g =>
            rw [hm] at h
            simp only [liftStep]
            exact ih g.slots a g.pc w' r h

end JanetModel.Bytecode.VM
