/- C10: generic soundness of `janet_verify` with respect to what the VM handlers dereference, for ANY tables satisfying
   `Tables.consistent`. -/
import JanetModel.Bytecode.VerifyDefs
namespace JanetModel.Bytecode
open JanetModel.Gen.Bytecode

/-- what executing the handler `a` on instruction word `w` at `pc` of `d` needs -/
structure StepSafe (a : Access) (d : FuncDef) (pc : Nat) (w : Nat) : Prop where
  slots : ∀ f ∈ a.slots, fieldVal f w < d.slotcount
  consts : ∀ p ∈ a.consts, p.2 = false → fieldVal p.1 w < d.nconsts
  defs : ∀ p ∈ a.defs, p.2 = false → fieldVal p.1 w < d.ndefs
  envs : ∀ p ∈ a.envs, p.2 = false → fieldVal p.1 w < d.nenvs
  jumps : ∀ f ∈ a.jumps, 0 ≤ (pc : Int) + sfieldVal f w ∧ (pc : Int) + sfieldVal f w < (d.bytecode.length : Int)
  next : a.next = true → pc + 1 < d.bytecode.length
  /-- a frame that saved `pc` here and pushed a callee can be returned into: `stack[A] = retval; pc++` -/
  pushes : a.pushes = true → fieldVal .fA w < d.slotcount ∧ pc + 1 < d.bytecode.length

/-- the handler the VM jumps to for table index `idx`: `none` = label_unknown_op (returns a debug signal, touches nothing) -/
def HandlerSafe (T : Tables) (d : FuncDef) (pc w : Nat) : Option Nat → Prop
  | none => True
  | some op => StepSafe (T.access op) d pc w

theorem verifyLoop_zero (T : Tables) (d : FuncDef) :
    ∀ (ws : List Nat) (k : Nat), verifyLoop T d k ws = 0 → ∀ j (h : j < ws.length), checkInstr T d (k + j) ws[j] = 0 := by
  intro ws
  induction ws with
  | nil => intro k _ j h; simp at h
  | cons w ws ih =>
    intro k hv j hj
    simp only [verifyLoop] at hv
    by_cases hr : checkInstr T d k w ≠ 0
    · rw [if_pos hr] at hv; exact absurd hv hr
    · rw [if_neg hr] at hv
      have hr0 : checkInstr T d k w = 0 := by
        cases h0 : checkInstr T d k w with
        | zero => rfl
        | succ n => exact absurd (by rw [h0]; exact Nat.succ_ne_zero n) hr
      cases j with
      | zero => simpa using hr0
      | succ j =>
        have := ih (k + 1) hv j (by simpa using hj)
        simpa [Nat.add_assoc, Nat.add_comm 1 j] using this

theorem mem_of_contains {l : List Field} {f : Field} (h : l.contains f = true) : f ∈ l := by
  simpa using h

theorem ite_zero2 {c : Prop} [Decidable c] {n m : Nat} (hn : n ≠ 0) (h : (if c then n else m) = 0) : ¬c ∧ m = 0 := by
  by_cases hc : c
  · rw [if_pos hc] at h; exact absurd h hn
  · rw [if_neg hc] at h; exact ⟨hc, h⟩

/-- the verifier's range test passed -/
theorem check_range (T : Tables) (d : FuncDef) (i w : Nat) (h : checkInstr T d i w = 0) : w % T.verifyRangeMod < T.count := by
  unfold checkInstr at h
  by_cases hc : w % T.verifyRangeMod ≥ T.count
  · rw [if_pos hc] at h; exact absurd h (by decide)
  · omega

/-- `checkInstr` with the range test stripped -/
theorem check_body (T : Tables) (d : FuncDef) (i w : Nat) (h : checkInstr T d i w = 0) :
    (match T.itype (w % T.verifyTypeMod) with
    | .none_ => 0
    | .s => if w / 256 ≥ d.slotcount then 4 else 0
    | .si => if w / 256 % 256 ≥ d.slotcount then 4 else 0
    | .su => if w / 256 % 256 ≥ d.slotcount then 4 else 0
    | .st => if w / 256 % 256 ≥ d.slotcount then 4 else 0
    | .l =>
      let dest : Int := (i : Int) + toI32 w / 256
      if dest < 0 ∨ dest ≥ (d.bytecode.length : Int) then 5 else 0
    | .ss => if w / 256 % 256 ≥ d.slotcount ∨ w / 65536 ≥ d.slotcount then 4 else 0
    | .ssi => if w / 256 % 256 ≥ d.slotcount ∨ w / 65536 % 256 ≥ d.slotcount then 4 else 0
    | .ssu => if w / 256 % 256 ≥ d.slotcount ∨ w / 65536 % 256 ≥ d.slotcount then 4 else 0
    | .sl =>
      let dest : Int := (i : Int) + toI32 w / 65536
      if w / 256 % 256 ≥ d.slotcount then 4
      else if dest < 0 ∨ dest ≥ (d.bytecode.length : Int) then 5 else 0
    | .sss => if w / 256 % 256 ≥ d.slotcount ∨ w / 65536 % 256 ≥ d.slotcount ∨ w / 16777216 % 256 ≥ d.slotcount then 4 else 0
    | .sd => if w / 256 % 256 ≥ d.slotcount then 4 else if w / 65536 ≥ d.ndefs then 6 else 0
    | .sc => if w / 256 % 256 ≥ d.slotcount then 4 else if w / 65536 ≥ d.nconsts then 7 else 0
    | .ses => if w / 256 % 256 ≥ d.slotcount then 4 else if w / 65536 % 256 ≥ d.nenvs then 8 else 0) = 0 := by
  unfold checkInstr at h
  by_cases hc : w % T.verifyRangeMod ≥ T.count
  · rw [if_pos hc] at h; exact absurd h (by decide)
  · rw [if_neg hc] at h; exact h

/-- what `checkInstr = 0` gives for each verifier type: every slot field in `checkedSlots` is below `slotcount` -/
theorem check_slots (T : Tables) (d : FuncDef) (i w : Nat) (hw : w < 4294967296) (h : checkInstr T d i w = 0) :
    ∀ f ∈ checkedSlots (T.itype (w % T.verifyTypeMod)), fieldVal f w < d.slotcount := by
  have hb := check_body T d i w h
  intro f hf
  have hA : w / 256 % 256 ≤ w / 256 := Nat.mod_le _ _
  have hB : w / 65536 % 256 ≤ w / 65536 := Nat.mod_le _ _
  have hC : w / 16777216 % 256 = w / 16777216 := Nat.mod_eq_of_lt (by omega)
  cases ht : T.itype (w % T.verifyTypeMod) <;> rw [ht] at hb hf <;>
    simp only [checkedSlots, List.mem_cons, List.mem_nil_iff, or_false] at hf <;> simp only [] at hb
  case s =>
    have h1 := (ite_zero2 (by decide) hb).1
    rcases hf with rfl | rfl <;> simp only [fieldVal] <;> omega
  case ss =>
    have h1 := (ite_zero2 (by decide) hb).1
    rcases hf with rfl | rfl | rfl <;> simp only [fieldVal] <;> omega
  case sss =>
    have h1 := (ite_zero2 (by decide) hb).1
    rcases hf with rfl | rfl | rfl <;> simp only [fieldVal] <;> omega
  case ssi =>
    have h1 := (ite_zero2 (by decide) hb).1
    rcases hf with rfl | rfl <;> simp only [fieldVal] <;> omega
  case ssu =>
    have h1 := (ite_zero2 (by decide) hb).1
    rcases hf with rfl | rfl <;> simp only [fieldVal] <;> omega
  case si => have h1 := (ite_zero2 (by decide) hb).1; subst hf; simp only [fieldVal]; omega
  case su => have h1 := (ite_zero2 (by decide) hb).1; subst hf; simp only [fieldVal]; omega
  case st => have h1 := (ite_zero2 (by decide) hb).1; subst hf; simp only [fieldVal]; omega
  case sl => have h1 := (ite_zero2 (by decide) hb).1; subst hf; simp only [fieldVal]; omega
  case sd => have h1 := (ite_zero2 (by decide) hb).1; subst hf; simp only [fieldVal]; omega
  case sc => have h1 := (ite_zero2 (by decide) hb).1; subst hf; simp only [fieldVal]; omega
  case ses => have h1 := (ite_zero2 (by decide) hb).1; subst hf; simp only [fieldVal]; omega

theorem check_consts (T : Tables) (d : FuncDef) (i w : Nat) (h : checkInstr T d i w = 0) :
    ∀ f ∈ checkedConsts (T.itype (w % T.verifyTypeMod)), fieldVal f w < d.nconsts := by
  have hb := check_body T d i w h
  intro f hf
  cases ht : T.itype (w % T.verifyTypeMod) <;> rw [ht] at hb hf <;>
    simp only [checkedConsts, List.mem_cons, List.mem_nil_iff, or_false] at hf <;> simp only [] at hb
  all_goals try (exact absurd hf (by simp))
  case sc =>
    have h2 := (ite_zero2 (by decide) (ite_zero2 (by decide) hb).2).1
    subst hf; simp only [fieldVal]; omega

theorem check_defs (T : Tables) (d : FuncDef) (i w : Nat) (h : checkInstr T d i w = 0) :
    ∀ f ∈ checkedDefs (T.itype (w % T.verifyTypeMod)), fieldVal f w < d.ndefs := by
  have hb := check_body T d i w h
  intro f hf
  cases ht : T.itype (w % T.verifyTypeMod) <;> rw [ht] at hb hf <;>
    simp only [checkedDefs, List.mem_cons, List.mem_nil_iff, or_false] at hf <;> simp only [] at hb
  all_goals try (exact absurd hf (by simp))
  case sd =>
    have h2 := (ite_zero2 (by decide) (ite_zero2 (by decide) hb).2).1
    subst hf; simp only [fieldVal]; omega

theorem check_envs (T : Tables) (d : FuncDef) (i w : Nat) (h : checkInstr T d i w = 0) :
    ∀ f ∈ checkedEnvs (T.itype (w % T.verifyTypeMod)), fieldVal f w < d.nenvs := by
  have hb := check_body T d i w h
  intro f hf
  cases ht : T.itype (w % T.verifyTypeMod) <;> rw [ht] at hb hf <;>
    simp only [checkedEnvs, List.mem_cons, List.mem_nil_iff, or_false] at hf <;> simp only [] at hb
  all_goals try (exact absurd hf (by simp))
  case ses =>
    have h2 := (ite_zero2 (by decide) (ite_zero2 (by decide) hb).2).1
    subst hf; simp only [fieldVal]; omega

theorem check_jumps (T : Tables) (d : FuncDef) (i w : Nat) (h : checkInstr T d i w = 0) :
    ∀ f ∈ checkedJumps (T.itype (w % T.verifyTypeMod)),
      0 ≤ (i : Int) + sfieldVal f w ∧ (i : Int) + sfieldVal f w < (d.bytecode.length : Int) := by
  have hb := check_body T d i w h
  intro f hf
  cases ht : T.itype (w % T.verifyTypeMod) <;> rw [ht] at hb hf <;>
    simp only [checkedJumps, List.mem_cons, List.mem_nil_iff, or_false] at hf <;> simp only [] at hb
  all_goals try (exact absurd hf (by simp))
  case l =>
    have h1 := (ite_zero2 (by decide) hb).1
    subst hf; simp only [sfieldVal]; omega
  case sl =>
    have h2 := (ite_zero2 (by decide) (ite_zero2 (by decide) hb).2).1
    subst hf; simp only [sfieldVal]; omega

/-- facts extracted from `verify T d = 0` -/
theorem verify_facts (T : Tables) (d : FuncDef) (hv : verify T d = 0) :
    0 < d.bytecode.length ∧ verifyLoop T d 0 d.bytecode = 0 ∧
    (∃ w, d.bytecode.getLast? = some w ∧ T.terminals.contains (w % T.verifyLastMod) = true) := by
  unfold verify at hv
  by_cases h0 : d.bytecode.length = 0
  · rw [if_pos h0] at hv; exact absurd hv (by decide)
  · rw [if_neg h0] at hv
    by_cases h1 : d.arity + (if d.vararg then 1 else 0) > d.slotcount
    · rw [if_pos h1] at hv; exact absurd hv (by decide)
    · rw [if_neg h1] at hv
      simp only [] at hv
      by_cases h2 : verifyLoop T d 0 d.bytecode ≠ 0
      · rw [if_pos h2] at hv; exact absurd hv h2
      · rw [if_neg h2] at hv
        have h2' : verifyLoop T d 0 d.bytecode = 0 := by omega
        refine ⟨by omega, h2', ?_⟩
        cases hl : d.bytecode.getLast? with
        | none => rw [hl] at hv; simp at hv
        | some w =>
          rw [hl] at hv
          refine ⟨w, rfl, ?_⟩
          by_cases hc : T.terminals.contains (w % T.verifyLastMod) = true
          · exact hc
          · simp only [] at hv
            rw [if_neg hc] at hv; exact absurd hv (by decide)

/-- **verify_sound** (generic part): for any tables that pass `Tables.consistent`, a funcdef accepted by `janet_verify`
    is safe to interpret: whichever handler `run_vm` dispatches to for the instruction at any `pc` inside the bytecode
    (normal dispatch on `*pc & 0xFF`, or `*pc & 0x7F` after a breakpoint), every slot / constant / funcdef / environment
    operand it dereferences without a run-time check is in range, every jump target and fall-through `pc` stays inside
    `[0, bytecode_length)`, and a frame suspended at a frame-pushing instruction can be returned into. -/
theorem verify_sound_generic (T : Tables) (hT : T.consistent = true) (d : FuncDef)
    (hw : ∀ w ∈ d.bytecode, w < 4294967296) (hv : verify T d = 0)
    (pc : Nat) (hpc : pc < d.bytecode.length) :
    ∀ idx, (idx = d.bytecode[pc] % T.dispatchMod ∨ idx = d.bytecode[pc] % T.breakMod) →
      ∃ h, T.lookup[idx]? = some h ∧ HandlerSafe T d pc d.bytecode[pc] h := by
  simp only [Tables.consistent, Bool.and_eq_true, beq_iff_eq, decide_eq_true_eq, List.all_eq_true, List.mem_range] at hT
  obtain ⟨⟨⟨⟨⟨⟨⟨⟨hM1, hM2⟩, hM3⟩, hM4⟩, hcnt⟩, hpos⟩, hlk⟩, hrows⟩, hterm⟩ := hT
  obtain ⟨hlen, hloop, wl, hlast, hlastT⟩ := verify_facts T d hv
  have hchk : checkInstr T d pc d.bytecode[pc] = 0 := by
    have := verifyLoop_zero T d d.bytecode 0 hloop pc hpc
    simpa using this
  generalize hwdef : d.bytecode[pc] = w at hchk ⊢
  have hwlt : w < 4294967296 := hw w (by rw [← hwdef]; exact List.getElem_mem hpc)
  have hrange := check_range T d pc w hchk
  rw [hM1] at hrange
  -- the opcode the verifier looked at
  have hopM : w % T.verifyTypeMod < T.verifyTypeMod := Nat.mod_lt _ hpos
  -- terminal last instruction: not terminal -> not last
  have hnotlast : T.terminals.contains (w % T.verifyTypeMod) = false → pc + 1 < d.bytecode.length := by
    intro hnt
    by_cases hlt : pc + 1 < d.bytecode.length
    · exact hlt
    · exfalso
      have hpceq : pc = d.bytecode.length - 1 := by omega
      have : d.bytecode.getLast? = some w := by
        rw [List.getLast?_eq_getElem?, ← hpceq, List.getElem?_eq_getElem hpc, hwdef]
      rw [this] at hlast
      have hwl : wl = w := by injection hlast with h; exact h.symm
      subst hwl
      have hmem : wl % T.verifyLastMod ∈ T.terminals := by simpa using hlastT
      have ht0 := hterm _ hmem
      rw [hM4, hM3] at ht0 hlastT
      have h2 : wl % (2 * T.verifyTypeMod) % T.verifyTypeMod = wl % T.verifyTypeMod :=
        Nat.mod_mod_of_dvd _ (Nat.dvd_mul_left _ 2)
      have h3 : wl % (2 * T.verifyTypeMod) % T.verifyTypeMod = wl % (2 * T.verifyTypeMod) := Nat.mod_eq_of_lt (by omega)
      rw [← h2, h3, hlastT] at hnt
      exact Bool.noConfusion hnt
  -- safety of the handler of opcode op := w % M
  have hsafe : StepSafe (T.access (w % T.verifyTypeMod)) d pc w := by
    have hrow := hrows (w % T.verifyTypeMod) hrange
    simp only [rowOk, Bool.and_eq_true, List.all_eq_true, Bool.or_eq_true, Bool.not_eq_true', Bool.and_eq_false_iff,
      beq_iff_eq, Bool.not_eq_eq_eq_not, Bool.not_true] at hrow
    obtain ⟨⟨⟨⟨⟨⟨⟨hs, hc⟩, hd⟩, he⟩, hj⟩, hn⟩, hp⟩, _⟩ := hrow
    refine ⟨?_, ?_, ?_, ?_, ?_, ?_, ?_⟩
    · intro f hf
      exact check_slots T d pc w hwlt hchk f (mem_of_contains (hs f hf))
    · intro p hp' hg
      rcases hc p hp' with h | h
      · rw [hg] at h; exact Bool.noConfusion h
      · exact check_consts T d pc w hchk p.1 (mem_of_contains h)
    · intro p hp' hg
      rcases hd p hp' with h | h
      · rw [hg] at h; exact Bool.noConfusion h
      · exact check_defs T d pc w hchk p.1 (mem_of_contains h)
    · intro p hp' hg
      rcases he p hp' with h | h
      · rw [hg] at h; exact Bool.noConfusion h
      · exact check_envs T d pc w hchk p.1 (mem_of_contains h)
    · intro f hf
      exact check_jumps T d pc w hchk f (mem_of_contains (hj f hf))
    · intro hnext
      rcases hn with h | h
      · rw [hnext] at h; exact Bool.noConfusion h
      · exact hnotlast h
    · intro hpush
      rcases hp with h | h
      · rw [hpush] at h; exact Bool.noConfusion h
      · exact ⟨check_slots T d pc w hwlt hchk .fA (mem_of_contains h.1), hnotlast h.2⟩
  intro idx hidx
  have hidxM : idx % T.verifyTypeMod = w % T.verifyTypeMod := by
    rcases hidx with h | h
    · rw [h, hM3]; exact Nat.mod_mod_of_dvd _ (Nat.dvd_mul_left _ 2)
    · rw [h, hM2]; exact Nat.mod_mod _ _
  have hidxlt : idx < T.dispatchMod := by
    rcases hidx with h | h
    · rw [h]; exact Nat.mod_lt _ (by omega)
    · rw [h, hM2, hM3]; omega
  have hl := hlk idx hidxlt
  simp only [lookupOk, Bool.or_eq_true, Bool.not_eq_true', decide_eq_false_iff_not, decide_eq_true_eq] at hl
  rcases hl with hl | hl
  · rw [hidxM] at hl; exact absurd hrange hl
  · by_cases hic : idx < T.count
    · rw [if_pos hic] at hl
      have : idx = w % T.verifyTypeMod := by
        rw [← hidxM]; exact (Nat.mod_eq_of_lt (by omega)).symm
      refine ⟨some idx, by simpa using hl, ?_⟩
      rw [this]; exact hsafe
    · rw [if_neg hic] at hl
      exact ⟨none, by simpa using hl, trivial⟩

end JanetModel.Bytecode
