/- C02: primitives of the executable VM model: equality / ordering / canonical printing of abstract values,
   data-structure access (`janet_get`, `janet_in`, `janet_put`, `janet_getindex`, `janet_next`, `janet_length`) and the
   core functions generated programs call.  Shared by `Bytecode/Exec.lean` and `Lang/Sem.lean`.  Core Lean only.
   Executable-only helpers over the nested `Value` type are `partial` (they are never unfolded in proofs). -/
import JanetModel.Bytecode.ExecValue
namespace JanetModel.Bytecode.Exec

/-- result of a primitive: value, runtime error (raised by the runtime, canonical class `<rt>`), user error value, or unsupported -/
inductive PRes (α : Type) where
  | ok (a : α)
  | rt                      -- error raised by the runtime
  | user (v : Value)        -- (error v)
  | unsup (why : String)    -- outside the modelled subset: the program is skipped, never counted as agreement
  deriving Inhabited

instance : Monad PRes where
  pure := PRes.ok
  bind x f := match x with
    | .ok a => f a
    | .rt => .rt
    | .user v => .user v
    | .unsup w => .unsup w

def typeOrder : Value → Nat
  | .num _ => 0 | .nil => 1 | .bool _ => 2 | .str _ => 4 | .sym _ => 5 | .kw _ => 6 | .arr _ => 7
  | .tuple _ _ => 8 | .tbl _ => 9 | .struct _ => 10 | .buf _ => 11 | .fn _ => 12 | .cfun _ => 13

def typeName : Value → String
  | .num _ => "number" | .nil => "nil" | .bool _ => "boolean" | .str _ => "string" | .sym _ => "symbol"
  | .kw _ => "keyword" | .arr _ => "array" | .tuple _ _ => "tuple" | .tbl _ => "table" | .struct _ => "struct"
  | .buf _ => "buffer" | .fn _ => "function" | .cfun _ => "cfunction"

def strCmp (a b : String) : Ordering := compare a.toUTF8.toList b.toUTF8.toList

/-- `janet_compare` on the deterministic part of the value space; `none` = depends on addresses -/
partial def vcompare (a b : Value) : Option Ordering :=
  match a, b with
  | .num x, .num y => some (if x < y then .lt else if x > y then .gt else .eq)
  | .nil, .nil => some .eq
  | .bool x, .bool y => some (compare x.toNat y.toNat)
  | .str x, .str y => some (strCmp x y)
  | .sym x, .sym y => some (strCmp x y)
  | .kw x, .kw y => some (strCmp x y)
  | .tuple xs bx, .tuple ys bry =>
    if bx != bry then some (if bx then .gt else .lt) else
    let rec go : List Value → List Value → Option Ordering
      | [], [] => some .eq
      | [], _ => some .lt
      | _, [] => some .gt
      | x :: xs, y :: ys => match vcompare x y with
        | some .eq => go xs ys
        | r => r
    go xs ys
  | .arr x, .arr y => if x == y then some .eq else none
  | .tbl x, .tbl y => if x == y then some .eq else none
  | .fn x, .fn y => if x == y then some .eq else none
  | .cfun x, .cfun y => if x == y then some .eq else none
  | .struct _, .struct _ => none
  | a, b => if typeOrder a == typeOrder b then none else some (compare (typeOrder a) (typeOrder b))

/-- `janet_equals` -/
partial def veq (a b : Value) : Bool :=
  match a, b with
  | .num x, .num y => x == y
  | .nil, .nil => true
  | .bool x, .bool y => x == y
  | .str x, .str y => x == y
  | .sym x, .sym y => x == y
  | .kw x, .kw y => x == y
  | .tuple xs bx, .tuple ys bry => bx == bry && xs.length == ys.length && (xs.zip ys).all (fun p => veq p.1 p.2)
  | .struct xs, .struct ys => xs.length == ys.length && (xs.zip ys).all (fun p => veq p.1 p.2)
  | .arr x, .arr y => x == y
  | .tbl x, .tbl y => x == y
  | .buf x, .buf y => x == y
  | .fn x, .fn y => x == y
  | .cfun x, .cfun y => x == y
  | _, _ => false

def truthy : Value → Bool
  | .nil => false
  | .bool false => false
  | _ => true

def two53 : Float := 9007199254740992.0

def hexDigit (n : Nat) : Char := if n < 10 then Char.ofNat (48 + n) else Char.ofNat (87 + n)

def hexByte (b : Nat) : String := String.ofList [hexDigit (b / 16 % 16), hexDigit (b % 16)]

/-- canonical number text: integers exactly, everything else as the little-endian IEEE bytes (as runner.janet does) -/
def serNum (x : Float) : String :=
  if x == 0 then "0"
  else if x == x.floor && x.abs <= two53 then
    (if x < 0 then "-" else "") ++ toString x.abs.toUInt64.toNat
  else
    let bits := x.toBits.toNat
    "R" ++ String.join ((List.range 8).map (fun i => hexByte (bits / 256 ^ i % 256)))

def insertSorted (s : String) : List String → List String
  | [] => [s]
  | x :: xs => if strCmp s x == .gt then x :: insertSorted s xs else s :: x :: xs

def sortStrings (xs : List String) : List String := xs.foldl (fun acc s => insertSorted s acc) []

partial def pairsOf : List Value → List (Value × Value)
  | k :: v :: rest => (k, v) :: pairsOf rest
  | _ => []

/-- canonical text of a value (same as `ser` in harness/C02/runner.janet) -/
partial def ser (heap : Array HeapObj) (v : Value) (d : Nat := 0) : String :=
  if d > 8 then "..." else
  match v with
  | .nil => "nil"
  | .bool b => if b then "true" else "false"
  | .num x => serNum x
  | .str s => "\"" ++ s ++ "\""
  | .kw s => ":" ++ s
  | .sym s => s
  | .tuple xs br =>
    let inner := String.intercalate " " (xs.map (ser heap · (d + 1)))
    if br then "[" ++ inner ++ "]" else "(" ++ inner ++ ")"
  | .struct kvs =>
    "{" ++ String.intercalate " " (sortStrings ((pairsOf kvs).map (fun p => ser heap p.1 (d + 1) ++ " " ++ ser heap p.2 (d + 1)))) ++ "}"
  | .arr a => match heap[a]? with
    | some (.arr xs) => "@[" ++ String.intercalate " " (xs.toList.map (ser heap · (d + 1))) ++ "]"
    | _ => "<bad-array>"
  | .tbl a => match heap[a]? with
    | some (.tbl kvs) => "@{" ++ String.intercalate " " (sortStrings (kvs.map (fun p => ser heap p.1 (d + 1) ++ " " ++ ser heap p.2 (d + 1)))) ++ "}"
    | _ => "<bad-table>"
  | .buf a => match heap[a]? with
    | some (.buf s) => "@\"" ++ s ++ "\""
    | _ => "<bad-buffer>"
  | .fn _ => "<function>"
  | .cfun n => if n ∈ ["array/push", "array/pop", "array/concat", "array/slice", "tuple/slice", "print", "array", "tuple", "table",
                        "struct", "string", "type", "tuple/type", "array/peek", "math/abs", "array/new", "keyword", "symbol"]
               then "<cfunction>" else "<function>"

def serErr (heap : Array HeapObj) (v : Value) : String :=
  match v with
  | .str s => if s.startsWith "E:" then ser heap v else "<rt>"
  | .fn _ | .cfun _ | .buf _ => "<rt>"
  | _ => ser heap v

/-- text used by `print` / `string` for scalars -/
def toStr : Value → PRes String
  | .nil => .ok "nil"
  | .bool b => .ok (if b then "true" else "false")
  | .num x => if x == x.floor && x.abs < 1.0e15 then .ok ((if x < 0 then "-" else "") ++ toString x.abs.toUInt64.toNat) else .unsup "print non-integer"
  | .str s => .ok s
  | .kw s => .ok s
  | .sym s => .ok s
  | _ => .unsup "print of reference type"

/-! ### data structure access -/

def isIndex (k : Value) (n : Nat) : Option Nat :=
  match k with
  | .num x => if x == x.floor && x >= 0 && x < Float.ofNat n then some x.toUInt64.toNat else none
  | _ => none

def lookupKV (k : Value) : List (Value × Value) → Option Value
  | [] => none
  | (k', v) :: rest => if veq k k' then some v else lookupKV k rest

def removeKV (k : Value) (kvs : List (Value × Value)) : List (Value × Value) := kvs.filter (fun p => !veq k p.1)

def putKV (k v : Value) (kvs : List (Value × Value)) : List (Value × Value) :=
  if (lookupKV k kvs).isSome then kvs.map (fun p => if veq k p.1 then (k, v) else p) else kvs ++ [(k, v)]

def bytesOf (s : String) : List Nat := s.toUTF8.toList.map (·.toNat)

/-- `janet_get` with optional default -/
def vget (heap : Array HeapObj) (ds k : Value) (dflt : Value := .nil) : Value :=
  match ds with
  | .arr a => match heap[a]? with
    | some (.arr xs) => match isIndex k xs.size with | some i => xs.getD i .nil | none => dflt
    | _ => dflt
  | .tuple xs _ => match isIndex k xs.length with | some i => xs.getD i .nil | none => dflt
  | .struct kvs => (lookupKV k (pairsOf kvs)).getD dflt
  | .tbl a => match heap[a]? with
    | some (.tbl kvs) => (lookupKV k kvs).getD dflt
    | _ => dflt
  | .str s | .kw s | .sym s =>
    let bs := bytesOf s
    match isIndex k bs.length with | some i => .num (Float.ofNat (bs.getD i 0)) | none => dflt
  | _ => dflt

/-- `janet_in` -/
def vin (heap : Array HeapObj) (ds k : Value) (dflt : Value := .nil) : PRes Value :=
  match ds with
  | .arr a => match heap[a]? with
    | some (.arr xs) => match isIndex k xs.size with | some i => .ok (xs.getD i .nil) | none => .rt
    | _ => .rt
  | .tuple xs _ => match isIndex k xs.length with | some i => .ok (xs.getD i .nil) | none => .rt
  | .struct kvs => .ok ((lookupKV k (pairsOf kvs)).getD dflt)
  | .tbl a => match heap[a]? with
    | some (.tbl kvs) => .ok ((lookupKV k kvs).getD dflt)
    | _ => .rt
  | .str s =>
    let bs := bytesOf s
    match isIndex k bs.length with | some i => .ok (.num (Float.ofNat (bs.getD i 0))) | none => .rt
  | _ => .rt

/-- `janet_getindex` (destructuring of indexed patterns) -/
def vgetindex (heap : Array HeapObj) (ds : Value) (i : Nat) : PRes Value :=
  match ds with
  | .arr _ | .tuple _ _ | .struct _ | .tbl _ | .str _ => .ok (vget heap ds (.num (Float.ofNat i)))
  | _ => .rt

def padTo (xs : Array Value) (n : Nat) : Array Value := if xs.size < n then xs ++ Array.replicate (n - xs.size) Value.nil else xs

/-- `janet_put` -/
def vput (heap : Array HeapObj) (ds k v : Value) : PRes (Array HeapObj) :=
  match ds with
  | .arr a => match heap[a]?, k with
    | some (.arr xs), .num x =>
      if x == x.floor && x >= 0 && x <= 100000 then
        let i := x.toUInt64.toNat
        .ok (heap.setIfInBounds a (.arr ((padTo xs (i + 1)).setIfInBounds i v)))
      else .rt
    | _, _ => .rt
  | .tbl a => match heap[a]?, k with
    | _, .nil => .rt
    | some (.tbl kvs), _ =>
      match v with
      | .nil => .ok (heap.setIfInBounds a (.tbl (removeKV k kvs)))
      | _ => .ok (heap.setIfInBounds a (.tbl (putKV k v kvs)))
    | _, _ => .rt
  | _ => .rt

def vlength (heap : Array HeapObj) (v : Value) : PRes Nat :=
  match v with
  | .arr a => match heap[a]? with | some (.arr xs) => .ok xs.size | _ => .rt
  | .tuple xs _ => .ok xs.length
  | .struct kvs => .ok (kvs.length / 2)
  | .tbl a => match heap[a]? with | some (.tbl kvs) => .ok kvs.length | _ => .rt
  | .str s | .kw s | .sym s => .ok (bytesOf s).length
  | _ => .rt

/-- `janet_next`: indexed types by index; dictionaries only when they hold at most one key (hash order is not modelled) -/
def vnext (heap : Array HeapObj) (ds k : Value) : PRes Value :=
  let idx (n : Nat) : PRes Value :=
    match k with
    | .nil => .ok (if n > 0 then .num 0 else .nil)
    | .num x => if x == x.floor && x >= 0 then
        let i := x.toUInt64.toNat + 1
        .ok (if i < n then .num (Float.ofNat i) else .nil)
      else .rt
    | _ => .rt
  let dict (kvs : List (Value × Value)) : PRes Value :=
    match kvs, k with
    | [], .nil => .ok .nil
    | [(k0, _)], .nil => .ok k0
    | [(k0, _)], k => if veq k k0 then .ok .nil else .rt
    | _, _ => .unsup "next over a dictionary with more than one key"
  match ds with
  | .arr a => match heap[a]? with | some (.arr xs) => idx xs.size | _ => .rt
  | .tuple xs _ => idx xs.length
  | .str s => idx (bytesOf s).length
  | .struct kvs => dict (pairsOf kvs)
  | .tbl a => match heap[a]? with | some (.tbl kvs) => dict kvs | _ => .rt
  | .nil => .ok .nil
  | _ => .rt

/-- canonical struct: drop nil keys/values, later duplicates win, order by canonical text -/
def mkStruct (heap : Array HeapObj) (flat : List Value) : Value :=
  let ps := (pairsOf flat).filter (fun p => match p.1, p.2 with | .nil, _ => false | _, .nil => false | _, _ => true)
  let ded := ps.foldl (fun acc p => putKV p.1 p.2 acc) []
  let keyed := ded.map (fun p => (ser heap p.1, p))
  let sorted := keyed.foldl (fun (acc : List (String × (Value × Value))) kp =>
    let rec ins : List (String × (Value × Value)) → List (String × (Value × Value))
      | [] => [kp]
      | x :: xs => if strCmp kp.1 x.1 == .gt then x :: ins xs else kp :: x :: xs
    ins acc) []
  .struct (sorted.foldr (fun kp acc => kp.2.1 :: kp.2.2 :: acc) [])

def mkTablePairs (flat : List Value) : PRes (List (Value × Value)) :=
  (pairsOf flat).foldl (fun acc p => do
    let kvs ← acc
    match p.1, p.2 with
    | .nil, _ => .rt
    | _, .nil => pure (removeKV p.1 kvs)
    | k, v => pure (putKV k v kvs)) (pure [])

/-! ### arithmetic -/

def asNum : Value → PRes Float
  | .num x => .ok x
  | _ => .rt

def isInt (x : Float) : Bool := x == x.floor && x.abs <= two53

def fmod (a b : Float) : PRes Float :=
  if isInt a && isInt b && b != 0 then
    let ia := a.toInt64.toInt
    let ib := b.toInt64.toInt
    .ok (Float.ofInt (Int.tmod ia ib))
  else .unsup "remainder of non-integers"

def jmod (a b : Float) : Float := if b == 0 then a else a - b * (a / b).floor

inductive ArOp where | add | sub | mul | div | modulo | rem | divFloor
  deriving DecidableEq, Repr

def arith (op : ArOp) (a b : Value) : PRes Value := do
  let x ← asNum a
  let y ← asNum b
  match op with
  | .add => pure (.num (x + y))
  | .sub => pure (.num (x - y))
  | .mul => pure (.num (x * y))
  | .div => pure (.num (x / y))
  | .modulo => pure (.num (jmod x y))
  | .rem => do let r ← fmod x y; pure (.num r)
  | .divFloor => pure (.num (x / y).floor)

inductive CmpOp where | lt | gt | le | ge
  deriving DecidableEq, Repr

def cmpOp (op : CmpOp) (a b : Value) : PRes Bool :=
  match vcompare a b with
  | none => .unsup "ordering depends on addresses"
  | some o => .ok (match op with
    | .lt => o == .lt
    | .gt => o == .gt
    | .le => o != .gt
    | .ge => o != .lt)

end JanetModel.Bytecode.Exec
