import JanetModel.Bytecode.VM

/-!
Running code on the VM model: `exec` (fuelled), instruction constructors by operand layout with their field lemmas, and
the extra laws (argument tuples, loop counters) the generic templates of corelib.c rely on.  Core Lean only.
-/

namespace JanetModel.Bytecode.VM
open JanetModel.Gen.Bytecode

variable (P : Prims)

/-- run `code` from frame `f`; `none` = out of fuel, fell off the code, or an opcode outside the modelled subset -/
def exec (code : List Instr) : Nat → Frame P → P.W → Option (Except P.E P.V × P.W)
  | 0, _, _ => none
  | fuel + 1, f, w =>
    match code[f.pc]? with
    | none => none
    | some i =>
      match step P i f with
      | none => none
      | some m =>
        match m w with
        | (.error e, w') => some (.error e, w')
        | (.ok (.ret v), w') => some (.ok v, w')
        | (.ok (.cont g), w') => exec code fuel g w'

/-- more fuel never changes a result -/
theorem exec_mono (code : List Instr) (k : Nat) (f : Frame P) (w : P.W) (r) (h : exec P code k f w = some r) (k' : Nat) (hk : k ≤ k') :
    exec P code k' f w = some r := by
  induction k generalizing f w k' with
  | zero => simp [exec] at h
  | succ k ih =>
    cases k' with
    | zero => omega
    | succ k' =>
      simp only [exec] at h ⊢
      cases hc : code[f.pc]? with
      | none => simp [hc] at h
      | some i =>
        simp only [hc] at h ⊢
        cases hs : step P i f with
        | none => simp [hs] at h
        | some m =>
          simp only [hs] at h ⊢
          cases hm : m w with
          | mk res w' =>
            simp only [hm] at h ⊢
            cases res with
            | error e => exact h
            | ok st =>
              cases st with
              | ret v => exact h
              | cont g => exact ih g w' h k' (by omega)

/-! ### instruction constructors -/

def mkABC (op : Op) (a b c : Nat) : Instr := ⟨op, a + 256 * b + 65536 * c⟩
/-- SSI / SI with a signed immediate in the C byte -/
def mkABI (op : Op) (a b : Nat) (i : Int) : Instr := ⟨op, a + 256 * b + 65536 * (i % 256).toNat⟩
def mkAE (op : Op) (a e : Nat) : Instr := ⟨op, a + 256 * e⟩
/-- SI / SL with a signed 16-bit field -/
def mkAI (op : Op) (a : Nat) (i : Int) : Instr := ⟨op, a + 256 * (i % 65536).toNat⟩
def mkD (op : Op) (d : Nat) : Instr := ⟨op, d⟩

theorem mkABC_A (op a b c) (ha : a < 256) : (mkABC op a b c).A = a := by simp [mkABC, Instr.A]; omega
theorem mkABC_B (op a b c) (ha : a < 256) (hb : b < 256) : (mkABC op a b c).B = b := by simp [mkABC, Instr.B]; omega
theorem mkABC_C (op a b c) (ha : a < 256) (hb : b < 256) (hc : c < 256) : (mkABC op a b c).C = c := by simp [mkABC, Instr.C]; omega
theorem mkABI_A (op a b i) (ha : a < 256) : (mkABI op a b i).A = a := by simp [mkABI, Instr.A]; omega
theorem mkABI_B (op a b i) (ha : a < 256) (hb : b < 256) : (mkABI op a b i).B = b := by simp [mkABI, Instr.B]; omega
theorem signExt8 (i : Int) (hi : -128 ≤ i ∧ i < 128) : signExt 8 (i % 256).toNat = i := by
  unfold signExt
  have h7 : (2 : Nat) ^ (8 - 1) = 128 := by decide
  have h8 : (2 : Nat) ^ 8 = 256 := by decide
  rw [h7, h8]
  split <;> omega
theorem signExt16 (i : Int) (hi : -32768 ≤ i ∧ i < 32768) : signExt 16 (i % 65536).toNat = i := by
  unfold signExt
  have h7 : (2 : Nat) ^ (16 - 1) = 32768 := by decide
  have h8 : (2 : Nat) ^ 16 = 65536 := by decide
  rw [h7, h8]
  split <;> omega
theorem mkABI_CS (op a b) (i : Int) (ha : a < 256) (hb : b < 256) (hi : -128 ≤ i ∧ i < 128) : (mkABI op a b i).CS = i := by
  have h1 : (mkABI op a b i).C = (i % 256).toNat := by simp only [mkABI, Instr.C]; omega
  unfold Instr.CS
  rw [h1]
  exact signExt8 i hi
theorem mkAE_A (op a e) (ha : a < 256) : (mkAE op a e).A = a := by simp [mkAE, Instr.A]; omega
theorem mkAE_E (op a e) (ha : a < 256) (he : e < 65536) : (mkAE op a e).E = e := by simp [mkAE, Instr.E]; omega
theorem mkAI_A (op a i) (ha : a < 256) : (mkAI op a i).A = a := by simp [mkAI, Instr.A]; omega
theorem mkAI_ES (op a) (i : Int) (ha : a < 256) (hi : -32768 ≤ i ∧ i < 32768) : (mkAI op a i).ES = i := by
  have h1 : (mkAI op a i).E = (i % 65536).toNat := by simp only [mkAI, Instr.E]; omega
  unfold Instr.ES
  rw [h1]
  exact signExt16 i hi
theorem mkD_D (op d) (hd : d < 16777216) : (mkD op d).D = d := by simp [mkD, Instr.D]; omega

/-! ### laws used by the generic templates -/

/-- argument tuples and small-integer counters: what `JOP_LENGTH`, `JOP_GET_INDEX`, `JOP_IN` do on the vararg tuple and what
    number arithmetic / comparison does on the loop counter (exact on doubles for |values| < 2^53) -/
structure TupleLaws where
  tup : List P.V → P.V
  length_tup : ∀ l, P.unary .length (tup l) = M.pure (P.num l.length)
  getIndex_tup : ∀ (l : List P.V) (i : Nat) (h : i < l.length), P.getIndex (tup l) i = M.pure l[i]
  in_tup : ∀ (l : List P.V) (i : Nat) (h : i < l.length), P.other .in (tup l) (P.num i) = M.pure l[i]
  numEq_num : ∀ a b : Int, P.numEq (P.num a) (P.num b) = (a == b)
  numLt_num : ∀ a b : Int, P.numRel .lessThan (P.num a) (P.num b) = decide (a < b)
  add_num : ∀ a b : Int, P.arith .add (P.num a) (P.num b) = .ok (P.num (a + b))

end JanetModel.Bytecode.VM
