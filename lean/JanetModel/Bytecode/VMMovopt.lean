import JanetModel.Bytecode.VMPasses

/-!
`janet_bytecode_movopt` preserves behaviour: a generic theorem for any set `D` of dead slots (slots no instruction of the
function reads), and its instance from the read / removable tables regenerated from bytecode.c.
-/

namespace JanetModel.Bytecode.VMPasses
open JanetModel.Gen.Bytecode JanetModel.Gen.Cfuns JanetModel.Bytecode.VM

variable (P : Prims)

/-- two slot arrays agree outside the dead slots -/
def Agree (D : Nat → Bool) (s s' : List P.V) : Prop := s.length = s'.length ∧ ∀ k, D k = false → getS P s k = getS P s' k

theorem agree_refl (D : Nat → Bool) (s : List P.V) : Agree P D s s := ⟨rfl, fun _ _ => rfl⟩

theorem getS_set (s : List P.V) (a k : Nat) (v : P.V) :
    getS P (s.set a v) k = if a = k ∧ a < s.length then v else getS P s k := by
  unfold getS
  rw [List.getD_eq_getElem?_getD, List.getD_eq_getElem?_getD, List.getElem?_set]
  by_cases h : a = k
  · subst h
    by_cases hl : a < s.length
    · simp [hl]
    · have : s[a]? = none := List.getElem?_eq_none (by omega)
      simp [hl, this]
  · simp [h]

theorem agree_set (D : Nat → Bool) (s s' : List P.V) (h : Agree P D s s') (a : Nat) (v : P.V) : Agree P D (s.set a v) (s'.set a v) := by
  refine ⟨by simp [h.1], fun k hk => ?_⟩
  rw [getS_set, getS_set, h.1, h.2 k hk]

theorem agree_set_dead (D : Nat → Bool) (s : List P.V) (a : Nat) (hd : D a = true) (v : P.V) : Agree P D (s.set a v) s := by
  refine ⟨by simp, fun k hk => ?_⟩
  rw [getS_set]
  have : a ≠ k := by intro h; subst h; rw [hd] at hk; cases hk
  simp [this]

theorem agree_trans (D : Nat → Bool) (a b c : List P.V) (h1 : Agree P D a b) (h2 : Agree P D b c) : Agree P D a c :=
  ⟨h1.1.trans h2.1, fun k hk => (h1.2 k hk).trans (h2.2 k hk)⟩

/-- related outcomes: same control transfer, same value, slots agreeing outside `D` -/
def OutRel (D : Nat → Bool) : Outcome P → Outcome P → Prop
  | .next s, .next s' => Agree P D s s'
  | .jump s o, .jump s' o' => Agree P D s s' ∧ o = o'
  | .ret v, .ret v' => v = v'
  | _, _ => False

def MRel (D : Nat → Bool) (m m' : M P (Outcome P)) : Prop :=
  ∀ w, match m w, m' w with
    | (.error e, w1), (.error e', w2) => e = e' ∧ w1 = w2
    | (.ok o, w1), (.ok o', w2) => OutRel P D o o' ∧ w1 = w2
    | _, _ => False

theorem mrel_pure (D : Nat → Bool) (o o' : Outcome P) (h : OutRel P D o o') : MRel P D (M.pure o) (M.pure o') := by
  intro w; exact ⟨h, rfl⟩

theorem mrel_throw (D : Nat → Bool) (e : P.E) : MRel P D (M.throw e) (M.throw e) := by
  intro w; exact ⟨rfl, rfl⟩

theorem mrel_bind {α} (D : Nat → Bool) (c : M P α) (k k' : α → Outcome P) (h : ∀ v, OutRel P D (k v) (k' v)) :
    MRel P D (M.bind c fun v => M.pure (k v)) (M.bind c fun v => M.pure (k' v)) := by
  intro w
  simp only [M.bind, M.pure]
  rcases c w with ⟨(e | v), w1⟩
  · exact ⟨rfl, rfl⟩
  · exact ⟨h v, rfl⟩

/-- the slot an operand field of an instruction names -/
def fieldVal (x : Instr) : Field → Nat
  | .a => x.A
  | .b => x.B
  | .c => x.C
  | .d => x.D
  | .e => x.E

/-- relation between the two results of `stepCore` -/
def CoreRel (D : Nat → Bool) : Option (M P (Outcome P)) → Option (M P (Outcome P)) → Prop
  | none, none => True
  | some m, some m' => MRel P D m m'
  | _, _ => False

/-- ★ `stepCore` reads only the slots `vmReads` lists: on slot arrays that agree outside `D`, with no listed slot in `D`, it
    behaves the same and leaves slot arrays that agree outside `D` -/
theorem stepCore_respects (D : Nat → Bool) (x : Instr) (hr : ∀ f ∈ vmReads x.op, D (fieldVal x f) = false)
    (s s' : List P.V) (h : Agree P D s s') : CoreRel P D (stepCore P x s) (stepCore P x s') := by
  have ha : Field.a ∈ vmReads x.op → getS P s x.A = getS P s' x.A := fun hm => h.2 _ (hr _ hm)
  have hb : Field.b ∈ vmReads x.op → getS P s x.B = getS P s' x.B := fun hm => h.2 _ (hr _ hm)
  have hc : Field.c ∈ vmReads x.op → getS P s x.C = getS P s' x.C := fun hm => h.2 _ (hr _ hm)
  have hd : Field.d ∈ vmReads x.op → getS P s x.D = getS P s' x.D := fun hm => h.2 _ (hr _ hm)
  have he : Field.e ∈ vmReads x.op → getS P s x.E = getS P s' x.E := fun hm => h.2 _ (hr _ hm)
  cases hop : x.op <;> rw [hop] at ha hb hc hd he <;>
    simp only [stepCore, hop, immBase, Op.itype, CoreRel] <;>
    (try rw [ha (by simp [vmReads])]) <;> (try rw [hb (by simp [vmReads])]) <;> (try rw [hc (by simp [vmReads])]) <;>
    (try rw [hd (by simp [vmReads])]) <;> (try rw [he (by simp [vmReads])]) <;>
    first
      | trivial
      | exact mrel_pure P D _ _ h
      | exact mrel_pure P D _ _ rfl
      | exact mrel_pure P D _ _ ⟨h, rfl⟩
      | exact mrel_pure P D _ _ (agree_set P D s s' h _ _)
      | exact mrel_throw P D _
      | exact mrel_bind P D _ _ _ (fun v => agree_set P D s s' h _ v)
      | exact mrel_bind P D _ _ _ (fun _ => h)
      | (split <;> first | exact mrel_pure P D _ _ h | exact mrel_pure P D _ _ ⟨h, rfl⟩)

/-- an instruction the pass may delete: whenever it executes at all, all it does is write a dead slot -/
def PureWriteDead (D : Nat → Bool) (x : Instr) : Prop :=
  ∀ s m, stepCore P x s = some m → ∃ s', m = M.pure (.next s') ∧ Agree P D s' s

/-- `code'` is `code` with some such instructions overwritten by noops (one round of the second loop of movopt) -/
def MovoptStep (D : Nat → Bool) (code code' : List Instr) : Prop :=
  ∀ (i : Nat) (x : Instr), code[i]? = some x → code'[i]? = some x ∨ (∃ y : Instr, code'[i]? = some y ∧ y.op = Op.noop ∧ PureWriteDead P D x)

/-- ★ generic theorem: if no instruction reads a slot of `D` and the pass only turns pure writes to `D` into noops, the
    rewritten code computes the same result / error / effects, from slot arrays that agree outside `D` -/
theorem movopt_preserves (D : Nat → Bool) (code code' : List Instr)
    (hreads : ∀ x ∈ code, ∀ f ∈ vmReads x.op, D (fieldVal x f) = false) (hstep : MovoptStep P D code code') :
    ∀ (fuel : Nat) (s s' : List P.V) (pc : Nat) (w : P.W) (r : Except P.E P.V × P.W), Agree P D s s' →
      exec P code fuel ⟨s, pc⟩ w = some r → exec P code' fuel ⟨s', pc⟩ w = some r := by
  intro fuel
  induction fuel with
  | zero => intro s s' pc w r _ h; simp [exec] at h
  | succ k ih =>
    intro s s' pc w r hag h
    simp only [exec] at h
    cases hc : code[pc]? with
    | none => simp [hc] at h
    | some x =>
      simp only [hc] at h
      have hmem : x ∈ code := List.mem_of_getElem? hc
      rw [step_core] at h
      cases hsc : stepCore P x s with
      | none => simp [hsc] at h
      | some mc =>
        simp only [hsc, Option.map_some] at h
        rcases hstep pc x hc with hsame | ⟨y, hy, hnoop, hpure⟩
        · -- instruction kept
          have hrel := stepCore_respects P D x (hreads x hmem) s s' hag
          rw [hsc] at hrel
          cases hsc' : stepCore P x s' with
          | none => rw [hsc'] at hrel; exact absurd hrel (by simp [CoreRel])
          | some mc' =>
            rw [hsc'] at hrel
            simp only [CoreRel] at hrel
            have hw := hrel w
            simp only [exec, hsame, step_core, hsc', Option.map_some]
            simp only [M.map, M.bind, M.pure] at h ⊢
            rcases h1 : mc w with ⟨(e | o), w1⟩ <;> rcases h2 : mc' w with ⟨(e' | o'), w2⟩ <;> rw [h1, h2] at hw <;>
              simp only [] at hw
            · obtain ⟨rfl, rfl⟩ := hw
              rw [h1] at h; exact h
            · obtain ⟨hor, rfl⟩ := hw
              rw [h1] at h
              cases o <;> cases o' <;> simp only [OutRel] at hor
              · exact ih _ _ _ _ r hor h
              · obtain ⟨hag', rfl⟩ := hor
                exact ih _ _ _ _ r hag' h
              · subst hor; exact h
        · -- instruction replaced by a noop: the original only wrote a dead slot
          obtain ⟨s1, rfl, hag1⟩ := hpure s mc hsc
          have hs' : step P y ⟨s', pc⟩ = some (M.pure (.cont ⟨s', pc + 1⟩)) := by simp [step, hnoop, next]
          simp only [exec, hy, hs', M.pure]
          simp only [M.map, M.bind, M.pure, toStep] at h
          exact ih s1 s' (pc + 1) w r (agree_trans P D _ _ _ hag1 hag) h

/-- the writes of the pure opcodes, as `stepCore` performs them -/
theorem pureWriteDead_of_tables (D : Nat → Bool) (x : Instr) (f : Field) (hrem : movoptRemovable x.op = some f)
    (hok : movoptOpOk x.op = true) (hdead : D (fieldVal x f) = true)
    (hreadsC : ∀ g ∈ movoptReads x.op, D (fieldVal x g) = false) : PureWriteDead P D x := by
  unfold movoptOpOk at hok
  rw [hrem] at hok
  simp only [Bool.and_eq_true, beq_iff_eq, Bool.or_eq_true, List.contains_iff_mem] at hok
  obtain ⟨_, hw, hpure | hself⟩ := hok
  · intro s m hm
    simp only [pureOps, List.mem_cons, List.mem_nil_iff, or_false] at hpure
    rcases hpure with hop | hop | hop | hop | hop | hop | hop | hop | hop | hop <;>
      rw [hop] at hw <;> simp only [vmWrites, Option.some.injEq] at hw <;> subst hw <;>
      simp only [stepCore, hop, immBase, Op.itype, Option.some.injEq, reduceCtorEq] at hm <;>
      (try subst hm) <;>
      first
        | exact ⟨_, rfl, agree_set_dead P D s _ hdead _⟩
        | exact absurd hm (by simp)
  · have := hreadsC f hself
    rw [this] at hdead
    cases hdead

/-- ★ instance for the tables of bytecode.c: `D` = slots the first loop leaves unmarked (no opcode's `movoptReads` field names
    them), the second loop overwrites with `JOP_NOOP` only instructions whose `movoptRemovable` field names a slot of `D`; for
    code whose opcodes satisfy the table side conditions `movoptOpOk`, the result is preserved -/
theorem movopt_preserves_tables (D : Nat → Bool) (code code' : List Instr)
    (hreadsC : ∀ x ∈ code, ∀ g ∈ movoptReads x.op, D (fieldVal x g) = false)
    (hok : ∀ x ∈ code, movoptOpOk x.op = true)
    (hchg : ∀ (i : Nat) (x : Instr), code[i]? = some x →
      code'[i]? = some x ∨ (code'[i]? = some ⟨.noop, 0⟩ ∧ ∃ f, movoptRemovable x.op = some f ∧ D (fieldVal x f) = true)) :
    ∀ (fuel : Nat) (s : List P.V) (pc : Nat) (w : P.W) (r : Except P.E P.V × P.W),
      exec P code fuel ⟨s, pc⟩ w = some r → exec P code' fuel ⟨s, pc⟩ w = some r := by
  intro fuel s pc w r h
  refine movopt_preserves P D code code' ?_ ?_ fuel s s pc w r (agree_refl P D s) h
  · intro x hx f hf
    have := hok x hx
    unfold movoptOpOk at this
    simp only [Bool.and_eq_true, List.all_eq_true, List.contains_iff_mem] at this
    exact hreadsC x hx f (this.1 f hf)
  · intro i x hc
    rcases hchg i x hc with h1 | ⟨h1, f, hrem, hdead⟩
    · exact Or.inl h1
    · have hx : x ∈ code := List.mem_of_getElem? hc
      exact Or.inr ⟨_, h1, rfl, pureWriteDead_of_tables P D x f hrem (hok x hx) hdead (hreadsC x hx)⟩

end JanetModel.Bytecode.VMPasses
