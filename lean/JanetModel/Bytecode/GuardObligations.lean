/- C10 REGENERATED OBLIGATION: what `run_vm` dereferences depending on run-time VALUES (not on the instruction word, which is
   `verify_sound`'s subject) is preceded by a run-time test — every `janet_unwrap_<t>(e)` of run_vm / janet_method_invoke /
   call_nonfn by a test of the same JanetType on the same expression; `func->envs[eindex]`, the environment slot reads and
   writes of JOP_LOAD_UPVALUE / JOP_SET_UPVALUE by `environments_length > eindex`, `env->length > vindex`,
   `janet_env_valid(env)`; `func->envs[inherit]` of JOP_CLOSURE by the `inherit >= environments_length` branch.
   Table: Gen/VmGuards.lean (tools/gen/vmguards.py).  Core Lean only. -/
import JanetModel.Gen.VmGuards
namespace JanetModel.Bytecode.GuardObligations
open JanetModel.Gen.VmGuards

def unwrapOk (r : String × String × Nat × Option Nat) : Bool := r.2.2.2 == some r.2.2.1
def upvalueOk (r : String × String × Bool × Bool × Bool) : Bool := r.2.2.1 && r.2.2.2.1 && r.2.2.2.2

/-- rows without a dominating test, for naming the handler when the obligation breaks -/
def badRows : List String :=
  (unwraps.filter (fun r => !unwrapOk r)).map (fun r => r.1 ++ ":janet_unwrap(" ++ r.2.1 ++ ")") ++
  (upvalues.filter (fun r => !upvalueOk r)).map (fun r => r.1 ++ ":" ++ r.2.1)

theorem vm_value_guards : unwraps.all unwrapOk = true ∧ upvalues.all upvalueOk = true := by decide

/-- non-vacuity: the tables are not empty and contain the call, resume and upvalue handlers -/
theorem vm_value_guards_nonempty :
    (unwraps.any fun r => r.1 == "JOP_CALL") = true ∧ (unwraps.any fun r => r.1 == "JOP_RESUME") = true ∧
    (upvalues.any fun r => r.1 == "JOP_LOAD_UPVALUE") = true ∧ (upvalues.any fun r => r.1 == "JOP_CLOSURE") = true := by decide

end JanetModel.Bytecode.GuardObligations
