import JanetModel.Bytecode.VMExec

/-!
`step` factored through a pc-independent core: what an instruction does to the slots, and whether control falls through,
jumps by a relative offset, or returns.  Used by the pass proofs (VMPasses.lean).
-/

namespace JanetModel.Bytecode.VM
open JanetModel.Gen.Bytecode

variable (P : Prims)

inductive Outcome where
  | next (s : List P.V)
  | jump (s : List P.V) (off : Int)
  | ret (v : P.V)

def getS (s : List P.V) (i : Nat) : P.V := s.getD i P.nil

/-- the pc-independent part of `step` -/
def stepCore (i : Instr) (s : List P.V) : Option (M P (Outcome P)) :=
  let nx (t : List P.V) : M P (Outcome P) := M.pure (.next t)
  match i.op with
  | .noop => some (nx s)
  | .return => some (M.pure (.ret (getS P s i.D)))
  | .returnNil => some (M.pure (.ret P.nil))
  | .loadNil => some (nx (s.set i.D P.nil))
  | .loadTrue => some (nx (s.set i.D P.tru))
  | .loadFalse => some (nx (s.set i.D P.fls))
  | .loadInteger => some (nx (s.set i.A (P.num i.ES)))
  | .moveNear => some (nx (s.set i.A (getS P s i.E)))
  | .moveFar => some (nx (s.set i.E (getS P s i.A)))
  | .jump => some (M.pure (.jump s i.DS))
  | .jumpIf => some (M.pure (if P.truthy (getS P s i.A) then .jump s i.ES else .next s))
  | .jumpIfNot => some (M.pure (if P.truthy (getS P s i.A) then .next s else .jump s i.ES))
  | .jumpIfNil => some (M.pure (if P.isNil (getS P s i.A) then .jump s i.ES else .next s))
  | .jumpIfNotNil => some (M.pure (if P.isNil (getS P s i.A) then .next s else .jump s i.ES))
  | .length | .bnot => some (M.bind (P.unary i.op (getS P s i.E)) fun v => nx (s.set i.A v))
  | .put => some (M.bind (P.put3 (getS P s i.A) (getS P s i.B) (getS P s i.C)) fun _ => nx s)
  | .signal => some (M.bind (P.signal (getS P s i.B) i.C) fun v => nx (s.set i.A v))
  | .error => some (M.throw (P.raise (getS P s i.A)))
  | .getIndex => some (M.bind (P.getIndex (getS P s i.B) i.C) fun v => nx (s.set i.A v))
  | op =>
    match immBase op with
    | some _ => some (M.bind (immop P op (getS P s i.B) i.CS) fun v => nx (s.set i.A v))
    | none =>
      match Op.itype op with
      | .sss => some (M.bind (binop P op (getS P s i.B) (getS P s i.C)) fun v => nx (s.set i.A v))
      | _ => none

def toStep (pc : Nat) : Outcome P → Step P
  | .next s => .cont ⟨s, pc + 1⟩
  | .jump s off => .cont ⟨s, (Int.ofNat pc + off).toNat⟩
  | .ret v => .ret v

def M.map {α β} (g : α → β) (m : M P α) : M P β := M.bind m fun a => M.pure (g a)

theorem M.map_pure {α β} (g : α → β) (a : α) : M.map P g (M.pure a) = M.pure (g a) := rfl
theorem M.map_bind {α β γ} (g : β → γ) (m : M P α) (f : α → M P β) :
    M.map P g (M.bind m f) = M.bind m (fun a => M.map P g (f a)) := by
  funext w
  simp only [M.map, M.bind]
  rcases m w with ⟨(_ | _), _⟩ <;> rfl
theorem M.map_throw {α β} (g : α → β) (e : P.E) : M.map P g (M.throw e : M P α) = M.throw e := rfl

theorem map_bind_next {α} (pc : Nat) (m : M P α) (k : α → Outcome P) :
    (M.bind m fun v => M.pure (toStep P pc (k v))) = M.map P (toStep P pc) (M.bind m fun v => M.pure (k v)) := by
  funext w
  simp only [M.map, M.bind, M.pure]
  rcases m w with ⟨(_ | _), _⟩ <;> rfl

/-- ★ `step` is `stepCore` on the slots, with the outcome placed at the current pc -/
theorem step_core (i : Instr) (f : Frame P) :
    step P i f = (stepCore P i f.slots).map (M.map P (toStep P f.pc)) := by
  obtain ⟨s, pc⟩ := f
  cases hop : i.op <;>
    simp [step, stepCore, hop, immBase, Op.itype, M.map_pure, M.map_bind, M.map_throw, toStep, getSlot, setSlot, next, jumpBy, getS,
      apply_ite]
  all_goals first
    | (exact map_bind_next P pc _ (fun v => Outcome.next (s.set i.A v)))
    | (exact map_bind_next P pc _ (fun _ => Outcome.next s))
    | (split <;> simp_all)

end JanetModel.Bytecode.VM
