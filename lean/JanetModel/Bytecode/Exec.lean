/- C02: executable model of the janet VM (`run_vm`, vm.c) over abstract values: frames, calls and tail calls with arity
   checks and vararg / keyword packing (fiber.c `janet_fiber_funcframe(_tail)`), closure creation and environment
   capture / detach (`JOP_CLOSURE`, `janet_env_detach` incl. closure_bitset), upvalues, the arithmetic / comparison /
   data-structure opcodes the compiler emits.  Opcode numbering comes from the generated table `Gen/Bytecode.lean`.
   Used for translation validation: it executes the funcdefs produced by the REAL compiler.  Core Lean only. -/
import JanetModel.Gen.Bytecode
import JanetModel.Bytecode.ExecCore
namespace JanetModel.Bytecode.Exec
open JanetModel.Gen.Bytecode

/-! ### instruction fields (vm.c: A B C D E, signed variants) -/
def fA (w : Nat) : Nat := w / 256 % 256
def fB (w : Nat) : Nat := w / 65536 % 256
def fC (w : Nat) : Nat := w / 16777216 % 256
def fD (w : Nat) : Nat := w / 256 % 16777216
def fE (w : Nat) : Nat := w / 65536 % 65536
def sext (bits : Nat) (x : Nat) : Int := if x < 2 ^ (bits - 1) then (x : Int) else (x : Int) - (2 ^ bits : Nat)
def fCS (w : Nat) : Int := sext 8 (fC w)
def fDS (w : Nat) : Int := sext 24 (fD w)
def fES (w : Nat) : Int := sext 16 (fE w)

/-- what one step produced -/
inductive StepRes where
  | next (st : State)                       -- continue
  | done (v : Value) (st : State)           -- the bottom frame returned
  | err (v : Value) (pos : Pos) (st : State)
  | unsup (why : String)
  deriving Inhabited

def curDef (p : Program) (st : State) : FuncDef := p.defs.getD st.cur.defIdx default

def curPos (p : Program) (st : State) : Pos :=
  let d := curDef p st
  match d.smap[st.cur.pc]? with
  | some (l, c) => { line := l, col := c }
  | none => {}

def rtErr : Value := .str "<rt>"

def raise (p : Program) (st : State) (v : Value) : StepRes := .err v (curPos p st) st

def liftP (p : Program) (st : State) (r : PRes α) (k : α → StepRes) : StepRes :=
  match r with
  | .ok a => k a
  | .rt => raise p st rtErr
  | .user v => raise p st v
  | .unsup w => .unsup w

def State.jump (st : State) (off : Int) : State := st.mapCur (fun f => { f with pc := (Int.ofNat f.pc + off).toNat })
def State.adv (st : State) : State := st.mapCur (fun f => { f with pc := f.pc + 1 })
def State.setAdv (st : State) (r : Nat) (v : Value) : State := (st.setReg r v).adv

/-- `janet_env_detach`: copy the frame's slots into the environment object, clearing slots outside closure_bitset -/
def detachEnv (p : Program) (st : State) (f : Frame) : State :=
  match f.ownEnv with
  | none => st
  | some addr =>
    let d := p.defs.getD f.defIdx default
    let vals := match d.bitset with
      | none => f.regs
      | some bs => f.regs.mapIdx (fun i v => if bs.getD i false then v else Value.nil)
    { st with heap := st.heap.setIfInBounds addr (.env (.detached vals)) }

/-- pop the current frame (detaching its environment) -/
def popFrame (p : Program) (st : State) : State :=
  match st.frames with
  | [] => st
  | f :: rest => detachEnv p { st with frames := rest } f

/-- build the register file of a new frame: fiber.c `janet_fiber_funcframe` (arity check, nil fill, vararg tuple /
    struct packing) -/
def mkRegs (heap : Array HeapObj) (d : FuncDef) (args : Array Value) : Option (Array Value) :=
  let n := args.size
  if n < d.minArity || (!d.vararg && n > d.maxArity) then none else
  let size := max d.slotcount (d.arity + 1)
  let base : Array Value := Array.replicate size Value.nil
  if d.vararg then
    let fixed := (List.range (min n d.arity)).foldl (fun (r : Array Value) i => r.setIfInBounds i (args.getD i .nil)) base
    let extra := (args.toList.drop d.arity)
    if d.structarg then
      some (fixed.setIfInBounds d.arity (mkStruct heap extra))     -- `make_struct_n`: complete pairs only, a dangling key is ignored
    else some (fixed.setIfInBounds d.arity (.tuple extra false))
  else
    some ((List.range n).foldl (fun (r : Array Value) i => r.setIfInBounds i (args.getD i .nil)) base)

def pushFrame (st : State) (defIdx : Nat) (regs : Array Value) (envs : Array Nat) (self retReg : Nat) : State :=
  { st with frames := { defIdx := defIdx, pc := 0, regs := regs, envs := envs, ownEnv := none, retReg := retReg, self := self } :: st.frames,
            args := #[] }

/-- deliver a return value to the caller of the current frame (which is popped) -/
def doReturn (p : Program) (st : State) (v : Value) : StepRes :=
  let ret := st.cur.retReg
  let st' := popFrame p st
  match st'.frames with
  | [] => .done v st'
  | _ => .next (st'.setAdv ret v)

def callNonFn (p : Program) (st : State) (callee : Value) (k : Value → State → StepRes) : StepRes :=
  match callee with
  | .kw _ => .unsup "keyword call (method lookup)"
  | _ =>
    if st.args.size != 1 then raise p st rtErr
    else liftP p st (vin st.heap callee (st.args.getD 0 .nil)) (fun v => k v { st with args := #[] })

/-- JOP_CALL -/
def doCall (p : Program) (st : State) (dest : Nat) (callee : Value) : StepRes :=
  match callee with
  | .fn addr =>
    match st.heap[addr]? with
    | some (.closure di envs) =>
      let d := p.defs.getD di default
      match mkRegs st.heap d st.args with
      | none => raise p st rtErr
      | some regs => if st.frames.length > 400 then raise p st rtErr else .next (pushFrame st di regs envs addr dest)
    | _ => .unsup "bad closure object"
  | .cfun name => liftP p st (callPrim name st.args.toList { st with args := #[] }) (fun (v, st') => .next (st'.setAdv dest v))
  | c => callNonFn p st c (fun v st' => .next (st'.setAdv dest v))

/-- JOP_TAILCALL -/
def doTailcall (p : Program) (st : State) (callee : Value) : StepRes :=
  match callee with
  | .fn addr =>
    match st.heap[addr]? with
    | some (.closure di envs) =>
      let d := p.defs.getD di default
      match mkRegs st.heap d st.args with
      | none => raise p st rtErr
      | some regs =>
        let ret := st.cur.retReg
        let st' := popFrame p st
        .next (pushFrame st' di regs envs addr ret)
    | _ => .unsup "bad closure object"
  | .cfun name => liftP p st (callPrim name st.args.toList { st with args := #[] }) (fun (v, st') => doReturn p st' v)
  | c => callNonFn p st c (fun v st' => doReturn p st' v)

/-- JOP_CLOSURE: instantiate `def->defs[di]` capturing environments of the running function -/
def doClosure (p : Program) (st : State) (dest di : Nat) : StepRes :=
  let cd := curDef p st
  match cd.defs[di]? with
  | none => .unsup "invalid funcdef index"
  | some gidx =>
    let fd := p.defs.getD gidx default
    -- make sure the current frame has an environment object if the new closure needs it
    let needOwn := fd.envs.any (· == -1)
    let (st1, own) : State × Nat :=
      match st.cur.ownEnv with
      | some a => (st, a)
      | none =>
        if needOwn then
          let (s, a) := st.alloc (.env (.onStack (st.frames.length - 1)))
          (s.mapCur (fun f => { f with ownEnv := some a }), a)
        else (st, 0)
    let envs := fd.envs.map (fun e => if e == -1 then own else st1.cur.envs.getD e.toNat 0)
    let (st2, a) := st1.alloc (.closure gidx envs)
    .next (st2.setAdv dest (.fn a))

def binArith (p : Program) (st : State) (op : ArOp) (w : Nat) : StepRes :=
  liftP p st (arith op (st.getReg (fB w)) (st.getReg (fC w))) (fun v => .next (st.setAdv (fA w) v))

def immArith (p : Program) (st : State) (op : ArOp) (w : Nat) : StepRes :=
  liftP p st (arith op (st.getReg (fB w)) (.num (Float.ofInt (fCS w)))) (fun v => .next (st.setAdv (fA w) v))

def binCmp (p : Program) (st : State) (op : CmpOp) (w : Nat) : StepRes :=
  liftP p st (cmpOp op (st.getReg (fB w)) (st.getReg (fC w))) (fun b => .next (st.setAdv (fA w) (.bool b)))

def immCmp (p : Program) (st : State) (op : CmpOp) (w : Nat) : StepRes :=
  liftP p st (cmpOp op (st.getReg (fB w)) (.num (Float.ofInt (fCS w)))) (fun b => .next (st.setAdv (fA w) (.bool b)))

def condJump (st : State) (c : Bool) (w : Nat) : StepRes := .next (if c then st.jump (fES w) else st.adv)

def takeArgs (st : State) : List Value × State := (st.args.toList, { st with args := #[] })

/-- the effect of one decoded instruction (`d` = running funcdef, `w` = instruction word, `op` = its opcode) -/
def execOp (p : Program) (st : State) (d : FuncDef) (w : Nat) (op : Op) : StepRes :=
  match op with
  | .noop => .next st.adv
  | .error => raise p st (st.getReg (fA w))
  | .typecheck => .unsup "typecheck"
  | .return => doReturn p st (st.getReg (fD w))
  | .returnNil => doReturn p st .nil
  | .addImmediate => immArith p st .add w
  | .add => binArith p st .add w
  | .subtractImmediate => immArith p st .sub w
  | .subtract => binArith p st .sub w
  | .multiplyImmediate => immArith p st .mul w
  | .multiply => binArith p st .mul w
  | .divideImmediate => immArith p st .div w
  | .divide => binArith p st .div w
  | .divideFloor => binArith p st .divFloor w
  | .modulo => binArith p st .modulo w
  | .remainder => binArith p st .rem w
  | .moveFar => .next (st.setAdv (fE w) (st.getReg (fA w)))
  | .moveNear => .next (st.setAdv (fA w) (st.getReg (fE w)))
  | .jump => .next (st.jump (fDS w))
  | .jumpIf => condJump st (truthy (st.getReg (fA w))) w
  | .jumpIfNot => condJump st (!truthy (st.getReg (fA w))) w
  | .jumpIfNil => condJump st (match st.getReg (fA w) with | .nil => true | _ => false) w
  | .jumpIfNotNil => condJump st (match st.getReg (fA w) with | .nil => false | _ => true) w
  | .greaterThan => binCmp p st .gt w
  | .greaterThanImmediate => immCmp p st .gt w
  | .lessThan => binCmp p st .lt w
  | .lessThanImmediate => immCmp p st .lt w
  | .greaterThanEqual => binCmp p st .ge w
  | .lessThanEqual => binCmp p st .le w
  | .equals => .next (st.setAdv (fA w) (.bool (veq (st.getReg (fB w)) (st.getReg (fC w)))))
  | .notEquals => .next (st.setAdv (fA w) (.bool (!veq (st.getReg (fB w)) (st.getReg (fC w)))))
  | .equalsImmediate => .next (st.setAdv (fA w) (.bool (veq (st.getReg (fB w)) (.num (Float.ofInt (fCS w))))))
  | .notEqualsImmediate => .next (st.setAdv (fA w) (.bool (!veq (st.getReg (fB w)) (.num (Float.ofInt (fCS w))))))
  | .compare => match vcompare (st.getReg (fB w)) (st.getReg (fC w)) with
    | none => .unsup "compare depends on addresses"
    | some o => .next (st.setAdv (fA w) (.num (match o with | .lt => -1 | .eq => 0 | .gt => 1)))
  | .loadNil => .next (st.setAdv (fD w) .nil)
  | .loadTrue => .next (st.setAdv (fD w) (.bool true))
  | .loadFalse => .next (st.setAdv (fD w) (.bool false))
  | .loadInteger => .next (st.setAdv (fA w) (.num (Float.ofInt (fES w))))
  | .loadConstant => .next (st.setAdv (fA w) (d.consts.getD (fE w) .nil))
  | .loadUpvalue => match st.readUp (fB w) (fC w) with
    | some v => .next (st.setAdv (fA w) v)
    | none => .unsup "invalid upvalue"
  | .loadSelf => .next (st.setAdv (fD w) (.fn st.cur.self))
  | .setUpvalue => match st.writeUp (fB w) (fC w) (st.getReg (fA w)) with
    | some st' => .next st'.adv
    | none => .unsup "invalid upvalue"
  | .closure => doClosure p st (fA w) (fE w)
  | .push => .next ({ st with args := st.args.push (st.getReg (fD w)) }).adv
  | .push2 => .next ({ st with args := (st.args.push (st.getReg (fA w))).push (st.getReg (fE w)) }).adv
  | .push3 => .next ({ st with args := ((st.args.push (st.getReg (fA w))).push (st.getReg (fB w))).push (st.getReg (fC w)) }).adv
  | .pushArray => match st.getReg (fD w) with
    | .tuple xs _ => .next ({ st with args := st.args ++ xs.toArray }).adv
    | .arr a => match st.heap[a]? with
      | some (.arr xs) => .next ({ st with args := st.args ++ xs }).adv
      | _ => raise p st rtErr
    | _ => raise p st rtErr
  | .call => doCall p st (fA w) (st.getReg (fE w))
  | .tailcall => doTailcall p st (st.getReg (fD w))
  | .in => liftP p st (vin st.heap (st.getReg (fB w)) (st.getReg (fC w))) (fun v => .next (st.setAdv (fA w) v))
  | .get => .next (st.setAdv (fA w) (vget st.heap (st.getReg (fB w)) (st.getReg (fC w))))
  | .put => liftP p st (vput st.heap (st.getReg (fA w)) (st.getReg (fB w)) (st.getReg (fC w))) (fun h => .next ({ st with heap := h }).adv)
  | .getIndex => liftP p st (vgetindex st.heap (st.getReg (fB w)) (fC w)) (fun v => .next (st.setAdv (fA w) v))
  | .putIndex => liftP p st (vput st.heap (st.getReg (fA w)) (.num (Float.ofNat (fC w))) (st.getReg (fB w))) (fun h => .next ({ st with heap := h }).adv)
  | .length => liftP p st (vlength st.heap (st.getReg (fE w))) (fun n => .next (st.setAdv (fA w) (.num (Float.ofNat n))))
  | .next => liftP p st (vnext st.heap (st.getReg (fB w)) (st.getReg (fC w))) (fun v => .next (st.setAdv (fA w) v))
  | .makeArray =>
    let (xs, st1) := takeArgs st
    let (v, st2) := allocV st1 (.arr xs.toArray) Value.arr
    .next (st2.setAdv (fD w) v)
  | .makeTuple => let (xs, st1) := takeArgs st; .next (st1.setAdv (fD w) (.tuple xs false))
  | .makeBracketTuple => let (xs, st1) := takeArgs st; .next (st1.setAdv (fD w) (.tuple xs true))
  | .makeStruct =>
    let (xs, st1) := takeArgs st
    if xs.length % 2 == 1 then raise p st rtErr else .next (st1.setAdv (fD w) (mkStruct st1.heap xs))
  | .makeTable =>
    let (xs, st1) := takeArgs st
    if xs.length % 2 == 1 then raise p st rtErr else
    liftP p st (mkTablePairs xs) (fun kvs =>
      let (v, st2) := allocV st1 (.tbl kvs) Value.tbl
      .next (st2.setAdv (fD w) v))
  | .makeString | .makeBuffer => .unsup "make string/buffer"
  | _ => .unsup ("opcode " ++ op.cName)

/-- one instruction of `run_vm`: fetch, decode, execute -/
def step (p : Program) (st : State) : StepRes :=
  let d := curDef p st
  match d.code[st.cur.pc]? with
  | none => .unsup "pc out of range"
  | some w =>
  match Op.ofNat? (w % 128) with
  | none => .unsup "bad opcode"
  | some op => execOp p st d w op

/-- run until the bottom frame returns, an error is raised, or the fuel runs out -/
def run (p : Program) : Nat → State → Outcome × State
  | 0, st => (.timeout, st)
  | fuel + 1, st =>
    match step p st with
    | .next st' => run p fuel st'
    | .done v st' => (.ok v, st')
    | .err v pos st' => (.err v pos, st')
    | .unsup _ => (.timeout, st)

/-- like `run` but reports why the model gave up -/
def runDiag (p : Program) : Nat → State → (String ⊕ (Outcome × State))
  | 0, _ => .inl "fuel"
  | fuel + 1, st =>
    match step p st with
    | .next st' => runDiag p fuel st'
    | .done v st' => .inr (.ok v, st')
    | .err v pos st' => .inr (.err v pos, st')
    | .unsup w => .inl w

/-- initial state: the thunk (def 0) called with no arguments -/
def initState (p : Program) : State :=
  let d := p.defs.getD 0 default
  let st : State := {}
  let (st1, a) := st.alloc (.closure 0 #[])
  pushFrame st1 0 (Array.replicate (max d.slotcount 1) Value.nil) #[] a 0

end JanetModel.Bytecode.Exec
