import JanetModel.Gen.Seq
/-
Executable model of janet arrays (src/core/array.c) and buffers (src/core/buffer.c), the generic accessors for
them in value.c (`janet_put`, `janet_putindex`, `janet_get`, `janet_in`, `janet_getindex`, `janet_next`,
`getter_checkint`) and the index / range decoding of capi.c (`janet_getinteger`, `janet_gethalfrange`,
`janet_getstartrange`, `janet_getendrange`, `janet_getslice`).  Core Lean only.

* `count` is a `Nat` (the C field is an `int32_t` that never goes negative), `capacity` an `Int` (array/new accepts a
  negative capacity and stores it), all other C `int32_t` quantities are `Int` with the overflow tests the C makes.
* Storage is `cells : Array (Option α)` of the allocated size; `none` is a cell the C never wrote (malloc / realloc
  garbage).  The invariant proved in Seq/Lemmas.lean says the first `count` cells are all `some`.
* An operation returns the new state and an `Outcome`: `ok`, `val v`, `err` (janet_panic: an error is raised),
  `oom` (JANET_OUT_OF_MEMORY: the process exits), `ub` (the C executes a signed overflow / out-of-range memmove).
-/
namespace JanetModel.Seq
open JanetModel.Gen.Seq

abbrev Val := Nat
abbrev vNil : Val := 0
abbrev i32max : Int := 2147483647
abbrev i32min : Int := -2147483648

/-- a Janet argument as far as these functions look pos it -/
inductive Arg where
  | int (n : Int)      -- a number that passes `janet_checkint`
  | nil
  | bad                -- any other value (non-integral number, string, ...)
  deriving Repr, DecidableEq

inductive Outcome (α : Type) where
  | ok
  | val (v : Option α)   -- a returned element; `none` = an uninitialised cell was read
  | num (n : Int)
  | err
  | oom
  | ub
  deriving Repr, DecidableEq

/-! ### capi.c -/

/-- `janet_getinteger`: `none` = panic -/
def getInteger : Arg → Option Int
  | .int n => some n
  | _ => none

/-- `janet_gethalfrange(argv, n, length, which)` -/
def getHalfRange (a : Arg) (length : Int) : Option Int :=
  match getInteger a with
  | none => none
  | some raw =>
    let notRaw := if raw < 0 then raw + (length + 1) else raw
    if notRaw < 0 ∨ notRaw > length then none else some notRaw

/-- `janet_getstartrange`; `none` argument = `n >= argc` -/
def getStartRange (a : Option Arg) (length : Int) : Option Int :=
  match a with
  | none => some 0
  | some .nil => some 0
  | some x => getHalfRange x length

/-- `janet_getendrange` -/
def getEndRange (a : Option Arg) (length : Int) : Option Int :=
  match a with
  | none => some length
  | some .nil => some length
  | some x => getHalfRange x length

/-- `janet_getslice`: (start, end) with `end >= start` -/
def getSlice (length : Int) (s e : Option Arg) : Option (Int × Int) :=
  match getStartRange s length with
  | none => none
  | some st =>
    match getEndRange e length with
    | none => none
    | some en => some (st, if en < st then st else en)

/-- `getter_checkint(type, key, max)` (value.c) -/
def getterCheckint (key : Arg) (max : Int) : Option Int :=
  match key with
  | .int n => if n < 0 then none else if n ≥ max then none else some n
  | _ => none

/-! ### storage -/

/-- `realloc(cells, n)`: keeps the common prefix, new cells are uninitialised -/
def realloc {α : Type} (cells : Array (Option α)) (n : Nat) : Array (Option α) :=
  if n ≤ cells.size then cells.extract 0 n else cells ++ Array.replicate (n - cells.size) none

/-- write `xs` from cell `pos` on (memcpy) -/
def writeAt {α : Type} (cells : Array (Option α)) (pos : Nat) : List (Option α) → Array (Option α)
  | [] => cells
  | x :: xs => writeAt (cells.setIfInBounds pos x) (pos + 1) xs

/-- cells `pos .. pos+n` (what memcpy / memmove reads) -/
def readAt {α : Type} (cells : Array (Option α)) (pos n : Nat) : List (Option α) :=
  (List.range' pos n).map (fun i => (cells.getD i none))

/-! ### arrays (array.c) -/

structure Arr where
  count : Nat
  capacity : Int
  cells : Array (Option Val)
  /-- `array->data == NULL` (no storage was ever allocated, or array/trim freed it): array/concat compares data
  pointers to detect "the same array", and two NULL pointers compare equal -/
  isNull : Bool := false
  deriving Repr, Inhabited

/-- `janet_array(capacity)` -/
def Arr.new (capacity : Int) : Arr :=
  { count := 0, capacity := capacity, cells := Array.replicate capacity.toNat none, isNull := decide (capacity ≤ 0) }

/-- elements `0..count` -/
def Arr.items (a : Arr) : List (Option Val) := readAt a.cells 0 a.count

/-- `janet_array_ensure(array, capacity, growth)`; `none` = JANET_OUT_OF_MEMORY (realloc of a non-positive size on\nglibc / ASan) -/
def Arr.ensure (a : Arr) (capacity growth : Int) : Option Arr :=
  if capacity ≤ a.capacity then some a
  else
    let nc := capacity * growth
    let nc := if nc > i32max then i32max else nc
    -- realloc(p, 0) frees p and returns NULL (-> out of memory) unless p is NULL already; a negative size fails
    if nc < 0 ∨ (nc = 0 ∧ a.cells.size ≠ 0) then none
    else some { a with capacity := nc, cells := realloc a.cells nc.toNat, isNull := false }

/-- `janet_array_setcount` -/
def Arr.setcount (a : Arr) (count : Int) : Arr × Outcome Val :=
  if count < 0 then (a, .ok)
  else if count > a.count then
    match a.ensure count arraySetcountGrowth with
    | none => (a, .oom)
    | some a' =>
      ({ a' with cells := writeAt a'.cells a.count (List.replicate (count.toNat - a.count) (some vNil)), count := count.toNat }, .ok)
  else ({ a with count := count.toNat }, .ok)

/-- `janet_array_push` -/
def Arr.push (a : Arr) (x : Val) : Arr × Outcome Val :=
  if (a.count : Int) = i32max then (a, .err)
  else
    match a.ensure (a.count + 1) arrayPushGrowth with
    | none => (a, .oom)
    | some a' => ({ a' with cells := a'.cells.setIfInBounds a.count (some x), count := a.count + 1 }, .ok)

/-- `janet_array_pop` -/
def Arr.pop (a : Arr) : Arr × Outcome Val :=
  if a.count ≠ 0 then ({ a with count := a.count - 1 }, .val (a.cells.getD (a.count - 1) none))
  else (a, .val (some vNil))

/-- `janet_array_peek` -/
def Arr.peek (a : Arr) : Arr × Outcome Val :=
  if a.count ≠ 0 then (a, .val (a.cells.getD (a.count - 1) none)) else (a, .val (some vNil))

/-- `cfun_array_push` (argc - 1 = xs.length) -/
def Arr.cfunPush (a : Arr) (xs : List Val) : Arr × Outcome Val :=
  if i32max - (xs.length + 1 : Int) + 1 ≤ a.count then (a, .err)
  else
    let newcount : Int := a.count - 1 + (xs.length + 1)
    match a.ensure newcount arrayCfunPushGrowth with
    | none => (a, .oom)
    | some a' => ({ a' with cells := writeAt a'.cells a.count (xs.map some), count := newcount.toNat }, .ok)

/-- `cfun_array_new_filled` -/
def Arr.newFilled (count : Arg) (x : Val) : Option Arr :=
  match count with
  | .int n => if n < 0 then none else
      some { count := n.toNat, capacity := n, cells := Array.replicate n.toNat (some x), isNull := decide (n ≤ 0) }
  | _ => none

/-- `cfun_array_fill` -/
def Arr.fill (a : Arr) (x : Val) : Arr × Outcome Val :=
  ({ a with cells := writeAt a.cells 0 (List.replicate a.count (some x)) }, .ok)

/-- `cfun_array_ensure` -/
def Arr.cfunEnsure (a : Arr) (cap growth : Arg) : Arr × Outcome Val :=
  match getInteger cap, getInteger growth with
  | some c, some g =>
    if c < 1 then (a, .err)
    else if ensureChecksGrowth && g < 1 then (a, .err)     -- only in sources that validate `growth`
    else match a.ensure c g with
      | none => (a, .oom)
      | some a' => (a', .ok)
  | _, _ => (a, .err)

/-- `cfun_array_slice` on a view of `len` readable items -/
def sliceOf (items : List (Option Val)) (s e : Option Arg) : Option Arr :=
  match getSlice items.length s e with
  | none => none
  | some (st, en) =>
    let n := en - st
    some { count := n.toNat, capacity := n, cells := ((items.drop st.toNat).take n.toNat).toArray, isNull := decide (n ≤ 0) }

/-- `cfun_array_insert` -/
def Arr.insert (a : Arr) (pos : Arg) (xs : List Val) : Arr × Outcome Val :=
  match getInteger pos with
  | none => (a, .err)
  | some pos =>
    let pos := if pos < 0 then a.count + pos + 1 else pos
    if pos < 0 ∨ pos > a.count then (a, .err)
    else if i32max - xs.length < a.count then (a, .err)
    else
      match a.ensure (a.count + xs.length) arrayInsertGrowth with
      | none => (a, .oom)
      | some a' =>
        let rest := readAt a'.cells pos.toNat (a.count - pos.toNat)             -- memmove source
        let cells := writeAt a'.cells (pos.toNat + xs.length) rest
        let cells := writeAt cells pos.toNat (xs.map some)
        ({ a' with cells := cells, count := a.count + xs.length }, .ok)

/-- the optional count argument of array/remove: default 1, must be a non-negative integer (`none` = panic) -/
def removeCount (n : Option Arg) : Option Int :=
  match n with
  | none => some 1
  | some x => match getInteger x with
    | none => none
    | some v => if v < 0 then none else some v

/-- `cfun_array_remove`; `n = none` when argc = 2.  `safe` = which of the two recognised shapes of the clamp the
source has (Gen/Seq.lean `removeClampNoOverflow`): `if (n > array->count - at)` (true) or `if (at + n > array->count)`
(false; `at + n` is computed in `int32_t`, and when that overflows the behaviour is undefined: `ub`) -/
def Arr.removeWith (safe : Bool) (a : Arr) (pos : Arg) (n : Option Arg) : Arr × Outcome Val :=
  match getInteger pos with
  | none => (a, .err)
  | some pos =>
    let pos := if pos < 0 then a.count + pos else pos
    if pos < 0 ∨ pos > a.count then (a, .err)
    else
      match removeCount n with
      | none => (a, .err)
      | some n =>
        if !safe && pos + n > i32max then (a, .ub)
        else
          let n := if (if safe then n > a.count - pos else pos + n > a.count) then a.count - pos else n
          let tail := readAt a.cells (pos + n).toNat (a.count - pos.toNat - n.toNat)
          ({ a with cells := writeAt a.cells pos.toNat tail, count := a.count - n.toNat }, .ok)

def Arr.remove (a : Arr) (pos : Arg) (n : Option Arg) : Arr × Outcome Val :=
  Arr.removeWith removeClampNoOverflow a pos n

/-- `cfun_array_trim` -/
def Arr.trim (a : Arr) : Arr × Outcome Val :=
  if a.count ≠ 0 then
    if (a.count : Int) < a.capacity then ({ a with capacity := a.count, cells := realloc a.cells a.count }, .ok) else (a, .ok)
  else ({ a with capacity := 0, cells := #[], isNull := true }, .ok)

/-- `cfun_array_clear` -/
def Arr.clear (a : Arr) : Arr × Outcome Val := ({ a with count := 0 }, .ok)

/-- one part of `array/concat`: a single value, or the elements of an array / tuple -/
inductive Part where
  | one (v : Val)
  | many (vs : List (Option Val))
  | other (vs : List (Option Val)) (srcNull : Bool)   -- another array, with whether its data pointer is NULL
  | self                       -- the destination array itself
  deriving Repr

def Arr.pushAll (a : Arr) : List (Option Val) → Arr × Outcome Val
  | [] => (a, .ok)
  | x :: xs =>
    if (a.count : Int) = i32max then (a, .err)
    else match a.ensure (a.count + 1) arrayPushGrowth with
      | none => (a, .oom)
      | some a' => Arr.pushAll { a' with cells := a'.cells.setIfInBounds a.count x, count := a.count + 1 } xs

/-- `cfun_array_concat` -/
def Arr.concat (a : Arr) : List Part → Arr × Outcome Val
  | [] => (a, .ok)
  | p :: ps =>
    let r := match p with
      | .one v => a.pushAll [some v]
      | .many vs => a.pushAll vs
      | .other vs srcNull =>
        -- `array->data == vals` also holds for two arrays without storage (both NULL)
        if a.isNull && srcNull then
          match a.ensure (a.count + a.count) 2 with
          | none => (a, .oom)
          | some a' => a'.pushAll a.items
        else a.pushAll vs
      | .self =>
        -- `if (array->data == vals) { ensure(count + len, 2); view again }`: len is read before pushing
        match a.ensure (a.count + a.count) 2 with
        | none => (a, .oom)
        | some a' => a'.pushAll a.items
    match r.2 with
    | .ok => r.1.concat ps
    | o => (r.1, o)

/-- `cfun_array_join`: like array/concat, but a part that is not an array / tuple raises "expected indexed type"
(after the earlier parts were appended) -/
def Arr.join (a : Arr) : List Part → Arr × Outcome Val
  | [] => (a, .ok)
  | p :: ps =>
    let r : Arr × Outcome Val := match p with
      | .one _ => (a, .err)
      | .many vs => a.pushAll vs
      | .other vs srcNull =>
        if a.isNull && srcNull then
          match a.ensure (a.count + a.count) 2 with
          | none => (a, .oom)
          | some a' => a'.pushAll a.items
        else a.pushAll vs
      | .self =>
        match a.ensure (a.count + a.count) 2 with
        | none => (a, .oom)
        | some a' => a'.pushAll a.items
    match r.2 with
    | .ok => r.1.join ps
    | o => (r.1, o)

/-- `janet_put` on an array -/
def Arr.put (a : Arr) (key : Arg) (v : Val) : Arr × Outcome Val :=
  match getterCheckint key (i32max - 1) with
  | none => (a, .err)
  | some index =>
    let r := if index ≥ a.count then a.setcount (index + 1) else (a, .ok)
    match r.2 with
    | .ok => ({ r.1 with cells := r.1.cells.setIfInBounds index.toNat (some v) }, .ok)
    | o => (r.1, o)

/-- `janet_putindex` on an array (`index` is a C `int32_t`; negative indexes do not reach this code from bytecode).
`fills` = whether the source nil-fills the cells between the old count and `index` (Gen/Seq.lean
`putindexFillsArrayGap`) -/
def Arr.putindexWith (fills : Bool) (a : Arr) (index : Int) (v : Val) : Arr × Outcome Val :=
  if index < 0 then (a, .ub)
  else if index ≥ a.count then
    if index + 1 > i32max then (a, .ub)
    else match a.ensure (index + 1) putindexGrowth with
      | none => (a, .oom)
      | some a' =>
        let cells := if fills then writeAt a'.cells a.count (List.replicate (index.toNat - a.count) (some vNil)) else a'.cells
        ({ a' with count := index.toNat + 1, cells := cells.setIfInBounds index.toNat (some v) }, .ok)
  else ({ a with cells := a.cells.setIfInBounds index.toNat (some v) }, .ok)

def Arr.putindex (a : Arr) (index : Int) (v : Val) : Arr × Outcome Val :=
  Arr.putindexWith putindexFillsArrayGap a index v

/-- `janet_get` on an array -/
def Arr.get (a : Arr) (key : Arg) : Outcome Val :=
  match key with
  | .int n => if n < 0 then .val (some vNil) else if n ≥ a.count then .val (some vNil) else .val (a.cells.getD n.toNat none)
  | _ => .val (some vNil)

/-- `janet_in` on an array -/
def Arr.in (a : Arr) (key : Arg) : Outcome Val :=
  match getterCheckint key a.count with
  | none => .err
  | some i => .val (a.cells.getD i.toNat none)

/-- `janet_getindex` on an array -/
def Arr.getindex (a : Arr) (index : Int) : Outcome Val :=
  if index < 0 then .err else if index ≥ a.count then .val (some vNil) else .val (a.cells.getD index.toNat none)

/-- `janet_next` on an indexed / bytes value of length `len` -/
def seqNext (len : Nat) (key : Arg) : Outcome Val :=
  match key with
  | .nil => if (0 : Int) < len then .num 0 else .val (some vNil)
  | .int n =>
    if n = i32max then .ub          -- `janet_unwrap_integer(key) + 1` overflows
    else if n + 1 < len ∧ n + 1 ≥ 0 then .num (n + 1) else .val (some vNil)
  | .bad => .val (some vNil)

/-! ### buffers (buffer.c) -/

structure Buf where
  count : Nat
  capacity : Int
  cells : Array (Option Nat)     -- bytes
  deriving Repr, Inhabited

def Buf.items (b : Buf) : List (Option Nat) := readAt b.cells 0 b.count

/-- `janet_buffer(capacity)` -/
def Buf.new (capacity : Int) : Buf :=
  let c := if capacity < bufferMinCap then bufferMinCap else capacity
  { count := 0, capacity := c, cells := Array.replicate c.toNat none }

/-- `janet_buffer_ensure` -/
def Buf.ensure (b : Buf) (capacity growth : Int) : Option Buf :=
  if capacity ≤ b.capacity then some b
  else
    let big := capacity * growth
    let nc := if big > i32max then i32max else big
    if nc ≤ 0 then none
    else some { b with capacity := nc, cells := realloc b.cells nc.toNat }

/-- `janet_buffer_setcount` -/
def Buf.setcount (b : Buf) (count : Int) : Buf × Outcome Nat :=
  if count < 0 then (b, .ok)
  else if count > b.count then
    match b.ensure count bufferSetcountGrowth with
    | none => (b, .oom)
    | some b' =>
      ({ b' with cells := writeAt b'.cells b.count (List.replicate (count.toNat - b.count) (some 0)), count := count.toNat }, .ok)
  else ({ b with count := count.toNat }, .ok)

/-- `janet_buffer_extra` -/
def Buf.extra (b : Buf) (n : Int) : Buf × Outcome Nat :=
  if n + b.count > i32max then (b, .err)
  else
    let newSize : Int := b.count + n
    if newSize > b.capacity then
      let nc : Int := if newSize > i32max / bufferExtraGrowth then i32max else newSize * bufferExtraGrowth
      if nc ≤ 0 then (b, .oom)
      else ({ b with capacity := nc, cells := realloc b.cells nc.toNat }, .ok)
    else (b, .ok)

/-- `janet_buffer_push_bytes` -/
def Buf.pushBytes (b : Buf) (bytes : List (Option Nat)) : Buf × Outcome Nat :=
  if bytes.length = 0 then (b, .ok)
  else
    let r := b.extra bytes.length
    match r.2 with
    | .ok => ({ r.1 with cells := writeAt r.1.cells b.count bytes, count := b.count + bytes.length }, .ok)
    | o => (r.1, o)

/-- `janet_buffer_push_u8` -/
def Buf.pushU8 (b : Buf) (byte : Nat) : Buf × Outcome Nat :=
  let r := b.extra 1
  match r.2 with
  | .ok => ({ r.1 with cells := r.1.cells.setIfInBounds b.count (some byte), count := b.count + 1 }, .ok)
  | o => (r.1, o)

/-- `x & 0xFF` of an `int32_t` -/
def lowByte (n : Int) : Nat := (n % 256).toNat

/-- an argument of buffer/push and friends -/
inductive BArg where
  | int (n : Int)                 -- integer (checkint passes)
  | badnum                        -- a number that is not a 32-bit integer
  | bytes (bs : List Nat)         -- string / keyword / symbol / other buffer
  | self                          -- the destination buffer itself
  | bad                           -- not a byte sequence
  deriving Repr

/-- a byte-sequence argument that is the destination buffer itself (`view.bytes == buffer->data`): room is made
first, then the view is taken again.  `safe` = which of the two recognised source shapes is present (Gen/Seq.lean
`pushSelfNoOverflow`): `janet_buffer_extra(buffer, view.len)` (true: 64-bit overflow test, then the same doubling) or
`janet_buffer_ensure(buffer, buffer->count + view.len, 2)` (false: the sum is computed in `int32_t`, and when
`count + len` exceeds INT32_MAX the behaviour is undefined: `ub`) -/
def Buf.pushSelfWith (safe : Bool) (b : Buf) : Buf × Outcome Nat :=
  if safe then
    let r := b.extra b.count
    match r.2 with
    | .ok => r.1.pushBytes b.items
    | o => (r.1, o)
  else if (b.count : Int) + b.count > i32max then (b, .ub)
  else
    match b.ensure (b.count + b.count) 2 with
    | none => (b, .oom)
    | some b' => b'.pushBytes b.items

def Buf.pushSelf (b : Buf) : Buf × Outcome Nat := Buf.pushSelfWith pushSelfNoOverflow b

/-- `buffer_push_impl` over the remaining arguments -/
def Buf.pushImpl (b : Buf) : List BArg → Buf × Outcome Nat
  | [] => (b, .ok)
  | x :: xs =>
    let r : Buf × Outcome Nat := match x with
      | .int n => b.pushU8 (lowByte n)
      | .badnum => (b, .err)
      | .bad => (b, .err)
      | .bytes bs => b.pushBytes (bs.map some)
      | .self => b.pushSelf
    match r.2 with
    | .ok => r.1.pushImpl xs
    | o => (r.1, o)

/-- `cfun_buffer_push_at` -/
def Buf.pushAt (b : Buf) (index : Arg) (xs : List BArg) : Buf × Outcome Nat :=
  match getInteger index with
  | none => (b, .err)
  | some index =>
    if index < 0 ∨ index > b.count then (b, .err)
    else
      let r := Buf.pushImpl { b with count := index.toNat } xs
      -- on a panic inside push_impl the truncated count stays (longjmp skips the restore)
      match r.2 with
      | .ok => (if r.1.count < b.count then { r.1 with count := b.count } else r.1, .ok)
      | o => (r.1, o)

/-- `cfun_buffer_u8` (buffer/push-byte) -/
def Buf.pushByteArgs (b : Buf) : List BArg → Buf × Outcome Nat
  | [] => (b, .ok)
  | .int n :: xs =>
    let r := b.pushU8 (lowByte n)
    (match r.2 with
    | .ok => r.1.pushByteArgs xs
    | o => (r.1, o))
  | _ :: _ => (b, .err)

/-- `cfun_buffer_chars` (buffer/push-string) -/
def Buf.pushStringArgs (b : Buf) : List BArg → Buf × Outcome Nat
  | [] => (b, .ok)
  | x :: xs =>
    let r : Buf × Outcome Nat := match x with
      | .bytes bs => b.pushBytes (bs.map some)
      | .self => b.pushSelf
      | _ => (b, .err)
    match r.2 with
    | .ok => r.1.pushStringArgs xs
    | o => (r.1, o)

/-- the four bytes of a `uint32_t`, little endian -/
def wordBytes (w : Nat) : List Nat := [w % 256, w / 256 % 256, w / 65536 % 256, w / 16777216 % 256]

/-- `janet_buffer_push_u32` -/
def Buf.pushU32 (b : Buf) (w : Nat) : Buf × Outcome Nat :=
  let r := b.extra 4
  match r.2 with
  | .ok => ({ r.1 with cells := writeAt r.1.cells b.count ((wordBytes w).map some), count := b.count + 4 }, .ok)
  | o => (r.1, o)

/-- an argument of buffer/push-word: a number equal to its `uint32_t` conversion, or anything else -/
inductive WArg where
  | word (w : Nat)       -- 0 ≤ w < 2^32
  | bad
  deriving Repr

/-- `cfun_buffer_word` (buffer/push-word) -/
def Buf.pushWordArgs (b : Buf) : List WArg → Buf × Outcome Nat
  | [] => (b, .ok)
  | .word w :: xs =>
    let r := b.pushU32 w
    (match r.2 with
    | .ok => r.1.pushWordArgs xs
    | o => (r.1, o))
  | .bad :: _ => (b, .err)

/-- the bit-index argument of buffer/bit*: a number that is an integer within `int64_t`, or anything else -/
inductive BitArg where
  | idx (n : Int)
  | bad
  deriving Repr

/-- `bitloc`: (byte index, bit number) or `none` = "invalid bit index" -/
def Buf.bitloc (b : Buf) (x : BitArg) : Option (Nat × Nat) :=
  match x with
  | .bad => none
  | .idx bitindex =>
    let byteindex := bitindex / 8          -- `bitindex >> 3`
    let which := bitindex % 8              -- `bitindex & 7`
    if bitindex < 0 ∨ byteindex ≥ b.count then none else some (byteindex.toNat, which.toNat)

/-- read-modify-write of `buffer->data[index]` -/
def Buf.modByte (b : Buf) (i : Nat) (f : Nat → Nat) : Buf :=
  { b with cells := b.cells.setIfInBounds i ((b.cells.getD i none).map f) }

/-- `cfun_buffer_bitset`: `data[index] |= 1 << bit` -/
def Buf.bitSet (b : Buf) (x : BitArg) : Buf × Outcome Nat :=
  match b.bitloc x with
  | none => (b, .err)
  | some (i, bit) => (b.modByte i (fun v => v ||| (1 <<< bit)), .ok)

/-- `cfun_buffer_bitclear`: `data[index] &= ~(1 << bit)` (on a byte) -/
def Buf.bitClear (b : Buf) (x : BitArg) : Buf × Outcome Nat :=
  match b.bitloc x with
  | none => (b, .err)
  | some (i, bit) => (b.modByte i (fun v => v &&& (255 ^^^ (1 <<< bit))), .ok)

/-- `cfun_buffer_bittoggle`: `data[index] ^= 1 << bit` -/
def Buf.bitToggle (b : Buf) (x : BitArg) : Buf × Outcome Nat :=
  match b.bitloc x with
  | none => (b, .err)
  | some (i, bit) => (b.modByte i (fun v => v ^^^ (1 <<< bit)), .ok)

/-- `cfun_buffer_bitget`: `.num 1` = true, `.num 0` = false; `.val none` = an uninitialised byte was read -/
def Buf.bitGet (b : Buf) (x : BitArg) : Outcome Nat :=
  match b.bitloc x with
  | none => .err
  | some (i, bit) =>
    match b.cells.getD i none with
    | some v => .num (if v &&& (1 <<< bit) ≠ 0 then 1 else 0)
    | none => .val none

/-- `janet_getinteger` on every argument in turn (`none` = one of them panics) -/
def getIntegers : List Arg → Option (List Int)
  | [] => some []
  | a :: rest =>
    match getInteger a, getIntegers rest with
    | some n, some ns => some (n :: ns)
    | _, _ => none

/-- `cfun_buffer_frombytes` -/
def Buf.fromBytes (args : List Arg) : Option Buf :=
  match getIntegers args with
  | none => none
  | some ns =>
    let b := Buf.new ns.length
    some { b with cells := writeAt b.cells 0 ((ns.map lowByte).map some), count := ns.length }

/-- `cfun_buffer_popn` -/
def Buf.popn (b : Buf) (n : Arg) : Buf × Outcome Nat :=
  match getInteger n with
  | none => (b, .err)
  | some n => if n < 0 then (b, .err) else if (b.count : Int) < n then ({ b with count := 0 }, .ok) else ({ b with count := b.count - n.toNat }, .ok)

/-- the optional byte argument of buffer/fill and buffer/new-filled: default 0 when absent (argc too small),
`janet_getinteger(...) & 0xFF` otherwise (`none` = panic) -/
def byteArg (byte : Option Arg) : Option Nat :=
  match byte with
  | none => some 0
  | some x => (getInteger x).map lowByte

/-- `cfun_buffer_fill`; `byte = none` when argc = 1 -/
def Buf.fill (b : Buf) (byte : Option Arg) : Buf × Outcome Nat :=
  match byteArg byte with
  | none => (b, .err)
  | some v => ({ b with cells := writeAt b.cells 0 (List.replicate b.count (some v)) }, .ok)

/-- `cfun_buffer_trim` -/
def Buf.trim (b : Buf) : Buf × Outcome Nat :=
  if (b.count : Int) < b.capacity then
    let nc : Nat := if (b.count : Int) > bufferTrimMin then b.count else bufferTrimMin.toNat
    ({ b with capacity := nc, cells := realloc b.cells nc }, .ok)
  else (b, .ok)

def Buf.clear (b : Buf) : Buf × Outcome Nat := ({ b with count := 0 }, .ok)

/-- `cfun_buffer_new_filled` -/
def Buf.newFilled (count : Arg) (byte : Option Arg) : Option Buf :=
  match getInteger count with
  | none => none
  | some c =>
    let c := if c < 0 then 0 else c
    match byteArg byte with
    | none => none
    | some v =>
      let b := Buf.new c
      some { b with cells := writeAt b.cells 0 (List.replicate c.toNat (some v)), count := c.toNat }

/-- `cfun_buffer_slice` over a byte view -/
def bsliceOf (items : List (Option Nat)) (s e : Option Arg) : Option Buf :=
  match getSlice items.length s e with
  | none => none
  | some (st, en) =>
    let n := en - st
    let b := Buf.new n
    some { b with cells := writeAt b.cells 0 ((items.drop st.toNat).take n.toNat), count := n.toNat }

/-- the copying part of `cfun_buffer_blit` once the three offsets are decoded -/
def Buf.blitCore (dest : Buf) (src : Option (List (Option Nat))) (srcLen : Nat) (offsetDest offsetSrc lengthSrc : Int) :
    Buf × Outcome Nat :=
  let last := offsetDest + lengthSrc
  if last > i32max then (dest, .err)
  else match dest.ensure last 2 with
    | none => (dest, .oom)
    | some d' =>
      let cnt := if last > d'.count then last.toNat else d'.count
      -- memmove / memcpy: source bytes are read before any is written (same buffer: after the realloc)
      let srcNow := match src with | none => readAt d'.cells 0 srcLen | some l => l
      let bytes := (srcNow.drop offsetSrc.toNat).take lengthSrc.toNat
      ({ d' with count := cnt, cells := writeAt d'.cells offsetDest.toNat bytes }, .ok)

/-- an optional half-range argument `argc > n && !janet_checktype(argv[n], JANET_NIL) ? janet_gethalfrange(...) : dflt` -/
def optHalf (a : Option Arg) (length dflt : Int) : Option Int :=
  match a with
  | none => some dflt
  | some .nil => some dflt
  | some x => getHalfRange x length

/-- the three decoded quantities of `cfun_buffer_blit`: (offset_dest, offset_src, length_src); `none` = a panic in
`janet_gethalfrange`.  `argc4` = whether a fifth argument was supplied at all -/
def blitDecode (dlen slen : Int) (ds ss : Option Arg) (argc4 : Bool) (se : Option Arg) : Option (Int × Int × Int) :=
  match optHalf ds dlen 0 with
  | none => none
  | some od =>
    match optHalf ss slen 0 with
    | none => none
    | some os =>
      if argc4 then
        match optHalf se slen slen with
        | none => none
        | some e => some (od, os, if e - os < 0 then 0 else e - os)
      else some (od, os, slen - os)

/-- `cfun_buffer_blit(dest, src, dest-start, src-start, src-end)`; `src = none` means src is dest itself
(`same_buf = src.bytes == dest->data`) -/
def Buf.blit (dest : Buf) (src : Option (List (Option Nat))) (ds ss : Option Arg) (argc4 : Bool) (se : Option Arg) : Buf × Outcome Nat :=
  let srcItems := match src with | none => dest.items | some l => l
  match blitDecode dest.count srcItems.length ds ss argc4 se with
  | none => (dest, .err)
  | some (od, os, ls) => dest.blitCore src srcItems.length od os ls

/-- `janet_put` on a buffer; `value` must pass `janet_checkint` -/
def Buf.put (b : Buf) (key : Arg) (value : Arg) : Buf × Outcome Nat :=
  match getterCheckint key (i32max - 1) with
  | none => (b, .err)
  | some index =>
    match getInteger value with
    | none => (b, .err)
    | some v =>
      let r := if index ≥ b.count then b.setcount (index + 1) else (b, .ok)
      match r.2 with
      | .ok => ({ r.1 with cells := r.1.cells.setIfInBounds index.toNat (some (lowByte v)) }, .ok)
      | o => (r.1, o)

/-- `janet_putindex` on a buffer -/
def Buf.putindexWith (fills : Bool) (b : Buf) (index : Int) (value : Arg) : Buf × Outcome Nat :=
  match getInteger value with
  | none => (b, .err)
  | some v =>
    if index < 0 then (b, .ub)
    else if index ≥ b.count then
      if index + 1 > i32max then (b, .ub)
      else match b.ensure (index + 1) putindexGrowth with
        | none => (b, .oom)
        | some b' =>
          let cells := if fills then writeAt b'.cells b.count (List.replicate (index.toNat - b.count) (some 0)) else b'.cells
          ({ b' with count := index.toNat + 1, cells := cells.setIfInBounds index.toNat (some (lowByte v)) }, .ok)
    else ({ b with cells := b.cells.setIfInBounds index.toNat (some (lowByte v)) }, .ok)

def Buf.putindex (b : Buf) (index : Int) (value : Arg) : Buf × Outcome Nat :=
  Buf.putindexWith putindexFillsBufferGap b index value

/-- `janet_get` on a buffer; `.ok` stands for a nil result -/
def Buf.get (b : Buf) (key : Arg) : Outcome Nat :=
  match key with
  | .int n => if n < 0 then .ok else if n ≥ b.count then .ok else .val (b.cells.getD n.toNat none)
  | _ => .ok

def Buf.in (b : Buf) (key : Arg) : Outcome Nat :=
  match getterCheckint key b.count with
  | none => .err
  | some i => .val (b.cells.getD i.toNat none)

def Buf.getindex (b : Buf) (index : Int) : Outcome Nat :=
  if index < 0 then .err else if index ≥ b.count then .ok else .val (b.cells.getD index.toNat none)

end JanetModel.Seq
