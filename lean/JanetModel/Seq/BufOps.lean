/-
Session 3: buffers, second part — buffer/push-at, `janet_put` / `janet_putindex` on buffers, buffer/trim, clear,
new-filled, from-bytes, slice, fill, the argument decoding of buffer/blit, buffer/bit*.
-/
import JanetModel.Seq.BufLemmas
namespace JanetModel.Seq
open JanetModel.Gen.Seq

theorem arg_of_getInteger {a : Arg} {n : Int} (h : getInteger a = some n) : a = .int n := by
  cases a with
  | int m => simp [getInteger] at h; rw [h]
  | nil => cases h
  | bad => cases h

/-! ### buffer/push-at -/

/-- the contents after `(buffer/push-at b i ;args)` on a buffer holding `xs`: the bytes from `i` on are overwritten by
what the arguments push; bytes of `xs` beyond the pushed ones stay.  When an argument fails, `count` is NOT raised
again (the C leaves through longjmp before the restore): the buffer ends right after the last pushed byte. -/
def specPushAt (xs : List Nat) (i : Nat) (args : List BArg) : List Nat × Bool :=
  let s := specPush (xs.take i) args
  if s.2 ∧ s.1.length < xs.length then (s.1 ++ xs.drop s.1.length, true) else s

/-- **buffer/push-at** (`cfun_buffer_push_at`): an ill-typed or out-of-range index raises the error with the buffer
untouched; otherwise the result is `specPushAt` -/
theorem Buf.pushAt_abs {b : Buf} {xs : List Nat} (h : b.Abs xs) (index : Arg) (args : List BArg) :
    (b.pushAt index args = (b, .err) ∧ ∀ i : Int, index = .int i → i < 0 ∨ i > xs.length) ∨
    ∃ i : Int, index = .int i ∧ 0 ≤ i ∧ i ≤ xs.length ∧
      (b.pushAt index args).2 = (if (specPushAt xs i.toNat args).2 then .ok else .err) ∧
      (b.pushAt index args).1.Abs (specPushAt xs i.toNat args).1 := by
  unfold Buf.pushAt
  have hce := h.count_eq
  cases hg : getInteger index with
  | none =>
    left
    refine ⟨rfl, ?_⟩
    intro i hi; rw [hi] at hg; simp [getInteger] at hg
  | some i =>
    have hidx := arg_of_getInteger hg
    simp only []
    by_cases c : i < 0 ∨ i > (b.count : Int)
    · left
      rw [if_pos c]
      refine ⟨rfl, ?_⟩
      intro j hj; rw [hidx] at hj; cases hj; omega
    · right
      rw [if_neg c]
      refine ⟨i, hidx, by omega, by omega, ?_⟩
      have hT := h.truncate i.toNat (by omega)
      have hP := Buf.pushImpl_absT args _ _ _ hT
      have hl : (xs.take i.toNat).length ≤ (specPush (xs.take i.toNat) args).1.length :=
        specPushG_len BArg.items args (xs.take i.toNat)
      have hlt : (xs.take i.toNat).length = i.toNat := by simp; omega
      obtain ⟨ho, hA⟩ := hP
      rw [List.drop_drop, hlt] at hA
      rw [hlt] at hl
      have e : i.toNat + ((specPush (xs.take i.toNat) args).1.length - i.toNat) = (specPush (xs.take i.toNat) args).1.length := by
        omega
      have e' : (specPush (xs.take i.toNat) args).1.length - i.toNat + i.toNat = (specPush (xs.take i.toNat) args).1.length := by
        omega
      have hA' : (Buf.pushImpl { b with count := i.toNat } args).1.AbsT (specPush (xs.take i.toNat) args).1
          (xs.drop (specPush (xs.take i.toNat) args).1.length) := by
        first
          | (rw [e] at hA; exact hA)
          | (rw [e'] at hA; exact hA)
      clear e e' hA
      unfold specPushAt
      generalize hS : specPush (xs.take i.toNat) args = S at ho hA' hl ⊢
      obtain ⟨s1, s2⟩ := S
      simp only [] at ho hA' hl ⊢
      rw [ho]
      cases s2 with
      | false =>
        simp only [Bool.false_eq_true, false_and, if_false]
        exact ⟨by first | rfl | trivial, hA'.toAbs⟩
      | true =>
        simp only [true_and, if_true]
        have hcnt := hA'.count_eq
        by_cases cl : s1.length < xs.length
        · have cl' : (Buf.pushImpl { b with count := i.toNat } args).1.count < b.count := by omega
          rw [if_pos cl', if_pos cl]
          refine ⟨by first | rfl | trivial, ⟨?_, hA'.rep, hA'.cap, hA'.fits, hA'.pos⟩⟩
          simp; omega
        · have cl' : ¬ (Buf.pushImpl { b with count := i.toNat } args).1.count < b.count := by omega
          rw [if_neg cl', if_neg cl]
          exact ⟨by first | rfl | trivial, hA'.toAbs⟩

/-! ### `janet_put` / `janet_putindex` on a buffer -/

theorem key_of_checkint {key : Arg} {m i : Int} (hc : getterCheckint key m = some i) : key = .int i := by
  unfold getterCheckint at hc
  cases key with
  | int n =>
    simp only [] at hc
    by_cases c1 : n < 0
    · rw [if_pos c1] at hc; cases hc
    · rw [if_neg c1] at hc
      by_cases c2 : n ≥ m
      · rw [if_pos c2] at hc; cases hc
      · rw [if_neg c2] at hc; cases hc; rfl
  | nil => cases hc
  | bad => cases hc

theorem rep_set_at {α : Type} {cells : Array (Option α)} {xs : List α} (r : Rep cells xs) (i : Nat) (v : α)
    (hi : i < xs.length) : Rep (cells.setIfInBounds i (some v)) (xs.set i v) := by
  intro j hj
  rw [Array.getElem?_setIfInBounds]
  have hlen : j < xs.length := by simpa using hj
  have hsz := r.len_le
  by_cases hji : i = j
  · subst hji
    have : i < cells.size := by omega
    simp [this, hlen]
  · simp [hji, r j hlen]

/-- **`janet_put` on a buffer**: an ill-typed / negative / too large key or a value that is not a 32-bit integer raises
the error with the buffer untouched; a key past the end first extends the buffer with zero bytes -/
theorem Buf.put_abs {b : Buf} {xs : List Nat} (h : b.Abs xs) (key value : Arg) :
    (b.put key value = (b, .err)) ∨
    ∃ i v : Int, key = .int i ∧ value = .int v ∧ 0 ≤ i ∧ i < i32max - 1 ∧ (b.put key value).2 = .ok ∧
      (b.put key value).1.Abs
        ((if i ≥ xs.length then xs ++ List.replicate (i.toNat + 1 - xs.length) 0 else xs).set i.toNat (lowByte v)) := by
  unfold Buf.put
  have hce := h.count_eq
  cases hc : getterCheckint key (i32max - 1) with
  | none => left; rfl
  | some i =>
    simp only []
    cases hv : getInteger value with
    | none => left; rfl
    | some v =>
      right
      have hb := checkint_bounds key _ i hc
      refine ⟨i, v, key_of_checkint hc, arg_of_getInteger hv, hb.1, hb.2, ?_⟩
      simp only []
      by_cases c : i ≥ (b.count : Int)
      · have c' : i ≥ (xs.length : Int) := by omega
        rw [if_pos c, if_pos c']
        have hs := Buf.setcount_abs h (i + 1) (by have := i32max_eq; omega)
        have e1 : ¬ (i + 1 < 0) := by omega
        have e2 : i + 1 > (xs.length : Int) := by omega
        rw [if_neg e1, if_pos e2] at hs
        rw [hs.1]
        simp only []
        have hA := hs.2
        have e3 : (i + 1).toNat - xs.length = i.toNat + 1 - xs.length := by omega
        rw [e3] at hA
        refine ⟨by first | rfl | trivial, ⟨?_, ?_, by simpa using hA.cap, hA.fits, hA.pos⟩⟩
        · simp [hA.count_eq]
        · exact rep_set_at hA.rep _ _ (by simp; omega)
      · have c' : ¬ i ≥ (xs.length : Int) := by omega
        rw [if_neg c, if_neg c']
        refine ⟨by first | rfl | trivial, ⟨by simp [hce], ?_, by simpa using h.cap, h.fits, h.pos⟩⟩
        exact rep_set_at h.rep _ _ (by omega)

/-- **`janet_putindex` on a buffer** (gap-filling source shape): in range it overwrites, past the end it extends with
zero bytes up to the index; a value that is not a 32-bit integer raises the error with the buffer untouched -/
theorem Buf.putindex_abs {b : Buf} {xs : List Nat} (h : b.Abs xs) (index : Int) (value : Arg)
    (h0 : 0 ≤ index) (h1 : index < i32max) :
    (b.putindex index value = (b, .err) ∧ getInteger value = none) ∨
    ∃ v : Int, value = .int v ∧ (b.putindex index value).2 = .ok ∧
      (b.putindex index value).1.Abs (if index ≥ xs.length then xs ++ List.replicate (index.toNat - xs.length) 0 ++ [lowByte v]
                                       else xs.set index.toNat (lowByte v)) := by
  unfold Buf.putindex Buf.putindexWith
  simp only [putindexFillsBufferGap]
  have hce := h.count_eq
  cases hv : getInteger value with
  | none => left; exact ⟨rfl, rfl⟩
  | some v =>
    right
    refine ⟨v, arg_of_getInteger hv, ?_⟩
    simp only []
    have hn0 : ¬ index < 0 := by omega
    rw [if_neg hn0]
    by_cases c : index ≥ (b.count : Int)
    · have c' : index ≥ (xs.length : Int) := by omega
      rw [if_pos c, if_pos c']
      have hn1 : ¬ index + 1 > i32max := by omega
      rw [if_neg hn1]
      obtain ⟨b', he, hb', hcc, hcnt⟩ := Buf.ensure_abs h (index + 1) putindexGrowth growth_facts.2.2.2.2 (by omega)
      rw [he]
      simp only [if_true]
      have hsz : index.toNat + 1 ≤ b'.cells.size := by have := hb'.cap; have := hb'.pos; omega
      have r1 := rep_write_append hb'.rep (List.replicate (index.toNat - xs.length) 0) (by simp; omega)
      have hl1 : (xs ++ List.replicate (index.toNat - xs.length) 0).length = index.toNat := by simp; omega
      have r2 := rep_set_push r1 (lowByte v) (by rw [hl1, size_writeAt]; omega)
      rw [hl1] at r2
      refine ⟨by first | rfl | trivial, ⟨?_, ?_, ?_, hb'.fits, hb'.pos⟩⟩
      · simp; omega
      · simp only []
        rw [hce]
        simpa using r2
      · simpa [size_writeAt] using hb'.cap
    · have c' : ¬ index ≥ (xs.length : Int) := by omega
      rw [if_neg c, if_neg c']
      refine ⟨rfl, ⟨by simp [hce], ?_, by simpa using h.cap, h.fits, h.pos⟩⟩
      exact rep_set_at h.rep _ _ (by omega)

/-! ### trim / clear / new-filled / from-bytes / fill / slice -/

theorem trim_facts : (0 : Int) < bufferTrimMin ∧ bufferTrimMin ≤ i32max := by decide

/-- **buffer/trim**: contents kept, capacity becomes `max count bufferTrimMin` (never below the count) -/
theorem Buf.trim_abs {b : Buf} {xs : List Nat} (h : b.Abs xs) :
    (b.trim).2 = .ok ∧ (b.trim).1.Abs xs ∧
      (b.trim).1.capacity = (if (b.count : Int) < b.capacity then max (b.count : Int) bufferTrimMin else b.capacity) := by
  unfold Buf.trim
  have hce := h.count_eq
  have hf := trim_facts
  have hle := h.count_le
  have hfit := h.fits
  by_cases h1 : (b.count : Int) < b.capacity
  · rw [if_pos h1, if_pos h1]
    simp only []
    generalize hnc : (if (b.count : Int) > bufferTrimMin then b.count else bufferTrimMin.toNat) = nc
    have hnc1 : (nc : Int) = max (b.count : Int) bufferTrimMin := by
      by_cases h2 : (b.count : Int) > bufferTrimMin
      · rw [if_pos h2] at hnc; omega
      · rw [if_neg h2] at hnc; omega
    refine ⟨by first | rfl | trivial, ⟨hce, rep_realloc h.rep _ (by omega), ?_, ?_, ?_⟩, hnc1⟩
    · show (realloc b.cells nc).size = ((nc : Nat) : Int).toNat
      rw [size_realloc]; omega
    · show ((nc : Nat) : Int) ≤ i32max
      omega
    · show 0 < ((nc : Nat) : Int)
      omega
  · rw [if_neg h1, if_neg h1]; exact ⟨rfl, h, rfl⟩

/-- **buffer/clear** -/
theorem Buf.clear_abs {b : Buf} {xs : List Nat} (h : b.Abs xs) : (b.clear).2 = .ok ∧ (b.clear).1.Abs [] :=
  ⟨rfl, ⟨rfl, rep_nil _, h.cap, h.fits, h.pos⟩⟩

/-- **buffer/fill**, every argument shape: an ill-typed byte raises the error with the buffer untouched -/
theorem Buf.fill_abs_all {b : Buf} {xs : List Nat} (h : b.Abs xs) (byte : Option Arg) :
    (byteArg byte = none ∧ b.fill byte = (b, .err)) ∨
    ∃ v, byteArg byte = some v ∧ (b.fill byte).2 = .ok ∧ (b.fill byte).1.Abs (List.replicate xs.length v) := by
  unfold Buf.fill
  cases hb : byteArg byte with
  | none => left; exact ⟨rfl, rfl⟩
  | some v =>
    right
    refine ⟨v, rfl, by first | rfl | trivial, ⟨by simp [h.count_eq], ?_, by simpa [size_writeAt] using h.cap, h.fits, h.pos⟩⟩
    have := rep_write_append (rep_nil b.cells) (List.replicate b.count v) (by
      have := h.rep.len_le; have := h.count_eq; simp; omega)
    simpa [h.count_eq] using this

theorem Buf.new_cap (c : Int) : c ≤ (Buf.new c).capacity := by
  unfold Buf.new
  simp only []
  by_cases hc : c < bufferMinCap
  · rw [if_pos hc]; omega
  · rw [if_neg hc]; omega

/-- a fresh buffer of capacity ≥ `ys.length` filled with `ys` from cell 0 -/
theorem Buf.new_filled_with (c : Int) (hc : c ≤ i32max) (ys : List Nat) (hy : (ys.length : Int) ≤ max c 0) :
    Buf.Abs { Buf.new c with cells := writeAt (Buf.new c).cells 0 (ys.map some), count := ys.length } ys := by
  have hN := Buf.new_abs c hc
  have hcap := Buf.new_cap c
  have hsz := hN.cap
  have hpos := hN.pos
  refine ⟨rfl, ?_, by simpa [size_writeAt] using hN.cap, hN.fits, hN.pos⟩
  have := rep_write_append (rep_nil (Buf.new c).cells) ys (by simp; omega)
  simpa using this

/-- **buffer/new-filled**: ill-typed arguments raise; a negative count gives the empty buffer -/
theorem Buf.newFilled_abs (count : Arg) (byte : Option Arg) (hc : ∀ n, count = .int n → n ≤ i32max) :
    (Buf.newFilled count byte = none ∧ (getInteger count = none ∨ byteArg byte = none)) ∨
    ∃ n v r, count = .int n ∧ byteArg byte = some v ∧ Buf.newFilled count byte = some r ∧
      r.Abs (List.replicate (max n 0).toNat v) := by
  unfold Buf.newFilled
  cases hg : getInteger count with
  | none => left; exact ⟨rfl, Or.inl rfl⟩
  | some n =>
    have hcnt := arg_of_getInteger hg
    have hn := hc n hcnt
    simp only []
    cases hb : byteArg byte with
    | none => left; exact ⟨rfl, Or.inr rfl⟩
    | some v =>
      right
      refine ⟨n, v, _, hcnt, rfl, rfl, ?_⟩
      have e : (if n < 0 then 0 else n) = max n 0 := by
        by_cases c : n < 0
        · rw [if_pos c]; omega
        · rw [if_neg c]; omega
      rw [e]
      have := Buf.new_filled_with (max n 0) (by have := i32max_eq; omega) (List.replicate (max n 0).toNat v) (by simp)
      simpa using this

theorem getIntegers_length : ∀ (args : List Arg) (ns : List Int), getIntegers args = some ns → ns.length = args.length := by
  intro args
  induction args with
  | nil => intro ns h; simp [getIntegers] at h; subst h; rfl
  | cons a rest ih =>
    intro ns h
    unfold getIntegers at h
    cases ha : getInteger a with
    | none => rw [ha] at h; simp at h
    | some n =>
      cases hr : getIntegers rest with
      | none => rw [ha, hr] at h; simp at h
      | some ms =>
        rw [ha, hr] at h
        simp only [Option.some.injEq] at h
        rw [← h]
        simp [ih ms hr]

/-- **buffer/from-bytes** -/
theorem Buf.fromBytes_abs (args : List Arg) (hl : (args.length : Int) ≤ i32max) :
    (Buf.fromBytes args = none ∧ getIntegers args = none) ∨
    ∃ ns r, getIntegers args = some ns ∧ ns.length = args.length ∧ Buf.fromBytes args = some r ∧ r.Abs (ns.map lowByte) := by
  unfold Buf.fromBytes
  cases hm : getIntegers args with
  | none => left; exact ⟨rfl, rfl⟩
  | some ns =>
    right
    have hlen : ns.length = args.length := getIntegers_length args ns hm
    refine ⟨ns, _, rfl, hlen, rfl, ?_⟩
    have := Buf.new_filled_with (ns.length : Int) (by omega) (ns.map lowByte) (by simp)
    simpa using this

/-- **buffer/slice** on a byte view holding `xs`: a fresh buffer with `xs[start, end)`, or the error -/
theorem bsliceOf_abs (xs : List Nat) (hx : (xs.length : Int) ≤ i32max) (s e : Option Arg) :
    (bsliceOf (xs.map some) s e = none ∧ getSlice xs.length s e = none) ∨
    ∃ st en r, getSlice xs.length s e = some (st, en) ∧ 0 ≤ st ∧ st ≤ en ∧ en ≤ xs.length ∧
      bsliceOf (xs.map some) s e = some r ∧ r.Abs ((xs.drop st.toNat).take (en - st).toNat) := by
  unfold bsliceOf
  simp only [List.length_map]
  cases hg : getSlice xs.length s e with
  | none => left; exact ⟨rfl, rfl⟩
  | some p =>
    obtain ⟨st, en⟩ := p
    right
    have hb := slice_bounds xs.length (by omega) s e st en hg
    refine ⟨st, en, _, rfl, hb.1, hb.2.1, hb.2.2, rfl, ?_⟩
    rw [← List.map_drop, ← List.map_take]
    have hlen : ((xs.drop st.toNat).take (en - st).toNat).length = (en - st).toNat := by simp; omega
    have := Buf.new_filled_with (en - st) (by omega) ((xs.drop st.toNat).take (en - st).toNat) (by rw [hlen]; omega)
    rw [hlen] at this
    exact this

/-! ### buffer/blit: argument decoding -/

theorem optHalf_bounds (a : Option Arg) (length dflt r : Int) (hd : 0 ≤ dflt ∧ dflt ≤ length)
    (h : optHalf a length dflt = some r) : 0 ≤ r ∧ r ≤ length := by
  unfold optHalf at h
  cases a with
  | none => cases h; exact hd
  | some x =>
    cases x with
    | nil => cases h; exact hd
    | int n => exact halfRange_bounds _ _ _ h
    | bad => exact halfRange_bounds _ _ _ h

/-- **no out-of-range copy**: whatever the three range arguments are (negative, huge, ill-typed, absent), the decoded
source range lies inside the source and the destination offset inside `[0, count]` -/
theorem blitDecode_bounds (dlen slen : Int) (hd : 0 ≤ dlen) (hs : 0 ≤ slen) (ds ss : Option Arg) (argc4 : Bool)
    (se : Option Arg) (od os ls : Int) (h : blitDecode dlen slen ds ss argc4 se = some (od, os, ls)) :
    0 ≤ od ∧ od ≤ dlen ∧ 0 ≤ os ∧ 0 ≤ ls ∧ os + ls ≤ slen := by
  unfold blitDecode at h
  cases h1 : optHalf ds dlen 0 with
  | none => rw [h1] at h; cases h
  | some od' =>
    rw [h1] at h
    simp only [] at h
    have b1 := optHalf_bounds ds dlen 0 od' ⟨Int.le_refl 0, hd⟩ h1
    cases h2 : optHalf ss slen 0 with
    | none => rw [h2] at h; cases h
    | some os' =>
      rw [h2] at h
      simp only [] at h
      have b2 := optHalf_bounds ss slen 0 os' ⟨Int.le_refl 0, hs⟩ h2
      cases argc4 with
      | false =>
        simp only [Bool.false_eq_true, if_false, Option.some.injEq, Prod.mk.injEq] at h
        obtain ⟨e1, e2, e3⟩ := h
        omega
      | true =>
        simp only [if_true] at h
        cases h3 : optHalf se slen slen with
        | none => rw [h3] at h; cases h
        | some e' =>
          rw [h3] at h
          simp only [Option.some.injEq, Prod.mk.injEq] at h
          have b3 := optHalf_bounds se slen slen e' ⟨hs, Int.le_refl _⟩ h3
          obtain ⟨e1, e2, e3⟩ := h
          by_cases c : e' - os' < 0
          · rw [if_pos c] at e3; omega
          · rw [if_neg c] at e3; omega

/-- **buffer/blit, complete** (`src = none`: the destination itself, memmove; `src = some ys`: another byte sequence):
a panic while decoding the ranges or "buffer blit out of range" leaves the buffer untouched; otherwise the decoded
chunk of the source overwrites the destination from the decoded offset on, extending it when it reaches past the end -/
theorem Buf.blit_abs {d : Buf} {xs : List Nat} (h : d.Abs xs) (src : Option (List Nat)) (ds ss : Option Arg) (argc4 : Bool)
    (se : Option Arg) :
    (d.blit (src.map (·.map some)) ds ss argc4 se = (d, .err)) ∨
    ∃ od os ls : Int, blitDecode xs.length (src.getD xs).length ds ss argc4 se = some (od, os, ls) ∧
      0 ≤ od ∧ od ≤ xs.length ∧ 0 ≤ os ∧ 0 ≤ ls ∧ os + ls ≤ (src.getD xs).length ∧ od + ls ≤ i32max ∧
      (d.blit (src.map (·.map some)) ds ss argc4 se).2 = .ok ∧
      (d.blit (src.map (·.map some)) ds ss argc4 se).1.Abs
        (xs.take od.toNat ++ ((src.getD xs).drop os.toNat).take ls.toNat ++
          xs.drop (od.toNat + (((src.getD xs).drop os.toNat).take ls.toNat).length)) := by
  unfold Buf.blit
  have hce := h.count_eq
  cases src with
  | none =>
    simp only [Option.map_none, Option.getD_none]
    rw [h.items, List.length_map, hce]
    cases hdec : blitDecode xs.length xs.length ds ss argc4 se with
    | none => left; rfl
    | some p =>
      obtain ⟨od, os, ls⟩ := p
      simp only []
      have hb := blitDecode_bounds xs.length xs.length (by omega) (by omega) ds ss argc4 se od os ls hdec
      rcases Buf.blitCore_self_abs h od os ls ⟨hb.1, hb.2.1⟩ hb.2.2.1 hb.2.2.2.1 hb.2.2.2.2 with ⟨hgt, he⟩ | ⟨hok, hA⟩
      · left; exact he
      · right
        have hfit : od + ls ≤ i32max := by
          apply Decidable.byContradiction
          intro c
          have hgt : od + ls > i32max := by omega
          unfold Buf.blitCore at hok
          simp only [] at hok
          rw [if_pos hgt] at hok
          cases hok
        exact ⟨od, os, ls, rfl, hb.1, hb.2.1, hb.2.2.1, hb.2.2.2.1, hb.2.2.2.2, hfit, hok, hA⟩
  | some ys =>
    simp only [Option.map_some, Option.getD_some, List.length_map]
    rw [hce]
    cases hdec : blitDecode xs.length ys.length ds ss argc4 se with
    | none => left; rfl
    | some p =>
      obtain ⟨od, os, ls⟩ := p
      simp only []
      have hb := blitDecode_bounds xs.length ys.length (by omega) (by omega) ds ss argc4 se od os ls hdec
      rcases Buf.blitCore_abs h ys od os ls ⟨hb.1, hb.2.1⟩ hb.2.2.1 hb.2.2.2.1 hb.2.2.2.2 with ⟨hgt, he⟩ | ⟨hok, hA⟩
      · left; exact he
      · right
        have hfit : od + ls ≤ i32max := by
          apply Decidable.byContradiction
          intro c
          have hgt : od + ls > i32max := by omega
          unfold Buf.blitCore at hok
          simp only [] at hok
          rw [if_pos hgt] at hok
          cases hok
        exact ⟨od, os, ls, rfl, hb.1, hb.2.1, hb.2.2.1, hb.2.2.2.1, hb.2.2.2.2, hfit, hok, hA⟩

/-! ### buffer/bit, bit-set, bit-clear, bit-toggle -/

/-- **in-range proof for the bit functions**: an accepted bit index addresses a byte below `count` -/
theorem Buf.bitloc_bounds (b : Buf) (x : BitArg) (i bit : Nat) (h : b.bitloc x = some (i, bit)) :
    i < b.count ∧ bit < 8 ∧ ∃ n : Int, x = .idx n ∧ 0 ≤ n ∧ n = 8 * (i : Int) + bit := by
  unfold Buf.bitloc at h
  cases x with
  | bad => cases h
  | idx n =>
    simp only [] at h
    by_cases c : n < 0 ∨ n / 8 ≥ (b.count : Int)
    · rw [if_pos c] at h; cases h
    · rw [if_neg c] at h
      simp only [Option.some.injEq, Prod.mk.injEq] at h
      obtain ⟨h1, h2⟩ := h
      refine ⟨by omega, by omega, n, rfl, by omega, by omega⟩

theorem Buf.modByte_abs {b : Buf} {xs : List Nat} (h : b.Abs xs) (i : Nat) (f : Nat → Nat) (hi : i < xs.length) :
    (b.modByte i f).Abs (xs.set i (f (xs.getD i 0))) := by
  unfold Buf.modByte
  have hg : b.cells.getD i none = some xs[i] := getD_of_rep h.rep i hi
  rw [hg]
  simp only [Option.map_some]
  have hx : xs.getD i 0 = xs[i] := by simp [List.getD, hi]
  rw [hx]
  exact ⟨by simp [h.count_eq], rep_set_at h.rep _ _ hi, by simpa using h.cap, h.fits, h.pos⟩

/-- **buffer/bit-set / bit-clear / bit-toggle**: an invalid bit index raises the error with the buffer untouched;
otherwise exactly one byte below `count` is rewritten -/
theorem Buf.bitSet_abs {b : Buf} {xs : List Nat} (h : b.Abs xs) (x : BitArg) :
    (b.bitSet x = (b, .err) ∧ b.bitloc x = none) ∨
    ∃ i bit, b.bitloc x = some (i, bit) ∧ i < xs.length ∧ bit < 8 ∧ (b.bitSet x).2 = .ok ∧
      (b.bitSet x).1.Abs (xs.set i (xs.getD i 0 ||| (1 <<< bit))) := by
  unfold Buf.bitSet
  cases hl : b.bitloc x with
  | none => left; exact ⟨rfl, rfl⟩
  | some p =>
    obtain ⟨i, bit⟩ := p
    have hb := Buf.bitloc_bounds b x i bit hl
    have hi : i < xs.length := by have := h.count_eq; omega
    right; exact ⟨i, bit, rfl, hi, hb.2.1, rfl, Buf.modByte_abs h i _ hi⟩

theorem Buf.bitClear_abs {b : Buf} {xs : List Nat} (h : b.Abs xs) (x : BitArg) :
    (b.bitClear x = (b, .err) ∧ b.bitloc x = none) ∨
    ∃ i bit, b.bitloc x = some (i, bit) ∧ i < xs.length ∧ bit < 8 ∧ (b.bitClear x).2 = .ok ∧
      (b.bitClear x).1.Abs (xs.set i (xs.getD i 0 &&& (255 ^^^ (1 <<< bit)))) := by
  unfold Buf.bitClear
  cases hl : b.bitloc x with
  | none => left; exact ⟨rfl, rfl⟩
  | some p =>
    obtain ⟨i, bit⟩ := p
    have hb := Buf.bitloc_bounds b x i bit hl
    have hi : i < xs.length := by have := h.count_eq; omega
    right; exact ⟨i, bit, rfl, hi, hb.2.1, rfl, Buf.modByte_abs h i _ hi⟩

theorem Buf.bitToggle_abs {b : Buf} {xs : List Nat} (h : b.Abs xs) (x : BitArg) :
    (b.bitToggle x = (b, .err) ∧ b.bitloc x = none) ∨
    ∃ i bit, b.bitloc x = some (i, bit) ∧ i < xs.length ∧ bit < 8 ∧ (b.bitToggle x).2 = .ok ∧
      (b.bitToggle x).1.Abs (xs.set i (xs.getD i 0 ^^^ (1 <<< bit))) := by
  unfold Buf.bitToggle
  cases hl : b.bitloc x with
  | none => left; exact ⟨rfl, rfl⟩
  | some p =>
    obtain ⟨i, bit⟩ := p
    have hb := Buf.bitloc_bounds b x i bit hl
    have hi : i < xs.length := by have := h.count_eq; omega
    right; exact ⟨i, bit, rfl, hi, hb.2.1, rfl, Buf.modByte_abs h i _ hi⟩

/-- **buffer/bit**: an error, or the value of the addressed bit of an initialised byte below `count` -/
theorem Buf.bitGet_abs {b : Buf} {xs : List Nat} (h : b.Abs xs) (x : BitArg) :
    (b.bitGet x = .err ∧ b.bitloc x = none) ∨
    ∃ i bit, b.bitloc x = some (i, bit) ∧ i < xs.length ∧ bit < 8 ∧
      b.bitGet x = .num (if xs.getD i 0 &&& (1 <<< bit) ≠ 0 then 1 else 0) := by
  unfold Buf.bitGet
  cases hl : b.bitloc x with
  | none => left; exact ⟨rfl, rfl⟩
  | some p =>
    obtain ⟨i, bit⟩ := p
    have hb := Buf.bitloc_bounds b x i bit hl
    have hi : i < xs.length := by have := h.count_eq; omega
    right
    refine ⟨i, bit, rfl, hi, hb.2.1, ?_⟩
    simp only []
    rw [getD_of_rep h.rep i hi]
    have hx : xs.getD i 0 = xs[i] := by simp [List.getD, hi]
    rw [hx]

/-! ### array/join -/

/-- on indexed parts only, array/join is array/concat -/
theorem Arr.join_eq_concat (ps : List Part) (hno : ∀ p ∈ ps, ∀ v, p ≠ .one v) : ∀ a : Arr, a.join ps = a.concat ps := by
  induction ps with
  | nil => intro a; rfl
  | cons p rest ih =>
    intro a
    have ih' := ih (fun q hq => hno q (by simp [hq]))
    unfold Arr.join Arr.concat
    cases p with
    | one v => exact absurd rfl (hno (.one v) (by simp) v)
    | many vs => simp only []; cases (a.pushAll vs).2 <;> simp only [ih']
    | other vs sn =>
      simp only []
      generalize (if (a.isNull && sn) = true then
          match a.ensure (↑a.count + ↑a.count) 2 with
          | none => (a, Outcome.oom)
          | some a' => a'.pushAll a.items
        else a.pushAll vs) = r
      cases r.2 <;> simp only [ih']
    | self =>
      simp only []
      generalize (match a.ensure (↑a.count + ↑a.count) 2 with
          | none => (a, Outcome.oom)
          | some a' => a'.pushAll a.items) = r
      cases r.2 <;> simp only [ih']

/-- **array/join**: all parts indexed ⇒ the same result as array/concat ... -/
theorem Arr.join_abs (ps : List SPart) (hno : ∀ p ∈ ps, ∀ v, p ≠ SPart.one v) {a : Arr} {xs : List Val} (h : a.Abs xs)
    (hb : ((specConcat xs ps).length : Int) ≤ i32max) :
    (a.join (ps.map SPart.toPart)).2 = .ok ∧ (a.join (ps.map SPart.toPart)).1.Abs (specConcat xs ps) := by
  rw [Arr.join_eq_concat]
  · exact Arr.concat_abs ps h hb
  · intro p hp v hv
    obtain ⟨q, hq, hqp⟩ := List.mem_map.mp hp
    cases q with
    | one w => exact hno (.one w) hq w rfl
    | many ys => rw [← hqp] at hv; cases hv
    | self => rw [← hqp] at hv; cases hv

/-- ... and a non-indexed first part raises the error with the array unchanged -/
theorem Arr.join_err (a : Arr) (v : Val) (ps : List Part) : a.join (.one v :: ps) = (a, .err) := by
  unfold Arr.join; rfl

/-! ### array/remove with the decoding spelled out -/

theorem removeCount_nonneg {n : Option Arg} {m0 : Int} (hn : removeCount n = some m0) : 0 ≤ m0 := by
  unfold removeCount at hn
  cases n with
  | none => cases hn; omega
  | some x =>
    simp only [] at hn
    cases hx : getInteger x with
    | none => rw [hx] at hn; cases hn
    | some v =>
      rw [hx] at hn
      simp only [] at hn
      by_cases cv : v < 0
      · rw [if_pos cv] at hn; cases hn
      · rw [if_neg cv] at hn; cases hn; omega

theorem Arr.remove_exact {a : Arr} {xs : List Val} (h : a.Abs xs) (q : Int) (n : Option Arg) :
    let p : Int := if q < 0 then (xs.length : Int) + q else q
    (((p < 0 ∨ p > xs.length) ∨ removeCount n = none) ∧ a.remove (.int q) n = (a, .err)) ∨
    ∃ m0 : Int, 0 ≤ p ∧ p ≤ xs.length ∧ removeCount n = some m0 ∧ 0 ≤ m0 ∧ (a.remove (.int q) n).2 = .ok ∧
      (a.remove (.int q) n).1.Abs (xs.take p.toNat ++ xs.drop (p.toNat + (min m0 ((xs.length : Int) - p)).toNat)) := by
  intro p
  have hce := h.count_eq
  have hp : (if q < 0 then (a.count : Int) + q else q) = p := by show _ = (if q < 0 then (xs.length : Int) + q else q); rw [hce]
  unfold Arr.remove Arr.removeWith
  simp only [removeClampNoOverflow, getInteger]
  rw [hp]
  by_cases c1 : p < 0 ∨ p > (a.count : Int)
  · left; rw [if_pos c1]; exact ⟨Or.inl (by omega), rfl⟩
  · rw [if_neg c1]
    cases hn : removeCount n with
    | none => left; exact ⟨Or.inr rfl, rfl⟩
    | some m0 =>
      right
      have hm0 := removeCount_nonneg hn
      simp only [Bool.not_true, Bool.false_and, if_true, Bool.false_eq_true, if_false]
      generalize hm : (if m0 > (a.count : Int) - p then (a.count : Int) - p else m0) = m
      have hmb : 0 ≤ m ∧ p + m ≤ a.count ∧ m = min m0 ((xs.length : Int) - p) := by
        by_cases cc : m0 > (a.count : Int) - p
        · rw [if_pos cc] at hm; omega
        · rw [if_neg cc] at hm; omega
      refine ⟨m0, by omega, by omega, rfl, hm0, by first | rfl | trivial, ?_⟩
      rw [← hmb.2.2]
      refine ⟨?_, ?_, by simpa [size_writeAt] using h.cap, h.fits⟩
      · simp; omega
      · have htail : readAt a.cells (p + m).toNat (a.count - p.toNat - m.toNat) =
            ((xs.drop (p + m).toNat).take (a.count - p.toNat - m.toNat)).map some :=
          readAt_sub_of_rep h.rep _ _ (by omega)
        have epm : (p + m).toNat = p.toNat + m.toNat := by omega
        intro i hi
        have hil : i < xs.length - m.toNat := by
          have : (xs.take p.toNat ++ xs.drop (p.toNat + m.toNat)).length = xs.length - m.toNat := by simp; omega
          omega
        show (writeAt a.cells p.toNat (readAt a.cells (p + m).toNat (a.count - p.toNat - m.toNat)))[i]? = _
        rw [getElem?_writeAt, htail, epm]
        simp only [List.length_map, List.length_take, List.length_drop]
        by_cases h1 : i < p.toNat
        · have n1 : ¬ (p.toNat ≤ i ∧ i < p.toNat + min (a.count - p.toNat - m.toNat) (xs.length - (p.toNat + m.toNat)) ∧ i < a.cells.size) := by omega
          rw [if_neg n1, List.getElem?_append_left (by simp; omega), List.getElem?_take]
          simp only [h1, if_true]
          exact h.rep i (by omega)
        · have hsz := h.rep.len_le
          have y1 : p.toNat ≤ i ∧ i < p.toNat + min (a.count - p.toNat - m.toNat) (xs.length - (p.toNat + m.toNat)) ∧ i < a.cells.size := by omega
          rw [if_pos y1, List.getElem?_append_right (by simp; omega)]
          have hl : (List.take p.toNat xs).length = p.toNat := by simp; omega
          rw [hl]
          have h3 : i - p.toNat < a.count - p.toNat - m.toNat := by omega
          have h5 : p.toNat + m.toNat + (i - p.toNat) < xs.length := by omega
          simp [h3, h5]

end JanetModel.Seq
