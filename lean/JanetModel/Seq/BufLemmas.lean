/-
Session 3: buffers.  Refinement lemmas for the buffer functions of buffer.c / value.c that had a model but no theorem:
`janet_buffer_push_u8`, `janet_buffer_push_u32`, the self-alias branch of `buffer_push_impl` / `cfun_buffer_chars`,
`buffer_push_impl` (dispatch), buffer/push-byte, buffer/push-string, buffer/push-word, buffer/push-at (truncate, push,
restore), `janet_put` / `janet_putindex` on buffers, buffer/trim, buffer/clear, buffer/new-filled, buffer/from-bytes,
buffer/slice, buffer/fill with every argument shape, the argument decoding of buffer/blit (three half ranges + alias
case), buffer/bit, bit-set, bit-clear, bit-toggle.

`b.AbsT pre tl` generalises `b.Abs pre`: the `count` bytes of the buffer are `pre` and the cells after them still hold
`tl` — what buffer/push-at relies on when it lowers `count`, pushes, and raises `count` again.
-/
import JanetModel.Seq.Lemmas
namespace JanetModel.Seq
open JanetModel.Gen.Seq

theorem rep_prefix {α : Type} {cells : Array (Option α)} {xs ys : List α} (r : Rep cells (xs ++ ys)) : Rep cells xs := by
  intro i h
  have := r i (by simp; omega)
  rw [this, List.getElem?_append_left h]

structure Buf.AbsT (b : Buf) (pre tl : List Nat) : Prop where
  count_eq : b.count = pre.length
  rep : Rep b.cells (pre ++ tl)
  cap : b.cells.size = b.capacity.toNat
  fits : b.capacity ≤ i32max
  pos : 0 < b.capacity

theorem Buf.Abs.toT {b : Buf} {xs : List Nat} (h : b.Abs xs) : b.AbsT xs [] :=
  ⟨h.count_eq, by simpa using h.rep, h.cap, h.fits, h.pos⟩

theorem Buf.AbsT.toAbs {b : Buf} {pre tl : List Nat} (h : b.AbsT pre tl) : b.Abs pre :=
  ⟨h.count_eq, rep_prefix h.rep, h.cap, h.fits, h.pos⟩

theorem Buf.AbsT.items {b : Buf} {pre tl : List Nat} (h : b.AbsT pre tl) : b.items = pre.map some := h.toAbs.items

/-- lowering `count` (buffer/push-at) keeps the bytes above it in the cells -/
theorem Buf.Abs.truncate {b : Buf} {xs : List Nat} (h : b.Abs xs) (i : Nat) (hi : i ≤ xs.length) :
    Buf.AbsT { b with count := i } (xs.take i) (xs.drop i) :=
  ⟨by simp; omega, by simpa using h.rep, h.cap, h.fits, h.pos⟩

/-- `janet_buffer_extra` with bytes kept above `count` -/
theorem Buf.extra_absT {b : Buf} {pre tl : List Nat} (h : b.AbsT pre tl) (n : Int) (hn : 0 ≤ n) :
    (n + b.count > i32max ∧ b.extra n = (b, .err)) ∨
    (n + b.count ≤ i32max ∧ (b.extra n).2 = .ok ∧ (b.extra n).1.AbsT pre tl ∧ (b.count : Int) + n ≤ (b.extra n).1.capacity ∧
      (b.extra n).1.count = b.count) := by
  unfold Buf.extra
  have hf := buf_facts
  by_cases h1 : n + (b.count : Int) > i32max
  · left; exact ⟨h1, by rw [if_pos h1]⟩
  · right
    rw [if_neg h1]
    simp only []
    refine ⟨by omega, ?_⟩
    by_cases h2 : (b.count : Int) + n > b.capacity
    · rw [if_pos h2]
      have hge : bufferExtraGrowth = 2 := by omega
      generalize hnc : (if (b.count : Int) + n > i32max / bufferExtraGrowth then i32max else ((b.count : Int) + n) * bufferExtraGrowth) = nc
      have hnc1 : (b.count : Int) + n ≤ nc ∧ nc ≤ i32max := by
        have hi := i32max_eq
        rw [hge] at hnc
        by_cases cc : (b.count : Int) + n > i32max / 2
        · rw [if_pos cc] at hnc; omega
        · rw [if_neg cc] at hnc; omega
      have hpos := h.pos
      have hno : ¬ (nc ≤ 0) := by omega
      rw [if_neg hno]
      have hle := h.rep.len_le; have hcap := h.cap; have hcnt := h.count_eq
      exact ⟨rfl, ⟨hcnt, rep_realloc h.rep _ (by omega), by simp [size_realloc], hnc1.2, by simp only []; omega⟩, hnc1.1, rfl⟩
    · rw [if_neg h2]; exact ⟨rfl, h, by show (b.count : Int) + n ≤ b.capacity; omega, rfl⟩

/-- memcpy of `ys` at `count`, over whatever was kept there -/
theorem rep_write_mid {α : Type} {cells : Array (Option α)} {pre tl : List α} (r : Rep cells (pre ++ tl)) (ys : List α)
    (hl : pre.length + ys.length ≤ cells.size) :
    Rep (writeAt cells pre.length (ys.map some)) ((pre ++ ys) ++ tl.drop ys.length) := by
  have hw := rep_write_over r pre.length ys (by simp) hl
  have e1 : (pre ++ tl).take pre.length = pre := by simp
  have e2 : (pre ++ tl).drop (pre.length + ys.length) = tl.drop ys.length := by
    rw [List.drop_append]; simp
  rw [e1, e2] at hw
  exact hw

/-- outcome of pushing the bytes `ys`: "buffer overflow" with the state untouched, or success -/
def PushStep (b : Buf) (pre tl ys : List Nat) (r : Buf × Outcome Nat) : Prop :=
  ((pre.length : Int) + ys.length > i32max ∧ r = (b, .err)) ∨
  ((pre.length : Int) + ys.length ≤ i32max ∧ r.2 = .ok ∧ r.1.AbsT (pre ++ ys) (tl.drop ys.length))

/-- `janet_buffer_push_bytes` -/
theorem Buf.pushBytes_absT {b : Buf} {pre tl : List Nat} (h : b.AbsT pre tl) (ys : List Nat) :
    PushStep b pre tl ys (b.pushBytes (ys.map some)) := by
  unfold PushStep Buf.pushBytes
  have hce := h.count_eq
  simp only [List.length_map]
  by_cases h0 : ys.length = 0
  · right
    rw [if_pos h0]
    have : ys = [] := List.length_eq_zero_iff.mp h0
    subst this
    have hc := h.toAbs.count_le; have := h.fits
    exact ⟨by simp; omega, rfl, by simpa using h⟩
  · rw [if_neg h0]
    rcases Buf.extra_absT h (ys.length : Int) (by omega) with ⟨hgt, he⟩ | ⟨hle, hok, hA, hroom, hcnt⟩
    · left
      rw [he]
      exact ⟨by omega, rfl⟩
    · right
      rw [hok]
      simp only []
      refine ⟨by omega, by first | rfl | trivial, ⟨?_, ?_, by simpa [size_writeAt] using hA.cap, hA.fits, hA.pos⟩⟩
      · simp; omega
      · simp only []
        rw [hce]
        exact rep_write_mid hA.rep ys (by have := hA.cap; have := hA.pos; omega)

theorem Buf.pushU8_eq (b : Buf) (v : Nat) : b.pushU8 v = b.pushBytes ([v].map some) := by
  unfold Buf.pushU8 Buf.pushBytes
  simp [writeAt]

theorem Buf.pushU32_eq (b : Buf) (w : Nat) : b.pushU32 w = b.pushBytes ((wordBytes w).map some) := by
  unfold Buf.pushU32 Buf.pushBytes
  simp [wordBytes]

/-- `janet_buffer_push_u8` -/
theorem Buf.pushU8_absT {b : Buf} {pre tl : List Nat} (h : b.AbsT pre tl) (v : Nat) :
    PushStep b pre tl [v] (b.pushU8 v) := by
  rw [Buf.pushU8_eq]; exact Buf.pushBytes_absT h [v]

/-- `janet_buffer_push_u32` -/
theorem Buf.pushU32_absT {b : Buf} {pre tl : List Nat} (h : b.AbsT pre tl) (w : Nat) :
    PushStep b pre tl (wordBytes w) (b.pushU32 w) := by
  rw [Buf.pushU32_eq]; exact Buf.pushBytes_absT h (wordBytes w)

/-- a buffer pushed onto itself (overflow-safe source shape, Gen/Seq.lean `pushSelfNoOverflow`): the view is taken
again after room was made, the current contents are appended once -/
theorem Buf.pushSelf_absT {b : Buf} {pre tl : List Nat} (h : b.AbsT pre tl) :
    PushStep b pre tl pre b.pushSelf := by
  unfold Buf.pushSelf Buf.pushSelfWith
  simp only [pushSelfNoOverflow, if_true]
  have hce := h.count_eq
  rcases Buf.extra_absT h (b.count : Int) (by omega) with ⟨hgt, he⟩ | ⟨hle, hok, hA, hroom, hcnt⟩
  · left
    rw [he]
    exact ⟨by omega, rfl⟩
  · rw [hok]
    simp only []
    rw [h.items]
    rcases Buf.pushBytes_absT hA pre with ⟨hgt, _⟩ | ⟨hle2, hok2, hA2⟩
    · omega
    · right; exact ⟨hle2, hok2, hA2⟩

/-! ### buffer/push, push-byte, push-string, push-word at the list level -/

/-- what an argument of buffer/push contributes when the buffer currently holds `cur`; `none` = ill-typed -/
def BArg.items (a : BArg) (cur : List Nat) : Option (List Nat) :=
  match a with
  | .int n => some [lowByte n]
  | .bytes bs => some bs
  | .self => some cur
  | .badnum => none
  | .bad => none

/-- buffer/push-byte accepts integers only -/
def BArg.itemsByte (a : BArg) (_cur : List Nat) : Option (List Nat) :=
  match a with
  | .int n => some [lowByte n]
  | _ => none

/-- buffer/push-string accepts byte sequences only -/
def BArg.itemsStr (a : BArg) (cur : List Nat) : Option (List Nat) :=
  match a with
  | .bytes bs => some bs
  | .self => some cur
  | _ => none

/-- list-level semantics of a push loop: the arguments are appended in order until the first ill-typed one or the
first that would make the length exceed INT32_MAX; (contents, succeeded) -/
def specPushG {A : Type} (items : A → List Nat → Option (List Nat)) (cur : List Nat) : List A → List Nat × Bool
  | [] => (cur, true)
  | a :: rest =>
    match items a cur with
    | none => (cur, false)
    | some ys => if (cur.length : Int) + ys.length > i32max then (cur, false) else specPushG items (cur ++ ys) rest

abbrev specPush := specPushG BArg.items
abbrev specPushByte := specPushG BArg.itemsByte
abbrev specPushStr := specPushG BArg.itemsStr
def WArg.items (a : WArg) (_cur : List Nat) : Option (List Nat) :=
  match a with
  | .word w => some (wordBytes w)
  | .bad => none
abbrev specPushWord := specPushG WArg.items

theorem specPushG_len {A : Type} (items : A → List Nat → Option (List Nat)) (args : List A) :
    ∀ cur, cur.length ≤ (specPushG items cur args).1.length := by
  induction args with
  | nil => intro cur; exact Nat.le_refl _
  | cons a rest ih =>
    intro cur
    unfold specPushG
    cases items a cur with
    | none => exact Nat.le_refl _
    | some ys =>
      simp only []
      by_cases c : (cur.length : Int) + ys.length > i32max
      · rw [if_pos c]; exact Nat.le_refl _
      · rw [if_neg c]
        have := ih (cur ++ ys)
        simp at this
        omega

/-- result of a whole push loop against its list-level semantics -/
def PushAll (pre tl : List Nat) (s : List Nat × Bool) (r : Buf × Outcome Nat) : Prop :=
  r.2 = (if s.2 then .ok else .err) ∧ r.1.AbsT s.1 (tl.drop (s.1.length - pre.length))

/-- one step of any of the push loops followed by the rest -/
theorem pushAll_step {A : Type} (items : A → List Nat → Option (List Nat)) (rest : List A)
    (f : Buf → Buf × Outcome Nat)
    (ih : ∀ (b : Buf) (pre tl : List Nat), b.AbsT pre tl → PushAll pre tl (specPushG items pre rest) (f b))
    {b : Buf} {pre tl ys : List Nat} (h : b.AbsT pre tl) (r : Buf × Outcome Nat) (hs : PushStep b pre tl ys r) :
    PushAll pre tl (if (pre.length : Int) + ys.length > i32max then (pre, false) else specPushG items (pre ++ ys) rest)
      (match r.2 with | .ok => f r.1 | o => (r.1, o)) := by
  rcases hs with ⟨hgt, he⟩ | ⟨hle, hok, hA⟩
  · rw [if_pos hgt, he]
    exact ⟨rfl, by simpa using h⟩
  · rw [if_neg (by omega), hok]
    simp only []
    have := ih r.1 (pre ++ ys) (tl.drop ys.length) hA
    refine ⟨this.1, ?_⟩
    have hl := specPushG_len items rest (pre ++ ys)
    have h2 := this.2
    rw [List.drop_drop] at h2
    have e : (specPushG items (pre ++ ys) rest).1.length - (pre ++ ys).length + ys.length =
        (specPushG items (pre ++ ys) rest).1.length - pre.length := by
      simp at hl ⊢; omega
    have e' : ys.length + ((specPushG items (pre ++ ys) rest).1.length - (pre ++ ys).length) =
        (specPushG items (pre ++ ys) rest).1.length - pre.length := by omega
    first
      | (rw [e] at h2; exact h2)
      | (rw [e'] at h2; exact h2)

theorem pushAll_fail {b : Buf} {pre tl : List Nat} (h : b.AbsT pre tl) : PushAll pre tl (pre, false) (b, .err) :=
  ⟨rfl, by simpa using h⟩

/-- **`buffer_push_impl`** (buffer/push and the loop inside buffer/push-at): integers push their low byte, byte
sequences are appended, the buffer itself contributes its contents at that moment; an ill-typed argument or an
overflow raises the error after the earlier arguments were pushed -/
theorem Buf.pushImpl_absT (args : List BArg) : ∀ (b : Buf) (pre tl : List Nat), b.AbsT pre tl →
    PushAll pre tl (specPush pre args) (b.pushImpl args) := by
  induction args with
  | nil =>
    intro b pre tl h
    exact ⟨rfl, by simpa [specPush, specPushG, Buf.pushImpl] using h⟩
  | cons a rest ih =>
    intro b pre tl h
    unfold Buf.pushImpl
    show PushAll pre tl (specPushG BArg.items pre (a :: rest)) _
    unfold specPushG
    cases a with
    | int n => exact pushAll_step BArg.items rest (fun b => b.pushImpl rest) ih h _ (Buf.pushU8_absT h (lowByte n))
    | bytes bs => exact pushAll_step BArg.items rest (fun b => b.pushImpl rest) ih h _ (Buf.pushBytes_absT h bs)
    | self => exact pushAll_step BArg.items rest (fun b => b.pushImpl rest) ih h _ (Buf.pushSelf_absT h)
    | badnum => exact pushAll_fail h
    | bad => exact pushAll_fail h

/-- **buffer/push-byte** (`cfun_buffer_u8`) -/
theorem Buf.pushByteArgs_absT (args : List BArg) : ∀ (b : Buf) (pre tl : List Nat), b.AbsT pre tl →
    PushAll pre tl (specPushByte pre args) (b.pushByteArgs args) := by
  induction args with
  | nil =>
    intro b pre tl h
    exact ⟨rfl, by simpa [specPushByte, specPushG, Buf.pushByteArgs] using h⟩
  | cons a rest ih =>
    intro b pre tl h
    show PushAll pre tl (specPushG BArg.itemsByte pre (a :: rest)) _
    unfold specPushG
    cases a with
    | int n =>
      unfold Buf.pushByteArgs
      exact pushAll_step BArg.itemsByte rest (fun b => b.pushByteArgs rest) ih h _ (Buf.pushU8_absT h (lowByte n))
    | bytes bs => unfold Buf.pushByteArgs; exact pushAll_fail h
    | self => unfold Buf.pushByteArgs; exact pushAll_fail h
    | badnum => unfold Buf.pushByteArgs; exact pushAll_fail h
    | bad => unfold Buf.pushByteArgs; exact pushAll_fail h

/-- **buffer/push-string** (`cfun_buffer_chars`) -/
theorem Buf.pushStringArgs_absT (args : List BArg) : ∀ (b : Buf) (pre tl : List Nat), b.AbsT pre tl →
    PushAll pre tl (specPushStr pre args) (b.pushStringArgs args) := by
  induction args with
  | nil =>
    intro b pre tl h
    exact ⟨rfl, by simpa [specPushStr, specPushG, Buf.pushStringArgs] using h⟩
  | cons a rest ih =>
    intro b pre tl h
    unfold Buf.pushStringArgs
    show PushAll pre tl (specPushG BArg.itemsStr pre (a :: rest)) _
    unfold specPushG
    cases a with
    | int n => exact pushAll_fail h
    | bytes bs => exact pushAll_step BArg.itemsStr rest (fun b => b.pushStringArgs rest) ih h _ (Buf.pushBytes_absT h bs)
    | self => exact pushAll_step BArg.itemsStr rest (fun b => b.pushStringArgs rest) ih h _ (Buf.pushSelf_absT h)
    | badnum => exact pushAll_fail h
    | bad => exact pushAll_fail h

/-- **buffer/push-word** (`cfun_buffer_word`): four bytes per word, little endian -/
theorem Buf.pushWordArgs_absT (args : List WArg) : ∀ (b : Buf) (pre tl : List Nat), b.AbsT pre tl →
    PushAll pre tl (specPushWord pre args) (b.pushWordArgs args) := by
  induction args with
  | nil =>
    intro b pre tl h
    exact ⟨rfl, by simpa [specPushWord, specPushG, Buf.pushWordArgs] using h⟩
  | cons a rest ih =>
    intro b pre tl h
    unfold Buf.pushWordArgs
    show PushAll pre tl (specPushG WArg.items pre (a :: rest)) _
    unfold specPushG
    cases a with
    | word w => exact pushAll_step WArg.items rest (fun b => b.pushWordArgs rest) ih h _ (Buf.pushU32_absT h w)
    | bad => exact pushAll_fail h

theorem PushAll.abs {pre : List Nat} {s : List Nat × Bool} {r : Buf × Outcome Nat} (h : PushAll pre [] s r) :
    r.2 = (if s.2 then .ok else .err) ∧ r.1.Abs s.1 := ⟨h.1, h.2.toAbs⟩

end JanetModel.Seq
