/-
Lemmas about the sequence model (Seq/Model.lean): storage primitives (`realloc`, `writeAt`, `readAt`), the
representation relation between the cells of an array / buffer and a `List`, `janet_array_ensure`.
-/
import JanetModel.Seq.Model
namespace JanetModel.Seq
open JanetModel.Gen.Seq

theorem size_writeAt {α : Type} (cells : Array (Option α)) (p : Nat) (xs : List (Option α)) :
    (writeAt cells p xs).size = cells.size := by
  induction xs generalizing cells p with
  | nil => rfl
  | cons x xs ih => unfold writeAt; rw [ih]; simp

theorem getElem?_writeAt {α : Type} (cells : Array (Option α)) (p : Nat) (xs : List (Option α)) (i : Nat) :
    (writeAt cells p xs)[i]? = if p ≤ i ∧ i < p + xs.length ∧ i < cells.size then xs[i - p]? else cells[i]? := by
  induction xs generalizing cells p with
  | nil =>
    have : ¬ (p ≤ i ∧ i < p + ([] : List (Option α)).length ∧ i < cells.size) := by simp; omega
    rw [if_neg this]; rfl
  | cons x xs ih =>
    unfold writeAt
    rw [ih]
    simp only [Array.size_setIfInBounds, List.length_cons, Array.getElem?_setIfInBounds]
    by_cases h1 : p + 1 ≤ i ∧ i < p + 1 + xs.length ∧ i < cells.size
    · have h2 : p ≤ i ∧ i < p + (xs.length + 1) ∧ i < cells.size := by omega
      rw [if_pos h1, if_pos h2]
      have : i - p = (i - (p + 1)) + 1 := by omega
      rw [this, List.getElem?_cons_succ]
    · rw [if_neg h1]
      by_cases h3 : p = i
      · subst h3
        by_cases h4 : p < cells.size
        · have h2 : p ≤ p ∧ p < p + (xs.length + 1) ∧ p < cells.size := by omega
          rw [if_pos h2]; simp [h4]
        · have h2 : ¬ (p ≤ p ∧ p < p + (xs.length + 1) ∧ p < cells.size) := by omega
          rw [if_neg h2]; simp [h4]
      · have h2 : ¬ (p ≤ i ∧ i < p + (xs.length + 1) ∧ i < cells.size) := by omega
        rw [if_neg h2]; simp [h3]

theorem size_realloc {α : Type} (cells : Array (Option α)) (n : Nat) : (realloc cells n).size = n := by
  unfold realloc
  by_cases h : n ≤ cells.size
  · rw [if_pos h]; simp; omega
  · rw [if_neg h]; simp; omega

theorem getElem?_realloc {α : Type} (cells : Array (Option α)) (n i : Nat) :
    (realloc cells n)[i]? = if i < n then (if i < cells.size then cells[i]? else some none) else none := by
  unfold realloc
  by_cases h : n ≤ cells.size
  · rw [if_pos h]
    by_cases hi : i < n
    · have h2 : i < cells.size := by omega
      have h3 : i < min n cells.size := by omega
      rw [if_pos hi, if_pos h2]
      simp [h3]
    · rw [if_neg hi]
      have h3 : ¬ i < min n cells.size := by omega
      simp [h3]
  · rw [if_neg h]
    by_cases hi : i < n
    · rw [if_pos hi]
      by_cases h2 : i < cells.size
      · rw [if_pos h2]; simp [Array.getElem?_append, h2]
      · rw [if_neg h2]
        have : i - cells.size < n - cells.size := by omega
        simp [Array.getElem?_append, h2, this]
    · rw [if_neg hi]
      have h2 : ¬ i < cells.size := by omega
      have : ¬ i - cells.size < n - cells.size := by omega
      simp [Array.getElem?_append, h2, this]


/-! ### representation -/

/-- the first `xs.length` cells hold exactly `xs` (all initialised) -/
def Rep {α : Type} (cells : Array (Option α)) (xs : List α) : Prop :=
  ∀ i, i < xs.length → cells[i]? = some (xs[i]?)

theorem Rep.len_le {α : Type} {cells : Array (Option α)} {xs : List α} (r : Rep cells xs) : xs.length ≤ cells.size := by
  apply Decidable.byContradiction
  intro c
  have hlt : cells.size < xs.length := by omega
  have := r cells.size hlt
  simp at this

theorem getD_of_rep {α : Type} {cells : Array (Option α)} {xs : List α} (r : Rep cells xs) (i : Nat) (h : i < xs.length) :
    cells.getD i none = some xs[i] := by
  rw [Array.getD_eq_getD_getElem?, r i h]; simp [h]

theorem readAt_length {α : Type} (cells : Array (Option α)) (p n : Nat) : (readAt cells p n).length = n := by
  simp [readAt]

theorem readAt_getElem {α : Type} (cells : Array (Option α)) (p n i : Nat) (h : i < (readAt cells p n).length) :
    (readAt cells p n)[i] = cells.getD (p + i) none := by
  simp [readAt]

/-- reading the first `xs.length` cells gives `xs` -/
theorem readAt_of_rep {α : Type} {cells : Array (Option α)} {xs : List α} (r : Rep cells xs) :
    readAt cells 0 xs.length = xs.map some := by
  apply List.ext_getElem
  · simp [readAt]
  · intro i h1 h2
    rw [readAt_getElem]
    simp only [List.getElem_map, Nat.zero_add]
    exact getD_of_rep r i (by simpa [readAt] using h1)

/-- a slice of the represented list, read from the cells -/
theorem readAt_sub_of_rep {α : Type} {cells : Array (Option α)} {xs : List α} (r : Rep cells xs) (p n : Nat)
    (hpn : p + n ≤ xs.length) : readAt cells p n = ((xs.drop p).take n).map some := by
  apply List.ext_getElem
  · simp [readAt]; omega
  · intro i h1 h2
    rw [readAt_getElem]
    have hi : i < n := by simpa [readAt] using h1
    simp only [List.getElem_map, List.getElem_take, List.getElem_drop]
    exact getD_of_rep r (p + i) (by omega)

theorem rep_realloc {α : Type} {cells : Array (Option α)} {xs : List α} (r : Rep cells xs) (n : Nat)
    (hn : xs.length ≤ n) : Rep (realloc cells n) xs := by
  intro i h
  have h1 := r i h
  have h2 : i < cells.size := by have := r.len_le; omega
  rw [getElem?_realloc, if_pos (by omega), if_pos h2]
  exact h1

/-! ### arrays -/

/-- the array `a` represents the list `xs`; its storage has the size its `capacity` field says -/
structure Arr.Abs (a : Arr) (xs : List Val) : Prop where
  count_eq : a.count = xs.length
  rep : Rep a.cells xs
  cap : a.cells.size = a.capacity.toNat
  /-- the fields fit their C type `int32_t` -/
  fits : a.capacity ≤ i32max

/-- **count ≤ capacity** (whenever there is an element at all; array/new accepts a negative capacity) -/
theorem Arr.Abs.count_le {a : Arr} {xs : List Val} (h : a.Abs xs) : (a.count : Int) ≤ max a.capacity 0 := by
  have := h.rep.len_le
  have h1 := h.cap; have h2 := h.count_eq
  omega

theorem Arr.Abs.items {a : Arr} {xs : List Val} (h : a.Abs xs) : a.items = xs.map some := by
  unfold Arr.items
  rw [h.count_eq]
  exact readAt_of_rep h.rep

theorem rep_nil {α : Type} (cells : Array (Option α)) : Rep cells ([] : List α) := fun i h => by simp at h

theorem i32max_eq : i32max = 2147483647 := rfl

theorem Arr.Abs.count_fits {a : Arr} {xs : List Val} (h : a.Abs xs) : (a.count : Int) ≤ i32max := by
  have := h.count_le; have := h.fits; have := i32max_eq; omega

theorem Arr.new_abs (c : Int) (hc : c ≤ i32max) : (Arr.new c).Abs [] :=
  ⟨rfl, rep_nil _, by simp [Arr.new], hc⟩

/-- `janet_array_ensure` with a growth factor ≥ 1 and a requested capacity that fits `int32_t`: no out-of-memory,
the contents are kept, the capacity is at least what was asked for and still fits -/
theorem Arr.ensure_abs {a : Arr} {xs : List Val} (h : a.Abs xs) (c g : Int) (hg : 1 ≤ g) (hc0 : 0 ≤ c) (hc : c ≤ i32max) :
    ∃ a', a.ensure c g = some a' ∧ a'.Abs xs ∧ c ≤ a'.capacity ∧ a'.count = a.count := by
  unfold Arr.ensure
  by_cases h1 : c ≤ a.capacity
  · rw [if_pos h1]; exact ⟨a, rfl, h, h1, rfl⟩
  · rw [if_neg h1]
    simp only []
    have hle := h.rep.len_le
    have hcap := h.cap
    have hcnt := h.count_eq
    have hcg : c ≤ c * g := by
      have : c * 1 ≤ c * g := Int.mul_le_mul_of_nonneg_left hg (by omega)
      omega
    generalize hnc : (if c * g > i32max then i32max else c * g) = nc
    have hnc1 : c ≤ nc ∧ nc ≤ i32max := by
      by_cases cc : c * g > i32max
      · rw [if_pos cc] at hnc; omega
      · rw [if_neg cc] at hnc; omega
    have hno : ¬ (nc < 0 ∨ (nc = 0 ∧ a.cells.size ≠ 0)) := by omega
    rw [if_neg hno]
    refine ⟨_, rfl, ⟨hcnt, rep_realloc h.rep _ (by omega), by simp [size_realloc], hnc1.2⟩, hnc1.1, rfl⟩

/-! ### writes -/

/-- storing one more element right after the represented prefix -/
theorem rep_set_push {α : Type} {cells : Array (Option α)} {xs : List α} (r : Rep cells xs) (x : α)
    (hl : xs.length < cells.size) : Rep (cells.setIfInBounds xs.length (some x)) (xs ++ [x]) := by
  intro i h
  rw [Array.getElem?_setIfInBounds]
  by_cases hi : xs.length = i
  · subst hi; simp [hl]
  · have h2 : i < xs.length := by simp at h; omega
    simp [hi, r i h2, List.getElem?_append_left h2]

/-- memcpy of `ys` right after the represented prefix -/
theorem rep_write_append {α : Type} {cells : Array (Option α)} {xs : List α} (r : Rep cells xs) (ys : List α)
    (hl : xs.length + ys.length ≤ cells.size) : Rep (writeAt cells xs.length (ys.map some)) (xs ++ ys) := by
  intro i h
  rw [getElem?_writeAt]
  simp only [List.length_map]
  by_cases hi : i < xs.length
  · have : ¬ (xs.length ≤ i ∧ i < xs.length + ys.length ∧ i < cells.size) := by omega
    rw [if_neg this, r i hi, List.getElem?_append_left hi]
  · have h3 : i < xs.length + ys.length := by simpa using h
    have : xs.length ≤ i ∧ i < xs.length + ys.length ∧ i < cells.size := by omega
    rw [if_pos this, List.getElem?_append_right (by omega)]
    have h4 : i - xs.length < ys.length := by omega
    simp [h4]

theorem rep_take {α : Type} {cells : Array (Option α)} {xs : List α} (r : Rep cells xs) (n : Nat) : Rep cells (xs.take n) := by
  intro i h
  have h2 : i < n ∧ i < xs.length := by
    have : i < min n xs.length := by simpa [List.length_take] using h
    omega
  rw [r i h2.2, List.getElem?_take]
  simp [h2.1]

/-! ### array operations against `List` -/

theorem growth_facts : (1 : Int) ≤ arrayPushGrowth ∧ (1 : Int) ≤ arraySetcountGrowth ∧ (1 : Int) ≤ arrayInsertGrowth ∧
    (1 : Int) ≤ arrayCfunPushGrowth ∧ (1 : Int) ≤ putindexGrowth := by decide

/-- `janet_array_push`: appends, or raises the error when the count is INT32_MAX; never out of memory -/
theorem Arr.push_abs {a : Arr} {xs : List Val} (h : a.Abs xs) (x : Val) :
    ((a.count : Int) = i32max ∧ a.push x = (a, .err)) ∨
    ((a.count : Int) < i32max ∧ (a.push x).2 = .ok ∧ (a.push x).1.Abs (xs ++ [x])) := by
  unfold Arr.push
  by_cases h1 : (a.count : Int) = i32max
  · left; exact ⟨h1, by rw [if_pos h1]⟩
  · right
    have hlt : (a.count : Int) < i32max := by have := h.count_fits; omega
    rw [if_neg h1]
    obtain ⟨a', he, ha', hc, hcnt⟩ := Arr.ensure_abs h (a.count + 1) arrayPushGrowth growth_facts.1 (by omega) (by omega)
    rw [he]
    refine ⟨hlt, rfl, ?_⟩
    have hsz : xs.length < a'.cells.size := by
      have := ha'.cap; have := h.count_eq; omega
    refine ⟨by simp [h.count_eq], ?_, by simpa using ha'.cap, ha'.fits⟩
    rw [h.count_eq]
    exact rep_set_push ha'.rep x hsz

/-- `janet_array_pop`: removes and returns the last element (nil on an empty array) -/
theorem Arr.pop_abs {a : Arr} {xs : List Val} (h : a.Abs xs) :
    (a.pop).1.Abs xs.dropLast ∧ (a.pop).2 = .val (some (xs.getLast?.getD vNil)) := by
  unfold Arr.pop
  by_cases h0 : a.count ≠ 0
  · rw [if_pos h0]
    have hne : xs ≠ [] := by intro e; rw [e] at h; have := h.count_eq; simp at this; exact h0 this
    have hl : xs.length - 1 < xs.length := by have := h.count_eq; omega
    refine ⟨⟨by simp [h.count_eq], ?_, h.cap, h.fits⟩, ?_⟩
    · have := rep_take h.rep (xs.length - 1)
      rwa [← List.dropLast_eq_take] at this
    · simp only []
      rw [h.count_eq, getD_of_rep h.rep _ hl, List.getLast?_eq_getElem?]
      simp [hl]
  · rw [if_neg h0]
    have : a.count = 0 := by omega
    have hx : xs = [] := by
      have hce := h.count_eq
      exact List.length_eq_zero_iff.mp (by omega)
    subst hx
    exact ⟨h, rfl⟩

/-- `cfun_array_push`: appends all values or raises "array overflow" -/
theorem Arr.cfunPush_abs {a : Arr} {xs : List Val} (h : a.Abs xs) (ys : List Val) :
    ((a.cfunPush ys) = (a, .err) ∧ (xs.length + ys.length : Int) ≥ i32max) ∨
    ((a.cfunPush ys).2 = .ok ∧ (a.cfunPush ys).1.Abs (xs ++ ys)) := by
  unfold Arr.cfunPush
  by_cases h1 : i32max - ((ys.length : Int) + 1) + 1 ≤ (a.count : Int)
  · left; rw [if_pos h1]; refine ⟨rfl, ?_⟩; have := h.count_eq; omega
  · right
    rw [if_neg h1]
    simp only []
    have hce := h.count_eq
    obtain ⟨a', he, ha', hc, hcnt⟩ := Arr.ensure_abs h ((a.count : Int) - 1 + ((ys.length : Int) + 1)) arrayCfunPushGrowth
      growth_facts.2.2.2.1 (by omega) (by omega)
    rw [he]
    refine ⟨rfl, ⟨?_, ?_, by simpa [size_writeAt] using ha'.cap, ha'.fits⟩⟩
    · simp; omega
    · simp only []
      rw [hce]
      exact rep_write_append ha'.rep ys (by have := ha'.cap; omega)

/-- `janet_array_setcount`: truncates, or extends with nil -/
theorem Arr.setcount_abs {a : Arr} {xs : List Val} (h : a.Abs xs) (c : Int) (hc : c ≤ i32max) :
    (a.setcount c).2 = .ok ∧
    (a.setcount c).1.Abs (if c < 0 then xs else if c > xs.length then xs ++ List.replicate (c.toNat - xs.length) vNil else xs.take c.toNat) := by
  unfold Arr.setcount
  have hce := h.count_eq
  by_cases h0 : c < 0
  · rw [if_pos h0, if_pos h0]; exact ⟨rfl, h⟩
  · rw [if_neg h0, if_neg h0]
    by_cases h1 : c > (a.count : Int)
    · have h1' : c > (xs.length : Int) := by omega
      rw [if_pos h1, if_pos h1']
      obtain ⟨a', he, ha', hcc, hcnt⟩ := Arr.ensure_abs h c arraySetcountGrowth growth_facts.2.1 (by omega) hc
      rw [he]
      refine ⟨rfl, ⟨?_, ?_, by simpa [size_writeAt] using ha'.cap, ha'.fits⟩⟩
      · simp; omega
      · simp only []
        rw [hce]
        have := rep_write_append ha'.rep (List.replicate (c.toNat - xs.length) vNil) (by
          have := ha'.cap; simp; omega)
        simpa using this
    · have h1' : ¬ c > (xs.length : Int) := by omega
      rw [if_neg h1, if_neg h1']
      refine ⟨rfl, ⟨?_, rep_take h.rep _, h.cap, h.fits⟩⟩
      simp; omega

/-- `cfun_array_fill` -/
theorem Arr.fill_abs {a : Arr} {xs : List Val} (h : a.Abs xs) (v : Val) :
    (a.fill v).2 = .ok ∧ (a.fill v).1.Abs (List.replicate xs.length v) := by
  unfold Arr.fill
  refine ⟨rfl, ⟨by simp [h.count_eq], ?_, by simpa [size_writeAt] using h.cap, h.fits⟩⟩
  have := rep_write_append (rep_nil a.cells) (List.replicate a.count v) (by
    have := h.rep.len_le; have := h.count_eq; simp; omega)
  simpa [h.count_eq] using this

/-- `cfun_array_clear` -/
theorem Arr.clear_abs {a : Arr} {xs : List Val} (h : a.Abs xs) : (a.clear).1.Abs [] :=
  ⟨rfl, rep_nil _, h.cap, h.fits⟩

/-! ### index and range decoding (capi.c, value.c) -/

theorem checkint_bounds (key : Arg) (max : Int) (i : Int) (hi : getterCheckint key max = some i) : 0 ≤ i ∧ i < max := by
  unfold getterCheckint at hi
  cases key with
  | int n =>
    simp only [] at hi
    by_cases c1 : n < 0
    · rw [if_pos c1] at hi; cases hi
    · rw [if_neg c1] at hi
      by_cases c2 : n ≥ max
      · rw [if_pos c2] at hi; cases hi
      · rw [if_neg c2] at hi; cases hi; omega
  | nil => cases hi
  | bad => cases hi

theorem halfRange_bounds (a : Arg) (length r : Int) (hr : getHalfRange a length = some r) : 0 ≤ r ∧ r ≤ length := by
  unfold getHalfRange at hr
  cases hg : getInteger a with
  | none => rw [hg] at hr; cases hr
  | some raw =>
    rw [hg] at hr
    simp only [] at hr
    by_cases c : (if raw < 0 then raw + (length + 1) else raw) < 0 ∨ (if raw < 0 then raw + (length + 1) else raw) > length
    · rw [if_pos c] at hr; cases hr
    · rw [if_neg c] at hr; cases hr; omega

theorem slice_bounds (length : Int) (hl : 0 ≤ length) (s e : Option Arg) (st en : Int)
    (h : getSlice length s e = some (st, en)) : 0 ≤ st ∧ st ≤ en ∧ en ≤ length := by
  unfold getSlice at h
  cases hs : getStartRange s length with
  | none => rw [hs] at h; cases h
  | some st' =>
    rw [hs] at h
    simp only [] at h
    cases he : getEndRange e length with
    | none => rw [he] at h; cases h
    | some en' =>
      rw [he] at h
      simp only [Option.some.injEq, Prod.mk.injEq] at h
      have hst : 0 ≤ st' ∧ st' ≤ length := by
        unfold getStartRange at hs
        cases s with
        | none => cases hs; exact ⟨Int.le_refl 0, hl⟩
        | some x =>
          cases x with
          | nil => cases hs; exact ⟨Int.le_refl 0, hl⟩
          | int n => exact halfRange_bounds _ _ _ hs
          | bad => exact halfRange_bounds _ _ _ hs
      have hen : 0 ≤ en' ∧ en' ≤ length := by
        unfold getEndRange at he
        cases e with
        | none => cases he; exact ⟨hl, Int.le_refl _⟩
        | some x =>
          cases x with
          | nil => cases he; exact ⟨hl, Int.le_refl _⟩
          | int n => exact halfRange_bounds _ _ _ he
          | bad => exact halfRange_bounds _ _ _ he
      obtain ⟨h1, h2⟩ := h
      by_cases c : en' < st'
      · rw [if_pos c] at h2; omega
      · rw [if_neg c] at h2; omega

/-! ### slice / insert / remove -/

theorem rep_toArray_map {α : Type} (xs : List α) : Rep (xs.map some).toArray xs := by
  intro i h
  simp [h]

/-- `cfun_array_slice` on a view holding `xs`: a fresh array with `xs[start, end)`, or the error -/
theorem sliceOf_abs (xs : List Val) (hx : (xs.length : Int) ≤ i32max) (s e : Option Arg) :
    (sliceOf (xs.map some) s e = none ∧ getSlice xs.length s e = none) ∨
    ∃ st en r, getSlice xs.length s e = some (st, en) ∧ 0 ≤ st ∧ st ≤ en ∧ en ≤ xs.length ∧
      sliceOf (xs.map some) s e = some r ∧ r.Abs ((xs.drop st.toNat).take (en - st).toNat) := by
  unfold sliceOf
  simp only [List.length_map]
  cases hg : getSlice xs.length s e with
  | none => left; exact ⟨rfl, rfl⟩
  | some p =>
    obtain ⟨st, en⟩ := p
    right
    have hb := slice_bounds xs.length (by omega) s e st en hg
    refine ⟨st, en, _, rfl, hb.1, hb.2.1, hb.2.2, rfl, ⟨?_, ?_, ?_, ?_⟩⟩
    · simp; omega
    · simp only []
      rw [← List.map_drop, ← List.map_take]
      exact rep_toArray_map _
    · simp; omega
    · simp only []; omega

/-- the list after inserting `ys` at position `p` -/
def insertAtList (xs : List Val) (p : Nat) (ys : List Val) : List Val := xs.take p ++ ys ++ xs.drop p

theorem getElem?_insertAtList (xs ys : List Val) (p i : Nat) (hp : p ≤ xs.length) :
    (insertAtList xs p ys)[i]? =
      if i < p then xs[i]? else if i < p + ys.length then ys[i - p]? else xs[i - ys.length]? := by
  unfold insertAtList
  by_cases h1 : i < p
  · rw [if_pos h1, List.append_assoc, List.getElem?_append_left (by simp; omega), List.getElem?_take]
    simp [h1]
  · rw [if_neg h1]
    rw [List.append_assoc, List.getElem?_append_right (by simp; omega)]
    have hl : (List.take p xs).length = p := by simp; omega
    rw [hl]
    by_cases h2 : i < p + ys.length
    · rw [if_pos h2, List.getElem?_append_left (by omega)]
    · rw [if_neg h2, List.getElem?_append_right (by omega), List.getElem?_drop]
      congr 1; omega

/-- `cfun_array_insert`: decodes the index (negative = from the end, -1 appends), raises the error when it is out of
`[0, count]` or the new count would not fit, otherwise splices -/
theorem Arr.insert_abs {a : Arr} {xs : List Val} (h : a.Abs xs) (pos : Arg) (ys : List Val) :
    (a.insert pos ys = (a, .err)) ∨
    ∃ n p : Int, pos = .int n ∧ p = (if n < 0 then (xs.length : Int) + n + 1 else n) ∧ 0 ≤ p ∧ p ≤ xs.length ∧
      (a.insert pos ys).2 = .ok ∧ (a.insert pos ys).1.Abs (insertAtList xs p.toNat ys) := by
  unfold Arr.insert
  have hce := h.count_eq
  cases hg : getInteger pos with
  | none => left; rfl
  | some n =>
    have hpos : pos = .int n := by
      cases pos with
      | int m => simp [getInteger] at hg; rw [hg]
      | nil => cases hg
      | bad => cases hg
    simp only []
    generalize hp : (if n < 0 then (a.count : Int) + n + 1 else n) = p
    by_cases c1 : p < 0 ∨ p > (a.count : Int)
    · left; rw [if_pos c1]
    · rw [if_neg c1]
      by_cases c2 : i32max - (ys.length : Int) < (a.count : Int)
      · left; rw [if_pos c2]
      · rw [if_neg c2]
        right
        obtain ⟨a', he, ha', hcc, hcnt⟩ := Arr.ensure_abs h ((a.count : Int) + ys.length) arrayInsertGrowth
          growth_facts.2.2.1 (by omega) (by omega)
        rw [he]
        refine ⟨n, p, hpos, by rw [← hp, hce], by omega, by omega, rfl, ⟨?_, ?_, ?_, ha'.fits⟩⟩
        · simp [insertAtList]; omega
        · simp only []
          have hpl : p.toNat ≤ xs.length := by omega
          have hsz : xs.length + ys.length ≤ a'.cells.size := by have := ha'.cap; omega
          have hrest : readAt a'.cells p.toNat (a.count - p.toNat) = ((xs.drop p.toNat).take (a.count - p.toNat)).map some :=
            readAt_sub_of_rep ha'.rep _ _ (by omega)
          intro i hi
          have hil : i < xs.length + ys.length := by
            have : (insertAtList xs p.toNat ys).length = xs.length + ys.length := by simp [insertAtList]; omega
            omega
          rw [getElem?_insertAtList xs ys p.toNat i hpl, getElem?_writeAt, getElem?_writeAt, hrest]
          simp only [List.length_map, size_writeAt, List.length_take, List.length_drop]
          by_cases h1 : i < p.toNat
          · have n1 : ¬ (p.toNat ≤ i ∧ i < p.toNat + ys.length ∧ i < a'.cells.size) := by omega
            have n2 : ¬ (p.toNat + ys.length ≤ i ∧ i < p.toNat + ys.length + min (a.count - p.toNat) (xs.length - p.toNat) ∧ i < a'.cells.size) := by omega
            rw [if_neg n1, if_neg n2, if_pos h1]
            exact ha'.rep i (by omega)
          · rw [if_neg h1]
            by_cases h2 : i < p.toNat + ys.length
            · have y1 : p.toNat ≤ i ∧ i < p.toNat + ys.length ∧ i < a'.cells.size := by omega
              rw [if_pos y1, if_pos h2]
              have : i - p.toNat < ys.length := by omega
              simp [this]
            · have n1 : ¬ (p.toNat ≤ i ∧ i < p.toNat + ys.length ∧ i < a'.cells.size) := by omega
              have y2 : p.toNat + ys.length ≤ i ∧ i < p.toNat + ys.length + min (a.count - p.toNat) (xs.length - p.toNat) ∧ i < a'.cells.size := by omega
              rw [if_neg n1, if_pos y2, if_neg h2]
              have h3 : i - (p.toNat + ys.length) < a.count - p.toNat := by omega
              have h4 : p.toNat + (i - (p.toNat + ys.length)) = i - ys.length := by omega
              have h5 : i - ys.length < xs.length := by omega
              simp [h3, List.getElem?_drop, h4, h5]
        · simpa [size_writeAt] using ha'.cap

/-- `cfun_array_remove` (clamp shape read off the current source): decodes the index, raises the error when it is out
of `[0, count]` or `n` is ill-typed / negative, otherwise removes `min n (count - at)` elements.  Never undefined. -/
theorem Arr.remove_abs {a : Arr} {xs : List Val} (h : a.Abs xs) (pos : Arg) (n : Option Arg) :
    (a.remove pos n = (a, .err)) ∨
    ∃ p m : Int, 0 ≤ p ∧ p ≤ xs.length ∧ 0 ≤ m ∧ p + m ≤ xs.length ∧
      (a.remove pos n).2 = .ok ∧ (a.remove pos n).1.Abs (xs.take p.toNat ++ xs.drop (p + m).toNat) := by
  unfold Arr.remove Arr.removeWith
  simp only [removeClampNoOverflow]
  have hce := h.count_eq
  cases hg : getInteger pos with
  | none => left; rfl
  | some q =>
    simp only []
    generalize hp : (if q < 0 then (a.count : Int) + q else q) = p
    by_cases c1 : p < 0 ∨ p > (a.count : Int)
    · left; rw [if_pos c1]
    · rw [if_neg c1]
      cases hn : removeCount n with
      | none => left; rfl
      | some m0 =>
        simp only [Bool.not_true, Bool.false_and, if_true]
        have hm0 : 0 ≤ m0 := by
          unfold removeCount at hn
          cases n with
          | none => cases hn; omega
          | some x =>
            simp only [] at hn
            cases hx : getInteger x with
            | none => rw [hx] at hn; cases hn
            | some v =>
              rw [hx] at hn
              simp only [] at hn
              by_cases cv : v < 0
              · rw [if_pos cv] at hn; cases hn
              · rw [if_neg cv] at hn; cases hn; omega
        right
        generalize hm : (if m0 > (a.count : Int) - p then (a.count : Int) - p else m0) = m
        have hmb : 0 ≤ m ∧ p + m ≤ a.count := by
          by_cases cc : m0 > (a.count : Int) - p
          · rw [if_pos cc] at hm; omega
          · rw [if_neg cc] at hm; omega
        refine ⟨p, m, by omega, by omega, hmb.1, by omega, ?_, ?_⟩
        · simp
        · simp only [Bool.false_eq_true, if_false]
          refine ⟨?_, ?_, by simpa [size_writeAt] using h.cap, h.fits⟩
          · simp; omega
          · have htail : readAt a.cells (p + m).toNat (a.count - p.toNat - m.toNat) =
                ((xs.drop (p + m).toNat).take (a.count - p.toNat - m.toNat)).map some :=
              readAt_sub_of_rep h.rep _ _ (by omega)
            intro i hi
            have hil : i < xs.length - m.toNat := by
              have : (xs.take p.toNat ++ xs.drop (p + m).toNat).length = xs.length - m.toNat := by simp; omega
              omega
            rw [getElem?_writeAt, htail]
            simp only [List.length_map, List.length_take, List.length_drop]
            by_cases h1 : i < p.toNat
            · have n1 : ¬ (p.toNat ≤ i ∧ i < p.toNat + min (a.count - p.toNat - m.toNat) (xs.length - (p + m).toNat) ∧ i < a.cells.size) := by omega
              rw [if_neg n1, List.getElem?_append_left (by simp; omega), List.getElem?_take]
              simp only [h1, if_true]
              exact h.rep i (by omega)
            · have hsz := h.rep.len_le
              have y1 : p.toNat ≤ i ∧ i < p.toNat + min (a.count - p.toNat - m.toNat) (xs.length - (p + m).toNat) ∧ i < a.cells.size := by omega
              rw [if_pos y1, List.getElem?_append_right (by simp; omega)]
              have hl : (List.take p.toNat xs).length = p.toNat := by simp; omega
              rw [hl]
              have h3 : i - p.toNat < a.count - p.toNat - m.toNat := by omega
              have h5 : (p + m).toNat + (i - p.toNat) < xs.length := by omega
              simp [h3, h5]

/-- `janet_put` on an array: an ill-typed / negative / too large key raises the error; a key past the end first
extends the array with nil -/
theorem Arr.put_abs {a : Arr} {xs : List Val} (h : a.Abs xs) (key : Arg) (v : Val) :
    (a.put key v = (a, .err)) ∨
    ∃ i : Int, key = .int i ∧ 0 ≤ i ∧ i < i32max - 1 ∧ (a.put key v).2 = .ok ∧
      (a.put key v).1.Abs ((if i ≥ xs.length then xs ++ List.replicate (i.toNat + 1 - xs.length) vNil else xs).set i.toNat v) := by
  unfold Arr.put
  have hce := h.count_eq
  cases hc : getterCheckint key (i32max - 1) with
  | none => left; rfl
  | some i =>
    right
    have hb := checkint_bounds key _ i hc
    have hkey : key = .int i := by
      unfold getterCheckint at hc
      cases key with
      | int m =>
        simp only [] at hc
        by_cases c1 : m < 0
        · rw [if_pos c1] at hc; cases hc
        · rw [if_neg c1] at hc
          by_cases c2 : m ≥ i32max - 1
          · rw [if_pos c2] at hc; cases hc
          · rw [if_neg c2] at hc; cases hc; rfl
      | nil => cases hc
      | bad => cases hc
    refine ⟨i, hkey, hb.1, hb.2, ?_⟩
    simp only []
    by_cases c : i ≥ (a.count : Int)
    · have c' : i ≥ (xs.length : Int) := by omega
      rw [if_pos c, if_pos c']
      have hs := Arr.setcount_abs h (i + 1) (by have := i32max_eq; omega)
      have e1 : ¬ (i + 1 < 0) := by omega
      have e2 : i + 1 > (xs.length : Int) := by omega
      rw [if_neg e1, if_pos e2] at hs
      rw [hs.1]
      simp only []
      have hA := hs.2
      have e3 : (i + 1).toNat - xs.length = i.toNat + 1 - xs.length := by omega
      rw [e3] at hA
      refine ⟨by first | rfl | trivial, ⟨?_, ?_, by simpa using hA.cap, hA.fits⟩⟩
      · simp [hA.count_eq]
      · intro j hj
        rw [Array.getElem?_setIfInBounds]
        have hlen : j < (xs ++ List.replicate (i.toNat + 1 - xs.length) vNil).length := by simpa using hj
        by_cases hji : i.toNat = j
        · subst hji
          have : i.toNat < (a.setcount (i + 1)).1.cells.size := by
            have := hA.rep.len_le; omega
          have hlen2 : i.toNat < xs.length + (i.toNat + 1 - xs.length) := by omega
          simp [this, hlen2]
        · simp [hji, hA.rep j hlen]
    · have c' : ¬ i ≥ (xs.length : Int) := by omega
      rw [if_neg c, if_neg c']
      refine ⟨by first | rfl | trivial, ⟨by simp [hce], ?_, by simpa using h.cap, h.fits⟩⟩
      intro j hj
      rw [Array.getElem?_setIfInBounds]
      have hlen : j < xs.length := by simpa using hj
      by_cases hji : i.toNat = j
      · subst hji
        have : i.toNat < a.cells.size := by have := h.rep.len_le; omega
        simp [this, hlen]
      · simp [hji, h.rep j hlen]

/-- `janet_putindex` on an array (shape read off the current source: the gap is nil-filled): in range it overwrites,
past the end it extends with nil up to the index -/
theorem Arr.putindex_abs {a : Arr} {xs : List Val} (h : a.Abs xs) (index : Int) (v : Val)
    (h0 : 0 ≤ index) (h1 : index < i32max) :
    (a.putindex index v).2 = .ok ∧
    (a.putindex index v).1.Abs (if index ≥ xs.length then xs ++ List.replicate (index.toNat - xs.length) vNil ++ [v]
                                 else xs.set index.toNat v) := by
  unfold Arr.putindex Arr.putindexWith
  simp only [putindexFillsArrayGap]
  have hce := h.count_eq
  have hn0 : ¬ index < 0 := by omega
  rw [if_neg hn0]
  by_cases c : index ≥ (a.count : Int)
  · have c' : index ≥ (xs.length : Int) := by omega
    rw [if_pos c, if_pos c']
    have hn1 : ¬ index + 1 > i32max := by omega
    rw [if_neg hn1]
    obtain ⟨a', he, ha', hcc, hcnt⟩ := Arr.ensure_abs h (index + 1) putindexGrowth growth_facts.2.2.2.2 (by omega) (by omega)
    rw [he]
    simp only [if_true]
    have hsz : index.toNat + 1 ≤ a'.cells.size := by have := ha'.cap; omega
    have r1 := rep_write_append ha'.rep (List.replicate (index.toNat - xs.length) vNil) (by simp; omega)
    have hl1 : (xs ++ List.replicate (index.toNat - xs.length) vNil).length = index.toNat := by simp; omega
    have r2 := rep_set_push r1 v (by rw [hl1, size_writeAt]; omega)
    rw [hl1] at r2
    refine ⟨by first | rfl | trivial, ⟨?_, ?_, ?_, ha'.fits⟩⟩
    · simp; omega
    · simp only []
      rw [hce]
      simpa using r2
    · simpa [size_writeAt] using ha'.cap
  · have c' : ¬ index ≥ (xs.length : Int) := by omega
    rw [if_neg c, if_neg c']
    refine ⟨rfl, ⟨by simp [hce], ?_, by simpa using h.cap, h.fits⟩⟩
    intro j hj
    rw [Array.getElem?_setIfInBounds]
    have hlen : j < xs.length := by simpa using hj
    by_cases hji : index.toNat = j
    · subst hji
      have : index.toNat < a.cells.size := by have := h.rep.len_le; omega
      simp [this, hlen]
    · simp [hji, h.rep j hlen]

/-- pushing a list of values one by one (the loops of array/concat and array/join) -/
theorem Arr.pushAll_abs (ys : List Val) : ∀ {a : Arr} {xs : List Val}, a.Abs xs →
    (xs.length : Int) + ys.length ≤ i32max →
    (a.pushAll (ys.map some)).2 = .ok ∧ (a.pushAll (ys.map some)).1.Abs (xs ++ ys) := by
  induction ys with
  | nil => intro a xs h _; simpa [Arr.pushAll] using h
  | cons y rest ih =>
    intro a xs h hb
    simp only [List.map_cons]
    unfold Arr.pushAll
    have hce := h.count_eq
    have hlt : ¬ (a.count : Int) = i32max := by simp at hb; omega
    rw [if_neg hlt]
    obtain ⟨a', he, ha', hc, hcnt⟩ := Arr.ensure_abs h (a.count + 1) arrayPushGrowth growth_facts.1 (by omega) (by simp at hb; omega)
    rw [he]
    simp only []
    have hsz : xs.length < a'.cells.size := by have := ha'.cap; omega
    have hA : ({ a' with cells := a'.cells.setIfInBounds a.count (some y), count := a.count + 1 } : Arr).Abs (xs ++ [y]) := by
      refine ⟨by simp [hce], ?_, by simpa using ha'.cap, ha'.fits⟩
      rw [hce]
      exact rep_set_push ha'.rep y hsz
    have := ih hA (by simp at hb ⊢; omega)
    simpa using this

/-- parts of array/concat at the list level -/
inductive SPart where
  | one (v : Val)
  | many (ys : List Val)
  | self

def SPart.toPart : SPart → Part
  | .one v => .one v
  | .many ys => .many (ys.map some)
  | .self => .self

/-- what a part contributes when the destination currently holds `acc` -/
def SPart.items (p : SPart) (acc : List Val) : List Val :=
  match p with
  | .one v => [v]
  | .many ys => ys
  | .self => acc

def specConcat (xs : List Val) (ps : List SPart) : List Val :=
  ps.foldl (fun acc p => acc ++ p.items acc) xs

/-- `cfun_array_concat`: appends every part in order (an array passed to itself contributes its contents at that
moment), provided the final length fits `int32_t` -/
theorem Arr.concat_abs (ps : List SPart) : ∀ {a : Arr} {xs : List Val}, a.Abs xs →
    ((specConcat xs ps).length : Int) ≤ i32max →
    (a.concat (ps.map SPart.toPart)).2 = .ok ∧ (a.concat (ps.map SPart.toPart)).1.Abs (specConcat xs ps) := by
  induction ps with
  | nil => intro a xs h _; exact ⟨rfl, h⟩
  | cons p rest ih =>
    intro a xs h hb
    have hmono : ∀ (l : List SPart) (zs : List Val), zs.length ≤ (specConcat zs l).length := by
      intro l
      induction l with
      | nil => intro zs; exact Nat.le_refl _
      | cons q l ihl =>
        intro zs
        have := ihl (zs ++ q.items zs)
        simp only [specConcat, List.foldl_cons] at this ⊢
        simp at this
        omega
    have hstep : specConcat xs (p :: rest) = specConcat (xs ++ p.items xs) rest := rfl
    rw [hstep] at hb ⊢
    have hlen := hmono rest (xs ++ p.items xs)
    simp only [List.map_cons]
    unfold Arr.concat
    cases p with
    | one v =>
      simp only [SPart.toPart, SPart.items] at hb hlen ⊢
      have := Arr.pushAll_abs [v] h (by simp at hlen ⊢; omega)
      simp only [List.map_cons, List.map_nil] at this
      rw [this.1]
      exact ih this.2 hb
    | many ys =>
      simp only [SPart.toPart, SPart.items] at hb hlen ⊢
      have := Arr.pushAll_abs ys h (by simp at hlen ⊢; omega)
      rw [this.1]
      exact ih this.2 hb
    | self =>
      simp only [SPart.toPart, SPart.items] at hb hlen ⊢
      have hce := h.count_eq
      obtain ⟨a', he, ha', hc, hcnt⟩ := Arr.ensure_abs h ((a.count : Int) + a.count) arrayPushGrowth growth_facts.1 (by omega) (by simp at hlen; omega)
      rw [he]
      simp only []
      have := Arr.pushAll_abs xs ha' (by simp at hlen ⊢; omega)
      rw [h.items, this.1]
      exact ih this.2 hb

/-- `cfun_array_trim` keeps the contents and makes capacity = count -/
theorem Arr.trim_abs {a : Arr} {xs : List Val} (h : a.Abs xs) : (a.trim).2 = .ok ∧ (a.trim).1.Abs xs := by
  unfold Arr.trim
  have hce := h.count_eq
  by_cases h0 : a.count ≠ 0
  · rw [if_pos h0]
    by_cases h1 : (a.count : Int) < a.capacity
    · rw [if_pos h1]
      refine ⟨rfl, ⟨hce, rep_realloc h.rep _ (by omega), by simp [size_realloc], by have := h.fits; simp only []; omega⟩⟩
    · rw [if_neg h1]; exact ⟨rfl, h⟩
  · rw [if_neg h0]
    have hx : xs = [] := List.length_eq_zero_iff.mp (by omega)
    subst hx
    exact ⟨rfl, ⟨hce, rep_nil _, by simp, by have := i32max_eq; simp only []; omega⟩⟩

/-! ### buffers -/

/-- the buffer `b` represents the byte list `xs` -/
structure Buf.Abs (b : Buf) (xs : List Nat) : Prop where
  count_eq : b.count = xs.length
  rep : Rep b.cells xs
  cap : b.cells.size = b.capacity.toNat
  fits : b.capacity ≤ i32max
  pos : 0 < b.capacity

/-- **count ≤ capacity** for buffers -/
theorem Buf.Abs.count_le {b : Buf} {xs : List Nat} (h : b.Abs xs) : (b.count : Int) ≤ b.capacity := by
  have := h.rep.len_le
  have h1 := h.cap; have h2 := h.count_eq; have h3 := h.pos
  omega

theorem Buf.Abs.items {b : Buf} {xs : List Nat} (h : b.Abs xs) : b.items = xs.map some := by
  unfold Buf.items
  rw [h.count_eq]
  exact readAt_of_rep h.rep

theorem buf_facts : (1 : Int) ≤ bufferSetcountGrowth ∧ (2 : Int) ≤ bufferExtraGrowth ∧ (0 : Int) < bufferMinCap ∧
    bufferMinCap ≤ i32max ∧ bufferExtraGrowth ≤ 2 := by decide

theorem Buf.new_abs (c : Int) (hc : c ≤ i32max) : (Buf.new c).Abs [] := by
  unfold Buf.new
  have hf := buf_facts
  refine ⟨rfl, rep_nil _, by simp, ?_, ?_⟩
  · simp only []
    by_cases h : c < bufferMinCap
    · rw [if_pos h]; exact hf.2.2.2.1
    · rw [if_neg h]; exact hc
  · simp only []
    by_cases h : c < bufferMinCap
    · rw [if_pos h]; exact hf.2.2.1
    · rw [if_neg h]; omega

/-- `janet_buffer_ensure` (growth ≥ 1, request fits `int32_t`): never out of memory, contents kept -/
theorem Buf.ensure_abs {b : Buf} {xs : List Nat} (h : b.Abs xs) (c g : Int) (hg : 1 ≤ g) (hc : c ≤ i32max) :
    ∃ b', b.ensure c g = some b' ∧ b'.Abs xs ∧ c ≤ b'.capacity ∧ b'.count = b.count := by
  unfold Buf.ensure
  by_cases h1 : c ≤ b.capacity
  · rw [if_pos h1]; exact ⟨b, rfl, h, h1, rfl⟩
  · rw [if_neg h1]
    simp only []
    have hle := h.rep.len_le
    have hcap := h.cap
    have hcnt := h.count_eq
    have hpos := h.pos
    have hcg : c ≤ c * g := by
      have : c * 1 ≤ c * g := Int.mul_le_mul_of_nonneg_left hg (by omega)
      omega
    generalize hnc : (if c * g > i32max then i32max else c * g) = nc
    have hnc1 : c ≤ nc ∧ nc ≤ i32max := by
      by_cases cc : c * g > i32max
      · rw [if_pos cc] at hnc; omega
      · rw [if_neg cc] at hnc; omega
    have hno : ¬ (nc ≤ 0) := by omega
    rw [if_neg hno]
    exact ⟨_, rfl, ⟨hcnt, rep_realloc h.rep _ (by omega), by simp [size_realloc], hnc1.2, by simp only []; omega⟩, hnc1.1, rfl⟩

/-- `janet_buffer_extra(n)`: the overflow guard raises the error, otherwise there is room for `n` more bytes -/
theorem Buf.extra_abs {b : Buf} {xs : List Nat} (h : b.Abs xs) (n : Int) (hn : 0 ≤ n) :
    (n + b.count > i32max ∧ b.extra n = (b, .err)) ∨
    (n + b.count ≤ i32max ∧ (b.extra n).2 = .ok ∧ (b.extra n).1.Abs xs ∧ (b.count : Int) + n ≤ (b.extra n).1.capacity ∧
      (b.extra n).1.count = b.count) := by
  unfold Buf.extra
  have hf := buf_facts
  by_cases h1 : n + (b.count : Int) > i32max
  · left; exact ⟨h1, by rw [if_pos h1]⟩
  · right
    rw [if_neg h1]
    simp only []
    refine ⟨by omega, ?_⟩
    by_cases h2 : (b.count : Int) + n > b.capacity
    · rw [if_pos h2]
      have hge : bufferExtraGrowth = 2 := by omega
      generalize hnc : (if (b.count : Int) + n > i32max / bufferExtraGrowth then i32max else ((b.count : Int) + n) * bufferExtraGrowth) = nc
      have hnc1 : (b.count : Int) + n ≤ nc ∧ nc ≤ i32max := by
        have hi := i32max_eq
        rw [hge] at hnc
        by_cases cc : (b.count : Int) + n > i32max / 2
        · rw [if_pos cc] at hnc; omega
        · rw [if_neg cc] at hnc; omega
      have hpos := h.pos
      have hno : ¬ (nc ≤ 0) := by omega
      rw [if_neg hno]
      have hle := h.rep.len_le; have hcap := h.cap; have hcnt := h.count_eq
      exact ⟨rfl, ⟨hcnt, rep_realloc h.rep _ (by omega), by simp [size_realloc], hnc1.2, by simp only []; omega⟩, hnc1.1, rfl⟩
    · rw [if_neg h2]; exact ⟨rfl, h, by show (b.count : Int) + n ≤ b.capacity; omega, rfl⟩

/-- `janet_buffer_push_bytes`: appends or raises "buffer overflow" -/
theorem Buf.pushBytes_abs {b : Buf} {xs : List Nat} (h : b.Abs xs) (ys : List Nat) :
    ((xs.length : Int) + ys.length > i32max ∧ b.pushBytes (ys.map some) = (b, .err)) ∨
    ((b.pushBytes (ys.map some)).2 = .ok ∧ (b.pushBytes (ys.map some)).1.Abs (xs ++ ys)) := by
  unfold Buf.pushBytes
  have hce := h.count_eq
  simp only [List.length_map]
  by_cases h0 : ys.length = 0
  · right
    rw [if_pos h0]
    have : ys = [] := List.length_eq_zero_iff.mp h0
    subst this
    exact ⟨rfl, by simpa using h⟩
  · rw [if_neg h0]
    rcases Buf.extra_abs h (ys.length : Int) (by omega) with ⟨hgt, he⟩ | ⟨hle, hok, hA, hroom, hcnt⟩
    · left
      rw [he]
      exact ⟨by omega, rfl⟩
    · right
      rw [hok]
      simp only []
      refine ⟨by first | rfl | trivial, ⟨?_, ?_, by simpa [size_writeAt] using hA.cap, hA.fits, hA.pos⟩⟩
      · simp; omega
      · simp only []
        rw [hce]
        exact rep_write_append hA.rep ys (by have := hA.cap; have := hA.pos; omega)

/-- `janet_buffer_setcount`: truncates, or extends with zero bytes -/
theorem Buf.setcount_abs {b : Buf} {xs : List Nat} (h : b.Abs xs) (c : Int) (hc : c ≤ i32max) :
    (b.setcount c).2 = .ok ∧
    (b.setcount c).1.Abs (if c < 0 then xs else if c > xs.length then xs ++ List.replicate (c.toNat - xs.length) 0 else xs.take c.toNat) := by
  unfold Buf.setcount
  have hce := h.count_eq
  by_cases h0 : c < 0
  · rw [if_pos h0, if_pos h0]; exact ⟨rfl, h⟩
  · rw [if_neg h0, if_neg h0]
    by_cases h1 : c > (b.count : Int)
    · have h1' : c > (xs.length : Int) := by omega
      rw [if_pos h1, if_pos h1']
      obtain ⟨b', he, hb', hcc, hcnt⟩ := Buf.ensure_abs h c bufferSetcountGrowth buf_facts.1 hc
      rw [he]
      refine ⟨rfl, ⟨?_, ?_, by simpa [size_writeAt] using hb'.cap, hb'.fits, hb'.pos⟩⟩
      · simp; omega
      · simp only []
        rw [hce]
        have := rep_write_append hb'.rep (List.replicate (c.toNat - xs.length) 0) (by
          have := hb'.cap; have := hb'.pos; simp; omega)
        simpa using this
    · have h1' : ¬ c > (xs.length : Int) := by omega
      rw [if_neg h1, if_neg h1']
      refine ⟨rfl, ⟨?_, rep_take h.rep _, h.cap, h.fits, h.pos⟩⟩
      simp; omega

/-- `cfun_buffer_popn` -/
theorem Buf.popn_abs {b : Buf} {xs : List Nat} (h : b.Abs xs) (n : Arg) :
    (b.popn n = (b, .err)) ∨
    ∃ m : Int, n = .int m ∧ 0 ≤ m ∧ (b.popn n).2 = .ok ∧ (b.popn n).1.Abs (xs.take (xs.length - m.toNat)) := by
  unfold Buf.popn
  have hce := h.count_eq
  cases hg : getInteger n with
  | none => left; rfl
  | some m =>
    have hn : n = .int m := by
      cases n with
      | int k => simp [getInteger] at hg; rw [hg]
      | nil => cases hg
      | bad => cases hg
    simp only []
    by_cases c0 : m < 0
    · left; rw [if_pos c0]
    · right
      rw [if_neg c0]
      refine ⟨m, hn, by omega, ?_⟩
      by_cases c1 : (b.count : Int) < m
      · rw [if_pos c1]
        have : xs.length - m.toNat = 0 := by omega
        rw [this]
        exact ⟨rfl, ⟨by simp, rep_nil _, h.cap, h.fits, h.pos⟩⟩
      · rw [if_neg c1]
        refine ⟨rfl, ⟨?_, rep_take h.rep _, h.cap, h.fits, h.pos⟩⟩
        simp; omega

/-- `cfun_buffer_fill` with a well-typed byte -/
theorem Buf.fill_abs {b : Buf} {xs : List Nat} (h : b.Abs xs) (v : Int) :
    (b.fill (some (.int v))).2 = .ok ∧ (b.fill (some (.int v))).1.Abs (List.replicate xs.length (lowByte v)) := by
  unfold Buf.fill
  simp only [byteArg, getInteger, Option.map_some]
  refine ⟨by first | rfl | trivial, ⟨by simp [h.count_eq], ?_, by simpa [size_writeAt] using h.cap, h.fits, h.pos⟩⟩
  have := rep_write_append (rep_nil b.cells) (List.replicate b.count (lowByte v)) (by
    have := h.rep.len_le; have := h.count_eq; simp; omega)
  simpa [h.count_eq] using this

/-- memcpy of `ys` over the represented list at offset `p` (the core of buffer/blit and buffer/push-at) -/
theorem rep_write_over {α : Type} {cells : Array (Option α)} {xs : List α} (r : Rep cells xs) (p : Nat) (ys : List α)
    (hp : p ≤ xs.length) (hl : p + ys.length ≤ cells.size) :
    Rep (writeAt cells p (ys.map some)) (xs.take p ++ ys ++ xs.drop (p + ys.length)) := by
  intro i h
  have hlen : i < p + ys.length + (xs.length - (p + ys.length)) := by
    have : (xs.take p ++ ys ++ xs.drop (p + ys.length)).length = p + ys.length + (xs.length - (p + ys.length)) := by
      simp; omega
    omega
  rw [getElem?_writeAt]
  simp only [List.length_map]
  have hl1 : (List.take p xs).length = p := by simp; omega
  by_cases h1 : i < p
  · have n1 : ¬ (p ≤ i ∧ i < p + ys.length ∧ i < cells.size) := by omega
    rw [if_neg n1, List.append_assoc, List.getElem?_append_left (by omega), List.getElem?_take]
    simp only [h1, if_true]
    exact r i (by omega)
  · rw [List.append_assoc, List.getElem?_append_right (by omega), hl1]
    by_cases h2 : i < p + ys.length
    · have y1 : p ≤ i ∧ i < p + ys.length ∧ i < cells.size := by omega
      rw [if_pos y1, List.getElem?_append_left (by omega)]
      have : i - p < ys.length := by omega
      simp [this]
    · have n1 : ¬ (p ≤ i ∧ i < p + ys.length ∧ i < cells.size) := by omega
      rw [if_neg n1, List.getElem?_append_right (by omega), List.getElem?_drop]
      have e : p + ys.length + (i - p - ys.length) = i := by omega
      rw [e]
      exact r i (by omega)

theorem blit_finish {d' : Buf} {xs : List Nat} (hd' : d'.Abs xs) (od ls : Int) (chunk : List Nat)
    (hod : 0 ≤ od ∧ od ≤ xs.length) (hls : 0 ≤ ls) (hcl : chunk.length = ls.toNat) (hcc : od + ls ≤ d'.capacity) :
    Buf.Abs { d' with count := if od + ls > (d'.count : Int) then (od + ls).toNat else d'.count,
                      cells := writeAt d'.cells od.toNat (chunk.map some) }
      (xs.take od.toNat ++ chunk ++ xs.drop (od.toNat + chunk.length)) := by
  have hcap := hd'.cap; have hpos := hd'.pos; have hce := hd'.count_eq
  have hw := rep_write_over hd'.rep od.toNat chunk (by omega) (by omega)
  refine ⟨?_, hw, by simpa [size_writeAt] using hd'.cap, hd'.fits, hd'.pos⟩
  simp only []
  have hlen : (xs.take od.toNat ++ chunk ++ xs.drop (od.toNat + chunk.length)).length =
      od.toNat + chunk.length + (xs.length - (od.toNat + chunk.length)) := by simp; omega
  rw [hlen, hcl, hce]
  by_cases c : od + ls > (xs.length : Int)
  · rw [if_pos c]; omega
  · rw [if_neg c]; omega

/-- the copying part of buffer/blit with decoded, in-range offsets, source different from the destination: the chunk
`ys[os, os+ls)` overwrites the destination from `od` on (extending it when it reaches past the end); "buffer blit out
of range" when the end would not fit `int32_t` -/
theorem Buf.blitCore_abs {d : Buf} {xs : List Nat} (h : d.Abs xs) (ys : List Nat) (od os ls : Int)
    (hod : 0 ≤ od ∧ od ≤ xs.length) (hos : 0 ≤ os) (hls : 0 ≤ ls) (hsrc : os + ls ≤ ys.length) :
    (od + ls > i32max ∧ d.blitCore (some (ys.map some)) ys.length od os ls = (d, .err)) ∨
    ((d.blitCore (some (ys.map some)) ys.length od os ls).2 = .ok ∧
     (d.blitCore (some (ys.map some)) ys.length od os ls).1.Abs
       (xs.take od.toNat ++ (ys.drop os.toNat).take ls.toNat ++
        xs.drop (od.toNat + ((ys.drop os.toNat).take ls.toNat).length))) := by
  unfold Buf.blitCore
  simp only []
  by_cases h1 : od + ls > i32max
  · left; exact ⟨h1, by rw [if_pos h1]⟩
  · right
    rw [if_neg h1]
    obtain ⟨d', he, hd', hcc, hcnt⟩ := Buf.ensure_abs h (od + ls) 2 (by omega) (by omega)
    rw [he]
    simp only []
    rw [← List.map_drop, ← List.map_take]
    exact ⟨by first | rfl | trivial, blit_finish hd' od ls _ hod hls (by simp; omega) hcc⟩

/-- ... and with the destination itself as source (memmove; the bytes are read after the reallocation) -/
theorem Buf.blitCore_self_abs {d : Buf} {xs : List Nat} (h : d.Abs xs) (od os ls : Int)
    (hod : 0 ≤ od ∧ od ≤ xs.length) (hos : 0 ≤ os) (hls : 0 ≤ ls) (hsrc : os + ls ≤ xs.length) :
    (od + ls > i32max ∧ d.blitCore none xs.length od os ls = (d, .err)) ∨
    ((d.blitCore none xs.length od os ls).2 = .ok ∧
     (d.blitCore none xs.length od os ls).1.Abs
       (xs.take od.toNat ++ (xs.drop os.toNat).take ls.toNat ++
        xs.drop (od.toNat + ((xs.drop os.toNat).take ls.toNat).length))) := by
  unfold Buf.blitCore
  simp only []
  by_cases h1 : od + ls > i32max
  · left; exact ⟨h1, by rw [if_pos h1]⟩
  · right
    rw [if_neg h1]
    obtain ⟨d', he, hd', hcc, hcnt⟩ := Buf.ensure_abs h (od + ls) 2 (by omega) (by omega)
    rw [he]
    simp only []
    rw [readAt_of_rep hd'.rep, ← List.map_drop, ← List.map_take]
    exact ⟨by first | rfl | trivial, blit_finish hd' od ls _ hod hls (by simp; omega) hcc⟩

end JanetModel.Seq
