/-
Lemmas about the sequence model (Seq/Model.lean): storage primitives (`realloc`, `writeAt`, `readAt`), the
representation relation between the cells of an array / buffer and a `List`, `janet_array_ensure`.
-/
import JanetModel.Seq.Model
namespace JanetModel.Seq
open JanetModel.Gen.Seq

theorem size_writeAt {α : Type} (cells : Array (Option α)) (p : Nat) (xs : List (Option α)) :
    (writeAt cells p xs).size = cells.size := by
  induction xs generalizing cells p with
  | nil => rfl
  | cons x xs ih => unfold writeAt; rw [ih]; simp

theorem getElem?_writeAt {α : Type} (cells : Array (Option α)) (p : Nat) (xs : List (Option α)) (i : Nat) :
    (writeAt cells p xs)[i]? = if p ≤ i ∧ i < p + xs.length ∧ i < cells.size then xs[i - p]? else cells[i]? := by
  induction xs generalizing cells p with
  | nil =>
    have : ¬ (p ≤ i ∧ i < p + ([] : List (Option α)).length ∧ i < cells.size) := by simp; omega
    rw [if_neg this]; rfl
  | cons x xs ih =>
    unfold writeAt
    rw [ih]
    simp only [Array.size_setIfInBounds, List.length_cons, Array.getElem?_setIfInBounds]
    by_cases h1 : p + 1 ≤ i ∧ i < p + 1 + xs.length ∧ i < cells.size
    · have h2 : p ≤ i ∧ i < p + (xs.length + 1) ∧ i < cells.size := by omega
      rw [if_pos h1, if_pos h2]
      have : i - p = (i - (p + 1)) + 1 := by omega
      rw [this, List.getElem?_cons_succ]
    · rw [if_neg h1]
      by_cases h3 : p = i
      · subst h3
        by_cases h4 : p < cells.size
        · have h2 : p ≤ p ∧ p < p + (xs.length + 1) ∧ p < cells.size := by omega
          rw [if_pos h2]; simp [h4]
        · have h2 : ¬ (p ≤ p ∧ p < p + (xs.length + 1) ∧ p < cells.size) := by omega
          rw [if_neg h2]; simp [h4]
      · have h2 : ¬ (p ≤ i ∧ i < p + (xs.length + 1) ∧ i < cells.size) := by omega
        rw [if_neg h2]; simp [h3]

theorem size_realloc {α : Type} (cells : Array (Option α)) (n : Nat) : (realloc cells n).size = n := by
  unfold realloc
  by_cases h : n ≤ cells.size
  · rw [if_pos h]; simp; omega
  · rw [if_neg h]; simp; omega

theorem getElem?_realloc {α : Type} (cells : Array (Option α)) (n i : Nat) :
    (realloc cells n)[i]? = if i < n then (if i < cells.size then cells[i]? else some none) else none := by
  unfold realloc
  by_cases h : n ≤ cells.size
  · rw [if_pos h]
    by_cases hi : i < n
    · have h2 : i < cells.size := by omega
      have h3 : i < min n cells.size := by omega
      rw [if_pos hi, if_pos h2]
      simp [h3]
    · rw [if_neg hi]
      have h3 : ¬ i < min n cells.size := by omega
      simp [h3]
  · rw [if_neg h]
    by_cases hi : i < n
    · rw [if_pos hi]
      by_cases h2 : i < cells.size
      · rw [if_pos h2]; simp [Array.getElem?_append, h2]
      · rw [if_neg h2]
        have : i - cells.size < n - cells.size := by omega
        simp [Array.getElem?_append, h2, this]
    · rw [if_neg hi]
      have h2 : ¬ i < cells.size := by omega
      have : ¬ i - cells.size < n - cells.size := by omega
      simp [Array.getElem?_append, h2, this]


/-! ### representation -/

/-- the first `xs.length` cells hold exactly `xs` (all initialised) -/
def Rep {α : Type} (cells : Array (Option α)) (xs : List α) : Prop :=
  ∀ i, i < xs.length → cells[i]? = some (xs[i]?)

theorem Rep.len_le {α : Type} {cells : Array (Option α)} {xs : List α} (r : Rep cells xs) : xs.length ≤ cells.size := by
  apply Decidable.byContradiction
  intro c
  have hlt : cells.size < xs.length := by omega
  have := r cells.size hlt
  simp at this

theorem getD_of_rep {α : Type} {cells : Array (Option α)} {xs : List α} (r : Rep cells xs) (i : Nat) (h : i < xs.length) :
    cells.getD i none = some xs[i] := by
  rw [Array.getD_eq_getD_getElem?, r i h]; simp [h]

theorem readAt_length {α : Type} (cells : Array (Option α)) (p n : Nat) : (readAt cells p n).length = n := by
  simp [readAt]

theorem readAt_getElem {α : Type} (cells : Array (Option α)) (p n i : Nat) (h : i < (readAt cells p n).length) :
    (readAt cells p n)[i] = cells.getD (p + i) none := by
  simp [readAt]

/-- reading the first `xs.length` cells gives `xs` -/
theorem readAt_of_rep {α : Type} {cells : Array (Option α)} {xs : List α} (r : Rep cells xs) :
    readAt cells 0 xs.length = xs.map some := by
  apply List.ext_getElem
  · simp [readAt]
  · intro i h1 h2
    rw [readAt_getElem]
    simp only [List.getElem_map, Nat.zero_add]
    exact getD_of_rep r i (by simpa [readAt] using h1)

/-- a slice of the represented list, read from the cells -/
theorem readAt_sub_of_rep {α : Type} {cells : Array (Option α)} {xs : List α} (r : Rep cells xs) (p n : Nat)
    (hpn : p + n ≤ xs.length) : readAt cells p n = ((xs.drop p).take n).map some := by
  apply List.ext_getElem
  · simp [readAt]; omega
  · intro i h1 h2
    rw [readAt_getElem]
    have hi : i < n := by simpa [readAt] using h1
    simp only [List.getElem_map, List.getElem_take, List.getElem_drop]
    exact getD_of_rep r (p + i) (by omega)

theorem rep_realloc {α : Type} {cells : Array (Option α)} {xs : List α} (r : Rep cells xs) (n : Nat)
    (hn : xs.length ≤ n) : Rep (realloc cells n) xs := by
  intro i h
  have h1 := r i h
  have h2 : i < cells.size := by have := r.len_le; omega
  rw [getElem?_realloc, if_pos (by omega), if_pos h2]
  exact h1

/-! ### arrays -/

/-- the array `a` represents the list `xs`; its storage has the size its `capacity` field says -/
structure Arr.Abs (a : Arr) (xs : List Val) : Prop where
  count_eq : a.count = xs.length
  rep : Rep a.cells xs
  cap : a.cells.size = a.capacity.toNat
  /-- the fields fit their C type `int32_t` -/
  fits : a.capacity ≤ i32max

/-- **count ≤ capacity** (whenever there is an element at all; array/new accepts a negative capacity) -/
theorem Arr.Abs.count_le {a : Arr} {xs : List Val} (h : a.Abs xs) : (a.count : Int) ≤ max a.capacity 0 := by
  have := h.rep.len_le
  have h1 := h.cap; have h2 := h.count_eq
  omega

theorem Arr.Abs.items {a : Arr} {xs : List Val} (h : a.Abs xs) : a.items = xs.map some := by
  unfold Arr.items
  rw [h.count_eq]
  exact readAt_of_rep h.rep

theorem rep_nil {α : Type} (cells : Array (Option α)) : Rep cells ([] : List α) := fun i h => by simp at h

theorem i32max_eq : i32max = 2147483647 := rfl

theorem Arr.Abs.count_fits {a : Arr} {xs : List Val} (h : a.Abs xs) : (a.count : Int) ≤ i32max := by
  have := h.count_le; have := h.fits; have := i32max_eq; omega

theorem Arr.new_abs (c : Int) (hc : c ≤ i32max) : (Arr.new c).Abs [] :=
  ⟨rfl, rep_nil _, by simp [Arr.new], hc⟩

/-- `janet_array_ensure` with a growth factor ≥ 1 and a requested capacity that fits `int32_t`: no out-of-memory,
the contents are kept, the capacity is at least what was asked for and still fits -/
theorem Arr.ensure_abs {a : Arr} {xs : List Val} (h : a.Abs xs) (c g : Int) (hg : 1 ≤ g) (hc0 : 0 ≤ c) (hc : c ≤ i32max) :
    ∃ a', a.ensure c g = some a' ∧ a'.Abs xs ∧ c ≤ a'.capacity ∧ a'.count = a.count := by
  unfold Arr.ensure
  by_cases h1 : c ≤ a.capacity
  · rw [if_pos h1]; exact ⟨a, rfl, h, h1, rfl⟩
  · rw [if_neg h1]
    simp only []
    have hle := h.rep.len_le
    have hcap := h.cap
    have hcnt := h.count_eq
    have hcg : c ≤ c * g := by
      have : c * 1 ≤ c * g := Int.mul_le_mul_of_nonneg_left hg (by omega)
      omega
    generalize hnc : (if c * g > i32max then i32max else c * g) = nc
    have hnc1 : c ≤ nc ∧ nc ≤ i32max := by
      by_cases cc : c * g > i32max
      · rw [if_pos cc] at hnc; omega
      · rw [if_neg cc] at hnc; omega
    have hno : ¬ (nc < 0 ∨ (nc = 0 ∧ a.cells.size ≠ 0)) := by omega
    rw [if_neg hno]
    refine ⟨_, rfl, ⟨hcnt, rep_realloc h.rep _ (by omega), by simp [size_realloc], hnc1.2⟩, hnc1.1, rfl⟩

/-! ### writes -/

/-- storing one more element right after the represented prefix -/
theorem rep_set_push {α : Type} {cells : Array (Option α)} {xs : List α} (r : Rep cells xs) (x : α)
    (hl : xs.length < cells.size) : Rep (cells.setIfInBounds xs.length (some x)) (xs ++ [x]) := by
  intro i h
  rw [Array.getElem?_setIfInBounds]
  by_cases hi : xs.length = i
  · subst hi; simp [hl]
  · have h2 : i < xs.length := by simp at h; omega
    simp [hi, r i h2, List.getElem?_append_left h2]

/-- memcpy of `ys` right after the represented prefix -/
theorem rep_write_append {α : Type} {cells : Array (Option α)} {xs : List α} (r : Rep cells xs) (ys : List α)
    (hl : xs.length + ys.length ≤ cells.size) : Rep (writeAt cells xs.length (ys.map some)) (xs ++ ys) := by
  intro i h
  rw [getElem?_writeAt]
  simp only [List.length_map]
  by_cases hi : i < xs.length
  · have : ¬ (xs.length ≤ i ∧ i < xs.length + ys.length ∧ i < cells.size) := by omega
    rw [if_neg this, r i hi, List.getElem?_append_left hi]
  · have h3 : i < xs.length + ys.length := by simpa using h
    have : xs.length ≤ i ∧ i < xs.length + ys.length ∧ i < cells.size := by omega
    rw [if_pos this, List.getElem?_append_right (by omega)]
    have h4 : i - xs.length < ys.length := by omega
    simp [h4]

theorem rep_take {α : Type} {cells : Array (Option α)} {xs : List α} (r : Rep cells xs) (n : Nat) : Rep cells (xs.take n) := by
  intro i h
  have h2 : i < n ∧ i < xs.length := by
    have : i < min n xs.length := by simpa [List.length_take] using h
    omega
  rw [r i h2.2, List.getElem?_take]
  simp [h2.1]

/-! ### array operations against `List` -/

theorem growth_facts : (1 : Int) ≤ arrayPushGrowth ∧ (1 : Int) ≤ arraySetcountGrowth ∧ (1 : Int) ≤ arrayInsertGrowth ∧
    (1 : Int) ≤ arrayCfunPushGrowth ∧ (1 : Int) ≤ putindexGrowth := by decide

/-- `janet_array_push`: appends, or raises the error when the count is INT32_MAX; never out of memory -/
theorem Arr.push_abs {a : Arr} {xs : List Val} (h : a.Abs xs) (x : Val) :
    ((a.count : Int) = i32max ∧ a.push x = (a, .err)) ∨
    ((a.count : Int) < i32max ∧ (a.push x).2 = .ok ∧ (a.push x).1.Abs (xs ++ [x])) := by
  unfold Arr.push
  by_cases h1 : (a.count : Int) = i32max
  · left; exact ⟨h1, by rw [if_pos h1]⟩
  · right
    have hlt : (a.count : Int) < i32max := by have := h.count_fits; omega
    rw [if_neg h1]
    obtain ⟨a', he, ha', hc, hcnt⟩ := Arr.ensure_abs h (a.count + 1) arrayPushGrowth growth_facts.1 (by omega) (by omega)
    rw [he]
    refine ⟨hlt, rfl, ?_⟩
    have hsz : xs.length < a'.cells.size := by
      have := ha'.cap; have := h.count_eq; omega
    refine ⟨by simp [h.count_eq], ?_, by simpa using ha'.cap, ha'.fits⟩
    rw [h.count_eq]
    exact rep_set_push ha'.rep x hsz

/-- `janet_array_pop`: removes and returns the last element (nil on an empty array) -/
theorem Arr.pop_abs {a : Arr} {xs : List Val} (h : a.Abs xs) :
    (a.pop).1.Abs xs.dropLast ∧ (a.pop).2 = .val (some (xs.getLast?.getD vNil)) := by
  unfold Arr.pop
  by_cases h0 : a.count ≠ 0
  · rw [if_pos h0]
    have hne : xs ≠ [] := by intro e; rw [e] at h; have := h.count_eq; simp at this; exact h0 this
    have hl : xs.length - 1 < xs.length := by have := h.count_eq; omega
    refine ⟨⟨by simp [h.count_eq], ?_, h.cap, h.fits⟩, ?_⟩
    · have := rep_take h.rep (xs.length - 1)
      rwa [← List.dropLast_eq_take] at this
    · simp only []
      rw [h.count_eq, getD_of_rep h.rep _ hl, List.getLast?_eq_getElem?]
      simp [hl]
  · rw [if_neg h0]
    have : a.count = 0 := by omega
    have hx : xs = [] := by
      have hce := h.count_eq
      exact List.length_eq_zero_iff.mp (by omega)
    subst hx
    exact ⟨h, rfl⟩

/-- `cfun_array_push`: appends all values or raises "array overflow" -/
theorem Arr.cfunPush_abs {a : Arr} {xs : List Val} (h : a.Abs xs) (ys : List Val) :
    ((a.cfunPush ys) = (a, .err) ∧ (xs.length + ys.length : Int) ≥ i32max) ∨
    ((a.cfunPush ys).2 = .ok ∧ (a.cfunPush ys).1.Abs (xs ++ ys)) := by
  unfold Arr.cfunPush
  by_cases h1 : i32max - ((ys.length : Int) + 1) + 1 ≤ (a.count : Int)
  · left; rw [if_pos h1]; refine ⟨rfl, ?_⟩; have := h.count_eq; omega
  · right
    rw [if_neg h1]
    simp only []
    have hce := h.count_eq
    obtain ⟨a', he, ha', hc, hcnt⟩ := Arr.ensure_abs h ((a.count : Int) - 1 + ((ys.length : Int) + 1)) arrayCfunPushGrowth
      growth_facts.2.2.2.1 (by omega) (by omega)
    rw [he]
    refine ⟨rfl, ⟨?_, ?_, by simpa [size_writeAt] using ha'.cap, ha'.fits⟩⟩
    · simp; omega
    · simp only []
      rw [hce]
      exact rep_write_append ha'.rep ys (by have := ha'.cap; omega)

/-- `janet_array_setcount`: truncates, or extends with nil -/
theorem Arr.setcount_abs {a : Arr} {xs : List Val} (h : a.Abs xs) (c : Int) (hc : c ≤ i32max) :
    (a.setcount c).2 = .ok ∧
    (a.setcount c).1.Abs (if c < 0 then xs else if c > xs.length then xs ++ List.replicate (c.toNat - xs.length) vNil else xs.take c.toNat) := by
  unfold Arr.setcount
  have hce := h.count_eq
  by_cases h0 : c < 0
  · rw [if_pos h0, if_pos h0]; exact ⟨rfl, h⟩
  · rw [if_neg h0, if_neg h0]
    by_cases h1 : c > (a.count : Int)
    · have h1' : c > (xs.length : Int) := by omega
      rw [if_pos h1, if_pos h1']
      obtain ⟨a', he, ha', hcc, hcnt⟩ := Arr.ensure_abs h c arraySetcountGrowth growth_facts.2.1 (by omega) hc
      rw [he]
      refine ⟨rfl, ⟨?_, ?_, by simpa [size_writeAt] using ha'.cap, ha'.fits⟩⟩
      · simp; omega
      · simp only []
        rw [hce]
        have := rep_write_append ha'.rep (List.replicate (c.toNat - xs.length) vNil) (by
          have := ha'.cap; simp; omega)
        simpa using this
    · have h1' : ¬ c > (xs.length : Int) := by omega
      rw [if_neg h1, if_neg h1']
      refine ⟨rfl, ⟨?_, rep_take h.rep _, h.cap, h.fits⟩⟩
      simp; omega

/-- `cfun_array_fill` -/
theorem Arr.fill_abs {a : Arr} {xs : List Val} (h : a.Abs xs) (v : Val) :
    (a.fill v).2 = .ok ∧ (a.fill v).1.Abs (List.replicate xs.length v) := by
  unfold Arr.fill
  refine ⟨rfl, ⟨by simp [h.count_eq], ?_, by simpa [size_writeAt] using h.cap, h.fits⟩⟩
  have := rep_write_append (rep_nil a.cells) (List.replicate a.count v) (by
    have := h.rep.len_le; have := h.count_eq; simp; omega)
  simpa [h.count_eq] using this

/-- `cfun_array_clear` -/
theorem Arr.clear_abs {a : Arr} {xs : List Val} (h : a.Abs xs) : (a.clear).1.Abs [] :=
  ⟨rfl, rep_nil _, h.cap, h.fits⟩

end JanetModel.Seq
