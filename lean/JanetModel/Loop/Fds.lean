/-
C20 — executable model of descriptor ownership (src/core/ev.c, net.c, os.c, io.c, filewatch.c).  Core Lean only.

The kernel side is the process' descriptor table (`St.open`; `create` hands out the lowest free number, `close` removes a
number).  The janet side is *who is responsible for closing a descriptor*:

  * an open, closeable stream / file object (`St.objs`: object id ↦ descriptor; the VM's own self-pipe / epoll / timerfd and a
    dup travelling inside a marshalled message are objects too).  `janet_stream_close_impl` / `janet_file_close` — reached by an
    explicit close, by `os/proc-close`, by `janet_stream_close` on an error path, and by the finalisers `janet_stream_gc` /
    `cfun_io_gc` — close the descriptor iff the object still has one (`handle != -1`, not `CLOSED`) and forget it;
  * or a C local of the running function (`St.loose`, ghost: the C code has no such list) between the creating call and the
    `close` / the hand-over to an object (`janet_stream`, `make_stream`, `janet_makefile`).

One model function per C function that creates or closes descriptors: it maps the *inputs the model does not decide* (does
the libc call succeed, are the arguments well-typed, does bind / connect / posix_spawn succeed, …) to the sequence of
descriptor operations (`Prim`) the C function performs on that path, each tagged with the call site(s) it mirrors
(`Gen.Fds.fdSites` keys, innermost first).  `step` executes one operation and returns `none` at the statement where
ownership is violated: a local that still holds a descriptor is overwritten or the function is left (return / raise) while a
local still holds one (leak), or a descriptor is closed / handed over by a local that does not hold it (double close: the
number may by then belong to somebody else).  `stepRaw` is the kernel's view only (no ownership), used to exhibit leaks.
-/
import JanetModel.Gen.Fds

namespace JanetModel.Fds

abbrev Fd := Nat
/-- a call site: (function, key) as in `Gen.Fds.fdSites` -/
abbrev Site := String × String
abbrev Oid := Nat

/-- C locals / fields that hold a descriptor inside the modelled functions -/
inductive Var
  | h0 | h1                       -- janet_make_pipe: handles[0], handles[1] (os_pipe: fds[0], fds[1]; selfpipe)
  | pipeIn | pipeOut | pipeErr    -- os_execute_impl: child's ends of :pipe redirections
  | newIn | newOut | newErr       -- os_execute_impl: our ends
  | tmp0 | tmp1 | tmp2            -- os_execute_impl: close-on-exec duplicates of standard descriptors
  | dupIn | dupOut | dupErr       -- get_stdio_for_handle: newHandle
  | fd                            -- os_open, janet_watcher_init, accept (connfd), get_file_for_stream (fd_dup), stream marshal (duph)
  | f                             -- FILE* (fopen, fdopen, tmpfile)
  | sock                          -- cfun_net_connect / cfun_net_listen (sfd)
  | epoll | timerfd
  deriving DecidableEq, Repr

def maxl : List Nat → Nat
  | [] => 0
  | a :: l => max a (maxl l)

def lowestFrom (l : List Nat) : Nat → Nat → Nat
  | 0, _ => maxl l + 1
  | fuel + 1, n => if n ∈ l then lowestFrom l fuel (n + 1) else n

/-- the kernel hands out the lowest descriptor number that is not in use -/
def fresh (l : List Fd) : Fd := lowestFrom l (l.length + 1) 0

structure St where
  /-- the process' descriptor table -/
  «open» : List Fd
  /-- open closeable stream / file objects and the descriptor each owns -/
  objs : List (Oid × Fd)
  /-- C locals -/
  env : Var → Fd
  /-- locals holding a descriptor that no object owns yet -/
  loose : List Var

def St.init (ext : List Fd) : St := { «open» := ext, objs := [], env := fun _ => 0, loose := [] }

inductive Prim
  /-- a successful creating call stores the new descriptor in local `v` -/
  | create (site : List Site) (v : Var)
  /-- `close(v)` -/
  | close (site : List Site) (v : Var)
  /-- `janet_stream(v, …)` / `make_stream` / `janet_makefile`: the new object `o` takes over the descriptor -/
  | wrap (site : List Site) (v : Var) (o : Oid)
  /-- `w = fdopen(v, …)` succeeded: the FILE in `w` takes over descriptor `v` -/
  | move (site : List Site) (v w : Var)
  /-- `janet_stream_close_impl(o)` / `janet_file_close(o)`: close the object's descriptor if it still has one -/
  | closeObj (site : List Site) (o : Oid)
  /-- the C frame is left (return or janet_panic longjmp): its locals are gone -/
  | leave (site : List Site)
  deriving Repr

def Prim.site : Prim → List Site
  | .create s _ | .close s _ | .wrap s _ _ | .move s _ _ | .closeObj s _ | .leave s => s

def Prim.kind : Prim → String
  | .create .. => "create" | .close .. => "close" | .wrap .. => "wrap" | .move .. => "create"
  | .closeObj .. => "close" | .leave .. => "leave"

def setEnv (env : Var → Fd) (v : Var) (x : Fd) : Var → Fd := fun y => if y = v then x else env y

def step (s : St) : Prim → Option St
  | .create _ v =>
    if v ∈ s.loose then none
    else some { s with «open» := fresh s.open :: s.open, env := setEnv s.env v (fresh s.open), loose := v :: s.loose }
  | .close _ v =>
    if v ∈ s.loose then some { s with «open» := s.open.erase (s.env v), loose := s.loose.erase v } else none
  | .wrap _ v o =>
    if v ∈ s.loose then some { s with objs := (o, s.env v) :: s.objs, loose := s.loose.erase v } else none
  | .move _ v w =>
    if v ∈ s.loose ∧ w ∉ s.loose.erase v then
      some { s with env := setEnv s.env w (s.env v), loose := w :: s.loose.erase v }
    else none
  | .closeObj _ o =>
    match s.objs.lookup o with
    | none => some s
    | some x => some { s with «open» := s.open.erase x, objs := s.objs.erase (o, x) }
  | .leave _ => if s.loose = [] then some s else none

def exec : St → List Prim → Option St
  | s, [] => some s
  | s, p :: ps =>
    match step s p with
    | none => none
    | some s' => exec s' ps

/-- the kernel's view: what happens to the descriptor table, whoever owns what -/
def stepRaw (s : St) : Prim → St
  | .create _ v => { s with «open» := fresh s.open :: s.open, env := setEnv s.env v (fresh s.open), loose := v :: s.loose }
  | .close _ v => { s with «open» := s.open.erase (s.env v), loose := s.loose.erase v }
  | .wrap _ v o => { s with objs := (o, s.env v) :: s.objs, loose := s.loose.erase v }
  | .move _ v w => { s with env := setEnv s.env w (s.env v), loose := w :: s.loose.erase v }
  | .closeObj _ o =>
    match s.objs.lookup o with
    | none => s
    | some x => { s with «open» := s.open.erase x, objs := s.objs.erase (o, x) }
  | .leave _ => { s with loose := [] }

def execRaw (s : St) (ps : List Prim) : St := ps.foldl stepRaw s

/-- static ownership discipline: the same checks as `step`, on the list of held locals only -/
def checkStep (l : List Var) : Prim → Option (List Var)
  | .create _ v => if v ∈ l then none else some (v :: l)
  | .close _ v => if v ∈ l then some (l.erase v) else none
  | .wrap _ v _ => if v ∈ l then some (l.erase v) else none
  | .move _ v w => if v ∈ l ∧ w ∉ l.erase v then some (w :: l.erase v) else none
  | .closeObj _ _ => some l
  | .leave _ => if l = [] then some l else none

def check : List Var → List Prim → Option (List Var)
  | l, [] => some l
  | l, p :: ps =>
    match checkStep l p with
    | none => none
    | some l' => check l' ps

/-! ## tree-dependent switches, computed from the generated site table -/

def siteIdx (fn key : String) : Option Nat :=
  (Gen.Fds.fdSites.findIdx? (fun x => x.2.1 == fn && x.2.2.2.1 == key))

def hasSite (fn key : String) : Bool := (siteIdx fn key).isSome

/-- does site `a` come before site `b` in function `fn` (both must exist) -/
def siteBefore (fn a b : String) : Bool :=
  match siteIdx fn a, siteIdx fn b with
  | some i, some j => decide (i < j)
  | _, _ => false

structure Cfg where
  /-- os_execute_impl: every check that can raise (command line strings, :cd, non-pipe redirections) comes before the first
      make_pipes -/
  spawnChecksFirst : Bool
  /-- os_execute_impl: a failed get_stdio_for_handle closes the pipe ends no stream owns yet -/
  spawnStdioFailCloses : Bool
  /-- cfun_io_fopen: the buffer-size argument is checked before fopen -/
  fopenSizeFirst : Bool
  /-- cfun_io_fopen: a failed setvbuf closes the file -/
  fopenSetvbufCloses : Bool
  /-- cfun_net_connect: a failed connect closes the socket through the stream that owns it -/
  connectFailViaStream : Bool
  deriving Repr, DecidableEq

def Cfg.ofGen : Cfg :=
  { spawnChecksFirst :=
      siteBefore "os_execute_impl" "janet_getcstring" "make_pipes(&$1)" &&
      siteBefore "os_execute_impl" "janet_getjstream#3" "make_pipes(&$1)" &&
      siteBefore "os_execute_impl" "janet_panicf" "make_pipes(&$1)" &&
      siteBefore "os_execute_impl" "janet_getdictionary#2" "make_pipes(&$1)"
    spawnStdioFailCloses :=
      hasSite "os_execute_impl" "close_handle($8)#2" && hasSite "os_execute_impl" "close_handle($9)#2" &&
      hasSite "os_execute_impl" "close_handle($9)#3"
    fopenSizeFirst := siteBefore "cfun_io_fopen" "janet_optsize" "fopen((constchar*)$1)"
    fopenSetvbufCloses := hasSite "cfun_io_fopen" "fclose($2)#2"
    connectFailViaStream := hasSite "cfun_net_connect" "janet_stream_close($3)" }

def Cfg.fixed : Cfg := ⟨true, true, true, true, true⟩

/-! ## the C functions -/

def S (fn key : String) : Site := (fn, key)

/-- `janet_make_pipe(handles, mode)`: `pipe()`, then up to four `fcntl`s; `goto error` closes both ends.
    `outer` = the call chain above (who called janet_make_pipe).  Returns the operations and whether it returned 0. -/
def makePipe (outer : List Site) (a b : Var) (pipeOk fcntlOk : Bool) : List Prim × Bool :=
  if !pipeOk then ([], false)
  else
    let c := [Prim.create (S "janet_make_pipe" "pipe($1)" :: outer) a, .create (S "janet_make_pipe" "pipe($1)" :: outer) b]
    if fcntlOk then (c, true)
    else (c ++ [.close (S "janet_make_pipe" "close($1[0])" :: outer) a, .close (S "janet_make_pipe" "close($1[1])" :: outer) b], false)

/-- `os/pipe` -/
def osPipe (argsOk pipeOk fcntlOk : Bool) (o1 o2 : Oid) : List Prim :=
  if !argsOk then [.leave [S "os_pipe" "janet_getflags"]]
  else
    let (ps, ok) := makePipe [S "os_pipe" "janet_make_pipe($1)"] .h0 .h1 pipeOk fcntlOk
    if ok then ps ++ [.wrap [S "os_pipe" "janet_stream($1[0])"] .h0 o1, .wrap [S "os_pipe" "janet_stream($1[1])"] .h1 o2,
                      .leave [S "os_pipe" "return"]]
    else ps ++ [.leave [S "os_pipe" "janet_panicv"]]

/-- `os/open` -/
def osOpen (argsOk openOk : Bool) (o : Oid) : List Prim :=
  if !argsOk then [.leave [S "os_open" "janet_getcstring"]]
  else if !openOk then [.leave [S "os_open" "janet_panicv"]]
  else [.create [S "os_open" "open($1)"] .fd, .wrap [S "os_open" "janet_stream($2)"] .fd o, .leave [S "os_open" "return"]]

/-- `janet_watcher_init` (filewatch/new) -/
def watcherInit (initOk : Bool) (o : Oid) : List Prim :=
  if !initOk then [.leave [S "janet_watcher_init" "janet_panicv"]]
  else [.create [S "janet_watcher_init" "inotify_init1(IN_NONBLOCK|IN_CLOEXEC)"] .fd,
        .wrap [S "janet_watcher_init" "janet_stream($1)"] .fd o, .leave [S "janet_watcher_init" "return"]]

/-- `get_file_for_stream` (ev/to-file): `dup`, `fdopen`, `janet_makejfile` -/
def toFile (sandboxOk dupOk fdopenOk : Bool) (o : Oid) : List Prim :=
  if !sandboxOk then [.leave [S "get_file_for_stream" "janet_sandbox_assert"]]
  else if !dupOk then [.leave [S "get_file_for_stream" "return"]]
  else if fdopenOk then
    [.create [S "get_file_for_stream" "dup($1->handle)"] .fd, .move [S "get_file_for_stream" "fdopen($2)"] .fd .f,
     .wrap [S "janet_makejfile" "makef($1)", S "get_file_for_stream" "janet_makejfile($3)"] .f o, .leave [S "get_file_for_stream" "return"]]
  else
    [.create [S "get_file_for_stream" "dup($1->handle)"] .fd, .close [S "get_file_for_stream" "close($2)"] .fd,
     .leave [S "get_file_for_stream" "return"]]

/-- `janet_stream_marshal`: the dup'ed handle travels in the message (object `msg`) until `janet_stream_unmarshal` makes it
    the handle of a new stream -/
def streamMarshal (unsafeOk dupOk : Bool) (msg : Oid) : List Prim :=
  if !unsafeOk then [.leave [S "janet_stream_marshal" "janet_panic"]]
  else if !dupOk then [.leave [S "janet_stream_marshal" "janet_panicf"]]
  else [.create [S "janet_stream_marshal" "dup($1->handle)"] .fd, .wrap [S "janet_stream_marshal" "janet_marshal_int"] .fd msg,
        .leave [S "janet_stream_marshal" "return"]]

/-- `file/open` -/
def ioFopen (cfg : Cfg) (argsOk sizeOk fopenOk isDir setvbufOk : Bool) (o : Oid) : List Prim :=
  if !argsOk then [.leave [S "cfun_io_fopen" "janet_getstring"]]
  else if cfg.fopenSizeFirst && !sizeOk then [.leave [S "cfun_io_fopen" "janet_optsize"]]
  else if !fopenOk then [.leave [S "cfun_io_fopen" "return"]]
  else
    let c := Prim.create [S "cfun_io_fopen" "fopen((constchar*)$1)"] .f
    if isDir then [c, .close [S "cfun_io_fopen" "fclose($2)"] .f, .leave [S "cfun_io_fopen" "janet_panicf"]]
    else if !cfg.fopenSizeFirst && !sizeOk then [c, .leave [S "cfun_io_fopen" "janet_optsize"]]
    else if !setvbufOk then
      (if cfg.fopenSetvbufCloses then [c, .close [S "cfun_io_fopen" "fclose($2)#2"] .f, .leave [S "cfun_io_fopen" "janet_panic"]]
       else [c, .leave [S "cfun_io_fopen" "janet_panic"]])
    else [c, .wrap [S "janet_makefile" "makef($1)", S "cfun_io_fopen" "janet_makefile($2)"] .f o, .leave [S "cfun_io_fopen" "return"]]

/-- `file/temp` -/
def ioTemp (ok : Bool) (o : Oid) : List Prim :=
  if !ok then [.leave [S "cfun_io_temp" "janet_panicf"]]
  else [.create [S "cfun_io_temp" "tmpfile()"] .f, .wrap [S "janet_makefile" "makef($1)", S "cfun_io_temp" "janet_makefile($1)"] .f o,
        .leave [S "cfun_io_temp" "return"]]

/-- `net_callback_accept` on INIT / READ -/
def netAccept (acceptOk : Bool) (o : Oid) : List Prim :=
  if !acceptOk then [.leave [S "net_callback_accept" "break"]]
  else [.create [S "net_callback_accept" "accept4($1->handle)"] .fd,
        .wrap [S "make_stream" "janet_stream((JanetHandle)$1)", S "net_callback_accept" "make_stream($2)"] .fd o,
        .leave [S "net_callback_accept" "return"]]

/-- `net/connect` -/
def netConnect (cfg : Cfg) (argsOk isUnix sockOk hasBinding bindOk connectOk : Bool) (o : Oid) : List Prim :=
  if !argsOk then [.leave [S "cfun_net_connect" "janet_get_addrinfo"]]
  else if !sockOk then [.leave [S "cfun_net_connect" "janet_panicf"]]
  else
    let c := Prim.create [S "cfun_net_connect" (if isUnix then "socket(1)" else "socket($1->ai_family)")] .sock
    if hasBinding && !bindOk then [c, .close [S "cfun_net_connect" "close($2)"] .sock, .leave [S "cfun_net_connect" "janet_panicf#4"]]
    else
      let w := Prim.wrap [S "make_stream" "janet_stream((JanetHandle)$1)", S "cfun_net_connect" "make_stream($2)"] .sock o
      if connectOk then [c, w, .leave [S "cfun_net_connect" "net_sched_connect"]]
      else if cfg.connectFailViaStream then
        [c, w, .closeObj [S "janet_stream_close_impl" "close($1->handle)", S "janet_stream_close" "janet_stream_close_impl($1)",
                          S "cfun_net_connect" "janet_stream_close($3)"] o, .leave [S "cfun_net_connect" "janet_panicf#5"]]
      else [c, w, .close [S "cfun_net_connect" "close(sock)#2"] .sock, .leave [S "cfun_net_connect" "janet_panicf#5"]]

/-- one iteration of net/listen's loop over the address list that does not `break` -/
inductive ListenTry
  | sockFail | serverifyFail | bindFail
  deriving DecidableEq, Repr

def listenTry : ListenTry → List Prim
  | .sockFail => []
  | .serverifyFail => [.create [S "cfun_net_listen" "socket($2->ai_family)"] .sock, .close [S "cfun_net_listen" "close($1)#2"] .sock]
  | .bindFail => [.create [S "cfun_net_listen" "socket($2->ai_family)"] .sock, .close [S "cfun_net_listen" "close($1)#3"] .sock]

def listenTries : List ListenTry → List Prim
  | [] => []
  | t :: ts => listenTry t ++ listenTries ts

/-- `net/listen` -/
def netListen (argsOk isUnix sockOk setupOk : Bool) (tries : List ListenTry) (found isDgram listenOk : Bool) (o : Oid) : List Prim :=
  if !argsOk then [.leave [S "cfun_net_listen" "janet_get_addrinfo"]]
  else
    let tail : List Prim :=
      if isDgram then [.wrap [S "make_stream" "janet_stream((JanetHandle)$1)", S "cfun_net_listen" "make_stream($1)"] .sock o,
                       .leave [S "cfun_net_listen" "return"]]
      else if listenOk then [.wrap [S "make_stream" "janet_stream((JanetHandle)$1)", S "cfun_net_listen" "make_stream($1)#2"] .sock o,
                             .leave [S "cfun_net_listen" "return"]]
      else [.close [S "cfun_net_listen" "close($1)#4"] .sock, .leave [S "cfun_net_listen" "janet_panicf#3"]]
    if isUnix then
      if !sockOk then [.leave [S "cfun_net_listen" "janet_panicf"]]
      else if !setupOk then [.create [S "cfun_net_listen" "socket(1)"] .sock, .close [S "cfun_net_listen" "close($1)"] .sock,
                             .leave [S "cfun_net_listen" "janet_panic"]]
      else .create [S "cfun_net_listen" "socket(1)"] .sock :: tail
    else
      listenTries tries ++
        (if found then .create [S "cfun_net_listen" "socket($2->ai_family)"] .sock :: tail
         else [.leave [S "cfun_net_listen" "janet_panic#2"]])

/-- explicit close (`ev/close`, `:close`), `janet_stream_close` on the object, and the finaliser `janet_stream_gc` -/
def streamClose (o : Oid) : List Prim :=
  [.closeObj [S "janet_stream_close_impl" "close($1->handle)", S "janet_stream_close" "janet_stream_close_impl($1)",
              S "janet_cfun_stream_close" "janet_stream_close($1)"] o, .leave [S "janet_cfun_stream_close" "return"]]

def streamGc (o : Oid) : List Prim :=
  [.closeObj [S "janet_stream_close_impl" "close($1->handle)", S "janet_stream_gc" "janet_stream_close_impl($1)"] o,
   .leave [S "janet_stream_gc" "return"]]

/-- `file/close` and the finaliser `cfun_io_gc` -/
def fileClose (o : Oid) : List Prim :=
  [.closeObj [S "cfun_io_fclose" "fclose($1->file)"] o, .leave [S "cfun_io_fclose" "return"]]

def fileGc (o : Oid) : List Prim :=
  [.closeObj [S "janet_file_close" "fclose($1->file)", S "cfun_io_gc" "janet_file_close($1)"] o, .leave [S "cfun_io_gc" "return"]]

/-- `filewatch/unlisten` -/
def watcherUnlisten (o : Oid) : List Prim :=
  [.closeObj [S "janet_stream_close_impl" "close($1->handle)", S "janet_stream_close" "janet_stream_close_impl($1)",
              S "janet_watcher_unlisten" "janet_stream_close($1->stream)"] o, .leave [S "janet_watcher_unlisten" "return"]]

/-- `os/proc-close`: closes the streams of the :pipe redirections it owns -/
def procClose (oin oout oerr : Option Oid) : List Prim :=
  let c (k : String) (o : Option Oid) : List Prim :=
    match o with
    | none => []
    | some x => [.closeObj [S "janet_stream_close_impl" "close($1->handle)", S "janet_stream_close" "janet_stream_close_impl($1)",
                            S "os_proc_close" k] x]
  c "janet_stream_close($1->in)" oin ++ c "janet_stream_close($1->out)" oout ++ c "janet_stream_close($1->err)" oerr ++
    [.leave [S "os_proc_close" "return"]]

/-- `janet_ev_init` / `janet_ev_deinit` of one VM (main thread or worker thread): self pipe, epoll, timerfd.
    A failure is `JANET_EXIT` (the process ends), not modelled. -/
def evInit (o0 o1 oe ot : Oid) : List Prim :=
  (makePipe [S "janet_ev_setup_selfpipe" "janet_make_pipe(janet_vm.selfpipe)"] .h0 .h1 true true).1 ++
  [.wrap [S "janet_ev_setup_selfpipe" "janet_vm.selfpipe"] .h0 o0, .wrap [S "janet_ev_setup_selfpipe" "janet_vm.selfpipe"] .h1 o1,
   .create [S "janet_ev_init" "epoll_create1(EPOLL_CLOEXEC)"] .epoll, .wrap [S "janet_ev_init" "janet_vm.epoll"] .epoll oe,
   .create [S "janet_ev_init" "timerfd_create(1)"] .timerfd, .wrap [S "janet_ev_init" "janet_vm.timerfd"] .timerfd ot,
   .leave [S "janet_ev_init" "return"]]

def evDeinit (o0 o1 oe ot : Oid) : List Prim :=
  [.closeObj [S "janet_ev_deinit" "close(janet_vm.epoll)"] oe, .closeObj [S "janet_ev_deinit" "close(janet_vm.timerfd)"] ot,
   .closeObj [S "janet_ev_cleanup_selfpipe" "close(janet_vm.selfpipe[0])"] o0,
   .closeObj [S "janet_ev_cleanup_selfpipe" "close(janet_vm.selfpipe[1])"] o1, .leave [S "janet_ev_deinit" "return"]]

/-! ### os_execute_impl (os/spawn, os/execute)

What one stdio slot (:in / :out / :err) contributes, as far as descriptors are concerned. -/
inductive Slot
  /-- no redirection, or an existing stream (its handle is borrowed, nothing is created) -/
  | none
  /-- an existing core/file whose descriptor is > 2: `get_stdio_for_handle` dups it for the proc's stream -/
  | fileDupOk | fileDupFail
  /-- `:pipe`: make_pipes succeeded / pipe() failed / a later fcntl failed -/
  | pipeOk | pipeFailP | pipeFailF
  /-- the source is one of the standard descriptors 0..2 (≠ its own slot): close-on-exec duplicate `tmp_handles[i]`;
      a stream, or a file whose dup succeeds / fails -/
  | tmpOk | tmpOkFileDupOk | tmpOkFileDupFail
  /-- `fcntl(F_DUPFD)` failed / `fcntl(F_SETFD)` on the duplicate failed -/
  | tmpFail | tmpSetfdFail
  deriving DecidableEq, Repr

def Slot.isPipe : Slot → Bool
  | .pipeOk | .pipeFailP | .pipeFailF => true
  | _ => false

/-- sets `pipe_errflag` -/
def Slot.err : Slot → Bool
  | .pipeFailP | .pipeFailF | .tmpFail | .tmpSetfdFail => true
  | _ => false

structure SlotVars where
  pipe : Var
  new : Var
  tmp : Var
  dup : Var
  mkPipes : String   -- the make_pipes call site
  stdio : String     -- the get_stdio_for_handle call site

def slotIn : SlotVars := ⟨.pipeIn, .newIn, .tmp0, .dupIn, "make_pipes(&$1)", "get_stdio_for_handle($7)"⟩
def slotOut : SlotVars := ⟨.pipeOut, .newOut, .tmp1, .dupOut, "make_pipes(&$2)", "get_stdio_for_handle($8)"⟩
def slotErr : SlotVars := ⟨.pipeErr, .newErr, .tmp2, .dupErr, "make_pipes(&$3)", "get_stdio_for_handle($9)"⟩

def fnX : String := "os_execute_impl"

/-- `new_x = make_pipes(&pipe_x, …)` -/
def slotPipes (v : SlotVars) : Slot → List Prim
  | .pipeOk => (makePipe [S "make_pipes" "janet_make_pipe($1)", S fnX v.mkPipes] v.pipe v.new true true).1
  | .pipeFailF => (makePipe [S "make_pipes" "janet_make_pipe($1)", S fnX v.mkPipes] v.pipe v.new true false).1
  | _ => []

/-- the loop creating `tmp_handles[i]`; it stops at the first error (`!pipe_errflag` in the loop condition) -/
def slotTmp (v : SlotVars) (errBefore : Bool) : Slot → List Prim
  | .tmpOk | .tmpOkFileDupOk | .tmpOkFileDupFail | .tmpSetfdFail =>
    if errBefore then [] else [.create [S fnX "fcntl_dupfd($4[$5])"] v.tmp]
  | _ => []

/-- does the slot hold the named local at the time of the clean-up / the spawn? -/
def Slot.hasPipe : Slot → Bool
  | .pipeOk => true
  | _ => false

def Slot.hasTmp (errBefore : Bool) : Slot → Bool
  | .tmpOk | .tmpOkFileDupOk | .tmpOkFileDupFail | .tmpSetfdFail => !errBefore
  | _ => false

def closeIf (c : Bool) (site : String) (v : Var) : List Prim := if c then [.close [S fnX site] v] else []

/-- through the `close_handle` helper -/
def closeHIf (c : Bool) (site : String) (v : Var) : List Prim :=
  if c then [.close [S "close_handle" "close($1)", S fnX site] v] else []

/-- `get_stdio_for_handle(new_x, orig_x, …)` for one slot, given what a failure has to clean up -/
def slotStdio (cfg : Cfg) (v : SlotVars) (o : Oid) (cleanup : List Prim) : Slot → List Prim × Bool
  | .pipeOk => ([.wrap [S "get_stdio_for_handle" "janet_stream($1)", S fnX v.stdio] v.new o], true)
  | .fileDupOk | .tmpOkFileDupOk =>
    ([.create [S "get_stdio_for_handle" "dup($1)", S fnX v.stdio] v.dup,
      .wrap [S "get_stdio_for_handle" "janet_stream($2)", S fnX v.stdio] v.dup o], true)
  | .fileDupFail | .tmpOkFileDupFail =>
    ((if cfg.spawnStdioFailCloses then cleanup else []) ++ [.leave [S fnX "janet_panic(failedtoconstructproc)"]], false)
  | _ => ([], true)

/-- `os_execute_impl` in spawn mode (`os/execute` has no :pipe and builds no streams: `isSpawn = false`).
    `argsOk`: every check that can raise succeeds (command line strings, :cd, the types of non-pipe redirections). -/
def osExecuteShape (cfg : Cfg) (isSpawn argsOk spawnOk : Bool) (a b c : Slot) : List Prim :=
  let oa : Oid := 0
  let ob : Oid := 1
  let oc : Oid := 2
  if cfg.spawnChecksFirst && !argsOk then [.leave [S fnX "janet_getcstring"]]
  else if !isSpawn && (a.isPipe || b.isPipe || c.isPipe) then [.leave [S fnX "janet_getjstream"]]
  else
    let pipes := slotPipes slotIn a ++ slotPipes slotOut b ++ slotPipes slotErr c
    if !cfg.spawnChecksFirst && !argsOk then pipes ++ [.leave [S fnX "janet_getcstring#2"]]
    else
      let pe := a.isPipe && a.err || b.isPipe && b.err || c.isPipe && c.err      -- pipe_errflag after the redirections
      let e0 := pe
      let e1 := e0 || (a.err && !e0)
      let e2 := e1 || (b.err && !e1)
      let e3 := e2 || (c.err && !e2)
      let tmps := slotTmp slotIn e0 a ++ slotTmp slotOut e1 b ++ slotTmp slotErr e2 c
      let closeTmps (n : String) : List Prim :=
        closeIf (a.hasTmp e0) n .tmp0 ++ closeIf (b.hasTmp e1) n .tmp1 ++ closeIf (c.hasTmp e2) n .tmp2
      if e3 then
        -- `if (pipe_errflag) { close tmp_handles; close pipe_x; close owned new_x; janet_panic }`
        pipes ++ tmps ++ closeTmps "close($6[$5])" ++
          closeHIf a.hasPipe "close_handle($1)" .pipeIn ++ closeHIf b.hasPipe "close_handle($2)" .pipeOut ++
          closeHIf c.hasPipe "close_handle($3)" .pipeErr ++
          closeHIf a.hasPipe "close_handle($7)" .newIn ++ closeHIf b.hasPipe "close_handle($8)" .newOut ++
          closeHIf c.hasPipe "close_handle($9)" .newErr ++ [.leave [S fnX "janet_panic(failedtocreatepipes)"]]
      else
        -- posix_spawn, then the child's ends and the duplicates are closed in the parent
        let afterSpawn := closeIf a.hasPipe "close($1)" .pipeIn ++ closeIf b.hasPipe "close($2)" .pipeOut ++
          closeIf c.hasPipe "close($3)" .pipeErr ++ closeTmps "close($6[$5])#2"
        if !spawnOk then
          pipes ++ tmps ++ afterSpawn ++ closeIf a.hasPipe "close($7)" .newIn ++ closeIf b.hasPipe "close($8)" .newOut ++
            closeIf c.hasPipe "close($9)" .newErr ++ [.leave [S fnX "janet_panicf(%p:%s)"]]
        else if !isSpawn then pipes ++ tmps ++ afterSpawn ++ [.leave [S fnX "os_proc_wait_impl"]]
        else
          let (pa, oka) := slotStdio cfg slotIn oa
            (closeHIf b.hasPipe "close_handle($8)#2" .newOut ++ closeHIf c.hasPipe "close_handle($9)#2" .newErr) a
          if !oka then pipes ++ tmps ++ afterSpawn ++ pa
          else
            let (pb, okb) := slotStdio cfg slotOut ob (closeHIf c.hasPipe "close_handle($9)#3" .newErr) b
            if !okb then pipes ++ tmps ++ afterSpawn ++ pa ++ pb
            else
              let (pc, okc) := slotStdio cfg slotErr oc [] c
              if !okc then pipes ++ tmps ++ afterSpawn ++ pa ++ pb ++ pc
              else pipes ++ tmps ++ afterSpawn ++ pa ++ pb ++ pc ++ [.leave [S fnX "return"]]

/-- rename object ids -/
def Prim.reoid (g : Oid → Oid) : Prim → Prim
  | .wrap s v o => .wrap s v (g o)
  | .closeObj s o => .closeObj s (g o)
  | p => p

/-- `os_execute_impl` with the object ids of the streams it builds for :in / :out / :err -/
def osExecute (cfg : Cfg) (isSpawn argsOk spawnOk : Bool) (a b c : Slot) (oa ob oc : Oid) : List Prim :=
  (osExecuteShape cfg isSpawn argsOk spawnOk a b c).map (Prim.reoid (fun i => if i = 0 then oa else if i = 1 then ob else oc))

def Slot.all : List Slot :=
  [.none, .fileDupOk, .fileDupFail, .pipeOk, .pipeFailP, .pipeFailF, .tmpOk, .tmpOkFileDupOk, .tmpOkFileDupFail, .tmpFail, .tmpSetfdFail]

/-- the discipline holds for every combination of slot states and outcomes (a finite check; see `osExecute_ok`) -/
def osExecuteAllOk (cfg : Cfg) : Bool :=
  [true, false].all fun isSpawn => [true, false].all fun argsOk => [true, false].all fun spawnOk =>
    Slot.all.all fun a => Slot.all.all fun b => Slot.all.all fun c =>
      check [] (osExecuteShape cfg isSpawn argsOk spawnOk a b c) == some []

/-! ## API-level operations: one complete execution of a C entry point with its inputs -/

inductive Op
  | osPipe (argsOk pipeOk fcntlOk : Bool) (o1 o2 : Oid)
  | osOpen (argsOk openOk : Bool) (o : Oid)
  | watcherInit (ok : Bool) (o : Oid)
  | watcherUnlisten (o : Oid)
  | toFile (sandboxOk dupOk fdopenOk : Bool) (o : Oid)
  | streamMarshal (unsafeOk dupOk : Bool) (msg : Oid)
  | ioFopen (argsOk sizeOk fopenOk isDir setvbufOk : Bool) (o : Oid)
  | ioTemp (ok : Bool) (o : Oid)
  | netAccept (ok : Bool) (o : Oid)
  | netConnect (argsOk isUnix sockOk hasBinding bindOk connectOk : Bool) (o : Oid)
  | netListen (argsOk isUnix sockOk setupOk : Bool) (tries : List ListenTry) (found isDgram listenOk : Bool) (o : Oid)
  | streamClose (o : Oid)
  | streamGc (o : Oid)
  | fileClose (o : Oid)
  | fileGc (o : Oid)
  | procClose (oin oout oerr : Option Oid)
  | osExecute (isSpawn argsOk spawnOk : Bool) (a b c : Slot) (oa ob oc : Oid)
  | evInit (o0 o1 oe ot : Oid)
  | evDeinit (o0 o1 oe ot : Oid)

def Op.prog (cfg : Cfg) : Op → List Prim
  | .osPipe a b c o1 o2 => Fds.osPipe a b c o1 o2
  | .osOpen a b o => Fds.osOpen a b o
  | .watcherInit a o => Fds.watcherInit a o
  | .watcherUnlisten o => Fds.watcherUnlisten o
  | .toFile a b c o => Fds.toFile a b c o
  | .streamMarshal a b m => Fds.streamMarshal a b m
  | .ioFopen a b c d e o => Fds.ioFopen cfg a b c d e o
  | .ioTemp a o => Fds.ioTemp a o
  | .netAccept a o => Fds.netAccept a o
  | .netConnect a b c d e f o => Fds.netConnect cfg a b c d e f o
  | .netListen a b c d t f g h o => Fds.netListen a b c d t f g h o
  | .streamClose o => Fds.streamClose o
  | .streamGc o => Fds.streamGc o
  | .fileClose o => Fds.fileClose o
  | .fileGc o => Fds.fileGc o
  | .procClose a b c => Fds.procClose a b c
  | .osExecute s a k x y z oa ob oc => Fds.osExecute cfg s a k x y z oa ob oc
  | .evInit a b c d => Fds.evInit a b c d
  | .evDeinit a b c d => Fds.evDeinit a b c d

def progs (cfg : Cfg) : List Op → List Prim
  | [] => []
  | o :: os => o.prog cfg ++ progs cfg os

/-! ## the model's site list

Every create / close / wrap site of `Gen.Fds.fdSites`, as `function:key`, that some model function mirrors (`modelSites`), and the
sites that hand a descriptor to an object nobody ever closes on purpose or that are wrappers of wrappers (`passiveSites`). -/

def sitesOf (ps : List Prim) : List Site := (ps.map Prim.site).flatten

end JanetModel.Fds
