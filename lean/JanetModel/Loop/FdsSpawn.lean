/-
C20 — os_execute_impl keeps the descriptor-ownership discipline for every combination of redirections and failures
(proof file; the finite case analysis over 2³ outcomes × 11³ slot states is evaluated by the kernel).
-/
import JanetModel.Loop.FdsLemmas

namespace JanetModel.Fds

theorem osExecuteAllOk_fixed : osExecuteAllOk Cfg.fixed = true := by decide +kernel

theorem Slot.mem_all (a : Slot) : a ∈ Slot.all := by cases a <;> decide

theorem checkStep_reoid (g : Oid → Oid) (l : List Var) (p : Prim) : checkStep l (p.reoid g) = checkStep l p := by
  cases p <;> rfl

theorem check_reoid (g : Oid → Oid) : ∀ (ps : List Prim) (l : List Var), check l (ps.map (Prim.reoid g)) = check l ps
  | [], l => rfl
  | p :: ps, l => by
    simp only [List.map_cons, check, checkStep_reoid]
    cases checkStep l p with
    | none => rfl
    | some l1 => simp [check_reoid g ps l1]

/-- ★ os/spawn and os/execute: whatever the redirections are and whichever call fails, no local is left holding a descriptor and
    nothing is closed twice -/
theorem osExecute_ok (isSpawn argsOk spawnOk : Bool) (a b c : Slot) (oa ob oc : Oid) :
    check [] (osExecute Cfg.fixed isSpawn argsOk spawnOk a b c oa ob oc) = some [] := by
  unfold osExecute
  rw [check_reoid]
  have h := osExecuteAllOk_fixed
  unfold osExecuteAllOk at h
  simp only [List.all_eq_true] at h
  have := h isSpawn (by cases isSpawn <;> simp) argsOk (by cases argsOk <;> simp) spawnOk (by cases spawnOk <;> simp)
    a (Slot.mem_all a) b (Slot.mem_all b) c (Slot.mem_all c)
  simpa using this

/-- every API-level operation of the model keeps the discipline (fixed tree), for all its inputs -/
theorem op_ok (op : Op) : check [] (op.prog Cfg.fixed) = some [] := by
  cases op with
  | osPipe a b c o1 o2 => exact osPipe_ok a b c o1 o2
  | osOpen a b o => exact osOpen_ok a b o
  | watcherInit a o => exact watcherInit_ok a o
  | watcherUnlisten o => exact watcherUnlisten_ok o
  | toFile a b c o => exact toFile_ok a b c o
  | streamMarshal a b m => exact streamMarshal_ok a b m
  | ioFopen a b c d e o => exact ioFopen_ok a b c d e o
  | ioTemp a o => exact ioTemp_ok a o
  | netAccept a o => exact netAccept_ok a o
  | netConnect a b c d e f o => exact netConnect_ok a b c d e f o
  | netListen a b c d t f g h o => exact netListen_ok a b c d t f g h o
  | streamClose o => exact streamClose_ok o
  | streamGc o => exact streamGc_ok o
  | fileClose o => exact fileClose_ok o
  | fileGc o => exact fileGc_ok o
  | procClose a b c => exact procClose_ok a b c
  | osExecute s a k x y z oa ob oc => exact osExecute_ok s a k x y z oa ob oc
  | evInit a b c d => exact evInit_ok a b c d
  | evDeinit a b c d => exact evDeinit_ok a b c d

/-- any sequence of operations runs without an ownership violation and ends with no local holding a descriptor -/
theorem progs_run (ext : List Fd) : ∀ (ops : List Op) {s : St}, Inv ext s → s.loose = [] →
    ∃ s', exec s (progs Cfg.fixed ops) = some s' ∧ s'.loose = [] ∧ Inv ext s'
  | [], s, hi, hl => ⟨s, rfl, hl, hi⟩
  | op :: ops, s, hi, hl => by
    have hc := op_ok op
    rw [← hl] at hc
    obtain ⟨s1, h1, hl1⟩ := exec_of_check (op.prog Cfg.fixed) hc
    have hi1 := exec_inv ext _ hi h1
    obtain ⟨s2, h2, hl2, hi2⟩ := progs_run ext ops hi1 (hl1.trans hl)
    refine ⟨s2, ?_, hl2, hi2⟩
    simp only [progs, exec_append, h1, Option.bind_some, h2]

end JanetModel.Fds
