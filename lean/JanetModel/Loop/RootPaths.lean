/-
C20 — what each event-loop operation must pin (janet_gcroot) and release (janet_gcunroot) on each of its control-flow paths, against
the paths extracted from the source (`Gen.RootPaths.paths`, tools/gen/rootpaths.py).  Core Lean only.

The specification is stated on the branches a path took (`assume:<tag>` events), not on where the function returns: an early
`return` added in front of a release, a release moved under a condition, a raise after a pin all produce a path whose operations
differ from `expected`.
-/
import JanetModel.Gen.RootPaths

namespace JanetModel.RootPaths

/-- (function, exit kind, exit label, events) -/
abbrev Path := String × String × String × List (String × String)

def ops (p : Path) : List (String × String) := p.2.2.2.filter (fun e => e.1 == "root" || e.1 == "unroot")

def assumed (p : Path) (tag branch : String) : Bool := p.2.2.2.contains ("assume:" ++ tag, branch)

def raises (p : Path) : Bool := p.2.1 == "raise"

/-- the pins / releases the operation must perform on a path that took these branches -/
def expected (p : Path) : List (String × String) :=
  if p.1 = "janet_async_start_fiber" then (if raises p then [] else [("root", "ABSTRACT:stream")])
  else if p.1 = "janet_async_end" then (if assumed p "listening" "true" then [("unroot", "ABSTRACT:fiber->ev_stream")] else [])
  else if p.1 = "janet_ev_threaded_await" then [("root", "FIBER:arguments.fiber")]
  else if p.1 = "janet_ev_default_threaded_callback" then
    (if assumed p "no-fiber" "true" then [] else [("unroot", "FIBER:return_value.fiber")])
  else if p.1 = "janet_thread_chan_cb" then [("unroot", "FIBER:fiber")]
  else if p.1 = "os_proc_wait_impl" then (if raises p then [] else [("root", "ABSTRACT:proc"), ("root", "FIBER:targs.fiber")])
  else if p.1 = "janet_proc_wait_cb" then
    (if assumed p "have-proc" "true" then [("unroot", "ABSTRACT:proc"), ("unroot", "FIBER:args.fiber")] else [])
  else if p.1 = "janet_watcher_listen" then (if raises p then [] else [("root", "ABSTRACT:watcher")])
  else if p.1 = "janet_watcher_unlisten" then (if assumed p "not-watching" "true" then [] else [("unroot", "ABSTRACT:watcher")])
  else [("unknown function", p.1)]

def pathOk (p : Path) : Bool := ops p == expected p

/-- change of janet_vm.root_count -/
def net : List (String × String) → Int
  | [] => 0
  | e :: es => (if e.1 = "root" then 1 else if e.1 = "unroot" then -1 else 0) + net es

/-- the path of `fn` that ends normally after taking the given branches -/
def normal (fn : String) (assumes : List (String × String)) : Path := (fn, "end", "", assumes)

end JanetModel.RootPaths
