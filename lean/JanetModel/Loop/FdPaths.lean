/-
C20 — replay of the extracted control-flow paths of descriptor-creating C functions (`Gen.FdPaths.paths`, produced by
tools/gen/fdpaths.py from the preprocessed source) against the ownership discipline of `JanetModel.Fds` (Loop/Fds.lean), stated on
the names of the C locals:

  create v   the local must not already hold a descriptor (overwriting it would leak the old one)
  move v w   (`w = fdopen(v)`) v must hold one, w must not; afterwards w holds it
  close v / wrap v   v must hold a descriptor (otherwise: double close / a stale number handed to an object)
  release o  (`janet_stream_close(o)`) an object that already owns its descriptor is closed: the locals are unaffected
  exit       nothing may be held - except by the two pipe constructors, whose successful return hands both ends to the caller

Core Lean only.
-/
import JanetModel.Gen.FdPaths
import JanetModel.Gen.Fds

namespace JanetModel.FdPaths

/-- (kind, local, second local of `move`, site key) -/
abbrev PEv := String × String × String × String
/-- (function, exit kind, exit label, events) -/
abbrev Path := String × String × String × List PEv

def step (held : List String) (e : PEv) : Option (List String) :=
  if e.1 = "create" then (if e.2.1 ∈ held then none else some (e.2.1 :: held))
  else if e.1 = "close" ∨ e.1 = "wrap" then (if e.2.1 ∈ held then some (held.erase e.2.1) else none)
  else if e.1 = "move" then
    (if e.2.1 ∈ held ∧ e.2.2.1 ∉ held.erase e.2.1 then some (e.2.2.1 :: held.erase e.2.1) else none)
  else if e.1 = "release" then some held
  else none

def run : List String → List PEv → Option (List String)
  | held, [] => some held
  | held, e :: es =>
    match step held e with
    | none => none
    | some h => run h es

/-- how many descriptors a function's exit may leave in its locals: the ones it returns to its caller (both ends, for the
    successful return of the two pipe constructors; the names of the locals do not matter) -/
def expectedHeld (p : Path) : Nat :=
  if p.1 = "janet_make_pipe" ∧ p.2.1 = "return" ∧ p.2.2.1 = "0" then 2
  else if p.1 = "make_pipes" ∧ p.2.1 = "return" ∧ p.2.2.1 ≠ "(-1)" then 2
  else 0

def pathOk (p : Path) : Bool :=
  match run [] p.2.2.2 with
  | none => false
  | some held => decide (held.length = expectedHeld p)

/-- +1 for a descriptor that enters the function's locals, -1 for one that leaves them (closed or handed to an owner) -/
def delta (e : PEv) : Int :=
  if e.1 = "create" then 1 else if e.1 = "close" ∨ e.1 = "wrap" then -1 else 0

def net : List PEv → Int
  | [] => 0
  | e :: es => delta e + net es

/-- keys of `Gen.Fds.fdSites` (create / close / wrap) of function `fn` -/
def tableKeys (fn : String) : List String :=
  (Gen.Fds.fdSites.filter (fun x => x.2.1 == fn && x.2.2.1 != "raise")).map (fun x => x.2.2.2.1)

/-- keys the walker produced for `fn` -/
def pathKeys (fn : String) : List String :=
  (((Gen.FdPaths.paths.filter (fun p => p.1 == fn)).map (fun p => p.2.2.2.map (fun e => e.2.2.2))).flatten).eraseDups

/-- events that are not calls of the site table: the duplicate written into a marshalled message (hand-over); the descriptor a caller
    hands to `get_stdio_for_handle(handle, orig, …)` when `orig == NULL` (the parent's end of a pipe made by make_pipes in
    os_execute_impl: the callee is its only owner and must wrap it; with `orig != NULL` the descriptor stays with the stream / file
    `orig` and the path starts with nothing held) -/
def pseudoKeys : List String := ["janet_marshal_int", "entry:handle"]

end JanetModel.FdPaths
