/-
C20 — under which conditions each site that changes `janet_vm.listener_count` is executed, checked on the control-flow paths
extracted from the source (`Gen.CounterPaths.paths`, tools/gen/ctrpaths.py).  Core Lean only.

A path carries the branches it took as literals over the function's vocabulary of atoms (`assume a b`) and the counter sites it
executed (`inc k` / `dec k`).  The specification is a pair of Boolean formulas per function — the guards of the event-loop model's
transitions — and a path is accepted iff for EVERY truth assignment of the atoms that agrees with the path's literals the path
performs exactly `[inc guard]` increments and `[dec guard]` decrements (a truth table, not a comparison of condition texts: `if (a && b)`
vs nested ifs, `goto` loop vs `for (;;) … break`, `x <= 0` vs `!(x > 0)` give the same literals).  A condition the guard does not
mention but the code depends on makes two paths with the same literals differ in their sites, so one of them is rejected.
-/
import JanetModel.Gen.CounterPaths
import JanetModel.Gen.Loop

namespace JanetModel.CounterPaths

open JanetModel.Gen.CounterPaths (CEv)

/-- (function, start, exit kind, events) -/
abbrev Path := String × String × String × List CEv

/-- the vocabulary the guards below are written in (the translator's table `Gen.CounterPaths.atoms` must be this one) -/
def vocab : List (String × List String) := [
  ("janet_async_end", ["listening", "in-flight"]),
  ("janet_async_start_fiber", []),
  ("janet_loop1", ["runnable", "interrupted", "was-suspended", "task-current", "sig-event", "sig-yield", "sig-interrupt"]),
  ("janet_ev_handle_selfpipe", ["got-event", "has-cb"]),
  ("janet_ev_post_event", []),
  ("janet_ev_threaded_call", []),
  ("janet_deinit_block", ["is-fiber", "has-ev-state", "in-flight"])
]

/-! ### the guards of the model's transitions -/

/-- `aend`: janet_async_end takes the listener away iff the fiber is listening (`ev_callback`) and the operation is not in flight
    (JANET_FIBER_EV_FLAG_IN_FLIGHT: Windows only; never set on this platform) -/
def aendDec (listening inFlight : Bool) : Bool := listening && !inFlight

/-- `pop`: one iteration of janet_loop1's run-queue loop un-counts the popped task iff a task is popped (queue non-empty, no pending
    interrupt) and the fiber carries JANET_FIBER_EV_FLAG_SUSPENDED -/
def popDec (runnable interrupted wasSuspended : Bool) : Bool := runnable && !interrupted && wasSuspended

/-- `ran f true`: the iteration counts the fiber again iff the task was popped, is not stale (`expected_sched_id == sched_id`: it is run)
    and janet_continue_signal returned EVENT, YIELD or INTERRUPT -/
def ranInc (runnable interrupted current sigEvent sigYield sigInterrupt : Bool) : Bool :=
  runnable && !interrupted && current && (sigEvent || sigYield || sigInterrupt)

/-- `deliver…`: one read of the self pipe un-counts iff an event was read (and, on a tree with `selfpipeDecNeedsCb`, it has a callback) -/
def deliverDec (needsCb gotEvent hasCb : Bool) : Bool := gotEvent && (!needsCb || hasCb)

/-- `gcListener`: the collector frees a fiber that is still listening -/
def gcDec (isFiber hasEvState inFlight : Bool) : Bool := isFiber && hasEvState && !inFlight

/-- truth value of atom `a` under assignment `m` (bit a) -/
def val (m a : Nat) : Bool := m.testBit a

/-- the assignment in which the atoms have these values, in vocabulary order -/
def mask : List Bool → Nat
  | [] => 0
  | b :: bs => (if b then 1 else 0) + 2 * mask bs

structure Spec where
  /-- number of atoms -/
  n : Nat
  /-- (assignment, the path ends in a raise) ↦ is listener_count incremented / decremented -/
  inc : Nat → Bool → Bool
  dec : Nat → Bool → Bool

def specOf (needsCb : Bool) (fn : String) : Option Spec :=
  if fn = "janet_async_end" then some ⟨2, fun _ _ => false, fun m _ => aendDec (val m 0) (val m 1)⟩
  -- `astart`: counted unless the operation is refused (the raise precedes every effect)
  else if fn = "janet_async_start_fiber" then some ⟨0, fun _ raised => !raised, fun _ _ => false⟩
  else if fn = "janet_loop1" then
    some ⟨7, fun m _ => ranInc (val m 0) (val m 1) (val m 3) (val m 4) (val m 5) (val m 6), fun m _ => popDec (val m 0) (val m 1) (val m 2)⟩
  else if fn = "janet_ev_handle_selfpipe" then some ⟨2, fun _ _ => false, fun m _ => deliverDec needsCb (val m 0) (val m 1)⟩
  -- `post`: always
  else if fn = "janet_ev_post_event" then some ⟨0, fun _ _ => true, fun _ _ => false⟩
  -- `await` / `callNoFiber` / `procWait`: counted iff the helper thread was started (pthread_create failure raises before)
  else if fn = "janet_ev_threaded_call" then some ⟨0, fun _ raised => !raised, fun _ _ => false⟩
  else if fn = "janet_deinit_block" then some ⟨3, fun _ _ => false, fun m _ => gcDec (val m 0) (val m 1) (val m 2)⟩
  else none

def consistent (m : Nat) : List CEv → Bool
  | [] => true
  | .assume a b :: es => (val m a == b) && consistent m es
  | _ :: es => consistent m es

def incs : List CEv → Nat
  | [] => 0
  | .inc _ :: es => 1 + incs es
  | _ :: es => incs es

def decs : List CEv → Nat
  | [] => 0
  | .dec _ :: es => 1 + decs es
  | _ :: es => decs es

def b2n (b : Bool) : Nat := if b then 1 else 0

/-- a path that ends the process (`abort` / `exit`: out of memory, failed internal assertion) is outside the model; every other path
    must be satisfiable and perform exactly what the guards say under every assignment it is compatible with -/
def pathOk (needsCb : Bool) (p : Path) : Bool :=
  match specOf needsCb p.1 with
  | none => false
  | some sp =>
    p.2.2.1 == "abort" ||
    ((List.range (2 ^ sp.n)).any (fun m => consistent m p.2.2.2) &&
     (List.range (2 ^ sp.n)).all (fun m => !consistent m p.2.2.2 ||
        (incs p.2.2.2 == b2n (sp.inc m (p.2.2.1 == "raise")) && decs p.2.2.2 == b2n (sp.dec m (p.2.2.1 == "raise")))))

/-- change of listener_count the model expects from one pass through `fn` under assignment `m` -/
def incN (needsCb : Bool) (fn : String) (m : Nat) (raised : Bool := false) : Int :=
  match specOf needsCb fn with
  | none => 0
  | some sp => if sp.inc m raised then 1 else 0

def decN (needsCb : Bool) (fn : String) (m : Nat) (raised : Bool := false) : Int :=
  match specOf needsCb fn with
  | none => 0
  | some sp => if sp.dec m raised then 1 else 0

/-! ### the site table against the paths -/

/-- signs of the sites of `fn` in `Gen.Loop.counterSites` (source order) -/
def tableSigns (fn : String) : List String := (Gen.Loop.counterSites.filter (fun x => x.2.1 == fn)).map (·.2.2.1)

def onPath (fn : String) (e : CEv) : Bool := Gen.CounterPaths.paths.any (fun p => p.1 == fn && p.2.2.2.contains e)

def siteEv (sign : String) (k : Nat) : CEv := if sign = "+" then .inc k else .dec k

/-- every site of the table lies on some extracted path of its function, with its sign -/
def sitesCovered (fn : String) : Bool :=
  let ss := tableSigns fn
  (List.range ss.length).all (fun k => onPath fn (siteEv (ss.getD k "") k))

/-- every site event of a path is a site of the table, with its sign -/
def eventsInTable (p : Path) : Bool :=
  p.2.2.2.all (fun e => match e with
    | .assume _ _ => true
    | .inc k => (tableSigns p.1).getD k "" == "+"
    | .dec k => (tableSigns p.1).getD k "" == "-")

end JanetModel.CounterPaths
