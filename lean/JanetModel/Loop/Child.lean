/-
C20 — executable model of the lifecycle of one subprocess handle (src/core/os.c: os_execute_impl → os_proc_wait_impl /
janet_proc_wait_subr / janet_proc_wait_cb, os_proc_kill, os_proc_close, janet_proc_gc).  Core Lean only.

The handle is the only holder of the pid.  `Ev` lists what can happen to it, in any order: the child exits (environment), a
fiber starts a wait (os/proc-wait, os/proc-close on an un-waited handle, os/proc-kill with `wait`), the helper thread's
blocking waitpid returns (only once the child has exited; this reaps it), the completion callback runs on the loop (whether or
not the waiting fiber was cancelled meanwhile: `janet_proc_wait_cb` does its bookkeeping unconditionally), a kill, a close, the
finaliser.  While a wait is outstanding the handle is a GC root (`os_proc_wait_impl` roots it, see `root_sites_match`), so the
finaliser cannot run then.
-/
import JanetModel.Loop.Model

namespace JanetModel.ChildLife
open JanetModel.Loop (Child)

structure P where
  child : Child := .running
  /-- JANET_PROC_WAITED / JANET_PROC_WAITING / JANET_PROC_ALLOW_ZOMBIE -/
  waited : Bool := false
  waiting : Bool := false
  allowZombie : Bool := false
  /-- the helper thread's waitpid has returned; its completion event has not been delivered yet -/
  threadDone : Bool := false
  /-- the finaliser has run -/
  collected : Bool := false
  /-- kill(pid) calls made after the pid had been reaped (the number may belong to another process by then) -/
  staleKills : Nat := 0
  /-- "cannot wait twice" / "cannot kill process that has already finished" errors raised -/
  errors : Nat := 0
  deriving Repr, DecidableEq

inductive Ev
  /-- the child terminates (by itself or because of a signal) -/
  | exit
  /-- os_proc_wait_impl (os/proc-wait; also reached from os/proc-close and os/proc-kill) -/
  | waitStart
  /-- janet_proc_wait_subr: the blocking waitpid in the helper thread returns -/
  | threadReaps
  /-- janet_proc_wait_cb on the event loop (the waiter may have been cancelled: same bookkeeping) -/
  | waitCb
  /-- os_proc_kill; `thenWait` ⇔ second argument truthy -/
  | kill (thenWait : Bool)
  /-- os_proc_close, after closing the pipes -/
  | close
  /-- janet_proc_gc -/
  | gc
  deriving Repr, DecidableEq

def waitStart (s : P) : P :=
  if s.waited || s.waiting then { s with errors := s.errors + 1 } else { s with waiting := true }

def step (blockingGcWait : Bool) (s : P) : Ev → Option P
  | .exit => if s.child = .running then some { s with child := .zombie } else none
  | .waitStart => if s.collected then none else some (waitStart s)
  | .threadReaps =>
    if s.waiting && !s.threadDone && s.child = .zombie then some { s with child := .reaped, threadDone := true } else none
  | .waitCb => if s.threadDone then some { s with waited := true, waiting := false, threadDone := false } else none
  | .kill w =>
    if s.collected then none
    else if s.waited then some { s with errors := s.errors + 1 }
    else
      let s1 := if s.child = .reaped then { s with staleKills := s.staleKills + 1 } else s
      some (if w then waitStart s1 else s1)
  | .close => if s.collected then none else if s.waited || s.waiting then some s else some (waitStart s)
  | .gc =>
    -- rooted while a wait is outstanding
    if s.collected || s.waiting then none
    else if s.waited || s.allowZombie then some { s with collected := true }
    else some { s with child := Loop.procGc blockingGcWait s.child, collected := true }

def run (b : Bool) : P → List Ev → Option P
  | s, [] => some s
  | s, e :: es =>
    match step b s e with
    | none => none
    | some s' => run b s' es

/-- kill / waitpid / posix_spawn sites of os.c the model mirrors (file, function, callee, first argument, guards) -/
def childSpec : List (String × String × String × String × List String) := [
  ("os.c", "proc_get_status", "waitpid", "proc->pid", ["do"]),                                              -- threadReaps
  ("os.c", "janet_proc_gc", "kill", "proc->pid", ["if(!(proc->flags&(2|128)))"]),                          -- gc
  ("os.c", "janet_proc_gc", "waitpid", "proc->pid", ["if(!(proc->flags&(2|128)))", "if(!(proc->flags&4))"]),
  ("os.c", "os_proc_kill", "kill", "proc->pid", []),                                                       -- kill
  ("os.c", "os_execute_impl", "posix_spawnp", "&pid", ["if(((flags)&((1ULL)<<(1))))"]),                    -- spawn
  ("os.c", "os_execute_impl", "posix_spawn", "&pid", ["else"]),
  ("os.c", "os_posix_fork", "fork", "", ["do"])                                                            -- os/posix-fork: no handle
]

end JanetModel.ChildLife
