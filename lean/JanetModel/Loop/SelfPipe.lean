/-
C20 — the event loop's self pipe (src/core/ev.c: janet_ev_post_event / janet_thread_body write whole `JanetSelfPipeEvent`s,
`janet_ev_handle_selfpipe` reads them, `janet_ev_init` registers the read end with epoll).  Core Lean only.

    static void janet_ev_handle_selfpipe(void) {
        JanetSelfPipeEvent response;
        int status;
    recur:
        do { status = read(janet_vm.selfpipe[0], &response, sizeof(response)); } while (status == -1 && errno == EINTR);
        if (status > 0) { if (NULL != response.cb) response.cb(response.msg); janet_ev_dec_refcount(); goto recur; }
    }
    …  ev.events = EPOLLIN | EPOLLET; ev.data.ptr = janet_vm.selfpipe; epoll_ctl(janet_vm.epoll, EPOLL_CTL_ADD, janet_vm.selfpipe[0], &ev)

What matters for liveness: the registration is edge-triggered, so epoll reports the pipe once per "became readable / was written
again" and not while data merely stays in it.  A handler that returns with events still in the pipe leaves them undeliverable
until some unrelated event is written.  The three facts the model depends on (`batch` = whole events fetched by one read(2),
`recur` = the handler reads again after every successful read until the pipe is empty, `edge` = EPOLLET) are regenerated from the
source (`Gen.Loop.selfpipeBatch / selfpipeRecur / selfpipeEdge`).
-/
import JanetModel.Gen.Loop

namespace JanetModel.Loop.SelfPipe

structure Cfg where
  batch : Nat
  recur : Bool
  edge : Bool
  deriving Repr, DecidableEq

def Cfg.ofGen : Cfg := { batch := Gen.Loop.selfpipeBatch, recur := Gen.Loop.selfpipeRecur, edge := Gen.Loop.selfpipeEdge }

structure P where
  /-- events in the pipe -/
  pipe : Nat := 0
  /-- the pipe is on epoll's ready list: it was written since epoll_wait last reported it -/
  armed : Bool := false
  /-- events ever written / ever handed to their callback -/
  written : Nat := 0
  delivered : Nat := 0
  deriving Repr, DecidableEq

def init : P := {}

inductive Ev
  /-- another thread (or a signal handler) writes one event -/
  | write
  /-- the loop thread calls epoll_wait and handles what it reports -/
  | poll
  deriving Repr, DecidableEq

/-- `janet_ev_handle_selfpipe`: (events left in the pipe, events delivered).  `fuel` bounds the number of reads (every successful
    read removes at least one event when `batch ≥ 1`); a read on an empty pipe returns -1/EAGAIN and ends the handler. -/
def handle (cfg : Cfg) : Nat → Nat → Nat → Nat × Nat
  | 0, pipe, delivered => (pipe, delivered)
  | fuel + 1, pipe, delivered =>
    if pipe = 0 then (pipe, delivered)
    else
      let k := min cfg.batch pipe
      if cfg.recur then handle cfg fuel (pipe - k) (delivered + k) else (pipe - k, delivered + k)

/-- does epoll_wait report the self pipe? edge-triggered: only when it is on the ready list; level-triggered: whenever readable -/
def reported (cfg : Cfg) (p : P) : Bool := if cfg.edge then p.armed else decide (0 < p.pipe)

def step (cfg : Cfg) (p : P) : Ev → P
  | .write => { p with pipe := p.pipe + 1, armed := true, written := p.written + 1 }
  | .poll =>
    if reported cfg p then
      { p with pipe := (handle cfg p.pipe p.pipe p.delivered).1, delivered := (handle cfg p.pipe p.pipe p.delivered).2, armed := false }
    else p

def run (cfg : Cfg) : P → List Ev → P
  | p, [] => p
  | p, e :: es => run cfg (step cfg p e) es

/-- events that can no longer be delivered unless an unrelated event is written -/
def stranded (p : P) : Bool := decide (0 < p.pipe) && !p.armed

end JanetModel.Loop.SelfPipe
