/-
C20 — lemmas about the descriptor-ownership model `JanetModel.Fds` (proof file; core Lean only).
-/
import JanetModel.Loop.Fds

namespace JanetModel.Fds

/-! ## the kernel's allocator returns a number that is not in use -/

theorem le_maxl {a : Nat} : ∀ {l : List Nat}, a ∈ l → a ≤ maxl l
  | [], h => by simp at h
  | b :: l, h => by
    simp only [List.mem_cons] at h
    simp only [maxl]
    rcases h with h | h
    · subst h; exact Nat.le_max_left _ _
    · exact Nat.le_trans (le_maxl h) (Nat.le_max_right _ _)

theorem lowestFrom_not_mem (l : List Nat) : ∀ fuel n, lowestFrom l fuel n ∉ l
  | 0, _ => by
    intro h
    have := le_maxl h
    simp only [lowestFrom] at this
    omega
  | fuel + 1, n => by
    simp only [lowestFrom]
    by_cases h : n ∈ l
    · rw [if_pos h]; exact lowestFrom_not_mem l fuel (n + 1)
    · rw [if_neg h]; exact h

theorem fresh_not_mem (l : List Fd) : fresh l ∉ l := lowestFrom_not_mem l _ _

/-! ## the ownership invariant -/

/-- every open descriptor has exactly one responsible holder: a local of the running C function, an open object, or the
    environment (`ext`: stdin/stdout/stderr and whatever the process inherited) -/
def Inv (ext : List Fd) (s : St) : Prop :=
  List.Perm s.open (s.loose.map s.env ++ s.objs.map Prod.snd ++ ext)

theorem inv_init (ext : List Fd) : Inv ext (St.init ext) := by
  simp [Inv, St.init]

private theorem perm_erase_of_perm_cons {l m : List Nat} {a : Nat} (h : List.Perm l (a :: m)) : List.Perm (l.erase a) m := by
  have := h.erase a
  simpa using this

private theorem map_setEnv_of_not_mem (env : Var → Fd) (v : Var) (x : Fd) :
    ∀ (l : List Var), v ∉ l → l.map (setEnv env v x) = l.map env
  | [], _ => rfl
  | a :: l, h => by
    simp only [List.mem_cons, not_or] at h
    simp only [List.map_cons, map_setEnv_of_not_mem env v x l h.2]
    have : a ≠ v := fun e => h.1 e.symm
    simp [setEnv, this]

private theorem map_perm_cons_erase (env : Var → Fd) {v : Var} {l : List Var} (h : v ∈ l) :
    List.Perm (l.map env) (env v :: (l.erase v).map env) := by
  have := (List.perm_cons_erase h).map env
  simpa using this

theorem step_inv (ext : List Fd) {s s' : St} {p : Prim} (hi : Inv ext s) (h : step s p = some s') : Inv ext s' := by
  unfold Inv at hi ⊢
  cases p with
  | create site v =>
    simp only [step] at h
    by_cases hv : v ∈ s.loose
    · rw [if_pos hv] at h; simp at h
    · rw [if_neg hv] at h
      simp at h; subst h
      simp only [List.map_cons, map_setEnv_of_not_mem s.env v _ s.loose hv, setEnv, if_true, List.cons_append]
      exact List.Perm.cons _ hi
  | close site v =>
    simp only [step] at h
    by_cases hv : v ∈ s.loose
    · rw [if_pos hv] at h
      simp at h; subst h
      simp only
      apply perm_erase_of_perm_cons
      refine hi.trans ?_
      have h1 := map_perm_cons_erase s.env hv
      have h2 := (h1.append_right (s.objs.map Prod.snd)).append_right ext
      simpa using h2
    · rw [if_neg hv] at h; simp at h
  | wrap site v o =>
    simp only [step] at h
    by_cases hv : v ∈ s.loose
    · rw [if_pos hv] at h
      simp at h; subst h
      simp only [List.map_cons]
      refine hi.trans ?_
      have h1 := map_perm_cons_erase s.env hv
      have h2 := (h1.append_right (s.objs.map Prod.snd)).append_right ext
      refine h2.trans ?_
      simp only [List.cons_append, List.append_assoc]
      exact List.perm_middle.symm
    · rw [if_neg hv] at h; simp at h
  | move site v w =>
    simp only [step] at h
    by_cases hv : v ∈ s.loose ∧ w ∉ s.loose.erase v
    · rw [if_pos hv] at h
      simp at h; subst h
      simp only [List.map_cons, map_setEnv_of_not_mem s.env w _ _ hv.2, setEnv, if_true]
      refine hi.trans ?_
      have h1 := map_perm_cons_erase s.env hv.1
      have h2 := (h1.append_right (s.objs.map Prod.snd)).append_right ext
      simpa using h2
    · rw [if_neg hv] at h; simp at h
  | closeObj site o =>
    simp only [step] at h
    cases hl : s.objs.lookup o with
    | none => rw [hl] at h; simp at h; subst h; exact hi
    | some x =>
      rw [hl] at h
      simp at h; subst h
      simp only
      have hm : (o, x) ∈ s.objs := by
        have := List.lookup_eq_some_iff.1 hl   -- ∃ l₁ l₂, …
        obtain ⟨l1, l2, he, _⟩ := this
        rw [he]; simp
      apply perm_erase_of_perm_cons
      refine hi.trans ?_
      have h1 : List.Perm (s.objs.map Prod.snd) (x :: (s.objs.erase (o, x)).map Prod.snd) := by
        have := (List.perm_cons_erase hm).map Prod.snd
        simpa using this
      have h2 := (h1.append_left (s.loose.map s.env)).append_right ext
      refine h2.trans ?_
      simp only [List.append_assoc, List.cons_append]
      exact List.perm_middle
  | leave site =>
    simp only [step] at h
    by_cases hv : s.loose = []
    · rw [if_pos hv] at h; simp at h; subst h; exact hi
    · rw [if_neg hv] at h; simp at h

theorem exec_inv (ext : List Fd) : ∀ (ps : List Prim) {s s' : St}, Inv ext s → exec s ps = some s' → Inv ext s'
  | [], s, s', hi, h => by simp [exec] at h; subst h; exact hi
  | p :: ps, s, s', hi, h => by
    simp only [exec] at h
    cases hs : step s p with
    | none => rw [hs] at h; simp at h
    | some s1 => rw [hs] at h; exact exec_inv ext ps (step_inv ext hi hs) h

theorem inv_count {ext : List Fd} {s : St} (hi : Inv ext s) : s.open.length = s.loose.length + s.objs.length + ext.length := by
  have := hi.length_eq
  simp at this
  omega

/-! ## the static discipline implies that execution never violates ownership -/

theorem step_of_checkStep {s : St} {p : Prim} {l : List Var} (h : checkStep s.loose p = some l) :
    ∃ s', step s p = some s' ∧ s'.loose = l := by
  cases p with
  | create site v =>
    simp only [checkStep] at h; simp only [step]
    by_cases hv : v ∈ s.loose
    · rw [if_pos hv] at h; simp at h
    · rw [if_neg hv] at h ⊢; simp at h; exact ⟨_, rfl, h⟩
  | close site v =>
    simp only [checkStep] at h; simp only [step]
    by_cases hv : v ∈ s.loose
    · rw [if_pos hv] at h ⊢; simp at h; exact ⟨_, rfl, h⟩
    · rw [if_neg hv] at h; simp at h
  | wrap site v o =>
    simp only [checkStep] at h; simp only [step]
    by_cases hv : v ∈ s.loose
    · rw [if_pos hv] at h ⊢; simp at h; exact ⟨_, rfl, h⟩
    · rw [if_neg hv] at h; simp at h
  | move site v w =>
    simp only [checkStep] at h; simp only [step]
    by_cases hv : v ∈ s.loose ∧ w ∉ s.loose.erase v
    · rw [if_pos hv] at h ⊢; simp at h; exact ⟨_, rfl, h⟩
    · rw [if_neg hv] at h; simp at h
  | closeObj site o =>
    simp only [checkStep] at h; simp at h
    simp only [step]
    cases s.objs.lookup o with
    | none => exact ⟨_, rfl, h⟩
    | some x => exact ⟨_, rfl, h⟩
  | leave site =>
    simp only [checkStep] at h; simp only [step]
    by_cases hv : s.loose = []
    · rw [if_pos hv] at h ⊢; simp at h; exact ⟨_, rfl, h⟩
    · rw [if_neg hv] at h; simp at h

theorem exec_of_check : ∀ (ps : List Prim) {s : St} {l : List Var}, check s.loose ps = some l →
    ∃ s', exec s ps = some s' ∧ s'.loose = l
  | [], s, l, h => by simp [check] at h; exact ⟨s, rfl, h⟩
  | p :: ps, s, l, h => by
    simp only [check] at h
    cases hc : checkStep s.loose p with
    | none => rw [hc] at h; simp at h
    | some l1 =>
      rw [hc] at h
      obtain ⟨s1, hs1, hl1⟩ := step_of_checkStep hc
      rw [← hl1] at h
      obtain ⟨s2, hs2, hl2⟩ := exec_of_check ps h
      exact ⟨s2, by simp [exec, hs1, hs2], hl2⟩

theorem check_append : ∀ (ps qs : List Prim) (l : List Var),
    check l (ps ++ qs) = (check l ps).bind (fun l' => check l' qs)
  | [], qs, l => by simp [check]
  | p :: ps, qs, l => by
    simp only [List.cons_append, check]
    cases checkStep l p with
    | none => simp
    | some l1 => simp [check_append ps qs l1]

theorem exec_append : ∀ (ps qs : List Prim) (s : St),
    exec s (ps ++ qs) = (exec s ps).bind (fun s' => exec s' qs)
  | [], qs, s => by simp [exec]
  | p :: ps, qs, s => by
    simp only [List.cons_append, exec]
    cases step s p with
    | none => simp
    | some s1 => simp [exec_append ps qs s1]

/-! ## every modelled C function keeps the discipline, for all inputs -/

theorem osPipe_ok (a b c : Bool) (o1 o2 : Oid) : check [] (osPipe a b c o1 o2) = some [] := by
  cases a <;> cases b <;> cases c <;> rfl

theorem osOpen_ok (a b : Bool) (o : Oid) : check [] (osOpen a b o) = some [] := by
  cases a <;> cases b <;> rfl

theorem watcherInit_ok (a : Bool) (o : Oid) : check [] (watcherInit a o) = some [] := by
  cases a <;> rfl

theorem toFile_ok (a b c : Bool) (o : Oid) : check [] (toFile a b c o) = some [] := by
  cases a <;> cases b <;> cases c <;> rfl

theorem streamMarshal_ok (a b : Bool) (o : Oid) : check [] (streamMarshal a b o) = some [] := by
  cases a <;> cases b <;> rfl

theorem ioFopen_ok (a b c d e : Bool) (o : Oid) : check [] (ioFopen Cfg.fixed a b c d e o) = some [] := by
  cases a <;> cases b <;> cases c <;> cases d <;> cases e <;> rfl

theorem ioTemp_ok (a : Bool) (o : Oid) : check [] (ioTemp a o) = some [] := by
  cases a <;> rfl

theorem netAccept_ok (a : Bool) (o : Oid) : check [] (netAccept a o) = some [] := by
  cases a <;> rfl

theorem netConnect_ok (a b c d e f : Bool) (o : Oid) : check [] (netConnect Cfg.fixed a b c d e f o) = some [] := by
  cases a <;> cases b <;> cases c <;> cases d <;> cases e <;> cases f <;> rfl

theorem listenTries_ok : ∀ (ts : List ListenTry), check [] (listenTries ts) = some []
  | [] => rfl
  | t :: ts => by
    simp only [listenTries, check_append]
    have : check [] (listenTry t) = some [] := by cases t <;> rfl
    rw [this]
    simpa using listenTries_ok ts

theorem netListen_ok (a b c d : Bool) (ts : List ListenTry) (f g h : Bool) (o : Oid) :
    check [] (netListen a b c d ts f g h o) = some [] := by
  cases a
  · rfl
  · cases b
    · -- inet: the loop, then the tail
      simp only [netListen, Bool.not_true, Bool.false_eq_true, if_false, check_append, listenTries_ok, Option.bind_some]
      cases f <;> cases g <;> cases h <;> rfl
    · cases c <;> cases d <;> cases g <;> cases h <;> rfl

theorem streamClose_ok (o : Oid) : check [] (streamClose o) = some [] := rfl
theorem streamGc_ok (o : Oid) : check [] (streamGc o) = some [] := rfl
theorem fileClose_ok (o : Oid) : check [] (fileClose o) = some [] := rfl
theorem fileGc_ok (o : Oid) : check [] (fileGc o) = some [] := rfl
theorem watcherUnlisten_ok (o : Oid) : check [] (watcherUnlisten o) = some [] := rfl

theorem procClose_ok (a b c : Option Oid) : check [] (procClose a b c) = some [] := by
  cases a <;> cases b <;> cases c <;> rfl

theorem evInit_ok (a b c d : Oid) : check [] (evInit a b c d) = some [] := rfl
theorem evDeinit_ok (a b c d : Oid) : check [] (evDeinit a b c d) = some [] := rfl

end JanetModel.Fds
