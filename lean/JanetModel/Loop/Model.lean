/-
C20 — executable model of the event loop's liveness bookkeeping (src/core/ev.c, gc.c, os.c).  Core Lean only.

What the C code counts.  `janet_vm.listener_count` is incremented / decremented at exactly the sites listed in
`Gen.Loop.counterSites` (regenerated from the source on every run, see `siteSpec` below):

  janet_async_start_fiber  +1                       a fiber starts listening on a stream        (`astart`)
  janet_async_end          -1  if ev_callback set   the listener is removed                     (`aend`)
  gc.c janet_deinit_block  -1  if ev_state set      a fiber that still has ev_state is freed    (`gcListener`)
  janet_loop1              +1  if is_suspended      a task returned EVENT/YIELD/INTERRUPT       (`ran f true`)
  janet_loop1              -1  if SUSPENDED flag    a task of a flagged fiber is popped         (`pop f`)
  janet_ev_threaded_call   +1                       a helper thread is started                  (`await`,`callNoFiber`,`procWait`)
  janet_ev_post_event      +1                       an event is written to the self pipe        (`post`)
  janet_ev_handle_selfpipe -1  if cb != NULL        an event is read from the self pipe         (`deliver…`)
                               (unconditional once `Gen.Loop.selfpipeDecNeedsCb = false`)

`janet_loop_done` is `!(spawn non-empty || tq_count || listener_count)` (`Gen.Loop.doneTerms`).

GC roots taken by event-loop operations (`Gen.Loop.rootSites`): the stream of a listener (async start/end), the fiber of
janet_ev_threaded_await (released by the default callback), process + fiber of os/proc-wait (released by
janet_proc_wait_cb), and the fiber queued on a *threaded* channel (janet_channel_push/pop_with_lock) which the pinned
tree never releases (`Cfg.tchanUnroot = false`).

Mutation is returned state; every transition is a total function to `Option St` (`none` = the C code cannot take this
transition in this state, e.g. reading an event from an empty pipe).
-/
import JanetModel.Gen.Loop

namespace JanetModel.Loop

abbrev Fid := Nat

/-- an entry of the timeout heap `janet_vm.tq`: `deadline` ⇔ `curr_fiber != NULL` (ev/deadline) -/
structure Timer where
  fiber : Fid
  deadline : Bool
  deriving DecidableEq, Repr

/-- tree-dependent switches, set from the generated tables -/
structure Cfg where
  /-- janet_thread_chan_cb releases the root of the fiber whose pending entry was consumed -/
  tchanUnroot : Bool
  /-- janet_ev_handle_selfpipe decrements listener_count for every event read, also those with cb = NULL -/
  nullDec : Bool
  /-- janet_stream_close notifies the read-side and the write-side fiber independently (`if … if …`, not `if … else if …`) -/
  closeBoth : Bool
  deriving Repr

def Cfg.ofGen : Cfg :=
  { tchanUnroot := Gen.Loop.tchanUnrootCb
    nullDec := !Gen.Loop.selfpipeDecNeedsCb
    closeBoth := Gen.Loop.closeNotifiesBoth }

structure St where
  /-- janet_vm.listener_count (an Int, so that an unmatched decrement is visible) -/
  lc : Int := 0
  /-- fibers carrying JANET_FIBER_EV_FLAG_SUSPENDED -/
  susp : List Fid := []
  /-- fibers with an installed ev_callback (stream listeners) -/
  lis : Nat := 0
  /-- events in the self pipe written by janet_ev_post_event with cb ≠ NULL -/
  posted : Nat := 0
  /-- events in the self pipe with cb = NULL (janet_loop1_interrupt) -/
  postedNull : Nat := 0
  /-- NULL-callback events already read: janet_ev_handle_selfpipe (POSIX) does not decrement for them -/
  nullStuck : Nat := 0
  /-- helper threads started by janet_ev_threaded_call whose completion event has not been read yet -/
  calls : Nat := 0
  /-- janet_vm.spawn -/
  runq : List Fid := []
  /-- janet_vm.tq -/
  timers : List Timer := []
  /-- janet_vm.root_count, relative to the start of the program -/
  roots : Int := 0
  /-- breakdown of `calls` -/
  awaits : Nat := 0
  noFiber : Nat := 0
  procWaits : Nat := 0
  /-- entries of this thread's fibers in pending queues of threaded channels -/
  tchanPending : Nat := 0
  /-- consumed entries whose root was not released -/
  tchanLeaked : Nat := 0
  /-- stream roots left behind when gc.c frees a fiber that still has ev_state -/
  orphanStreams : Nat := 0
  /-- listeners whose stream has been closed without notifying them: the descriptor is gone from epoll, nothing can wake them -/
  orphanLis : Nat := 0
  /-- signals with a handler function installed by os/sigaction: `janet_vm.signal_handlers`, each entry pinned by janet_gcroot -/
  sigs : List Nat := []
  /-- file watchers that are listening (`is_watching`): pinned by janet_watcher_listen until janet_watcher_unlisten -/
  watching : Nat := 0
  deriving Repr

def init : St := {}

inductive Ev
  /-- janet_schedule_general pushed a task for `f` -/
  | sched (f : Fid)
  /-- janet_loop1 popped a task of `f` (run or skipped as stale) -/
  | pop (f : Fid)
  /-- janet_continue_signal returned; `suspended` ⇔ signal ∈ {EVENT, YIELD, INTERRUPT} -/
  | ran (f : Fid) (suspended : Bool)
  /-- the collector freed fiber `f` -/
  | gcFiber (f : Fid)
  | astart
  | aend
  | gcListener
  /-- janet_ev_threaded_await -/
  | await
  /-- janet_ev_threaded_call with the default callback and msg.fiber = NULL (ev/thread :n) -/
  | callNoFiber
  /-- os_proc_wait_impl -/
  | procWait
  | deliverAwait
  | deliverNoFiber
  | deliverProc
  /-- janet_ev_post_event; `null` ⇔ cb = NULL -/
  | post (null : Bool)
  | deliverPosted
  | deliverNull
  /-- the running fiber was queued on a threaded channel -/
  | tchanPend
  /-- janet_thread_chan_cb ran on this thread: one of its pending entries was consumed -/
  | deliverChan
  /-- an entry of this thread was consumed without a callback (ev/chan-close by the same thread, finaliser); only
      observable on a tree that releases the root there -/
  | tchanDirect
  | tadd (t : Timer)
  | tpop (t : Timer)
  /-- close(2) in janet_stream_close_impl after the notifications; `orphans` fibers still have a callback installed on it -/
  | streamClosed (orphans : Nat)
  /-- os.c os_sigaction: `if (old handler of sig is not nil) janet_gcunroot(old); if (handler) { janet_gcroot(handler); put } else put nil`.
      The signal itself arrives as `post false` (janet_signal_trampoline → janet_ev_post_event) and `deliverPosted`
      (janet_signal_callback schedules a new fiber running the handler: `sched`). -/
  | sigaction (sig : Nat) (install : Bool)
  /-- filewatch.c janet_watcher_listen: `janet_async_start_fiber(…)` (a separate `astart`) and `janet_gcroot(watcher)` -/
  | watchListen
  /-- filewatch.c janet_watcher_unlisten: `if (!is_watching) return; janet_stream_close(stream)` (separate `aend` / `streamClosed`)
      and `janet_gcunroot(watcher)` -/
  | watchUnlisten
  deriving Repr

def step (cfg : Cfg) (s : St) : Ev → Option St
  | .sched f => some { s with runq := s.runq ++ [f] }
  | .pop f =>
    if f ∈ s.runq then
      if f ∈ s.susp then
        -- `if (task.fiber->gc.flags & SUSPENDED) janet_ev_dec_refcount();  flags &= ~(CANCELED | SUSPENDED)`
        some { s with runq := s.runq.erase f, susp := s.susp.erase f, lc := s.lc - 1 }
      else some { s with runq := s.runq.erase f }
    else none
  | .ran f true =>
    -- `if (is_suspended) { flags |= SUSPENDED; janet_ev_inc_refcount(); }` — the flag was cleared by the pop
    if f ∈ s.susp then none else some { s with susp := f :: s.susp, lc := s.lc + 1 }
  | .ran _ false => some s
  | .gcFiber _ => some s
  | .astart => some { s with lis := s.lis + 1, lc := s.lc + 1, roots := s.roots + 1 }
  | .aend =>
    if s.lis = 0 then none
    else some { s with lis := s.lis - 1, lc := s.lc - 1, roots := s.roots - 1, orphanLis := min s.orphanLis (s.lis - 1) }
  | .gcListener =>
    if s.lis = 0 then none
    else some { s with lis := s.lis - 1, lc := s.lc - 1, orphanStreams := s.orphanStreams + 1, orphanLis := min s.orphanLis (s.lis - 1) }
  | .await => some { s with calls := s.calls + 1, awaits := s.awaits + 1, lc := s.lc + 1, roots := s.roots + 1 }
  | .callNoFiber => some { s with calls := s.calls + 1, noFiber := s.noFiber + 1, lc := s.lc + 1 }
  | .procWait => some { s with calls := s.calls + 1, procWaits := s.procWaits + 1, lc := s.lc + 1, roots := s.roots + 2 }
  | .deliverAwait =>
    if s.awaits = 0 ∨ s.calls = 0 then none
    else some { s with calls := s.calls - 1, awaits := s.awaits - 1, lc := s.lc - 1, roots := s.roots - 1 }
  | .deliverNoFiber =>
    if s.noFiber = 0 ∨ s.calls = 0 then none
    else some { s with calls := s.calls - 1, noFiber := s.noFiber - 1, lc := s.lc - 1 }
  | .deliverProc =>
    if s.procWaits = 0 ∨ s.calls = 0 then none
    else some { s with calls := s.calls - 1, procWaits := s.procWaits - 1, lc := s.lc - 1, roots := s.roots - 2 }
  | .post false => some { s with posted := s.posted + 1, lc := s.lc + 1 }
  | .post true => some { s with postedNull := s.postedNull + 1, lc := s.lc + 1 }
  | .deliverPosted => if s.posted = 0 then none else some { s with posted := s.posted - 1, lc := s.lc - 1 }
  | .deliverNull =>
    -- `if (NULL != response.cb) { response.cb(response.msg); janet_ev_dec_refcount(); }` : nothing happens for cb = NULL
    if s.postedNull = 0 then none
    else if cfg.nullDec then some { s with postedNull := s.postedNull - 1, lc := s.lc - 1 }
    else some { s with postedNull := s.postedNull - 1, nullStuck := s.nullStuck + 1 }
  | .tchanPend => some { s with tchanPending := s.tchanPending + 1, roots := s.roots + 1 }
  | .deliverChan =>
    if s.posted = 0 ∨ s.tchanPending = 0 then none
    else if cfg.tchanUnroot then
      some { s with posted := s.posted - 1, lc := s.lc - 1, tchanPending := s.tchanPending - 1, roots := s.roots - 1 }
    else
      some { s with posted := s.posted - 1, lc := s.lc - 1, tchanPending := s.tchanPending - 1, tchanLeaked := s.tchanLeaked + 1 }
  | .tchanDirect =>
    if s.tchanPending = 0 then none else some { s with tchanPending := s.tchanPending - 1, roots := s.roots - 1 }
  | .tadd t => some { s with timers := t :: s.timers }
  | .tpop t => if t ∈ s.timers then some { s with timers := s.timers.erase t } else none
  | .streamClosed n => if s.orphanLis + n ≤ s.lis then some { s with orphanLis := s.orphanLis + n } else none
  | .sigaction sig install =>
    some { s with sigs := (if install then [sig] else []) ++ s.sigs.erase sig
                  roots := s.roots - (if sig ∈ s.sigs then 1 else 0) + (if install then 1 else 0) }
  | .watchListen => some { s with watching := s.watching + 1, roots := s.roots + 1 }
  | .watchUnlisten => if s.watching = 0 then none else some { s with watching := s.watching - 1, roots := s.roots - 1 }

def run (cfg : Cfg) : St → List Ev → Option St
  | s, [] => some s
  | s, e :: es =>
    match step cfg s e with
    | none => none
    | some s' => run cfg s' es

/-- `janet_loop_done`: `!(spawn.head != spawn.tail || tq_count || listener_count)` -/
def loopDone (s : St) : Bool := !(!s.runq.isEmpty || !s.timers.isEmpty || s.lc != 0)

/-- what the program is still waiting for -/
def outstanding (s : St) : Nat := s.susp.length + s.lis + s.posted + s.postedNull + s.calls

/-- nothing left to run, to wait for, or to time out -/
def Idle (s : St) : Prop := s.runq = [] ∧ s.timers = [] ∧ outstanding s = 0

/-- `janet_stream_close` on a stream with a fiber parked on the read side (`r`) and / or the write side (`w`): each notified
    fiber's callback schedules it and ends its listener (`janet_async_end`), then the descriptor is closed.
    `if (rf && rf->ev_callback) {…} if (wf && wf->ev_callback) {…}` notifies both; with `else if` the writer is skipped whenever a
    reader is parked. -/
def streamCloseEvents (cfg : Cfg) (r w : Bool) : List Ev :=
  if cfg.closeBoth then
    (if r then [Ev.aend] else []) ++ (if w then [Ev.aend] else []) ++ [Ev.streamClosed 0]
  else if r then [Ev.aend, Ev.streamClosed (if w then 1 else 0)]
  else if w then [Ev.aend, Ev.streamClosed 0]
  else [Ev.streamClosed 0]

/-- can anything still wake the loop up?  `liveTimer`: some timer in the heap is not stale -/
def canWake (s : St) (liveTimer : Bool) : Bool :=
  !s.runq.isEmpty || decide (0 < s.posted + s.postedNull + s.calls) || decide (s.orphanLis < s.lis) || liveTimer

/-! ### the poll phase of janet_loop1 (phase 3): stale timeouts are dropped from the head of the heap

`ts` is the heap in pop order (head = `janet_vm.tq[0]`); `stale t` is the C test evaluated at that moment:
`t.deadline ? !janet_fiber_can_resume(curr_fiber) : fiber->sched_id != t.sched_id` (`Gen.Loop.staleLoop`). -/

def dropStale (stale : Timer → Bool) : List Timer → List Timer
  | [] => []
  | t :: ts => if stale t then dropStale stale ts else t :: ts

/-- `if (tq_count || listener_count) { while (peek) { if stale { pop; continue; } break; } … }` -/
def pollPrelude (stale : Timer → Bool) (s : St) : St :=
  if !s.timers.isEmpty || s.lc != 0 then { s with timers := dropStale stale s.timers } else s

/-- second guard: `if (tq_count || listener_count) janet_loop1_impl(...)` — does the loop block in the kernel? -/
def willPoll (s : St) : Bool := !s.timers.isEmpty || s.lc != 0

/-! ### one `janet_loop1` step and `janet_loop`, with the C's three phases

What the model does not decide itself is an input: which timeouts have expired and whom they schedule, what each popped task
does while it runs (its bookkeeping operations, whether it ends suspended), which timeouts the C test classifies as stale,
and what the kernel delivers during the poll. -/

/-- a task popped from `janet_vm.spawn` -/
structure Task where
  fiber : Fid
  /-- `task.expected_sched_id != task.fiber->sched_id`: popped (and un-flagged) but not run -/
  skipped : Bool
  /-- bookkeeping operations performed while the fiber runs (astart, await, procWait, tadd, sched, tchanPend, post, …) -/
  ops : List Ev
  /-- janet_continue_signal returned EVENT / YIELD / INTERRUPT -/
  suspended : Bool

def Task.events (t : Task) : List Ev :=
  .pop t.fiber :: (if t.skipped then [] else t.ops ++ [.ran t.fiber t.suspended])

structure StepIn where
  /-- phase 1: `while (peek_timeout(&to) && to.when <= now) { pop_timeout(0); … janet_cancel / janet_schedule … }` -/
  expired : List (Timer × Option Fid)
  /-- phase 2: `while (spawn.head != spawn.tail) { pop; if SUSPENDED dec; run; if is_suspended inc; }` -/
  tasks : List Task
  /-- phase 3: the staleness test of the drop loop -/
  stale : Timer → Bool
  /-- what `janet_loop1_impl` delivers (self-pipe events, stream callbacks ending listeners, schedules) -/
  delivered : List Ev

def expireEvents : List (Timer × Option Fid) → List Ev
  | [] => []
  | (t, none) :: r => .tpop t :: expireEvents r
  | (t, some f) :: r => .tpop t :: .sched f :: expireEvents r

def loop1 (cfg : Cfg) (s : St) (i : StepIn) : Option St :=
  match run cfg s (expireEvents i.expired ++ (i.tasks.map Task.events).flatten) with
  | none => none
  | some s1 =>
    let s2 := pollPrelude i.stale s1
    if willPoll s2 then run cfg s2 i.delivered else some s2

/-- `void janet_loop(void) { while (!janet_loop_done()) janet_loop1(); }` on a script of step inputs -/
def janetLoop (cfg : Cfg) : St → List StepIn → Option St
  | s, [] => some s
  | s, i :: is => if loopDone s then some s else
    match loop1 cfg s i with
    | none => none
    | some s' => janetLoop cfg s' is

/-! ### the finaliser of a process handle (os.c `janet_proc_gc`)

`if (!(flags & (WAITED | ALLOW_ZOMBIE))) { kill(pid, SIGKILL); if (!(flags & WAITING)) waitpid(pid, &status, opts); }`
The handle is the only holder of the pid.  SIGKILL is delivered asynchronously: right after `kill` a child that was running
is (in general) still running, so a non-blocking `waitpid` returns 0 and the child later turns into a zombie nobody can reap. -/

inductive Child
  | running   -- alive
  | zombie    -- exited, not yet waited for
  | reaped    -- waited for: no process table entry left
  deriving DecidableEq, Repr

/-- state of the child after the finaliser of its (never waited, not being waited) handle ran -/
def procGc (blockingWait : Bool) : Child → Child
  | .reaped => .reaped
  | .zombie => .reaped                                           -- waitpid returns at once, with or without WNOHANG
  | .running => if blockingWait then .reaped else .zombie        -- blocking: waits for the kill to take effect

/-- children left in the process table after collecting `handles` dropped handles -/
def leftBehind (blockingWait : Bool) (handles : List Child) : Nat :=
  ((handles.map (procGc blockingWait)).filter (· ≠ .reaped)).length

/-! ### generated tables the model mirrors -/

def doneSpec : List String :=
  ["janet_vm.spawn.head!=janet_vm.spawn.tail", "janet_vm.tq_count", "janet_atomic_load(&janet_vm.listener_count)"]

def pollGuardSpec : String := "janet_vm.tq_count||janet_atomic_load(&janet_vm.listener_count)"

/-- every site that touches listener_count (file, function, sign, source order), with the transition that mirrors it.  UNDER WHICH
    CONDITIONS each site is executed is no longer compared as text (the chain of enclosing conditions, `Gen.Loop.counterSites` 4th
    component, kept there for the report only): `Loop/CounterPaths.lean` checks the branches taken on every control-flow path of
    these functions against the guards of the transitions (`counter_paths_ok`, `counter_ops_match_model`). -/
def siteSpec : List (String × String × String) := [
  ("ev.c", "janet_async_end", "-"),              -- aend
  ("ev.c", "janet_async_start_fiber", "+"),      -- astart
  ("ev.c", "janet_loop1", "-"),                  -- pop
  ("ev.c", "janet_loop1", "+"),                  -- ran _ true
  ("ev.c", "janet_ev_handle_selfpipe", "-"),     -- deliver*
  ("ev.c", "janet_ev_post_event", "+"),          -- post
  ("ev.c", "janet_ev_threaded_call", "+"),       -- await / callNoFiber / procWait
  ("gc.c", "janet_deinit_block", "-")            -- gcListener
]

def staleLoopSpec : String :=
  "while((has_timeout=peek_timeout(&to))){if(to.curr_fiber!=((void*)0)){if(!janet_fiber_can_resume(to.curr_fiber)){if(to.has_worker){pthread_cancel(to.worker);void*res;pthread_join(to.worker,&res);}janet_table_remove(&janet_vm.active_tasks,janet_nanbox_from_pointer(((to.curr_fiber)),(((uint64_t)(JANET_FIBER)|0x1FFF0)<<47)));pop_timeout(0);continue;}}elseif(to.fiber->sched_id!=to.sched_id){pop_timeout(0);continue;}break;}"

/-- root / unroot sites of event-loop operations (ev.c, filewatch.c, os.c, net.c), without the (tree dependent) release sites of the threaded-channel root -/
def rootSpec : List (String × String × String × String) := [
  ("ev.c", "janet_async_end", "unroot", "ABSTRACT:fiber->ev_stream"),
  ("ev.c", "janet_async_start_fiber", "root", "ABSTRACT:stream"),
  ("ev.c", "janet_channel_push_with_lock", "root", "FIBER:pending.fiber"),
  ("ev.c", "janet_channel_pop_with_lock", "root", "FIBER:pending.fiber"),
  ("ev.c", "janet_ev_default_threaded_callback", "unroot", "FIBER:return_value.fiber"),
  ("ev.c", "janet_ev_threaded_await", "root", "FIBER:arguments.fiber"),
  ("ev.c", "janet_go_thread_subr", "root", "TABLE:janet_vm.abstract_registry"),
  ("filewatch.c", "janet_watcher_listen", "root", "ABSTRACT:watcher"),                 -- watchListen
  ("filewatch.c", "janet_watcher_unlisten", "unroot", "ABSTRACT:watcher"),             -- watchUnlisten
  ("os.c", "janet_proc_wait_cb", "unroot", "ABSTRACT:proc"),
  ("os.c", "janet_proc_wait_cb", "unroot", "FIBER:args.fiber"),
  ("os.c", "os_proc_wait_impl", "root", "ABSTRACT:proc"),
  ("os.c", "os_proc_wait_impl", "root", "FIBER:targs.fiber"),
  ("os.c", "os_sigaction", "unroot", "oldhandler"),                                    -- sigaction
  ("os.c", "os_sigaction", "root", "handlerv")                                         -- sigaction _ true
]

def closeSpec (both : Bool) : List (String × List String) :=
  [("rf", ["if(rf&&rf->ev_callback)"]), ("wf", [if both then "if(wf&&wf->ev_callback)" else "elseif(wf&&wf->ev_callback)"])]

def isTchanRelease (x : String × String × String × String) : Bool :=
  x.2.2.1 == "unroot" && (x.2.1 == "janet_thread_chan_cb" || x.2.1 == "cfun_channel_close" || x.2.1 == "janet_chan_deinit")

end JanetModel.Loop
