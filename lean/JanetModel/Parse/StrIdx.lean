/- `stringend`'s two re-indent loops at INDEX level: the scratch block is a list of cells addressed by `r`, `w`, `end`; every `*r`, `*(r + 1)`
   and `*w++ = ...` is a checked access (inside `[0, bufcount)`), the second pass writes IN PLACE (`List.set`) into the block it is reading.
   Core Lean only (linked into `jm_c11`).  Proofs: `Parse/StrIdxLemmas.lean` (`reindentI_spec`: no check fails, result = the list-level
   `reindentCheck` / `reindent` of `Model.lean`). -/
import JanetModel.Parse.Model

namespace JanetModel.Parse

/-- is cell `i` inside the scratch contents? -/
def inb (b : List B) (i : Nat) : Bool := decide (i < b.length)

/-- first pass, inner loop
    `for (j = 0; (r < end) && (*r != '\n') && (j < indent_col); j++, r++) { if (*r != ' ') { reindent = 0; break; } }`
    `k` = `indent_col - j`; returns (reindent, r, ok) -/
def forCheckI (b : List B) (e : Nat) : Nat → Nat → Bool → Bool × Nat × Bool
  | 0, r, ok => if r < e then (true, r, ok && inb b r) else (true, r, ok)          -- `*r` is read before `j < indent_col` fails
  | k + 1, r, ok =>
    if r < e then
      let ok := ok && inb b r
      if b.getD r 0 != 10 then
        if b.getD r 0 != 32 then (false, r, ok) else forCheckI b e k (r + 1) ok
      else (true, r, ok)
    else (true, r, ok)

/-- `(r + 1) < end && *r == '\r' && *(r + 1) == '\n'` with its two reads -/
def crlfAtI (b : List B) (e r : Nat) (ok : Bool) : Bool × Bool :=
  if r + 1 < e then (b.getD r 0 == 13 && b.getD (r + 1) 0 == 10, ok && inb b r && inb b (r + 1)) else (false, ok)

/-- first pass `while (reindent && (r < end)) { if (*r++ == '\n') { for ...; if (crlf) reindent = 1; } }`; returns (reindent, ok) -/
def checkI (b : List B) (e ind : Nat) : Nat → Nat → Bool → Bool × Bool
  | 0, _, ok => (true, ok)
  | fuel + 1, r, ok =>
    if r < e then
      let ok := ok && inb b r
      if b.getD r 0 == 10 then
        let (re, r', ok) := forCheckI b e ind (r + 1) ok
        let (crlf, ok) := crlfAtI b e r' ok
        if (if crlf then true else re) then checkI b e ind fuel r' ok else (false, ok)
      else checkI b e ind fuel (r + 1) ok
    else (true, ok)

/-- second pass, inner loop `for (j = 0; (r < end) && (*r != '\n') && (j < indent_col); j++, r++);`; returns (r, ok) -/
def skipI (b : List B) (e : Nat) : Nat → Nat → Bool → Nat × Bool
  | 0, r, ok => if r < e then (r, ok && inb b r) else (r, ok)
  | k + 1, r, ok =>
    if r < e then
      let ok := ok && inb b r
      if b.getD r 0 != 10 then skipI b e k (r + 1) ok else (r, ok)
    else (r, ok)

/-- second pass `while (r < end) { if (*r == '\n') { *w++ = *r++; for ...; if (crlf) *w++ = *r++; } else *w++ = *r++; }`: the block is
    rewritten in place; returns (block, w, ok) -/
def rewriteI (e ind : Nat) : Nat → List B → Nat → Nat → Bool → List B × Nat × Bool
  | 0, b, _, w, ok => (b, w, ok)
  | fuel + 1, b, r, w, ok =>
    if r < e then
      let ok := ok && inb b r && inb b w
      let c := b.getD r 0
      let b := b.set w c                      -- *w++ = *r++   (both branches start with it)
      if c == 10 then
        let (r', ok) := skipI b e ind (r + 1) ok
        let (crlf, ok) := crlfAtI b e r' ok
        if crlf then rewriteI e ind fuel (b.set (w + 1) (b.getD r' 0)) (r' + 1) (w + 2) (ok && inb b (w + 1))
        else rewriteI e ind fuel b r' (w + 1) ok
      else rewriteI e ind fuel b (r + 1) (w + 1) ok
    else (b, w, ok)

/-- both passes on the scratch contents: (text handed on to the EOL strips, no checked access failed) -/
def reindentI (ind : Nat) (b : List B) : List B × Bool :=
  let e := b.length
  let (re, ok) := checkI b e ind (e + 1) 0 true
  if re then
    let (b', w, ok) := rewriteI e ind (e + 1) b 0 0 ok
    (b'.take w, ok)
  else (b, ok)

/-- the long-string post-processing of `stringend` with the loops at index level -/
def dedentI (indentCol : Nat) (buf : List B) : List B × Bool :=
  let (b, ok) := reindentI indentCol buf
  (stripTrailingEol (stripLeadingEol b), ok)

end JanetModel.Parse
