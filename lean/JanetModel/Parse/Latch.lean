/- The error latch and `janet_parser_eof`: once `error` is set (or the parser is dead) `janet_parser_consume` refuses every byte
   and the state -- in particular the value queue -- is frozen until `parser/error` (which flushes) takes the error;
   `eof` marks the parser dead and reports the innermost unterminated form. -/
import JanetModel.Parse.Pure

namespace JanetModel.Parse
open JanetModel.Gen.Parse

/-! ### the latch -/

theorem checkDead_of_error {p : Parser} (h : p.error.isSome = true) : (checkDead p).isSome = true := by
  unfold checkDead
  split
  · rfl
  · simp

theorem checkDead_of_flag {p : Parser} (h : p.flag ≠ 0) : (checkDead p).isSome = true := by
  unfold checkDead
  simp [h]

theorem consume_refused (scan : List B → Option String) {p : Parser} (c : B) (h : (checkDead p).isSome = true) : consume scan p c = p := by
  unfold consume
  cases hc : checkDead p with
  | none => rw [hc] at h; cases h
  | some _ => rfl

/-- ★ error latch: with an unchecked error `janet_parser_consume` panics and changes nothing, for every byte string -/
theorem consume_latched (scan : List B → Option String) {p : Parser} (h : p.error.isSome = true) (bs : List B) :
    bs.foldl (consume scan) p = p := by
  induction bs with
  | nil => rfl
  | cons c cs ih => simp only [List.foldl_cons, consume_refused scan c (checkDead_of_error h)]; exact ih

/-- ★ a dead parser (after `eof`) likewise -/
theorem consume_dead (scan : List B → Option String) {p : Parser} (h : p.flag ≠ 0) (bs : List B) :
    bs.foldl (consume scan) p = p := by
  induction bs with
  | nil => rfl
  | cons c cs ih => simp only [List.foldl_cons, consume_refused scan c (checkDead_of_flag h)]; exact ih

theorem eof_refused (scan : List B → Option String) {p : Parser} (h : (checkDead p).isSome = true) : eof scan p = p := by
  unfold eof
  cases hc : checkDead p with
  | none => rw [hc] at h; cases h
  | some _ => rfl

/-- `parser/status` reports the latch, and keeps reporting it whatever bytes, `eof`s, dequeues and queries follow -/
theorem status_error_iff (p : Parser) : status p = .error ↔ p.error.isSome = true := by
  unfold status
  constructor
  · intro h
    by_cases he : p.error.isSome = true
    · exact he
    · simp only [he, Bool.false_eq_true, if_false] at h
      split at h
      · cases h
      · split at h <;> cases h
  · intro h; simp [h]

/-- `parser/flush` alone does NOT clear the latch ... -/
theorem flush_keeps_error (p : Parser) : (flush p).error = p.error ∧ (flush p).flag = p.flag := ⟨rfl, rfl⟩

/-- ... `parser/error` does: the error is handed out once, the generated-error flag bit is cleared, queue / arguments / scratch
    buffer are emptied and only the root frame is left -/
theorem takeError_clears {p : Parser} {e : String} (h : p.error = some e) :
    (takeError p).1 = some e ∧ (takeError p).2.error = none ∧ (takeError p).2.pending = 0 ∧ (takeError p).2.args = [] ∧
    (takeError p).2.buf = [] ∧ (takeError p).2.states.length = min p.states.length 1 ∧
    (takeError p).2.flag = p.flag &&& (0xFFFFFFFF ^^^ JANET_PARSER_GENERATED_ERROR) := by
  unfold takeError
  rw [h]
  refine ⟨rfl, rfl, rfl, rfl, rfl, ?_, rfl⟩
  simp only [flush]
  split <;> simp <;> omega

theorem takeError_none {p : Parser} (h : p.error = none) : takeError p = (none, p) := by
  unfold takeError; simp [h]

/-! ### `janet_parser_eof` -/

/-- the text `delim_error` prints for the frame it names -/
def delimText (s : Frame) : String :=
  if hasFlag s.flags PFLAG_PARENS then "("
  else if hasFlag s.flags PFLAG_SQRBRACKETS then "["
  else if hasFlag s.flags PFLAG_CURLYBRACKETS then "{"
  else if hasFlag s.flags PFLAG_STRING then "\""
  else if hasFlag s.flags PFLAG_LONGSTRING then String.ofList (List.replicate s.argn '`')
  else ""

/-- the message of `janet_parser_eof` for the innermost open frame `f` -/
def eofMessage (f : Frame) : String :=
  "unexpected end of source" ++ "" ++ ", " ++ delimText f ++ " opened at line " ++ natToDec f.line ++ ", column " ++ natToDec f.column

theorem delimError_top (p : Parser) (f : Frame) (R : List Frame) (h : p.states = f :: R) (hR : R ≠ []) :
    (delimError p (p.states.length - 1) none "unexpected end of source").error = some (eofMessage f) := by
  cases R with
  | nil => exact absurd rfl hR
  | cons g l =>
    unfold delimError
    simp only [h, List.length_cons]
    have hidx : l.length + 1 + 1 - 1 - (l.length + 1 + 1 - 1) = 0 := by omega
    have hlen : l.length + 1 + 1 - 1 > 0 := by omega
    simp only [hidx, hlen, if_true, List.getD_cons_zero]
    rfl

/-- ★ what `janet_parser_eof` leaves behind, for EVERY parser state that accepts it (no latched error, not dead): the parser
    is dead; the byte it feeds is a newline; if more than the root frame is left after that newline, the error names the TOP
    (innermost) frame -- its delimiter, line and column; otherwise error and frames are those of `janet_parser_consume(p, '\n')`;
    line / column are restored -/
theorem eof_outcome (scan : List B → Option String) (p : Parser) (h : checkDead p = none) :
    (eof scan p).flag = (eof scan p).flag ||| JANET_PARSER_DEAD ∧ (eof scan p).flag ≠ 0 ∧
    (eof scan p).line = p.line ∧ (eof scan p).column = p.column ∧
    (eof scan p).states = (consumeRaw scan p 10).states ∧ (eof scan p).args = (consumeRaw scan p 10).args ∧
    (eof scan p).pending = (consumeRaw scan p 10).pending ∧
    (((consumeRaw scan p 10).states.length ≤ 1 ∧ (eof scan p).error = (consumeRaw scan p 10).error) ∨
     (∃ f R, (consumeRaw scan p 10).states = f :: R ∧ R ≠ [] ∧ (eof scan p).error = some (eofMessage f))) := by
  have hdead : ∀ x : Nat, (x ||| JANET_PARSER_DEAD) = (x ||| JANET_PARSER_DEAD) ||| JANET_PARSER_DEAD ∧ (x ||| JANET_PARSER_DEAD) ≠ 0 := by
    intro x
    constructor
    · rw [Nat.or_assoc, Nat.or_self]
    · intro h0
      have := congrArg (fun y => y.testBit 0) h0
      simp only [Nat.testBit_or, Nat.zero_testBit] at this
      have hb : Nat.testBit JANET_PARSER_DEAD 0 = true := by decide
      simp [hb] at this
  have key : eof scan p =
      { (if (consumeRaw scan p 10).states.length > 1 then
          delimError (consumeRaw scan p 10) ((consumeRaw scan p 10).states.length - 1) none "unexpected end of source"
         else consumeRaw scan p 10) with
        line := p.line, column := p.column,
        flag := (if (consumeRaw scan p 10).states.length > 1 then
          delimError (consumeRaw scan p 10) ((consumeRaw scan p 10).states.length - 1) none "unexpected end of source"
         else consumeRaw scan p 10).flag ||| JANET_PARSER_DEAD } := by
    unfold eof
    rw [h]
  rw [key]
  by_cases hl : (consumeRaw scan p 10).states.length > 1
  · rw [if_pos hl]
    refine ⟨(hdead _).1, (hdead _).2, rfl, rfl, rfl, rfl, rfl, Or.inr ?_⟩
    have hex : ∃ f R, (consumeRaw scan p 10).states = f :: R ∧ R ≠ [] := by
      cases hs : (consumeRaw scan p 10).states with
      | nil => rw [hs] at hl; simp at hl
      | cons f R => exact ⟨f, R, rfl, by intro e; rw [hs, e] at hl; simp at hl⟩
    obtain ⟨f, R, hs, hR⟩ := hex
    exact ⟨f, R, hs, hR, delimError_top _ f R hs hR⟩
  · rw [if_neg hl]
    exact ⟨(hdead _).1, (hdead _).2, rfl, rfl, rfl, rfl, rfl, Or.inl ⟨by omega, rfl⟩⟩

/-- after `eof` the parser reports `:dead` or `:error`, never `:root` / `:pending`, and accepts nothing more -/
theorem eof_status (scan : List B → Option String) (p : Parser) (h : checkDead p = none) :
    (status (eof scan p) = .dead ∨ status (eof scan p) = .error) ∧ ∀ bs : List B, bs.foldl (consume scan) (eof scan p) = eof scan p := by
  have hf := (eof_outcome scan p h).2.1
  constructor
  · unfold status
    by_cases he : (eof scan p).error.isSome = true
    · right; simp [he]
    · left; simp [he, hf]
  · exact consume_dead scan hf

/-! ### the queue is emptied by the client protocol -/

theorem drainAux_pending : ∀ (n : Nat) (p : Parser) (acc : List Event), WF p → p.pending = n → (drainAux n p acc).1.pending = 0 := by
  intro n
  induction n with
  | zero => intro p acc _ h; simpa [drainAux] using h
  | succ k ih =>
    intro p acc hwf hp
    have hp1 : 1 ≤ p.pending := by omega
    obtain ⟨A, z, hargs⟩ := args_concat hwf hp1
    unfold drainAux
    rw [produce_eq hp1 hargs]
    exact ih (dropQ p) _ (WF_dropQ hwf hp1) (by simp [dropQ, hp])

theorem drain_pending {r : Run} (h : WF r.p) : (drain r).p.pending = 0 := by
  unfold drain
  exact drainAux_pending _ _ _ h rfl

/-- number of events handed out by `drain` = number of queued values -/
theorem drainAux_out_length : ∀ (n : Nat) (p : Parser) (acc : List Event), WF p → p.pending = n →
    (drainAux n p acc).2.length = acc.length + n := by
  intro n
  induction n with
  | zero => intro p acc _ _; simp [drainAux]
  | succ k ih =>
    intro p acc hwf hp
    have hp1 : 1 ≤ p.pending := by omega
    obtain ⟨A, z, hargs⟩ := args_concat hwf hp1
    unfold drainAux
    rw [produce_eq hp1 hargs]
    have := ih (dropQ p) (acc ++ [.value (unwrap1 z)]) (WF_dropQ hwf hp1) (by simp [dropQ, hp])
    simp only [this, List.length_append, List.length_cons, List.length_nil]
    omega

theorem WF_eof (scan : List B → Option String) {p : Parser} (h : WF p) : WF (eof scan p) := by
  unfold eof
  cases hcd : checkDead p with
  | some _ => exact h
  | none =>
    have hw := WF_consume scan 10 h
    unfold consume at hw
    simp only [hcd] at hw
    simp only
    split
    · exact ⟨hw.ok, hw.sum, hw.rootn⟩
    · exact ⟨hw.ok, hw.sum, hw.rootn⟩

/-- ★ after `finish` (eof, error protocol, dequeue everything) nothing is left in the queue, from any well-formed run -/
theorem finish_pending (scan : List B → Option String) {r : Run} (h : WF r.p) : (finish scan r).p.pending = 0 := by
  unfold finish
  exact drain_pending (WF_handleError (r := { r with p := eof scan r.p }) (WF_eof scan h))

end JanetModel.Parse
