/- Reading `%j` text back, byte by byte through `janet_parser_consume` WITH its line / column / lookback update
   (`eatP` = `consumeRaw` when no error results): per-byte facts for tokens, strings, delimiters, and `popstate` accounting. -/
import JanetModel.Parse.Roundtrip
import JanetModel.Parse.Sm
import JanetModel.Parse.Pos

namespace JanetModel.Parse
open JanetModel.Gen.Parse JanetModel.PP

/-! ### one byte through `janet_parser_consume` -/

def setLb (q : Parser) (c : B) : Parser := { q with lookback := Int.ofNat c.toNat }

/-- `janet_parser_consume` on a live parser: position update, consume loop, lookback; `none` if an error is / gets latched -/
def eatP (scan : List B → Option String) (p : Parser) (c : B) : Option Parser :=
  (eat scan (advancePos p c) c).map (fun q => setLb q c)

def eatsP (scan : List B → Option String) : Parser → List B → Option Parser
  | p, [] => some p
  | p, c :: cs => (eatP scan p c).bind (fun q => eatsP scan q cs)

theorem eatsP_append (scan : List B → Option String) (p : Parser) (a b : List B) :
    eatsP scan p (a ++ b) = (eatsP scan p a).bind (fun q => eatsP scan q b) := by
  induction a generalizing p with
  | nil => simp [eatsP]
  | cons c cs ih =>
    simp only [List.cons_append, eatsP]
    cases eatP scan p c with
    | none => simp
    | some q => simp [ih]

theorem eatsP_snoc (scan : List B → Option String) (p q : Parser) (a : List B) (d : B) (h : eatsP scan p a = some q) :
    eatsP scan p (a ++ [d]) = eatP scan q d := by
  rw [eatsP_append, h]
  simp only [Option.bind_some, eatsP]
  cases eatP scan q d <;> simp

theorem eatsP_single (scan : List B → Option String) (p : Parser) (d : B) : eatsP scan p [d] = eatP scan p d := by
  simp only [eatsP]
  cases eatP scan p d <;> simp

/-- `eatP` is `consumeRaw` whenever it succeeds -/
theorem consumeRaw_of_eatP (scan : List B → Option String) (p q : Parser) (c : B) (h : eatP scan p c = some q) :
    consumeRaw scan p c = q ∧ q.error = none := by
  unfold eatP eat at h
  by_cases he : (advancePos p c).error.isSome = true
  · simp [he] at h
  · simp only [he] at h
    cases hl : consumeLoop scan (loopFuel (advancePos p c)) (advancePos p c) c with
    | none => simp [hl] at h
    | some q0 =>
      simp only [hl, Option.bind_some] at h
      by_cases he0 : q0.error.isSome = true
      · simp [he0] at h
      · simp only [he0, Bool.false_eq_true, if_false, Option.map_some, Option.some.injEq] at h
        subst h
        constructor
        · unfold consumeRaw; simp [hl, setLb]
        · simp only [setLb]
          cases hq : q0.error with
          | none => rfl
          | some e => rw [hq] at he0; simp at he0

/-! ### parsers up to positions -/

/-- everything about a (live) parser except line / column / lookback -/
structure Shape (p : Parser) (A : List Value) (S : List Frame) (b : List B) (pd fl : Nat) : Prop where
  hargs : p.args = A
  herr : p.error = none
  hstates : p.states = S
  hbuf : p.buf = b
  hpending : p.pending = pd
  hflag : p.flag = fl

theorem Shape.eq {p : Parser} {A : List Value} {S : List Frame} {b : List B} {pd fl : Nat} (h : Shape p A S b pd fl) :
    p = ⟨A, none, S, b, p.line, p.column, pd, p.lookback, fl⟩ := by
  obtain ⟨args, e, st, bf, l, c, pn, lb, f⟩ := p
  obtain ⟨h1, h2, h3, h4, h5, h6⟩ := h
  simp only at h1 h2 h3 h4 h5 h6
  subst h1 h2 h3 h4 h5 h6
  rfl

theorem Shape.mk' (A : List Value) (S : List Frame) (b : List B) (l c pd : Nat) (lb : Int) (fl : Nat) :
    Shape ⟨A, none, S, b, l, c, pd, lb, fl⟩ A S b pd fl := ⟨rfl, rfl, rfl, rfl, rfl, rfl⟩

theorem Shape.setLb {p : Parser} {A : List Value} {S : List Frame} {b : List B} {pd fl : Nat} (h : Shape p A S b pd fl) (c : B) :
    Shape (setLb p c) A S b pd fl := ⟨h.hargs, h.herr, h.hstates, h.hbuf, h.hpending, h.hflag⟩

def advL (l : Nat) (lb : Int) (ch : B) : Nat := if ch == 13 then l + 1 else if ch == 10 then (if lb != 13 then l + 1 else l) else l
def advC (c : Nat) (ch : B) : Nat := if ch == 13 then 0 else if ch == 10 then 0 else c + 1

theorem advancePos_rec (A : List Value) (e : Option String) (S : List Frame) (b : List B) (l c pd : Nat) (lb : Int) (fl : Nat) (ch : B) :
    advancePos ⟨A, e, S, b, l, c, pd, lb, fl⟩ ch = ⟨A, e, S, b, advL l lb ch, advC c ch, pd, lb, fl⟩ := by
  unfold advancePos advL advC
  split
  · rfl
  · split <;> rfl

/-- the per-byte lemmas about `eat` on explicit records apply to `eatP` on any parser of that shape -/
theorem eatP_lift (scan : List B → Option String) {p : Parser} {A : List Value} {S : List Frame} {b : List B} {pd fl : Nat}
    (h : Shape p A S b pd fl) (ch : B) :
    eatP scan p ch = (eat scan ⟨A, none, S, b, advL p.line p.lookback ch, advC p.column ch, pd, p.lookback, fl⟩ ch).map (fun q => setLb q ch) := by
  unfold eatP
  conv => lhs; rw [h.eq]
  rw [advancePos_rec]

theorem advancePos_popstate (p : Parser) (v : Value) (c : B) : advancePos (popstate p v) c = popstate (advancePos p c) v := by
  unfold advancePos
  simp only [popstate_lookback]
  split
  · simp [popstate]
  · split <;> simp [popstate]

theorem popstate_frame_pos (p : Parser) (v : Value) : (popstate p v).line = p.line ∧ (popstate p v).column = p.column ∧
    (popstate p v).lookback = p.lookback := ⟨by simp, by simp, by simp⟩

/-! ### `popstate` into a container frame -/

def bump (F : Frame) : Frame := { F with argn := F.argn + 1 }

theorem popstate_shape_inner {q0 : Parser} {A : List Value} {f F g : Frame} {R : List Frame} {b : List B} {pd fl : Nat} (v : Value)
    (h : Shape q0 A (f :: F :: g :: R) b pd fl) (hF : hasFlag F.flags PFLAG_CONTAINER = true) :
    Shape (popstate q0 v) (v.withSm f.line f.column :: A) (bump F :: g :: R) b pd fl := by
  rw [h.eq]
  refine ⟨?_, ?_, ?_, ?_, ?_, ?_⟩ <;> simp [popstate, popstateAux, hF, bump]

theorem popstate_shape_root {q0 : Parser} {A : List Value} {f F : Frame} {b : List B} {pd fl : Nat} (v : Value)
    (h : Shape q0 A [f, F] b pd fl) (hF : hasFlag F.flags PFLAG_CONTAINER = true) :
    Shape (popstate q0 v) (Value.tuple false f.line f.column [v.withSm f.line f.column] :: A) [bump F] b (pd + 1) fl := by
  rw [h.eq]
  refine ⟨?_, ?_, ?_, ?_, ?_, ?_⟩ <;> simp [popstate, popstateAux, hF, bump]

/-! ### tokens -/

section
variable (scan : List B → Option String)

theorem tokP_first {p : Parser} {A : List Value} {top : Frame} {rest : List Frame} {pd fl : Nat} (c : B)
    (h : Shape p A (top :: rest) [] pd fl) (htop : top.consumer = .root) (hc : rootStartsToken c = true) :
    ∃ q l k, eatP scan p c = some q ∧ Shape q A (tokFrame l k (if c > 127 then 1 else 0) :: top :: rest) [c] pd fl := by
  rw [eatP_lift scan h, tok_first scan A top rest _ _ pd _ fl c htop hc]
  exact ⟨_, _, _, rfl, Shape.setLb (Shape.mk' ..) c⟩

theorem tokP_more {p : Parser} {A : List Value} {R : List Frame} {buf : List B} {pd fl l k na : Nat} (c : B)
    (h : Shape p A (tokFrame l k na :: R) buf pd fl) (hc : isSymbolChar c = true) :
    ∃ q, eatP scan p c = some q ∧ Shape q A (tokFrame l k (if c > 127 then 1 else na) :: R) (buf ++ [c]) pd fl := by
  rw [eatP_lift scan h, tok_more scan A R _ _ pd _ fl l k buf na c hc]
  exact ⟨_, rfl, Shape.setLb (Shape.mk' ..) c⟩

theorem tokP_many : ∀ (cs : List B) {p : Parser} {A : List Value} {R : List Frame} {buf : List B} {pd fl l k na : Nat},
    Shape p A (tokFrame l k na :: R) buf pd fl → cs.all isSymbolChar = true →
    ∃ q, eatsP scan p cs = some q ∧ Shape q A (tokFrame l k (naAcc na cs) :: R) (buf ++ cs) pd fl := by
  intro cs
  induction cs with
  | nil => intro p A R buf pd fl l k na h _; exact ⟨p, rfl, by simpa [naAcc] using h⟩
  | cons c cs ih =>
    intro p A R buf pd fl l k na h hall
    simp only [List.all_cons, Bool.and_eq_true] at hall
    obtain ⟨q, hq, hs⟩ := tokP_more scan c h hall.1
    obtain ⟨q', hq', hs'⟩ := ih hs hall.2
    refine ⟨q', by simp [eatsP, hq, hq'], ?_⟩
    simpa [naAcc] using hs'

/-- delimiter look-ahead at the `janet_parser_consume` level -/
theorem tokP_end {p : Parser} {A : List Value} {R : List Frame} {T : List B} {pd fl l k na : Nat} (d : B) (v : Value)
    (h : Shape p A (tokFrame l k na :: R) T pd fl) (hd : isSymbolChar d = false)
    (hcl : classifyToken scan T (na != 0) = .ok v) :
    ∃ q0, Shape q0 A (tokFrame l k na :: R) [] pd fl ∧ eatP scan p d = eatP scan (popstate q0 v) d := by
  refine ⟨⟨A, none, tokFrame l k na :: R, [], p.line, p.column, pd, p.lookback, fl⟩, Shape.mk' .., ?_⟩
  rw [eatP_lift scan h, tok_end scan A R _ _ pd _ fl l k na T d v hd hcl]
  unfold eatP
  rw [advancePos_popstate, advancePos_rec]

/-- ★ a token text `c :: cs` followed by a delimiter, through `janet_parser_consume`: its classification is handed to `popstate`
    (with the token frame still on the stack) and the delimiter is then processed by the uncovered frame -/
theorem token_pop {p : Parser} {A : List Value} {top : Frame} {rest : List Frame} {pd fl : Nat} (c : B) (cs : List B) (d : B) (v : Value)
    (h : Shape p A (top :: rest) [] pd fl) (htop : top.consumer = .root)
    (hc : rootStartsToken c = true) (hcs : cs.all isSymbolChar = true) (hd : isSymbolChar d = false)
    (hcl : ∀ na, classifyToken scan (c :: cs) na = .ok v) :
    ∃ q0 f, Shape q0 A (f :: top :: rest) [] pd fl ∧ eatsP scan p (c :: cs ++ [d]) = eatP scan (popstate q0 v) d := by
  obtain ⟨q1, l, k, h1, s1⟩ := tokP_first scan c h htop hc
  obtain ⟨q2, h2, s2⟩ := tokP_many scan cs s1 hcs
  obtain ⟨q0, s0, h3⟩ := tokP_end scan d v s2 hd (hcl _)
  refine ⟨q0, _, s0, ?_⟩
  have : eatsP scan p (c :: cs) = some q2 := by simp [eatsP, h1, h2]
  rw [show c :: cs ++ [d] = (c :: cs) ++ [d] from rfl, eatsP_snoc scan p q2 _ d this, h3]

end

/-! ### single consuming steps -/

theorem setLb_popstate (p : Parser) (v : Value) (c : B) : setLb (popstate p v) c = popstate (setLb p c) v := by
  unfold setLb popstate
  rfl

/-- a consuming, error-free `step` at the advanced position is what `janet_parser_consume` does -/
theorem eatP_step (scan : List B → Option String) {p : Parser} {A : List Value} {S : List Frame} {b : List B} {pd fl : Nat}
    (h : Shape p A S b pd fl) (ch : B) (G : Parser)
    (hs : step scan ⟨A, none, S, b, advL p.line p.lookback ch, advC p.column ch, pd, p.lookback, fl⟩ ch = (G, true))
    (he : G.error = none) : eatP scan p ch = some (setLb G ch) := by
  rw [eatP_lift scan h, eat_of_step scan _ ch rfl (by rw [hs]) (by rw [hs]; exact he), hs]
  rfl

/-- the same when the step only rearranges stacks / buffer (new frames may record the current position) -/
theorem eatP_stepS (scan : List B → Option String) {p : Parser} {A : List Value} {S : List Frame} {b : List B} {pd fl : Nat}
    (h : Shape p A S b pd fl) (ch : B) (A' : List Value) (S' : Nat → Nat → List Frame) (b' : List B) (pd' : Nat)
    (hs : ∀ l c lb, step scan ⟨A, none, S, b, l, c, pd, lb, fl⟩ ch = (⟨A', none, S' l c, b', l, c, pd', lb, fl⟩, true)) :
    ∃ q l k, eatP scan p ch = some q ∧ Shape q A' (S' l k) b' pd' fl :=
  ⟨_, _, _, eatP_step scan h ch _ (hs _ _ _) rfl, Shape.setLb (Shape.mk' ..) ch⟩

section
variable (scan : List B → Option String)
variable {p : Parser} {A : List Value} {top : Frame} {rest : List Frame} {pd fl : Nat}

/-- whitespace where a value may start -/
theorem spaceP (ch : B) (h : Shape p A (top :: rest) [] pd fl) (htop : top.consumer = .root) (hw : ch = 32 ∨ ch = 10) :
    ∃ q, eatP scan p ch = some q ∧ Shape q A (top :: rest) [] pd fl := by
  obtain ⟨q, _, _, hq, hs⟩ := eatP_stepS scan h ch A (fun _ _ => top :: rest) [] pd (by
    intro l c lb
    rcases hw with rfl | rfl <;> simp [step, root, htop, isWhitespace] <;> decide)
  exact ⟨q, hq, hs⟩

def openFlags (ch : B) : Nat :=
  if ch == 40 then PFLAG_CONTAINER ||| PFLAG_PARENS else if ch == 91 then PFLAG_CONTAINER ||| PFLAG_SQRBRACKETS
  else PFLAG_CONTAINER ||| PFLAG_CURLYBRACKETS

/-- `(` `[` `{` where a value may start: a container frame is pushed -/
theorem openP (ch : B) (h : Shape p A (top :: rest) [] pd fl) (htop : top.consumer = .root) (hch : ch = 40 ∨ ch = 91 ∨ ch = 123) :
    ∃ q l k, eatP scan p ch = some q ∧ Shape q A (⟨0, 0, openFlags ch, l, k, .root⟩ :: top :: rest) [] pd fl := by
  exact eatP_stepS scan h ch A (fun l k => ⟨0, 0, openFlags ch, l, k, .root⟩ :: top :: rest) [] pd (by
    intro l c lb
    rcases hch with rfl | rfl | rfl <;> simp [step, root, htop, pushstate, openFlags])

def atFrame (l k : Nat) : Frame := ⟨0, 0, PFLAG_ATSYM, l, k, .atsign⟩

/-- `@` where a value may start -/
theorem atP (h : Shape p A (top :: rest) [] pd fl) (htop : top.consumer = .root) :
    ∃ q l k, eatP scan p 64 = some q ∧ Shape q A (atFrame l k :: top :: rest) [] pd fl := by
  exact eatP_stepS scan h 64 A (fun l k => atFrame l k :: top :: rest) [] pd (by
    intro l c lb
    simp [step, root, htop, pushstate, atFrame])

def atOpenFlags (ch : B) : Nat :=
  if ch == 91 then PFLAG_CONTAINER ||| PFLAG_SQRBRACKETS ||| PFLAG_ATSYM else PFLAG_CONTAINER ||| PFLAG_CURLYBRACKETS ||| PFLAG_ATSYM

/-- `[` `{` after `@` -/
theorem atOpenP {l0 k0 : Nat} (ch : B) (h : Shape p A (atFrame l0 k0 :: top :: rest) [] pd fl) (hch : ch = 91 ∨ ch = 123) :
    ∃ q l k, eatP scan p ch = some q ∧ Shape q A (⟨0, 0, atOpenFlags ch, l, k, .root⟩ :: top :: rest) [] pd fl := by
  exact eatP_stepS scan h ch A (fun l k => ⟨0, 0, atOpenFlags ch, l, k, .root⟩ :: top :: rest) [] pd (by
    intro l c lb
    rcases hch with rfl | rfl <;> simp [step, atsign, atFrame, pushstate, atOpenFlags])

end

/-! ### closing delimiters -/

theorem takeArgs_rev (items A : List Value) (e : Option String) (S : List Frame) (b : List B) (l c pd : Nat) (lb : Int) (fl n : Nat)
    (hn : n = items.length) :
    takeArgs ⟨items.reverse ++ A, e, S, b, l, c, pd, lb, fl⟩ n = (items, ⟨A, e, S, b, l, c, pd, lb, fl⟩) := by
  subst hn
  simp [takeArgs, List.take_left', List.drop_left']

/-- what `close_tuple` / `close_array` / `close_struct` / `close_table` build from the arguments of the frame -/
def closeValue (F : Frame) (ch : B) (items : List Value) : Value :=
  if ch == 125 then
    (if hasFlag F.flags PFLAG_ATSYM then
      Value.table (buildDict tablePut items ([], [])).1 (buildDict tablePut items ([], [])).2
     else Value.struct (buildDict structPut items ([], [])).1 (buildDict structPut items ([], [])).2)
  else (if hasFlag F.flags PFLAG_ATSYM then Value.array items else Value.tuple (ch == 93) 0 0 items)

def closesF (flags : Nat) (ch : B) : Bool :=
  (ch == 41 && hasFlag flags PFLAG_PARENS) || (ch == 93 && hasFlag flags PFLAG_SQRBRACKETS) ||
  (ch == 125 && hasFlag flags PFLAG_CURLYBRACKETS && !hasFlag flags PFLAG_PARENS && !hasFlag flags PFLAG_SQRBRACKETS)

/-- does the closing delimiter `ch` match the container frame `F` (the tests of `root` in parse.c)? -/
def closes (F : Frame) (ch : B) : Bool := closesF F.flags ch

theorem step_close (scan : List B → Option String) (items A : List Value) (F g : Frame) (R : List Frame) (l c pd : Nat) (lb : Int) (fl : Nat)
    (ch : B) (hroot : F.consumer = .root) (hn : F.argn = items.length) (hev : ch = 125 → items.length % 2 = 0)
    (hch : closes F ch = true) :
    step scan ⟨items.reverse ++ A, none, F :: g :: R, [], l, c, pd, lb, fl⟩ ch =
      (popstate ⟨A, none, F :: g :: R, [], l, c, pd, lb, fl⟩ (closeValue F ch items), true) := by
  unfold closes closesF at hch
  simp only [Bool.or_eq_true, Bool.and_eq_true, Bool.not_eq_true', beq_iff_eq] at hch
  rcases hch with (⟨rfl, hf⟩ | ⟨rfl, hf⟩) | ⟨⟨⟨rfl, hf⟩, hp⟩, hs⟩
  · have e1 : takeArgs ⟨items.reverse ++ A, none, F :: g :: R, [], l, c, pd, lb, fl⟩ F.argn = (items, ⟨A, none, F :: g :: R, [], l, c, pd, lb, fl⟩) :=
      takeArgs_rev items A none _ [] l c pd lb fl _ hn
    simp [step, hroot, root, closeDelim, hf, e1, closeValue]
  · have e1 : takeArgs ⟨items.reverse ++ A, none, F :: g :: R, [], l, c, pd, lb, fl⟩ F.argn = (items, ⟨A, none, F :: g :: R, [], l, c, pd, lb, fl⟩) :=
      takeArgs_rev items A none _ [] l c pd lb fl _ hn
    simp [step, hroot, root, closeDelim, hf, e1, closeValue]
  · have e1 : takeArgs ⟨items.reverse ++ A, none, F :: g :: R, [], l, c, pd, lb, fl⟩ F.argn = (items, ⟨A, none, F :: g :: R, [], l, c, pd, lb, fl⟩) :=
      takeArgs_rev items A none _ [] l c pd lb fl _ hn
    have hodd : (F.argn % 2 == 1) = false := by rw [hn, hev rfl]; rfl
    simp only [step, hroot, root, closeDelim]
    simp [hf, hp, hs, e1, closeValue, hodd]

/-- the closing delimiter of a container whose `items` (in source order) sit on top of the argument stack -/
theorem closeP (scan : List B → Option String) {p : Parser} {A items : List Value} {F g : Frame} {R : List Frame} {pd fl : Nat} (ch : B)
    (h : Shape p (items.reverse ++ A) (F :: g :: R) [] pd fl) (hroot : F.consumer = .root) (hn : F.argn = items.length)
    (hev : ch = 125 → items.length % 2 = 0) (hch : closes F ch = true) :
    ∃ q0, Shape q0 A (F :: g :: R) [] pd fl ∧ eatP scan p ch = some (popstate q0 (closeValue F ch items)) := by
  refine ⟨setLb ⟨A, none, F :: g :: R, [], advL p.line p.lookback ch, advC p.column ch, pd, p.lookback, fl⟩ ch, Shape.setLb (Shape.mk' ..) ch, ?_⟩
  rw [← setLb_popstate]
  exact eatP_step scan h ch _ (step_close scan items A F g R _ _ pd _ fl ch hroot hn hev hch) (by simp)

end JanetModel.Parse
