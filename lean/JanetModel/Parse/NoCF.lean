/- A frame handled by `root` (the bottom frame, containers, reader macros) never carries PFLAG_COMMENT: invariant of every
   operation of the parser model.  With the frame shape (`okFrames`: the bottom frame is a `root` frame) it gives what
   `if (s->flags & PFLAG_COMMENT) s--;` in `cfun_parse_insert` needs: a comment frame is never the bottom frame. -/
import JanetModel.Parse.Insert

namespace JanetModel.Parse
open JanetModel.Gen.Parse

def NoCFl (l : List Frame) : Prop := ∀ f ∈ l, f.consumer = .root → hasFlag f.flags PFLAG_COMMENT = false

def NoCF (p : Parser) : Prop := NoCFl p.states

theorem NoCFl.tail {f : Frame} {l : List Frame} (h : NoCFl (f :: l)) : NoCFl l := fun g hg => h g (List.mem_cons_of_mem _ hg)

theorem NoCFl.cons {f : Frame} {l : List Frame} (hf : f.consumer = .root → hasFlag f.flags PFLAG_COMMENT = false) (hl : NoCFl l) :
    NoCFl (f :: l) := by
  intro g hg
  simp only [List.mem_cons] at hg
  rcases hg with hg | hg
  · subst hg; exact hf
  · exact hl g hg

theorem nocf_readermac (c : B) : hasFlag (PFLAG_READERMAC ||| c.toNat) PFLAG_COMMENT = false := by
  have h17 : (PFLAG_READERMAC ||| c.toNat).testBit 17 = false := by
    rw [Nat.testBit_or]
    have h1 : PFLAG_READERMAC.testBit 17 = false := by decide
    have h2 : c.toNat.testBit 17 = false := Nat.testBit_lt_two_pow (Nat.lt_of_lt_of_le c.toNat_lt (by decide))
    rw [h1, h2]; rfl
  have hz : (PFLAG_READERMAC ||| c.toNat) &&& PFLAG_COMMENT = 0 := by
    apply Nat.eq_of_testBit_eq
    intro i
    rw [Nat.testBit_and, Nat.zero_testBit]
    by_cases hi : i = 17
    · subst hi; rw [h17]; rfl
    · have : PFLAG_COMMENT.testBit i = false := by
        have : PFLAG_COMMENT = 2 ^ 17 := by decide
        rw [this, Nat.testBit_two_pow]
        simp; omega
      rw [this]; simp
  unfold hasFlag
  rw [hz]; rfl

theorem popstateAux_nocf : ∀ (rest : List Frame) (top : Frame) (v : Value), NoCFl rest → NoCFl (popstateAux (top :: rest) v).1
  | [], top, v, _ => by simp [popstateAux, NoCFl]
  | newtop :: rest', top, v, h => by
    unfold popstateAux
    simp only []
    split
    · split
      all_goals exact NoCFl.cons (fun hc => h newtop (by simp) hc) h.tail
    · split
      · exact popstateAux_nocf rest' newtop _ h.tail
      · exact h

theorem popstate_nocf {p : Parser} {top : Frame} {rest : List Frame} (hs : p.states = top :: rest) (h : NoCFl rest) (v : Value) :
    NoCF (popstate p v) := by
  have := popstateAux_nocf rest top v h
  unfold NoCF popstate
  rw [hs]
  exact this

theorem nocf_f1 : hasFlag (PFLAG_CONTAINER ||| PFLAG_CURLYBRACKETS ||| PFLAG_ATSYM) PFLAG_COMMENT = false := by decide
theorem nocf_f2 : hasFlag (PFLAG_CONTAINER ||| PFLAG_SQRBRACKETS ||| PFLAG_ATSYM) PFLAG_COMMENT = false := by decide
theorem nocf_f3 : hasFlag (PFLAG_CONTAINER ||| PFLAG_PARENS ||| PFLAG_ATSYM) PFLAG_COMMENT = false := by decide
theorem nocf_f4 : hasFlag (PFLAG_CONTAINER ||| PFLAG_PARENS) PFLAG_COMMENT = false := by decide
theorem nocf_f5 : hasFlag (PFLAG_CONTAINER ||| PFLAG_SQRBRACKETS) PFLAG_COMMENT = false := by decide
theorem nocf_f6 : hasFlag (PFLAG_CONTAINER ||| PFLAG_CURLYBRACKETS) PFLAG_COMMENT = false := by decide

theorem nocf_top {q : Parser} (h : ∃ s rest, q.states = s :: rest ∧ NoCFl rest ∧
    (s.consumer = .root → hasFlag s.flags PFLAG_COMMENT = false)) : NoCF q := by
  obtain ⟨s, rest, hs, hr, hc⟩ := h
  unfold NoCF
  rw [hs]
  exact NoCFl.cons hc hr

section
variable (scan : List B → Option String)
variable (args : List Value) (err : Option String) (top : Frame) (rest : List Frame) (buf : List B)
variable (line column pending : Nat) (lb : Int) (flag : Nat) (c : B)

local macro "PP" : term => `((⟨args, err, top :: rest, buf, line, column, pending, lb, flag⟩ : Parser))

theorem nocf_stringend (h : NoCFl (top :: rest)) : NoCF (stringend PP top) := by
  unfold stringend
  exact popstate_nocf (p := ⟨args, err, top :: rest, [], line, column, pending, lb, flag⟩) (top := top) (rest := rest) rfl h.tail _

theorem nocf_stringchar (hl : NoCFl (top :: rest)) : NoCF (stringchar PP top c).1 := by
  unfold stringchar
  split
  · exact nocf_top ⟨_, _, rfl, hl.tail, by simp⟩
  · split
    · exact nocf_stringend args err top rest buf line column pending lb flag hl
    · split
      · exact hl
      · exact hl

theorem nocf_escapeh (hl : NoCFl (top :: rest)) (hc : top.consumer = .escapeh) : NoCF (escapeh PP top c).1 := by
  unfold escapeh
  split
  · exact hl
  · simp only []
    split
    · exact nocf_top ⟨_, _, rfl, hl.tail, by simp⟩
    · exact nocf_top ⟨_, _, rfl, hl.tail, by simp [hc]⟩

theorem nocf_escapeu (hl : NoCFl (top :: rest)) (hc : top.consumer = .escapeu) : NoCF (escapeu PP top c).1 := by
  unfold escapeu
  split
  · exact hl
  · simp only []
    split
    · split
      · exact nocf_top ⟨_, _, rfl, hl.tail, by simp [hc]⟩
      · exact nocf_top ⟨_, _, rfl, hl.tail, by simp⟩
    · exact nocf_top ⟨_, _, rfl, hl.tail, by simp [hc]⟩

theorem nocf_escape1 (hl : NoCFl (top :: rest)) : NoCF (escape1 PP top c).1 := by
  unfold escape1
  split
  · exact nocf_top ⟨_, _, rfl, hl.tail, by simp⟩
  · split
    · exact nocf_top ⟨_, _, rfl, hl.tail, by simp⟩
    · split
      · exact hl
      · exact nocf_top ⟨_, _, rfl, hl.tail, by simp⟩

theorem nocf_comment (hl : NoCFl (top :: rest)) : NoCF (comment PP top c).1 := by
  unfold comment
  split
  · exact hl.tail
  · exact hl

theorem nocf_longstring (hl : NoCFl (top :: rest)) (hc : top.consumer = .longstring) : NoCF (longstring PP top c).1 := by
  unfold longstring
  split
  · split
    · exact nocf_top ⟨_, _, rfl, hl.tail, by simp [hc]⟩
    · exact hl
  · split
    · split
      · exact nocf_stringend args err top rest buf line column pending lb flag hl
      · split
        · exact nocf_top ⟨_, _, rfl, hl.tail, by simp [hc]⟩
        · exact nocf_top ⟨_, _, rfl, hl.tail, by simp [hc]⟩
    · simp only []
      split
      · exact nocf_top ⟨_, _, rfl, hl.tail, by simp [hc]⟩
      · exact nocf_top ⟨_, _, rfl, hl.tail, by simp [hc]⟩

theorem nocf_atsign (hl : NoCFl (top :: rest)) : NoCF (atsign PP top c).1 := by
  unfold atsign
  simp only []
  repeat' split
  · exact nocf_top ⟨_, _, rfl, hl.tail, fun _ => nocf_f1⟩
  · exact nocf_top ⟨_, _, rfl, hl.tail, by simp⟩
  · exact nocf_top ⟨_, _, rfl, hl.tail, by simp⟩
  · exact nocf_top ⟨_, _, rfl, hl.tail, fun _ => nocf_f2⟩
  · exact nocf_top ⟨_, _, rfl, hl.tail, fun _ => nocf_f3⟩
  · exact nocf_top ⟨_, _, rfl, hl.tail, by simp⟩

theorem nocf_tokenchar (hl : NoCFl (top :: rest)) (hc : top.consumer = .tokenchar) : NoCF (tokenchar scan PP top c).1 := by
  unfold tokenchar
  split
  · split
    · exact nocf_top ⟨_, _, rfl, hl.tail, by simp [hc]⟩
    · exact hl
  · split
    · exact hl
    · exact popstate_nocf (p := ⟨args, err, top :: rest, [], line, column, pending, lb, flag⟩) (top := top) (rest := rest) rfl hl.tail _

theorem nocf_closeDelim (hl : NoCFl (top :: rest)) : NoCF (closeDelim PP top c).1 := by
  unfold closeDelim
  split
  · exact hl
  · split
    · exact popstate_nocf (top := top) (rest := rest) (by simp [takeArgs]) hl.tail _
    · split
      · split
        · exact hl
        · exact popstate_nocf (top := top) (rest := rest) (by simp [takeArgs]) hl.tail _
      · exact hl

theorem nocf_root (hl : NoCFl (top :: rest)) : NoCF (root PP top c).1 := by
  unfold root
  by_cases g0 : (c == 39 || c == 44 || c == 59 || c == 126 || c == 124) = true
  · rw [if_pos g0]; exact nocf_top ⟨_, _, rfl, hl, fun _ => nocf_readermac c⟩
  rw [if_neg g0]
  by_cases g1 : (c == 34) = true
  · rw [if_pos g1]; exact nocf_top ⟨_, _, rfl, hl, by simp⟩
  rw [if_neg g1]
  by_cases g2 : (c == 35) = true
  · rw [if_pos g2]; exact nocf_top ⟨_, _, rfl, hl, by simp⟩
  rw [if_neg g2]
  by_cases g3 : (c == 64) = true
  · rw [if_pos g3]; exact nocf_top ⟨_, _, rfl, hl, by simp⟩
  rw [if_neg g3]
  by_cases g4 : (c == 96) = true
  · rw [if_pos g4]; exact nocf_top ⟨_, _, rfl, hl, by simp⟩
  rw [if_neg g4]
  by_cases g5 : (c == 41 || c == 93 || c == 125) = true
  · rw [if_pos g5]; exact nocf_closeDelim args err top rest buf line column pending lb flag c hl
  rw [if_neg g5]
  by_cases g6 : (c == 40) = true
  · rw [if_pos g6]; exact nocf_top ⟨_, _, rfl, hl, fun _ => nocf_f4⟩
  rw [if_neg g6]
  by_cases g7 : (c == 91) = true
  · rw [if_pos g7]; exact nocf_top ⟨_, _, rfl, hl, fun _ => nocf_f5⟩
  rw [if_neg g7]
  by_cases g8 : (c == 123) = true
  · rw [if_pos g8]; exact nocf_top ⟨_, _, rfl, hl, fun _ => nocf_f6⟩
  rw [if_neg g8]
  by_cases g9 : isWhitespace c = true
  · rw [if_pos g9]; exact hl
  rw [if_neg g9]
  by_cases g10 : (!isSymbolChar c) = true
  · rw [if_pos g10]; exact hl
  rw [if_neg g10]
  exact nocf_top ⟨_, _, rfl, hl, by simp⟩

end

/-- ★ one consumer call keeps the invariant -/
theorem NoCF_step (scan : List B → Option String) (p : Parser) (c : B) (h : NoCF p) : NoCF (step scan p c).1 := by
  obtain ⟨args, err, states, buf, line, column, pending, lb, flag⟩ := p
  cases states with
  | nil => exact h
  | cons top rest =>
    have hl : NoCFl (top :: rest) := h
    unfold step
    simp only []
    cases hc : top.consumer <;> simp only []
    · exact nocf_root _ _ _ _ _ _ _ _ _ _ _ hl
    · exact nocf_tokenchar _ _ _ _ _ _ _ _ _ _ _ _ hl hc
    · exact nocf_stringchar _ _ _ _ _ _ _ _ _ _ _ hl
    · exact nocf_escape1 _ _ _ _ _ _ _ _ _ _ _ hl
    · exact nocf_escapeh _ _ _ _ _ _ _ _ _ _ _ hl hc
    · exact nocf_escapeu _ _ _ _ _ _ _ _ _ _ _ hl hc
    · exact nocf_longstring _ _ _ _ _ _ _ _ _ _ _ hl hc
    · exact nocf_comment _ _ _ _ _ _ _ _ _ _ _ hl
    · exact nocf_atsign _ _ _ _ _ _ _ _ _ _ _ hl

theorem NoCF_consumeLoop (scan : List B → Option String) (c : B) : ∀ (fuel : Nat) (p q : Parser), NoCF p →
    consumeLoop scan fuel p c = some q → NoCF q := by
  intro fuel
  induction fuel with
  | zero => intro p q _ h; simp [consumeLoop] at h
  | succ n ih =>
    intro p q hp h
    unfold consumeLoop at h
    split at h
    · cases h; exact hp
    · simp only [] at h
      split at h
      · cases h; exact NoCF_step scan p c hp
      · exact ih _ q (NoCF_step scan p c hp) h

theorem advancePos_states (p : Parser) (c : B) : (advancePos p c).states = p.states := by
  unfold advancePos
  split
  · rfl
  · split <;> rfl

theorem NoCF_consumeRaw (scan : List B → Option String) (p : Parser) (c : B) (h : NoCF p) : NoCF (consumeRaw scan p c) := by
  have h1 : NoCF (advancePos p c) := by unfold NoCF; rw [advancePos_states]; exact h
  unfold consumeRaw
  simp only []
  cases hq : consumeLoop scan (loopFuel (advancePos p c)) (advancePos p c) c with
  | none => exact h1
  | some q => exact NoCF_consumeLoop scan c _ _ q h1 hq

theorem NoCF_consume (scan : List B → Option String) (p : Parser) (c : B) (h : NoCF p) : NoCF (consume scan p c) := by
  unfold consume
  split
  · exact h
  · exact NoCF_consumeRaw scan p c h

theorem NoCF_eof (scan : List B → Option String) (p : Parser) (h : NoCF p) : NoCF (eof scan p) := by
  unfold eof
  split
  · exact h
  · have := NoCF_consumeRaw scan p 10 h
    simp only []
    split
    · exact this
    · exact this

theorem decRootArgn_nocf : ∀ l : List Frame, NoCFl l → NoCFl (decRoot l)
  | [], h => h
  | [r], h => NoCFl.cons (fun hc => h r (by simp) hc) (by intro f hf; simp at hf)
  | f :: g :: l, h => by
    have := decRootArgn_nocf (g :: l) h.tail
    exact NoCFl.cons (fun hc => h f (by simp) hc) this

theorem NoCF_produceWrapped (p : Parser) (h : NoCF p) : NoCF (produceWrapped p).2 := by
  unfold produceWrapped
  split
  · exact h
  · split
    · exact h
    · unfold NoCF
      simp only []
      rw [decRootArgn_eq]
      exact decRootArgn_nocf _ h

theorem NoCF_produce (p : Parser) (h : NoCF p) : NoCF (produce p).2 := by
  have := NoCF_produceWrapped p h
  unfold produce
  cases hh : produceWrapped p with
  | mk ov p' =>
    rw [hh] at this
    cases ov <;> exact this

theorem NoCF_flush (p : Parser) (h : NoCF p) : NoCF (flush p) := by
  have hd : NoCFl (p.states.drop (p.states.length - 1)) := fun f hf => h f (List.mem_of_mem_drop hf)
  have hb : ∀ (b : Bool) (X : List Frame), NoCFl X → NoCFl (if b = true then X.map (fun s => { s with argn := 0 }) else X) := by
    intro b X hX
    cases b
    · exact hX
    · intro f hf hc
      simp only [if_true, List.mem_map] at hf
      obtain ⟨g, hg, rfl⟩ := hf
      exact hX g hg hc
  exact hb flushResetsRootArgn _ hd

theorem NoCF_takeError (p : Parser) (h : NoCF p) : NoCF (takeError p).2 := by
  unfold takeError
  split
  · exact NoCF_flush _ h
  · exact h

theorem modifyFrame_nocf (g : Frame → Frame) (hg : ∀ x, (g x).consumer = x.consumer ∧ (g x).flags = x.flags) :
    ∀ (S : List Frame) (i : Nat), NoCFl S → NoCFl (modifyFrame S i g)
  | [], _, h => h
  | s :: rest, 0, h => NoCFl.cons (fun hc => by rw [(hg s).2]; exact h s (by simp) (by rw [← (hg s).1]; exact hc)) h.tail
  | s :: rest, i + 1, h => NoCFl.cons (fun hc => h s (by simp) hc) (modifyFrame_nocf g hg rest i h.tail)

theorem NoCF_insertPre (scan : List B → Option String) (p : Parser) (h : NoCF p) : NoCF (insertPre scan p).1 := by
  unfold insertPre
  split
  · split
    · split
      · exact h
      · exact NoCF_consumeRaw scan p 32 h
    · exact h
  · exact h

theorem NoCF_init : NoCF Parser.init := by
  intro f hf _
  simp [Parser.init] at hf
  subst hf
  decide

/-- what `cfun_parse_insert`'s `s--` needs follows from the invariant and the frame shape -/
theorem commentAbove_of_nocf {p : Parser} (hok : okFrames p.states = true) (h : NoCF p) :
    ∀ s rest, p.states = s :: rest → hasFlag s.flags PFLAG_COMMENT = true → rest ≠ [] := by
  intro s rest hs hcf hr
  subst hr
  rw [hs] at hok
  have hroot : s.consumer = .root := by
    simp only [okFrames, Bool.and_eq_true, beq_iff_eq] at hok
    exact hok.1
  have := h s (by rw [hs]; simp) hroot
  rw [this] at hcf
  cases hcf

end JanetModel.Parse
