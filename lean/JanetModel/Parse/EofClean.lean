/- The newline that `janet_parser_eof` feeds cannot leave a latched error behind a single frame: from a well-formed, live parser,
   if `janet_parser_consume(p, '\n')` latches an error then at least two frames are left -- so `eof` always either ends clean
   (no error, only the root frame) or reports the innermost unterminated form. -/
import JanetModel.Parse.Latch

namespace JanetModel.Parse
open JanetModel.Gen.Parse

/-- one consumer step keeps the parser well formed (from the lock-step lemma, via a dummy queued value) -/
theorem WF_step (scan : List B → Option String) {p : Parser} (c : B) (h : WF p) : WF (step scan p c).1 := by
  have hq := WF_addQ h
  obtain ⟨hcomm, hsim⟩ := step_dropQ scan (addQ p) c p.args Value.nil hq (by simp [addQ]) rfl
  rw [dropQ_addQ] at hcomm
  have : (step scan p c).1 = dropQ (step scan (addQ p) c).1 := by rw [hcomm]
  rw [this]
  exact WF_dropQ hsim.wf (Nat.le_trans (by simp [addQ]) hsim.mono)

theorem root_newline (p : Parser) (s : Frame) : root p s 10 = (p, true) := by
  have hw : isWhitespace 10 = true := by decide
  simp [root, hw]

/-- a step on a newline that latches an error leaves the frame count alone (errors on `'\n'` come from tokens and escapes only) -/
theorem step_newline_error (scan : List B → Option String) (p : Parser) (he : p.error = none)
    (h : (step scan p 10).1.error.isSome = true) : (step scan p 10).1.states.length = p.states.length ∧
      ∃ top rest, p.states = top :: rest ∧ top.consumer ≠ .root := by
  obtain ⟨args, err, states, buf, line, column, pending, lb, flag⟩ := p
  simp only at he
  subst he
  cases states with
  | nil => simp [step] at h
  | cons top rest =>
    have hx : (toHex 10) = none := by decide
    have hsym : isSymbolChar 10 = false := by decide
    have hce : checkEscape 10 = none := by decide
    cases hc : top.consumer
    case root => simp [step, hc, root_newline] at h
    case tokenchar =>
      refine ⟨?_, top, rest, rfl, by rw [hc]; decide⟩
      simp only [step, hc, tokenchar, hsym] at h ⊢
      cases hcl : classifyToken scan buf (top.argn != 0) with
      | error e => simp
      | ok v => simp [hcl, popstate] at h
    case stringchar => simp [step, hc, stringchar] at h
    case escape1 =>
      refine ⟨?_, top, rest, rfl, by rw [hc]; decide⟩
      simp [step, hc, escape1, hce]
    case escapeh =>
      refine ⟨?_, top, rest, rfl, by rw [hc]; decide⟩
      simp [step, hc, escapeh, hx]
    case escapeu =>
      refine ⟨?_, top, rest, rfl, by rw [hc]; decide⟩
      simp [step, hc, escapeu, hx]
    case longstring =>
      exfalso
      simp only [step, hc, longstring] at h
      repeat' split at h
      all_goals simp [stringend, popstate, setTop, pushBuf] at h
    case comment => simp [step, hc, comment] at h
    case atsign => simp [step, hc, atsign, pushstate, pushBuf] at h

theorem loop_newline_error (scan : List B → Option String) : ∀ (fuel : Nat) (p q : Parser), WF p → p.error = none →
    consumeLoop scan fuel p 10 = some q → q.error.isSome = true → 2 ≤ q.states.length := by
  intro fuel
  induction fuel with
  | zero => intro p q _ _ h; simp [consumeLoop] at h
  | succ n ih =>
    intro p q hwf he h hqe
    unfold consumeLoop at h
    simp only [he, Option.isSome_none, Bool.false_eq_true, if_false] at h
    have hw' := WF_step scan 10 hwf
    by_cases hse : (step scan p 10).1.error.isSome = true
    · -- the error is latched by this step: the loop stops here or at the next test
      obtain ⟨hlen, top, rest, hs, hnr⟩ := step_newline_error scan p he hse
      have hq : q = (step scan p 10).1 := by
        cases hk : (step scan p 10).2 with
        | true => simp [hk] at h; exact h.symm
        | false =>
          simp only [hk, Bool.false_eq_true, if_false] at h
          cases n with
          | zero => simp [consumeLoop] at h
          | succ m => unfold consumeLoop at h; simp [hse] at h; exact h.symm
      have hrest : rest ≠ [] := by
        have hok := hwf.ok
        rw [hs] at hok
        exact (nonroot_top hok hnr).1
      rw [hq, hlen, hs]
      cases rest with
      | nil => exact absurd rfl hrest
      | cons g l => simp
    · have hne : (step scan p 10).1.error = none := by
        cases hx : (step scan p 10).1.error with
        | none => rfl
        | some e => rw [hx] at hse; simp at hse
      cases hk : (step scan p 10).2 with
      | true =>
        simp [hk] at h
        rw [← h, hne] at hqe; simp at hqe
      | false =>
        simp only [hk, Bool.false_eq_true, if_false] at h
        exact ih _ q hw' hne h hqe

/-- ★ the clean dichotomy of `janet_parser_eof` on a well-formed live parser -/
theorem eof_clean (scan : List B → Option String) (p : Parser) (hwf : WF p) (he : p.error = none) (hf : p.flag = 0) :
    ((eof scan p).error = none ∧ (eof scan p).states.length = 1) ∨
    (∃ f R, (consumeRaw scan p 10).states = f :: R ∧ R ≠ [] ∧ (eof scan p).error = some (eofMessage f)) := by
  have hcd : checkDead p = none := by simp [checkDead, he, hf]
  have ho := eof_outcome scan p hcd
  rcases ho.2.2.2.2.2.2.2 with ⟨hlen, herr⟩ | h2
  · left
    have hwq : WF (consumeRaw scan p 10) := by
      have := WF_consume scan 10 hwf
      unfold consume at this
      simpa [hcd] using this
    have hne : (consumeRaw scan p 10).states ≠ [] := okFrames_ne_nil hwq.ok
    have hl1 : (consumeRaw scan p 10).states.length = 1 := by
      cases hs : (consumeRaw scan p 10).states with
      | nil => exact absurd hs hne
      | cons a b => rw [hs] at hlen; simp at hlen ⊢; exact hlen
    refine ⟨?_, by rw [ho.2.2.2.2.1]; exact hl1⟩
    rw [herr]
    -- an error here would need two frames
    cases hx : (consumeRaw scan p 10).error with
    | none => rfl
    | some e =>
      exfalso
      have htot := consumeLoop_total scan (advancePos p 10) 10
      cases hq : consumeLoop scan (loopFuel (advancePos p 10)) (advancePos p 10) 10 with
      | none => rw [hq] at htot; simp at htot
      | some q =>
        have hraw : consumeRaw scan p 10 = { q with lookback := Int.ofNat (10 : B).toNat } := by
          unfold consumeRaw; simp [hq]
        have h2 := loop_newline_error scan _ (advancePos p 10) q (WF_advancePos 10 hwf)
          (by unfold advancePos; simp [he]) hq (by
            have : q.error = some e := by rw [hraw] at hx; exact hx
            simp [this])
        rw [hraw] at hl1
        simp at hl1
        omega
  · exact Or.inr h2

end JanetModel.Parse
