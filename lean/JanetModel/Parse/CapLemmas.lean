/- `count ≤ capacity` for the parser's three stacks is an invariant of every operation, and every push writes inside the
   (re)allocated block. -/
import JanetModel.Parse.Cap
import JanetModel.Parse.Lemmas
import JanetModel.Parse.Queue
import JanetModel.Parse.Insert

namespace JanetModel.Parse
open JanetModel.Gen.Parse

theorem stackGrowFactor_pos : 0 < stackGrowFactor := by decide
theorem insertGrowFactor_pos : 0 < insertGrowFactor := by decide

/-- ★ one `DEF_PARSER_STACK` push at height `count ≤ cap`: the slot written (`STACK[oldcount]`) lies inside the new capacity, the
    new count fits, and the capacity never shrinks -/
theorem growCap_ok (cap count : Nat) (h : count ≤ cap) :
    count < growCap cap count ∧ count + 1 ≤ growCap cap count ∧ cap ≤ growCap cap count := by
  unfold growCap
  have hm : count + 1 ≤ stackGrowFactor * (count + 1) := Nat.le_mul_of_pos_left _ stackGrowFactor_pos
  by_cases hc : count + 1 > cap
  · rw [if_pos hc]; omega
  · rw [if_neg hc]; omega

theorem growTo_ok : ∀ (n cap a : Nat), a ≤ cap → a + n ≤ growTo cap a n ∧ cap ≤ growTo cap a n := by
  intro n
  induction n with
  | zero => intro cap a h; exact ⟨h, Nat.le_refl _⟩
  | succ n ih =>
    intro cap a h
    obtain ⟨_, h2, h3⟩ := growCap_ok cap a h
    obtain ⟨i1, i2⟩ := ih (growCap cap a) (a + 1) h2
    simp only [growTo]
    exact ⟨by omega, by omega⟩

theorem pushes_ok (cap a b : Nat) (h : a ≤ cap) : b ≤ pushes cap a b ∧ cap ≤ pushes cap a b := by
  unfold pushes
  obtain ⟨h1, h2⟩ := growTo_ok (b - a) cap a h
  exact ⟨by omega, h2⟩

theorem jumpCap_ok (cap n : Nat) : n ≤ jumpCap cap n ∧ cap ≤ jumpCap cap n := by
  unfold jumpCap
  have hm : n ≤ insertGrowFactor * n := Nat.le_mul_of_pos_left _ insertGrowFactor_pos
  by_cases hc : cap < n
  · rw [if_pos hc]; omega
  · rw [if_neg hc]; omega

/-- capacities only grow -/
def Caps.le (k k' : Caps) : Prop := k.buf ≤ k'.buf ∧ k.states ≤ k'.states ∧ k.args ≤ k'.args

theorem Caps.le_refl (k : Caps) : k.le k := ⟨Nat.le_refl _, Nat.le_refl _, Nat.le_refl _⟩
theorem Caps.le_trans {a b c : Caps} (h1 : a.le b) (h2 : b.le c) : a.le c :=
  ⟨Nat.le_trans h1.1 h2.1, Nat.le_trans h1.2.1 h2.2.1, Nat.le_trans h1.2.2 h2.2.2⟩

theorem stepCaps_ok {k : Caps} {p : Parser} (p' : Parser) (h : CapOK k p) : CapOK (stepCaps k p p') p' ∧ k.le (stepCaps k p p') := by
  obtain ⟨h1, h2, h3⟩ := h
  have a := pushes_ok k.buf p.buf.length p'.buf.length h1
  have b := pushes_ok k.states p.states.length p'.states.length h2
  have c := pushes_ok k.args p.args.length p'.args.length h3
  exact ⟨⟨a.1, b.1, c.1⟩, ⟨a.2, b.2, c.2⟩⟩

theorem consumeLoopK_ok (scan : List B → Option String) (c : B) : ∀ (fuel : Nat) (k : Caps) (p q : Parser),
    CapOK k p → consumeLoop scan fuel p c = some q → CapOK (consumeLoopK scan fuel k p c) q ∧ k.le (consumeLoopK scan fuel k p c) := by
  intro fuel
  induction fuel with
  | zero => intro k p q _ h; simp [consumeLoop] at h
  | succ n ih =>
    intro k p q hk h
    unfold consumeLoop at h
    unfold consumeLoopK
    by_cases he : p.error.isSome = true
    · simp only [he, if_true, Option.some.injEq] at h ⊢
      subst h; exact ⟨hk, Caps.le_refl k⟩
    · simp only [he, Bool.false_eq_true, if_false] at h ⊢
      obtain ⟨hs1, hs2⟩ := stepCaps_ok (step scan p c).1 hk
      cases hc : (step scan p c).2 with
      | true =>
        simp only [hc, if_true, Option.some.injEq] at h ⊢
        subst h; exact ⟨hs1, hs2⟩
      | false =>
        simp only [hc, Bool.false_eq_true, if_false] at h ⊢
        obtain ⟨i1, i2⟩ := ih _ _ q hs1 h
        exact ⟨i1, Caps.le_trans hs2 i2⟩

theorem CapOK_advancePos {k : Caps} {p : Parser} (c : B) (h : CapOK k p) : CapOK k (advancePos p c) := by
  unfold advancePos
  split
  · exact h
  · split <;> exact h

/-- ★ `janet_parser_consume` (any state, any byte) keeps every count within its capacity; capacities only grow -/
theorem consumeRawK_ok (scan : List B → Option String) {k : Caps} {p : Parser} (c : B) (h : CapOK k p) :
    CapOK (consumeRawK scan k p c) (consumeRaw scan p c) ∧ k.le (consumeRawK scan k p c) := by
  have htot := consumeLoop_total scan (advancePos p c) c
  cases hq : consumeLoop scan (loopFuel (advancePos p c)) (advancePos p c) c with
  | none => rw [hq] at htot; simp at htot
  | some q =>
    obtain ⟨h1, h2⟩ := consumeLoopK_ok scan c _ k _ q (CapOK_advancePos c h) hq
    unfold consumeRawK consumeRaw
    simp only [hq, Option.getD_some]
    exact ⟨h1, h2⟩

theorem consumeK_ok (scan : List B → Option String) {k : Caps} {p : Parser} (c : B) (h : CapOK k p) :
    CapOK (consumeK scan k p c) (consume scan p c) ∧ k.le (consumeK scan k p c) := by
  unfold consumeK consume
  cases checkDead p with
  | some _ => exact ⟨h, Caps.le_refl k⟩
  | none => exact consumeRawK_ok scan c h

theorem eofK_ok (scan : List B → Option String) {k : Caps} {p : Parser} (h : CapOK k p) :
    CapOK (eofK scan k p) (eof scan p) ∧ k.le (eofK scan k p) := by
  unfold eofK consumeK eof
  cases checkDead p with
  | some _ => exact ⟨h, Caps.le_refl k⟩
  | none =>
    obtain ⟨h1, h2⟩ := consumeRawK_ok scan 10 h
    refine ⟨?_, h2⟩
    simp only
    split
    · exact h1
    · exact h1

theorem CapOK_init : CapOK Caps.init Parser.init := by
  refine ⟨Nat.le_refl _, ?_, Nat.le_refl _⟩
  show 1 ≤ growCap 0 0
  exact (growCap_ok 0 0 (Nat.le_refl _)).2.1

theorem CapOK_clone (p : Parser) : CapOK (cloneK p) (clone p) := ⟨Nat.le_refl _, Nat.le_refl _, Nat.le_refl _⟩

theorem produce_counts (p : Parser) : (produce p).2.buf = p.buf ∧ (produce p).2.states.length = p.states.length ∧
    (produce p).2.args.length ≤ p.args.length := by
  unfold produce produceWrapped
  by_cases h : (p.pending == 0) = true
  · simp [h]
  · simp only [h]
    cases hr : p.args.reverse with
    | nil => simp
    | cons v rest =>
      have hl : p.args.length = rest.length + 1 := by
        have := congrArg List.length hr; simpa using this
      simp [decRootArgn_eq, decRoot_length, hl]

theorem CapOK_produce {k : Caps} {p : Parser} (h : CapOK k p) : CapOK k (produce p).2 := by
  obtain ⟨a, b, c⟩ := produce_counts p
  exact ⟨by rw [a]; exact h.1, by rw [b]; exact h.2.1, Nat.le_trans c h.2.2⟩

theorem CapOK_flush {k : Caps} {p : Parser} (h : CapOK k p) : CapOK k (flush p) := by
  refine ⟨Nat.zero_le _, ?_, Nat.zero_le _⟩
  have : (flush p).states.length ≤ p.states.length := by
    simp only [flush]
    split <;> simp <;> omega
  exact Nat.le_trans this h.2.1

theorem CapOK_takeError {k : Caps} {p : Parser} (h : CapOK k p) : CapOK k (takeError p).2 := by
  unfold takeError
  cases p.error with
  | none => exact h
  | some e => exact CapOK_flush (p := { p with error := none, flag := p.flag &&& (0xFFFFFFFF ^^^ JANET_PARSER_GENERATED_ERROR) }) h

theorem stateK_ok {k : Caps} {p : Parser} (h : CapOK k p) :
    CapOK (stateK k p) p ∧ p.buf.length + (delimiters p).length ≤ (stateK k p).buf ∧ k.le (stateK k p) := by
  have a := pushes_ok k.buf p.buf.length (p.buf.length + (delimiters p).length) h.1
  exact ⟨⟨Nat.le_trans h.1 a.2, h.2.1, h.2.2⟩, a.1, ⟨a.2, Nat.le_refl _, Nat.le_refl _⟩⟩

/-! ### `parser/insert` -/

theorem modifyFrame_length (f : Frame → Frame) : ∀ (S : List Frame) (i : Nat), (modifyFrame S i f).length = S.length
  | [], _ => rfl
  | _ :: _, 0 => rfl
  | _ :: rest, i + 1 => by simp [modifyFrame, modifyFrame_length f rest i]

theorem insertAt_states_length (p : Parser) (v : Value) (vstr : List B) : (insertAt p v vstr).1.states.length = p.states.length := by
  unfold insertAt
  simp only
  repeat' split
  all_goals simp [modifyFrame_length]

theorem insertPre_mid (scan : List B → Option String) (p : Parser) :
    (insertPre scan p).1.states = (insertMid scan p).states ∧ (insertPre scan p).1.args = (insertMid scan p).args ∧
    (insertPre scan p).1.buf = (insertMid scan p).buf := by
  unfold insertPre insertMid
  cases p.states with
  | nil => exact ⟨rfl, rfl, rfl⟩
  | cons top rest =>
    simp only
    by_cases ht : (top.consumer == Consumer.tokenchar) = true
    · simp only [ht, if_true, Bool.true_and]
      cases checkDead p with
      | some _ => exact ⟨rfl, rfl, rfl⟩
      | none => exact ⟨rfl, rfl, rfl⟩
    · simp only [ht, Bool.false_eq_true, if_false, Bool.false_and]
      exact ⟨trivial, trivial, trivial⟩

theorem insert_states_length (scan : List B → Option String) (p : Parser) (v : Value) (vstr : List B) :
    (insert scan p v vstr).1.states.length = (insertMid scan p).states.length := by
  rw [insert_eq, ← (insertPre_mid scan p).1]
  cases insertPre scan p with
  | mk q oe =>
    cases oe with
    | some e => rfl
    | none => exact insertAt_states_length q v vstr

theorem insertMid_ok (scan : List B → Option String) {k : Caps} {p : Parser} (h : CapOK k p) :
    CapOK (insertK1 scan k p) (insertMid scan p) ∧ k.le (insertK1 scan k p) := by
  unfold insertMid insertK1
  cases p.states with
  | nil => exact ⟨h, Caps.le_refl k⟩
  | cons top rest =>
    simp only
    split
    · exact consumeRawK_ok scan 32 h
    · exact ⟨h, Caps.le_refl k⟩

/-- ★ `parser/insert` keeps every count within its capacity -/
theorem insertK_ok (scan : List B → Option String) {k : Caps} {p : Parser} (v : Value) (vstr : List B) (h : CapOK k p) :
    CapOK (insertK scan k p v vstr) (insert scan p v vstr).1 ∧ k.le (insertK scan k p v vstr) := by
  obtain ⟨hm, hle⟩ := insertMid_ok scan h
  have ha := pushes_ok (insertK1 scan k p).args (insertMid scan p).args.length (insert scan p v vstr).1.args.length hm.2.2
  have hj := jumpCap_ok (insertK1 scan k p).buf (insert scan p v vstr).1.buf.length
  unfold insertK
  simp only
  refine ⟨⟨?_, ?_, ha.1⟩, ⟨?_, hle.2.1, Nat.le_trans hle.2.2 ha.2⟩⟩
  · by_cases hlt : (insertMid scan p).buf.length < (insert scan p v vstr).1.buf.length
    · simp only [hlt, if_true]; exact hj.1
    · simp only [hlt, if_false]; have := hm.1; omega
  · rw [insert_states_length]; exact hm.2.1
  · by_cases hlt : (insertMid scan p).buf.length < (insert scan p v vstr).1.buf.length
    · simp only [hlt, if_true]; exact Nat.le_trans hle.1 hj.2
    · simp only [hlt, if_false]; exact hle.1

/-! ### all histories -/

/-- every operation that touches the parser struct -/
inductive OpK where
  | byte (c : B)                          -- `janet_parser_consume` (panics, leaving everything alone, on a latched / dead parser)
  | eof                                   -- `janet_parser_eof`
  | produce                               -- `janet_parser_produce`
  | insert (v : Value) (vstr : List B)    -- `parser/insert`
  | flush                                 -- `janet_parser_flush`
  | takeError                             -- `janet_parser_error`
  | clone                                 -- `janet_parser_clone`, continuing on the clone
  | state                                 -- `parser/state` (`:delimiters` uses the scratch buffer)
  deriving Inhabited

structure KRun where
  k : Caps
  p : Parser

def runOpK (scan : List B → Option String) (r : KRun) : OpK → KRun
  | .byte c => ⟨consumeK scan r.k r.p c, consume scan r.p c⟩
  | .eof => ⟨eofK scan r.k r.p, eof scan r.p⟩
  | .produce => ⟨r.k, (produce r.p).2⟩
  | .insert v s => ⟨insertK scan r.k r.p v s, (insert scan r.p v s).1⟩
  | .flush => ⟨r.k, flush r.p⟩
  | .takeError => ⟨r.k, (takeError r.p).2⟩
  | .clone => ⟨cloneK r.p, clone r.p⟩
  | .state => ⟨stateK r.k r.p, r.p⟩

theorem runOpK_ok (scan : List B → Option String) {r : KRun} (op : OpK) (h : CapOK r.k r.p) : CapOK (runOpK scan r op).k (runOpK scan r op).p := by
  cases op with
  | byte c => exact (consumeK_ok scan c h).1
  | eof => exact (eofK_ok scan h).1
  | produce => exact CapOK_produce h
  | insert v s => exact (insertK_ok scan v s h).1
  | flush => exact CapOK_flush h
  | takeError => exact CapOK_takeError h
  | clone => exact CapOK_clone r.p
  | state => exact (stateK_ok h).1

theorem runOpsK_ok (scan : List B → Option String) (ops : List OpK) : ∀ r : KRun, CapOK r.k r.p →
    CapOK (ops.foldl (runOpK scan) r).k (ops.foldl (runOpK scan) r).p := by
  induction ops with
  | nil => intro r h; exact h
  | cons op ops ih => intro r h; exact ih _ (runOpK_ok scan op h)

end JanetModel.Parse
