/- Shape facts the physical machine's read of `p->buf[0]` (tokenchar) rests on: every frame below the top one is handled by `root`
   (only `root` and `atsign` push frames), and a token frame on top has a non-empty scratch buffer whenever a consumer can see the
   end of the token.  Both hold along every history of consume / eof / produce / flush / error from `janet_parser_init`. -/
import JanetModel.Parse.PhysLemmas

namespace JanetModel.Parse
open JanetModel.Gen.Parse

def AllRoot (l : List Frame) : Prop := ∀ f ∈ l, f.consumer = .root

/-- every frame below the top one is a `root` frame (container or reader macro) -/
def Below (p : Parser) : Prop := AllRoot p.states.tail

theorem AllRoot.tail {l : List Frame} (h : AllRoot l) : AllRoot l.tail := fun f hf => h f (List.mem_of_mem_tail hf)

theorem popstateAux_allroot : ∀ (rest : List Frame) (top : Frame) (v : Value), AllRoot rest → AllRoot (popstateAux (top :: rest) v).1
  | [], top, v, _ => by simp [popstateAux, AllRoot]
  | newtop :: rest', top, v, h => by
    have hn : newtop.consumer = .root := h newtop (by simp)
    have hr : AllRoot rest' := fun f hf => h f (by simp [hf])
    unfold popstateAux
    simp only []
    split
    · split
      all_goals
        intro f hf
        simp only [List.mem_cons] at hf
        rcases hf with hf | hf
        · subst hf; exact hn
        · exact hr f hf
    · split
      · exact popstateAux_allroot rest' newtop _ hr
      · exact h

theorem popstate_allroot {p : Parser} {top : Frame} {rest : List Frame} (hs : p.states = top :: rest) (h : AllRoot rest) (v : Value) :
    AllRoot (popstate p v).states := by
  have := popstateAux_allroot rest top v h
  unfold popstate
  rw [hs]
  exact this

/-- outcome of one consumer call: shape kept; a token frame left on top has something in the scratch buffer, or the byte is a
    symbol character still to be consumed -/
def Good (c : B) (r : Parser × Bool) : Prop :=
  Below r.1 ∧ ∀ s rest, r.1.states = s :: rest → s.consumer = .tokenchar → r.1.buf ≠ [] ∨ (r.2 = false ∧ isSymbolChar c = true ∧ r.1.error = none)

theorem good_allroot {c : B} {r : Parser × Bool} (h : AllRoot r.1.states) : Good c r := by
  refine ⟨h.tail, ?_⟩
  intro s rest hs hc
  have := h s (by rw [hs]; simp)
  rw [this] at hc; cases hc

theorem good_top {c : B} {r : Parser × Bool} {s : Frame} {rest : List Frame} (hs : r.1.states = s :: rest) (hr : AllRoot rest)
    (hc : s.consumer ≠ .tokenchar) : Good c r := by
  refine ⟨by unfold Below; rw [hs]; exact hr, ?_⟩
  intro s' rest' hs' hc'
  rw [hs] at hs'
  cases hs'
  exact absurd hc' hc

theorem good_buf {c : B} {r : Parser × Bool} {s : Frame} {rest : List Frame} (hs : r.1.states = s :: rest) (hr : AllRoot rest)
    (hb : r.1.buf ≠ [] ∨ (r.2 = false ∧ isSymbolChar c = true ∧ r.1.error = none)) : Good c r :=
  ⟨by unfold Below; rw [hs]; exact hr, fun _ _ _ _ => hb⟩

theorem good_top' {c : B} {r : Parser × Bool} (h : ∃ s rest, r.1.states = s :: rest ∧ AllRoot rest ∧ s.consumer ≠ .tokenchar) :
    Good c r := by
  obtain ⟨s, rest, hs, hr, hc⟩ := h
  exact good_top hs hr hc

theorem good_buf' {c : B} {r : Parser × Bool} (h : ∃ s rest, r.1.states = s :: rest ∧ AllRoot rest)
    (hb : r.1.buf ≠ [] ∨ (r.2 = false ∧ isSymbolChar c = true ∧ r.1.error = none)) : Good c r := by
  obtain ⟨s, rest, hs, hr⟩ := h
  exact good_buf hs hr hb

theorem allroot_cons {f : Frame} {l : List Frame} (hf : f.consumer = .root) (hl : AllRoot l) : AllRoot (f :: l) := by
  intro g hg
  simp only [List.mem_cons] at hg
  rcases hg with hg | hg
  · subst hg; exact hf
  · exact hl g hg

section
variable (scan : List B → Option String)
variable (args : List Value) (err : Option String) (top : Frame) (rest : List Frame) (buf : List B)
variable (line column pending : Nat) (lb : Int) (flag : Nat) (c : B)

local macro "PP" : term => `((⟨args, err, top :: rest, buf, line, column, pending, lb, flag⟩ : Parser))

theorem good_stringend (hr : AllRoot rest) : Good c (stringend PP top, false) ∧ Good c (stringend PP top, true) := by
  have h : AllRoot (stringend PP top).states := by
    unfold stringend
    exact popstate_allroot (top := top) (rest := rest) rfl hr _
  exact ⟨good_allroot h, good_allroot h⟩

theorem good_stringchar (hr : AllRoot rest) (hc : top.consumer = .stringchar) : Good c (stringchar PP top c) := by
  unfold stringchar
  split
  · exact good_top' ⟨_, _, rfl, hr, by simp⟩
  · split
    · exact (good_stringend args err top rest buf line column pending lb flag c hr).2
    · split
      · exact good_top' ⟨_, _, rfl, hr, by rw [hc]; decide⟩
      · exact good_top' ⟨_, _, rfl, hr, by rw [hc]; decide⟩

theorem good_escapeh (hr : AllRoot rest) (hc : top.consumer = .escapeh) : Good c (escapeh PP top c) := by
  unfold escapeh
  split
  · exact good_top' ⟨_, _, rfl, hr, by rw [hc]; decide⟩
  · simp only []
    split
    · exact good_top' ⟨_, _, rfl, hr, by simp⟩
    · exact good_top' ⟨_, _, rfl, hr, by simp [hc]⟩

theorem good_escapeu (hr : AllRoot rest) (hc : top.consumer = .escapeu) : Good c (escapeu PP top c) := by
  unfold escapeu
  split
  · exact good_top' ⟨_, _, rfl, hr, by rw [hc]; decide⟩
  · simp only []
    split
    · split
      · exact good_top' ⟨_, _, rfl, hr, by simp [hc]⟩
      · exact good_top' ⟨_, _, rfl, hr, by simp⟩
    · exact good_top' ⟨_, _, rfl, hr, by simp [hc]⟩

theorem good_escape1 (hr : AllRoot rest) (hc : top.consumer = .escape1) : Good c (escape1 PP top c) := by
  unfold escape1
  split
  · exact good_top' ⟨_, _, rfl, hr, by simp⟩
  · split
    · exact good_top' ⟨_, _, rfl, hr, by simp⟩
    · split
      · exact good_top' ⟨_, _, rfl, hr, by rw [hc]; decide⟩
      · exact good_top' ⟨_, _, rfl, hr, by simp⟩

theorem good_comment (hr : AllRoot rest) (hc : top.consumer = .comment) : Good c (comment PP top c) := by
  unfold comment
  split
  · exact good_allroot (by simpa using hr)
  · exact good_top' ⟨_, _, rfl, hr, by rw [hc]; decide⟩

theorem good_longstring (hr : AllRoot rest) (hc : top.consumer = .longstring) : Good c (longstring PP top c) := by
  unfold longstring
  split
  · split
    · exact good_top' ⟨_, _, rfl, hr, by simp [hc]⟩
    · exact good_top' ⟨_, _, rfl, hr, by rw [hc]; decide⟩
  · split
    · split
      · exact (good_stringend args err top rest buf line column pending lb flag c hr).1
      · split
        · exact good_top' ⟨_, _, rfl, hr, by simp [hc]⟩
        · exact good_top' ⟨_, _, rfl, hr, by simp [hc]⟩
    · simp only []
      split
      · exact good_top' ⟨_, _, rfl, hr, by simp [hc]⟩
      · exact good_top' ⟨_, _, rfl, hr, by simp [hc]⟩

theorem good_atsign (hr : AllRoot rest) : Good c (atsign PP top c) := by
  unfold atsign
  simp only []
  repeat' split
  · exact good_top' ⟨_, _, rfl, hr, by simp⟩
  · exact good_top' ⟨_, _, rfl, hr, by simp⟩
  · exact good_top' ⟨_, _, rfl, hr, by simp⟩
  · exact good_top' ⟨_, _, rfl, hr, by simp⟩
  · exact good_top' ⟨_, _, rfl, hr, by simp⟩
  · exact good_buf' ⟨_, _, rfl, hr⟩ (Or.inl (by simp [pushstate, pushBuf]))

theorem good_tokenchar (hr : AllRoot rest) (ht : buf ≠ [] ∨ isSymbolChar c = true) : Good c (tokenchar scan PP top c) := by
  unfold tokenchar
  split
  · split
    · exact good_buf' ⟨_, _, rfl, hr⟩ (Or.inl (by simp [setTop, pushBuf]))
    · exact good_buf' ⟨_, _, rfl, hr⟩ (Or.inl (by simp [pushBuf]))
  · rename_i hsc
    split
    · refine good_buf (s := top) (rest := rest) rfl hr ?_
      rcases ht with ht | ht
      · exact Or.inl ht
      · exact absurd ht hsc
    · exact good_allroot (popstate_allroot (top := top) (rest := rest) rfl hr _)

theorem good_closeDelim (hr : AllRoot rest) (hc : top.consumer = .root) : Good c (closeDelim PP top c) := by
  have hall : AllRoot (top :: rest) := allroot_cons hc hr
  unfold closeDelim
  split
  · exact good_allroot (by simpa [delimError] using hall)
  · split
    · exact good_allroot (popstate_allroot (top := top) (rest := rest) (by simp [takeArgs]) hr _)
    · split
      · split
        · exact good_allroot (by simpa using hall)
        · exact good_allroot (popstate_allroot (top := top) (rest := rest) (by simp [takeArgs]) hr _)
      · exact good_allroot (by simpa [delimError] using hall)

theorem good_root (hr : AllRoot rest) (hc : top.consumer = .root) (he : err = none) : Good c (root PP top c) := by
  have hall : AllRoot (top :: rest) := allroot_cons hc hr
  unfold root
  by_cases g0 : (c == 39 || c == 44 || c == 59 || c == 126 || c == 124) = true
  · rw [if_pos g0]; exact good_top' ⟨_, _, rfl, hall, by simp⟩
  rw [if_neg g0]
  by_cases g1 : (c == 34) = true
  · rw [if_pos g1]; exact good_top' ⟨_, _, rfl, hall, by simp⟩
  rw [if_neg g1]
  by_cases g2 : (c == 35) = true
  · rw [if_pos g2]; exact good_top' ⟨_, _, rfl, hall, by simp⟩
  rw [if_neg g2]
  by_cases g3 : (c == 64) = true
  · rw [if_pos g3]; exact good_top' ⟨_, _, rfl, hall, by simp⟩
  rw [if_neg g3]
  by_cases g4 : (c == 96) = true
  · rw [if_pos g4]; exact good_top' ⟨_, _, rfl, hall, by simp⟩
  rw [if_neg g4]
  by_cases g5 : (c == 41 || c == 93 || c == 125) = true
  · rw [if_pos g5]; exact good_closeDelim args err top rest buf line column pending lb flag c hr hc
  rw [if_neg g5]
  by_cases g6 : (c == 40) = true
  · rw [if_pos g6]; exact good_top' ⟨_, _, rfl, hall, by simp⟩
  rw [if_neg g6]
  by_cases g7 : (c == 91) = true
  · rw [if_pos g7]; exact good_top' ⟨_, _, rfl, hall, by simp⟩
  rw [if_neg g7]
  by_cases g8 : (c == 123) = true
  · rw [if_pos g8]; exact good_top' ⟨_, _, rfl, hall, by simp⟩
  rw [if_neg g8]
  by_cases g9 : isWhitespace c = true
  · rw [if_pos g9]; exact good_allroot (by simpa using hall)
  rw [if_neg g9]
  by_cases g10 : (!isSymbolChar c) = true
  · rw [if_pos g10]; exact good_allroot (by simpa using hall)
  rw [if_neg g10]
  exact good_buf' ⟨_, _, rfl, hall⟩ (Or.inr ⟨rfl, by simpa using g10, he⟩)

end

/-- ★ one consumer call keeps the shape -/
theorem step_good (scan : List B → Option String) (p : Parser) (c : B) (hb : Below p) (ht : TokB p c) (he : p.error = none) : Good c (step scan p c) := by
  obtain ⟨args, err, states, buf, line, column, pending, lb, flag⟩ := p
  cases states with
  | nil => exact good_allroot (by simp [step, AllRoot])
  | cons top rest =>
    have hr : AllRoot rest := hb
    unfold step
    simp only []
    cases hc : top.consumer <;> simp only []
    · exact good_root _ _ _ _ _ _ _ _ _ _ _ hr hc he
    · exact good_tokenchar _ _ _ _ _ _ _ _ _ _ _ _ hr (ht top rest rfl hc)
    · exact good_stringchar _ _ _ _ _ _ _ _ _ _ _ hr hc
    · exact good_escape1 _ _ _ _ _ _ _ _ _ _ _ hr hc
    · exact good_escapeh _ _ _ _ _ _ _ _ _ _ _ hr hc
    · exact good_escapeu _ _ _ _ _ _ _ _ _ _ _ hr hc
    · exact good_longstring _ _ _ _ _ _ _ _ _ _ _ hr hc
    · exact good_comment _ _ _ _ _ _ _ _ _ _ _ hr hc
    · exact good_atsign _ _ _ _ _ _ _ _ _ _ _ hr

/-! ### the loop, consume, eof -/

/-- loop invariant of `janet_parser_consume` for the byte `c` being processed -/
def TokL (p : Parser) (c : B) : Prop :=
  ∀ s rest, p.states = s :: rest → s.consumer = .tokenchar → p.buf ≠ [] ∨ (isSymbolChar c = true ∧ p.error = none)

/-- between calls: frames below the top are `root` frames and a token frame on top has a non-empty scratch buffer -/
def TokInv (p : Parser) : Prop := Below p ∧ ∀ s rest, p.states = s :: rest → s.consumer = .tokenchar → p.buf ≠ []

theorem TokL.tokB {p : Parser} {c : B} (h : TokL p c) : TokB p c := by
  intro s rest hs hc
  rcases h s rest hs hc with h | h
  · exact Or.inl h
  · exact Or.inr h.1

theorem TokInv.tokL {p : Parser} (h : TokInv p) (c : B) : TokL p c := fun s rest hs hc => Or.inl (h.2 s rest hs hc)

theorem tokInv_init : TokInv Parser.init := by
  refine ⟨by simp [Below, AllRoot, Parser.init], ?_⟩
  intro s rest hs hc
  simp [Parser.init] at hs
  obtain ⟨h1, _⟩ := hs
  subst h1
  simp at hc

/-- ★ the physical loop computes the logical loop, no check fails, and the shape invariant holds at exit -/
theorem consumeLoopM_spec (scan : List B → Option String) (c : B) : ∀ (fuel : Nat) (m : MP) (q : Parser),
    WF m.p → Below m.p → TokL m.p c → consumeLoop scan fuel m.p c = some q →
    (consumeLoopM scan fuel m c).p = q ∧ (consumeLoopM scan fuel m c).fault = m.fault ∧ WF q ∧ TokInv q := by
  intro fuel
  induction fuel with
  | zero => intro m q _ _ _ h; simp [consumeLoop] at h
  | succ n ih =>
    intro m q hwf hb ht h
    unfold consumeLoop at h
    unfold consumeLoopM
    by_cases he : m.p.error.isSome = true
    · rw [if_pos he] at h
      rw [if_pos he]
      cases h
      refine ⟨rfl, rfl, hwf, hb, ?_⟩
      intro s rest hs hc
      rcases ht s rest hs hc with h1 | h1
      · exact h1
      · rw [h1.2] at he; simp at he
    · rw [if_neg he] at h
      rw [if_neg he]
      have hen : m.p.error = none := by
        cases hh : m.p.error with
        | none => rfl
        | some e => rw [hh] at he; simp at he
      have hne : m.p.states ≠ [] := okFrames_ne_nil hwf.ok
      obtain ⟨hp, hc2⟩ := stepM_p scan m c hne
      have hsafe := stepM_safe scan m c hwf ht.tokB
      have hgood := step_good scan m.p c hb ht.tokB hen
      have hwf' := WF_step scan c hwf
      simp only [] at h ⊢
      by_cases hcons : (step scan m.p c).2 = true
      · rw [hcons] at h
        simp only [if_true] at h
        cases h
        rw [hc2, hcons]
        simp only [if_true]
        refine ⟨hp, hsafe, hwf', hgood.1, ?_⟩
        intro s rest hs hc
        rcases hgood.2 s rest hs hc with h1 | h1
        · exact h1
        · rw [hcons] at h1; cases h1.1
      · have hcf : (step scan m.p c).2 = false := by simpa using hcons
        rw [hcf] at h
        simp only [Bool.false_eq_true, if_false] at h
        rw [hc2, hcf]
        simp only [Bool.false_eq_true, if_false]
        have hl : TokL (stepM scan m c).1.p c := by
          rw [hp]
          intro s rest hs hc
          rcases hgood.2 s rest hs hc with h1 | h1
          · exact Or.inl h1
          · exact Or.inr ⟨h1.2.1, h1.2.2⟩
        have := ih (stepM scan m c).1 q (by rw [hp]; exact hwf') (by rw [hp]; exact hgood.1) hl (by rw [hp]; exact h)
        rw [hsafe] at this
        exact this

end JanetModel.Parse
