/- The string-literal state machine of the parser undoes the printer's escaping (tables from Gen). -/
import JanetModel.Parse.Model
import JanetModel.PP.Jdn

namespace JanetModel.Parse
open JanetModel.Gen.Parse JanetModel.PP

/-- run `step` over bytes, requiring every step to consume its byte and to leave no error -/
def steps (scan : List B → Option String) : Parser → List B → Option Parser
  | p, [] => some p
  | p, c :: cs => if (step scan p c).2 && (step scan p c).1.error.isNone then steps scan (step scan p c).1 cs else none

theorem steps_append (scan : List B → Option String) (p : Parser) (a b : List B) :
    steps scan p (a ++ b) = (steps scan p a).bind (fun q => steps scan q b) := by
  induction a generalizing p with
  | nil => simp [steps]
  | cons c cs ih =>
    simp only [List.cons_append, steps]
    split
    · exact ih _
    · simp

theorem steps_cons_ok (scan : List B → Option String) (p p' : Parser) (c : B) (cs : List B)
    (h : step scan p c = (p', true)) (he : p'.error = none) : steps scan p (c :: cs) = steps scan p' cs := by
  simp [steps, h, he]

/-- a string frame: `s` with the escape scratch fields and the consumer overridden -/
def strFrame (s : Frame) (cnt an : Nat) (k : Consumer) : Frame := { s with counter := cnt, argn := an, consumer := k }

/-! ### table facts (re-checked by the kernel whenever Gen/Parse.lean changes) -/

theorem ppEscape_sound : ∀ kv ∈ ppEscape, kv.1 < 256 ∧ kv.2 < 256 ∧ checkEscape kv.2.toUInt8 = some kv.1.toUInt8 ∧
    kv.2.toUInt8 ≠ 120 ∧ kv.2.toUInt8 ≠ 117 ∧ kv.2.toUInt8 ≠ 85 := by decide

set_option maxRecDepth 100000 in
theorem plain_bytes_safe : ∀ n, n < 256 → (ppEscape.find? (fun kv => kv.1 == n)).isNone = true → ¬ (n < ppPrintLo ∨ n > ppPrintHi) →
    n ≠ 92 ∧ n ≠ 34 ∧ n ≠ 10 ∧ n ≠ 13 := by decide

set_option maxRecDepth 100000 in
theorem hex_digits_sound : ∀ n, n < 256 →
    toHex (hexAlphabet.getD ((n >>> 4) &&& 0xF) 0).toUInt8 = some (n >>> 4) ∧
    toHex (hexAlphabet.getD (n &&& 0xF) 0).toUInt8 = some (n &&& 0xF) ∧
    (((0 <<< 4 + (n >>> 4)) <<< 4) + (n &&& 0xF)) &&& 0xFF = n := by decide

theorem hexDigitsX_is_two : hexDigitsX = 2 := by decide

/-! ### single steps of the string machine -/

section
variable (scan : List B → Option String)
variable (args : List Value) (rest : List Frame) (buf : List B) (line column pending : Nat) (lookback : Int) (flag : Nat)
variable (s : Frame) (cnt an : Nat)

theorem step_plain (c : B) (h1 : c ≠ 92) (h2 : c ≠ 34) (h3 : c ≠ 10) (h4 : c ≠ 13) :
    step scan ⟨args, none, strFrame s cnt an .stringchar :: rest, buf, line, column, pending, lookback, flag⟩ c =
      (⟨args, none, strFrame s cnt an .stringchar :: rest, buf ++ [c], line, column, pending, lookback, flag⟩, true) := by
  simp [step, strFrame, stringchar, pushBuf, h1, h2, h3, h4]

theorem step_backslash :
    step scan ⟨args, none, strFrame s cnt an .stringchar :: rest, buf, line, column, pending, lookback, flag⟩ 92 =
      (⟨args, none, strFrame s cnt an .escape1 :: rest, buf, line, column, pending, lookback, flag⟩, true) := by
  simp [step, strFrame, stringchar, setTop]

theorem step_letter (l e : B) (h1 : l ≠ 120) (h2 : l ≠ 117) (h3 : l ≠ 85) (he : checkEscape l = some e) :
    step scan ⟨args, none, strFrame s cnt an .escape1 :: rest, buf, line, column, pending, lookback, flag⟩ l =
      (⟨args, none, strFrame s cnt an .stringchar :: rest, buf ++ [e], line, column, pending, lookback, flag⟩, true) := by
  simp [step, strFrame, escape1, setTop, pushBuf, h1, h2, h3, he]

theorem step_x :
    step scan ⟨args, none, strFrame s cnt an .escape1 :: rest, buf, line, column, pending, lookback, flag⟩ 120 =
      (⟨args, none, strFrame s 2 0 .escapeh :: rest, buf, line, column, pending, lookback, flag⟩, true) := by
  simp [step, strFrame, escape1, setTop, hexDigitsX_is_two]

theorem step_hex1 (c : B) (d : Nat) (hd : toHex c = some d) :
    step scan ⟨args, none, strFrame s 2 an .escapeh :: rest, buf, line, column, pending, lookback, flag⟩ c =
      (⟨args, none, strFrame s 1 (an <<< 4 + d) .escapeh :: rest, buf, line, column, pending, lookback, flag⟩, true) := by
  simp [step, strFrame, escapeh, setTop, hd]

theorem step_hex2 (c : B) (d : Nat) (hd : toHex c = some d) :
    step scan ⟨args, none, strFrame s 1 an .escapeh :: rest, buf, line, column, pending, lookback, flag⟩ c =
      (⟨args, none, strFrame s 0 0 .stringchar :: rest, buf ++ [((an <<< 4 + d) &&& 0xFF).toUInt8], line, column, pending, lookback, flag⟩, true) := by
  simp [step, strFrame, escapeh, setTop, pushBuf, hd]

/-- one printed byte is read back as that byte; the frame stays a string frame -/
theorem escape_byte_steps (b : B) :
    ∃ cnt' an', steps scan ⟨args, none, strFrame s cnt an .stringchar :: rest, buf, line, column, pending, lookback, flag⟩ (escapeByte b) =
      some ⟨args, none, strFrame s cnt' an' .stringchar :: rest, buf ++ [b], line, column, pending, lookback, flag⟩ := by
  have hb : b.toNat < 256 := b.toNat_lt
  have hbb : b.toNat.toUInt8 = b := by simp
  unfold escapeByte
  cases hf : ppEscape.find? (fun kv => kv.1 == b.toNat) with
  | some kv =>
    have hmem := List.mem_of_find?_eq_some hf
    have hk : kv.1 = b.toNat := by
      have := List.find?_some hf
      simpa using this
    obtain ⟨_, _, hce, n1, n2, n3⟩ := ppEscape_sound kv hmem
    refine ⟨cnt, an, ?_⟩
    rw [steps_cons_ok scan _ _ _ _ (step_backslash scan args rest buf line column pending lookback flag s cnt an) rfl,
      steps_cons_ok scan _ _ _ _ (step_letter scan args rest buf line column pending lookback flag s cnt an kv.2.toUInt8 kv.1.toUInt8 n1 n2 n3 hce) rfl]
    simp only [steps]
    rw [hk, hbb]
  | none =>
    have hnone : (ppEscape.find? (fun kv => kv.1 == b.toNat)).isNone = true := by simp [hf]
    simp only
    by_cases hr : (b.toNat < ppPrintLo || b.toNat > ppPrintHi) = true
    · simp only [hr, if_true]
      obtain ⟨h1, h2, h3⟩ := hex_digits_sound b.toNat hb
      have hval : ((((0 <<< 4 + (b.toNat >>> 4)) <<< 4) + (b.toNat &&& 0xF)) &&& 0xFF).toUInt8 = b := by rw [h3]; exact hbb
      refine ⟨0, 0, ?_⟩
      rw [steps_cons_ok scan _ _ _ _ (step_backslash scan args rest buf line column pending lookback flag s cnt an) rfl,
        steps_cons_ok scan _ _ _ _ (step_x scan args rest buf line column pending lookback flag s cnt an) rfl,
        steps_cons_ok scan _ _ _ _ (step_hex1 scan args rest buf line column pending lookback flag s 0 _ _ h1) rfl,
        steps_cons_ok scan _ _ _ _ (step_hex2 scan args rest buf line column pending lookback flag s _ _ _ h2) rfl]
      simp only [steps]
      rw [hval]
    · simp only [hr, Bool.false_eq_true, if_false]
      have hr' : ¬ (b.toNat < ppPrintLo ∨ b.toNat > ppPrintHi) := by simpa using hr
      obtain ⟨p1, p2, p3, p4⟩ := plain_bytes_safe b.toNat hb hnone hr'
      have q1 : b ≠ 92 := fun h => p1 (by rw [h]; rfl)
      have q2 : b ≠ 34 := fun h => p2 (by rw [h]; rfl)
      have q3 : b ≠ 10 := fun h => p3 (by rw [h]; rfl)
      have q4 : b ≠ 13 := fun h => p4 (by rw [h]; rfl)
      refine ⟨cnt, an, ?_⟩
      rw [steps_cons_ok scan _ _ _ _ (step_plain scan args rest buf line column pending lookback flag s cnt an b q1 q2 q3 q4) rfl]
      simp only [steps]

/-- the whole escaped body is read back as the original bytes -/
theorem escape_body_steps (bs : List B) : ∀ (buf : List B) (cnt an : Nat),
    ∃ cnt' an', steps scan ⟨args, none, strFrame s cnt an .stringchar :: rest, buf, line, column, pending, lookback, flag⟩ (escapeBody bs) =
      some ⟨args, none, strFrame s cnt' an' .stringchar :: rest, buf ++ bs, line, column, pending, lookback, flag⟩ := by
  induction bs with
  | nil => intro buf cnt an; exact ⟨cnt, an, by simp [escapeBody, steps]⟩
  | cons b bs ih =>
    intro buf cnt an
    obtain ⟨c1, a1, h1⟩ := escape_byte_steps scan args rest buf line column pending lookback flag s cnt an b
    obtain ⟨c2, a2, h2⟩ := ih (buf ++ [b]) c1 a1
    refine ⟨c2, a2, ?_⟩
    have : escapeBody (b :: bs) = escapeByte b ++ escapeBody bs := by simp [escapeBody]
    rw [this, steps_append, h1]
    simp only [Option.bind_some]
    rw [h2]
    simp

end
end JanetModel.Parse
