/- Ownership of the pending error message.

   `parser->error` points either to a string literal (static storage) or to a GC heap string made by `delim_error`
   (`janet_string`), which nothing but the parser references.  `parsermark` keeps that string alive iff
   `parser->flag & JANET_PARSER_GENERATED_ERROR`.  So the message a client reads with `parser/error` is a function of the bytes
   (and not of the collector's schedule) only if, at every point of every API history,

       the bit is set   ⇒  the pending error was produced by `delim_error`          (marking a literal / NULL would be a wild mark)
       the bit is clear ⇒  there is no pending error, or it is one of the literals   (an unmarked heap message is freed under the client)

   `GenInv` below; `genInv_api_history`: it holds after any history of the complete API from `janet_parser_init`. -/
import JanetModel.Parse.Pos
import JanetModel.Parse.Insert
import JanetModel.Parse.PhysInsert

namespace JanetModel.Parse
open JanetModel.Gen.Parse

/-- `parser->flag & JANET_PARSER_GENERATED_ERROR` (the test in `parsermark` and in `cfun_parse_error`) -/
def genBit (p : Parser) : Bool := hasFlag p.flag JANET_PARSER_GENERATED_ERROR

/-- the message is the result of a `delim_error` call with one of the message arguments found in the source -/
def IsGenerated (m : String) : Prop :=
  ∃ (q : Parser) (idx : Nat) (c : Option B) (msg : String), msg ∈ delimMessages ∧ (delimError q idx c msg).error = some m

/-- the message is one of the string literals assigned to `->error` in the source -/
def IsStatic (m : String) : Prop := m ∈ staticErrors

def GenInv (p : Parser) : Prop :=
  match p.error with
  | none => genBit p = false
  | some m => (genBit p = true ∧ IsGenerated m) ∨ (genBit p = false ∧ IsStatic m)

/-! ### the bit under the three flag updates of the source -/

theorem genBit_or_gen (f : Nat) : hasFlag (f ||| JANET_PARSER_GENERATED_ERROR) JANET_PARSER_GENERATED_ERROR = true := by
  unfold hasFlag
  rw [Nat.and_or_distrib_right, Nat.and_self]
  have : f &&& JANET_PARSER_GENERATED_ERROR ||| JANET_PARSER_GENERATED_ERROR ≠ 0 := by
    intro h
    have := (Nat.or_eq_zero_iff.mp h).2
    exact absurd this (by decide)
  simp [this]

theorem genBit_clear (f : Nat) :
    hasFlag (f &&& (0xFFFFFFFF ^^^ JANET_PARSER_GENERATED_ERROR)) JANET_PARSER_GENERATED_ERROR = false := by
  unfold hasFlag
  rw [Nat.and_assoc]
  have : (0xFFFFFFFF ^^^ JANET_PARSER_GENERATED_ERROR) &&& JANET_PARSER_GENERATED_ERROR = 0 := by decide
  rw [this]
  simp

theorem genBit_or_dead (f : Nat) :
    hasFlag (f ||| JANET_PARSER_DEAD) JANET_PARSER_GENERATED_ERROR = hasFlag f JANET_PARSER_GENERATED_ERROR := by
  unfold hasFlag
  rw [Nat.and_or_distrib_right]
  have : JANET_PARSER_DEAD &&& JANET_PARSER_GENERATED_ERROR = 0 := by decide
  rw [this]
  simp

/-! ### one consumer call -/

/-- what one consumer call may do to `error` and `flag`: nothing; latch a literal (flag untouched); or latch a generated message
    together with the bit -/
def ErrQuiet (p q : Parser) : Prop :=
  (q.flag = p.flag ∧ (q.error = p.error ∨ ∃ m, IsStatic m ∧ q.error = some m)) ∨
  (q.flag = p.flag ||| JANET_PARSER_GENERATED_ERROR ∧ ∃ m, IsGenerated m ∧ q.error = some m)

theorem errq_same {p q : Parser} (hf : q.flag = p.flag) (he : q.error = p.error) : ErrQuiet p q := Or.inl ⟨hf, Or.inl he⟩

theorem errq_static {p q : Parser} (hf : q.flag = p.flag) (m : String) (hm : m ∈ staticErrors) (he : q.error = some m) : ErrQuiet p q :=
  Or.inl ⟨hf, Or.inr ⟨m, hm, he⟩⟩

theorem errq_delim (p : Parser) (idx : Nat) (c : Option B) (msg : String) (hm : msg ∈ delimMessages) :
    ErrQuiet p (delimError p idx c msg) := by
  cases he : (delimError p idx c msg).error with
  | none => have := delimError_error p idx c msg; rw [he] at this; simp at this
  | some m => exact Or.inr ⟨rfl, m, ⟨p, idx, c, msg, hm, he⟩, he⟩

theorem GenInv.step {p q : Parser} (h : GenInv p) (he : p.error = none) (hq : ErrQuiet p q) : GenInv q := by
  have hb : genBit p = false := by unfold GenInv at h; rw [he] at h; exact h
  unfold GenInv
  rcases hq with ⟨hf, h1 | ⟨m, hm, h1⟩⟩ | ⟨hf, m, hm, h1⟩
  · rw [h1, he]; simp only; unfold genBit at hb ⊢; rw [hf]; exact hb
  · rw [h1]; simp only; right; unfold genBit at hb ⊢; rw [hf]; exact ⟨hb, hm⟩
  · rw [h1]; simp only; left; unfold genBit; rw [hf]; exact ⟨genBit_or_gen _, hm⟩

/-! ### every consumer -/

macro "errq_leaf" : tactic => `(tactic| (apply errq_same <;> (first | rfl | (simp [takeArgs]; done))))
macro "errq_lit" : tactic => `(tactic| exact errq_static (by simp) _ (by decide) rfl)

theorem errq_closeDelim (p : Parser) (s : Frame) (c : B) : ErrQuiet p (closeDelim p s c).1 := by
  unfold closeDelim
  split
  · exact errq_delim p 0 (some c) "unexpected closing delimiter " (by decide)
  · split
    · errq_leaf
    · split
      · split
        · errq_lit
        · errq_leaf
      · exact errq_delim p (p.states.length - 1) (some c) "mismatched delimiter " (by decide)

theorem errq_root (p : Parser) (s : Frame) (c : B) : ErrQuiet p (root p s c).1 := by
  unfold root
  by_cases h0 : (c == 39 || c == 44 || c == 59 || c == 126 || c == 124) = true
  · rw [if_pos h0]; errq_leaf
  rw [if_neg h0]
  by_cases h1 : (c == 34) = true
  · rw [if_pos h1]; errq_leaf
  rw [if_neg h1]
  by_cases h2 : (c == 35) = true
  · rw [if_pos h2]; errq_leaf
  rw [if_neg h2]
  by_cases h3 : (c == 64) = true
  · rw [if_pos h3]; errq_leaf
  rw [if_neg h3]
  by_cases h4 : (c == 96) = true
  · rw [if_pos h4]; errq_leaf
  rw [if_neg h4]
  by_cases h5 : (c == 41 || c == 93 || c == 125) = true
  · rw [if_pos h5]; exact errq_closeDelim p s c
  rw [if_neg h5]
  by_cases h6 : (c == 40) = true
  · rw [if_pos h6]; errq_leaf
  rw [if_neg h6]
  by_cases h7 : (c == 91) = true
  · rw [if_pos h7]; errq_leaf
  rw [if_neg h7]
  by_cases h8 : (c == 123) = true
  · rw [if_pos h8]; errq_leaf
  rw [if_neg h8]
  by_cases h9 : isWhitespace c = true
  · rw [if_pos h9]; errq_leaf
  rw [if_neg h9]
  by_cases h10 : (!isSymbolChar c) = true
  · rw [if_pos h10]; errq_lit
  rw [if_neg h10]; errq_leaf

theorem classifyToken_static (scan : List B → Option String) (buf : List B) (na : Bool) (e : String)
    (h : classifyToken scan buf na = .error e) : e ∈ staticErrors := by
  unfold classifyToken at h
  dsimp only at h
  repeat' split at h
  all_goals first
    | (injection h with h; subst h; decide)
    | (exact absurd h (by simp))

theorem errq_tokenchar (scan : List B → Option String) (p : Parser) (s : Frame) (c : B) : ErrQuiet p (tokenchar scan p s c).1 := by
  unfold tokenchar
  split
  · dsimp only
    split <;> errq_leaf
  · split
    · rename_i e he
      exact errq_static rfl e (classifyToken_static scan _ _ e he) rfl
    · errq_leaf

theorem errq_stringchar (p : Parser) (s : Frame) (c : B) : ErrQuiet p (stringchar p s c).1 := by
  unfold stringchar
  repeat' split
  all_goals errq_leaf

theorem errq_escape1 (p : Parser) (s : Frame) (c : B) : ErrQuiet p (escape1 p s c).1 := by
  unfold escape1
  repeat' split
  all_goals first | errq_leaf | errq_lit

theorem errq_escapeh (p : Parser) (s : Frame) (c : B) : ErrQuiet p (escapeh p s c).1 := by
  unfold escapeh
  split
  · errq_lit
  · dsimp only
    split <;> errq_leaf

theorem errq_escapeu (p : Parser) (s : Frame) (c : B) : ErrQuiet p (escapeu p s c).1 := by
  unfold escapeu
  split
  · errq_lit
  · dsimp only
    repeat' split
    all_goals first | errq_leaf | errq_lit

theorem errq_longstring (p : Parser) (s : Frame) (c : B) : ErrQuiet p (longstring p s c).1 := by
  unfold longstring
  repeat' split
  all_goals errq_leaf

theorem errq_comment (p : Parser) (s : Frame) (c : B) : ErrQuiet p (comment p s c).1 := by
  unfold comment
  split <;> errq_leaf

theorem errq_atsign (p : Parser) (s : Frame) (c : B) : ErrQuiet p (atsign p s c).1 := by
  unfold atsign
  repeat' split
  all_goals errq_leaf

/-- ★ one consumer call leaves `error` / `flag` alone, latches one of the source's literals without touching the flag, or latches a
    `delim_error` message together with `JANET_PARSER_GENERATED_ERROR` -/
theorem errq_step (scan : List B → Option String) (p : Parser) (c : B) : ErrQuiet p (step scan p c).1 := by
  unfold step
  split
  · exact errq_same rfl rfl
  · rename_i state rest hs
    split
    · exact errq_root p state c
    · exact errq_tokenchar scan p state c
    · exact errq_stringchar p state c
    · exact errq_escape1 p state c
    · exact errq_escapeh p state c
    · exact errq_escapeu p state c
    · exact errq_longstring p state c
    · exact errq_comment p state c
    · exact errq_atsign p state c

theorem GenInv_consumeLoop (scan : List B → Option String) (c : B) :
    ∀ fuel p q, GenInv p → consumeLoop scan fuel p c = some q → GenInv q := by
  intro fuel
  induction fuel with
  | zero => intro p q _ h; simp [consumeLoop] at h
  | succ n ih =>
    intro p q hp h
    unfold consumeLoop at h
    by_cases he : p.error.isSome = true
    · simp [he] at h; subst h; exact hp
    · simp only [he] at h
      have hen : p.error = none := by cases hpe : p.error with | none => rfl | some m => rw [hpe] at he; simp at he
      have hq := GenInv.step hp hen (errq_step scan p c)
      cases hstep : step scan p c with
      | mk p' consumed =>
        rw [hstep] at h hq
        cases consumed with
        | true => simp at h; subst h; exact hq
        | false =>
          simp only [Bool.false_eq_true, if_false] at h
          exact ih p' q hq h

theorem GenInv_of_fields {p q : Parser} (h : GenInv p) (he : q.error = p.error) (hf : q.flag = p.flag) : GenInv q := by
  unfold GenInv genBit at *
  rw [he, hf]; exact h

theorem advancePos_error (p : Parser) (c : B) : (advancePos p c).error = p.error := by
  unfold advancePos
  split
  · rfl
  · split <;> rfl

theorem GenInv_consumeRaw (scan : List B → Option String) (p : Parser) (c : B) (h : GenInv p) : GenInv (consumeRaw scan p c) := by
  unfold consumeRaw
  have h1 : GenInv (advancePos p c) := GenInv_of_fields h (advancePos_error p c) (advancePos_flag p c)
  have h2 : GenInv ((consumeLoop scan (loopFuel (advancePos p c)) (advancePos p c) c).getD (advancePos p c)) := by
    cases hl : consumeLoop scan (loopFuel (advancePos p c)) (advancePos p c) c with
    | none => exact h1
    | some q => exact GenInv_consumeLoop scan c _ _ q h1 hl
  exact GenInv_of_fields h2 rfl rfl

theorem GenInv_consume (scan : List B → Option String) (p : Parser) (c : B) (h : GenInv p) : GenInv (consume scan p c) := by
  unfold consume
  split
  · exact h
  · exact GenInv_consumeRaw scan p c h

/-- `janet_parser_eof`: the message generated for an unterminated form comes with the bit, and `|= JANET_PARSER_DEAD` keeps it -/
theorem GenInv_eof (scan : List B → Option String) (p : Parser) (h : GenInv p) : GenInv (eof scan p) := by
  unfold eof
  split
  · exact h
  · have h1 := GenInv_consumeRaw scan p 10 h
    dsimp only
    split
    · -- delim_error overwrites whatever the last consumer call left
      cases he : (delimError (consumeRaw scan p 10) ((consumeRaw scan p 10).states.length - 1) none "unexpected end of source").error with
      | none =>
        have := delimError_error (consumeRaw scan p 10) ((consumeRaw scan p 10).states.length - 1) none "unexpected end of source"
        rw [he] at this; simp at this
      | some m =>
        unfold GenInv genBit
        simp only [he, delimError_flag]
        left
        exact ⟨by rw [genBit_or_dead]; exact genBit_or_gen _, ⟨_, _, _, _, by decide, he⟩⟩
    · unfold GenInv genBit at h1 ⊢
      simp only [genBit_or_dead]
      exact h1

/-! ### the rest of the API -/

/-- `janet_parser_error`: the message leaves the parser together with the bit -/
theorem GenInv_takeError (p : Parser) (h : GenInv p) : GenInv (takeError p).2 := by
  unfold takeError
  split
  · unfold GenInv genBit flush
    simp only
    exact genBit_clear _
  · exact h

theorem GenInv_flush (p : Parser) (h : GenInv p) : GenInv (flush p) := GenInv_of_fields h rfl rfl

theorem GenInv_produce (p : Parser) (h : GenInv p) : GenInv (produce p).2 :=
  GenInv_of_fields h (produce_fields p).2.2.2.1 (produce_fields p).2.2.2.2.1

theorem GenInv_produceWrapped (p : Parser) (h : GenInv p) : GenInv (produceWrapped p).2 := by
  unfold produceWrapped
  split
  · exact h
  · split
    · exact h
    · exact GenInv_of_fields h rfl rfl

theorem GenInv_insertPre (scan : List B → Option String) (p : Parser) (h : GenInv p) : GenInv (insertPre scan p).1 := by
  unfold insertPre
  split
  · split
    · split
      · exact h
      · exact GenInv_of_fields (GenInv_consumeRaw scan p 32 h) rfl rfl
    · exact h
  · exact h

theorem GenInv_insertAt (p : Parser) (v : Value) (vstr : List B) (h : GenInv p) : GenInv (insertAt p v vstr).1 := by
  unfold insertAt
  dsimp only
  repeat' split
  all_goals first | exact h | exact GenInv_of_fields h rfl rfl

theorem GenInv_insert (scan : List B → Option String) (p : Parser) (v : Value) (vstr : List B) (h : GenInv p) :
    GenInv (insert scan p v vstr).1 := by
  rw [insert_eq]
  have h1 := GenInv_insertPre scan p h
  cases hp : insertPre scan p with
  | mk q oe =>
    rw [hp] at h1
    cases oe with
    | some e => exact h1
    | none => exact GenInv_insertAt q v vstr h1

theorem GenInv_init : GenInv Parser.init := by
  show genBit Parser.init = false
  decide

theorem GenInv_runOpFL (scan : List B → Option String) (p : Parser) (op : OpF) (h : GenInv p) : GenInv (runOpFL scan p op) := by
  cases op with
  | byte c => exact GenInv_consume scan p c h
  | eof => exact GenInv_eof scan p h
  | produce => exact GenInv_produce p h
  | produceWrapped => exact GenInv_produceWrapped p h
  | flush => exact GenInv_flush p h
  | error => exact GenInv_takeError p h
  | insert v vstr => exact GenInv_insert scan p v vstr h
  | clone => exact h
  | state => exact h

/-- ★ after ANY history of the complete parser API from `janet_parser_init` (bytes -- also into a latched or dead parser --, eof, produce,
    produce-wrapped, flush, error, `parser/insert`, clone-and-continue, `parser/state`): `JANET_PARSER_GENERATED_ERROR` is set exactly when
    the pending error is a message made by `delim_error` (the heap string `parsermark` must keep alive), and clear exactly when there is
    no pending error or it is one of the source's string literals -/
theorem genInv_api_history (scan : List B → Option String) (ops : List OpF) : GenInv (ops.foldl (runOpFL scan) Parser.init) := by
  suffices h : ∀ p, GenInv p → GenInv (ops.foldl (runOpFL scan) p) from h _ GenInv_init
  induction ops with
  | nil => intro p h; exact h
  | cons op rest ih => intro p h; exact ih _ (GenInv_runOpFL scan p op h)

/-! ### a generated message is never one of the literals: the two cases of `GenInv` exclude each other -/

theorem delimError_prefix (q : Parser) (idx : Nat) (c : Option B) (msg m : String) (h : (delimError q idx c msg).error = some m) :
    ∃ rest : String, m = msg ++ rest := by
  unfold delimError at h
  simp only [Option.some.injEq] at h
  split at h
  · rw [← h]; simp only [String.append_assoc]; exact ⟨_, rfl⟩
  · exact ⟨_, h.symm⟩

theorem static_not_generated (m : String) (hs : IsStatic m) : ¬ IsGenerated m := by
  rintro ⟨q, idx, c, msg, hmsg, he⟩
  obtain ⟨rest, hr⟩ := delimError_prefix q idx c msg m he
  have hp : msg.toList <+: m.toList := by rw [hr, String.toList_append]; exact List.prefix_append _ _
  have hall : ∀ s ∈ staticErrors, ∀ d ∈ delimMessages, d.toList.isPrefixOf s.toList = false := by decide
  have := hall m hs msg hmsg
  rw [List.isPrefixOf_iff_prefix.mpr hp] at this
  exact absurd this (by simp)

/-- the `iff` reading of `genInv_api_history` -/
theorem genBit_iff_generated {p : Parser} (h : GenInv p) :
    (genBit p = true ↔ ∃ m, p.error = some m ∧ IsGenerated m) ∧ (genBit p = false ↔ p.error = none ∨ ∃ m, p.error = some m ∧ IsStatic m) := by
  unfold GenInv at h
  cases he : p.error with
  | none =>
    rw [he] at h; simp only at h
    simp [h]
  | some m =>
    rw [he] at h; simp only at h
    rcases h with ⟨hb, hg⟩ | ⟨hb, hs⟩
    · refine ⟨⟨fun _ => ⟨m, rfl, hg⟩, fun _ => hb⟩, ⟨fun h2 => by rw [hb] at h2; simp at h2, ?_⟩⟩
      rintro (h2 | ⟨m', h2, h3⟩)
      · simp at h2
      · simp only [Option.some.injEq] at h2; subst h2; exact absurd hg (static_not_generated _ h3)
    · refine ⟨⟨fun h2 => by rw [hb] at h2; simp at h2, ?_⟩, ⟨fun _ => Or.inr ⟨m, rfl, hs⟩, fun _ => hb⟩⟩
      rintro ⟨m', h2, h3⟩
      simp only [Option.some.injEq] at h2; subst h2; exact absurd h3 (static_not_generated _ hs)

end JanetModel.Parse
