/- `step` never writes line / column / lookback; flag and error discipline through `consume`; positions after `feed`. -/
import JanetModel.Parse.Model
import JanetModel.Parse.Lemmas

namespace JanetModel.Parse
open JanetModel.Gen.Parse

/-- the three position fields -/
def SamePos (p q : Parser) : Prop := q.line = p.line ∧ q.column = p.column ∧ q.lookback = p.lookback

theorem SamePos.rfl' (p : Parser) : SamePos p p := ⟨rfl, rfl, rfl⟩
theorem SamePos.trans {p q r : Parser} (h1 : SamePos p q) (h2 : SamePos q r) : SamePos p r :=
  ⟨h2.1.trans h1.1, h2.2.1.trans h1.2.1, h2.2.2.trans h1.2.2⟩

@[simp] theorem popstate_line (p : Parser) (v : Value) : (popstate p v).line = p.line := by simp [popstate]
@[simp] theorem popstate_column (p : Parser) (v : Value) : (popstate p v).column = p.column := by simp [popstate]
@[simp] theorem popstate_lookback (p : Parser) (v : Value) : (popstate p v).lookback = p.lookback := by simp [popstate]
@[simp] theorem popstate_flag (p : Parser) (v : Value) : (popstate p v).flag = p.flag := by simp [popstate]
@[simp] theorem popstate_error (p : Parser) (v : Value) : (popstate p v).error = p.error := by simp [popstate]
@[simp] theorem pushstate_line (p : Parser) (k : Consumer) (f : Nat) : (pushstate p k f).line = p.line := rfl
@[simp] theorem pushstate_column (p : Parser) (k : Consumer) (f : Nat) : (pushstate p k f).column = p.column := rfl
@[simp] theorem pushstate_lookback (p : Parser) (k : Consumer) (f : Nat) : (pushstate p k f).lookback = p.lookback := rfl
@[simp] theorem pushstate_flag (p : Parser) (k : Consumer) (f : Nat) : (pushstate p k f).flag = p.flag := rfl
@[simp] theorem pushstate_error (p : Parser) (k : Consumer) (f : Nat) : (pushstate p k f).error = p.error := rfl
@[simp] theorem pushBuf_line (p : Parser) (c : B) : (pushBuf p c).line = p.line := rfl
@[simp] theorem pushBuf_column (p : Parser) (c : B) : (pushBuf p c).column = p.column := rfl
@[simp] theorem pushBuf_lookback (p : Parser) (c : B) : (pushBuf p c).lookback = p.lookback := rfl
@[simp] theorem pushBuf_flag (p : Parser) (c : B) : (pushBuf p c).flag = p.flag := rfl
@[simp] theorem pushBuf_error (p : Parser) (c : B) : (pushBuf p c).error = p.error := rfl
@[simp] theorem setTop_line (p : Parser) (f : Frame → Frame) : (setTop p f).line = p.line := by unfold setTop; split <;> rfl
@[simp] theorem setTop_column (p : Parser) (f : Frame → Frame) : (setTop p f).column = p.column := by unfold setTop; split <;> rfl
@[simp] theorem setTop_lookback (p : Parser) (f : Frame → Frame) : (setTop p f).lookback = p.lookback := by unfold setTop; split <;> rfl
@[simp] theorem setTop_flag (p : Parser) (f : Frame → Frame) : (setTop p f).flag = p.flag := by unfold setTop; split <;> rfl
@[simp] theorem setTop_error (p : Parser) (f : Frame → Frame) : (setTop p f).error = p.error := by unfold setTop; split <;> rfl
@[simp] theorem delimError_line (p : Parser) (i : Nat) (c : Option B) (m : String) : (delimError p i c m).line = p.line := rfl
@[simp] theorem delimError_column (p : Parser) (i : Nat) (c : Option B) (m : String) : (delimError p i c m).column = p.column := rfl
@[simp] theorem delimError_lookback (p : Parser) (i : Nat) (c : Option B) (m : String) : (delimError p i c m).lookback = p.lookback := rfl
@[simp] theorem delimError_flag (p : Parser) (i : Nat) (c : Option B) (m : String) :
    (delimError p i c m).flag = p.flag ||| JANET_PARSER_GENERATED_ERROR := rfl
@[simp] theorem delimError_error (p : Parser) (i : Nat) (c : Option B) (m : String) : (delimError p i c m).error.isSome = true := rfl
@[simp] theorem stringend_line (p : Parser) (s : Frame) : (stringend p s).line = p.line := by simp [stringend]
@[simp] theorem stringend_column (p : Parser) (s : Frame) : (stringend p s).column = p.column := by simp [stringend]
@[simp] theorem stringend_lookback (p : Parser) (s : Frame) : (stringend p s).lookback = p.lookback := by simp [stringend]
@[simp] theorem stringend_flag (p : Parser) (s : Frame) : (stringend p s).flag = p.flag := by simp [stringend]
@[simp] theorem stringend_error (p : Parser) (s : Frame) : (stringend p s).error = p.error := by simp [stringend]

/-- what a step may do to the fields outside the stacks: positions untouched; the flag changes only together with a
    freshly latched (generated) error; an existing `none` error stays `none` unless this step latches one -/
def Quiet (p q : Parser) : Prop :=
  SamePos p q ∧ (q.flag = p.flag ∨ (q.flag = p.flag ||| JANET_PARSER_GENERATED_ERROR ∧ q.error.isSome = true))

theorem quiet_of_fields {p q : Parser} (h1 : q.line = p.line) (h2 : q.column = p.column) (h3 : q.lookback = p.lookback)
    (h4 : q.flag = p.flag) : Quiet p q := ⟨⟨h1, h2, h3⟩, Or.inl h4⟩

theorem quiet_closeDelim (p : Parser) (s : Frame) (c : B) : Quiet p (closeDelim p s c).1 := by
  unfold closeDelim
  split
  · exact ⟨⟨rfl, rfl, rfl⟩, Or.inr ⟨rfl, rfl⟩⟩
  · split
    · apply quiet_of_fields <;> simp [takeArgs]
    · split
      · split
        · apply quiet_of_fields <;> rfl
        · apply quiet_of_fields <;> simp [takeArgs]
      · exact ⟨⟨rfl, rfl, rfl⟩, Or.inr ⟨rfl, rfl⟩⟩

theorem quiet_root (p : Parser) (s : Frame) (c : B) : Quiet p (root p s c).1 := by
  unfold root
  by_cases h0 : (c == 39 || c == 44 || c == 59 || c == 126 || c == 124) = true
  · rw [if_pos h0]; apply quiet_of_fields <;> rfl
  rw [if_neg h0]
  by_cases h1 : (c == 34) = true
  · rw [if_pos h1]; apply quiet_of_fields <;> rfl
  rw [if_neg h1]
  by_cases h2 : (c == 35) = true
  · rw [if_pos h2]; apply quiet_of_fields <;> rfl
  rw [if_neg h2]
  by_cases h3 : (c == 64) = true
  · rw [if_pos h3]; apply quiet_of_fields <;> rfl
  rw [if_neg h3]
  by_cases h4 : (c == 96) = true
  · rw [if_pos h4]; apply quiet_of_fields <;> rfl
  rw [if_neg h4]
  by_cases h5 : (c == 41 || c == 93 || c == 125) = true
  · rw [if_pos h5]; exact quiet_closeDelim p s c
  rw [if_neg h5]
  by_cases h6 : (c == 40) = true
  · rw [if_pos h6]; apply quiet_of_fields <;> rfl
  rw [if_neg h6]
  by_cases h7 : (c == 91) = true
  · rw [if_pos h7]; apply quiet_of_fields <;> rfl
  rw [if_neg h7]
  by_cases h8 : (c == 123) = true
  · rw [if_pos h8]; apply quiet_of_fields <;> rfl
  rw [if_neg h8]
  by_cases h9 : isWhitespace c = true
  · rw [if_pos h9]; apply quiet_of_fields <;> rfl
  rw [if_neg h9]
  by_cases h10 : (!isSymbolChar c) = true
  · rw [if_pos h10]; apply quiet_of_fields <;> rfl
  rw [if_neg h10]; apply quiet_of_fields <;> rfl

theorem quiet_tokenchar (scan : List B → Option String) (p : Parser) (s : Frame) (c : B) : Quiet p (tokenchar scan p s c).1 := by
  unfold tokenchar
  split
  · dsimp only
    split <;> (apply quiet_of_fields <;> simp)
  · split
    · apply quiet_of_fields <;> rfl
    · apply quiet_of_fields <;> simp

theorem quiet_stringchar (p : Parser) (s : Frame) (c : B) : Quiet p (stringchar p s c).1 := by
  unfold stringchar
  repeat' split
  all_goals (apply quiet_of_fields <;> simp)

theorem quiet_escape1 (p : Parser) (s : Frame) (c : B) : Quiet p (escape1 p s c).1 := by
  unfold escape1
  repeat' split
  all_goals (apply quiet_of_fields <;> simp)

theorem quiet_escapeh (p : Parser) (s : Frame) (c : B) : Quiet p (escapeh p s c).1 := by
  unfold escapeh
  split
  · apply quiet_of_fields <;> rfl
  · dsimp only
    split <;> (apply quiet_of_fields <;> simp)

theorem quiet_escapeu (p : Parser) (s : Frame) (c : B) : Quiet p (escapeu p s c).1 := by
  unfold escapeu
  split
  · apply quiet_of_fields <;> rfl
  · dsimp only
    repeat' split
    all_goals (apply quiet_of_fields <;> simp)

theorem quiet_longstring (p : Parser) (s : Frame) (c : B) : Quiet p (longstring p s c).1 := by
  unfold longstring
  repeat' split
  all_goals (apply quiet_of_fields <;> simp)

theorem quiet_comment (p : Parser) (s : Frame) (c : B) : Quiet p (comment p s c).1 := by
  unfold comment
  split <;> (apply quiet_of_fields <;> simp)

theorem quiet_atsign (p : Parser) (s : Frame) (c : B) : Quiet p (atsign p s c).1 := by
  unfold atsign
  repeat' split
  all_goals (apply quiet_of_fields <;> simp)

/-- ★ no consumer writes line, column or lookback; the flag changes only by `delim_error` -/
theorem quiet_step (scan : List B → Option String) (p : Parser) (c : B) : Quiet p (step scan p c).1 := by
  unfold step
  split
  · exact ⟨⟨rfl, rfl, rfl⟩, Or.inl rfl⟩
  · rename_i state rest hs
    split
    · exact quiet_root p state c
    · exact quiet_tokenchar scan p state c
    · exact quiet_stringchar p state c
    · exact quiet_escape1 p state c
    · exact quiet_escapeh p state c
    · exact quiet_escapeu p state c
    · exact quiet_longstring p state c
    · exact quiet_comment p state c
    · exact quiet_atsign p state c

theorem consumeLoop_of_error (scan : List B → Option String) (fuel : Nat) (p q : Parser) (c : B)
    (he : p.error.isSome = true) (h : consumeLoop scan fuel p c = some q) : q = p := by
  cases fuel with
  | zero => simp [consumeLoop] at h
  | succ n => simp [consumeLoop, he] at h; exact h.symm

theorem quiet_consumeLoop (scan : List B → Option String) (c : B) :
    ∀ fuel p q, consumeLoop scan fuel p c = some q → Quiet p q := by
  intro fuel
  induction fuel with
  | zero => intro p q h; simp [consumeLoop] at h
  | succ n ih =>
    intro p q h
    unfold consumeLoop at h
    by_cases he : p.error.isSome = true
    · simp [he] at h; subst h; exact ⟨⟨rfl, rfl, rfl⟩, Or.inl rfl⟩
    · simp only [he] at h
      have hq := quiet_step scan p c
      cases hstep : step scan p c with
      | mk p' consumed =>
        rw [hstep] at h hq
        cases consumed with
        | true => simp at h; subst h; exact hq
        | false =>
          simp only [Bool.false_eq_true, if_false] at h
          rcases hq with ⟨hp, hf | ⟨hf, hes⟩⟩
          · have := ih p' q h
            refine ⟨hp.trans this.1, ?_⟩
            rcases this.2 with h2 | ⟨h2, h3⟩
            · left; rw [h2, hf]
            · right; exact ⟨by rw [h2, hf], h3⟩
          · have := consumeLoop_of_error scan n p' q c hes h
            subst this
            exact ⟨hp, Or.inr ⟨hf, hes⟩⟩

/-- line / column / lookback as a fold of the CR/LF rule over the bytes alone -/
def posStep (s : Nat × Nat × Int) (c : B) : Nat × Nat × Int :=
  if c == 13 then (s.1 + 1, 0, Int.ofNat c.toNat)
  else if c == 10 then ((if s.2.2 != 13 then s.1 + 1 else s.1), 0, Int.ofNat c.toNat)
  else (s.1, s.2.1 + 1, Int.ofNat c.toNat)

def posOf (p : Parser) : Nat × Nat × Int := (p.line, p.column, p.lookback)

theorem advancePos_flag (p : Parser) (c : B) : (advancePos p c).flag = p.flag := by
  unfold advancePos
  split
  · rfl
  · split <;> rfl

theorem consumeRaw_pos (scan : List B → Option String) (p : Parser) (c : B) (total : (consumeLoop scan (loopFuel (advancePos p c)) (advancePos p c) c).isSome = true) :
    posOf (consumeRaw scan p c) = posStep (posOf p) c ∧
    ((consumeRaw scan p c).flag = p.flag ∨ ((consumeRaw scan p c).flag = p.flag ||| JANET_PARSER_GENERATED_ERROR ∧ (consumeRaw scan p c).error.isSome = true)) := by
  cases hl : consumeLoop scan (loopFuel (advancePos p c)) (advancePos p c) c with
  | none => rw [hl] at total; simp at total
  | some q =>
    have key : consumeRaw scan p c = { q with lookback := Int.ofNat c.toNat } := by
      unfold consumeRaw
      simp only [hl, Option.getD_some]
    rw [key]
    have hq := quiet_consumeLoop scan c _ _ _ hl
    obtain ⟨⟨h1, h2, _⟩, hf⟩ := hq
    have hflag : (advancePos p c).flag = p.flag := advancePos_flag p c
    constructor
    · unfold posOf posStep
      simp only [h1, h2]
      unfold advancePos
      split
      · rfl
      · split <;> rfl
    · simpa [hflag] using hf

theorem produce_fields (p : Parser) :
    (produce p).2.line = p.line ∧ (produce p).2.column = p.column ∧ (produce p).2.lookback = p.lookback ∧
    (produce p).2.error = p.error ∧ (produce p).2.flag = p.flag ∧ (produce p).2.buf = p.buf := by
  unfold produce produceWrapped
  by_cases h : (p.pending == 0) = true
  · simp [h]
  · simp only [h]
    cases hr : p.args.reverse with
    | nil => simp
    | cons v rest => simp

theorem drainAux_fields : ∀ (n : Nat) (p : Parser) (acc : List Event),
    (drainAux n p acc).1.line = p.line ∧ (drainAux n p acc).1.column = p.column ∧ (drainAux n p acc).1.lookback = p.lookback ∧
    (drainAux n p acc).1.error = p.error ∧ (drainAux n p acc).1.flag = p.flag := by
  intro n
  induction n with
  | zero => intro p acc; simp [drainAux]
  | succ k ih =>
    intro p acc
    unfold drainAux
    have hp := produce_fields p
    cases hpr : produce p with
    | mk ov p' =>
      rw [hpr] at hp
      cases ov with
      | none => simpa using ⟨hp.1, hp.2.1, hp.2.2.1, hp.2.2.2.1, hp.2.2.2.2.1⟩
      | some v =>
        have := ih p' (acc ++ [.value v])
        simp only at hp ⊢
        exact ⟨this.1.trans hp.1, this.2.1.trans hp.2.1, this.2.2.1.trans hp.2.2.1, this.2.2.2.1.trans hp.2.2.2.1, this.2.2.2.2.trans hp.2.2.2.2.1⟩

theorem flag_clear_ok : (0 ||| JANET_PARSER_GENERATED_ERROR) &&& (0xFFFFFFFF ^^^ JANET_PARSER_GENERATED_ERROR) = 0 ∧
    (0 : Nat) &&& (0xFFFFFFFF ^^^ JANET_PARSER_GENERATED_ERROR) = 0 := by decide

/-- the state in which a client that follows the protocol always finds the parser between bytes -/
def Live (r : Run) : Prop := r.p.error = none ∧ r.p.flag = 0

theorem feedByte_pos (scan : List B → Option String) (r : Run) (c : B) (hl : Live r)
    (total : (consumeLoop scan (loopFuel (advancePos r.p c)) (advancePos r.p c) c).isSome = true) :
    Live (feedByte scan r c) ∧ posOf (feedByte scan r c).p = posStep (posOf r.p) c := by
  obtain ⟨he, hf⟩ := hl
  have hcd : checkDead r.p = none := by simp [checkDead, he, hf]
  obtain ⟨hpos, hflag⟩ := consumeRaw_pos scan r.p c total
  unfold feedByte consume
  simp only [hcd]
  unfold handleError
  by_cases hes : (consumeRaw scan r.p c).error.isSome = true
  · simp only [hes, if_true]
    have hd := drainAux_fields (consumeRaw scan r.p c).pending (consumeRaw scan r.p c) r.out
    unfold drain
    simp only
    cases hde : (drainAux (consumeRaw scan r.p c).pending (consumeRaw scan r.p c) r.out) with
    | mk dp dout =>
      rw [hde] at hd
      simp only at hd
      obtain ⟨d1, d2, d3, d4, d5⟩ := hd
      cases hce : (consumeRaw scan r.p c).error with
      | none => rw [hce] at hes; simp at hes
      | some e =>
        have dpe : dp.error = some e := by rw [d4, hce]
        simp only [takeError, dpe]
        have dflag : dp.flag = 0 ∨ dp.flag = 0 ||| JANET_PARSER_GENERATED_ERROR := by
          rcases hflag with h | ⟨h, _⟩
          · left; rw [d5, h, hf]
          · right; rw [d5, h, hf]
        constructor
        · constructor
          · simp [flush]
          · simp only [flush]
            rcases dflag with h | h <;> rw [h]
            · exact flag_clear_ok.2
            · exact flag_clear_ok.1
        · rw [← hpos]
          simp [posOf, flush, d1, d2, d3]
  · simp only [hes]
    have hnone : (consumeRaw scan r.p c).error = none := by
      cases h : (consumeRaw scan r.p c).error with
      | none => rfl
      | some e => rw [h] at hes; simp at hes
    refine ⟨⟨hnone, ?_⟩, hpos⟩
    rcases hflag with h | ⟨_, h⟩
    · simp [h, hf]
    · exact absurd h hes

end JanetModel.Parse
