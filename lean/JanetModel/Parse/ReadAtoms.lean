/- `%j` atoms read back through `janet_parser_consume` (positions updated on every byte): strings, buffers, symbols that
   start with `@` (they go through the `atsign` frame), constants, keywords, symbols, numbers. -/
import JanetModel.Parse.ReadBack

namespace JanetModel.Parse
open JanetModel.Gen.Parse JanetModel.PP

/-! ### strings and buffers -/

section
variable (scan : List B → Option String)
variable {p : Parser} {A : List Value} {rest : List Frame} {pd fl : Nat} (s : Frame)

theorem strP_byte {buf : List B} {cnt an : Nat} (b : B) (h : Shape p A (strFrame s cnt an .stringchar :: rest) buf pd fl) :
    ∃ q cnt' an', eatsP scan p (escapeByte b) = some q ∧ Shape q A (strFrame s cnt' an' .stringchar :: rest) (buf ++ [b]) pd fl := by
  have hb : b.toNat < 256 := b.toNat_lt
  have hbb : b.toNat.toUInt8 = b := by simp
  unfold escapeByte
  cases hf : ppEscape.find? (fun kv => kv.1 == b.toNat) with
  | some kv =>
    have hmem := List.mem_of_find?_eq_some hf
    have hk : kv.1 = b.toNat := by
      have := List.find?_some hf
      simpa using this
    obtain ⟨_, _, hce, n1, n2, n3⟩ := ppEscape_sound kv hmem
    obtain ⟨q1, _, _, h1, s1⟩ := eatP_stepS scan h 92 A (fun _ _ => strFrame s cnt an .escape1 :: rest) buf pd
      (fun l c lb => step_backslash scan A rest buf l c pd lb fl s cnt an)
    obtain ⟨q2, _, _, h2, s2⟩ := eatP_stepS scan s1 kv.2.toUInt8 A (fun _ _ => strFrame s cnt an .stringchar :: rest) (buf ++ [kv.1.toUInt8]) pd
      (fun l c lb => step_letter scan A rest buf l c pd lb fl s cnt an kv.2.toUInt8 kv.1.toUInt8 n1 n2 n3 hce)
    refine ⟨q2, cnt, an, by simp [eatsP, h1, h2], ?_⟩
    rw [hk, hbb] at s2
    exact s2
  | none =>
    have hnone : (ppEscape.find? (fun kv => kv.1 == b.toNat)).isNone = true := by simp [hf]
    simp only
    by_cases hr : (b.toNat < ppPrintLo || b.toNat > ppPrintHi) = true
    · simp only [hr, if_true]
      obtain ⟨x1, x2, x3⟩ := hex_digits_sound b.toNat hb
      have hval : ((((0 <<< 4 + (b.toNat >>> 4)) <<< 4) + (b.toNat &&& 0xF)) &&& 0xFF).toUInt8 = b := by rw [x3]; exact hbb
      obtain ⟨q1, _, _, h1, s1⟩ := eatP_stepS scan h 92 A (fun _ _ => strFrame s cnt an .escape1 :: rest) buf pd
        (fun l c lb => step_backslash scan A rest buf l c pd lb fl s cnt an)
      obtain ⟨q2, _, _, h2, s2⟩ := eatP_stepS scan s1 120 A (fun _ _ => strFrame s 2 0 .escapeh :: rest) buf pd
        (fun l c lb => step_x scan A rest buf l c pd lb fl s cnt an)
      obtain ⟨q3, _, _, h3, s3⟩ := eatP_stepS scan s2 _ A (fun _ _ => strFrame s 1 (0 <<< 4 + (b.toNat >>> 4)) .escapeh :: rest) buf pd
        (fun l c lb => step_hex1 scan A rest buf l c pd lb fl s 0 _ _ x1)
      obtain ⟨q4, _, _, h4, s4⟩ := eatP_stepS scan s3 _ A (fun _ _ => strFrame s 0 0 .stringchar :: rest)
        (buf ++ [((((0 <<< 4 + (b.toNat >>> 4)) <<< 4) + (b.toNat &&& 0xF)) &&& 0xFF).toUInt8]) pd
        (fun l c lb => step_hex2 scan A rest buf l c pd lb fl s _ _ _ x2)
      refine ⟨q4, 0, 0, by simp only [eatsP, h1, h2, h3, h4, Option.bind_some], ?_⟩
      rw [hval] at s4
      exact s4
    · simp only [hr, Bool.false_eq_true, if_false]
      have hr' : ¬ (b.toNat < ppPrintLo ∨ b.toNat > ppPrintHi) := by simpa using hr
      obtain ⟨p1, p2, p3, p4⟩ := plain_bytes_safe b.toNat hb hnone hr'
      have q1 : b ≠ 92 := fun h => p1 (by rw [h]; rfl)
      have q2 : b ≠ 34 := fun h => p2 (by rw [h]; rfl)
      have q3 : b ≠ 10 := fun h => p3 (by rw [h]; rfl)
      have q4 : b ≠ 13 := fun h => p4 (by rw [h]; rfl)
      obtain ⟨r1, _, _, h1, s1⟩ := eatP_stepS scan h b A (fun _ _ => strFrame s cnt an .stringchar :: rest) (buf ++ [b]) pd
        (fun l c lb => step_plain scan A rest buf l c pd lb fl s cnt an b q1 q2 q3 q4)
      exact ⟨r1, cnt, an, by simp [eatsP, h1], s1⟩

theorem strP_body (bs : List B) : ∀ {p : Parser} {buf : List B} {cnt an : Nat}, Shape p A (strFrame s cnt an .stringchar :: rest) buf pd fl →
    ∃ q cnt' an', eatsP scan p (escapeBody bs) = some q ∧ Shape q A (strFrame s cnt' an' .stringchar :: rest) (buf ++ bs) pd fl := by
  induction bs with
  | nil => intro p buf cnt an h; exact ⟨p, cnt, an, by simp [escapeBody, eatsP], by simpa using h⟩
  | cons b bs ih =>
    intro p buf cnt an h
    obtain ⟨q1, c1, a1, h1, s1⟩ := strP_byte scan s b h
    obtain ⟨q2, c2, a2, h2, s2⟩ := ih s1
    refine ⟨q2, c2, a2, ?_, by simpa using s2⟩
    have : escapeBody (b :: bs) = escapeByte b ++ escapeBody bs := by simp [escapeBody]
    rw [this, eatsP_append, h1]
    simpa using h2

/-- the closing quote: `stringend` hands the collected bytes to `popstate` -/
theorem strP_finish {buf : List B} {cnt an : Nat} (h : Shape p A (strFrame s cnt an .stringchar :: rest) buf pd fl)
    (hl : hasFlag s.flags PFLAG_LONGSTRING = false) :
    ∃ q0, Shape q0 A (strFrame s cnt an .stringchar :: rest) [] pd fl ∧
      eatP scan p 34 = some (popstate q0 (if hasFlag s.flags PFLAG_BUFFER then Value.buf buf else Value.str buf)) := by
  refine ⟨setLb ⟨A, none, strFrame s cnt an .stringchar :: rest, [], advL p.line p.lookback 34, advC p.column 34, pd, p.lookback, fl⟩ 34,
    Shape.setLb (Shape.mk' ..) 34, ?_⟩
  rw [← setLb_popstate]
  refine eatP_step scan h 34 _ ?_ (by simp)
  simp [step, strFrame, stringchar, stringend, hl]

end

section
variable (scan : List B → Option String)
variable {p : Parser} {A : List Value} {top : Frame} {rest : List Frame} {pd fl : Nat}

/-- ★ a printed string literal, read through `janet_parser_consume`, hands exactly its bytes to `popstate` -/
theorem string_pop (bs : List B) (h : Shape p A (top :: rest) [] pd fl) (htop : top.consumer = .root) :
    ∃ q0 f, Shape q0 A (f :: top :: rest) [] pd fl ∧ eatsP scan p (escapeString bs) = some (popstate q0 (.str bs)) := by
  obtain ⟨q1, l, k, h1, s1⟩ := eatP_stepS scan h 34 A (fun l k => strFrame ⟨0, 0, PFLAG_STRING, l, k, .stringchar⟩ 0 0 .stringchar :: top :: rest) [] pd
    (by intro l c lb; simp [step, htop, root, pushstate, strFrame])
  obtain ⟨q2, c2, a2, h2, s2⟩ := strP_body scan ⟨0, 0, PFLAG_STRING, l, k, .stringchar⟩ bs s1
  obtain ⟨q0, s0, h3⟩ := strP_finish scan ⟨0, 0, PFLAG_STRING, l, k, .stringchar⟩ s2 (by show hasFlag PFLAG_STRING PFLAG_LONGSTRING = false; decide)
  refine ⟨q0, _, s0, ?_⟩
  have e : escapeString bs = 34 :: (escapeBody bs ++ [34]) := by simp [escapeString]
  have hb : hasFlag PFLAG_STRING PFLAG_BUFFER = false := by decide
  rw [e]
  simp only [eatsP, h1, Option.bind_some]
  rw [eatsP_snoc scan q1 q2 _ 34 h2, h3]
  simp [hb]

/-- ★ the same for a buffer literal `@"..."` -/
theorem buffer_pop (bs : List B) (h : Shape p A (top :: rest) [] pd fl) (htop : top.consumer = .root) :
    ∃ q0 f, Shape q0 A (f :: top :: rest) [] pd fl ∧ eatsP scan p (64 :: escapeString bs) = some (popstate q0 (.buf bs)) := by
  obtain ⟨qa, la, ka, ha, sa⟩ := atP scan h htop
  obtain ⟨q1, l, k, h1, s1⟩ := eatP_stepS scan sa 34 A
    (fun l k => strFrame ⟨0, 0, PFLAG_BUFFER ||| PFLAG_STRING, l, k, .stringchar⟩ 0 0 .stringchar :: top :: rest) [] pd
    (by intro l c lb; simp [step, atsign, atFrame, pushstate, strFrame])
  obtain ⟨q2, c2, a2, h2, s2⟩ := strP_body scan ⟨0, 0, PFLAG_BUFFER ||| PFLAG_STRING, l, k, .stringchar⟩ bs s1
  obtain ⟨q0, s0, h3⟩ := strP_finish scan ⟨0, 0, PFLAG_BUFFER ||| PFLAG_STRING, l, k, .stringchar⟩ s2
    (by show hasFlag (PFLAG_BUFFER ||| PFLAG_STRING) PFLAG_LONGSTRING = false; decide)
  refine ⟨q0, _, s0, ?_⟩
  have e : escapeString bs = 34 :: (escapeBody bs ++ [34]) := by simp [escapeString]
  have hb : hasFlag (PFLAG_BUFFER ||| PFLAG_STRING) PFLAG_BUFFER = true := by decide
  rw [e]
  simp only [eatsP, ha, h1, Option.bind_some]
  rw [eatsP_snoc scan q1 q2 _ 34 h2, h3]
  simp [hb]

end

/-! ### symbols that start with `@` -/

/-- bytes after which `atsign` opens a table / buffer / array / tuple instead of starting a symbol -/
def atOpens (x : B) : Bool := x == 123 || x == 34 || x == 96 || x == 91 || x == 40

/-- after `@`, a byte that opens nothing: the `atsign` frame is replaced by a token frame holding `@`, and the byte is
    processed by `tokenchar` -/
theorem at_fall (scan : List B → Option String) (A : List Value) (top : Frame) (rest : List Frame) (l k l' k' pd : Nat) (lb : Int) (fl : Nat)
    (x : B) (hx : atOpens x = false) :
    eat scan ⟨A, none, atFrame l k :: top :: rest, [], l', k', pd, lb, fl⟩ x =
      eat scan ⟨A, none, tokFrame l' k' 0 :: top :: rest, [64], l', k', pd, lb, fl⟩ x := by
  unfold atOpens at hx
  simp only [Bool.or_eq_false_iff] at hx
  obtain ⟨⟨⟨⟨x1, x2⟩, x3⟩, x4⟩, x5⟩ := hx
  unfold eat
  simp only [Option.isSome_none, Bool.false_eq_true, if_false]
  congr 1
  have hst : step scan ⟨A, none, atFrame l k :: top :: rest, [], l', k', pd, lb, fl⟩ x =
      (⟨A, none, tokFrame l' k' 0 :: top :: rest, [64], l', k', pd, lb, fl⟩, false) := by
    simp [step, atFrame, atsign, x1, x2, x3, x4, x5, pushstate, pushBuf, tokFrame]
  have htot : (consumeLoop scan (2 * (rest.length + 2) + 2) ⟨A, none, tokFrame l' k' 0 :: top :: rest, [64], l', k', pd, lb, fl⟩ x).isSome = true := by
    apply loop_total
    have := mu_le ⟨A, none, tokFrame l' k' 0 :: top :: rest, [64], l', k', pd, lb, fl⟩ x
    have h2 : mu ⟨A, none, tokFrame l' k' 0 :: top :: rest, [64], l', k', pd, lb, fl⟩ x ≤ 2 * (rest.length + 2) := by
      simp only [mu, tokFrame, List.length_cons]
      split <;> omega
    omega
  cases hq : consumeLoop scan (2 * (rest.length + 2) + 2) ⟨A, none, tokFrame l' k' 0 :: top :: rest, [64], l', k', pd, lb, fl⟩ x with
  | none => rw [hq] at htot; simp at htot
  | some q =>
    have hL : consumeLoop scan (loopFuel ⟨A, none, atFrame l k :: top :: rest, [], l', k', pd, lb, fl⟩)
        ⟨A, none, atFrame l k :: top :: rest, [], l', k', pd, lb, fl⟩ x = some q := by
      show consumeLoop scan ((2 * (rest.length + 2) + 2) + 1) _ x = some q
      unfold consumeLoop
      simp only [Option.isSome_none, Bool.false_eq_true, if_false, hst]
      exact hq
    have hR : consumeLoop scan (loopFuel ⟨A, none, tokFrame l' k' 0 :: top :: rest, [64], l', k', pd, lb, fl⟩)
        ⟨A, none, tokFrame l' k' 0 :: top :: rest, [64], l', k', pd, lb, fl⟩ x = some q := by
      apply consumeLoop_mono scan x _ _ _ hq
      simp [loopFuel]
    rw [hL, hR]

theorem atP_fall (scan : List B → Option String) {p : Parser} {A : List Value} {top : Frame} {rest : List Frame} {pd fl l k : Nat} (x : B)
    (h : Shape p A (atFrame l k :: top :: rest) [] pd fl) (hx : atOpens x = false) :
    ∃ p' l' k', Shape p' A (tokFrame l' k' 0 :: top :: rest) [64] pd fl ∧ eatP scan p x = eatP scan p' x := by
  refine ⟨⟨A, none, tokFrame (advL p.line p.lookback x) (advC p.column x) 0 :: top :: rest, [64], p.line, p.column, pd, p.lookback, fl⟩, _, _,
    Shape.mk' .., ?_⟩
  rw [eatP_lift scan h, at_fall scan A top rest l k _ _ pd _ fl x hx]
  unfold eatP
  rw [advancePos_rec]

set_option maxRecDepth 100000 in
theorem symchar_not_atOpens : ∀ n, n < 256 → isSymbolChar n.toUInt8 = true → atOpens n.toUInt8 = false := by decide

theorem atOpens_of_symchar (x : B) (h : isSymbolChar x = true) : atOpens x = false := by
  have := symchar_not_atOpens x.toNat x.toNat_lt (by simpa using h)
  simpa using this

/-- ★ a symbol text `@ :: cs` followed by a delimiter that opens nothing after `@` -/
theorem at_token_pop (scan : List B → Option String) {p : Parser} {A : List Value} {top : Frame} {rest : List Frame} {pd fl : Nat}
    (cs : List B) (d : B) (v : Value)
    (h : Shape p A (top :: rest) [] pd fl) (htop : top.consumer = .root)
    (hcs : cs.all isSymbolChar = true) (hd : isSymbolChar d = false) (hdo : atOpens d = false)
    (hcl : ∀ na, classifyToken scan (64 :: cs) na = .ok v) :
    ∃ q0 f, Shape q0 A (f :: top :: rest) [] pd fl ∧ eatsP scan p (64 :: cs ++ [d]) = eatP scan (popstate q0 v) d := by
  obtain ⟨qa, la, ka, ha, sa⟩ := atP scan h htop
  -- the first byte after `@`
  have hy : ∃ y ys, cs ++ [d] = y :: ys ∧ atOpens y = false := by
    cases cs with
    | nil => exact ⟨d, [], rfl, hdo⟩
    | cons c cs' =>
      simp only [List.all_cons, Bool.and_eq_true] at hcs
      exact ⟨c, cs' ++ [d], rfl, atOpens_of_symchar c hcs.1⟩
  obtain ⟨y, ys, hyy, hyo⟩ := hy
  obtain ⟨p', l', k', s', hfall⟩ := atP_fall scan y sa hyo
  obtain ⟨q2, h2, s2⟩ := tokP_many scan cs s' hcs
  obtain ⟨q0, s0, h3⟩ := tokP_end scan d v s2 hd (hcl _)
  refine ⟨q0, _, s0, ?_⟩
  have e1 : eatsP scan qa (cs ++ [d]) = eatsP scan p' (cs ++ [d]) := by
    rw [hyy]; simp only [eatsP, hfall]
  show eatsP scan p (64 :: (cs ++ [d])) = _
  simp only [eatsP, ha, Option.bind_some]
  rw [e1, eatsP_snoc scan p' q2 _ d h2, h3]

end JanetModel.Parse
