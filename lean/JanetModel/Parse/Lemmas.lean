/- Helper lemmas about the parser model: termination measure of the consume loop. -/
import JanetModel.Parse.Model

namespace JanetModel.Parse
open JanetModel.Gen.Parse

/-- `popstate` removes at least one frame from a non-empty stack -/
theorem popstateAux_length (states : List Frame) (val : Value) :
    (popstateAux states val).1.length ≤ states.length - 1 := by
  induction states generalizing val with
  | nil => simp [popstateAux]
  | cons top rest ih =>
    cases rest with
    | nil => simp [popstateAux]
    | cons newtop rest' =>
      simp only [popstateAux]
      by_cases h1 : hasFlag newtop.flags PFLAG_CONTAINER = true
      · simp only [h1, if_true]
        by_cases h2 : rest'.isEmpty = true <;> simp [h2]
      · simp only [h1]
        by_cases h3 : hasFlag newtop.flags PFLAG_READERMAC = true
        · simp only [h3, if_true]
          have := ih (Value.tuple false newtop.line newtop.column
            [Value.sym (strBytes (readerMacName (newtop.flags &&& 0xFF))), val.withSm top.line top.column])
          simp at this ⊢
          omega
        · simp [h3]

theorem popstate_length (p : Parser) (val : Value) :
    (popstate p val).states.length ≤ p.states.length - 1 := by
  simp only [popstate]
  exact popstateAux_length p.states val

/-- termination measure of `while (!consumed && !parser->error)` -/
def mu (p : Parser) (c : B) : Nat :=
  match p.states with
  | [] => 1
  | top :: _ =>
    match top.consumer with
    | .tokenchar => if isSymbolChar c then 1 else 2 * p.states.length
    | .atsign => 2 * p.states.length + 1
    | .longstring => 2 * p.states.length + 1
    | .root => 2
    | _ => 1

theorem mu_pos (p : Parser) (c : B) : 1 ≤ mu p c := by
  unfold mu
  split
  · omega
  · rename_i top rest heq
    split <;> try omega
    · split <;> simp [heq] <;> omega

theorem mu_le (p : Parser) (c : B) : mu p c ≤ 2 * p.states.length + 1 := by
  unfold mu
  split
  · omega
  · rename_i top rest heq
    split <;> simp [heq] <;> try omega
    · split <;> omega

theorem closeDelim_consumes (p : Parser) (s : Frame) (c : B) : (closeDelim p s c).2 = true := by
  unfold closeDelim
  repeat' split
  all_goals rfl

theorem stringchar_consumes (p : Parser) (s : Frame) (c : B) : (stringchar p s c).2 = true := by
  unfold stringchar
  repeat' split
  all_goals rfl

theorem escape1_consumes (p : Parser) (s : Frame) (c : B) : (escape1 p s c).2 = true := by
  unfold escape1
  repeat' split
  all_goals rfl

theorem escapeh_consumes (p : Parser) (s : Frame) (c : B) : (escapeh p s c).2 = true := by
  unfold escapeh
  split
  · rfl
  · dsimp only
    repeat' split
    all_goals rfl

theorem escapeu_consumes (p : Parser) (s : Frame) (c : B) : (escapeu p s c).2 = true := by
  unfold escapeu
  split
  · rfl
  · dsimp only
    repeat' split
    all_goals rfl

theorem comment_consumes (p : Parser) (s : Frame) (c : B) : (comment p s c).2 = true := by
  unfold comment
  repeat' split
  all_goals rfl

def RootRes (p : Parser) (c : B) (r : Parser × Bool) : Prop :=
  r.2 = true ∨ (r = (pushstate p .tokenchar PFLAG_TOKEN, false) ∧ isSymbolChar c = true)

theorem root_cases' (p : Parser) (s : Frame) (c : B) : RootRes p c (root p s c) := by
  unfold root
  by_cases h0 : (c == 39 || c == 44 || c == 59 || c == 126 || c == 124) = true
  · rw [if_pos h0]; unfold RootRes; left; rfl
  rw [if_neg h0]
  by_cases h1 : (c == 34) = true
  · rw [if_pos h1]; unfold RootRes; left; rfl
  rw [if_neg h1]
  by_cases h2 : (c == 35) = true
  · rw [if_pos h2]; unfold RootRes; left; rfl
  rw [if_neg h2]
  by_cases h3 : (c == 64) = true
  · rw [if_pos h3]; unfold RootRes; left; rfl
  rw [if_neg h3]
  by_cases h4 : (c == 96) = true
  · rw [if_pos h4]; unfold RootRes; left; rfl
  rw [if_neg h4]
  by_cases h5 : (c == 41 || c == 93 || c == 125) = true
  · rw [if_pos h5]; unfold RootRes; left; exact closeDelim_consumes _ _ _
  rw [if_neg h5]
  by_cases h6 : (c == 40) = true
  · rw [if_pos h6]; unfold RootRes; left; rfl
  rw [if_neg h6]
  by_cases h7 : (c == 91) = true
  · rw [if_pos h7]; unfold RootRes; left; rfl
  rw [if_neg h7]
  by_cases h8 : (c == 123) = true
  · rw [if_pos h8]; unfold RootRes; left; rfl
  rw [if_neg h8]
  by_cases h9 : isWhitespace c = true
  · rw [if_pos h9]; unfold RootRes; left; rfl
  rw [if_neg h9]
  by_cases h10 : (!isSymbolChar c) = true
  · rw [if_pos h10]; unfold RootRes; left; rfl
  rw [if_neg h10]
  unfold RootRes
  right
  exact ⟨rfl, by simpa using h10⟩

theorem root_cases (p : Parser) (s : Frame) (c : B) :
    (root p s c).2 = true ∨ (root p s c = (pushstate p .tokenchar PFLAG_TOKEN, false) ∧ isSymbolChar c = true) :=
  root_cases' p s c

theorem atsign_cases (p : Parser) (s : Frame) (c : B) :
    (atsign p s c).2 = true ∨ atsign p s c = (pushBuf (pushstate { p with states := p.states.drop 1 } .tokenchar PFLAG_TOKEN) 64, false) := by
  generalize hr : atsign p s c = r
  unfold atsign at hr
  repeat' split at hr
  all_goals subst hr
  all_goals first
    | (left; rfl)
    | (right; rfl)

theorem longstring_cases (p : Parser) (s : Frame) (c : B) :
    (longstring p s c).2 = true ∨ longstring p s c = (stringend p s, false) := by
  generalize hr : longstring p s c = r
  unfold longstring at hr
  repeat' split at hr
  all_goals subst hr
  all_goals first
    | (left; rfl)
    | (right; rfl)

theorem tokenchar_cases (scan : List B → Option String) (p : Parser) (s : Frame) (c : B) :
    (tokenchar scan p s c).2 = true ∨ (isSymbolChar c = false ∧
      ((tokenchar scan p s c).1.error.isSome = true ∨ ∃ v, tokenchar scan p s c = (popstate { p with buf := [] } v, false))) := by
  unfold tokenchar
  by_cases sc : isSymbolChar c = true
  · left; simp [sc]
  · right
    refine ⟨by simpa using sc, ?_⟩
    simp only [sc]
    cases classifyToken scan p.buf (s.argn != 0) with
    | error e => left; simp
    | ok v => right; exact ⟨v, by simp⟩

theorem stringend_length (p : Parser) (s : Frame) : (stringend p s).states.length ≤ p.states.length - 1 := by
  unfold stringend
  exact popstate_length _ _

/-- a non-consuming step either latches an error or strictly decreases the measure -/
theorem step_measure (scan : List B → Option String) (p : Parser) (c : B)
    (h : (step scan p c).2 = false) : (step scan p c).1.error.isSome = true ∨ mu (step scan p c).1 c < mu p c := by
  obtain ⟨args, error, states, buf, line, column, pending, lookback, flag⟩ := p
  unfold step at h ⊢
  cases states with
  | nil => simp at h
  | cons top rest =>
    simp only at h ⊢
    cases hc : top.consumer <;> simp only [hc] at h ⊢
    case root =>
      rcases root_cases ⟨args, error, top :: rest, buf, line, column, pending, lookback, flag⟩ top c with h1 | ⟨e, sc⟩
      · rw [h1] at h; cases h
      · right
        rw [e]
        simp [mu, pushstate, sc, hc]
    case tokenchar =>
      rcases tokenchar_cases scan ⟨args, error, top :: rest, buf, line, column, pending, lookback, flag⟩ top c with h1 | ⟨sc, h2 | ⟨v, e⟩⟩
      · rw [h1] at h; cases h
      · left; exact h2
      · right
        rw [e]
        have hl := popstate_length ⟨args, error, top :: rest, [], line, column, pending, lookback, flag⟩ v
        have hm := mu_le (popstate ⟨args, error, top :: rest, [], line, column, pending, lookback, flag⟩ v) c
        have e2 : mu ⟨args, error, top :: rest, buf, line, column, pending, lookback, flag⟩ c = 2 * (rest.length + 1) := by
          simp [mu, hc, sc]
        rw [e2]
        simp only [List.length_cons] at hl
        dsimp only at hl hm ⊢
        omega
    case stringchar => rw [stringchar_consumes] at h; cases h
    case escape1 => rw [escape1_consumes] at h; cases h
    case escapeh => rw [escapeh_consumes] at h; cases h
    case escapeu => rw [escapeu_consumes] at h; cases h
    case comment => rw [comment_consumes] at h; cases h
    case longstring =>
      rcases longstring_cases ⟨args, error, top :: rest, buf, line, column, pending, lookback, flag⟩ top c with h1 | e
      · rw [h1] at h; cases h
      · right
        rw [e]
        have hl := stringend_length ⟨args, error, top :: rest, buf, line, column, pending, lookback, flag⟩ top
        have hm := mu_le (stringend ⟨args, error, top :: rest, buf, line, column, pending, lookback, flag⟩ top) c
        have e2 : mu ⟨args, error, top :: rest, buf, line, column, pending, lookback, flag⟩ c = 2 * (rest.length + 1) + 1 := by
          simp [mu, hc]
        rw [e2]
        simp only [List.length_cons] at hl
        dsimp only at hl hm ⊢
        omega
    case atsign =>
      rcases atsign_cases ⟨args, error, top :: rest, buf, line, column, pending, lookback, flag⟩ top c with h1 | e
      · rw [h1] at h; cases h
      · right
        rw [e]
        simp only [mu, hc, pushBuf, pushstate, List.drop_one, List.tail_cons, List.length_cons]
        split <;> omega

theorem loop_total (scan : List B → Option String) (c : B) :
    ∀ fuel p, mu p c < fuel → (consumeLoop scan fuel p c).isSome = true := by
  intro fuel
  induction fuel with
  | zero => intro p h; omega
  | succ n ih =>
    intro p h
    unfold consumeLoop
    by_cases he : p.error.isSome = true
    · simp [he]
    · simp only [he]
      cases hstep : step scan p c with
      | mk p' consumed =>
        cases consumed with
        | true => simp
        | false =>
          have hm := step_measure scan p c (by rw [hstep])
          rw [hstep] at hm
          simp only [Bool.false_eq_true, if_false]
          rcases hm with he' | hlt
          · have h1 : 1 ≤ mu p c := mu_pos p c
            cases n with
            | zero => omega
            | succ k => unfold consumeLoop; simp [he']
          · exact ih p' (by simp only at hlt; omega)

theorem consumeLoop_total (scan : List B → Option String) (p : Parser) (c : B) :
    (consumeLoop scan (loopFuel p) p c).isSome = true := by
  apply loop_total
  have := mu_le p c
  unfold loopFuel
  omega

end JanetModel.Parse
