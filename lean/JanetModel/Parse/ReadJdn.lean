/- ★ `reads_pop`: by induction on the printer's depth, every text `%j` prints reads back (up to source maps) wherever a value may
   start; then the lift to the client protocol `feed` + `finish` = `parseAll` (`jdn_parseAll`). -/
import JanetModel.Parse.ReadValue

namespace JanetModel.Parse
open JanetModel.Gen.Parse JanetModel.PP

/-! ### the printer's recursion, named -/

def jdnItems (scan : List B → Option String) (fmt : String → Option (List B)) (depth : Nat) (l : List Value) : Option (List B) :=
  (allSome (l.map (jdn scan fmt depth))).map (sepBy [32])

def pairOf (f : Value → Option (List B)) (kv : Value × Value) : Option (List B) :=
  match f kv.1, f kv.2 with
  | some a, some b => some (a ++ [32] ++ b)
  | _, _ => none

def jdnPairs (scan : List B → Option String) (fmt : String → Option (List B)) (depth : Nat) (ks vs : List Value) : Option (List B) :=
  (allSome ((ks.zip vs).map (pairOf (jdn scan fmt depth)))).map (sepBy [32])

section
variable (scan : List B → Option String) (fmt : String → Option (List B)) (depth : Nat)

theorem jdn_tuple (br : Bool) (l c : Nat) (items : List Value) :
    jdn scan fmt (depth + 1) (.tuple br l c items) =
      (jdnItems scan fmt depth items).map (fun s => [if br then 91 else 40] ++ s ++ [if br then 93 else 41]) := rfl
theorem jdn_array (items : List Value) :
    jdn scan fmt (depth + 1) (.array items) = (jdnItems scan fmt depth items).map (fun s => [64, 91] ++ s ++ [93]) := rfl
theorem jdn_struct (ks vs : List Value) :
    jdn scan fmt (depth + 1) (.struct ks vs) = (jdnPairs scan fmt depth ks vs).map (fun s => [123] ++ s ++ [125]) := rfl
theorem jdn_table (ks vs : List Value) :
    jdn scan fmt (depth + 1) (.table ks vs) = (jdnPairs scan fmt depth ks vs).map (fun s => [64, 123] ++ s ++ [125]) := rfl
end

theorem allSome_all2 (f : Value → Option (List B)) (P : Value → List B → Prop) : ∀ (l : List Value) (Ts : List (List B)),
    allSome (l.map f) = some Ts → (∀ v ∈ l, ∀ T, f v = some T → P v T) → All2 P l Ts := by
  intro l
  induction l with
  | nil => intro Ts h _; simp [allSome] at h; subst h; exact .nil
  | cons a l ih =>
    intro Ts h hp
    simp only [List.map_cons] at h
    cases hfa : f a with
    | none => simp [hfa, allSome] at h
    | some x =>
      simp only [hfa, allSome] at h
      cases hr : allSome (l.map f) with
      | none => simp [hr] at h
      | some Ts' =>
        simp only [hr, Option.map_some, Option.some.injEq] at h
        subst h
        exact .cons (hp a (List.mem_cons_self ..) x hfa) (ih Ts' hr (fun v hv => hp v (List.mem_cons_of_mem _ hv)))

theorem pairs_all2 (f : Value → Option (List B)) (P : Value → List B → Prop) : ∀ (kvs : List (Value × Value)) (Ps : List (List B)),
    allSome (kvs.map (pairOf f)) = some Ps →
    (∀ kv ∈ kvs, (∀ T, f kv.1 = some T → P kv.1 T) ∧ (∀ T, f kv.2 = some T → P kv.2 T)) →
    ∃ Ts, All2 P (il kvs) Ts ∧ tl Ps = tl Ts ∧ sepBy [32] Ps = sepBy [32] Ts := by
  intro kvs
  induction kvs with
  | nil => intro Ps h _; simp [allSome] at h; subst h; exact ⟨[], .nil, rfl, rfl⟩
  | cons kv r ih =>
    intro Ps h hp
    simp only [List.map_cons] at h
    have hkv := hp kv (List.mem_cons_self ..)
    cases h1 : f kv.1 with
    | none => simp [pairOf, h1, allSome] at h
    | some a =>
      cases h2 : f kv.2 with
      | none => simp [pairOf, h1, h2, allSome] at h
      | some b =>
        have hpo : pairOf f kv = some (a ++ [32] ++ b) := by simp [pairOf, h1, h2]
        simp only [hpo, allSome] at h
        cases hr : allSome (r.map (pairOf f)) with
        | none => simp [hr] at h
        | some Ps' =>
          simp only [hr, Option.map_some, Option.some.injEq] at h
          subst h
          obtain ⟨Ts', hA, htl, _⟩ := ih Ps' hr (fun kv' hv => hp kv' (List.mem_cons_of_mem _ hv))
          have htl' : tl ((a ++ [32] ++ b) :: Ps') = tl (a :: b :: Ts') := by
            simp only [tl, List.map_cons, List.flatten_cons] at htl ⊢
            rw [htl]; simp
          refine ⟨a :: b :: Ts', .cons (hkv.1 a h1) (.cons (hkv.2 b h2) hA), htl', ?_⟩
          rw [sepBy_cons, sepBy_cons]
          simp only [tl, List.map_cons, List.flatten_cons] at htl ⊢
          rw [htl]; simp

/-! ### one lemma per kind of value -/

section
variable (scan : List B → Option String)

theorem reads_token (c : B) (cs : List B) (v : Value) (hc : rootStartsToken c = true) (hcs : cs.all isSymbolChar = true)
    (hcl : ∀ na, classifyToken scan (c :: cs) na = .ok v) : ReadsPop scan v (c :: cs) := by
  intro p A top rest pd fl d h htop hd
  obtain ⟨hd1, _⟩ := delim_facts d hd
  obtain ⟨q0, f, s0, he⟩ := token_pop scan c cs d v h htop hc hcs hd1 hcl
  exact ⟨v, q0, f, rfl, s0, he⟩

theorem reads_at_token (cs : List B) (v : Value) (hcs : cs.all isSymbolChar = true)
    (hcl : ∀ na, classifyToken scan (64 :: cs) na = .ok v) : ReadsPop scan v (64 :: cs) := by
  intro p A top rest pd fl d h htop hd
  obtain ⟨hd1, hd2⟩ := delim_facts d hd
  obtain ⟨q0, f, s0, he⟩ := at_token_pop scan cs d v h htop hcs hd1 hd2 hcl
  exact ⟨v, q0, f, rfl, s0, he⟩

theorem reads_string (bs : List B) : ReadsPop scan (.str bs) (escapeString bs) := by
  intro p A top rest pd fl d h htop _
  obtain ⟨q0, f, s0, he⟩ := string_pop scan bs h htop
  exact ⟨.str bs, q0, f, rfl, s0, eatsP_snoc scan p _ _ d he⟩

theorem reads_buffer (bs : List B) : ReadsPop scan (.buf bs) (64 :: escapeString bs) := by
  intro p A top rest pd fl d h htop _
  obtain ⟨q0, f, s0, he⟩ := buffer_pop scan bs h htop
  exact ⟨.buf bs, q0, f, rfl, s0, eatsP_snoc scan p _ _ d he⟩

theorem flags40 : hasFlag (openFlags 40) PFLAG_CONTAINER = true ∧ closesF (openFlags 40) 41 = true ∧ hasFlag (openFlags 40) PFLAG_ATSYM = false := by decide
theorem flags91 : hasFlag (openFlags 91) PFLAG_CONTAINER = true ∧ closesF (openFlags 91) 93 = true ∧ hasFlag (openFlags 91) PFLAG_ATSYM = false := by decide
theorem flags123 : hasFlag (openFlags 123) PFLAG_CONTAINER = true ∧ closesF (openFlags 123) 125 = true ∧ hasFlag (openFlags 123) PFLAG_ATSYM = false := by decide
theorem flagsA91 : hasFlag (atOpenFlags 91) PFLAG_CONTAINER = true ∧ closesF (atOpenFlags 91) 93 = true ∧ hasFlag (atOpenFlags 91) PFLAG_ATSYM = true := by decide
theorem flagsA123 : hasFlag (atOpenFlags 123) PFLAG_CONTAINER = true ∧ closesF (atOpenFlags 123) 125 = true ∧ hasFlag (atOpenFlags 123) PFLAG_ATSYM = true := by decide

theorem reads_tuple (br : Bool) (ln col : Nat) (items : List Value) (Ts : List (List B)) (hF : All2 (ReadsPop scan) items Ts) :
    ReadsPop scan (.tuple br ln col items) ([if br then 91 else 40] ++ sepBy [32] Ts ++ [if br then 93 else 41]) := by
  intro p A top rest pd fl d h htop _
  cases br with
  | false =>
    obtain ⟨q1, l, k, h1, s1⟩ := openP scan 40 h htop (Or.inl rfl)
    have hpre : eatsP scan p [40] = some q1 := by rw [eatsP_single]; exact h1
    obtain ⟨vs', q0, f, hev, s0, he⟩ := container_pop scan items Ts hF [40] q1 ⟨0, 0, openFlags 40, l, k, .root⟩ hpre s1 rfl flags40.1 rfl
      41 flags40.2.1 (by decide) (by intro h; cases h) d
    refine ⟨closeValue ⟨0, 0, openFlags 40, l, k, .root⟩ 41 vs', q0, f, ?_, s0, by simpa using he⟩
    simp [closeValue, flags40.2.2, Value.erase, hev]
  | true =>
    obtain ⟨q1, l, k, h1, s1⟩ := openP scan 91 h htop (Or.inr (Or.inl rfl))
    have hpre : eatsP scan p [91] = some q1 := by rw [eatsP_single]; exact h1
    obtain ⟨vs', q0, f, hev, s0, he⟩ := container_pop scan items Ts hF [91] q1 ⟨0, 0, openFlags 91, l, k, .root⟩ hpre s1 rfl flags91.1 rfl
      93 flags91.2.1 (by decide) (by intro h; cases h) d
    refine ⟨closeValue ⟨0, 0, openFlags 91, l, k, .root⟩ 93 vs', q0, f, ?_, s0, by simpa using he⟩
    simp [closeValue, flags91.2.2, Value.erase, hev]

theorem reads_array (items : List Value) (Ts : List (List B)) (hF : All2 (ReadsPop scan) items Ts) :
    ReadsPop scan (.array items) ([64, 91] ++ sepBy [32] Ts ++ [93]) := by
  intro p A top rest pd fl d h htop _
  obtain ⟨qa, la, ka, ha, sa⟩ := atP scan h htop
  obtain ⟨q1, l, k, h1, s1⟩ := atOpenP scan 91 sa (Or.inl rfl)
  have hpre : eatsP scan p [64, 91] = some q1 := by simp [eatsP, ha, h1]
  obtain ⟨vs', q0, f, hev, s0, he⟩ := container_pop scan items Ts hF [64, 91] q1 ⟨0, 0, atOpenFlags 91, l, k, .root⟩ hpre s1 rfl flagsA91.1 rfl
    93 flagsA91.2.1 (by decide) (by intro h; cases h) d
  refine ⟨closeValue ⟨0, 0, atOpenFlags 91, l, k, .root⟩ 93 vs', q0, f, ?_, s0, he⟩
  simp [closeValue, flagsA91.2.2, Value.erase, hev]

theorem reads_struct (ks vs : List Value) (hok : keysOK ks vs = true) (Ts : List (List B)) (hF : All2 (ReadsPop scan) (il (ks.zip vs)) Ts) :
    ReadsPop scan (.struct ks vs) ([123] ++ sepBy [32] Ts ++ [125]) := by
  intro p A top rest pd fl d h htop _
  obtain ⟨e1, e2, hfresh, hnil⟩ := keysOK_facts hok
  obtain ⟨q1, l, k, h1, s1⟩ := openP scan 123 h htop (Or.inr (Or.inr rfl))
  have hpre : eatsP scan p [123] = some q1 := by rw [eatsP_single]; exact h1
  obtain ⟨vs', q0, f, hev, s0, he⟩ := container_pop scan _ Ts hF [123] q1 ⟨0, 0, openFlags 123, l, k, .root⟩ hpre s1 rfl flags123.1 rfl
    125 flags123.2.1 (by decide) (by intro _; rw [il_length]; omega) d
  refine ⟨closeValue ⟨0, 0, openFlags 123, l, k, .root⟩ 125 vs', q0, f, ?_, s0, he⟩
  have hb := buildDict_fresh structPut structPut_fresh (ks.zip vs) vs' [] [] [] [] hev rfl rfl hfresh hnil
  simp only [List.nil_append, e1, e2] at hb
  simp [closeValue, flags123.2.2, Value.erase, hb.1, hb.2]

theorem reads_table (ks vs : List Value) (hok : keysOK ks vs = true) (Ts : List (List B)) (hF : All2 (ReadsPop scan) (il (ks.zip vs)) Ts) :
    ReadsPop scan (.table ks vs) ([64, 123] ++ sepBy [32] Ts ++ [125]) := by
  intro p A top rest pd fl d h htop _
  obtain ⟨e1, e2, hfresh, hnil⟩ := keysOK_facts hok
  obtain ⟨qa, la, ka, ha, sa⟩ := atP scan h htop
  obtain ⟨q1, l, k, h1, s1⟩ := atOpenP scan 123 sa (Or.inr rfl)
  have hpre : eatsP scan p [64, 123] = some q1 := by simp [eatsP, ha, h1]
  obtain ⟨vs', q0, f, hev, s0, he⟩ := container_pop scan _ Ts hF [64, 123] q1 ⟨0, 0, atOpenFlags 123, l, k, .root⟩ hpre s1 rfl flagsA123.1 rfl
    125 flagsA123.2.1 (by decide) (by intro _; rw [il_length]; omega) d
  refine ⟨closeValue ⟨0, 0, atOpenFlags 123, l, k, .root⟩ 125 vs', q0, f, ?_, s0, he⟩
  have hb := buildDict_fresh tablePut tablePut_fresh (ks.zip vs) vs' [] [] [] [] hev rfl rfl hfresh hnil
  simp only [List.nil_append, e1, e2] at hb
  simp [closeValue, flagsA123.2.2, Value.erase, hb.1, hb.2]

end

/-! ### the induction -/

theorem numTok_facts {T : List B} (h : numTok T = true) : ∃ c cs, T = c :: cs ∧
    (48 ≤ c.toNat && c.toNat ≤ 57 || c == 45 || c == 43 || c == 46) = true ∧ rootStartsToken c = true ∧ cs.all isSymbolChar = true := by
  cases T with
  | nil => simp [numTok] at h
  | cons c cs =>
    simp only [numTok, Bool.and_eq_true] at h
    exact ⟨c, cs, rfl, h.1.1, h.1.2, h.2⟩

theorem start_not_colon (c : B) (hstart : (48 ≤ c.toNat && c.toNat ≤ 57 || c == 45 || c == 43 || c == 46) = true) : (c == 58) = false := by
  rcases Bool.or_eq_true _ _ |>.mp hstart with h | h
  · rcases Bool.or_eq_true _ _ |>.mp h with h | h
    · rcases Bool.or_eq_true _ _ |>.mp h with h | h
      · simp only [Bool.and_eq_true, decide_eq_true_eq] at h
        cases hc : (c == 58) with
        | false => rfl
        | true => have : c = 58 := by simpa using hc
                  subst this; simp at h
      · have : c = 45 := by simpa using h
        subst this; decide
    · have : c = 43 := by simpa using h
      subst this; decide
  · have : c = 46 := by simpa using h
    subst this; decide

/-- ★★ every value `%j` prints (at any depth budget) reads back, wherever a value may start, as a value equal up to source maps -/
theorem reads_pop (scan : List B → Option String) (fmt : String → Option (List B)) (hnum : NumOK scan fmt) :
    ∀ (depth : Nat) (v : Value) (T : List B), jdn scan fmt depth v = some T → v.dictOK = true → ReadsPop scan v T := by
  intro depth
  induction depth with
  | zero => intro v T h; simp [jdn] at h
  | succ depth ih =>
    intro v T hj hok
    cases v with
    | nil =>
      have hT : T = nilBytes := by simp [jdn] at hj; exact hj.symm
      subst hT
      exact reads_token scan 110 [105, 108] .nil (by decide) (by decide) (fun na => classify_nil scan na)
    | bool b =>
      cases b with
      | true =>
        have hT : T = trueBytes := by simp [jdn] at hj; exact hj.symm
        subst hT
        exact reads_token scan 116 [114, 117, 101] (.bool true) (by decide) (by decide) (fun na => classify_true scan na)
      | false =>
        have hT : T = falseBytes := by simp [jdn] at hj; exact hj.symm
        subst hT
        exact reads_token scan 102 [97, 108, 115, 101] (.bool false) (by decide) (by decide) (fun na => classify_false scan na)
    | num tag =>
      have hf : fmt tag = some T := by simpa [jdn] using hj
      obtain ⟨hscan, hnt⟩ := hnum tag T hf
      obtain ⟨c, cs, rfl, hstart, hc, hcs⟩ := numTok_facts hnt
      exact reads_token scan c cs (.num tag) hc hcs
        (fun na => classify_number scan (c :: cs) tag na hscan (by simpa using hstart) (by simpa using start_not_colon c hstart))
    | str bs =>
      have hT : T = escapeString bs := by simp [jdn] at hj; exact hj.symm
      subst hT
      exact reads_string scan bs
    | buf bs =>
      have hT : T = 64 :: escapeString bs := by simp [jdn] at hj; exact hj.symm
      subst hT
      exact reads_buffer scan bs
    | sym bs =>
      have hbad : containsBadChars scan bs true = false := by
        cases h : containsBadChars scan bs true with
        | false => rfl
        | true => simp [jdn, h] at hj
      have hT : T = bs := by simp [jdn, hbad] at hj; exact hj.symm
      subst hT
      have hall : T.all isSymbolChar = true := by
        unfold containsBadChars at hbad
        simp only [Bool.or_eq_false_iff] at hbad
        simpa using hbad.2
      cases T with
      | nil =>
        have hfix : ppRefusesMisreadSymbols = true := by decide
        simp [containsBadChars, hfix] at hbad
      | cons b bs' =>
        simp only [List.all_cons, Bool.and_eq_true] at hall
        by_cases hat : b = 64
        · subst hat
          exact reads_at_token scan bs' (.sym (64 :: bs')) hall.2 (fun na => classify_symbol scan (64 :: bs') na hbad)
        · have hb : rootStartsToken b = true := by simp [rootStartsToken, hall.1, hat]
          exact reads_token scan b bs' (.sym (b :: bs')) hb hall.2 (fun na => classify_symbol scan (b :: bs') na hbad)
    | kw ks =>
      have hbad : containsBadChars scan ks false = false := by
        cases h : containsBadChars scan ks false with
        | false => rfl
        | true => simp [jdn, h] at hj
      have hT : T = 58 :: ks := by simp [jdn, hbad] at hj; exact hj.symm
      subst hT
      have hall : ks.all isSymbolChar = true := by
        unfold containsBadChars at hbad
        simp only [Bool.or_eq_false_iff] at hbad
        simpa using hbad.2
      exact reads_token scan 58 ks (.kw ks) (by decide) hall (fun na => classify_keyword scan ks na hbad)
    | tuple br ln col items =>
      rw [jdn_tuple] at hj
      simp only [Value.dictOK] at hok
      cases hi : jdnItems scan fmt depth items with
      | none => simp [hi] at hj
      | some s =>
        simp only [hi, Option.map_some, Option.some.injEq] at hj
        subst hj
        unfold jdnItems at hi
        cases ha : allSome (items.map (jdn scan fmt depth)) with
        | none => simp [ha] at hi
        | some Ts =>
          simp only [ha, Option.map_some, Option.some.injEq] at hi
          subst hi
          exact reads_tuple scan br ln col items Ts
            (allSome_all2 _ _ items Ts ha (fun v hv T' hT' => ih v T' hT' (dictOKL_mem hok v hv)))
    | array items =>
      rw [jdn_array] at hj
      simp only [Value.dictOK] at hok
      cases hi : jdnItems scan fmt depth items with
      | none => simp [hi] at hj
      | some s =>
        simp only [hi, Option.map_some, Option.some.injEq] at hj
        subst hj
        unfold jdnItems at hi
        cases ha : allSome (items.map (jdn scan fmt depth)) with
        | none => simp [ha] at hi
        | some Ts =>
          simp only [ha, Option.map_some, Option.some.injEq] at hi
          subst hi
          exact reads_array scan items Ts
            (allSome_all2 _ _ items Ts ha (fun v hv T' hT' => ih v T' hT' (dictOKL_mem hok v hv)))
    | struct ks vs =>
      rw [jdn_struct] at hj
      simp only [Value.dictOK, Bool.and_eq_true] at hok
      obtain ⟨⟨hkeys, hk⟩, hv⟩ := hok
      cases hi : jdnPairs scan fmt depth ks vs with
      | none => simp [hi] at hj
      | some s =>
        simp only [hi, Option.map_some, Option.some.injEq] at hj
        subst hj
        unfold jdnPairs at hi
        cases ha : allSome ((ks.zip vs).map (pairOf (jdn scan fmt depth))) with
        | none => simp [ha] at hi
        | some Ps =>
          simp only [ha, Option.map_some, Option.some.injEq] at hi
          subst hi
          obtain ⟨Ts, hA, _, hsep⟩ := pairs_all2 (jdn scan fmt depth) (ReadsPop scan) (ks.zip vs) Ps ha (by
            intro kv hkv
            have hm := List.of_mem_zip (a := kv.1) (b := kv.2) hkv
            exact ⟨fun T' hT' => ih kv.1 T' hT' (dictOKL_mem hk _ hm.1), fun T' hT' => ih kv.2 T' hT' (dictOKL_mem hv _ hm.2)⟩)
          rw [hsep]
          exact reads_struct scan ks vs hkeys Ts hA
    | table ks vs =>
      rw [jdn_table] at hj
      simp only [Value.dictOK, Bool.and_eq_true] at hok
      obtain ⟨⟨hkeys, hk⟩, hv⟩ := hok
      cases hi : jdnPairs scan fmt depth ks vs with
      | none => simp [hi] at hj
      | some s =>
        simp only [hi, Option.map_some, Option.some.injEq] at hj
        subst hj
        unfold jdnPairs at hi
        cases ha : allSome ((ks.zip vs).map (pairOf (jdn scan fmt depth))) with
        | none => simp [ha] at hi
        | some Ps =>
          simp only [ha, Option.map_some, Option.some.injEq] at hi
          subst hi
          obtain ⟨Ts, hA, _, hsep⟩ := pairs_all2 (jdn scan fmt depth) (ReadsPop scan) (ks.zip vs) Ps ha (by
            intro kv hkv
            have hm := List.of_mem_zip (a := kv.1) (b := kv.2) hkv
            exact ⟨fun T' hT' => ih kv.1 T' hT' (dictOKL_mem hk _ hm.1), fun T' hT' => ih kv.2 T' hT' (dictOKL_mem hv _ hm.2)⟩)
          rw [hsep]
          exact reads_table scan ks vs hkeys Ts hA

end JanetModel.Parse
