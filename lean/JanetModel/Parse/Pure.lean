/- `parser/produce` (and the pure queries) can be interleaved with bytes at will: loop / consume / feed level of the
   lock-step lemma, well-formedness along `feed`, and the schedule theorem. -/
import JanetModel.Parse.Queue

namespace JanetModel.Parse
open JanetModel.Gen.Parse

theorem Sim.refl' {z : Value} {p : Parser} {A : List Value} (hwf : WF p) (hargs : p.args = A ++ [z]) : Sim z p p :=
  ⟨hwf, Nat.le_refl _, ⟨A, hargs⟩⟩

theorem Sim.trans' {z : Value} {p q r : Parser} (h1 : Sim z p q) (h2 : Sim z q r) : Sim z p r :=
  ⟨h2.wf, Nat.le_trans h1.mono h2.mono, h2.bottom⟩

theorem dropQ_error (p : Parser) : (dropQ p).error = p.error := rfl

/-- the loop of `janet_parser_consume` commutes with removing the oldest queued value -/
theorem loop_dropQ (scan : List B → Option String) (c : B) : ∀ (fuel : Nat) (p : Parser) (A : List Value) (z : Value),
    WF p → 1 ≤ p.pending → p.args = A ++ [z] →
    consumeLoop scan fuel (dropQ p) c = (consumeLoop scan fuel p c).map dropQ ∧
    (∀ q, consumeLoop scan fuel p c = some q → Sim z p q) := by
  intro fuel
  induction fuel with
  | zero => intro p A z _ _ _; simp [consumeLoop]
  | succ n ih =>
    intro p A z hwf hp hargs
    unfold consumeLoop
    rw [dropQ_error]
    by_cases he : p.error.isSome = true
    · simp only [he, if_true, Option.map_some]
      exact ⟨by first | rfl | trivial, fun q hq => by cases hq; exact Sim.refl' hwf hargs⟩
    · simp only [he]
      obtain ⟨hcomm, hsim⟩ := step_dropQ scan p c A z hwf hp hargs
      rw [hcomm]
      cases hk : (step scan p c).2 with
      | true =>
        simp only [if_true, Option.map_some]
        exact ⟨by first | rfl | trivial, fun q hq => by cases hq; exact hsim⟩
      | false =>
        simp only [Bool.false_eq_true, if_false]
        obtain ⟨A', hA'⟩ := hsim.bottom
        have := ih (step scan p c).1 A' z hsim.wf (Nat.le_trans hp hsim.mono) hA'
        exact ⟨this.1, fun q hq => Sim.trans' hsim (this.2 q hq)⟩

theorem advancePos_dropQ (p : Parser) (c : B) : advancePos (dropQ p) c = dropQ (advancePos p c) := by
  unfold advancePos dropQ
  split
  · rfl
  · split <;> rfl

theorem loopFuel_dropQ (p : Parser) : loopFuel (dropQ p) = loopFuel p := by
  simp [loopFuel, dropQ, decRoot_length]

theorem WF_advancePos {p : Parser} (c : B) (h : WF p) : WF (advancePos p c) := by
  unfold advancePos
  split
  · exact ⟨h.ok, h.sum, h.rootn⟩
  · split <;> exact ⟨h.ok, h.sum, h.rootn⟩

theorem advancePos_args (p : Parser) (c : B) : (advancePos p c).args = p.args ∧ (advancePos p c).pending = p.pending ∧
    (advancePos p c).states = p.states := by
  unfold advancePos
  split
  · exact ⟨rfl, rfl, rfl⟩
  · split <;> exact ⟨rfl, rfl, rfl⟩

/-- `janet_parser_consume` (after the dead check) commutes with removing the oldest queued value -/
theorem consumeRaw_dropQ (scan : List B → Option String) (p : Parser) (c : B) (A : List Value) (z : Value)
    (hwf : WF p) (hp : 1 ≤ p.pending) (hargs : p.args = A ++ [z]) :
    consumeRaw scan (dropQ p) c = dropQ (consumeRaw scan p c) ∧ Sim z p (consumeRaw scan p c) := by
  have ha := advancePos_args p c
  have hwf1 := WF_advancePos c hwf
  have hl := loop_dropQ scan c (loopFuel (advancePos p c)) (advancePos p c) A z hwf1 (by rw [ha.2.1]; exact hp) (by rw [ha.1]; exact hargs)
  have htot := consumeLoop_total scan (advancePos p c) c
  cases hq : consumeLoop scan (loopFuel (advancePos p c)) (advancePos p c) c with
  | none => rw [hq] at htot; simp at htot
  | some q =>
    have hs := hl.2 q hq
    unfold consumeRaw
    simp only [advancePos_dropQ, loopFuel_dropQ, hl.1, hq, Option.map_some, Option.getD_some]
    refine ⟨rfl, ⟨⟨hs.wf.ok, hs.wf.sum, hs.wf.rootn⟩, ?_, hs.bottom⟩⟩
    have := hs.mono
    rw [ha.2.1] at this
    exact this

theorem checkDead_dropQ (p : Parser) : checkDead (dropQ p) = checkDead p := rfl

theorem consume_dropQ (scan : List B → Option String) (p : Parser) (c : B) (A : List Value) (z : Value)
    (hwf : WF p) (hp : 1 ≤ p.pending) (hargs : p.args = A ++ [z]) :
    consume scan (dropQ p) c = dropQ (consume scan p c) ∧ Sim z p (consume scan p c) := by
  unfold consume
  rw [checkDead_dropQ]
  cases checkDead p with
  | some _ => exact ⟨rfl, Sim.refl' hwf hargs⟩
  | none => exact consumeRaw_dropQ scan p c A z hwf hp hargs

/-! ### produce -/

theorem args_concat {p : Parser} (hwf : WF p) (hp : 1 ≤ p.pending) : ∃ A z, p.args = A ++ [z] := by
  have := hwf.sum
  rcases List.eq_nil_or_concat p.args with h | ⟨A, z, h⟩
  · rw [h] at this; simp at this; omega
  · exact ⟨A, z, by simpa using h⟩

theorem produce_eq {p : Parser} {A : List Value} {z : Value} (hp : 1 ≤ p.pending) (hargs : p.args = A ++ [z]) :
    produce p = (some (unwrap1 z), dropQ p) := by
  have h0 : (p.pending == 0) = false := by simp; omega
  unfold produce produceWrapped
  simp only [h0, Bool.false_eq_true, if_false, hargs, List.reverse_append, List.reverse_cons, List.reverse_nil, List.nil_append,
    List.singleton_append, List.reverse_reverse]
  simp [dropQ, hargs, decRootArgn_eq]

/-- one `parser/produce` call on a run: the value (if any) moves from the queue to the output -/
def produceRun (r : Run) : Run :=
  match produce r.p with
  | (some v, p') => { p := p', out := r.out ++ [.value v] }
  | (none, p') => { r with p := p' }

theorem produceRun_empty {r : Run} (h : r.p.pending = 0) : produceRun r = r := by
  simp [produceRun, produce, produceWrapped, h]

theorem produceRun_eq {r : Run} {A : List Value} {z : Value} (hp : 1 ≤ r.p.pending) (hargs : r.p.args = A ++ [z]) :
    produceRun r = { p := dropQ r.p, out := r.out ++ [.value (unwrap1 z)] } := by
  simp [produceRun, produce_eq hp hargs]

/-- dequeuing everything gives the same output whether or not one value was already taken -/
theorem drain_produceRun {r : Run} (hwf : WF r.p) : drain (produceRun r) = drain r := by
  by_cases h0 : r.p.pending = 0
  · rw [produceRun_empty h0]
  · have hp : 1 ≤ r.p.pending := by omega
    obtain ⟨A, z, hargs⟩ := args_concat hwf hp
    rw [produceRun_eq hp hargs]
    unfold drain
    obtain ⟨n, hn⟩ : ∃ n, r.p.pending = n + 1 := ⟨r.p.pending - 1, by omega⟩
    have : (dropQ r.p).pending = n := by simp [dropQ, hn]
    simp only [this, hn]
    conv => rhs; unfold drainAux
    simp [produce_eq hp hargs]

end JanetModel.Parse
