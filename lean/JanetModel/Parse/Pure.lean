/- `parser/produce` (and the pure queries) can be interleaved with bytes at will: loop / consume / feed level of the
   lock-step lemma, well-formedness along `feed`, and the schedule theorem. -/
import JanetModel.Parse.Queue

namespace JanetModel.Parse
open JanetModel.Gen.Parse

theorem Sim.refl' {z : Value} {p : Parser} {A : List Value} (hwf : WF p) (hargs : p.args = A ++ [z]) : Sim z p p :=
  ⟨hwf, Nat.le_refl _, ⟨A, hargs⟩⟩

theorem Sim.trans' {z : Value} {p q r : Parser} (h1 : Sim z p q) (h2 : Sim z q r) : Sim z p r :=
  ⟨h2.wf, Nat.le_trans h1.mono h2.mono, h2.bottom⟩

theorem dropQ_error (p : Parser) : (dropQ p).error = p.error := rfl

/-- the loop of `janet_parser_consume` commutes with removing the oldest queued value -/
theorem loop_dropQ (scan : List B → Option String) (c : B) : ∀ (fuel : Nat) (p : Parser) (A : List Value) (z : Value),
    WF p → 1 ≤ p.pending → p.args = A ++ [z] →
    consumeLoop scan fuel (dropQ p) c = (consumeLoop scan fuel p c).map dropQ ∧
    (∀ q, consumeLoop scan fuel p c = some q → Sim z p q) := by
  intro fuel
  induction fuel with
  | zero => intro p A z _ _ _; simp [consumeLoop]
  | succ n ih =>
    intro p A z hwf hp hargs
    unfold consumeLoop
    rw [dropQ_error]
    by_cases he : p.error.isSome = true
    · simp only [he, if_true, Option.map_some]
      exact ⟨by first | rfl | trivial, fun q hq => by cases hq; exact Sim.refl' hwf hargs⟩
    · simp only [he]
      obtain ⟨hcomm, hsim⟩ := step_dropQ scan p c A z hwf hp hargs
      rw [hcomm]
      cases hk : (step scan p c).2 with
      | true =>
        simp only [if_true, Option.map_some]
        exact ⟨by first | rfl | trivial, fun q hq => by cases hq; exact hsim⟩
      | false =>
        simp only [Bool.false_eq_true, if_false]
        obtain ⟨A', hA'⟩ := hsim.bottom
        have := ih (step scan p c).1 A' z hsim.wf (Nat.le_trans hp hsim.mono) hA'
        exact ⟨this.1, fun q hq => Sim.trans' hsim (this.2 q hq)⟩

theorem advancePos_dropQ (p : Parser) (c : B) : advancePos (dropQ p) c = dropQ (advancePos p c) := by
  unfold advancePos dropQ
  split
  · rfl
  · split <;> rfl

theorem loopFuel_dropQ (p : Parser) : loopFuel (dropQ p) = loopFuel p := by
  simp [loopFuel, dropQ, decRoot_length]

theorem WF_advancePos {p : Parser} (c : B) (h : WF p) : WF (advancePos p c) := by
  unfold advancePos
  split
  · exact ⟨h.ok, h.sum, h.rootn⟩
  · split <;> exact ⟨h.ok, h.sum, h.rootn⟩

theorem advancePos_args (p : Parser) (c : B) : (advancePos p c).args = p.args ∧ (advancePos p c).pending = p.pending ∧
    (advancePos p c).states = p.states := by
  unfold advancePos
  split
  · exact ⟨rfl, rfl, rfl⟩
  · split <;> exact ⟨rfl, rfl, rfl⟩

/-- `janet_parser_consume` (after the dead check) commutes with removing the oldest queued value -/
theorem consumeRaw_dropQ (scan : List B → Option String) (p : Parser) (c : B) (A : List Value) (z : Value)
    (hwf : WF p) (hp : 1 ≤ p.pending) (hargs : p.args = A ++ [z]) :
    consumeRaw scan (dropQ p) c = dropQ (consumeRaw scan p c) ∧ Sim z p (consumeRaw scan p c) := by
  have ha := advancePos_args p c
  have hwf1 := WF_advancePos c hwf
  have hl := loop_dropQ scan c (loopFuel (advancePos p c)) (advancePos p c) A z hwf1 (by rw [ha.2.1]; exact hp) (by rw [ha.1]; exact hargs)
  have htot := consumeLoop_total scan (advancePos p c) c
  cases hq : consumeLoop scan (loopFuel (advancePos p c)) (advancePos p c) c with
  | none => rw [hq] at htot; simp at htot
  | some q =>
    have hs := hl.2 q hq
    unfold consumeRaw
    simp only [advancePos_dropQ, loopFuel_dropQ, hl.1, hq, Option.map_some, Option.getD_some]
    refine ⟨rfl, ⟨⟨hs.wf.ok, hs.wf.sum, hs.wf.rootn⟩, ?_, hs.bottom⟩⟩
    have := hs.mono
    rw [ha.2.1] at this
    exact this

theorem checkDead_dropQ (p : Parser) : checkDead (dropQ p) = checkDead p := rfl

theorem consume_dropQ (scan : List B → Option String) (p : Parser) (c : B) (A : List Value) (z : Value)
    (hwf : WF p) (hp : 1 ≤ p.pending) (hargs : p.args = A ++ [z]) :
    consume scan (dropQ p) c = dropQ (consume scan p c) ∧ Sim z p (consume scan p c) := by
  unfold consume
  rw [checkDead_dropQ]
  cases checkDead p with
  | some _ => exact ⟨rfl, Sim.refl' hwf hargs⟩
  | none => exact consumeRaw_dropQ scan p c A z hwf hp hargs

/-! ### produce -/

theorem args_concat {p : Parser} (hwf : WF p) (hp : 1 ≤ p.pending) : ∃ A z, p.args = A ++ [z] := by
  have := hwf.sum
  rcases List.eq_nil_or_concat p.args with h | ⟨A, z, h⟩
  · rw [h] at this; simp at this; omega
  · exact ⟨A, z, by simpa using h⟩

theorem produce_eq {p : Parser} {A : List Value} {z : Value} (hp : 1 ≤ p.pending) (hargs : p.args = A ++ [z]) :
    produce p = (some (unwrap1 z), dropQ p) := by
  have h0 : (p.pending == 0) = false := by simp; omega
  unfold produce produceWrapped
  simp only [h0, Bool.false_eq_true, if_false, hargs, List.reverse_append, List.reverse_cons, List.reverse_nil, List.nil_append,
    List.singleton_append, List.reverse_reverse]
  simp [dropQ, hargs, decRootArgn_eq]

/-- one `parser/produce` call on a run: the value (if any) moves from the queue to the output -/
def produceRun (r : Run) : Run :=
  match produce r.p with
  | (some v, p') => { p := p', out := r.out ++ [.value v] }
  | (none, p') => { r with p := p' }

theorem produceRun_empty {r : Run} (h : r.p.pending = 0) : produceRun r = r := by
  simp [produceRun, produce, produceWrapped, h]

theorem produceRun_eq {r : Run} {A : List Value} {z : Value} (hp : 1 ≤ r.p.pending) (hargs : r.p.args = A ++ [z]) :
    produceRun r = { p := dropQ r.p, out := r.out ++ [.value (unwrap1 z)] } := by
  simp [produceRun, produce_eq hp hargs]

/-- dequeuing everything gives the same output whether or not one value was already taken -/
theorem drain_produceRun {r : Run} (hwf : WF r.p) : drain (produceRun r) = drain r := by
  by_cases h0 : r.p.pending = 0
  · rw [produceRun_empty h0]
  · have hp : 1 ≤ r.p.pending := by omega
    obtain ⟨A, z, hargs⟩ := args_concat hwf hp
    rw [produceRun_eq hp hargs]
    unfold drain
    obtain ⟨n, hn⟩ : ∃ n, r.p.pending = n + 1 := ⟨r.p.pending - 1, by omega⟩
    have : (dropQ r.p).pending = n := by simp [dropQ, hn]
    simp only [this, hn]
    conv => rhs; unfold drainAux
    simp [produce_eq hp hargs]

/-! ### runs: one earlier `produce` does not change what later bytes yield -/

/-- what `handleError` does after the queue was dequeued -/
def afterDrain (d : Run) : Run :=
  match takeError d.p with
  | (some e, p) => { p := p, out := d.out ++ [.error e d.p.line d.p.column] }
  | (none, p) => { d with p := p }

theorem handleError_of_error {r : Run} (h : r.p.error.isSome = true) : handleError r = afterDrain (drain r) := by
  unfold handleError afterDrain
  simp only [h, if_true]
  rfl

theorem handleError_of_ok {r : Run} (h : r.p.error.isSome = false) : handleError r = r := by
  unfold handleError
  simp [h]

/-- `b` is `a`, or `a` after one `parser/produce` -/
def Rel (a b : Run) : Prop := b = a ∨ (WF a.p ∧ 1 ≤ a.p.pending ∧ b = produceRun a)

theorem feedByte_rel (scan : List B → Option String) (a b : Run) (c : B) (h : Rel a b) :
    Rel (feedByte scan a c) (feedByte scan b c) := by
  rcases h with h | ⟨hwf, hp, hb⟩
  · subst h; exact Or.inl rfl
  · obtain ⟨A, z, hargs⟩ := args_concat hwf hp
    rw [produceRun_eq hp hargs] at hb
    subst hb
    obtain ⟨hcomm, hsim⟩ := consume_dropQ scan a.p c A z hwf hp hargs
    obtain ⟨A', hA'⟩ := hsim.bottom
    have hp' : 1 ≤ (consume scan a.p c).pending := Nat.le_trans hp hsim.mono
    have hpr : produceRun { a with p := consume scan a.p c } =
        { p := dropQ (consume scan a.p c), out := a.out ++ [.value (unwrap1 z)] } := produceRun_eq (r := { a with p := consume scan a.p c }) hp' hA'
    unfold feedByte
    simp only [hcomm]
    rw [← hpr]
    cases he : (consume scan a.p c).error.isSome with
    | true =>
      left
      have he2 : (produceRun { a with p := consume scan a.p c }).p.error.isSome = true := by
        rw [hpr]; exact he
      rw [handleError_of_error he2, handleError_of_error (r := { a with p := consume scan a.p c }) he,
        drain_produceRun (r := { a with p := consume scan a.p c }) hsim.wf]
    | false =>
      right
      have he2 : (produceRun { a with p := consume scan a.p c }).p.error.isSome = false := by
        rw [hpr]; exact he
      rw [handleError_of_ok he2, handleError_of_ok (r := { a with p := consume scan a.p c }) he]
      exact ⟨hsim.wf, hp', rfl⟩

theorem feed_rel (scan : List B → Option String) (bs : List B) : ∀ a b : Run, Rel a b → Rel (feed scan a bs) (feed scan b bs) := by
  induction bs with
  | nil => intro a b h; exact h
  | cons c cs ih => intro a b h; exact ih _ _ (feedByte_rel scan a b c h)

theorem events_rel {a b : Run} (h : Rel a b) : b.events = a.events := by
  rcases h with h | ⟨hwf, _, hb⟩
  · rw [h]
  · rw [hb]; unfold Run.events; rw [drain_produceRun hwf]

/-- one `parser/produce` before any further bytes: every value and error the client eventually sees is the same -/
theorem produce_then_feed (scan : List B → Option String) (r : Run) (bs : List B) (hwf : WF r.p) :
    (feed scan (produceRun r) bs).events = (feed scan r bs).events := by
  apply events_rel
  apply feed_rel
  by_cases h0 : r.p.pending = 0
  · left; exact produceRun_empty h0
  · right; exact ⟨hwf, by omega, rfl⟩

/-! ### well-formedness is an invariant of `feed` -/

def incRoot : List Frame → List Frame
  | [] => []
  | [r] => [{ r with argn := r.argn + 1 }]
  | f :: g :: l => f :: incRoot (g :: l)

theorem incRoot_ne_nil : ∀ {l : List Frame}, l ≠ [] → incRoot l ≠ []
  | [], h => absurd rfl h
  | [_], _ => by simp [incRoot]
  | _ :: _ :: _, _ => by simp [incRoot]

theorem decRoot_incRoot : ∀ l : List Frame, decRoot (incRoot l) = l
  | [] => rfl
  | [r] => by simp [incRoot, decRoot]
  | f :: g :: l => by
    rw [incRoot, decRoot_cons (incRoot_ne_nil (by simp)), decRoot_incRoot (g :: l)]

theorem okFrames_incRoot : ∀ l : List Frame, okFrames (incRoot l) = okFrames l
  | [] => rfl
  | [r] => by simp [incRoot, okFrames, isCont]
  | f :: g :: l => by
    rw [incRoot, okFrames_cons (incRoot_ne_nil (by simp)), okFrames_incRoot (g :: l)]; rfl

theorem inner_incRoot : ∀ l : List Frame, inner (incRoot l) = inner l
  | [] => rfl
  | [r] => rfl
  | f :: g :: l => by
    rw [incRoot, inner_cons (incRoot_ne_nil (by simp)), inner_incRoot (g :: l)]; rfl

theorem rootArgn_incRoot : ∀ l : List Frame, l ≠ [] → rootArgn (incRoot l) = rootArgn l + 1
  | [], h => absurd rfl h
  | [r], _ => rfl
  | f :: g :: l, _ => by
    rw [incRoot, rootArgn_cons (incRoot_ne_nil (by simp)), rootArgn_incRoot (g :: l) (by simp)]; rfl

/-- the parser with one more (dummy) value at the bottom of the queue -/
def addQ (p : Parser) : Parser :=
  { p with args := p.args ++ [Value.nil], pending := p.pending + 1, states := incRoot p.states }

theorem WF_addQ {p : Parser} (h : WF p) : WF (addQ p) := by
  refine ⟨?_, ?_, ?_⟩
  · simp only [addQ, okFrames_incRoot]; exact h.ok
  · simp only [addQ, inner_incRoot, List.length_append, List.length_cons, List.length_nil]; have := h.sum; omega
  · simp only [addQ]; rw [rootArgn_incRoot _ (okFrames_ne_nil h.ok), h.rootn]

theorem dropQ_addQ (p : Parser) : dropQ (addQ p) = p := by
  obtain ⟨args, err, states, buf, line, column, pending, lb, flag⟩ := p
  simp [dropQ, addQ, decRoot_incRoot]

theorem WF_dropQ {p : Parser} (h : WF p) (hp : 1 ≤ p.pending) : WF (dropQ p) := by
  refine ⟨?_, ?_, ?_⟩
  · simp only [dropQ, okFrames_decRoot]; exact h.ok
  · simp only [dropQ, inner_decRoot, List.length_dropLast]; have := h.sum; omega
  · simp only [dropQ, rootArgn_decRoot, h.rootn]

theorem WF_consume (scan : List B → Option String) {p : Parser} (c : B) (h : WF p) : WF (consume scan p c) := by
  have hq := WF_addQ h
  have hs := consume_dropQ scan (addQ p) c p.args Value.nil hq (by simp [addQ]) rfl
  rw [dropQ_addQ] at hs
  rw [hs.1]
  exact WF_dropQ hs.2.wf (Nat.le_trans (by simp [addQ]) hs.2.mono)

theorem WF_produce {p : Parser} (h : WF p) : WF (produce p).2 := by
  by_cases h0 : p.pending = 0
  · simp [produce, produceWrapped, h0]; exact h
  · have hp : 1 ≤ p.pending := by omega
    obtain ⟨A, z, hargs⟩ := args_concat h hp
    rw [produce_eq hp hargs]
    exact WF_dropQ h hp

theorem WF_drainAux : ∀ (n : Nat) (p : Parser) (acc : List Event), WF p → WF (drainAux n p acc).1 := by
  intro n
  induction n with
  | zero => intro p acc h; exact h
  | succ k ih =>
    intro p acc h
    unfold drainAux
    have hp := WF_produce h
    cases hpr : produce p with
    | mk ov p' =>
      rw [hpr] at hp
      cases ov with
      | none => exact hp
      | some v => exact ih p' _ hp

theorem okFrames_last : ∀ {l : List Frame}, okFrames l = true →
    ∃ r, l.drop (l.length - 1) = [r] ∧ r.consumer = .root ∧ isCont r = true
  | [], h => by simp [okFrames] at h
  | [r], h => ⟨r, by simp, by simpa [okFrames] using h⟩
  | f :: g :: l, h => by
    rw [okFrames_cons (by simp)] at h
    simp only [Bool.and_eq_true] at h
    obtain ⟨r, h1, h2⟩ := okFrames_last h.2
    refine ⟨r, ?_, h2⟩
    have : (f :: g :: l).length - 1 = ((g :: l).length - 1) + 1 := by simp
    rw [this, List.drop_succ_cons]; exact h1

/-- regenerated obligation (`janet_parser_flush` resets `states[0].argn`): flushing keeps the parser well formed -/
theorem WF_flush {p : Parser} (h : WF p) : WF (flush p) := by
  have hf : flushResetsRootArgn = true := by decide
  obtain ⟨r, h1, h2, h3⟩ := okFrames_last h.ok
  unfold flush
  simp only [hf, if_true, h1, List.map_cons, List.map_nil]
  refine ⟨?_, ?_, ?_⟩
  · simp [okFrames, isCont, h2] ; simpa [isCont] using h3
  · simp [inner]
  · simp [rootArgn]

theorem WF_takeError {p : Parser} (h : WF p) : WF (takeError p).2 := by
  unfold takeError
  cases he : p.error with
  | none => exact h
  | some e => exact WF_flush (p := { p with error := none, flag := p.flag &&& (0xFFFFFFFF ^^^ JANET_PARSER_GENERATED_ERROR) }) ⟨h.ok, h.sum, h.rootn⟩

theorem WF_handleError {r : Run} (h : WF r.p) : WF (handleError r).p := by
  cases he : r.p.error.isSome with
  | false => rw [handleError_of_ok he]; exact h
  | true =>
    rw [handleError_of_error he]
    have hd : WF (drain r).p := by unfold drain; exact WF_drainAux _ _ _ h
    have ht := WF_takeError hd
    unfold afterDrain
    cases hte : takeError (drain r).p with
    | mk oe p' =>
      rw [hte] at ht
      cases oe <;> exact ht

theorem WF_feedByte (scan : List B → Option String) {r : Run} (c : B) (h : WF r.p) : WF (feedByte scan r c).p := by
  unfold feedByte
  exact WF_handleError (r := { r with p := consume scan r.p c }) (WF_consume scan c h)

theorem WF_feed (scan : List B → Option String) (bs : List B) : ∀ {r : Run}, WF r.p → WF (feed scan r bs).p := by
  induction bs with
  | nil => intro r h; exact h
  | cons c cs ih => intro r h; exact ih (WF_feedByte scan c h)

theorem WF_produceRun {r : Run} (h : WF r.p) : WF (produceRun r).p := by
  have := WF_produce h
  unfold produceRun
  cases hpr : produce r.p with
  | mk ov p' =>
    rw [hpr] at this
    cases ov <;> exact this

theorem WF_init : WF Parser.init := by
  refine ⟨?_, ?_, ?_⟩ <;> simp [Parser.init, okFrames, inner, rootArgn, isCont] <;> decide

/-! ### schedules -/

/-- what a client may do between bytes -/
inductive Op where
  | byte (c : B)          -- one byte through consume + the error protocol
  | produce               -- `parser/produce`
  | query                 -- `parser/status`, `parser/has-more`, `parser/where`, `parser/state`: functions of the parser
  deriving Inhabited

def runOp (scan : List B → Option String) (r : Run) : Op → Run
  | .byte c => feedByte scan r c
  | .produce => produceRun r
  | .query => r

def bytesOf : List Op → List B
  | [] => []
  | .byte c :: ops => c :: bytesOf ops
  | _ :: ops => bytesOf ops

theorem schedule_pure (scan : List B → Option String) (ops : List Op) : ∀ r : Run, WF r.p →
    (ops.foldl (runOp scan) r).events = (feed scan r (bytesOf ops)).events := by
  induction ops with
  | nil => intro r _; rfl
  | cons op ops ih =>
    intro r h
    cases op with
    | byte c =>
      simp only [List.foldl_cons, runOp, bytesOf]
      rw [ih _ (WF_feedByte scan c h)]
      rfl
    | produce =>
      simp only [List.foldl_cons, runOp, bytesOf]
      rw [ih _ (WF_produceRun h)]
      exact produce_then_feed scan r (bytesOf ops) h
    | query =>
      simp only [List.foldl_cons, runOp, bytesOf]
      exact ih r h

end JanetModel.Parse
