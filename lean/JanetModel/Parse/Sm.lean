/- Values up to tuple source-map positions: `Value.erase` zeroes every tuple's line/column (what `deep=` / `janet_equals`
   cannot see), and `keq` (the model of `janet_equals` on parser-produced values) does not look at them. -/
import JanetModel.Parse.Model

namespace JanetModel.Parse

mutual
/-- the value with every tuple source-map position set to 0 -/
def Value.erase : Value → Value
  | .tuple b _ _ l => .tuple b 0 0 (eraseL l)
  | .array l => .array (eraseL l)
  | .struct k v => .struct (eraseL k) (eraseL v)
  | .table k v => .table (eraseL k) (eraseL v)
  | v => v
def eraseL : List Value → List Value
  | [] => []
  | a :: l => a.erase :: eraseL l
end

/-- equal up to source-map positions (`deep=` on data: source maps are not part of a tuple's identity) -/
def SmEq (a b : Value) : Prop := a.erase = b.erase

theorem eraseL_eq_map (l : List Value) : eraseL l = l.map Value.erase := by
  induction l with
  | nil => simp [eraseL]
  | cons a l ih => simp [eraseL, ih]

@[simp] theorem eraseL_length (l : List Value) : (eraseL l).length = l.length := by
  rw [eraseL_eq_map]; simp

theorem eraseL_append (a b : List Value) : eraseL (a ++ b) = eraseL a ++ eraseL b := by
  simp [eraseL_eq_map]

theorem erase_withSm (v : Value) (l c : Nat) : (v.withSm l c).erase = v.erase := by
  cases v <;> simp [Value.withSm, Value.erase]

theorem erase_isNil (v : Value) : v.erase.isNil = v.isNil := by
  cases v <;> simp [Value.erase, Value.isNil]

theorem isNil_of_smEq {a b : Value} (h : a.erase = b.erase) : a.isNil = b.isNil := by
  rw [← erase_isNil a, ← erase_isNil b, h]

/-! ### `keq` ignores source maps -/

section
variable (n : Nat) (ih : ∀ x y : Value, keqF n x y = keqF n x.erase y.erase)
include ih

theorem zipAll_erase : ∀ (xs ys : List Value),
    (xs.zip ys).all (fun ab => keqF n ab.1 ab.2) = ((eraseL xs).zip (eraseL ys)).all (fun ab => keqF n ab.1 ab.2)
  | [], _ => by simp [eraseL]
  | _ :: _, [] => by simp [eraseL]
  | x :: xs, y :: ys => by
    simp only [List.zip_cons_cons, List.all_cons, eraseL]
    rw [← ih x y, zipAll_erase xs ys]

theorem lookup_erase (k : Value) : ∀ (ks vs : List Value),
    (((eraseL ks).zip (eraseL vs)).find? (fun kv => keqF n kv.1 k.erase)).map (·.2) =
      (((ks.zip vs).find? (fun kv => keqF n kv.1 k)).map (·.2)).map Value.erase
  | [], _ => by simp [eraseL]
  | _ :: _, [] => by simp [eraseL]
  | a :: ks, b :: vs => by
    simp only [List.zip_cons_cons, eraseL, List.find?_cons]
    rw [← ih a k]
    cases keqF n a k with
    | true => simp
    | false => simpa using lookup_erase k ks vs

theorem structAll_erase (k2 v2 : List Value) : ∀ (k1 v1 : List Value),
    (k1.zip v1).all (fun kv => match ((k2.zip v2).find? (fun kv' => keqF n kv'.1 kv.1)).map (·.2) with
        | some v => keqF n kv.2 v
        | none => false) =
    ((eraseL k1).zip (eraseL v1)).all (fun kv => match (((eraseL k2).zip (eraseL v2)).find? (fun kv' => keqF n kv'.1 kv.1)).map (·.2) with
        | some v => keqF n kv.2 v
        | none => false)
  | [], _ => by simp [eraseL]
  | _ :: _, [] => by simp [eraseL]
  | a :: k1, b :: v1 => by
    simp only [List.zip_cons_cons, List.all_cons, eraseL]
    rw [structAll_erase k2 v2 k1 v1, lookup_erase n ih a k2 v2]
    cases ((k2.zip v2).find? (fun kv' => keqF n kv'.1 a)).map (·.2) with
    | none => simp
    | some v => simp [← ih b v]

end

theorem keqF_erase : ∀ (n : Nat) (a b : Value), keqF n a b = keqF n a.erase b.erase := by
  intro n
  induction n with
  | zero => intro a b; simp [keqF]
  | succ n ih =>
    intro a b
    cases a <;> cases b <;> simp only [Value.erase, keqF]
    case tuple.tuple b1 l1 c1 i1 b2 l2 c2 i2 =>
      rw [zipAll_erase n ih i1 i2]; simp
    case struct.struct k1 v1 k2 v2 =>
      have h := structAll_erase n ih k2 v2 k1 v1
      simp only [eraseL_length]
      exact congrArg (fun t => (k1.length == k2.length && t)) h

theorem keq_erase (a b : Value) : keq a b = keq a.erase b.erase := keqF_erase 4096 a b

/-- `janet_equals` gives the same answer on values that differ only in source-map positions -/
theorem keq_smEq {a a' b b' : Value} (ha : a.erase = a'.erase) (hb : b.erase = b'.erase) : keq a b = keq a' b' := by
  rw [keq_erase a b, keq_erase a' b', ha, hb]

/-! ### well-formed dictionaries inside a value (hypothesis of `jdn_roundtrip`; executable, used by the driver) -/

/-- keys of a dictionary literal, in order: each one differs (`janet_equals`) from all earlier ones -/
def freshAll : List Value → List Value → Bool
  | _, [] => true
  | acc, k :: ks => acc.all (fun o => !keq k o) && freshAll (acc ++ [k]) ks

/-- a well-formed struct / table content: as many values as keys, no nil key or value (neither can be stored), distinct keys -/
def keysOK (ks vs : List Value) : Bool :=
  ks.length == vs.length && ks.all (fun k => !k.isNil) && vs.all (fun v => !v.isNil) && freshAll [] ks

mutual
/-- every struct / table inside the value is well formed -/
def Value.dictOK : Value → Bool
  | .tuple _ _ _ l => dictOKL l
  | .array l => dictOKL l
  | .struct k v => keysOK k v && dictOKL k && dictOKL v
  | .table k v => keysOK k v && dictOKL k && dictOKL v
  | _ => true
def dictOKL : List Value → Bool
  | [] => true
  | a :: l => a.dictOK && dictOKL l
end

theorem dictOKL_mem : ∀ {l : List Value}, dictOKL l = true → ∀ v ∈ l, v.dictOK = true
  | [], _, _, h => by cases h
  | a :: l, h, v, hv => by
    simp only [dictOKL, Bool.and_eq_true] at h
    rcases List.mem_cons.mp hv with rfl | hv
    · exact h.1
    · exact dictOKL_mem h.2 v hv

end JanetModel.Parse
