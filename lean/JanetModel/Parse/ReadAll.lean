/- Lift of `reads_pop` from the consume loop to the client protocol: `feed` every byte of the `%j` text to a FRESH parser, then
   `finish` (`janet_parser_eof` + dequeue): exactly one value comes out, equal to the printed one up to source maps, no error. -/
import JanetModel.Parse.ReadJdn

namespace JanetModel.Parse
open JanetModel.Gen.Parse JanetModel.PP

/-- on a live parser `janet_parser_consume` + the error protocol is `eatP` as long as no error occurs -/
theorem feedByte_of_eatP (scan : List B → Option String) (r : Run) (c : B) (q : Parser) (hf : r.p.flag = 0) (he : r.p.error = none)
    (h : eatP scan r.p c = some q) : feedByte scan r c = { p := q, out := r.out } ∧ q.flag = 0 ∧ q.error = none := by
  obtain ⟨hraw, hqe⟩ := consumeRaw_of_eatP scan r.p q c h
  have hcd : checkDead r.p = none := by simp [checkDead, he, hf]
  have hflag := (consumeRaw_pos scan r.p c (consumeLoop_total scan (advancePos r.p c) c)).2
  rw [hraw] at hflag
  have hq0 : q.flag = 0 := by
    rcases hflag with h1 | ⟨_, h2⟩
    · rw [h1, hf]
    · rw [hqe] at h2; simp at h2
  refine ⟨?_, hq0, hqe⟩
  unfold feedByte consume
  simp only [hcd, hraw]
  unfold handleError
  simp [hqe]

theorem feed_of_eatsP (scan : List B → Option String) : ∀ (bs : List B) (r : Run) (q : Parser), r.p.flag = 0 → r.p.error = none →
    eatsP scan r.p bs = some q → feed scan r bs = { p := q, out := r.out } ∧ q.flag = 0 ∧ q.error = none := by
  intro bs
  induction bs with
  | nil =>
    intro r q hf he h
    simp only [eatsP, Option.some.injEq] at h
    subst h
    exact ⟨rfl, hf, he⟩
  | cons c cs ih =>
    intro r q hf he h
    simp only [eatsP] at h
    cases h1 : eatP scan r.p c with
    | none => simp [h1] at h
    | some q1 =>
      simp only [h1, Option.bind_some] at h
      obtain ⟨e1, f1, n1⟩ := feedByte_of_eatP scan r c q1 hf he h1
      have := ih { p := q1, out := r.out } q f1 n1 h
      simp only [feed, List.foldl_cons, e1]
      exact this

theorem init_shape : Shape Parser.init [] [⟨0, 0, PFLAG_CONTAINER, 1, 0, .root⟩] [] 0 0 := ⟨rfl, rfl, rfl, rfl, rfl, rfl⟩

/-- ★★★ `jdn_roundtrip` at the client level: the text `%j` prints for `v`, fed to a fresh parser and finished with
    `janet_parser_eof`, yields exactly ONE event, a value equal to `v` up to tuple source-map positions -- no error -/
theorem jdn_parseAll (scan : List B → Option String) (fmt : String → Option (List B)) (hnum : NumOK scan fmt)
    (depth : Nat) (v : Value) (T : List B) (hj : jdn scan fmt depth v = some T) (hok : v.dictOK = true) :
    ∃ w, parseAll scan T = [Event.value w] ∧ w.erase = v.erase := by
  have hr := reads_pop scan fmt hnum depth v T hj hok
  obtain ⟨v', q0, f, hev, s0, he⟩ := hr Parser.init [] _ [] 0 0 10 init_shape rfl (by decide)
  have s1 := popstate_shape_root v' s0 (by decide)
  obtain ⟨q, hq, sq⟩ := spaceP scan 10 s1 rfl (Or.inr rfl)
  rw [hq] at he
  -- split off the final newline (it is fed by `janet_parser_eof`)
  rw [eatsP_append] at he
  cases hT : eatsP scan Parser.init T with
  | none => simp [hT] at he
  | some q' =>
    simp only [hT, Option.bind_some, eatsP_single] at he
    obtain ⟨hfeed, hf', he'⟩ := feed_of_eatsP scan T Run.init q' rfl rfl hT
    obtain ⟨hraw, _⟩ := consumeRaw_of_eatP scan q' q 10 he
    have hcd : checkDead q' = none := by simp [checkDead, he', hf']
    refine ⟨v'.withSm f.line f.column, ?_, by rw [erase_withSm, hev]⟩
    unfold parseAll
    rw [hfeed]
    unfold finish eof
    simp only [hcd, hraw]
    have hlen : ¬ (q.states.length > 1) := by rw [sq.hstates]; simp
    simp only [hlen, if_false]
    unfold handleError
    simp only [sq.herr, Option.isSome_none, Bool.false_eq_true, if_false]
    unfold drain
    simp only [sq.hpending, Run.init]
    unfold drainAux produce produceWrapped
    simp [sq.hpending, sq.hargs, unwrap1, drainAux]

end JanetModel.Parse
