/- The physical machine of `Parse/Phys.lean` computes `Parse/Model.lean`'s functions (`*_p`) and none of its checked
   memory accesses fails on a well-formed parser (`*_safe`). -/
import JanetModel.Parse.Phys
import JanetModel.Parse.StrIdxLemmas
import JanetModel.Parse.Queue
import JanetModel.Parse.Pure
import JanetModel.Parse.EofClean

namespace JanetModel.Parse
open JanetModel.Gen.Parse

/-! ### primitives: content, fault, generation -/

@[simp] theorem chk_p (m : MP) (b : Bool) : (m.chk b).p = m.p := rfl
@[simp] theorem chk_sgen (m : MP) (b : Bool) : (m.chk b).sgen = m.sgen := rfl
@[simp] theorem chk_k (m : MP) (b : Bool) : (m.chk b).k = m.k := rfl
theorem chk_fault (m : MP) (b : Bool) : (m.chk b).fault = (m.fault || !b) := rfl
@[simp] theorem chk_true (m : MP) : m.chk true = m := by
  obtain ⟨p, k, g, f, h⟩ := m
  simp [MP.chk]

@[simp] theorem scal_p (m : MP) (f : Parser → Parser) (h) : (m.scal f h).p = f m.p := rfl
@[simp] theorem scal_sgen (m : MP) (f : Parser → Parser) (h) : (m.scal f h).sgen = m.sgen := rfl
@[simp] theorem scal_fault (m : MP) (f : Parser → Parser) (h) : (m.scal f h).fault = m.fault := rfl
@[simp] theorem scal_k (m : MP) (f : Parser → Parser) (h) : (m.scal f h).k = m.k := rfl

@[simp] theorem pushBufM_p (m : MP) (c : B) : (pushBufM m c).p = pushBuf m.p c := rfl
@[simp] theorem pushBufM_sgen (m : MP) (c : B) : (pushBufM m c).sgen = m.sgen := rfl
/-- the write of `push_buf` is always inside the block -/
@[simp] theorem pushBufM_fault (m : MP) (c : B) : (pushBufM m c).fault = m.fault := by
  have := growCap_fits m.k.buf m.p.buf.length
  simp [pushBufM]; intro _; omega

@[simp] theorem pushArgM_p (m : MP) (v : Value) : (pushArgM m v).p = { m.p with args := v :: m.p.args } := rfl
@[simp] theorem pushArgM_sgen (m : MP) (v : Value) : (pushArgM m v).sgen = m.sgen := rfl
/-- the write of `push_arg` is always inside the block -/
@[simp] theorem pushArgM_fault (m : MP) (v : Value) : (pushArgM m v).fault = m.fault := by
  have := growCap_fits m.k.args m.p.args.length
  simp [pushArgM]; intro _; omega

@[simp] theorem pushstateM_p (m : MP) (cn : Consumer) (fl : Nat) : (pushstateM m cn fl).p = pushstate m.p cn fl := rfl
/-- the write of `_pushstate` is always inside the block -/
@[simp] theorem pushstateM_fault (m : MP) (cn : Consumer) (fl : Nat) : (pushstateM m cn fl).fault = m.fault := by
  have := growCap_fits m.k.states m.p.states.length
  simp [pushstateM, pushStateRawM]; intro _; omega

@[simp] theorem clearBufM_p (m : MP) : (clearBufM m).p = { m.p with buf := [] } := rfl
@[simp] theorem clearBufM_sgen (m : MP) : (clearBufM m).sgen = m.sgen := rfl
@[simp] theorem clearBufM_fault (m : MP) : (clearBufM m).fault = m.fault := rfl

@[simp] theorem decStateM_p (m : MP) : (decStateM m).p = { m.p with states := m.p.states.drop 1 } := rfl
@[simp] theorem decStateM_sgen (m : MP) : (decStateM m).sgen = m.sgen := rfl
theorem decStateM_fault (m : MP) : (decStateM m).fault = (m.fault || !decide (0 < m.p.states.length)) := rfl

@[simp] theorem popArgsM_1 (m : MP) (n : Nat) : (popArgsM m n).1 = (m.p.args.take n).reverse := rfl
@[simp] theorem popArgsM_p (m : MP) (n : Nat) : (popArgsM m n).2.p = { m.p with args := m.p.args.drop n } := rfl
@[simp] theorem popArgsM_sgen (m : MP) (n : Nat) : (popArgsM m n).2.sgen = m.sgen := rfl
theorem popArgsM_fault (m : MP) (n : Nat) : (popArgsM m n).2.fault = (m.fault || !decide (n ≤ m.p.args.length)) := rfl

@[simp] theorem setErrorM_p (m : MP) (e : String) : (setErrorM m e).p = { m.p with error := some e } := rfl
@[simp] theorem setErrorM_fault (m : MP) (e : String) : (setErrorM m e).fault = m.fault := rfl
@[simp] theorem setErrorM_sgen (m : MP) (e : String) : (setErrorM m e).sgen = m.sgen := rfl

@[simp] theorem delimErrorM_p (m : MP) (i : Nat) (c : Option B) (msg : String) : (delimErrorM m i c msg).p = delimError m.p i c msg := rfl
theorem delimErrorM_fault (m : MP) (i : Nat) (c : Option B) (msg : String) :
    (delimErrorM m i c msg).fault = (m.fault || !(i == 0 || decide (i < m.p.states.length))) := rfl

/-! ### the `state` pointer -/

/-- `sp` is the pointer the consume loop computed: current block, top frame -/
def IsTop (m : MP) (sp : SPtr) : Prop := sp.gen = m.sgen ∧ sp.idx + 1 = m.p.states.length

theorem isTop_topPtr {m : MP} (h : m.p.states ≠ []) : IsTop m (topPtr m) := by
  refine ⟨rfl, ?_⟩
  have : 0 < m.p.states.length := List.length_pos_iff.mpr h
  simp [topPtr]; omega

theorem IsTop.congr {m m' : MP} {sp : SPtr} (h : IsTop m sp) (h1 : m'.sgen = m.sgen) (h2 : m'.p.states.length = m.p.states.length) :
    IsTop m' sp := ⟨by rw [h1]; exact h.1, by rw [h2]; exact h.2⟩

theorem IsTop.deref {m : MP} {sp : SPtr} (h : IsTop m sp) : derefOk m sp = true := by
  obtain ⟨h1, h2⟩ := h
  simp [derefOk, h1]; omega

theorem IsTop.read {m : MP} {sp : SPtr} (h : IsTop m sp) : readState m sp = m.p.states.headD default := by
  obtain ⟨_, h2⟩ := h
  have : m.p.states.length - 1 - sp.idx = 0 := by omega
  unfold readState
  rw [this]
  cases m.p.states <;> rfl

theorem setTop_states (p : Parser) (f : Frame → Frame) : (setTop p f).states = modifyFrame p.states 0 f := by
  unfold setTop
  cases h : p.states <;> simp [modifyFrame, h]

theorem setTop_eq (p : Parser) (f : Frame → Frame) : setTop p f = { p with states := modifyFrame p.states 0 f } := by
  unfold setTop
  cases h : p.states with
  | nil => obtain ⟨a, e, s, b, l, c, pe, lb, fl⟩ := p; simp at h; subst h; rfl
  | cons s r => simp [modifyFrame]

theorem IsTop.write_p {m : MP} {sp : SPtr} (h : IsTop m sp) (f : Frame → Frame) : (writeState m sp f).p = setTop m.p f := by
  obtain ⟨_, h2⟩ := h
  have : m.p.states.length - 1 - sp.idx = 0 := by omega
  rw [setTop_eq]
  simp [writeState, this]

theorem IsTop.write_fault {m : MP} {sp : SPtr} (h : IsTop m sp) (f : Frame → Frame) : (writeState m sp f).fault = m.fault := by
  simp [writeState, h.deref]

@[simp] theorem writeState_sgen (m : MP) (sp : SPtr) (f : Frame → Frame) : (writeState m sp f).sgen = m.sgen := rfl

theorem writeState_len (m : MP) (sp : SPtr) (f : Frame → Frame) : (writeState m sp f).p.states.length = m.p.states.length := by
  simp [writeState, modifyFrame_len]

theorem IsTop.write {m : MP} {sp : SPtr} (h : IsTop m sp) (f : Frame → Frame) : IsTop (writeState m sp f) sp :=
  h.congr rfl (writeState_len m sp f)

theorem IsTop.pushBuf {m : MP} {sp : SPtr} (h : IsTop m sp) (c : B) : IsTop (pushBufM m c) sp := h.congr rfl rfl

theorem setTop_len (p : Parser) (f : Frame → Frame) : (setTop p f).states.length = p.states.length := by
  rw [setTop_states, modifyFrame_len]

/-! ### pushBytesM -/

theorem pushBytesM_p : ∀ (bs : List B) (m : MP), (pushBytesM m bs).p = { m.p with buf := m.p.buf ++ bs }
  | [], m => by simp [pushBytesM]
  | b :: bs, m => by
    have ih := pushBytesM_p bs (pushBufM m b)
    simp only [pushBytesM, List.foldl_cons] at ih ⊢
    rw [ih]; simp [pushBuf]

theorem pushBytesM_fault : ∀ (bs : List B) (m : MP), (pushBytesM m bs).fault = m.fault
  | [], m => rfl
  | b :: bs, m => by
    have ih := pushBytesM_fault bs (pushBufM m b)
    simp only [pushBytesM, List.foldl_cons] at ih ⊢
    rw [ih]; simp

theorem pushBytesM_sgen : ∀ (bs : List B) (m : MP), (pushBytesM m bs).sgen = m.sgen
  | [], m => rfl
  | b :: bs, m => by
    have ih := pushBytesM_sgen bs (pushBufM m b)
    simp only [pushBytesM, List.foldl_cons] at ih ⊢
    rw [ih]; simp

theorem IsTop.pushBytes {m : MP} {sp : SPtr} (h : IsTop m sp) (bs : List B) : IsTop (pushBytesM m bs) sp :=
  h.congr (pushBytesM_sgen bs m) (by rw [pushBytesM_p])

/-! ### popstate -/

theorem default_flags : (default : Frame).flags = 0 := rfl

theorem hasFlag_zero (f : Nat) : hasFlag 0 f = false := by simp [hasFlag]

@[simp] theorem topPtr_chk (m : MP) (b : Bool) : topPtr (m.chk b) = topPtr m := rfl

@[simp] theorem readState_chk (m : MP) (b : Bool) (sp : SPtr) : readState (m.chk b) sp = readState m sp := rfl
@[simp] theorem derefOk_chk (m : MP) (b : Bool) (sp : SPtr) : derefOk (m.chk b) sp = derefOk m sp := rfl

theorem derefOk_topPtr {m : MP} (h : m.p.states ≠ []) : derefOk m (topPtr m) = true := (isTop_topPtr h).deref

theorem readState_topPtr (m : MP) : readState m (topPtr m) = m.p.states.headD default := by
  have : m.p.states.length - 1 - (topPtr m).idx = 0 := by simp [topPtr]
  unfold readState
  rw [this]
  cases m.p.states <;> rfl

theorem writeState_topPtr_p (m : MP) (f : Frame → Frame) : (writeState m (topPtr m) f).p = setTop m.p f := by
  have : m.p.states.length - 1 - (topPtr m).idx = 0 := by simp [topPtr]
  rw [setTop_eq]
  simp [writeState, this]

theorem popstate_nil (p : Parser) (v : Value) (h : p.states = []) : popstate p v = p := by
  obtain ⟨a, e, s, b, l, c, pe, lb, fl⟩ := p
  simp at h; subst h
  simp [popstate, popstateAux]

theorem popstate_one (p : Parser) (v : Value) (t : Frame) (h : p.states = [t]) : popstate p v = { p with states := [] } := by
  obtain ⟨a, e, s, b, l, c, pe, lb, fl⟩ := p
  simp at h; subst h
  simp [popstate, popstateAux]

theorem popstateM_p : ∀ (fuel : Nat) (m : MP) (v : Value), m.p.states.length ≤ fuel → (popstateM fuel m v).p = popstate m.p v := by
  intro fuel
  induction fuel with
  | zero =>
    intro m v h
    have : m.p.states = [] := List.length_eq_zero_iff.mp (Nat.le_zero.mp h)
    rw [popstate_nil _ _ this]; rfl
  | succ n ih =>
    intro m v h
    cases hs : m.p.states with
    | nil =>
      rw [popstate_nil _ _ hs]
      have h1 : (decStateM m).p.states = [] := by simp [hs]
      simp only [popstateM, readState_chk, readState_topPtr, chk_p, h1, List.headD_nil, default_flags, hasFlag_zero]
      obtain ⟨⟨a, e, s, b, l, c, pe, lb, fl⟩, k, g, f, hk⟩ := m
      simp at hs; subst hs; simp
    | cons top rest =>
      cases rest with
      | nil =>
        rw [popstate_one _ _ _ hs]
        have h1 : (decStateM m).p.states = [] := by simp [hs]
        simp only [popstateM, readState_chk, readState_topPtr, chk_p, h1, List.headD_nil, default_flags, hasFlag_zero]
        simp [hs]
      | cons newtop rest' =>
        have hlen : (newtop :: rest').length ≤ n := by rw [hs] at h; simp at h ⊢; omega
        have h1 : (decStateM m).p.states = newtop :: rest' := by simp [hs]
        have hne : (decStateM m).p.states ≠ [] := by rw [h1]; simp
        simp only [popstateM, derefOk_topPtr hne, chk_true, readState_topPtr, h1, List.headD_cons, hs]
        rw [popstate]
        simp only [hs, popstateAux]
        have hw := writeState_topPtr_p (decStateM m) (fun s => { s with argn := s.argn + 1 })
        have hst : setTop (decStateM m).p (fun s => { s with argn := s.argn + 1 })
            = { m.p with states := { newtop with argn := newtop.argn + 1 } :: rest' } := by simp [setTop, hs]
        rw [hst] at hw
        by_cases hc : hasFlag newtop.flags PFLAG_CONTAINER = true
        · simp only [hc, if_true]
          cases rest' with
          | nil => simp [hw]
          | cons r2 r3 => simp [hw]
        · simp only [hc, Bool.false_eq_true, if_false]
          by_cases hm : hasFlag newtop.flags PFLAG_READERMAC = true
          · simp only [hm, if_true]
            rw [ih _ _ (by rw [h1]; exact hlen)]
            simp [popstate, hs]
          · simp [hm, hs]

theorem writeState_topPtr_fault {m : MP} (h : m.p.states ≠ []) (f : Frame → Frame) : (writeState m (topPtr m) f).fault = m.fault :=
  (isTop_topPtr h).write_fault f

/-- `popstate` never pops the root frame and never reads below the stack: needs only the frame-stack shape -/
theorem popstateM_safe : ∀ (fuel : Nat) (m : MP) (v : Value), m.p.states.length ≤ fuel → okFrames m.p.states = true →
    2 ≤ m.p.states.length → (popstateM fuel m v).fault = m.fault := by
  intro fuel
  induction fuel with
  | zero => intro m v h _ h2; omega
  | succ n ih =>
    intro m v h hok h2
    cases hs : m.p.states with
    | nil => rw [hs] at h2; simp at h2
    | cons top rest =>
      cases rest with
      | nil => rw [hs] at h2; simp at h2
      | cons newtop rest' =>
        have hlen : (newtop :: rest').length ≤ n := by rw [hs] at h; simp at h ⊢; omega
        have h1 : (decStateM m).p.states = newtop :: rest' := by simp [hs]
        have hne : (decStateM m).p.states ≠ [] := by rw [h1]; simp
        have hf1 : (decStateM m).fault = m.fault := by simp [decStateM_fault, hs]
        rw [hs, okFrames_cons (by simp)] at hok
        simp only [Bool.and_eq_true] at hok
        simp only [popstateM, derefOk_topPtr hne, chk_true, readState_topPtr, h1, List.headD_cons, hs]
        by_cases hc : hasFlag newtop.flags PFLAG_CONTAINER = true
        · simp only [hc, if_true]
          split <;> simp [writeState_topPtr_fault hne, hf1]
        · simp only [hc, Bool.false_eq_true, if_false]
          by_cases hm : hasFlag newtop.flags PFLAG_READERMAC = true
          · simp only [hm, if_true]
            have hr : rest' ≠ [] := by
              intro hr; subst hr
              have := hok.2
              simp [okFrames, isCont, hc] at this
            rw [ih _ _ (by rw [h1]; exact hlen) (by rw [h1]; exact hok.2)
              (by rw [h1]; cases rest' with
                | nil => exact absurd rfl hr
                | cons a b => simp), hf1]
          · simp [hm, hf1]

/-! ### consumers -/

@[simp] theorem isTop_write_iff (m : MP) (sp sp' : SPtr) (f : Frame → Frame) : IsTop (writeState m sp' f) sp ↔ IsTop m sp := by
  simp [IsTop, writeState_len]
@[simp] theorem isTop_pushBuf_iff (m : MP) (sp : SPtr) (c : B) : IsTop (pushBufM m c) sp ↔ IsTop m sp := Iff.rfl
@[simp] theorem isTop_chk_iff (m : MP) (sp : SPtr) (b : Bool) : IsTop (m.chk b) sp ↔ IsTop m sp := Iff.rfl
@[simp] theorem isTop_setError_iff (m : MP) (sp : SPtr) (e : String) : IsTop (setErrorM m e) sp ↔ IsTop m sp := Iff.rfl
@[simp] theorem isTop_clearBuf_iff (m : MP) (sp : SPtr) : IsTop (clearBufM m) sp ↔ IsTop m sp := Iff.rfl
@[simp] theorem isTop_pushBytes_iff (m : MP) (sp : SPtr) (bs : List B) : IsTop (pushBytesM m bs) sp ↔ IsTop m sp := by
  simp [IsTop, pushBytesM_sgen, pushBytesM_p]

theorem escapehM_p {m : MP} {sp : SPtr} (h : IsTop m sp) {s : Frame} {rest : List Frame} (hs : m.p.states = s :: rest) (c : B) :
    (escapehM m sp c).1.p = (escapeh m.p s c).1 ∧ (escapehM m sp c).2 = (escapeh m.p s c).2 := by
  unfold escapehM escapeh
  cases toHex c with
  | none => simp
  | some d =>
    simp only [IsTop.read, IsTop.write_p, h, isTop_write_iff, isTop_pushBuf_iff, setTop, hs, List.headD_cons]
    by_cases hcnt : (s.counter - 1 == 0) = true
    · simp [hcnt, IsTop.write_p, h, setTop, hs, pushBuf]
    · simp [hcnt, IsTop.write_p, h, setTop, hs]

theorem escapehM_safe {m : MP} {sp : SPtr} (h : IsTop m sp) (c : B) : (escapehM m sp c).1.fault = m.fault := by
  unfold escapehM
  cases toHex c with
  | none => simp
  | some d =>
    simp only []
    split <;> simp [IsTop.write_fault, h]

theorem escapeuM_p {m : MP} {sp : SPtr} (h : IsTop m sp) {s : Frame} {rest : List Frame} (hs : m.p.states = s :: rest) (c : B) :
    (escapeuM m sp c).1.p = (escapeu m.p s c).1 ∧ (escapeuM m sp c).2 = (escapeu m.p s c).2 := by
  unfold escapeuM escapeu
  cases toHex c with
  | none => simp
  | some d =>
    simp only [IsTop.read, IsTop.write_p, h, isTop_write_iff, isTop_pushBuf_iff, setTop, hs, List.headD_cons]
    by_cases hcnt : (s.counter - 1 == 0) = true
    · by_cases hcp : s.argn <<< 4 + d > maxCodepoint
      · simp [hcnt, hcp, IsTop.write_p, h, setTop, hs]
      · simp [hcnt, hcp, IsTop.write_p, h, setTop, hs, pushBytesM_p]
    · simp [hcnt, IsTop.write_p, h, setTop, hs]

theorem escapeuM_safe {m : MP} {sp : SPtr} (h : IsTop m sp) (c : B) : (escapeuM m sp c).1.fault = m.fault := by
  unfold escapeuM
  cases toHex c with
  | none => simp
  | some d =>
    simp only []
    split
    · split <;> simp [IsTop.write_fault, h, pushBytesM_fault]
    · simp [IsTop.write_fault, h]

theorem escape1M_p {m : MP} {sp : SPtr} (h : IsTop m sp) {s : Frame} {rest : List Frame} (hs : m.p.states = s :: rest) (c : B) :
    (escape1M m sp c).1.p = (escape1 m.p s c).1 ∧ (escape1M m sp c).2 = (escape1 m.p s c).2 := by
  unfold escape1M escape1
  by_cases h1 : (c == 120) = true
  · simp [h1, IsTop.write_p, h, setTop, hs]
  · by_cases h2 : (c == 117 || c == 85) = true
    · simp only [h1, h2, if_true, Bool.false_eq_true, if_false]
      simp [IsTop.write_p, h, setTop, hs]
    · simp only [h1, h2, Bool.false_eq_true, if_false]
      cases checkEscape c with
      | none => simp
      | some e => simp [IsTop.write_p, h, setTop, hs, pushBuf]

theorem escape1M_safe {m : MP} {sp : SPtr} (h : IsTop m sp) (c : B) : (escape1M m sp c).1.fault = m.fault := by
  unfold escape1M
  split
  · simp [IsTop.write_fault, h]
  · split
    · simp [IsTop.write_fault, h]
    · cases checkEscape c with
      | none => simp
      | some e => simp [IsTop.write_fault, h]

theorem stringendM_p {m : MP} {sp : SPtr} (h : IsTop m sp) {s : Frame} {rest : List Frame} (hs : m.p.states = s :: rest) :
    (stringendM m sp).p = stringend m.p s := by
  have hr : readState m sp = s := by rw [h.read, hs]; rfl
  unfold stringendM stringend
  simp only [h.deref, chk_true, hr, hs, List.headD_cons, dedentI_spec, Bool.or_true, chk_p]
  rw [popstateM_p _ _ _ (by simp [hs])]
  simp [hs]

theorem stringendM_safe {m : MP} {sp : SPtr} (h : IsTop m sp) (hok : okFrames m.p.states = true) (h2 : 2 ≤ m.p.states.length) :
    (stringendM m sp).fault = m.fault := by
  unfold stringendM
  simp only [h.deref, chk_true, dedentI_spec, Bool.or_true]
  exact popstateM_safe _ (clearBufM m) _ (Nat.le_refl _) hok h2

theorem two_frames {s : Frame} {rest : List Frame} (hok : okFrames (s :: rest) = true) (hc : s.consumer ≠ .root) :
    2 ≤ (s :: rest).length := by
  have := (nonroot_top hok hc).1
  cases rest with
  | nil => exact absurd rfl this
  | cons a b => simp

theorem stringcharM_p {m : MP} {sp : SPtr} (h : IsTop m sp) {s : Frame} {rest : List Frame} (hs : m.p.states = s :: rest) (c : B) :
    (stringcharM m sp c).1.p = (stringchar m.p s c).1 ∧ (stringcharM m sp c).2 = (stringchar m.p s c).2 := by
  unfold stringcharM stringchar
  by_cases h1 : (c == 92) = true
  · simp [h1, IsTop.write_p, h]
  · by_cases h2 : (c == 34) = true
    · simp [h1, h2, stringendM_p h hs]
    · by_cases h3 : (c != 10 && c != 13) = true
      · simp [h1, h2, h3]
      · simp [h1, h2, h3]

theorem stringcharM_safe {m : MP} {sp : SPtr} (h : IsTop m sp) {s : Frame} {rest : List Frame} (hs : m.p.states = s :: rest)
    (hok : okFrames m.p.states = true) (hc : s.consumer ≠ .root) (c : B) : (stringcharM m sp c).1.fault = m.fault := by
  unfold stringcharM
  split
  · simp [IsTop.write_fault, h]
  · split
    · exact stringendM_safe h hok (by rw [hs]; rw [hs] at hok; exact two_frames hok hc)
    · split <;> simp

theorem commentM_p (m : MP) (sp : SPtr) (s : Frame) (c : B) :
    (commentM m sp c).1.p = (comment m.p s c).1 ∧ (commentM m sp c).2 = (comment m.p s c).2 := by
  unfold commentM comment
  split <;> simp

theorem commentM_safe {m : MP} (sp : SPtr) (hne : m.p.states ≠ []) (c : B) : (commentM m sp c).1.fault = m.fault := by
  have : 0 < m.p.states.length := List.length_pos_iff.mpr hne
  unfold commentM
  split <;> simp [decStateM_fault, this]

theorem atsignM_p (m : MP) (sp : SPtr) (s : Frame) (c : B) :
    (atsignM m sp c).1.p = (atsign m.p s c).1 ∧ (atsignM m sp c).2 = (atsign m.p s c).2 := by
  unfold atsignM atsign
  simp only []
  repeat' split
  all_goals simp [pushBuf, pushstate]

theorem atsignM_safe {m : MP} (sp : SPtr) (hne : m.p.states ≠ []) (c : B) : (atsignM m sp c).1.fault = m.fault := by
  have : 0 < m.p.states.length := List.length_pos_iff.mpr hne
  unfold atsignM
  simp only []
  repeat' split
  all_goals simp [decStateM_fault, this]

theorem tokencharM_p (scan : List B → Option String) {m : MP} {sp : SPtr} (h : IsTop m sp) {s : Frame} {rest : List Frame}
    (hs : m.p.states = s :: rest) (c : B) :
    (tokencharM scan m sp c).1.p = (tokenchar scan m.p s c).1 ∧ (tokencharM scan m sp c).2 = (tokenchar scan m.p s c).2 := by
  have hr : readState m sp = s := by rw [h.read, hs]; rfl
  unfold tokencharM tokenchar
  by_cases h1 : isSymbolChar c = true
  · simp only [h1, if_true]
    by_cases h2 : c > 127
    · simp [h2, IsTop.write_p, h]
    · simp [h2]
  · simp only [h1, Bool.false_eq_true, if_false, chk_p, readState_chk, hr]
    cases classifyToken scan m.p.buf (s.argn != 0) with
    | error e => simp
    | ok v =>
      simp only []
      rw [popstateM_p _ _ _ (by simp)]
      simp

theorem tokencharM_safe (scan : List B → Option String) {m : MP} {sp : SPtr} (h : IsTop m sp) {s : Frame} {rest : List Frame}
    (hs : m.p.states = s :: rest) (hok : okFrames m.p.states = true) (hc : s.consumer ≠ .root) (c : B)
    (hb : m.p.buf ≠ [] ∨ isSymbolChar c = true) : (tokencharM scan m sp c).1.fault = m.fault := by
  unfold tokencharM
  by_cases h1 : isSymbolChar c = true
  · simp only [h1, if_true]
    split <;> simp [IsTop.write_fault, h]
  · have hbuf : 0 < m.p.buf.length := by
      rcases hb with hb | hb
      · exact List.length_pos_iff.mpr hb
      · exact absurd hb h1
    simp only [h1, Bool.false_eq_true, if_false, hbuf, decide_true, chk_true, h.deref]
    cases classifyToken scan m.p.buf ((readState m sp).argn != 0) with
    | error e => simp
    | ok v =>
      simp only []
      have h2 : 2 ≤ m.p.states.length := by rw [hs]; rw [hs] at hok; exact two_frames hok hc
      exact popstateM_safe _ (clearBufM m) _ (Nat.le_refl _) hok h2

theorem longstringM_p {m : MP} {sp : SPtr} (h : IsTop m sp) {s : Frame} {rest : List Frame} (hs : m.p.states = s :: rest) (c : B) :
    (longstringM m sp c).1.p = (longstring m.p s c).1 ∧ (longstringM m sp c).2 = (longstring m.p s c).2 := by
  have hr : readState m sp = s := by rw [h.read, hs]; rfl
  unfold longstringM longstring
  simp only [h.deref, chk_true, hr]
  by_cases h1 : hasFlag s.flags PFLAG_INSTRING = true
  · simp only [h1, if_true]
    by_cases h2 : (c == 96) = true
    · simp [h2, IsTop.write_p, h, setTop, hs]
    · simp [h2]
  · simp only [h1, Bool.false_eq_true, if_false]
    by_cases h2 : hasFlag s.flags PFLAG_END_CANDIDATE = true
    · simp only [h2, if_true]
      by_cases h3 : (s.counter == s.argn) = true
      · simp [h3, stringendM_p h hs]
      · simp only [h3, Bool.false_eq_true, if_false]
        by_cases h4 : (c == 96 && decide (s.counter < s.argn)) = true
        · simp [h4, IsTop.write_p, h]
        · simp [h4, IsTop.write_p, h, setTop, hs, pushBytesM_p, pushBuf]
    · simp only [h2, Bool.false_eq_true, if_false]
      by_cases h3 : (c != 96) = true
      · simp [h3, IsTop.write_p, h, setTop, hs, pushBuf]
      · simp [h3, IsTop.write_p, h]

theorem longstringM_safe {m : MP} {sp : SPtr} (h : IsTop m sp) {s : Frame} {rest : List Frame} (hs : m.p.states = s :: rest)
    (hok : okFrames m.p.states = true) (hc : s.consumer ≠ .root) (c : B) : (longstringM m sp c).1.fault = m.fault := by
  unfold longstringM
  simp only [h.deref, chk_true]
  split
  · split <;> simp [IsTop.write_fault, h]
  · split
    · split
      · exact stringendM_safe h hok (by rw [hs]; rw [hs] at hok; exact two_frames hok hc)
      · split <;> simp [IsTop.write_fault, h, pushBytesM_fault]
    · split <;> simp [IsTop.write_fault, h]

theorem closeDelimM_p {m : MP} {sp : SPtr} (h : IsTop m sp) {s : Frame} {rest : List Frame} (hs : m.p.states = s :: rest) (c : B) :
    (closeDelimM m sp c).1.p = (closeDelim m.p s c).1 ∧ (closeDelimM m sp c).2 = (closeDelim m.p s c).2 := by
  have hr : readState m sp = s := by rw [h.read, hs]; rfl
  unfold closeDelimM closeDelim
  by_cases h1 : (m.p.states.length == 1) = true
  · simp [h1]
  · simp only [h1, Bool.false_eq_true, if_false, h.deref, chk_true, hr]
    by_cases h2 : ((c == 41 && hasFlag s.flags PFLAG_PARENS) || (c == 93 && hasFlag s.flags PFLAG_SQRBRACKETS)) = true
    · simp only [h2, if_true, takeArgs]
      rw [popstateM_p _ _ _ (by simp)]
      simp
    · simp only [h2, Bool.false_eq_true, if_false]
      by_cases h3 : (c == 125 && hasFlag s.flags PFLAG_CURLYBRACKETS) = true
      · simp only [h3, if_true]
        by_cases h4 : (s.argn % 2 == 1) = true
        · simp [h4]
        · simp only [h4, Bool.false_eq_true, if_false, takeArgs]
          rw [popstateM_p _ _ _ (by simp)]
          simp
      · simp [h3]

theorem closeDelimM_safe {m : MP} {sp : SPtr} (h : IsTop m sp) {s : Frame} {rest : List Frame} (hs : m.p.states = s :: rest)
    (hok : okFrames m.p.states = true) (hargs : 2 ≤ m.p.states.length → s.argn ≤ m.p.args.length) (c : B) :
    (closeDelimM m sp c).1.fault = m.fault := by
  have hr : readState m sp = s := by rw [h.read, hs]; rfl
  have hpos : 0 < m.p.states.length := by rw [hs]; simp
  unfold closeDelimM
  by_cases h1 : (m.p.states.length == 1) = true
  · simp [h1, delimErrorM_fault]
  · have h2l : 2 ≤ m.p.states.length := by
      have : m.p.states.length ≠ 1 := by simpa using h1
      omega
    have ha := hargs h2l
    have hpf : (popArgsM m s.argn).2.fault = m.fault := by simp [popArgsM_fault, ha]
    simp only [h1, Bool.false_eq_true, if_false, h.deref, chk_true, hr]
    split
    · simp only []
      rw [popstateM_safe _ (popArgsM m s.argn).2 _ (Nat.le_refl _) hok h2l, hpf]
    · split
      · split
        · simp
        · simp only []
          rw [popstateM_safe _ (popArgsM m s.argn).2 _ (Nat.le_refl _) hok h2l, hpf]
      · have : m.p.states.length - 1 < m.p.states.length := by omega
        simp [delimErrorM_fault, this]

theorem rootM_p {m : MP} {sp : SPtr} (h : IsTop m sp) {s : Frame} {rest : List Frame} (hs : m.p.states = s :: rest) (c : B) :
    (rootM m sp c).1.p = (root m.p s c).1 ∧ (rootM m sp c).2 = (root m.p s c).2 := by
  unfold rootM root
  by_cases g1 : (c == 39 || c == 44 || c == 59 || c == 126 || c == 124) = true
  · simp only [g1, if_true]; try simp
  simp only [g1, Bool.false_eq_true, if_false]
  by_cases g2 : (c == 34) = true
  · simp only [g2, if_true]; try simp
  simp only [g2, Bool.false_eq_true, if_false]
  by_cases g3 : (c == 35) = true
  · simp only [g3, if_true]; try simp
  simp only [g3, Bool.false_eq_true, if_false]
  by_cases g4 : (c == 64) = true
  · simp only [g4, if_true]; try simp
  simp only [g4, Bool.false_eq_true, if_false]
  by_cases g5 : (c == 96) = true
  · simp only [g5, if_true]; try simp
  simp only [g5, Bool.false_eq_true, if_false]
  by_cases g6 : (c == 41 || c == 93 || c == 125) = true
  · simp only [g6, if_true]; exact closeDelimM_p h hs c
  simp only [g6, Bool.false_eq_true, if_false]
  by_cases g7 : (c == 40) = true
  · simp only [g7, if_true]; try simp
  simp only [g7, Bool.false_eq_true, if_false]
  by_cases g8 : (c == 91) = true
  · simp only [g8, if_true]; try simp
  simp only [g8, Bool.false_eq_true, if_false]
  by_cases g9 : (c == 123) = true
  · simp only [g9, if_true]; try simp
  simp only [g9, Bool.false_eq_true, if_false]
  by_cases g10 : isWhitespace c = true
  · simp only [g10, if_true]; try simp
  simp only [g10, Bool.false_eq_true, if_false]
  by_cases g11 : (!isSymbolChar c) = true
  · simp only [g11, if_true]; try simp
  simp only [g11, Bool.false_eq_true, if_false]
  simp

theorem rootM_safe {m : MP} {sp : SPtr} (h : IsTop m sp) {s : Frame} {rest : List Frame} (hs : m.p.states = s :: rest)
    (hok : okFrames m.p.states = true) (hargs : 2 ≤ m.p.states.length → s.argn ≤ m.p.args.length) (c : B) :
    (rootM m sp c).1.fault = m.fault := by
  unfold rootM
  by_cases g1 : (c == 39 || c == 44 || c == 59 || c == 126 || c == 124) = true
  · simp only [g1, if_true]; try simp
  simp only [g1, Bool.false_eq_true, if_false]
  by_cases g2 : (c == 34) = true
  · simp only [g2, if_true]; try simp
  simp only [g2, Bool.false_eq_true, if_false]
  by_cases g3 : (c == 35) = true
  · simp only [g3, if_true]; try simp
  simp only [g3, Bool.false_eq_true, if_false]
  by_cases g4 : (c == 64) = true
  · simp only [g4, if_true]; try simp
  simp only [g4, Bool.false_eq_true, if_false]
  by_cases g5 : (c == 96) = true
  · simp only [g5, if_true]; try simp
  simp only [g5, Bool.false_eq_true, if_false]
  by_cases g6 : (c == 41 || c == 93 || c == 125) = true
  · simp only [g6, if_true]; exact closeDelimM_safe h hs hok hargs c
  simp only [g6, Bool.false_eq_true, if_false]
  by_cases g7 : (c == 40) = true
  · simp only [g7, if_true]; try simp
  simp only [g7, Bool.false_eq_true, if_false]
  by_cases g8 : (c == 91) = true
  · simp only [g8, if_true]; try simp
  simp only [g8, Bool.false_eq_true, if_false]
  by_cases g9 : (c == 123) = true
  · simp only [g9, if_true]; try simp
  simp only [g9, Bool.false_eq_true, if_false]
  by_cases g10 : isWhitespace c = true
  · simp only [g10, if_true]; try simp
  simp only [g10, Bool.false_eq_true, if_false]
  by_cases g11 : (!isSymbolChar c) = true
  · simp only [g11, if_true]; try simp
  simp only [g11, Bool.false_eq_true, if_false]
  simp

/-! ### one loop iteration -/

theorem stepM_p (scan : List B → Option String) (m : MP) (c : B) (hne : m.p.states ≠ []) :
    (stepM scan m c).1.p = (step scan m.p c).1 ∧ (stepM scan m c).2 = (step scan m.p c).2 := by
  have h := isTop_topPtr hne
  cases hs : m.p.states with
  | nil => exact absurd hs hne
  | cons s rest =>
    have hr : readState m (topPtr m) = s := by rw [h.read, hs]; rfl
    unfold stepM step
    simp only [h.deref, chk_true, hr, hs]
    cases hc : s.consumer <;> simp only []
    · exact rootM_p h hs c
    · exact tokencharM_p scan h hs c
    · exact stringcharM_p h hs c
    · exact escape1M_p h hs c
    · exact escapehM_p h hs c
    · exact escapeuM_p h hs c
    · exact longstringM_p h hs c
    · exact commentM_p m _ s c
    · exact atsignM_p m _ s c

/-- the scratch buffer of a token frame is not empty when the token ends (`p->buf[0]` in `tokenchar`) -/
def TokB (p : Parser) (c : B) : Prop :=
  ∀ s rest, p.states = s :: rest → s.consumer = .tokenchar → p.buf ≠ [] ∨ isSymbolChar c = true

theorem wf_top_argn {p : Parser} (hwf : WF p) {s : Frame} {rest : List Frame} (hs : p.states = s :: rest)
    (hc : s.consumer = .root) (h2 : 2 ≤ p.states.length) : s.argn ≤ p.args.length := by
  have hsum := hwf.sum
  have hok := hwf.ok
  rw [hs] at hsum hok h2
  cases rest with
  | nil => simp at h2
  | cons g l =>
    rw [inner_cons (by simp)] at hsum
    rw [okFrames_cons (by simp)] at hok
    simp only [Bool.and_eq_true] at hok
    cases hcont : isCont s with
    | true => simp [hcont] at hsum; omega
    | false =>
      have := hok.1
      simp [okF, hcont, hc] at this
      omega

/-- ★ no checked access of one consumer call fails on a well-formed parser -/
theorem stepM_safe (scan : List B → Option String) (m : MP) (c : B) (hwf : WF m.p) (ht : TokB m.p c) :
    (stepM scan m c).1.fault = m.fault := by
  have hne : m.p.states ≠ [] := okFrames_ne_nil hwf.ok
  have h := isTop_topPtr hne
  cases hs : m.p.states with
  | nil => exact absurd hs hne
  | cons s rest =>
    have hr : readState m (topPtr m) = s := by rw [h.read, hs]; rfl
    have hok := hwf.ok
    unfold stepM
    simp only [h.deref, chk_true, hr]
    cases hc : s.consumer <;> simp only []
    · exact rootM_safe h hs hok (fun h2 => wf_top_argn hwf hs hc h2) c
    · exact tokencharM_safe scan h hs hok (by rw [hc]; decide) c (ht s rest hs hc)
    · exact stringcharM_safe h hs hok (by rw [hc]; decide) c
    · exact escape1M_safe h c
    · exact escapehM_safe h c
    · exact escapeuM_safe h c
    · exact longstringM_safe h hs hok (by rw [hc]; decide) c
    · exact commentM_safe _ hne c
    · exact atsignM_safe _ hne c

end JanetModel.Parse
