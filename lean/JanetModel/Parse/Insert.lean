/- `parser/insert` (cfun_parse_insert) keeps the parser well formed: from any `WF` state the frame / argument accounting still
   balances afterwards, so `parser/state`'s frame walk stays inside the argument array -- for all histories of bytes, dequeues,
   queries and inserts.  Regenerated obligation: needs the root-frame test `s == p->states` (`Gen.insertRootTestByFrame`). -/
import JanetModel.Parse.Pure

namespace JanetModel.Parse
open JanetModel.Gen.Parse

/-- first half of `cfun_parse_insert`: a pending token is finished by feeding a space (and the column is put back) -/
def insertPre (scan : List B → Option String) (p : Parser) : Parser × Option String :=
  match p.states with
  | top :: _ =>
    if top.consumer == .tokenchar then
      match checkDead p with
      | some msg => (p, some msg)
      | none => let q := consumeRaw scan p 32; ({ q with column := q.column - 1 }, none)
    else (p, none)
  | [] => (p, none)

/-- second half: push the value into the innermost container frame (skipping a comment frame), or append to a string buffer -/
def insertAt (p : Parser) (v : Value) (vstr : List B) : Parser × Option String :=
  let i := match p.states with
    | top :: _ => if hasFlag top.flags PFLAG_COMMENT then 1 else 0
    | [] => 0
  let s := p.states.getD i default
  if hasFlag s.flags PFLAG_CONTAINER then
    let states := modifyFrame p.states i (fun f => { f with argn := f.argn + 1 })
    let isRoot := if insertRootTestByFrame then i + 1 == p.states.length else p.states.length == 1
    if isRoot then
      ({ p with states := states, pending := p.pending + 1, args := Value.tuple false smNone smNone [v] :: p.args }, none)
    else ({ p with states := states, args := v :: p.args }, none)
  else if hasFlag s.flags (PFLAG_STRING ||| PFLAG_LONGSTRING) then ({ p with buf := p.buf ++ vstr }, none)
  else (p, some "cannot insert value into parser")

theorem insert_eq (scan : List B → Option String) (p : Parser) (v : Value) (vstr : List B) :
    insert scan p v vstr = match insertPre scan p with
      | (p, some e) => (p, some e)
      | (p, none) => insertAt p v vstr := rfl

/-! ### the pushes keep the accounting -/

theorem wf_push_root {r : Frame} {args : List Value} {pending : Nat} (x : Value)
    (hok : okFrames [r] = true) (hsum : inner [r] + pending = args.length) (hroot : rootArgn [r] = pending) :
    okFrames [{ r with argn := r.argn + 1 }] = true ∧ inner [{ r with argn := r.argn + 1 }] + (pending + 1) = (x :: args).length ∧
    rootArgn [{ r with argn := r.argn + 1 }] = pending + 1 := by
  simp only [okFrames, inner, rootArgn, isCont, List.length_cons] at *
  exact ⟨hok, by omega, by omega⟩

theorem wf_push_top {top g : Frame} {l : List Frame} {args : List Value} {pending : Nat} (x : Value)
    (hc : hasFlag top.flags PFLAG_CONTAINER = true)
    (hok : okFrames (top :: g :: l) = true) (hsum : inner (top :: g :: l) + pending = args.length) (hroot : rootArgn (top :: g :: l) = pending) :
    okFrames ({ top with argn := top.argn + 1 } :: g :: l) = true ∧
    inner ({ top with argn := top.argn + 1 } :: g :: l) + pending = (x :: args).length ∧
    rootArgn ({ top with argn := top.argn + 1 } :: g :: l) = pending := by
  have hne : (g :: l) ≠ [] := by simp
  rw [okFrames_cons hne, inner_cons hne, rootArgn_cons hne] at *
  simp only [Bool.and_eq_true, okF, isCont, hc, if_true, List.length_cons] at *
  exact ⟨hok, by omega, hroot⟩

theorem wf_push_second_root {top g : Frame} {args : List Value} {pending : Nat} (x : Value)
    (hok : okFrames [top, g] = true) (hsum : inner [top, g] + pending = args.length) (hroot : rootArgn [top, g] = pending) :
    okFrames [top, { g with argn := g.argn + 1 }] = true ∧ inner [top, { g with argn := g.argn + 1 }] + (pending + 1) = (x :: args).length ∧
    rootArgn [top, { g with argn := g.argn + 1 }] = pending + 1 := by
  simp only [okFrames, inner, rootArgn, isCont, List.length_cons, Bool.and_eq_true] at *
  exact ⟨hok, by omega, by omega⟩

theorem wf_push_second {top g h : Frame} {l : List Frame} {args : List Value} {pending : Nat} (x : Value)
    (hc : hasFlag g.flags PFLAG_CONTAINER = true)
    (hok : okFrames (top :: g :: h :: l) = true) (hsum : inner (top :: g :: h :: l) + pending = args.length)
    (hroot : rootArgn (top :: g :: h :: l) = pending) :
    okFrames (top :: { g with argn := g.argn + 1 } :: h :: l) = true ∧
    inner (top :: { g with argn := g.argn + 1 } :: h :: l) + pending = (x :: args).length ∧
    rootArgn (top :: { g with argn := g.argn + 1 } :: h :: l) = pending := by
  have hne : (h :: l) ≠ [] := by simp
  have hne1 : (g :: h :: l) ≠ [] := by simp
  have hne2 : ({ g with argn := g.argn + 1 } :: h :: l) ≠ [] := by simp
  rw [okFrames_cons hne1, inner_cons hne1, rootArgn_cons hne1, okFrames_cons hne, inner_cons hne, rootArgn_cons hne] at *
  rw [okFrames_cons hne2, inner_cons hne2, rootArgn_cons hne2, okFrames_cons hne, inner_cons hne, rootArgn_cons hne]
  simp only [Bool.and_eq_true, okF, isCont, hc, if_true, List.length_cons] at *
  exact ⟨hok, by omega, hroot⟩

theorem hasFlag_zero (f : Nat) : hasFlag 0 f = false := by simp [hasFlag]

/-- ★ the second half of `parser/insert` keeps `WF` (regenerated: `insertRootTestByFrame`) -/
theorem WF_insertAt {p : Parser} (v : Value) (vstr : List B) (h : WF p) : WF (insertAt p v vstr).1 := by
  have hfix : insertRootTestByFrame = true := by decide
  obtain ⟨args, err, states, buf, line, column, pending, lb, flag⟩ := p
  obtain ⟨hok, hsum, hroot⟩ := h
  simp only at hok hsum hroot
  cases states with
  | nil => simp [okFrames] at hok
  | cons top rest =>
    by_cases hcm : hasFlag top.flags PFLAG_COMMENT = true
    · -- the frame below the comment frame
      cases rest with
      | nil =>
        have hd : hasFlag (default : Frame).flags PFLAG_CONTAINER = false := hasFlag_zero _
        have hd2 : hasFlag (default : Frame).flags (PFLAG_STRING ||| PFLAG_LONGSTRING) = false := hasFlag_zero _
        simp only [insertAt, hcm, if_true, List.getD, List.getElem?_cons_succ, List.getElem?_nil, Option.getD_none, hd, hd2, Bool.false_eq_true, if_false]
        exact ⟨hok, hsum, hroot⟩
      | cons g l =>
        simp only [insertAt, hcm, if_true, List.getD, List.getElem?_cons_succ, List.getElem?_cons_zero, Option.getD_some, hfix, modifyFrame]
        by_cases hc : hasFlag g.flags PFLAG_CONTAINER = true
        · simp only [hc, if_true]
          cases l with
          | nil =>
            have := wf_push_second_root (Value.tuple false smNone smNone [v]) hok hsum hroot
            simp only [List.length_cons, List.length_nil, beq_self_eq_true, if_true]
            exact ⟨this.1, this.2.1, this.2.2⟩
          | cons h l' =>
            have := wf_push_second v hc hok hsum hroot
            have hne : ((1 + 1 == (top :: g :: h :: l').length) = false) := by simp
            simp only [hne, Bool.false_eq_true, if_false]
            exact ⟨this.1, this.2.1, this.2.2⟩
        · simp only [hc, Bool.false_eq_true, if_false]
          split
          · exact ⟨hok, hsum, hroot⟩
          · exact ⟨hok, hsum, hroot⟩
    · simp only [insertAt, hcm, Bool.false_eq_true, if_false, List.getD, List.getElem?_cons_zero, Option.getD_some, hfix, modifyFrame, if_true]
      by_cases hc : hasFlag top.flags PFLAG_CONTAINER = true
      · simp only [hc, if_true]
        cases rest with
        | nil =>
          have := wf_push_root (Value.tuple false smNone smNone [v]) hok hsum hroot
          simp only [List.length_cons, List.length_nil, beq_self_eq_true, if_true]
          exact ⟨this.1, this.2.1, this.2.2⟩
        | cons g l =>
          have := wf_push_top v hc hok hsum hroot
          have hne : ((0 + 1 == (top :: g :: l).length) = false) := by simp
          simp only [hne, Bool.false_eq_true, if_false]
          exact ⟨this.1, this.2.1, this.2.2⟩
      · simp only [hc, Bool.false_eq_true, if_false]
        split
        · exact ⟨hok, hsum, hroot⟩
        · exact ⟨hok, hsum, hroot⟩

theorem WF_insertPre (scan : List B → Option String) {p : Parser} (h : WF p) : WF (insertPre scan p).1 := by
  unfold insertPre
  split
  · split
    · cases hcd : checkDead p with
      | some msg => exact h
      | none =>
        have hw := WF_consume scan 32 h
        unfold consume at hw
        simp only [hcd] at hw
        exact ⟨hw.ok, hw.sum, hw.rootn⟩
    · exact h
  · exact h

/-- ★ `parser/insert` from ANY well-formed parser state (any value, inside any frame: container, comment, string, token) leaves a
    well-formed parser -- whether it succeeds or panics -/
theorem WF_insert (scan : List B → Option String) {p : Parser} (v : Value) (vstr : List B) (h : WF p) : WF (insert scan p v vstr).1 := by
  rw [insert_eq]
  have hp := WF_insertPre scan h
  cases hpre : insertPre scan p with
  | mk q oe =>
    rw [hpre] at hp
    cases oe with
    | some e => exact hp
    | none => exact WF_insertAt v vstr hp

/-! ### `parser/state`'s frame walk -/

theorem containerSum (S : List Frame) (hok : okFrames S = true) :
    ((S.filter (fun s => hasFlag s.flags PFLAG_CONTAINER)).map (·.argn)).sum = inner S + rootArgn S := by
  induction S with
  | nil => simp [okFrames] at hok
  | cons f S ih =>
    cases S with
    | nil =>
      have : hasFlag f.flags PFLAG_CONTAINER = true := by
        have : f.consumer = .root ∧ hasFlag f.flags PFLAG_CONTAINER = true := by simpa [okFrames, isCont] using hok
        exact this.2
      simp [List.filter, this, inner, rootArgn]
    | cons g l =>
      have hne : (g :: l) ≠ [] := by simp
      rw [okFrames_cons hne] at hok
      simp only [Bool.and_eq_true] at hok
      rw [inner_cons hne, rootArgn_cons hne]
      have := ih hok.2
      rw [List.filter_cons]
      by_cases hc : hasFlag f.flags PFLAG_CONTAINER = true
      · have hc' : isCont f = true := hc
        rw [if_pos hc, if_pos hc', List.map_cons, List.sum_cons, this]; omega
      · have hc' : ¬ isCont f = true := hc
        rw [if_neg hc, if_neg hc', this]; omega

/-- in a well-formed parser the frame walk of `parser/state` (`parser_state_frames`) uses exactly the argument array -/
theorem framesInBounds_of_WF {p : Parser} (h : WF p) : framesInBounds p = true := by
  unfold framesInBounds
  rw [containerSum p.states h.ok, h.rootn, h.sum]
  simp

theorem insert_frames_in_bounds (scan : List B → Option String) {p : Parser} (v : Value) (vstr : List B) (h : WF p) :
    framesInBounds (insert scan p v vstr).1 = true := framesInBounds_of_WF (WF_insert scan v vstr h)

/-! ### histories with inserts -/

/-- what a client may do between bytes, now including `parser/insert` -/
inductive OpI where
  | byte (c : B)
  | produce
  | query
  | insert (v : Value) (vstr : List B)
  | flush                 -- `parser/flush`
  | takeError             -- `parser/error`
  deriving Inhabited

def runOpI (scan : List B → Option String) (r : Run) : OpI → Run
  | .byte c => feedByte scan r c
  | .produce => produceRun r
  | .query => r
  | .insert v vstr => { r with p := (insert scan r.p v vstr).1 }
  | .flush => { r with p := flush r.p }
  | .takeError => { r with p := (takeError r.p).2 }

theorem WF_runOpI (scan : List B → Option String) {r : Run} (op : OpI) (h : WF r.p) : WF (runOpI scan r op).p := by
  cases op with
  | byte c => exact WF_feedByte scan c h
  | produce => exact WF_produceRun h
  | query => exact h
  | insert v vstr => exact WF_insert scan v vstr h
  | flush => exact WF_flush h
  | takeError => exact WF_takeError h

theorem WF_runOpsI (scan : List B → Option String) (ops : List OpI) : ∀ r : Run, WF r.p → WF (ops.foldl (runOpI scan) r).p := by
  induction ops with
  | nil => intro r h; exact h
  | cons op ops ih => intro r h; exact ih _ (WF_runOpI scan op h)

end JanetModel.Parse
