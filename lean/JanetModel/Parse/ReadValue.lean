/- ★ Every value printed by `%j` reads back: structural induction (on the printer's depth) over nil / booleans / numbers /
   strings / buffers / symbols (incl. `@`-symbols) / keywords / tuples / arrays / structs / tables, through
   `janet_parser_consume` with its position updates.  Result values are equal up to tuple source-map positions. -/
import JanetModel.Parse.ReadAtoms

namespace JanetModel.Parse
open JanetModel.Gen.Parse JanetModel.PP

/-! ### hypotheses on the value -/

/-- a number text: starts like a number, consists of symbol characters (so the tokenizer takes it whole) -/
def numTok : List B → Bool
  | [] => false
  | c :: cs => (48 ≤ c.toNat && c.toNat ≤ 57 || c == 45 || c == 43 || c == 46) && rootStartsToken c && cs.all isSymbolChar

/-- the number hypothesis (C13: `scan (print17 x) = x`): what the formatter prints for a number is a number token on which the
    scanner returns that number -/
def NumOK (scan : List B → Option String) (fmt : String → Option (List B)) : Prop :=
  ∀ tag T, fmt tag = some T → scan T = some tag ∧ numTok T = true

/-- bytes that follow a value in `%j` text: space, a closing delimiter, or the newline `janet_parser_eof` feeds -/
def isDelim (d : B) : Bool := d == 32 || d == 41 || d == 93 || d == 125 || d == 10

theorem delim_facts (d : B) (h : isDelim d = true) : isSymbolChar d = false ∧ atOpens d = false := by
  unfold isDelim at h
  simp only [Bool.or_eq_true, beq_iff_eq] at h
  rcases h with (((rfl | rfl) | rfl) | rfl) | rfl <;> decide

/-! ### the inductive statement -/

/-- `T` followed by any delimiter `d`, fed where a value may start (top frame handled by `root`): some value equal to `v` up to
    source maps is handed to `popstate`, with the frames below untouched, and `d` is then processed -/
def ReadsPop (scan : List B → Option String) (v : Value) (T : List B) : Prop :=
  ∀ (p : Parser) (A : List Value) (top : Frame) (rest : List Frame) (pd fl : Nat) (d : B),
    Shape p A (top :: rest) [] pd fl → top.consumer = .root → isDelim d = true →
    ∃ v' q0 f, v'.erase = v.erase ∧ Shape q0 A (f :: top :: rest) [] pd fl ∧
      eatsP scan p (T ++ [d]) = eatP scan (popstate q0 v') d

theorem reads_then {scan : List B → Option String} {v : Value} {T : List B} (hr : ReadsPop scan v T)
    {p : Parser} {A : List Value} {top : Frame} {rest : List Frame} {pd fl : Nat} (y : B) (ys : List B)
    (h : Shape p A (top :: rest) [] pd fl) (htop : top.consumer = .root) (hy : isDelim y = true) :
    ∃ v' q0 f, v'.erase = v.erase ∧ Shape q0 A (f :: top :: rest) [] pd fl ∧
      eatsP scan p (T ++ y :: ys) = eatsP scan (popstate q0 v') (y :: ys) := by
  obtain ⟨v', q0, f, he, hs, heq⟩ := hr p A top rest pd fl y h htop hy
  refine ⟨v', q0, f, he, hs, ?_⟩
  have : T ++ y :: ys = (T ++ [y]) ++ ys := by simp
  rw [this, eatsP_append, heq]
  rfl

/-! ### item lists -/

/-- pointwise relation between two lists (core Lean has no `Forall₂`) -/
inductive All2 {α β : Type} (R : α → β → Prop) : List α → List β → Prop
  | nil : All2 R [] []
  | cons {a : α} {b : β} {l : List α} {m : List β} : R a b → All2 R l m → All2 R (a :: l) (b :: m)

/-- the text after the first item: every further item is preceded by one space -/
def tl (Ts : List (List B)) : List B := (Ts.map (fun T => 32 :: T)).flatten

theorem sepBy_cons : ∀ (T : List B) (Ts : List (List B)), sepBy [32] (T :: Ts) = T ++ tl Ts
  | T, [] => by simp [sepBy, tl]
  | T, T' :: Ts => by
    have := sepBy_cons T' Ts
    simp only [sepBy, this, tl, List.map_cons, List.flatten_cons]
    simp

theorem tl_head (Ts : List (List B)) (d : B) (hd : isDelim d = true) : ∃ y ys, tl Ts ++ [d] = y :: ys ∧ isDelim y = true := by
  cases Ts with
  | nil => exact ⟨d, [], rfl, hd⟩
  | cons T Ts => exact ⟨32, T ++ (tl Ts ++ [d]), by simp [tl], by decide⟩

def setArgn (F : Frame) (n : Nat) : Frame := { F with argn := n }

theorem items_tail (scan : List B → Option String) : ∀ (l : List Value) (Ts : List (List B)), All2 (ReadsPop scan) l Ts →
    ∀ (p : Parser) (A0 : List Value) (F g : Frame) (R : List Frame) (pd fl : Nat) (d : B),
    Shape p A0 (F :: g :: R) [] pd fl → F.consumer = .root → hasFlag F.flags PFLAG_CONTAINER = true → isDelim d = true →
    ∃ q vs', eraseL vs' = eraseL l ∧ Shape q (vs'.reverse ++ A0) (setArgn F (F.argn + l.length) :: g :: R) [] pd fl ∧
      eatsP scan p (tl Ts ++ [d]) = eatP scan q d := by
  intro l Ts hF
  induction hF with
  | nil =>
    intro p A0 F g R pd fl d h _ _ _
    exact ⟨p, [], rfl, by simpa [setArgn] using h, by simp [tl, eatsP_single]⟩
  | @cons x T l Ts hx _ ih =>
    intro p A0 F g R pd fl d h hroot hcont hd
    obtain ⟨q1, h1, s1⟩ := spaceP scan 32 h hroot (Or.inl rfl)
    obtain ⟨y, ys, hy, hyd⟩ := tl_head Ts d hd
    obtain ⟨x', q0, f, hex, s0, h2⟩ := reads_then hx y ys s1 hroot hyd
    have s2 := popstate_shape_inner x' s0 hcont
    have hroot' : (bump F).consumer = .root := hroot
    have hcont' : hasFlag (bump F).flags PFLAG_CONTAINER = true := hcont
    obtain ⟨q, vs', hev, sq, h3⟩ := ih (popstate q0 x') (x'.withSm f.line f.column :: A0) (bump F) g R pd fl d s2 hroot' hcont' hd
    refine ⟨q, x'.withSm f.line f.column :: vs', ?_, ?_, ?_⟩
    · simp only [eraseL, hev, erase_withSm, hex]
    · have e1 : (x'.withSm f.line f.column :: vs').reverse ++ A0 = vs'.reverse ++ x'.withSm f.line f.column :: A0 := by simp
      have e2 : setArgn F (F.argn + (x :: l).length) = setArgn (bump F) ((bump F).argn + l.length) := by
        simp only [setArgn, bump, List.length_cons]
        congr 1
        omega
      rw [e1, e2]; exact sq
    · have e : tl (T :: Ts) ++ [d] = 32 :: (T ++ (tl Ts ++ [d])) := by simp [tl]
      rw [e]
      simp only [eatsP, h1, Option.bind_some]
      rw [hy, h2, ← hy, h3]

/-- ★ the items of a container: from the state just after the opening delimiter to the state in which the closing delimiter
    `d` is about to be processed, all items (up to source maps) sit on the argument stack and the frame counts them -/
theorem items_read (scan : List B → Option String) (l : List Value) (Ts : List (List B)) (hF : All2 (ReadsPop scan) l Ts)
    (p : Parser) (A0 : List Value) (F g : Frame) (R : List Frame) (pd fl : Nat) (d : B)
    (h : Shape p A0 (F :: g :: R) [] pd fl) (hroot : F.consumer = .root) (hcont : hasFlag F.flags PFLAG_CONTAINER = true)
    (hd : isDelim d = true) :
    ∃ q vs', eraseL vs' = eraseL l ∧ Shape q (vs'.reverse ++ A0) (setArgn F (F.argn + l.length) :: g :: R) [] pd fl ∧
      eatsP scan p (sepBy [32] Ts ++ [d]) = eatP scan q d := by
  cases hF with
  | nil => exact ⟨p, [], rfl, by simpa [setArgn] using h, by simp [sepBy, eatsP_single]⟩
  | @cons x T l Ts hx hrest =>
    obtain ⟨y, ys, hy, hyd⟩ := tl_head Ts d hd
    obtain ⟨x', q0, f, hex, s0, h2⟩ := reads_then hx y ys h hroot hyd
    have s2 := popstate_shape_inner x' s0 hcont
    obtain ⟨q, vs', hev, sq, h3⟩ := items_tail scan l Ts hrest (popstate q0 x') (x'.withSm f.line f.column :: A0) (bump F) g R pd fl d s2 hroot hcont hd
    refine ⟨q, x'.withSm f.line f.column :: vs', ?_, ?_, ?_⟩
    · simp only [eraseL, hev, erase_withSm, hex]
    · have e1 : (x'.withSm f.line f.column :: vs').reverse ++ A0 = vs'.reverse ++ x'.withSm f.line f.column :: A0 := by simp
      have e2 : setArgn F (F.argn + (x :: l).length) = setArgn (bump F) ((bump F).argn + l.length) := by
        simp only [setArgn, bump, List.length_cons]
        congr 1
        omega
      rw [e1, e2]; exact sq
    · rw [sepBy_cons, List.append_assoc, hy, h2, ← hy, h3]

/-- ★ a whole container: opening text `pre` (already known to lead to a fresh container frame `F`), items, closing delimiter -/
theorem container_pop (scan : List B → Option String) {p : Parser} {A : List Value} {top : Frame} {rest : List Frame} {pd fl : Nat}
    (l : List Value) (Ts : List (List B)) (hF : All2 (ReadsPop scan) l Ts)
    (pre : List B) (q1 : Parser) (F : Frame) (hpre : eatsP scan p pre = some q1) (hs1 : Shape q1 A (F :: top :: rest) [] pd fl)
    (hroot : F.consumer = .root) (hcont : hasFlag F.flags PFLAG_CONTAINER = true) (hargn : F.argn = 0)
    (close : B) (hclose : closesF F.flags close = true) (hdel : isDelim close = true) (hev : close = 125 → l.length % 2 = 0) (d : B) :
    ∃ vs' q0 f, eraseL vs' = eraseL l ∧ Shape q0 A (f :: top :: rest) [] pd fl ∧
      eatsP scan p (pre ++ sepBy [32] Ts ++ [close] ++ [d]) = eatP scan (popstate q0 (closeValue F close vs')) d := by
  obtain ⟨q2, vs', hev', s2, h2⟩ := items_read scan l Ts hF q1 A F top rest pd fl close hs1 hroot hcont hdel
  have hlen : vs'.length = l.length := by
    have := congrArg List.length hev'
    simpa using this
  have hn : (setArgn F (F.argn + l.length)).argn = vs'.length := by simp [setArgn, hargn, hlen]
  obtain ⟨q0, s0, h3⟩ := closeP scan close s2 (by exact hroot) hn (by rw [hlen]; exact hev) (by exact hclose)
  refine ⟨vs', q0, _, hev', s0, ?_⟩
  have e : pre ++ sepBy [32] Ts ++ [close] ++ [d] = pre ++ ((sepBy [32] Ts ++ [close]) ++ [d]) := by simp
  rw [e, eatsP_append, hpre]
  simp only [Option.bind_some]
  rw [eatsP_append, h2, h3]
  simp only [Option.bind_some, eatsP_single]
  rfl

/-! ### dictionaries -/

/-- keys and values of a dictionary literal in source order -/
def il : List (Value × Value) → List Value
  | [] => []
  | kv :: r => kv.1 :: kv.2 :: il r

theorem il_length : ∀ kvs : List (Value × Value), (il kvs).length = 2 * kvs.length
  | [] => rfl
  | _ :: r => by simp [il, il_length r]; omega

theorem any_keq_smEq : ∀ (ks' ks : List Value) (k' k : Value), eraseL ks' = eraseL ks → k'.erase = k.erase →
    ks'.any (keq k') = ks.any (keq k)
  | [], [], _, _, _, _ => rfl
  | [], _ :: _, _, _, h, _ => by simp [eraseL] at h
  | _ :: _, [], _, _, h, _ => by simp [eraseL] at h
  | a' :: ks', a :: ks, k', k, h, hk => by
    simp only [eraseL, List.cons.injEq] at h
    simp only [List.any_cons, keq_smEq hk h.1, any_keq_smEq ks' ks k' k h.2 hk]

theorem all_not_any (ks : List Value) (k : Value) : ks.all (fun o => !keq k o) = !ks.any (keq k) := by
  induction ks with
  | nil => rfl
  | cons a ks ih => simp [ih]

/-- `close_struct` / `close_table` on distinct non-nil keys and non-nil values rebuild the association list in source order -/
theorem buildDict_fresh (put : List Value → List Value → Value → Value → List Value × List Value)
    (hput : ∀ ks vs k v, k.isNil = false → v.isNil = false → ks.any (keq k) = false → put ks vs k v = (ks ++ [k], vs ++ [v])) :
    ∀ (kvs : List (Value × Value)) (items' accK accV accK0 accV0 : List Value),
    eraseL items' = eraseL (il kvs) → eraseL accK = eraseL accK0 → eraseL accV = eraseL accV0 →
    freshAll accK0 (kvs.map (·.1)) = true → (∀ kv ∈ kvs, kv.1.isNil = false ∧ kv.2.isNil = false) →
    eraseL (buildDict put items' (accK, accV)).1 = eraseL (accK0 ++ kvs.map (·.1)) ∧
    eraseL (buildDict put items' (accK, accV)).2 = eraseL (accV0 ++ kvs.map (·.2)) := by
  intro kvs
  induction kvs with
  | nil =>
    intro items' accK accV accK0 accV0 hi hk hv _ _
    cases items' with
    | nil => simp [buildDict, hk, hv]
    | cons a t => simp [eraseL, il] at hi
  | cons kv r ih =>
    intro items' accK accV accK0 accV0 hi hk hv hfresh hnil
    cases items' with
    | nil => simp [eraseL, il] at hi
    | cons k' t =>
      cases t with
      | nil => simp [eraseL, il] at hi
      | cons v' items'' =>
        simp only [eraseL, il, List.cons.injEq] at hi
        obtain ⟨hk', hv', hrest⟩ := hi
        have hn := hnil kv (List.mem_cons_self ..)
        simp only [List.map_cons, freshAll, Bool.and_eq_true] at hfresh
        have hany : accK.any (keq k') = false := by
          rw [any_keq_smEq accK accK0 k' kv.1 hk hk']
          have := hfresh.1
          rw [all_not_any] at this
          simpa using this
        have hp := hput accK accV k' v' (by rw [isNil_of_smEq hk']; exact hn.1) (by rw [isNil_of_smEq hv']; exact hn.2) hany
        simp only [buildDict, hp]
        have := ih items'' (accK ++ [k']) (accV ++ [v']) (accK0 ++ [kv.1]) (accV0 ++ [kv.2]) hrest
          (by simp [eraseL_append, eraseL, hk, hk']) (by simp [eraseL_append, eraseL, hv, hv']) hfresh.2
          (fun kv' h' => hnil kv' (List.mem_cons_of_mem _ h'))
        simpa [List.append_assoc] using this

theorem structPut_fresh (ks vs : List Value) (k v : Value) (hk : k.isNil = false) (hv : v.isNil = false) (ha : ks.any (keq k) = false) :
    structPut ks vs k v = (ks ++ [k], vs ++ [v]) := by
  simp [structPut, hk, hv, ha]

theorem tablePut_fresh (ks vs : List Value) (k v : Value) (hk : k.isNil = false) (hv : v.isNil = false) (ha : ks.any (keq k) = false) :
    tablePut ks vs k v = (ks ++ [k], vs ++ [v]) := by
  simp [tablePut, hk, hv, ha]

theorem keysOK_facts {ks vs : List Value} (h : keysOK ks vs = true) :
    (ks.zip vs).map (·.1) = ks ∧ (ks.zip vs).map (·.2) = vs ∧ freshAll [] ((ks.zip vs).map (·.1)) = true ∧
    (∀ kv ∈ ks.zip vs, kv.1.isNil = false ∧ kv.2.isNil = false) := by
  unfold keysOK at h
  simp only [Bool.and_eq_true, beq_iff_eq, List.all_eq_true, Bool.not_eq_true'] at h
  obtain ⟨⟨⟨hl, hk⟩, hv⟩, hf⟩ := h
  have e1 : (ks.zip vs).map (·.1) = ks := List.map_fst_zip (by omega)
  have e2 : (ks.zip vs).map (·.2) = vs := List.map_snd_zip (by omega)
  refine ⟨e1, e2, by rw [e1]; exact hf, ?_⟩
  intro kv hkv
  have := List.of_mem_zip (a := kv.1) (b := kv.2) hkv
  exact ⟨hk _ this.1, hv _ this.2⟩

end JanetModel.Parse
