/- `%j` text read back by the parser: tokens (with the delimiter look-ahead), strings, buffers. -/
import JanetModel.Parse.Model
import JanetModel.Parse.Lemmas
import JanetModel.Parse.Escape
import JanetModel.PP.Jdn

namespace JanetModel.Parse
open JanetModel.Gen.Parse JanetModel.PP

/-- one byte through the consume loop of `janet_parser_consume` (no position update): `none` if an error is or gets latched -/
def eat (scan : List B → Option String) (p : Parser) (c : B) : Option Parser :=
  if p.error.isSome then none
  else (consumeLoop scan (loopFuel p) p c).bind (fun q => if q.error.isSome then none else some q)

def eats (scan : List B → Option String) : Parser → List B → Option Parser
  | p, [] => some p
  | p, c :: cs => (eat scan p c).bind (fun q => eats scan q cs)

theorem eats_append (scan : List B → Option String) (p : Parser) (a b : List B) :
    eats scan p (a ++ b) = (eats scan p a).bind (fun q => eats scan q b) := by
  induction a generalizing p with
  | nil => simp [eats]
  | cons c cs ih =>
    simp only [List.cons_append, eats]
    cases eat scan p c with
    | none => simp
    | some q => simp [ih]

/-- more fuel does not change the result of a loop that finished -/
theorem consumeLoop_mono (scan : List B → Option String) (c : B) : ∀ (f : Nat) (p q : Parser),
    consumeLoop scan f p c = some q → ∀ f', f ≤ f' → consumeLoop scan f' p c = some q := by
  intro f
  induction f with
  | zero => intro p q h; simp [consumeLoop] at h
  | succ n ih =>
    intro p q h f' hf
    cases f' with
    | zero => omega
    | succ m =>
      unfold consumeLoop at h ⊢
      by_cases he : p.error.isSome = true
      · simpa [he] using h
      · simp only [he] at h ⊢
        cases hk : (step scan p c).2 with
        | true => simpa [hk] using h
        | false =>
          simp only [hk, Bool.false_eq_true, if_false] at h ⊢
          exact ih _ _ h m (by omega)

/-- a consuming, error-free `step` is what the loop does -/
theorem eat_of_step (scan : List B → Option String) (p : Parser) (c : B) (he : p.error = none)
    (hk : (step scan p c).2 = true) (he' : (step scan p c).1.error = none) : eat scan p c = some (step scan p c).1 := by
  unfold eat loopFuel
  simp only [he, Option.isSome_none, Bool.false_eq_true, if_false]
  have : consumeLoop scan (2 * p.states.length + 3) p c = some (step scan p c).1 := by
    show consumeLoop scan ((2 * p.states.length + 2) + 1) p c = _
    unfold consumeLoop
    simp [he, hk]
  simp [this, he']

theorem eats_of_steps (scan : List B → Option String) : ∀ (bs : List B) (p q : Parser), p.error = none →
    steps scan p bs = some q → eats scan p bs = some q := by
  intro bs
  induction bs with
  | nil => intro p q _ h; simpa [steps, eats] using h
  | cons c cs ih =>
    intro p q he h
    simp only [steps] at h
    split at h
    · rename_i hc
      simp only [Bool.and_eq_true, Option.isNone_iff_eq_none] at hc
      simp only [eats, eat_of_step scan p c he hc.1 hc.2, Option.bind_some]
      exact ih _ _ hc.2 h
    · simp at h

/-! ### tokens -/

/-- a byte at which `root` starts a token directly (every symbol character except `@`, which goes through `atsign`) -/
def rootStartsToken (c : B) : Bool := isSymbolChar c && c != 64

set_option maxRecDepth 100000 in
theorem root_conds_nat : ∀ n, n < 256 → rootStartsToken n.toUInt8 = true →
    (n.toUInt8 == 39 || n.toUInt8 == 44 || n.toUInt8 == 59 || n.toUInt8 == 126 || n.toUInt8 == 124) = false ∧
    (n.toUInt8 == 34) = false ∧ (n.toUInt8 == 35) = false ∧ (n.toUInt8 == 64) = false ∧ (n.toUInt8 == 96) = false ∧
    (n.toUInt8 == 41 || n.toUInt8 == 93 || n.toUInt8 == 125) = false ∧ (n.toUInt8 == 40) = false ∧ (n.toUInt8 == 91) = false ∧
    (n.toUInt8 == 123) = false ∧ isWhitespace n.toUInt8 = false ∧ isSymbolChar n.toUInt8 = true := by decide

theorem root_token_start (p : Parser) (s : Frame) (c : B) (h : rootStartsToken c = true) :
    root p s c = (pushstate p .tokenchar PFLAG_TOKEN, false) := by
  have hc := root_conds_nat c.toNat c.toNat_lt (by simpa using h)
  simp only [UInt8.ofNat_toNat, Nat.toUInt8_eq] at hc
  obtain ⟨h0, h1, h2, h3, h4, h5, h6, h7, h8, h9, h10⟩ := hc
  unfold root
  simp [h0, h1, h2, h3, h4, h5, h6, h7, h8, h9, h10]

def tokFrame (line column na : Nat) : Frame := ⟨0, na, PFLAG_TOKEN, line, column, .tokenchar⟩

/-- the non-ASCII marker `state->argn` after the token bytes `cs` -/
def naAcc (na : Nat) (cs : List B) : Nat := cs.foldl (fun a c => if c > 127 then 1 else a) na

section
variable (scan : List B → Option String)
variable (args : List Value) (R : List Frame) (line column pending : Nat) (lb : Int) (flag : Nat) (fl fc : Nat)

theorem tok_more (buf : List B) (na : Nat) (c : B) (hc : isSymbolChar c = true) :
    eat scan ⟨args, none, tokFrame fl fc na :: R, buf, line, column, pending, lb, flag⟩ c =
      some ⟨args, none, tokFrame fl fc (if c > 127 then 1 else na) :: R, buf ++ [c], line, column, pending, lb, flag⟩ := by
  have hs : step scan ⟨args, none, tokFrame fl fc na :: R, buf, line, column, pending, lb, flag⟩ c =
      (⟨args, none, tokFrame fl fc (if c > 127 then 1 else na) :: R, buf ++ [c], line, column, pending, lb, flag⟩, true) := by
    simp only [step, tokFrame, tokenchar, hc, if_true, pushBuf]
    split <;> simp [setTop]
  have := eat_of_step scan ⟨args, none, tokFrame fl fc na :: R, buf, line, column, pending, lb, flag⟩ c rfl (by rw [hs]) (by rw [hs])
  rw [this, hs]

theorem tok_many : ∀ (cs : List B) (buf : List B) (na : Nat), cs.all isSymbolChar = true →
    eats scan ⟨args, none, tokFrame fl fc na :: R, buf, line, column, pending, lb, flag⟩ cs =
      some ⟨args, none, tokFrame fl fc (naAcc na cs) :: R, buf ++ cs, line, column, pending, lb, flag⟩ := by
  intro cs
  induction cs with
  | nil => intro buf na _; simp [eats, naAcc]
  | cons c cs ih =>
    intro buf na h
    simp only [List.all_cons, Bool.and_eq_true] at h
    simp only [eats, tok_more scan args R line column pending lb flag fl fc buf na c h.1, Option.bind_some]
    rw [ih (buf ++ [c]) _ h.2]
    simp [naAcc]

end

/-- first byte of a token at a place where a value may start -/
theorem tok_first (scan : List B → Option String) (args : List Value) (top : Frame) (rest : List Frame) (line column pending : Nat)
    (lb : Int) (flag : Nat) (c : B) (htop : top.consumer = .root) (hc : rootStartsToken c = true) :
    eat scan ⟨args, none, top :: rest, [], line, column, pending, lb, flag⟩ c =
      some ⟨args, none, tokFrame line column (if c > 127 then 1 else 0) :: top :: rest, [c], line, column, pending, lb, flag⟩ := by
  have hsym : isSymbolChar c = true := by
    unfold rootStartsToken at hc; simp only [Bool.and_eq_true] at hc; exact hc.1
  unfold eat loopFuel
  simp only [Option.isSome_none, Bool.false_eq_true, if_false]
  have : consumeLoop scan (2 * (top :: rest).length + 3) ⟨args, none, top :: rest, [], line, column, pending, lb, flag⟩ c =
      some ⟨args, none, tokFrame line column (if c > 127 then 1 else 0) :: top :: rest, [c], line, column, pending, lb, flag⟩ := by
    show consumeLoop scan ((2 * (top :: rest).length + 1) + 1 + 1) _ c = _
    unfold consumeLoop
    simp only [Option.isSome_none, Bool.false_eq_true, if_false, step, htop, root_token_start _ top c hc]
    unfold consumeLoop
    simp only [pushstate, Option.isSome_none, Bool.false_eq_true, if_false, step, tokenchar, hsym, if_true, pushBuf]
    split <;> simp [setTop, tokFrame]
  simp only [this, Option.bind_some]
  simp

/-- delimiter look-ahead: a byte that is not a symbol character finishes the token -- the classified value goes to `popstate` --
    and is then processed by whatever frame `popstate` uncovered, exactly as if it had arrived there directly -/
theorem tok_end (scan : List B → Option String) (args : List Value) (R : List Frame) (line column pending : Nat) (lb : Int)
    (flag : Nat) (fl fc na : Nat) (T : List B) (d : B) (v : Value) (hd : isSymbolChar d = false)
    (hcl : classifyToken scan T (na != 0) = .ok v) :
    eat scan ⟨args, none, tokFrame fl fc na :: R, T, line, column, pending, lb, flag⟩ d =
      eat scan (popstate ⟨args, none, tokFrame fl fc na :: R, [], line, column, pending, lb, flag⟩ v) d := by
  have herr : (popstate ⟨args, none, tokFrame fl fc na :: R, [], line, column, pending, lb, flag⟩ v).error = none := by
    simp [popstate]
  unfold eat
  simp only [herr, Option.isSome_none, Bool.false_eq_true, if_false]
  congr 1
  have hlen := popstate_length ⟨args, none, tokFrame fl fc na :: R, [], line, column, pending, lb, flag⟩ v
  have htot := consumeLoop_total scan (popstate ⟨args, none, tokFrame fl fc na :: R, [], line, column, pending, lb, flag⟩ v) d
  cases hq : consumeLoop scan (loopFuel (popstate ⟨args, none, tokFrame fl fc na :: R, [], line, column, pending, lb, flag⟩ v))
      (popstate ⟨args, none, tokFrame fl fc na :: R, [], line, column, pending, lb, flag⟩ v) d with
  | none => rw [hq] at htot; simp at htot
  | some q =>
    unfold loopFuel
    show consumeLoop scan ((2 * (tokFrame fl fc na :: R).length + 2) + 1) _ d = some q
    unfold consumeLoop
    simp only [Option.isSome_none, Bool.false_eq_true, if_false, step, tokFrame, tokenchar, hd]
    have hcl' : classifyToken scan T (na != 0) = .ok v := hcl
    simp only [hcl']
    simp only [Bool.false_eq_true, if_false]
    apply consumeLoop_mono scan d _ _ _ hq
    unfold loopFuel
    simp only [List.length_cons] at hlen ⊢
    omega

/-- ★ a token text `T` (first byte starts a token at `root`, all bytes symbol characters) followed by ANY delimiter `d`:
    the parser hands the classification of `T` to `popstate` and continues with `d` in the uncovered frame -/
theorem token_roundtrip (scan : List B → Option String) (args : List Value) (top : Frame) (rest : List Frame)
    (line column pending : Nat) (lb : Int) (flag : Nat) (c : B) (cs : List B) (d : B) (v : Value)
    (htop : top.consumer = .root) (hc : rootStartsToken c = true) (hcs : cs.all isSymbolChar = true) (hd : isSymbolChar d = false)
    (hcl : classifyToken scan (c :: cs) (naAcc (if c > 127 then 1 else 0) cs != 0) = .ok v) :
    eats scan ⟨args, none, top :: rest, [], line, column, pending, lb, flag⟩ (c :: cs ++ [d]) =
      (eat scan (popstate ⟨args, none, tokFrame line column (naAcc (if c > 127 then 1 else 0) cs) :: top :: rest, [],
        line, column, pending, lb, flag⟩ v) d) := by
  simp only [List.cons_append, eats, tok_first scan args top rest line column pending lb flag c htop hc, Option.bind_some]
  rw [eats_append, tok_many scan args (top :: rest) line column pending lb flag line column cs [c] _ hcs]
  simp only [Option.bind_some, eats, List.singleton_append]
  rw [tok_end scan args (top :: rest) line column pending lb flag line column _ (c :: cs) d v hd hcl]
  cases eat scan _ d <;> simp

/-! ### what the printed atoms classify to -/

theorem classify_keyword (scan : List B → Option String) (ks : List B) (na : Bool) (h : containsBadChars scan ks false = false) :
    classifyToken scan (58 :: ks) na = .ok (.kw ks) := by
  have hv : validUtf8 ks = true := by
    unfold containsBadChars at h
    simp only [Bool.or_eq_false_iff] at h
    simpa using h.1.2
  simp [classifyToken, hv]

theorem classify_nil (scan : List B → Option String) (na : Bool) : classifyToken scan nilBytes na = .ok .nil := by
  simp [classifyToken, nilBytes, isConst]
theorem classify_true (scan : List B → Option String) (na : Bool) : classifyToken scan trueBytes na = .ok (.bool true) := by
  simp [classifyToken, nilBytes, trueBytes, falseBytes, isConst]
theorem classify_false (scan : List B → Option String) (na : Bool) : classifyToken scan falseBytes na = .ok (.bool false) := by
  simp [classifyToken, nilBytes, falseBytes, isConst]

/-- number text: whatever the printer emits for a number tag reads back as that number, PROVIDED the scanner inverts the
    formatter on it (C13: `scan (print17 x) = x`) and the text looks like a number token -/
theorem classify_number (scan : List B → Option String) (t : List B) (tag : String) (na : Bool)
    (hscan : scan t = some tag)
    (hstart : (48 ≤ (t.headD 0).toNat && (t.headD 0).toNat ≤ 57 || t.headD 0 == 45 || t.headD 0 == 43 || t.headD 0 == 46) = true)
    (hcolon : (t.headD 0 == 58) = false) :
    classifyToken scan t na = .ok (.num tag) := by
  unfold classifyToken
  simp only [hcolon, Bool.false_eq_true, if_false, hstart, if_true, hscan]

/-- symbols that the (fixed) printer accepts read back as themselves -/
theorem classify_symbol (scan : List B → Option String) (bs : List B) (na : Bool) (h : containsBadChars scan bs true = false) :
    classifyToken scan bs na = .ok (.sym bs) := by
  have hfix : ppRefusesMisreadSymbols = true := by decide
  unfold containsBadChars at h
  simp only [hfix, Bool.true_and, if_true, Bool.or_eq_false_iff, Bool.and_eq_false_imp] at h
  obtain ⟨⟨⟨hextra, hdig⟩, hutf⟩, _⟩ := h
  obtain ⟨⟨⟨⟨⟨hne, hcolon⟩, hnil⟩, htrue⟩, hfalse⟩, hnum⟩ := hextra
  have hv : validUtf8 bs = true := by simpa using hutf
  have hne' : bs.isEmpty = false := hne
  have hdig' : (48 ≤ (bs.headD 0).toNat && (bs.headD 0).toNat ≤ 57) = false := by
    cases hb : bs with
    | nil => simp [hb] at hne'
    | cons b t =>
      rw [hb] at hdig
      simpa using hdig
  unfold classifyToken
  simp only [hcolon, Bool.false_eq_true, if_false, hdig', Bool.false_or]
  by_cases hs : ((bs.headD 0 == 45 || bs.headD 0 == 43 || bs.headD 0 == 46) = true)
  · have hsc : scan bs = none := by
      have := hnum hs
      simpa using this
    simp [hs, hsc, hnil, htrue, hfalse, hv]
  · have hs' : ¬((bs.head?.getD 0 = 45 ∨ bs.head?.getD 0 = 43) ∨ bs.head?.getD 0 = 46) := by simpa using hs
    simp [hs', hnil, htrue, hfalse, hv]

end JanetModel.Parse
