/- The physical machine for `parser/insert`, `janet_parser_clone` and `parser/state :delimiters`. -/
import JanetModel.Parse.PhysRun
import JanetModel.Parse.Insert
import JanetModel.Parse.NoCF

namespace JanetModel.Parse
open JanetModel.Gen.Parse

/-! ### parser/state :delimiters, clone -/

theorem truncBufM_fault (m : MP) (n : Nat) : (truncBufM m n).fault = (m.fault || !decide (n ≤ m.p.buf.length)) := rfl

/-- `parser_state_delimiters` writes behind the scratch contents (inside the grown block), reads exactly what it wrote and puts the
    count back: the parser is unchanged, no check fails -/
theorem stateDelimsM_spec (m : MP) :
    (stateDelimsM m).1 = delimiters m.p ∧ (stateDelimsM m).2.p = m.p ∧ (stateDelimsM m).2.fault = m.fault := by
  unfold stateDelimsM
  simp only []
  have hp := pushBytesM_p (delimiters m.p) m
  have hf := pushBytesM_fault (delimiters m.p) m
  refine ⟨?_, ?_, ?_⟩
  · rw [hp]; simp
  · show { (pushBytesM m (delimiters m.p)).p with buf := (pushBytesM m (delimiters m.p)).p.buf.take m.p.buf.length } = m.p
    rw [hp]
    obtain ⟨⟨a, e, s, b, l, c, pe, lb, fl⟩, k, g, f, hk⟩ := m
    simp
  · rw [truncBufM_fault, hf, hp]
    simp

theorem cloneM_spec (m : MP) : (cloneM m).p = clone m.p ∧ (cloneM m).fault = m.fault ∧ (cloneM m).k = cloneK m.p := by
  refine ⟨rfl, ?_, rfl⟩
  obtain ⟨h1, h2, h3⟩ := m.capok
  simp [cloneM, h1, h2, h3]

/-! ### parser/insert -/

theorem tokInv_grow {p p' : Parser} (hs : p'.states.map (·.consumer) = p.states.map (·.consumer)) (hb : p.buf ≠ [] → p'.buf ≠ [])
    (h : TokInv p) : TokInv p' := by
  have h0 : TokInv { p' with buf := p.buf } := tokInv_congr (p := p) hs rfl h
  refine ⟨h0.1, ?_⟩
  intro s rest hs' hc
  exact hb (h0.2 s rest hs' hc)

theorem modifyFrame_consumers (f : Frame → Frame) (hf : ∀ x, (f x).consumer = x.consumer) :
    ∀ (S : List Frame) (i : Nat), (modifyFrame S i f).map (·.consumer) = S.map (·.consumer)
  | [], _ => rfl
  | s :: rest, 0 => by simp [modifyFrame, hf]
  | s :: rest, i + 1 => by simp [modifyFrame, modifyFrame_consumers f hf rest i]

theorem insertPreM_spec (scan : List B → Option String) (m : MP) (h : PInv m.p) :
    (insertPreM scan m).1.p = (insertPre scan m.p).1 ∧ (insertPreM scan m).2 = (insertPre scan m.p).2 ∧
    (insertPreM scan m).1.fault = m.fault ∧ PInv (insertPre scan m.p).1 := by
  have hne : m.p.states ≠ [] := okFrames_ne_nil h.wf.ok
  have hd := derefOk_topPtr hne
  have hr := readState_topPtr m
  unfold insertPreM insertPre
  cases hs : m.p.states with
  | nil => exact absurd hs hne
  | cons top rest =>
    simp only [hd, chk_true, hr, hs, List.headD_cons]
    by_cases hc : (top.consumer == Consumer.tokenchar) = true
    · simp only [hc, if_true]
      cases hcd : checkDead m.p with
      | some msg => exact ⟨by trivial, by trivial, by trivial, h⟩
      | none =>
        obtain ⟨h1, h2, h3⟩ := consumeRawM_spec scan m 32 h
        simp only [scal_p, scal_fault]
        rw [h1]
        exact ⟨by trivial, by trivial, h2, ⟨h3.wf.ok, h3.wf.sum, h3.wf.rootn⟩, tokInv_congr rfl rfl h3.tok⟩
    · simp only [hc, Bool.false_eq_true, if_false]
      exact ⟨by trivial, by trivial, by trivial, h⟩

/-- `sp` points into the current block, at the frame `i` below the top -/
def AtDepth (m : MP) (sp : SPtr) (i : Nat) : Prop := sp.gen = m.sgen ∧ sp.idx + 1 + i = m.p.states.length

theorem AtDepth.deref {m : MP} {sp : SPtr} {i : Nat} (h : AtDepth m sp i) : derefOk m sp = true := by
  obtain ⟨h1, h2⟩ := h
  simp [derefOk, h1]; omega

theorem AtDepth.read {m : MP} {sp : SPtr} {i : Nat} (h : AtDepth m sp i) : readState m sp = m.p.states.getD i default := by
  obtain ⟨_, h2⟩ := h
  have : m.p.states.length - 1 - sp.idx = i := by omega
  unfold readState
  rw [this]

theorem AtDepth.write_p {m : MP} {sp : SPtr} {i : Nat} (h : AtDepth m sp i) (f : Frame → Frame) :
    (writeState m sp f).p = { m.p with states := modifyFrame m.p.states i f } := by
  obtain ⟨_, h2⟩ := h
  have : m.p.states.length - 1 - sp.idx = i := by omega
  simp [writeState, this]

theorem AtDepth.write_fault {m : MP} {sp : SPtr} {i : Nat} (h : AtDepth m sp i) (f : Frame → Frame) :
    (writeState m sp f).fault = m.fault := by
  simp [writeState, h.deref]

theorem bufAppendM_fault (m : MP) (bs : List B) : (bufAppendM m bs).fault = m.fault := by
  have := jumpCap_fits m.k.buf (m.p.buf.length + bs.length)
  simp [bufAppendM, this]

/-- what `if (s->flags & PFLAG_COMMENT) s--;` needs: a frame carrying the comment flag is not the bottom frame -/
def CommentAbove (p : Parser) : Prop :=
  ∀ s rest, p.states = s :: rest → hasFlag s.flags PFLAG_COMMENT = true → rest ≠ []

/-- the part of `insertAtM` after `s` has been settled, for the frame `i` below the top -/
def insTailM (m : MP) (sp : SPtr) (s : Frame) (v : Value) (vstr : List B) : MP × Option String :=
  if hasFlag s.flags PFLAG_CONTAINER then
    let m' := writeState m sp (fun f => { f with argn := f.argn + 1 })
    let isRoot := if insertRootTestByFrame then sp.idx == 0 else m'.p.states.length == 1
    if isRoot then
      (pushArgM (m'.scal (fun p => { p with pending := p.pending + 1 }) ⟨rfl, rfl, rfl⟩) (Value.tuple false smNone smNone [v]), none)
    else (pushArgM m' v, none)
  else if hasFlag s.flags (PFLAG_STRING ||| PFLAG_LONGSTRING) then (bufAppendM m vstr, none)
  else (m, some "cannot insert value into parser")

def insTail (p : Parser) (i : Nat) (s : Frame) (v : Value) (vstr : List B) : Parser × Option String :=
  if hasFlag s.flags PFLAG_CONTAINER then
    let states := modifyFrame p.states i (fun f => { f with argn := f.argn + 1 })
    let isRoot := if insertRootTestByFrame then i + 1 == p.states.length else p.states.length == 1
    if isRoot then
      ({ p with states := states, pending := p.pending + 1, args := Value.tuple false smNone smNone [v] :: p.args }, none)
    else ({ p with states := states, args := v :: p.args }, none)
  else if hasFlag s.flags (PFLAG_STRING ||| PFLAG_LONGSTRING) then ({ p with buf := p.buf ++ vstr }, none)
  else (p, some "cannot insert value into parser")

theorem insertAtM_tail {m : MP} {sp : SPtr} {i : Nat} (h : AtDepth m sp i) (s : Frame) (v : Value) (vstr : List B) :
    (insTailM m sp s v vstr).1.p = (insTail m.p i s v vstr).1 ∧ (insTailM m sp s v vstr).2 = (insTail m.p i s v vstr).2 ∧
    (insTailM m sp s v vstr).1.fault = m.fault := by
  unfold insTailM insTail
  have hroot : (sp.idx == 0) = (i + 1 == m.p.states.length) := by
    have := h.2
    by_cases h0 : sp.idx = 0
    · have : i + 1 = m.p.states.length := by omega
      simp [h0, this]
    · have : i + 1 ≠ m.p.states.length := by omega
      rw [beq_false_of_ne h0, beq_false_of_ne this]
  by_cases hc : hasFlag s.flags PFLAG_CONTAINER = true
  · simp only [hc, if_true, hroot, writeState_len]
    by_cases hr : (i + 1 == m.p.states.length) = true
    · simp only [hr, if_true]
      refine ⟨?_, by trivial, ?_⟩
      · simp [h.write_p]
      · simp [h.write_fault]
    · simp only [hr, Bool.false_eq_true, if_false]
      refine ⟨?_, by trivial, ?_⟩
      · simp [h.write_p]
      · simp [h.write_fault]
  · simp only [hc, Bool.false_eq_true, if_false]
    by_cases hs : hasFlag s.flags (PFLAG_STRING ||| PFLAG_LONGSTRING) = true
    · simp only [hs, if_true]
      exact ⟨by trivial, by trivial, bufAppendM_fault m vstr⟩
    · simp only [hs, Bool.false_eq_true, if_false]
      exact ⟨by trivial, by trivial, by trivial⟩

theorem insTail_shape (p : Parser) (i : Nat) (s : Frame) (v : Value) (vstr : List B) :
    (insTail p i s v vstr).1.states.map (·.consumer) = p.states.map (·.consumer) ∧ (p.buf ≠ [] → (insTail p i s v vstr).1.buf ≠ []) := by
  unfold insTail
  by_cases hc : hasFlag s.flags PFLAG_CONTAINER = true
  · simp only [hc, if_true]
    split
    · exact ⟨modifyFrame_consumers (fun f => { f with argn := f.argn + 1 }) (fun _ => rfl) _ _, fun hb => hb⟩
    · exact ⟨modifyFrame_consumers (fun f => { f with argn := f.argn + 1 }) (fun _ => rfl) _ _, fun hb => hb⟩
  · simp only [hc, Bool.false_eq_true, if_false]
    split
    · exact ⟨rfl, fun hb => by simp [hb]⟩
    · exact ⟨rfl, fun hb => hb⟩

theorem insertAt_eq (p : Parser) (v : Value) (vstr : List B) : insertAt p v vstr =
    insTail p (match p.states with | top :: _ => if hasFlag top.flags PFLAG_COMMENT then 1 else 0 | [] => 0)
      (p.states.getD (match p.states with | top :: _ => if hasFlag top.flags PFLAG_COMMENT then 1 else 0 | [] => 0) default) v vstr := rfl

theorem insertAt_shape (p : Parser) (v : Value) (vstr : List B) :
    (insertAt p v vstr).1.states.map (·.consumer) = p.states.map (·.consumer) ∧ (p.buf ≠ [] → (insertAt p v vstr).1.buf ≠ []) := by
  rw [insertAt_eq]; exact insTail_shape _ _ _ _ _

theorem insertAtM_spec (m : MP) (v : Value) (vstr : List B) (h : PInv m.p) (hca : CommentAbove m.p) :
    (insertAtM m v vstr).1.p = (insertAt m.p v vstr).1 ∧ (insertAtM m v vstr).2 = (insertAt m.p v vstr).2 ∧
    (insertAtM m v vstr).1.fault = m.fault ∧ PInv (insertAt m.p v vstr).1 := by
  have hwf := WF_insertAt v vstr h.wf
  have hne : m.p.states ≠ [] := okFrames_ne_nil h.wf.ok
  have hd := derefOk_topPtr hne
  have hr := readState_topPtr m
  have htok : TokInv (insertAt m.p v vstr).1 :=
    tokInv_grow (p := m.p) (insertAt_shape m.p v vstr).1 (insertAt_shape m.p v vstr).2 h.tok
  suffices hmain : (insertAtM m v vstr).1.p = (insertAt m.p v vstr).1 ∧ (insertAtM m v vstr).2 = (insertAt m.p v vstr).2 ∧
      (insertAtM m v vstr).1.fault = m.fault from ⟨hmain.1, hmain.2.1, hmain.2.2, hwf, htok⟩
  rw [insertAt_eq]
  have hM : insertAtM m v vstr =
      (let sp := topPtr m
       let m0 := m.chk (derefOk m sp)
       let cm := hasFlag (readState m0 sp).flags PFLAG_COMMENT
       let m1 := if cm then m0.chk (decide (0 < sp.idx)) else m0
       let sp1 : SPtr := if cm then { sp with idx := sp.idx - 1 } else sp
       let m2 := m1.chk (derefOk m1 sp1)
       insTailM m2 sp1 (readState m2 sp1) v vstr) := rfl
  rw [hM]
  cases hs : m.p.states with
  | nil => exact absurd hs hne
  | cons top rest =>
    simp only [hd, chk_true, hr, hs, List.headD_cons]
    by_cases hcm : hasFlag top.flags PFLAG_COMMENT = true
    · have hrest := hca top rest hs hcm
      have hlen : 2 ≤ m.p.states.length := by
        rw [hs]; cases rest with
        | nil => exact absurd rfl hrest
        | cons g l => simp
      have hidx : 0 < (topPtr m).idx := by simp only [topPtr]; omega
      have hsp : AtDepth m ({ topPtr m with idx := (topPtr m).idx - 1 }) 1 := by
        refine ⟨rfl, ?_⟩
        simp only [topPtr]; omega
      simp only [hcm, if_true, hidx, decide_true, chk_true, hsp.deref, hsp.read]
      rw [← hs]
      exact insertAtM_tail hsp (m.p.states.getD 1 default) v vstr
    · have hsp : AtDepth m (topPtr m) 0 := by
        refine ⟨rfl, ?_⟩
        have : 0 < m.p.states.length := List.length_pos_iff.mpr hne
        simp only [topPtr]; omega
      simp only [hcm, Bool.false_eq_true, if_false, hd, chk_true, hsp.read]
      rw [← hs]
      exact insertAtM_tail hsp (m.p.states.getD 0 default) v vstr

theorem insertM_spec (scan : List B → Option String) (m : MP) (v : Value) (vstr : List B) (h : PInv m.p)
    (hca : CommentAbove (insertPre scan m.p).1) :
    (insertM scan m v vstr).1.p = (insert scan m.p v vstr).1 ∧ (insertM scan m v vstr).2 = (insert scan m.p v vstr).2 ∧
    (insertM scan m v vstr).1.fault = m.fault ∧ PInv (insert scan m.p v vstr).1 := by
  obtain ⟨h1, h2, h3, h4⟩ := insertPreM_spec scan m h
  rw [insert_eq]
  unfold insertM
  cases hm : insertPreM scan m with
  | mk m' oe =>
    cases hl : insertPre scan m.p with
    | mk p' oe' =>
      rw [hm] at h1 h2 h3
      rw [hl] at h1 h2 h4 hca
      simp only at h1 h2 h3 h4 hca
      subst h2
      cases oe with
      | some e => exact ⟨h1, rfl, h3, h4⟩
      | none =>
        simp only []
        have := insertAtM_spec m' v vstr (by rw [h1]; exact h4) (by rw [h1]; exact hca)
        rw [h1, h3] at this
        exact this

/-! ### `stringend`'s in-place re-indent: the write cursor never passes the read cursor -/

theorem skipIndent_length_le : ∀ (k : Nat) (l : List B), (skipIndent k l).length ≤ l.length
  | 0, l => Nat.le_refl _
  | _ + 1, [] => Nat.le_refl _
  | k + 1, c :: t => by
    unfold skipIndent
    split
    · exact Nat.le_refl _
    · exact Nat.le_trans (skipIndent_length_le k t) (Nat.le_succ _)

/-- the second pass of `stringend` (`*w++ = *r++` with indentation skipped on the read side only) never produces more bytes than it
    has read: `w ≤ r` throughout, so every write lands on a byte already read, inside `[bufstart, end)` -/
theorem reindent_length_le : ∀ (fuel ind : Nat) (l : List B), (reindent fuel ind l).length ≤ l.length
  | 0, _, l => Nat.le_refl _
  | _ + 1, _, [] => Nat.le_refl _
  | fuel + 1, ind, c :: t => by
    have hs := skipIndent_length_le ind t
    unfold reindent
    by_cases hc : (c == 10) = true
    · rw [if_pos hc]
      simp only []
      split
      · rename_i a b r' heq
        have h2 := reindent_length_le fuel ind (b :: r')
        have h3 := reindent_length_le fuel ind (skipIndent ind t)
        have hl : (skipIndent ind t).length = r'.length + 2 := by rw [heq]; rfl
        simp only [List.length_cons] at h2 ⊢
        split
        · simp only [List.length_cons]; omega
        · simp only [List.length_cons]; omega
      · have h3 := reindent_length_le fuel ind (skipIndent ind t)
        simp only [List.length_cons]; omega
    · rw [if_neg hc]
      have := reindent_length_le fuel ind t
      simp only [List.length_cons]; omega

theorem stripLeadingEol_length_le (l : List B) : (stripLeadingEol l).length ≤ l.length := by
  unfold stripLeadingEol
  split
  · simp only [List.length_cons]; omega
  · simp only [List.length_cons]; omega
  · exact Nat.le_refl _

theorem stripTrailingEol_length_le (l : List B) : (stripTrailingEol l).length ≤ l.length := by
  have key : ∀ (t : List B) (k : Nat), l.reverse.length = t.length + k → t.reverse.length ≤ l.length := by
    intro t k h
    rw [List.length_reverse] at h ⊢
    omega
  unfold stripTrailingEol
  split
  · rename_i t heq
    exact key t 2 (by rw [heq]; rfl)
  · rename_i t _ heq
    exact key t 1 (by rw [heq]; rfl)
  · exact Nat.le_refl _

/-- the string handed to `janet_string` / `janet_buffer_push_bytes` by `stringend` lies inside the scratch contents -/
theorem dedent_length_le (col : Nat) (buf : List B) : (dedent col buf).length ≤ buf.length := by
  unfold dedent
  simp only []
  refine Nat.le_trans (stripTrailingEol_length_le _) (Nat.le_trans (stripLeadingEol_length_le _) ?_)
  split
  · exact reindent_length_le _ _ _
  · exact Nat.le_refl _

/-! ### the comment-flag invariant through `parser/insert`; the complete API -/

theorem NoCF_insTail (p : Parser) (i : Nat) (s : Frame) (v : Value) (vstr : List B) (h : NoCF p) : NoCF (insTail p i s v vstr).1 := by
  unfold insTail
  by_cases hc : hasFlag s.flags PFLAG_CONTAINER = true
  · simp only [hc, if_true]
    split
    · exact modifyFrame_nocf (fun f => { f with argn := f.argn + 1 }) (fun _ => ⟨rfl, rfl⟩) _ _ h
    · exact modifyFrame_nocf (fun f => { f with argn := f.argn + 1 }) (fun _ => ⟨rfl, rfl⟩) _ _ h
  · simp only [hc, Bool.false_eq_true, if_false]
    split
    · exact h
    · exact h

theorem NoCF_insertAt (p : Parser) (v : Value) (vstr : List B) (h : NoCF p) : NoCF (insertAt p v vstr).1 := by
  rw [insertAt_eq]; exact NoCF_insTail _ _ _ _ _ h

theorem NoCF_insert (scan : List B → Option String) (p : Parser) (v : Value) (vstr : List B) (h : NoCF p) :
    NoCF (insert scan p v vstr).1 := by
  rw [insert_eq]
  have hpre := NoCF_insertPre scan p h
  cases hh : insertPre scan p with
  | mk q oe =>
    rw [hh] at hpre
    cases oe with
    | some e => exact hpre
    | none => exact NoCF_insertAt q v vstr hpre

/-- ★ `parser/insert` on the physical machine, unconditionally on every reachable state: `PInv` and the comment-flag invariant suffice -/
theorem insertM_safe (scan : List B → Option String) (m : MP) (v : Value) (vstr : List B) (h : PInv m.p) (hn : NoCF m.p) :
    (insertM scan m v vstr).1.p = (insert scan m.p v vstr).1 ∧ (insertM scan m v vstr).2 = (insert scan m.p v vstr).2 ∧
    (insertM scan m v vstr).1.fault = m.fault ∧ PInv (insert scan m.p v vstr).1 :=
  insertM_spec scan m v vstr h (commentAbove_of_nocf (WF_insertPre scan h.wf).ok (NoCF_insertPre scan m.p hn))

/-- every operation of the parser API on the physical machine -/
inductive OpF where
  | byte (c : B)
  | eof
  | produce
  | produceWrapped
  | flush
  | error
  | insert (v : Value) (vstr : List B)
  | clone
  | state

def runOpF (scan : List B → Option String) (m : MP) : OpF → MP
  | .byte c => consumeM scan m c
  | .eof => eofM scan m
  | .produce => (produceM m).2
  | .produceWrapped => (produceWrappedM m).2
  | .flush => flushM m
  | .error => (takeErrorM m).2
  | .insert v vstr => (insertM scan m v vstr).1
  | .clone => cloneM m
  | .state => (stateDelimsM m).2

def runOpFL (scan : List B → Option String) (p : Parser) : OpF → Parser
  | .byte c => consume scan p c
  | .eof => eof scan p
  | .produce => (produce p).2
  | .produceWrapped => (produceWrapped p).2
  | .flush => flush p
  | .error => (takeError p).2
  | .insert v vstr => (insert scan p v vstr).1
  | .clone => clone p
  | .state => p

theorem runOpF_spec (scan : List B → Option String) (m : MP) (op : OpF) (h : PInv m.p) (hn : NoCF m.p) :
    (runOpF scan m op).p = runOpFL scan m.p op ∧ (runOpF scan m op).fault = m.fault ∧ PInv (runOpFL scan m.p op) ∧
    NoCF (runOpFL scan m.p op) := by
  cases op with
  | byte c => exact ⟨(consumeM_spec scan m c h).1, (consumeM_spec scan m c h).2.1, (consumeM_spec scan m c h).2.2, NoCF_consume scan _ c hn⟩
  | eof => exact ⟨(eofM_spec scan m h).1, (eofM_spec scan m h).2.1, (eofM_spec scan m h).2.2, NoCF_eof scan _ hn⟩
  | produce => exact ⟨(produceM_spec m h).2.1, (produceM_spec m h).2.2.1, (produceM_spec m h).2.2.2, NoCF_produce _ hn⟩
  | produceWrapped =>
    exact ⟨(produceWrappedM_spec m h).2.1, (produceWrappedM_spec m h).2.2.1, (produceWrappedM_spec m h).2.2.2, NoCF_produceWrapped _ hn⟩
  | flush => exact ⟨(flushM_spec m h.wf).1, (flushM_spec m h.wf).2.1, (flushM_spec m h.wf).2.2, NoCF_flush _ hn⟩
  | error => exact ⟨(takeErrorM_spec m h).2.1, (takeErrorM_spec m h).2.2.1, (takeErrorM_spec m h).2.2.2, NoCF_takeError _ hn⟩
  | insert v vstr =>
    obtain ⟨h1, _, h3, h4⟩ := insertM_safe scan m v vstr h hn
    exact ⟨h1, h3, h4, NoCF_insert scan _ v vstr hn⟩
  | clone => exact ⟨(cloneM_spec m).1, (cloneM_spec m).2.1, h, hn⟩
  | state => exact ⟨(stateDelimsM_spec m).2.1, (stateDelimsM_spec m).2.2, h, hn⟩

theorem runOpsF_spec (scan : List B → Option String) (ops : List OpF) : ∀ (m : MP), PInv m.p → NoCF m.p →
    (ops.foldl (runOpF scan) m).p = ops.foldl (runOpFL scan) m.p ∧ (ops.foldl (runOpF scan) m).fault = m.fault := by
  induction ops with
  | nil => intro m _ _; exact ⟨rfl, rfl⟩
  | cons op rest ih =>
    intro m h hn
    obtain ⟨h1, h2, h3, h4⟩ := runOpF_spec scan m op h hn
    obtain ⟨i1, i2⟩ := ih (runOpF scan m op) (by rw [h1]; exact h3) (by rw [h1]; exact h4)
    simp only [List.foldl_cons]
    rw [h1] at i1
    exact ⟨i1, by rw [i2, h2]⟩

end JanetModel.Parse
