/- The physical machine along whole histories: consume / eof / produce / flush / error and the client protocol (`feed`, `finish`).
   For every history from `janet_parser_init` the machine computes the logical model's parser and NO checked access fails. -/
import JanetModel.Parse.PhysInv

namespace JanetModel.Parse
open JanetModel.Gen.Parse

/-- what holds of the parser between API calls -/
structure PInv (p : Parser) : Prop where
  wf : WF p
  tok : TokInv p

theorem pinv_init : PInv Parser.init := ⟨WF_init, tokInv_init⟩

theorem tokInv_congr {p p' : Parser} (hs : p'.states.map (·.consumer) = p.states.map (·.consumer)) (hb : p'.buf = p.buf)
    (h : TokInv p) : TokInv p' := by
  obtain ⟨h1, h2⟩ := h
  have htail : p'.states.tail.map (·.consumer) = p.states.tail.map (·.consumer) := by
    rw [List.map_tail, List.map_tail, hs]
  refine ⟨?_, ?_⟩
  · intro f hf
    have : f.consumer ∈ p'.states.tail.map (·.consumer) := List.mem_map_of_mem hf
    rw [htail] at this
    obtain ⟨g, hg, hgc⟩ := List.mem_map.mp this
    rw [← hgc]; exact h1 g hg
  · intro s rest hs' hc
    rw [hb]
    cases hp : p.states with
    | nil => rw [hp, hs'] at hs; simp at hs
    | cons s0 rest0 =>
      rw [hp, hs'] at hs
      simp only [List.map_cons, List.cons.injEq] at hs
      exact h2 s0 rest0 hp (by rw [← hs.1]; exact hc)

theorem advancePos_sb (p : Parser) (c : B) : (advancePos p c).states = p.states ∧ (advancePos p c).buf = p.buf := by
  unfold advancePos
  split
  · exact ⟨rfl, rfl⟩
  · split <;> exact ⟨rfl, rfl⟩

/-! ### consume, eof -/

theorem consumeRawM_spec (scan : List B → Option String) (m : MP) (c : B) (h : PInv m.p) :
    (consumeRawM scan m c).p = consumeRaw scan m.p c ∧ (consumeRawM scan m c).fault = m.fault ∧ PInv (consumeRaw scan m.p c) := by
  have hsome := consumeLoop_total scan (advancePos m.p c) c
  obtain ⟨q, hq⟩ := Option.isSome_iff_exists.mp hsome
  have hsb := advancePos_sb m.p c
  have hti : TokInv (advancePos m.p c) := tokInv_congr (by rw [hsb.1]) hsb.2 h.tok
  have hspec := consumeLoopM_spec scan c (loopFuel (advancePos m.p c))
    (m.scal (fun p => advancePos p c) (advancePos_lens m.p c)) q (WF_advancePos c h.wf) hti.1 (hti.tokL c) hq
  obtain ⟨h1, h2, h3, h4⟩ := hspec
  have hraw : consumeRaw scan m.p c = { q with lookback := Int.ofNat c.toNat } := by
    unfold consumeRaw
    simp only [hq, Option.getD_some]
  unfold consumeRawM
  simp only [scal_p, scal_fault]
  rw [hraw]
  refine ⟨by rw [h1], by rw [h2]; rfl, ⟨h3.ok, h3.sum, h3.rootn⟩, tokInv_congr rfl rfl h4⟩

theorem checkDead_sb {p : Parser} (h : checkDead p = none) : p.error = none ∧ p.flag = 0 := by
  unfold checkDead at h
  by_cases hf : (p.flag != 0) = true
  · rw [if_pos hf] at h; cases h
  · rw [if_neg hf] at h
    by_cases he : p.error.isSome = true
    · rw [if_pos he] at h; cases h
    · refine ⟨?_, by simpa using hf⟩
      cases hh : p.error with
      | none => rfl
      | some e => rw [hh] at he; simp at he

theorem consumeM_spec (scan : List B → Option String) (m : MP) (c : B) (h : PInv m.p) :
    (consumeM scan m c).p = consume scan m.p c ∧ (consumeM scan m c).fault = m.fault ∧ PInv (consume scan m.p c) := by
  unfold consumeM consume
  cases checkDead m.p with
  | some _ => exact ⟨rfl, rfl, h⟩
  | none => exact consumeRawM_spec scan m c h

/-- what `janet_parser_eof` does after feeding the newline -/
def eofTailM (M : MP) (l c : Nat) : MP :=
  (if M.p.states.length > 1 then delimErrorM M (M.p.states.length - 1) none "unexpected end of source" else M).scal
    (fun q => { q with line := l, column := c, flag := q.flag ||| JANET_PARSER_DEAD }) ⟨rfl, rfl, rfl⟩

def eofTail (Q : Parser) (l c : Nat) : Parser :=
  let p2 := if Q.states.length > 1 then delimError Q (Q.states.length - 1) none "unexpected end of source" else Q
  { p2 with line := l, column := c, flag := p2.flag ||| JANET_PARSER_DEAD }

theorem eofM_eq (scan : List B → Option String) (m : MP) : eofM scan m =
    match checkDead m.p with
    | some _ => m
    | none => eofTailM (consumeRawM scan m 10) m.p.line m.p.column := rfl

theorem eof_eq (scan : List B → Option String) (p : Parser) : eof scan p =
    match checkDead p with
    | some _ => p
    | none => eofTail (consumeRaw scan p 10) p.line p.column := rfl

theorem eofTailM_spec (M : MP) (l c : Nat) (hne : M.p.states ≠ []) :
    (eofTailM M l c).p = eofTail M.p l c ∧ (eofTailM M l c).fault = M.fault := by
  have hpos : 0 < M.p.states.length := List.length_pos_iff.mpr hne
  unfold eofTailM eofTail
  simp only [scal_p, scal_fault]
  by_cases hl : M.p.states.length > 1
  · have hlt : M.p.states.length - 1 < M.p.states.length := by omega
    rw [if_pos hl, if_pos hl]
    refine ⟨rfl, ?_⟩
    rw [delimErrorM_fault]; simp [hlt]
  · rw [if_neg hl, if_neg hl]
    exact ⟨rfl, rfl⟩

theorem eofTail_sb (Q : Parser) (l c : Nat) : (eofTail Q l c).states = Q.states ∧ (eofTail Q l c).buf = Q.buf := by
  unfold eofTail
  by_cases hl : Q.states.length > 1
  · rw [if_pos hl]; exact ⟨rfl, rfl⟩
  · rw [if_neg hl]; exact ⟨rfl, rfl⟩

theorem eofM_spec (scan : List B → Option String) (m : MP) (h : PInv m.p) :
    (eofM scan m).p = eof scan m.p ∧ (eofM scan m).fault = m.fault ∧ PInv (eof scan m.p) := by
  have hwf := WF_eof scan h.wf
  rw [eof_eq] at hwf ⊢
  rw [eofM_eq]
  cases hcd : checkDead m.p with
  | some _ => exact ⟨rfl, rfl, h⟩
  | none =>
    simp only [hcd] at hwf
    obtain ⟨h1, h2, h3⟩ := consumeRawM_spec scan m 10 h
    have hne : (consumeRawM scan m 10).p.states ≠ [] := by rw [h1]; exact okFrames_ne_nil h3.wf.ok
    obtain ⟨t1, t2⟩ := eofTailM_spec (consumeRawM scan m 10) m.p.line m.p.column hne
    simp only []
    rw [h1] at t1
    have hsb := eofTail_sb (consumeRaw scan m.p 10) m.p.line m.p.column
    exact ⟨t1, by rw [t2, h2], hwf, tokInv_congr (by rw [hsb.1]) hsb.2 h3.tok⟩

/-! ### produce, flush, error -/

theorem decRoot_consumers : ∀ l : List Frame, (decRoot l).map (·.consumer) = l.map (·.consumer)
  | [] => rfl
  | [_] => rfl
  | f :: g :: l => by
    have := decRoot_consumers (g :: l)
    simp only [decRoot, List.map_cons] at this ⊢
    rw [this]

theorem produceWrappedM_spec (m : MP) (h : PInv m.p) :
    (produceWrappedM m).1 = (produceWrapped m.p).1 ∧ (produceWrappedM m).2.p = (produceWrapped m.p).2 ∧
    (produceWrappedM m).2.fault = m.fault ∧ PInv (produceWrapped m.p).2 := by
  unfold produceWrappedM produceWrapped
  by_cases h0 : (m.p.pending == 0) = true
  · rw [if_pos h0, if_pos h0]; exact ⟨rfl, rfl, rfl, h⟩
  · rw [if_neg h0, if_neg h0]
    have hp : 1 ≤ m.p.pending := by
      have : m.p.pending ≠ 0 := by simpa using h0
      omega
    obtain ⟨A, z, hA⟩ := args_concat h.wf hp
    have hargs : 0 < m.p.args.length := by rw [hA]; simp
    have hst : 0 < m.p.states.length := List.length_pos_iff.mpr (okFrames_ne_nil h.wf.ok)
    have hwf := WF_produce h.wf
    rw [produce_eq hp hA] at hwf
    simp only [hargs, hst, decide_true, chk_true]
    simp only [hA, List.reverse_append, List.reverse_cons, List.reverse_nil, List.nil_append,
      List.singleton_append, List.reverse_reverse, List.dropLast_concat]
    refine ⟨trivial, trivial, trivial, ?_, ?_⟩
    · have : dropQ m.p = { m.p with args := A, pending := m.p.pending - 1, states := decRootArgn m.p.states } := by
        simp [dropQ, hA, decRootArgn_eq]
      rw [this] at hwf
      exact hwf
    · exact tokInv_congr (p := m.p) (by simp only []; rw [decRootArgn_eq, decRoot_consumers]) rfl h.tok

theorem produceM_spec (m : MP) (h : PInv m.p) :
    (produceM m).1 = (produce m.p).1 ∧ (produceM m).2.p = (produce m.p).2 ∧ (produceM m).2.fault = m.fault ∧ PInv (produce m.p).2 := by
  obtain ⟨h1, h2, h3, h4⟩ := produceWrappedM_spec m h
  unfold produceM produce
  cases hm : produceWrappedM m with
  | mk ov m' =>
    cases hl : produceWrapped m.p with
    | mk ov' p' =>
      rw [hm] at h1 h2 h3
      rw [hl] at h1 h2 h4
      simp only at h1 h2 h3 h4
      subst h1
      cases ov <;> exact ⟨rfl, h2, h3, h4⟩

theorem tokInv_flush {p : Parser} (h : WF p) : TokInv (flush p) := by
  obtain ⟨r, h1, h2, _⟩ := okFrames_last h.ok
  have hb : ∀ (b : Bool) (f : Frame → Frame), (∀ x, (f x).consumer = x.consumer) →
      ∃ r', (if b = true then [r].map f else [r]) = [r'] ∧ r'.consumer = .root := by
    intro b f hf
    cases b
    · exact ⟨r, rfl, h2⟩
    · exact ⟨f r, rfl, by rw [hf]; exact h2⟩
  obtain ⟨r', hr', hc'⟩ := hb flushResetsRootArgn (fun s => { s with argn := 0 }) (fun _ => rfl)
  have hst : (flush p).states = [r'] := by
    unfold flush
    simp only [h1]
    exact hr'
  refine ⟨by unfold Below; rw [hst]; simp [AllRoot], ?_⟩
  intro s rest hs hc
  rw [hst] at hs
  cases hs
  rw [hc'] at hc; cases hc

theorem flushM_spec (m : MP) (h : WF m.p) : (flushM m).p = flush m.p ∧ (flushM m).fault = m.fault ∧ PInv (flush m.p) := by
  have hst : 0 < m.p.states.length := List.length_pos_iff.mpr (okFrames_ne_nil h.ok)
  refine ⟨rfl, ?_, WF_flush h, tokInv_flush h⟩
  simp [flushM, hst]

theorem takeErrorM_spec (m : MP) (h : PInv m.p) :
    (takeErrorM m).1 = (takeError m.p).1 ∧ (takeErrorM m).2.p = (takeError m.p).2 ∧ (takeErrorM m).2.fault = m.fault ∧
    PInv (takeError m.p).2 := by
  unfold takeErrorM takeError
  cases he : m.p.error with
  | none => exact ⟨rfl, rfl, rfl, h⟩
  | some e =>
    simp only []
    have hwf : WF { m.p with error := none, flag := m.p.flag &&& (0xFFFFFFFF ^^^ JANET_PARSER_GENERATED_ERROR) } :=
      ⟨h.wf.ok, h.wf.sum, h.wf.rootn⟩
    obtain ⟨h1, h2, h3⟩ := flushM_spec
      (m.scal (fun p => { p with error := none, flag := p.flag &&& (0xFFFFFFFF ^^^ JANET_PARSER_GENERATED_ERROR) }) ⟨rfl, rfl, rfl⟩) hwf
    exact ⟨trivial, h1, h2, h3⟩

/-! ### the client protocol -/

/-- the logical run a physical run stands for -/
def MRun.abs (r : MRun) : Run := { p := r.m.p, out := r.out }

/-- a physical run in good standing: invariant holds, no check has failed -/
structure MOk (r : MRun) : Prop where
  inv : PInv r.m.p
  safe : r.m.fault = false

theorem mok_init : MOk MRun.init := ⟨pinv_init, rfl⟩

theorem drainAuxM_spec : ∀ (n : Nat) (m : MP) (acc : List Event), PInv m.p →
    (drainAuxM n m acc).1.p = (drainAux n m.p acc).1 ∧ (drainAuxM n m acc).2 = (drainAux n m.p acc).2 ∧
    (drainAuxM n m acc).1.fault = m.fault ∧ PInv (drainAux n m.p acc).1 := by
  intro n
  induction n with
  | zero => intro m acc h; exact ⟨rfl, rfl, rfl, h⟩
  | succ k ih =>
    intro m acc h
    obtain ⟨h1, h2, h3, h4⟩ := produceM_spec m h
    unfold drainAuxM drainAux
    cases hm : produceM m with
    | mk ov m' =>
      cases hl : produce m.p with
      | mk ov' p' =>
        rw [hm] at h1 h2 h3
        rw [hl] at h1 h2 h4
        simp only at h1 h2 h3 h4
        subst h1
        cases ov with
        | none => exact ⟨h2, rfl, h3, h4⟩
        | some v =>
          simp only []
          have := ih m' (acc ++ [.value v]) (by rw [h2]; exact h4)
          rw [h2, h3] at this
          exact this

theorem drainM_spec (r : MRun) (h : MOk r) : (drainM r).abs = drain r.abs ∧ MOk (drainM r) := by
  obtain ⟨h1, h2, h3, h4⟩ := drainAuxM_spec r.m.p.pending r.m r.out h.inv
  unfold drainM drain MRun.abs
  simp only []
  refine ⟨?_, ⟨by rw [h1]; exact h4, by rw [h3]; exact h.safe⟩⟩
  rw [h1, h2]

theorem handleErrorM_spec (r : MRun) (h : MOk r) : (handleErrorM r).abs = handleError r.abs ∧ MOk (handleErrorM r) := by
  unfold handleErrorM handleError
  have habs : r.abs.p = r.m.p := rfl
  rw [habs]
  by_cases he : r.m.p.error.isSome = true
  · simp only [he, if_true]
    obtain ⟨hd1, hd2⟩ := drainM_spec r h
    obtain ⟨t1, t2, t3, t4⟩ := takeErrorM_spec (drainM r).m hd2.inv
    have hdp : (drain r.abs).p = (drainM r).m.p := by rw [← hd1]; rfl
    have hdo : (drain r.abs).out = (drainM r).out := by rw [← hd1]; rfl
    rw [hdp, hdo]
    cases hm : takeErrorM (drainM r).m with
    | mk oe m' =>
      cases hl : takeError (drainM r).m.p with
      | mk oe' p' =>
        rw [hm] at t1 t2 t3
        rw [hl] at t1 t2 t4
        simp only at t1 t2 t3 t4
        subst t1
        cases oe with
        | none => exact ⟨by simp [MRun.abs, t2], ⟨by rw [t2]; exact t4, by rw [t3]; exact hd2.safe⟩⟩
        | some e => exact ⟨by simp [MRun.abs, t2], ⟨by rw [t2]; exact t4, by rw [t3]; exact hd2.safe⟩⟩
  · rw [if_neg he, if_neg he]
    exact ⟨rfl, h⟩

theorem feedByteM_spec (scan : List B → Option String) (r : MRun) (c : B) (h : MOk r) :
    (feedByteM scan r c).abs = feedByte scan r.abs c ∧ MOk (feedByteM scan r c) := by
  obtain ⟨h1, h2, h3⟩ := consumeM_spec scan r.m c h.inv
  have hok : MOk { r with m := consumeM scan r.m c } := ⟨by rw [h1]; exact h3, by rw [h2]; exact h.safe⟩
  obtain ⟨e1, e2⟩ := handleErrorM_spec _ hok
  unfold feedByteM feedByte
  refine ⟨?_, e2⟩
  rw [e1]
  simp [MRun.abs, h1]

theorem feedM_spec (scan : List B → Option String) (bs : List B) : ∀ (r : MRun), MOk r →
    (feedM scan r bs).abs = feed scan r.abs bs ∧ MOk (feedM scan r bs) := by
  induction bs with
  | nil => intro r h; exact ⟨rfl, h⟩
  | cons c cs ih =>
    intro r h
    obtain ⟨h1, h2⟩ := feedByteM_spec scan r c h
    obtain ⟨i1, i2⟩ := ih _ h2
    unfold feedM feed at *
    simp only [List.foldl_cons]
    rw [← h1]
    exact ⟨i1, i2⟩

theorem finishM_spec (scan : List B → Option String) (r : MRun) (h : MOk r) :
    (finishM scan r).abs = finish scan r.abs ∧ MOk (finishM scan r) := by
  obtain ⟨h1, h2, h3⟩ := eofM_spec scan r.m h.inv
  have hok : MOk { r with m := eofM scan r.m } := ⟨by rw [h1]; exact h3, by rw [h2]; exact h.safe⟩
  obtain ⟨e1, e2⟩ := handleErrorM_spec _ hok
  obtain ⟨d1, d2⟩ := drainM_spec _ e2
  unfold finishM finish
  refine ⟨?_, d2⟩
  rw [d1, e1]
  simp [MRun.abs, h1]

/-! ### arbitrary API histories -/

/-- raw API calls on the physical machine, in any order (no client discipline) -/
inductive OpM where
  | byte (c : B)
  | eof
  | produce
  | produceWrapped
  | flush
  | error

def runOpM (scan : List B → Option String) (m : MP) : OpM → MP
  | .byte c => consumeM scan m c
  | .eof => eofM scan m
  | .produce => (produceM m).2
  | .produceWrapped => (produceWrappedM m).2
  | .flush => flushM m
  | .error => (takeErrorM m).2

/-- the same calls on the logical model -/
def runOpL (scan : List B → Option String) (p : Parser) : OpM → Parser
  | .byte c => consume scan p c
  | .eof => eof scan p
  | .produce => (produce p).2
  | .produceWrapped => (produceWrapped p).2
  | .flush => flush p
  | .error => (takeError p).2

theorem runOpM_spec (scan : List B → Option String) (m : MP) (op : OpM) (h : PInv m.p) :
    (runOpM scan m op).p = runOpL scan m.p op ∧ (runOpM scan m op).fault = m.fault ∧ PInv (runOpL scan m.p op) := by
  cases op with
  | byte c => exact consumeM_spec scan m c h
  | eof => exact eofM_spec scan m h
  | produce => exact (produceM_spec m h).2
  | produceWrapped => exact (produceWrappedM_spec m h).2
  | flush => exact flushM_spec m h.wf
  | error => exact (takeErrorM_spec m h).2

theorem runOpsM_spec (scan : List B → Option String) (ops : List OpM) : ∀ (m : MP), PInv m.p →
    (ops.foldl (runOpM scan) m).p = ops.foldl (runOpL scan) m.p ∧ (ops.foldl (runOpM scan) m).fault = m.fault ∧
    PInv (ops.foldl (runOpL scan) m.p) := by
  induction ops with
  | nil => intro m h; exact ⟨rfl, rfl, h⟩
  | cons op rest ih =>
    intro m h
    obtain ⟨h1, h2, h3⟩ := runOpM_spec scan m op h
    obtain ⟨i1, i2, i3⟩ := ih (runOpM scan m op) (by rw [h1]; exact h3)
    simp only [List.foldl_cons]
    rw [h1] at i1 i3
    exact ⟨i1, by rw [i2, h2], i3⟩

end JanetModel.Parse
