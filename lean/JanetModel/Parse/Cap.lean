/- Capacities of the parser's three stacks (`buf`/`bufcap`, `states`/`statecap`, `args`/`argcap`): executable overlay on the
   parser model.  CORE LEAN ONLY (linked into jm_c11).

   The C keeps `count ≤ cap` by growing in `DEF_PARSER_STACK` (push_buf / push_arg / _pushstate):
       newcount = oldcount + 1;  if (newcount > cap) { newcap = FACTOR * newcount; realloc; }  STACK[oldcount] = x;
   `parser/insert` into a string grows the scratch buffer in one jump (`if (bufcap < newcount) newcap = FACTOR2 * newcount`),
   `parser/state :delimiters` pushes the delimiters on the scratch buffer temporarily, `janet_parser_clone` allocates exactly the counts.
   Nothing ever shrinks a capacity.  Within one consumer step every stack either only pops, or pops and then pushes at most back to
   its old height, or only pushes -- so the capacities after a step are a function of the counts before and after
   (`stepCaps`; this modelling assumption is what the correspondence on the real `bufcap`/`statecap`/`argcap` tests). -/
import JanetModel.Parse.Model

namespace JanetModel.Parse
open JanetModel.Gen.Parse

structure Caps where
  buf : Nat
  states : Nat
  args : Nat
  deriving Repr, DecidableEq, Inhabited

/-- `DEF_PARSER_STACK`: the capacity after one push onto a stack holding `count` elements -/
def growCap (cap count : Nat) : Nat := if count + 1 > cap then stackGrowFactor * (count + 1) else cap

/-- `n` pushes starting at height `a` -/
def growTo (cap a : Nat) : Nat → Nat
  | 0 => cap
  | n + 1 => growTo (growCap cap a) (a + 1) n

/-- the pushes that take a stack from height `a` to height `b` (none if `b ≤ a`) -/
def pushes (cap a b : Nat) : Nat := growTo cap a (b - a)

/-- one jump to `newcount` (`cfun_parse_insert` into a string) -/
def jumpCap (cap newcount : Nat) : Nat := if cap < newcount then insertGrowFactor * newcount else cap

/-- capacities after one consumer step `p → p'` -/
def stepCaps (k : Caps) (p p' : Parser) : Caps :=
  { buf := pushes k.buf p.buf.length p'.buf.length,
    states := pushes k.states p.states.length p'.states.length,
    args := pushes k.args p.args.length p'.args.length }

/-- the loop of `janet_parser_consume`, tracking capacities only -/
def consumeLoopK (scan : List B → Option String) : Nat → Caps → Parser → B → Caps
  | 0, k, _, _ => k
  | fuel + 1, k, p, c =>
    if p.error.isSome then k
    else
      let (p', consumed) := step scan p c
      let k' := stepCaps k p p'
      if consumed then k' else consumeLoopK scan fuel k' p' c

def consumeRawK (scan : List B → Option String) (k : Caps) (p : Parser) (c : B) : Caps :=
  consumeLoopK scan (loopFuel (advancePos p c)) k (advancePos p c) c

def consumeK (scan : List B → Option String) (k : Caps) (p : Parser) (c : B) : Caps :=
  match checkDead p with
  | some _ => k
  | none => consumeRawK scan k p c

def eofK (scan : List B → Option String) (k : Caps) (p : Parser) : Caps := consumeK scan k p 10

/-- `janet_parser_init`: everything empty, then the root frame is pushed -/
def Caps.init : Caps := { buf := 0, states := growCap 0 0, args := 0 }

/-- `janet_parser_clone`: "capacities are equal to counts" -/
def cloneK (p : Parser) : Caps := { buf := p.buf.length, states := p.states.length, args := p.args.length }

/-- `parser/state` (`parser_state_delimiters`) pushes the delimiters behind the scratch buffer's contents and pops them again -/
def stateK (k : Caps) (p : Parser) : Caps :=
  { k with buf := pushes k.buf p.buf.length (p.buf.length + (delimiters p).length) }

/-- the parser `cfun_parse_insert` works on after finishing a pending token -/
def insertMid (scan : List B → Option String) (p : Parser) : Parser :=
  match p.states with
  | top :: _ => if top.consumer == Consumer.tokenchar && (checkDead p).isNone then consumeRaw scan p 32 else p
  | [] => p

/-- capacities after the token part of `parser/insert` (it goes through `janet_parser_consume`) -/
def insertK1 (scan : List B → Option String) (k : Caps) (p : Parser) : Caps :=
  match p.states with
  | top :: _ => if top.consumer == Consumer.tokenchar && (checkDead p).isNone then consumeRawK scan k p 32 else k
  | [] => k

/-- `parser/insert`: a value is one `push_arg`; text into a string is one jump -/
def insertK (scan : List B → Option String) (k : Caps) (p : Parser) (v : Value) (vstr : List B) : Caps :=
  let k1 := insertK1 scan k p
  let q := insertMid scan p
  let q' := (insert scan p v vstr).1
  { buf := if q.buf.length < q'.buf.length then jumpCap k1.buf q'.buf.length else k1.buf,
    states := k1.states,
    args := pushes k1.args q.args.length q'.args.length }

/-- the invariant: every count is within its capacity -/
def CapOK (k : Caps) (p : Parser) : Prop := p.buf.length ≤ k.buf ∧ p.states.length ≤ k.states ∧ p.args.length ≤ k.args

end JanetModel.Parse
