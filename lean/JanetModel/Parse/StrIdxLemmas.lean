/- The index-level loops of `stringend` (`Parse/StrIdx.lean`) never fail a checked access and compute the list-level functions of
   `Model.lean`: `reindentI_spec`, `dedentI_spec`. -/
import JanetModel.Parse.StrIdx

namespace JanetModel.Parse

theorem inb_of_lt {b : List B} {i : Nat} (h : i < b.length) : inb b i = true := by simp [inb, h]

theorem drop_cons_getD {b : List B} {r : Nat} (h : r < b.length) : b.drop r = b.getD r 0 :: b.drop (r + 1) := by
  rw [List.drop_eq_getElem_cons h]; simp [List.getElem?_eq_getElem h]

theorem drop_len_nil {b : List B} {r : Nat} (h : ¬ r < b.length) : b.drop r = [] := List.drop_eq_nil_of_le (by omega)

theorem take_set_succ : ∀ (l : List B) (w : Nat) (a : B), w < l.length → (l.set w a).take (w + 1) = l.take w ++ [a]
  | [], _, _, h => by simp at h
  | x :: xs, 0, a, _ => by simp
  | x :: xs, w + 1, a, h => by
    simp only [List.set_cons_succ, List.take_succ_cons, List.cons_append, List.cons.injEq, true_and]
    exact take_set_succ xs w a (by simpa using h)

theorem drop_set_lt : ∀ (l : List B) (w r : Nat) (a : B), w < r → (l.set w a).drop r = l.drop r
  | [], _, _, _, _ => by simp
  | x :: xs, 0, r + 1, a, _ => by simp
  | x :: xs, w + 1, r + 1, a, h => by
    simp only [List.set_cons_succ, List.drop_succ_cons]
    exact drop_set_lt xs w r a (by omega)
  | x :: xs, _, 0, _, h => by omega

/-! ### first pass -/

theorem forCheckI_spec (b : List B) : ∀ (k r : Nat) (ok : Bool), r ≤ b.length →
    ∃ r', forCheckI b b.length k r ok = ((indentCheckLine k (b.drop r)).1, r', ok) ∧ r ≤ r' ∧ r' ≤ b.length ∧
      b.drop r' = (indentCheckLine k (b.drop r)).2 := by
  intro k
  induction k with
  | zero =>
    intro r ok hr
    refine ⟨r, ?_, Nat.le_refl _, hr, by simp [indentCheckLine]⟩
    unfold forCheckI
    by_cases h : r < b.length
    · simp [h, inb_of_lt h, indentCheckLine]
    · simp [h, indentCheckLine]
  | succ k ih =>
    intro r ok hr
    unfold forCheckI
    by_cases h : r < b.length
    · rw [if_pos h]
      have hd := drop_cons_getD h
      simp only [inb_of_lt h, Bool.and_true]
      generalize b.getD r 0 = c at hd ⊢
      rw [hd]
      by_cases h10 : c = 10
      · subst h10
        exact ⟨r, by simp [indentCheckLine], Nat.le_refl _, hr, by simp [indentCheckLine, hd]⟩
      · by_cases h32 : c = 32
        · subst h32
          obtain ⟨r', e1, e2, e3, e4⟩ := ih (r + 1) ok (by omega)
          exact ⟨r', by simpa [indentCheckLine] using e1, by omega, e3, by simpa [indentCheckLine] using e4⟩
        · exact ⟨r, by simp [indentCheckLine, h10, h32], Nat.le_refl _, hr, by simp [indentCheckLine, h10, h32, hd]⟩
    · refine ⟨r, ?_, Nat.le_refl _, hr, ?_⟩
      · simp [h, drop_len_nil h, indentCheckLine]
      · simp [drop_len_nil h, indentCheckLine]

theorem crlfAtI_spec (b : List B) (r : Nat) (ok : Bool) : crlfAtI b b.length r ok = (startsCRLF (b.drop r), ok) := by
  unfold crlfAtI
  by_cases h : r + 1 < b.length
  · have h0 : r < b.length := by omega
    rw [if_pos h, drop_cons_getD h0, drop_cons_getD h]
    simp [startsCRLF, inb_of_lt h, inb_of_lt h0]
  · rw [if_neg h]
    by_cases h0 : r < b.length
    · rw [drop_cons_getD h0, drop_len_nil (by omega : ¬ r + 1 < b.length)]; simp [startsCRLF]
    · rw [drop_len_nil h0]; simp [startsCRLF]

theorem ite_pair {α β : Type} (g : Prop) [Decidable g] (x y : α) (ok : β) : (if g then (x, ok) else (y, ok)) = (if g then x else y, ok) := by
  split <;> rfl

theorem checkI_spec (b : List B) (ind : Nat) : ∀ (fuel r : Nat) (ok : Bool), r ≤ b.length →
    checkI b b.length ind fuel r ok = (reindentCheck fuel ind (b.drop r), ok) := by
  intro fuel
  induction fuel with
  | zero => intro r ok _; simp [checkI, reindentCheck]
  | succ fuel ih =>
    intro r ok hr
    unfold checkI
    by_cases h : r < b.length
    · rw [if_pos h]
      have hd := drop_cons_getD h
      simp only [inb_of_lt h, Bool.and_true]
      generalize b.getD r 0 = c at hd ⊢
      rw [hd]
      by_cases h10 : c = 10
      · subst h10
        obtain ⟨r', e1, e2, e3, e4⟩ := forCheckI_spec b ind (r + 1) ok (by omega)
        simp only [beq_self_eq_true, if_true, e1, crlfAtI_spec, e4, reindentCheck]
        rw [ih r' ok e3, e4]
        exact ite_pair _ _ _ _
      · have : (c == 10) = false := by simpa using h10
        simp only [this, Bool.false_eq_true, if_false, reindentCheck]
        exact ih (r + 1) ok (by omega)
    · rw [if_neg h, drop_len_nil h]
      cases fuel <;> simp [reindentCheck]

/-! ### second pass -/

theorem skipI_spec (b : List B) : ∀ (k r : Nat) (ok : Bool), r ≤ b.length →
    ∃ r', skipI b b.length k r ok = (r', ok) ∧ r ≤ r' ∧ r' ≤ b.length ∧ b.drop r' = skipIndent k (b.drop r) := by
  intro k
  induction k with
  | zero =>
    intro r ok hr
    refine ⟨r, ?_, Nat.le_refl _, hr, by simp [skipIndent]⟩
    unfold skipI
    by_cases h : r < b.length
    · simp [h, inb_of_lt h]
    · simp [h]
  | succ k ih =>
    intro r ok hr
    unfold skipI
    by_cases h : r < b.length
    · rw [if_pos h]
      have hd := drop_cons_getD h
      simp only [inb_of_lt h, Bool.and_true]
      generalize b.getD r 0 = c at hd ⊢
      rw [hd]
      by_cases h10 : c = 10
      · subst h10
        exact ⟨r, by simp, Nat.le_refl _, hr, by simp [skipIndent, hd]⟩
      · obtain ⟨r', e1, e2, e3, e4⟩ := ih (r + 1) ok (by omega)
        exact ⟨r', by simpa [h10] using e1, by omega, e3, by simpa [skipIndent, h10] using e4⟩
    · exact ⟨r, by simp [h], Nat.le_refl _, hr, by simp [drop_len_nil h, skipIndent]⟩

theorem reindent_lf_crlf (fuel ind : Nat) (t : List B) (d : B) (rest : List B)
    (hs : skipIndent ind t = 13 :: 10 :: rest) (hd : d = 10) :
    reindent (fuel + 1) ind (10 :: t) = 10 :: 13 :: reindent fuel ind (d :: rest) := by
  subst hd
  simp [reindent, hs]

theorem reindent_lf_plain (fuel ind : Nat) (t : List B) (hs : startsCRLF (skipIndent ind t) = false) :
    reindent (fuel + 1) ind (10 :: t) = 10 :: reindent fuel ind (skipIndent ind t) := by
  simp only [reindent, beq_self_eq_true, if_true]
  cases hsk : skipIndent ind t with
  | nil => rfl
  | cons a l =>
    cases l with
    | nil => rfl
    | cons d rest =>
      rw [hsk] at hs
      simp only [startsCRLF] at hs
      simp [hs]

theorem rewriteI_spec (e ind : Nat) : ∀ (fuel : Nat) (b : List B) (r w : Nat) (ok : Bool), b.length = e → w ≤ r → r ≤ e → e - r < fuel →
    ∃ b' w', rewriteI e ind fuel b r w ok = (b', w', ok) ∧ b'.length = e ∧ w' ≤ e ∧
      b'.take w' = b.take w ++ reindent fuel ind (b.drop r) := by
  intro fuel
  induction fuel with
  | zero =>
    intro b r w ok hl hw hr hf
    omega
  | succ fuel ih =>
    intro b r w ok hl hw hr hf
    unfold rewriteI
    by_cases h : r < e
    · have hrl : r < b.length := by omega
      have hwl : w < b.length := by omega
      rw [if_pos h]
      have hd := drop_cons_getD hrl
      simp only [inb_of_lt hrl, inb_of_lt hwl, Bool.and_true]
      generalize b.getD r 0 = c at hd ⊢
      rw [hd]
      have hl1 : (b.set w c).length = e := by simp [hl]
      by_cases h10 : c = 10
      · subst h10
        simp only [beq_self_eq_true, if_true]
        -- the unread part is untouched by the write at w ≤ r
        have hd1 : (b.set w 10).drop (r + 1) = b.drop (r + 1) := drop_set_lt b w (r + 1) _ (by omega)
        obtain ⟨r', s1, s2, s3, s4⟩ := skipI_spec (b.set w 10) ind (r + 1) ok (by omega)
        rw [hl1] at s1 s3
        rw [hd1] at s4
        have hc := crlfAtI_spec (b.set w 10) r' ok
        rw [hl1, s4] at hc
        simp only [s1, hc]
        by_cases hcr : startsCRLF (skipIndent ind (b.drop (r + 1))) = true
        · simp only [hcr, if_true]
          -- shape of the rest: CR LF ...
          cases hsk : skipIndent ind (b.drop (r + 1)) with
          | nil => rw [hsk] at hcr; simp [startsCRLF] at hcr
          | cons a l =>
            cases l with
            | nil => rw [hsk] at hcr; simp [startsCRLF] at hcr
            | cons d rest =>
              rw [hsk] at hcr s4
              simp only [startsCRLF, Bool.and_eq_true, beq_iff_eq] at hcr
              obtain ⟨ha, hdd⟩ := hcr
              subst ha
              have hr'l : r' + 1 < e := by
                have : ((b.set w 10).drop r').length = (13 :: d :: rest).length := by rw [s4]
                simp only [List.length_drop, hl1, List.length_cons] at this
                omega
              have hcons := drop_cons_getD (b := b.set w 10) (r := r') (by omega)
              rw [s4] at hcons
              have hga : (b.set w 10).getD r' 0 = 13 := (List.cons.inj hcons).1.symm
              have hdn : (b.set w 10).drop (r' + 1) = d :: rest := (List.cons.inj hcons).2.symm
              have hw1 : w + 1 < (b.set w 10).length := by omega
              simp only [inb_of_lt hw1, Bool.and_true, hga]
              obtain ⟨b', w', i1, i2, i3, i4⟩ := ih ((b.set w 10).set (w + 1) 13) (r' + 1) (w + 2) ok (by simp [hl]) (by omega) (by omega) (by omega)
              refine ⟨b', w', i1, i2, i3, ?_⟩
              rw [i4, take_set_succ _ (w + 1) 13 hw1, take_set_succ b w _ hwl, drop_set_lt _ (w + 1) (r' + 1) 13 (by omega), hdn,
                reindent_lf_crlf fuel ind _ d rest (by rw [hsk, hdd]) hdd]
              simp
        · have hcr' : startsCRLF (skipIndent ind (b.drop (r + 1))) = false := by simpa using hcr
          simp only [hcr', Bool.false_eq_true, if_false]
          obtain ⟨b', w', i1, i2, i3, i4⟩ := ih (b.set w 10) r' (w + 1) ok hl1 (by omega) s3 (by omega)
          refine ⟨b', w', i1, i2, i3, ?_⟩
          rw [i4, take_set_succ b w _ hwl, s4, reindent_lf_plain fuel ind _ hcr']
          simp
      · have hne : (c == 10) = false := by simpa using h10
        simp only [hne, Bool.false_eq_true, if_false]
        obtain ⟨b', w', i1, i2, i3, i4⟩ := ih (b.set w c) (r + 1) (w + 1) ok hl1 (by omega) (by omega) (by omega)
        refine ⟨b', w', i1, i2, i3, ?_⟩
        rw [i4, take_set_succ b w _ hwl, drop_set_lt b w (r + 1) _ (by omega)]
        simp [reindent, hne]
    · rw [if_neg h]
      refine ⟨b, w, rfl, hl, by omega, ?_⟩
      rw [drop_len_nil (by omega)]
      cases fuel <;> simp [reindent]

/-- ★ both loops of `stringend` at index level: no checked access fails (every `*r`, `*(r + 1)` is inside the scratch contents, every
    `*w++ = ..` lands on a cell already read: `w ≤ r`), and the text is the list-level `reindentCheck` / `reindent` result -/
theorem reindentI_spec (ind : Nat) (b : List B) :
    reindentI ind b = (if reindentCheck (b.length + 1) ind b then reindent (b.length + 1) ind b else b, true) := by
  unfold reindentI
  simp only [checkI_spec b ind (b.length + 1) 0 true (Nat.zero_le _), List.drop_zero]
  by_cases hc : reindentCheck (b.length + 1) ind b = true
  · obtain ⟨b', w', i1, _, _, i4⟩ := rewriteI_spec b.length ind (b.length + 1) b 0 0 true rfl (Nat.le_refl _) (Nat.zero_le _) (by omega)
    simp only [hc, if_true, i1, i4, List.take_zero, List.nil_append, List.drop_zero]
  · simp [hc]

theorem dedentI_spec (col : Nat) (buf : List B) : dedentI col buf = (dedent col buf, true) := by
  unfold dedentI dedent
  rw [reindentI_spec]

end JanetModel.Parse
