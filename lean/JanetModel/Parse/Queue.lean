/- The value queue (bottom `pending` entries of the argument stack) does not interact with parsing:
   well-formedness invariant `WF`, and the lock-step lemma  step (dropQ p) = dropQ (step p). -/
import JanetModel.Parse.Model
import JanetModel.Parse.Lemmas
import JanetModel.Parse.Pos

namespace JanetModel.Parse
open JanetModel.Gen.Parse

/-! ### flag bits -/

theorem tb256 (i : Nat) : Nat.testBit 256 i = decide (8 = i) := Nat.testBit_two_pow (n := 8)

theorem hasFlag_cont (x : Nat) : hasFlag x PFLAG_CONTAINER = x.testBit 8 := by
  unfold hasFlag
  show (x &&& 256 != 0) = _
  cases h : x.testBit 8
  · have : x &&& 256 = 0 := by
      apply Nat.eq_of_testBit_eq
      intro i
      simp only [Nat.testBit_and, tb256, Nat.zero_testBit]
      by_cases h8 : 8 = i
      · subst h8; simp [h]
      · simp [h8]
    simp [this]
  · have : x &&& 256 ≠ 0 := by
      intro h0
      have := congrArg (fun y => y.testBit 8) h0
      simp only [Nat.testBit_and, tb256, h, Nat.zero_testBit] at this
      simp at this
    simp [this]

def isCont (f : Frame) : Bool := hasFlag f.flags PFLAG_CONTAINER

theorem cont_readermac (c : B) : hasFlag (PFLAG_READERMAC ||| c.toNat) PFLAG_CONTAINER = false := by
  rw [hasFlag_cont, Nat.testBit_or]
  have h1 : Nat.testBit PFLAG_READERMAC 8 = false := by decide
  have h2 : c.toNat.testBit 8 = false := Nat.testBit_lt_two_pow (by have := c.toNat_lt; omega)
  simp [h1, h2]
theorem cont_f1 (x : Nat) : hasFlag ((x ||| PFLAG_END_CANDIDATE) &&& (0xFFFFFFFF ^^^ PFLAG_INSTRING)) PFLAG_CONTAINER = hasFlag x PFLAG_CONTAINER := by
  simp only [hasFlag_cont, Nat.testBit_and, Nat.testBit_or]
  have a : Nat.testBit PFLAG_END_CANDIDATE 8 = false := by decide
  have b : Nat.testBit (0xFFFFFFFF ^^^ PFLAG_INSTRING) 8 = true := by decide
  simp [a, b]
theorem cont_f2 (x : Nat) : hasFlag ((x &&& (0xFFFFFFFF ^^^ PFLAG_END_CANDIDATE)) ||| PFLAG_INSTRING) PFLAG_CONTAINER = hasFlag x PFLAG_CONTAINER := by
  simp only [hasFlag_cont, Nat.testBit_and, Nat.testBit_or]
  have a : Nat.testBit PFLAG_INSTRING 8 = false := by decide
  have b : Nat.testBit (0xFFFFFFFF ^^^ PFLAG_END_CANDIDATE) 8 = true := by decide
  simp [a, b]
theorem cont_f3 (x : Nat) : hasFlag (x ||| PFLAG_INSTRING) PFLAG_CONTAINER = hasFlag x PFLAG_CONTAINER := by
  simp only [hasFlag_cont, Nat.testBit_or]
  have a : Nat.testBit PFLAG_INSTRING 8 = false := by decide
  simp [a]
theorem cont_t1 : hasFlag (PFLAG_CONTAINER ||| PFLAG_CURLYBRACKETS ||| PFLAG_ATSYM) PFLAG_CONTAINER = true := by decide
theorem cont_t2 : hasFlag (PFLAG_CONTAINER ||| PFLAG_SQRBRACKETS ||| PFLAG_ATSYM) PFLAG_CONTAINER = true := by decide
theorem cont_t3 : hasFlag (PFLAG_CONTAINER ||| PFLAG_PARENS ||| PFLAG_ATSYM) PFLAG_CONTAINER = true := by decide
theorem cont_t4 : hasFlag (PFLAG_CONTAINER ||| PFLAG_PARENS) PFLAG_CONTAINER = true := by decide
theorem cont_t5 : hasFlag (PFLAG_CONTAINER ||| PFLAG_SQRBRACKETS) PFLAG_CONTAINER = true := by decide
theorem cont_t6 : hasFlag (PFLAG_CONTAINER ||| PFLAG_CURLYBRACKETS) PFLAG_CONTAINER = true := by decide
theorem cont_n1 : hasFlag (PFLAG_BUFFER ||| PFLAG_STRING) PFLAG_CONTAINER = false := by decide
theorem cont_n2 : hasFlag (PFLAG_BUFFER ||| PFLAG_LONGSTRING) PFLAG_CONTAINER = false := by decide
theorem cont_n3 : hasFlag PFLAG_TOKEN PFLAG_CONTAINER = false := by decide
theorem cont_n4 : hasFlag PFLAG_STRING PFLAG_CONTAINER = false := by decide
theorem cont_n5 : hasFlag PFLAG_COMMENT PFLAG_CONTAINER = false := by decide
theorem cont_n6 : hasFlag PFLAG_ATSYM PFLAG_CONTAINER = false := by decide
theorem cont_n7 : hasFlag PFLAG_LONGSTRING PFLAG_CONTAINER = false := by decide

/-! ### frame-stack bookkeeping (top at the head, root frame last) -/

/-- number of argument-stack entries owned by the frames above the root frame -/
def inner : List Frame → Nat
  | [] => 0
  | [_] => 0
  | f :: g :: l => (if isCont f then f.argn else 0) + inner (g :: l)

/-- a non-bottom frame: containers are handled by `root`; a non-container `root` frame (reader macro) owns no arguments -/
def okF (f : Frame) : Bool := if isCont f then f.consumer == .root else (f.consumer != .root || f.argn == 0)

/-- shape of the frame stack: bottom frame is a `root` container, every frame above satisfies `okF` -/
def okFrames : List Frame → Bool
  | [] => false
  | [r] => r.consumer == .root && isCont r
  | f :: g :: l => okF f && okFrames (g :: l)

def rootArgn : List Frame → Nat
  | [] => 0
  | [r] => r.argn
  | _ :: g :: l => rootArgn (g :: l)

/-- decrement the root frame's count (`parser->states[0].argn--`) -/
def decRoot : List Frame → List Frame
  | [] => []
  | [r] => [{ r with argn := r.argn - 1 }]
  | f :: g :: l => f :: decRoot (g :: l)

theorem decRootArgn_cons2 (f g : Frame) (l : List Frame) : decRootArgn (f :: g :: l) = f :: decRootArgn (g :: l) := by
  unfold decRootArgn
  cases h : (g :: l).reverse with
  | nil => simp at h
  | cons r rest =>
    have : (f :: g :: l).reverse = r :: (rest ++ [f]) := by
      simp only [List.reverse_cons] at h ⊢
      rw [h]; simp
    rw [this]
    simp

theorem decRootArgn_eq : ∀ l : List Frame, decRootArgn l = decRoot l
  | [] => by simp [decRootArgn, decRoot]
  | [r] => by simp [decRootArgn, decRoot]
  | f :: g :: l => by rw [decRootArgn_cons2, decRoot, decRootArgn_eq (g :: l)]

theorem decRoot_length : ∀ l : List Frame, (decRoot l).length = l.length
  | [] => rfl
  | [_] => rfl
  | f :: g :: l => by simp [decRoot, decRoot_length (g :: l)]

theorem decRoot_ne_nil {l : List Frame} (h : l ≠ []) : decRoot l ≠ [] := by
  intro h2
  have := decRoot_length l
  rw [h2] at this
  cases l with
  | nil => exact h rfl
  | cons a b => simp at this

theorem decRoot_cons {f : Frame} {l : List Frame} (h : l ≠ []) : decRoot (f :: l) = f :: decRoot l := by
  cases l with
  | nil => exact absurd rfl h
  | cons g l => rfl

theorem okFrames_ne_nil {l : List Frame} (h : okFrames l = true) : l ≠ [] := by
  intro h2; subst h2; simp [okFrames] at h

theorem okFrames_cons {f : Frame} {l : List Frame} (hl : l ≠ []) : okFrames (f :: l) = (okF f && okFrames l) := by
  cases l with
  | nil => exact absurd rfl hl
  | cons g l => rfl

theorem inner_cons {f : Frame} {l : List Frame} (hl : l ≠ []) : inner (f :: l) = (if isCont f then f.argn else 0) + inner l := by
  cases l with
  | nil => exact absurd rfl hl
  | cons g l => rfl

theorem rootArgn_cons {f : Frame} {l : List Frame} (hl : l ≠ []) : rootArgn (f :: l) = rootArgn l := by
  cases l with
  | nil => exact absurd rfl hl
  | cons g l => rfl

theorem okFrames_decRoot : ∀ l : List Frame, okFrames (decRoot l) = okFrames l
  | [] => rfl
  | [r] => by simp [decRoot, okFrames, isCont]
  | f :: g :: l => by
    have := okFrames_decRoot (g :: l)
    rw [decRoot, okFrames_cons (decRoot_ne_nil (by simp)), this]; rfl

theorem inner_decRoot : ∀ l : List Frame, inner (decRoot l) = inner l
  | [] => rfl
  | [r] => rfl
  | f :: g :: l => by
    have := inner_decRoot (g :: l)
    rw [decRoot, inner_cons (decRoot_ne_nil (by simp)), this]; rfl

theorem rootArgn_decRoot : ∀ l : List Frame, rootArgn (decRoot l) = rootArgn l - 1
  | [] => rfl
  | [r] => rfl
  | f :: g :: l => by
    have := rootArgn_decRoot (g :: l)
    rw [decRoot, rootArgn_cons (decRoot_ne_nil (by simp)), this]; rfl

/-! ### popstate -/

/-- accounting of `popstate`: the frames below the popped one stay well-shaped, and exactly one count is incremented
    (an inner container's `argn`, or `pending` together with the root frame's `argn`) iff a value is pushed -/
theorem popstateAux_spec : ∀ (rest : List Frame) (top : Frame) (v : Value), okFrames rest = true →
    okFrames (popstateAux (top :: rest) v).1 = true ∧
    inner (popstateAux (top :: rest) v).1 + (if (popstateAux (top :: rest) v).2.2 then 1 else 0)
      = inner rest + (if (popstateAux (top :: rest) v).2.1.isSome then 1 else 0) ∧
    rootArgn (popstateAux (top :: rest) v).1 = rootArgn rest + (if (popstateAux (top :: rest) v).2.2 then 1 else 0) := by
  intro rest
  induction rest with
  | nil => intro top v h; simp [okFrames] at h
  | cons newtop rest' ih =>
    intro top v h
    simp only [popstateAux]
    by_cases hc : hasFlag newtop.flags PFLAG_CONTAINER = true
    · simp only [hc, if_true]
      cases rest' with
      | nil =>
        simp only [List.isEmpty_nil, if_true]
        simp [okFrames, isCont, inner, rootArgn] at h ⊢
        exact h
      | cons g l =>
        simp only [List.isEmpty_cons, Bool.false_eq_true, if_false]
        have hne : (g :: l) ≠ [] := by simp
        rw [okFrames_cons hne] at h ⊢
        rw [inner_cons hne, inner_cons hne, rootArgn_cons hne, rootArgn_cons hne]
        simp only [Bool.and_eq_true] at h ⊢
        refine ⟨⟨?_, h.2⟩, ?_, rfl⟩
        · have := h.1; simp only [okF, isCont, hc, if_true] at this ⊢; exact this
        · simp [isCont, hc]; omega
    · simp only [hc]
      have hrest' : rest' ≠ [] := by
        intro e; subst e
        simp [okFrames, isCont, hc] at h
      have hok' : okFrames rest' = true := by
        rw [okFrames_cons hrest'] at h; simp only [Bool.and_eq_true] at h; exact h.2
      by_cases hr : hasFlag newtop.flags PFLAG_READERMAC = true
      · simp only [hr, if_true]
        have := ih newtop (Value.tuple false newtop.line newtop.column
          [Value.sym (strBytes (readerMacName (newtop.flags &&& 0xFF))), v.withSm top.line top.column]) hok'
        rw [inner_cons hrest', rootArgn_cons hrest']
        simp only [isCont, hc, Bool.false_eq_true, if_false, Nat.zero_add]
        exact this
      · simp only [hr, Bool.false_eq_true, if_false]
        exact ⟨h, by simp, by simp⟩

theorem popstateAux_cons2 (top newtop : Frame) (rest' : List Frame) (v : Value) :
    popstateAux (top :: newtop :: rest') v =
      if hasFlag newtop.flags PFLAG_CONTAINER then
        if rest'.isEmpty then
          ({ newtop with argn := newtop.argn + 1 } :: rest', some (.tuple false top.line top.column [v.withSm top.line top.column]), true)
        else ({ newtop with argn := newtop.argn + 1 } :: rest', some (v.withSm top.line top.column), false)
      else if hasFlag newtop.flags PFLAG_READERMAC then
        popstateAux (newtop :: rest') (Value.tuple false newtop.line newtop.column
          [.sym (strBytes (readerMacName (newtop.flags &&& 0xFF))), v.withSm top.line top.column])
      else (newtop :: rest', none, false) := by
  simp only [popstateAux]

/-- `popstate` commutes with decrementing the root count (the root count is at least one) -/
theorem popstateAux_decRoot : ∀ (rest : List Frame) (top : Frame) (v : Value), okFrames rest = true → 1 ≤ rootArgn rest →
    popstateAux (top :: decRoot rest) v =
      (decRoot (popstateAux (top :: rest) v).1, (popstateAux (top :: rest) v).2.1, (popstateAux (top :: rest) v).2.2) := by
  intro rest
  induction rest with
  | nil => intro top v h; simp [okFrames] at h
  | cons newtop rest' ih =>
    intro top v h hr1
    cases rest' with
    | nil =>
      simp only [okFrames, Bool.and_eq_true] at h
      have hc : hasFlag newtop.flags PFLAG_CONTAINER = true := h.2
      simp only [rootArgn] at hr1
      simp only [decRoot, popstateAux, hc, if_true, List.isEmpty_nil]
      have : newtop.argn - 1 + 1 = newtop.argn + 1 - 1 := by omega
      simp [this]
    | cons g l =>
      have hne : (g :: l) ≠ [] := by simp
      have hdne : decRoot (g :: l) ≠ [] := decRoot_ne_nil hne
      have hemp : (decRoot (g :: l)).isEmpty = false := by
        cases hd : decRoot (g :: l) with
        | nil => exact absurd hd hdne
        | cons _ _ => rfl
      rw [okFrames_cons hne] at h
      simp only [Bool.and_eq_true] at h
      rw [rootArgn_cons hne] at hr1
      rw [decRoot_cons hne, popstateAux_cons2, popstateAux_cons2]
      by_cases hc : hasFlag newtop.flags PFLAG_CONTAINER = true
      · simp only [hc, if_true, hemp, List.isEmpty_cons, Bool.false_eq_true, if_false]
        rw [decRoot_cons hne]
      · simp only [hc, Bool.false_eq_true, if_false]
        by_cases hr : hasFlag newtop.flags PFLAG_READERMAC = true
        · simp only [hr, if_true]
          exact ih newtop _ h.2 hr1
        · simp only [hr, Bool.false_eq_true, if_false]
          rw [decRoot_cons hne]

/-! ### well-formed parsers and removal of the oldest queued value -/

structure WF (p : Parser) : Prop where
  ok : okFrames p.states = true
  sum : inner p.states + p.pending = p.args.length
  rootn : rootArgn p.states = p.pending

/-- the parser after `janet_parser_produce` dequeued one value: bottom argument removed, both counts decremented -/
def dropQ (p : Parser) : Parser :=
  { p with args := p.args.dropLast, pending := p.pending - 1, states := decRoot p.states }

/-- what one step of parsing does to a parser whose queue holds `z` at the bottom: stays well formed, the queue only
    grows, `z` stays at the bottom -/
structure Sim (z : Value) (p p' : Parser) : Prop where
  wf : WF p'
  mono : p.pending ≤ p'.pending
  bottom : ∃ A', p'.args = A' ++ [z]

/-- a transition that leaves arguments and queue alone and keeps the frame bookkeeping -/
theorem Sim.of_same {z : Value} {p p' : Parser} {A : List Value} (hwf : WF p) (hargs : p.args = A ++ [z])
    (h1 : p'.args = p.args) (h2 : p'.pending = p.pending) (h3 : okFrames p'.states = true)
    (h4 : inner p'.states = inner p.states) (h5 : rootArgn p'.states = rootArgn p.states) : Sim z p p' :=
  ⟨⟨h3, by rw [h4, h2, h1]; exact hwf.sum, by rw [h5, h2]; exact hwf.rootn⟩, by rw [h2]; exact Nat.le_refl _, ⟨A, by rw [h1, hargs]⟩⟩

theorem okF_of_noncont_nonroot {f : Frame} (h1 : isCont f = false) (h2 : f.consumer ≠ .root) : okF f = true := by
  simp [okF, h1, h2]

/-- facts about a top frame that is not handled by `root` -/
theorem nonroot_top {top : Frame} {rest : List Frame} (h : okFrames (top :: rest) = true) (hc : top.consumer ≠ .root) :
    rest ≠ [] ∧ okFrames rest = true ∧ isCont top = false := by
  cases rest with
  | nil => simp [okFrames, hc] at h
  | cons g l =>
    rw [okFrames_cons (by simp)] at h
    simp only [Bool.and_eq_true] at h
    refine ⟨by simp, h.2, ?_⟩
    have := h.1
    unfold okF at this
    cases hcont : isCont top with
    | false => rfl
    | true => simp [hcont, hc] at this

/-! ### explicit shapes: at least two frames (`P2` / `Q2 = dropQ P2`) -/

section
variable (scan : List B → Option String)
variable (A : List Value) (z : Value) (err : Option String) (top g : Frame) (l : List Frame) (buf : List B)
  (line column pending : Nat) (lb : Int) (flag : Nat)

abbrev P2 : Parser := ⟨A ++ [z], err, top :: g :: l, buf, line, column, pending, lb, flag⟩
abbrev Q2 : Parser := ⟨A, err, top :: decRoot (g :: l), buf, line, column, pending - 1, lb, flag⟩

theorem dropQ_P2 : dropQ (P2 A z err top g l buf line column pending lb flag) = Q2 A err top g l buf line column pending lb flag := by
  simp [dropQ, decRoot, Q2]

/-- `popstate` of the top frame commutes with `dropQ` -/
theorem popstate_q (v : Value) (hok : okFrames (g :: l) = true) (hr : 1 ≤ rootArgn (g :: l)) (hp : 1 ≤ pending) :
    popstate (Q2 A err top g l buf line column pending lb flag) v =
      dropQ (popstate (P2 A z err top g l buf line column pending lb flag) v) := by
  unfold popstate
  simp only [Q2, P2]
  rw [popstateAux_decRoot (g :: l) top v hok hr]
  cases h1 : (popstateAux (top :: g :: l) v).2.1 <;> cases h2 : (popstateAux (top :: g :: l) v).2.2 <;> simp [dropQ, h1, h2]
  all_goals first
    | omega
    | (constructor
       · rw [List.dropLast_cons_of_ne_nil (by simp)]; simp
       · omega)
    | (rw [List.dropLast_cons_of_ne_nil (by simp)]; simp)

/-- `popstate` of the top frame, after the arguments the top frame owned were removed, keeps the invariant -/
theorem popstate_sim (p0 : Parser) (v : Value) (hok : okFrames (g :: l) = true) (hsum : inner (g :: l) + pending = (A ++ [z]).length)
    (hroot : rootArgn (g :: l) = pending) (h0 : p0.pending ≤ pending) :
    Sim z p0 (popstate (P2 A z err top g l buf line column pending lb flag) v) := by
  have hs := popstateAux_spec (g :: l) top v hok
  unfold popstate
  simp only [P2]
  cases h1 : (popstateAux (top :: g :: l) v).2.1 <;> cases h2 : (popstateAux (top :: g :: l) v).2.2
  all_goals simp only [h1, h2, Option.isSome_none, Option.isSome_some, Bool.false_eq_true, if_false, if_true] at hs ⊢
  all_goals refine ⟨⟨hs.1, ?_, ?_⟩, ?_, ?_⟩
  all_goals simp at hs hsum ⊢
  all_goals try omega
  all_goals (rename_i val; exact ⟨val :: A, rfl⟩)

/-- facts used in every two-frame case whose top frame is not handled by `root` -/
theorem top_facts (hwf : WF (P2 A z err top g l buf line column pending lb flag)) (hc : top.consumer ≠ .root) :
    hasFlag top.flags PFLAG_CONTAINER = false ∧ okFrames (g :: l) = true ∧ inner (g :: l) + pending = (A ++ [z]).length ∧
    rootArgn (g :: l) = pending := by
  obtain ⟨_, hok, hct⟩ := nonroot_top hwf.ok hc
  have hs := hwf.sum
  have hr := hwf.rootn
  simp only [P2] at hs hr
  rw [inner_cons (by simp)] at hs
  rw [rootArgn_cons (by simp)] at hr
  simp only [hct, Bool.false_eq_true, if_false, Nat.zero_add] at hs
  exact ⟨hct, hok, hs, hr⟩

/-- popping the (non-`root`) top frame with any value and any scratch buffer -/
theorem pop_ii (buf' : List B) (v : Value) (hwf : WF (P2 A z err top g l buf line column pending lb flag)) (hp : 1 ≤ pending)
    (hc : top.consumer ≠ .root) :
    popstate (Q2 A err top g l buf' line column pending lb flag) v =
      dropQ (popstate (P2 A z err top g l buf' line column pending lb flag) v) ∧
    Sim z (P2 A z err top g l buf line column pending lb flag) (popstate (P2 A z err top g l buf' line column pending lb flag) v) := by
  obtain ⟨hct, hok, hs, hr⟩ := top_facts A z err top g l buf line column pending lb flag hwf hc
  exact ⟨popstate_q A z err top g l buf' line column pending lb flag v hok (by omega) hp,
    popstate_sim A z err top g l buf' line column pending lb flag _ v hok hs hr (Nat.le_refl _)⟩

theorem stringend_q (hwf : WF (P2 A z err top g l buf line column pending lb flag)) (hp : 1 ≤ pending) (hc : top.consumer ≠ .root) :
    stringend (Q2 A err top g l buf line column pending lb flag) top =
      dropQ (stringend (P2 A z err top g l buf line column pending lb flag) top) ∧
    Sim z (P2 A z err top g l buf line column pending lb flag) (stringend (P2 A z err top g l buf line column pending lb flag) top) := by
  obtain ⟨hct, hok, hs, hr⟩ := top_facts A z err top g l buf line column pending lb flag hwf hc
  unfold stringend
  constructor
  · exact popstate_q A z err top g l [] line column pending lb flag _ hok (by omega) hp
  · exact popstate_sim A z err top g l [] line column pending lb flag _ _ hok hs hr (Nat.le_refl _)

theorem stringchar_ii (c : B) (hwf : WF (P2 A z err top g l buf line column pending lb flag)) (hp : 1 ≤ pending)
    (hc : top.consumer = .stringchar) :
    stringchar (Q2 A err top g l buf line column pending lb flag) top c =
      (dropQ (stringchar (P2 A z err top g l buf line column pending lb flag) top c).1,
       (stringchar (P2 A z err top g l buf line column pending lb flag) top c).2) ∧
    Sim z (P2 A z err top g l buf line column pending lb flag) (stringchar (P2 A z err top g l buf line column pending lb flag) top c).1 := by
  have hne : top.consumer ≠ .root := by rw [hc]; decide
  obtain ⟨hct, hok, hs, hr⟩ := top_facts A z err top g l buf line column pending lb flag hwf hne
  have hse := stringend_q A z err top g l buf line column pending lb flag hwf hp hne
  unfold stringchar
  repeat' split
  all_goals constructor
  all_goals first
    | (simp [dropQ, decRoot, setTop, pushBuf, P2, Q2]; done)
    | ((apply Sim.of_same hwf rfl <;> simp [okFrames, okF, inner, rootArgn, isCont, setTop, pushBuf, hct, hok, hne]); done)
    | (simp only []; rw [hse.1]; done)
    | exact hse.2


theorem escape1_ii (c : B) (hwf : WF (P2 A z err top g l buf line column pending lb flag)) (hp : 1 ≤ pending)
    (hc : top.consumer = .escape1) :
    escape1 (Q2 A err top g l buf line column pending lb flag) top c =
      (dropQ (escape1 (P2 A z err top g l buf line column pending lb flag) top c).1,
       (escape1 (P2 A z err top g l buf line column pending lb flag) top c).2) ∧
    Sim z (P2 A z err top g l buf line column pending lb flag) (escape1 (P2 A z err top g l buf line column pending lb flag) top c).1 := by
  have hne : top.consumer ≠ .root := by rw [hc]; decide
  obtain ⟨hct, hok, hs, hr⟩ := top_facts A z err top g l buf line column pending lb flag hwf hne
  have hct' : top.flags.testBit 8 = false := by rw [← hasFlag_cont]; exact hct
  have hse := stringend_q A z err top g l buf line column pending lb flag hwf hp hne
  have hpop := fun v => pop_ii A z err top g l buf line column pending lb flag [] v hwf hp hne
  dsimp only [P2, Q2] at hse hpop ⊢
  unfold escape1
  repeat' split
  all_goals constructor
  all_goals first
    | (simp [dropQ, decRoot, setTop, pushBuf, pushstate]; done)
    | ((apply Sim.of_same hwf rfl <;> simp (config := {decide := true}) [okFrames, okF, inner, rootArgn, isCont, setTop, pushBuf, pushstate,
         hasFlag_cont, Nat.testBit_or, Nat.testBit_and, hct', hok, hne]); done)
    | (dsimp only; rw [hse.1]; done)
    | exact hse.2
    | (dsimp only; rw [(hpop _).1]; done)
    | exact (hpop _).2

theorem escapeh_ii (c : B) (hwf : WF (P2 A z err top g l buf line column pending lb flag)) (hp : 1 ≤ pending)
    (hc : top.consumer = .escapeh) :
    escapeh (Q2 A err top g l buf line column pending lb flag) top c =
      (dropQ (escapeh (P2 A z err top g l buf line column pending lb flag) top c).1,
       (escapeh (P2 A z err top g l buf line column pending lb flag) top c).2) ∧
    Sim z (P2 A z err top g l buf line column pending lb flag) (escapeh (P2 A z err top g l buf line column pending lb flag) top c).1 := by
  have hne : top.consumer ≠ .root := by rw [hc]; decide
  obtain ⟨hct, hok, hs, hr⟩ := top_facts A z err top g l buf line column pending lb flag hwf hne
  have hct' : top.flags.testBit 8 = false := by rw [← hasFlag_cont]; exact hct
  have hse := stringend_q A z err top g l buf line column pending lb flag hwf hp hne
  have hpop := fun v => pop_ii A z err top g l buf line column pending lb flag [] v hwf hp hne
  dsimp only [P2, Q2] at hse hpop ⊢
  unfold escapeh
  split
  rotate_left
  dsimp only
  repeat' split
  all_goals constructor
  all_goals first
    | (simp [dropQ, decRoot, setTop, pushBuf, pushstate]; done)
    | ((apply Sim.of_same hwf rfl <;> simp (config := {decide := true}) [okFrames, okF, inner, rootArgn, isCont, setTop, pushBuf, pushstate,
         hasFlag_cont, Nat.testBit_or, Nat.testBit_and, hct', hok, hne]); done)
    | (dsimp only; rw [hse.1]; done)
    | exact hse.2
    | (dsimp only; rw [(hpop _).1]; done)
    | exact (hpop _).2

theorem escapeu_ii (c : B) (hwf : WF (P2 A z err top g l buf line column pending lb flag)) (hp : 1 ≤ pending)
    (hc : top.consumer = .escapeu) :
    escapeu (Q2 A err top g l buf line column pending lb flag) top c =
      (dropQ (escapeu (P2 A z err top g l buf line column pending lb flag) top c).1,
       (escapeu (P2 A z err top g l buf line column pending lb flag) top c).2) ∧
    Sim z (P2 A z err top g l buf line column pending lb flag) (escapeu (P2 A z err top g l buf line column pending lb flag) top c).1 := by
  have hne : top.consumer ≠ .root := by rw [hc]; decide
  obtain ⟨hct, hok, hs, hr⟩ := top_facts A z err top g l buf line column pending lb flag hwf hne
  have hct' : top.flags.testBit 8 = false := by rw [← hasFlag_cont]; exact hct
  have hse := stringend_q A z err top g l buf line column pending lb flag hwf hp hne
  have hpop := fun v => pop_ii A z err top g l buf line column pending lb flag [] v hwf hp hne
  dsimp only [P2, Q2] at hse hpop ⊢
  unfold escapeu
  split
  rotate_left
  dsimp only
  repeat' split
  all_goals constructor
  all_goals first
    | (simp [dropQ, decRoot, setTop, pushBuf, pushstate]; done)
    | ((apply Sim.of_same hwf rfl <;> simp (config := {decide := true}) [okFrames, okF, inner, rootArgn, isCont, setTop, pushBuf, pushstate,
         hasFlag_cont, Nat.testBit_or, Nat.testBit_and, hct', hok, hne]); done)
    | (dsimp only; rw [hse.1]; done)
    | exact hse.2
    | (dsimp only; rw [(hpop _).1]; done)
    | exact (hpop _).2

theorem comment_ii (c : B) (hwf : WF (P2 A z err top g l buf line column pending lb flag)) (hp : 1 ≤ pending)
    (hc : top.consumer = .comment) :
    comment (Q2 A err top g l buf line column pending lb flag) top c =
      (dropQ (comment (P2 A z err top g l buf line column pending lb flag) top c).1,
       (comment (P2 A z err top g l buf line column pending lb flag) top c).2) ∧
    Sim z (P2 A z err top g l buf line column pending lb flag) (comment (P2 A z err top g l buf line column pending lb flag) top c).1 := by
  have hne : top.consumer ≠ .root := by rw [hc]; decide
  obtain ⟨hct, hok, hs, hr⟩ := top_facts A z err top g l buf line column pending lb flag hwf hne
  have hct' : top.flags.testBit 8 = false := by rw [← hasFlag_cont]; exact hct
  have hse := stringend_q A z err top g l buf line column pending lb flag hwf hp hne
  have hpop := fun v => pop_ii A z err top g l buf line column pending lb flag [] v hwf hp hne
  dsimp only [P2, Q2] at hse hpop ⊢
  unfold comment
  repeat' split
  all_goals constructor
  all_goals first
    | (simp [dropQ, decRoot, setTop, pushBuf, pushstate]; done)
    | ((apply Sim.of_same hwf rfl <;> simp (config := {decide := true}) [okFrames, okF, inner, rootArgn, isCont, setTop, pushBuf, pushstate,
         hasFlag_cont, Nat.testBit_or, Nat.testBit_and, hct', hok, hne]); done)
    | (dsimp only; rw [hse.1]; done)
    | exact hse.2
    | (dsimp only; rw [(hpop _).1]; done)
    | exact (hpop _).2

theorem longstring_ii (c : B) (hwf : WF (P2 A z err top g l buf line column pending lb flag)) (hp : 1 ≤ pending)
    (hc : top.consumer = .longstring) :
    longstring (Q2 A err top g l buf line column pending lb flag) top c =
      (dropQ (longstring (P2 A z err top g l buf line column pending lb flag) top c).1,
       (longstring (P2 A z err top g l buf line column pending lb flag) top c).2) ∧
    Sim z (P2 A z err top g l buf line column pending lb flag) (longstring (P2 A z err top g l buf line column pending lb flag) top c).1 := by
  have hne : top.consumer ≠ .root := by rw [hc]; decide
  obtain ⟨hct, hok, hs, hr⟩ := top_facts A z err top g l buf line column pending lb flag hwf hne
  have hct' : top.flags.testBit 8 = false := by rw [← hasFlag_cont]; exact hct
  have hse := stringend_q A z err top g l buf line column pending lb flag hwf hp hne
  have hpop := fun v => pop_ii A z err top g l buf line column pending lb flag [] v hwf hp hne
  dsimp only [P2, Q2] at hse hpop ⊢
  unfold longstring
  dsimp only
  repeat' split
  all_goals constructor
  all_goals first
    | (simp [dropQ, decRoot, setTop, pushBuf, pushstate]; done)
    | ((apply Sim.of_same hwf rfl <;> simp (config := {decide := true}) [okFrames, okF, inner, rootArgn, isCont, setTop, pushBuf, pushstate,
         hasFlag_cont, Nat.testBit_or, Nat.testBit_and, hct', hok, hne]); done)
    | (dsimp only; rw [hse.1]; done)
    | exact hse.2
    | (dsimp only; rw [(hpop _).1]; done)
    | exact (hpop _).2

theorem atsign_ii (c : B) (hwf : WF (P2 A z err top g l buf line column pending lb flag)) (hp : 1 ≤ pending)
    (hc : top.consumer = .atsign) :
    atsign (Q2 A err top g l buf line column pending lb flag) top c =
      (dropQ (atsign (P2 A z err top g l buf line column pending lb flag) top c).1,
       (atsign (P2 A z err top g l buf line column pending lb flag) top c).2) ∧
    Sim z (P2 A z err top g l buf line column pending lb flag) (atsign (P2 A z err top g l buf line column pending lb flag) top c).1 := by
  have hne : top.consumer ≠ .root := by rw [hc]; decide
  obtain ⟨hct, hok, hs, hr⟩ := top_facts A z err top g l buf line column pending lb flag hwf hne
  have hct' : top.flags.testBit 8 = false := by rw [← hasFlag_cont]; exact hct
  have hse := stringend_q A z err top g l buf line column pending lb flag hwf hp hne
  have hpop := fun v => pop_ii A z err top g l buf line column pending lb flag [] v hwf hp hne
  dsimp only [P2, Q2] at hse hpop ⊢
  unfold atsign
  dsimp only
  repeat' split
  all_goals constructor
  all_goals first
    | (simp [dropQ, decRoot, setTop, pushBuf, pushstate]; done)
    | ((apply Sim.of_same hwf rfl <;> simp (config := {decide := true}) [okFrames, okF, inner, rootArgn, isCont, setTop, pushBuf, pushstate,
         hasFlag_cont, Nat.testBit_or, Nat.testBit_and, hct', hok, hne]); done)
    | (dsimp only; rw [hse.1]; done)
    | exact hse.2
    | (dsimp only; rw [(hpop _).1]; done)
    | exact (hpop _).2

theorem tokenchar_ii (c : B) (hwf : WF (P2 A z err top g l buf line column pending lb flag)) (hp : 1 ≤ pending)
    (hc : top.consumer = .tokenchar) :
    tokenchar scan (Q2 A err top g l buf line column pending lb flag) top c =
      (dropQ (tokenchar scan (P2 A z err top g l buf line column pending lb flag) top c).1,
       (tokenchar scan (P2 A z err top g l buf line column pending lb flag) top c).2) ∧
    Sim z (P2 A z err top g l buf line column pending lb flag) (tokenchar scan (P2 A z err top g l buf line column pending lb flag) top c).1 := by
  have hne : top.consumer ≠ .root := by rw [hc]; decide
  obtain ⟨hct, hok, hs, hr⟩ := top_facts A z err top g l buf line column pending lb flag hwf hne
  have hct' : top.flags.testBit 8 = false := by rw [← hasFlag_cont]; exact hct
  have hse := stringend_q A z err top g l buf line column pending lb flag hwf hp hne
  have hpop := fun v => pop_ii A z err top g l buf line column pending lb flag [] v hwf hp hne
  dsimp only [P2, Q2] at hse hpop ⊢
  unfold tokenchar
  dsimp only
  repeat' split
  all_goals constructor
  all_goals first
    | (simp [dropQ, decRoot, setTop, pushBuf, pushstate]; done)
    | ((apply Sim.of_same hwf rfl <;> simp (config := {decide := true}) [okFrames, okF, inner, rootArgn, isCont, setTop, pushBuf, pushstate,
         hasFlag_cont, Nat.testBit_or, Nat.testBit_and, hct', hok, hne]); done)
    | (dsimp only; rw [hse.1]; done)
    | exact hse.2
    | (dsimp only; rw [(hpop _).1]; done)
    | exact (hpop _).2

/-- facts for a two-frame stack whose top frame is handled by `root` -/
theorem root_top_facts (hwf : WF (P2 A z err top g l buf line column pending lb flag)) (hp : 1 ≤ pending) (hc : top.consumer = .root) :
    okF top = true ∧ okFrames (g :: l) = true ∧ top.argn ≤ A.length ∧
    inner (g :: l) + pending = (A.drop top.argn ++ [z]).length ∧ rootArgn (g :: l) = pending := by
  have hok := hwf.ok
  have hs := hwf.sum
  have hr := hwf.rootn
  simp only [P2] at hok hs hr
  rw [okFrames_cons (by simp)] at hok
  simp only [Bool.and_eq_true] at hok
  rw [inner_cons (by simp)] at hs
  rw [rootArgn_cons (by simp)] at hr
  have hcontrib : (if isCont top = true then top.argn else 0) = top.argn := by
    have := hok.1
    unfold okF at this
    cases h : isCont top with
    | true => simp
    | false => simp [h, hc] at this; simp [this]
  rw [hcontrib] at hs
  simp only [List.length_append, List.length_cons, List.length_nil] at hs
  refine ⟨hok.1, hok.2, by omega, ?_, hr⟩
  simp only [List.length_append, List.length_cons, List.length_nil, List.length_drop]; omega

theorem takeArgs_P2 (n : Nat) (hn : n ≤ A.length) :
    takeArgs (P2 A z err top g l buf line column pending lb flag) n =
      ((A.take n).reverse, P2 (A.drop n) z err top g l buf line column pending lb flag) := by
  simp [takeArgs, P2, List.take_append_of_le_length hn, List.drop_append_of_le_length hn]

theorem takeArgs_Q2 (n : Nat) :
    takeArgs (Q2 A err top g l buf line column pending lb flag) n =
      ((A.take n).reverse, Q2 (A.drop n) err top g l buf line column pending lb flag) := by
  simp [takeArgs, Q2]

theorem closeDelim_ii (c : B) (hwf : WF (P2 A z err top g l buf line column pending lb flag)) (hp : 1 ≤ pending)
    (hc : top.consumer = .root) :
    closeDelim (Q2 A err top g l buf line column pending lb flag) top c =
      (dropQ (closeDelim (P2 A z err top g l buf line column pending lb flag) top c).1,
       (closeDelim (P2 A z err top g l buf line column pending lb flag) top c).2) ∧
    Sim z (P2 A z err top g l buf line column pending lb flag) (closeDelim (P2 A z err top g l buf line column pending lb flag) top c).1 := by
  obtain ⟨hokF, hok, hn, hs, hr⟩ := root_top_facts A z err top g l buf line column pending lb flag hwf hp hc
  have hpq := fun v => popstate_q (A.drop top.argn) z err top g l buf line column pending lb flag v hok (by omega) hp
  have hps := fun v => popstate_sim (A.drop top.argn) z err top g l buf line column pending lb flag
    (P2 A z err top g l buf line column pending lb flag) v hok hs hr (Nat.le_refl _)
  have hlenP : ((P2 A z err top g l buf line column pending lb flag).states.length == 1) = false := by simp [P2]
  have hlenQ : ((Q2 A err top g l buf line column pending lb flag).states.length == 1) = false := by
    simp [Q2, decRoot_length]
  have hlP : (P2 A z err top g l buf line column pending lb flag).states.length = l.length + 2 := by simp [P2]
  have hlQ : (Q2 A err top g l buf line column pending lb flag).states.length = l.length + 2 := by simp [Q2, decRoot_length]
  unfold closeDelim
  simp only [hlenP, hlenQ, Bool.false_eq_true, if_false, takeArgs_Q2, takeArgs_P2 A z err top g l buf line column pending lb flag top.argn hn]
  split
  · dsimp only
    exact ⟨by rw [hpq], hps _⟩
  · split
    · split
      · constructor
        · simp [dropQ, decRoot, P2, Q2]
        · apply Sim.of_same hwf rfl <;> simp [P2]
          exact hwf.ok
      · dsimp only
        split
        · exact ⟨by rw [hpq], hps _⟩
        · exact ⟨by rw [hpq], hps _⟩
    · constructor
      · simp only [hlP, hlQ]
        simp [delimError, dropQ, decRoot, decRoot_length, P2, Q2]
      · apply Sim.of_same hwf rfl <;> simp [delimError, P2]
        exact hwf.ok

theorem ite00 (b : Bool) : (if b = true then 0 else 0) = 0 := by cases b <;> rfl

theorem okF_root0 (F ln col : Nat) : okF ⟨0, 0, F, ln, col, .root⟩ = true := by
  unfold okF; split <;> simp

theorem okF_other (cnt an F ln col : Nat) (k : Consumer) (hk : k ≠ .root) (hF : hasFlag F PFLAG_CONTAINER = false) :
    okF ⟨cnt, an, F, ln, col, k⟩ = true := by
  simp [okF, isCont, hF, hk]

theorem root_ii (c : B) (hwf : WF (P2 A z err top g l buf line column pending lb flag)) (hp : 1 ≤ pending)
    (hc : top.consumer = .root) :
    root (Q2 A err top g l buf line column pending lb flag) top c =
      (dropQ (root (P2 A z err top g l buf line column pending lb flag) top c).1, (root (P2 A z err top g l buf line column pending lb flag) top c).2) ∧
    Sim z (P2 A z err top g l buf line column pending lb flag) (root (P2 A z err top g l buf line column pending lb flag) top c).1 := by
  obtain ⟨hokF, hok, hn, hs, hr⟩ := root_top_facts A z err top g l buf line column pending lb flag hwf hp hc
  unfold root
  by_cases h0 : (c == 39 || c == 44 || c == 59 || c == 126 || c == 124) = true
  · rw [if_pos h0, if_pos h0]
    constructor
    · simp [dropQ, decRoot, pushstate, P2, Q2]
    · apply Sim.of_same hwf rfl <;> simp [pushstate, P2, okFrames, inner, rootArgn, isCont, hokF, hok, okF_root0, okF_other, ite00,
        cont_n3, cont_n4, cont_n5, cont_n6, cont_n7]
      all_goals try exact ite00 _
  rw [if_neg h0, if_neg h0]
  by_cases h1 : (c == 34) = true
  · rw [if_pos h1, if_pos h1]
    constructor
    · simp [dropQ, decRoot, pushstate, P2, Q2]
    · apply Sim.of_same hwf rfl <;> simp [pushstate, P2, okFrames, inner, rootArgn, isCont, hokF, hok, okF_root0, okF_other, ite00,
        cont_n3, cont_n4, cont_n5, cont_n6, cont_n7]
      all_goals try exact ite00 _
  rw [if_neg h1, if_neg h1]
  by_cases h2 : (c == 35) = true
  · rw [if_pos h2, if_pos h2]
    constructor
    · simp [dropQ, decRoot, pushstate, P2, Q2]
    · apply Sim.of_same hwf rfl <;> simp [pushstate, P2, okFrames, inner, rootArgn, isCont, hokF, hok, okF_root0, okF_other, ite00,
        cont_n3, cont_n4, cont_n5, cont_n6, cont_n7]
      all_goals try exact ite00 _
  rw [if_neg h2, if_neg h2]
  by_cases h3 : (c == 64) = true
  · rw [if_pos h3, if_pos h3]
    constructor
    · simp [dropQ, decRoot, pushstate, P2, Q2]
    · apply Sim.of_same hwf rfl <;> simp [pushstate, P2, okFrames, inner, rootArgn, isCont, hokF, hok, okF_root0, okF_other, ite00,
        cont_n3, cont_n4, cont_n5, cont_n6, cont_n7]
      all_goals try exact ite00 _
  rw [if_neg h3, if_neg h3]
  by_cases h4 : (c == 96) = true
  · rw [if_pos h4, if_pos h4]
    constructor
    · simp [dropQ, decRoot, pushstate, P2, Q2]
    · apply Sim.of_same hwf rfl <;> simp [pushstate, P2, okFrames, inner, rootArgn, isCont, hokF, hok, okF_root0, okF_other, ite00,
        cont_n3, cont_n4, cont_n5, cont_n6, cont_n7]
      all_goals try exact ite00 _
  rw [if_neg h4, if_neg h4]
  by_cases h5 : (c == 41 || c == 93 || c == 125) = true
  · rw [if_pos h5, if_pos h5]
    exact closeDelim_ii A z err top g l buf line column pending lb flag c hwf hp hc
  rw [if_neg h5, if_neg h5]
  by_cases h6 : (c == 40) = true
  · rw [if_pos h6, if_pos h6]
    constructor
    · simp [dropQ, decRoot, pushstate, P2, Q2]
    · apply Sim.of_same hwf rfl <;> simp [pushstate, P2, okFrames, inner, rootArgn, isCont, hokF, hok, okF_root0, okF_other, ite00,
        cont_n3, cont_n4, cont_n5, cont_n6, cont_n7]
      all_goals try exact ite00 _
  rw [if_neg h6, if_neg h6]
  by_cases h7 : (c == 91) = true
  · rw [if_pos h7, if_pos h7]
    constructor
    · simp [dropQ, decRoot, pushstate, P2, Q2]
    · apply Sim.of_same hwf rfl <;> simp [pushstate, P2, okFrames, inner, rootArgn, isCont, hokF, hok, okF_root0, okF_other, ite00,
        cont_n3, cont_n4, cont_n5, cont_n6, cont_n7]
      all_goals try exact ite00 _
  rw [if_neg h7, if_neg h7]
  by_cases h8 : (c == 123) = true
  · rw [if_pos h8, if_pos h8]
    constructor
    · simp [dropQ, decRoot, pushstate, P2, Q2]
    · apply Sim.of_same hwf rfl <;> simp [pushstate, P2, okFrames, inner, rootArgn, isCont, hokF, hok, okF_root0, okF_other, ite00,
        cont_n3, cont_n4, cont_n5, cont_n6, cont_n7]
      all_goals try exact ite00 _
  rw [if_neg h8, if_neg h8]
  by_cases h9 : isWhitespace c = true
  · rw [if_pos h9, if_pos h9]
    constructor
    · simp [dropQ, decRoot, pushstate, P2, Q2]
    · apply Sim.of_same hwf rfl <;> simp [pushstate, P2, okFrames, inner, rootArgn, isCont, hokF, hok, okF_root0, okF_other, ite00,
        cont_n3, cont_n4, cont_n5, cont_n6, cont_n7]
      all_goals try exact ite00 _
  rw [if_neg h9, if_neg h9]
  by_cases h10 : (!isSymbolChar c) = true
  · rw [if_pos h10, if_pos h10]
    constructor
    · simp [dropQ, decRoot, pushstate, P2, Q2]
    · apply Sim.of_same hwf rfl <;> simp [pushstate, P2, okFrames, inner, rootArgn, isCont, hokF, hok, okF_root0, okF_other, ite00,
        cont_n3, cont_n4, cont_n5, cont_n6, cont_n7]
      all_goals try exact ite00 _
  rw [if_neg h10, if_neg h10]
  constructor
  · simp [dropQ, decRoot, pushstate, P2, Q2]
  · apply Sim.of_same hwf rfl <;> simp [pushstate, P2, okFrames, inner, rootArgn, isCont, hokF, hok, okF_root0, okF_other, ite00,
      cont_n3, cont_n4, cont_n5, cont_n6, cont_n7]
    all_goals try exact ite00 _

end

/-! ### explicit shape: only the root frame -/

section
variable (A : List Value) (z : Value) (err : Option String) (r : Frame) (buf : List B)
  (line column pending : Nat) (lb : Int) (flag : Nat)

abbrev P1 : Parser := ⟨A ++ [z], err, [r], buf, line, column, pending, lb, flag⟩
abbrev Q1 : Parser := ⟨A, err, [{ r with argn := r.argn - 1 }], buf, line, column, pending - 1, lb, flag⟩

theorem dropQ_P1 : dropQ (P1 A z err r buf line column pending lb flag) = (Q1 A err r buf line column pending lb flag) := by
  simp [dropQ, decRoot, Q1]

theorem root_i (c : B) (hwf : WF (P1 A z err r buf line column pending lb flag)) (hp : 1 ≤ pending) :
    root (Q1 A err r buf line column pending lb flag) { r with argn := r.argn - 1 } c =
      (dropQ (root (P1 A z err r buf line column pending lb flag) r c).1, (root (P1 A z err r buf line column pending lb flag) r c).2) ∧
    Sim z (P1 A z err r buf line column pending lb flag) (root (P1 A z err r buf line column pending lb flag) r c).1 := by
  have hok1 : okFrames [r] = true := hwf.ok
  have hrc : r.consumer = .root ∧ hasFlag r.flags PFLAG_CONTAINER = true := by
    simpa [okFrames, isCont] using hok1
  unfold root
  by_cases h0 : (c == 39 || c == 44 || c == 59 || c == 126 || c == 124) = true
  · rw [if_pos h0, if_pos h0]
    constructor
    · simp [dropQ, decRoot, pushstate, closeDelim, delimError, P1, Q1]
    · apply Sim.of_same hwf rfl <;> simp [pushstate, closeDelim, delimError, P1, okFrames, inner, rootArgn, isCont, hok1, hrc.1, hrc.2, okF_root0, okF_other, ite00,
        cont_n3, cont_n4, cont_n5, cont_n6, cont_n7]
      all_goals try exact ite00 _
  rw [if_neg h0, if_neg h0]
  by_cases h1 : (c == 34) = true
  · rw [if_pos h1, if_pos h1]
    constructor
    · simp [dropQ, decRoot, pushstate, closeDelim, delimError, P1, Q1]
    · apply Sim.of_same hwf rfl <;> simp [pushstate, closeDelim, delimError, P1, okFrames, inner, rootArgn, isCont, hok1, hrc.1, hrc.2, okF_root0, okF_other, ite00,
        cont_n3, cont_n4, cont_n5, cont_n6, cont_n7]
      all_goals try exact ite00 _
  rw [if_neg h1, if_neg h1]
  by_cases h2 : (c == 35) = true
  · rw [if_pos h2, if_pos h2]
    constructor
    · simp [dropQ, decRoot, pushstate, closeDelim, delimError, P1, Q1]
    · apply Sim.of_same hwf rfl <;> simp [pushstate, closeDelim, delimError, P1, okFrames, inner, rootArgn, isCont, hok1, hrc.1, hrc.2, okF_root0, okF_other, ite00,
        cont_n3, cont_n4, cont_n5, cont_n6, cont_n7]
      all_goals try exact ite00 _
  rw [if_neg h2, if_neg h2]
  by_cases h3 : (c == 64) = true
  · rw [if_pos h3, if_pos h3]
    constructor
    · simp [dropQ, decRoot, pushstate, closeDelim, delimError, P1, Q1]
    · apply Sim.of_same hwf rfl <;> simp [pushstate, closeDelim, delimError, P1, okFrames, inner, rootArgn, isCont, hok1, hrc.1, hrc.2, okF_root0, okF_other, ite00,
        cont_n3, cont_n4, cont_n5, cont_n6, cont_n7]
      all_goals try exact ite00 _
  rw [if_neg h3, if_neg h3]
  by_cases h4 : (c == 96) = true
  · rw [if_pos h4, if_pos h4]
    constructor
    · simp [dropQ, decRoot, pushstate, closeDelim, delimError, P1, Q1]
    · apply Sim.of_same hwf rfl <;> simp [pushstate, closeDelim, delimError, P1, okFrames, inner, rootArgn, isCont, hok1, hrc.1, hrc.2, okF_root0, okF_other, ite00,
        cont_n3, cont_n4, cont_n5, cont_n6, cont_n7]
      all_goals try exact ite00 _
  rw [if_neg h4, if_neg h4]
  by_cases h5 : (c == 41 || c == 93 || c == 125) = true
  · rw [if_pos h5, if_pos h5]
    constructor
    · simp [dropQ, decRoot, pushstate, closeDelim, delimError, P1, Q1]
    · apply Sim.of_same hwf rfl <;> simp [pushstate, closeDelim, delimError, P1, okFrames, inner, rootArgn, isCont, hok1, hrc.1, hrc.2, okF_root0, okF_other, ite00,
        cont_n3, cont_n4, cont_n5, cont_n6, cont_n7]
      all_goals try exact ite00 _
  rw [if_neg h5, if_neg h5]
  by_cases h6 : (c == 40) = true
  · rw [if_pos h6, if_pos h6]
    constructor
    · simp [dropQ, decRoot, pushstate, closeDelim, delimError, P1, Q1]
    · apply Sim.of_same hwf rfl <;> simp [pushstate, closeDelim, delimError, P1, okFrames, inner, rootArgn, isCont, hok1, hrc.1, hrc.2, okF_root0, okF_other, ite00,
        cont_n3, cont_n4, cont_n5, cont_n6, cont_n7]
      all_goals try exact ite00 _
  rw [if_neg h6, if_neg h6]
  by_cases h7 : (c == 91) = true
  · rw [if_pos h7, if_pos h7]
    constructor
    · simp [dropQ, decRoot, pushstate, closeDelim, delimError, P1, Q1]
    · apply Sim.of_same hwf rfl <;> simp [pushstate, closeDelim, delimError, P1, okFrames, inner, rootArgn, isCont, hok1, hrc.1, hrc.2, okF_root0, okF_other, ite00,
        cont_n3, cont_n4, cont_n5, cont_n6, cont_n7]
      all_goals try exact ite00 _
  rw [if_neg h7, if_neg h7]
  by_cases h8 : (c == 123) = true
  · rw [if_pos h8, if_pos h8]
    constructor
    · simp [dropQ, decRoot, pushstate, closeDelim, delimError, P1, Q1]
    · apply Sim.of_same hwf rfl <;> simp [pushstate, closeDelim, delimError, P1, okFrames, inner, rootArgn, isCont, hok1, hrc.1, hrc.2, okF_root0, okF_other, ite00,
        cont_n3, cont_n4, cont_n5, cont_n6, cont_n7]
      all_goals try exact ite00 _
  rw [if_neg h8, if_neg h8]
  by_cases h9 : isWhitespace c = true
  · rw [if_pos h9, if_pos h9]
    constructor
    · simp [dropQ, decRoot, pushstate, closeDelim, delimError, P1, Q1]
    · apply Sim.of_same hwf rfl <;> simp [pushstate, closeDelim, delimError, P1, okFrames, inner, rootArgn, isCont, hok1, hrc.1, hrc.2, okF_root0, okF_other, ite00,
        cont_n3, cont_n4, cont_n5, cont_n6, cont_n7]
      all_goals try exact ite00 _
  rw [if_neg h9, if_neg h9]
  by_cases h10 : (!isSymbolChar c) = true
  · rw [if_pos h10, if_pos h10]
    constructor
    · simp [dropQ, decRoot, pushstate, closeDelim, delimError, P1, Q1]
    · apply Sim.of_same hwf rfl <;> simp [pushstate, closeDelim, delimError, P1, okFrames, inner, rootArgn, isCont, hok1, hrc.1, hrc.2, okF_root0, okF_other, ite00,
        cont_n3, cont_n4, cont_n5, cont_n6, cont_n7]
      all_goals try exact ite00 _
  rw [if_neg h10, if_neg h10]
  constructor
  · simp [dropQ, decRoot, pushstate, closeDelim, delimError, P1, Q1]
  · apply Sim.of_same hwf rfl <;> simp [pushstate, closeDelim, delimError, P1, okFrames, inner, rootArgn, isCont, hok1, hrc.1, hrc.2, okF_root0, okF_other, ite00,
      cont_n3, cont_n4, cont_n5, cont_n6, cont_n7]
    all_goals try exact ite00 _

end

/-! ### one step, any shape -/

/-- ★ lock-step: removing the oldest queued value commutes with one consumer step, the parser stays well formed, the queue
    only grows and its bottom element stays in place -/
theorem step_dropQ (scan : List B → Option String) (p : Parser) (c : B) (A : List Value) (z : Value)
    (hwf : WF p) (hp : 1 ≤ p.pending) (hargs : p.args = A ++ [z]) :
    step scan (dropQ p) c = (dropQ (step scan p c).1, (step scan p c).2) ∧ Sim z p (step scan p c).1 := by
  obtain ⟨args, err, states, buf, line, column, pending, lb, flag⟩ := p
  simp only at hargs hp
  subst hargs
  cases states with
  | nil => have := hwf.ok; simp [okFrames] at this
  | cons top rest =>
    cases rest with
    | nil =>
      have hok1 : okFrames [top] = true := hwf.ok
      have hrc : top.consumer = .root := by
        have : top.consumer = .root ∧ hasFlag top.flags PFLAG_CONTAINER = true := by simpa [okFrames, isCont] using hok1
        exact this.1
      have h := root_i A z err top buf line column pending lb flag c hwf hp
      show step scan (dropQ (P1 A z err top buf line column pending lb flag)) c = _ ∧ _
      rw [dropQ_P1]
      simpa [step, P1, Q1, hrc] using h
    | cons g l =>
      have hd : dropQ (P2 A z err top g l buf line column pending lb flag) = Q2 A err top g l buf line column pending lb flag :=
        dropQ_P2 A z err top g l buf line column pending lb flag
      show step scan (dropQ (P2 A z err top g l buf line column pending lb flag)) c = _ ∧ _
      rw [hd]
      cases hc : top.consumer
      case root => simpa [step, P2, Q2, hc] using root_ii A z err top g l buf line column pending lb flag c hwf hp hc
      case tokenchar => simpa [step, P2, Q2, hc] using tokenchar_ii scan A z err top g l buf line column pending lb flag c hwf hp hc
      case stringchar => simpa [step, P2, Q2, hc] using stringchar_ii A z err top g l buf line column pending lb flag c hwf hp hc
      case escape1 => simpa [step, P2, Q2, hc] using escape1_ii A z err top g l buf line column pending lb flag c hwf hp hc
      case escapeh => simpa [step, P2, Q2, hc] using escapeh_ii A z err top g l buf line column pending lb flag c hwf hp hc
      case escapeu => simpa [step, P2, Q2, hc] using escapeu_ii A z err top g l buf line column pending lb flag c hwf hp hc
      case longstring => simpa [step, P2, Q2, hc] using longstring_ii A z err top g l buf line column pending lb flag c hwf hp hc
      case comment => simpa [step, P2, Q2, hc] using comment_ii A z err top g l buf line column pending lb flag c hwf hp hc
      case atsign => simpa [step, P2, Q2, hc] using atsign_ii A z err top g l buf line column pending lb flag c hwf hp hc

end JanetModel.Parse
