/- Physical-level model of the parser's memory discipline (src/core/parse.c).  CORE LEAN ONLY (linked into jm_c11).

   `Parse/Model.lean` works on lists: a pop of an empty stack, a read of `buf[0]` in an empty scratch buffer or taking more
   arguments than the argument stack holds is silently total there.  This file re-writes every function on the path of
   `janet_parser_consume` / `janet_parser_eof` / `janet_parser_produce(_wrapped)` / `janet_parser_flush` / `janet_parser_error`
   statement by statement over MEMORY PRIMITIVES, each of which CHECKS the access the C statement performs:

     push_buf / push_arg / _pushstate   DEF_PARSER_STACK: `newcount = oldcount + 1; if (newcount > cap) { cap = F * newcount; realloc }
                                        STACK[oldcount] = x` -- the write index must be inside the (re)allocated block
     p->statecount--, states[--statecount], args[--argcount], argcount -= n      -- no `size_t` underflow
     *state (the `JanetParseState *` handed to a consumer, `newtop` in popstate)   -- pointer into the CURRENT states block
                                        (a `_pushstate` that reallocates invalidates older pointers: `sgen`) and to a live frame
     p->buf[0] in tokenchar, args[0] in produce, states[0] in flush / produce, states + stack_index in delim_error -- live index

   A failed check sets the sticky `fault` flag.  `MP.p` is the logical content (the live prefixes of the three blocks and the
   scalar fields), `MP.k` the three block capacities; `count ≤ capacity` is carried as a field, so every primitive has to
   discharge it where the C grows the block.  `Parse/PhysLemmas.lean` proves: the machine computes exactly `Model.lean`'s
   functions (`*_p` lemmas) and NO CHECK EVER FAILS on a well-formed parser (`*_safe`), hence for every byte sequence.
   The driver `jm_c11` runs THIS machine for `consume` / `eof` / `produce` / `flush` / `error` and prints its capacities, which
   the harness compares with the real `bufcap` / `statecap` / `argcap` after every dump.

   Not modelled here: the in-place rewrite of the scratch buffer by `stringend`'s re-indent pass (reads covered by
   `Props.C11.stringend_reads_in_bounds`; it writes at `w ≤ r`), the heap objects built from the popped data, OOM. -/
import JanetModel.Parse.Cap
import JanetModel.Parse.StrIdx

namespace JanetModel.Parse
open JanetModel.Gen.Parse

/-- `DEF_PARSER_STACK`: after the growth test the new count fits (needs a growth factor ≥ 1: regenerated) -/
theorem growCap_fits (cap n : Nat) : n + 1 ≤ growCap cap n := by
  unfold growCap
  by_cases h : n + 1 > cap
  · rw [if_pos h]; exact Nat.le_mul_of_pos_left _ (by decide)
  · rw [if_neg h]; omega

theorem modifyFrame_len (f : Frame → Frame) : ∀ (S : List Frame) (i : Nat), (modifyFrame S i f).length = S.length
  | [], _ => rfl
  | _ :: _, 0 => rfl
  | _ :: rest, i + 1 => by simp [modifyFrame, modifyFrame_len f rest i]

/-- the parser as laid out in memory: logical content, block capacities, generation of the `states` block, sticky fault flag -/
structure MP where
  p : Parser
  k : Caps
  sgen : Nat
  fault : Bool
  capok : CapOK k p

/-- a `JanetParseState *`: which `states` block it points into and the C index (0 = root frame) -/
structure SPtr where
  gen : Nat
  idx : Nat
  deriving DecidableEq, Repr

namespace MP

/-- record the outcome of a checked access -/
def chk (m : MP) (ok : Bool) : MP := { m with fault := m.fault || !ok }

/-- assignment to fields other than the three stacks' counts -/
def scal (m : MP) (f : Parser → Parser)
    (h : (f m.p).buf.length = m.p.buf.length ∧ (f m.p).states.length = m.p.states.length ∧ (f m.p).args.length = m.p.args.length) : MP :=
  { p := f m.p, k := m.k, sgen := m.sgen, fault := m.fault,
    capok := by
      obtain ⟨a, b, c⟩ := h
      unfold CapOK
      rw [a, b, c]
      exact m.capok }

end MP

/-! ### memory primitives -/

/-- `push_buf` -/
def pushBufM (m : MP) (c : B) : MP :=
  { p := { m.p with buf := m.p.buf ++ [c] },
    k := { m.k with buf := growCap m.k.buf m.p.buf.length },
    sgen := m.sgen,
    fault := m.fault || !decide (m.p.buf.length < growCap m.k.buf m.p.buf.length),
    capok := ⟨by simpa using growCap_fits m.k.buf m.p.buf.length, m.capok.2.1, m.capok.2.2⟩ }

/-- `push_arg` -/
def pushArgM (m : MP) (v : Value) : MP :=
  { p := { m.p with args := v :: m.p.args },
    k := { m.k with args := growCap m.k.args m.p.args.length },
    sgen := m.sgen,
    fault := m.fault || !decide (m.p.args.length < growCap m.k.args m.p.args.length),
    capok := ⟨m.capok.1, m.capok.2.1, by simpa using growCap_fits m.k.args m.p.args.length⟩ }

/-- `_pushstate`; a reallocation invalidates every older `JanetParseState *` -/
def pushStateRawM (m : MP) (s : Frame) : MP :=
  { p := { m.p with states := s :: m.p.states },
    k := { m.k with states := growCap m.k.states m.p.states.length },
    sgen := if m.p.states.length + 1 > m.k.states then m.sgen + 1 else m.sgen,
    fault := m.fault || !decide (m.p.states.length < growCap m.k.states m.p.states.length),
    capok := ⟨m.capok.1, by simpa using growCap_fits m.k.states m.p.states.length, m.capok.2.2⟩ }

/-- `pushstate` -/
def pushstateM (m : MP) (consumer : Consumer) (flags : Nat) : MP :=
  pushStateRawM m { counter := 0, argn := 0, flags := flags, line := m.p.line, column := m.p.column, consumer := consumer }

/-- `p->bufcount = 0` -/
def clearBufM (m : MP) : MP :=
  { p := { m.p with buf := [] }, k := m.k, sgen := m.sgen, fault := m.fault,
    capok := ⟨Nat.zero_le _, m.capok.2.1, m.capok.2.2⟩ }

/-- `p->statecount--` (`size_t`: must not be 0) -/
def decStateM (m : MP) : MP :=
  { p := { m.p with states := m.p.states.drop 1 }, k := m.k, sgen := m.sgen,
    fault := m.fault || !decide (0 < m.p.states.length),
    capok := ⟨m.capok.1, Nat.le_trans (by rw [List.length_drop]; exact Nat.sub_le _ _) m.capok.2.1, m.capok.2.2⟩ }

/-- `n` times `p->args[--p->argcount]` (close_tuple / close_array), or reading `args[argcount - n .. argcount)` followed by
    `p->argcount -= n` (close_struct / close_table); the values in source order -/
def popArgsM (m : MP) (n : Nat) : List Value × MP :=
  ((m.p.args.take n).reverse,
   { p := { m.p with args := m.p.args.drop n }, k := m.k, sgen := m.sgen,
     fault := m.fault || !decide (n ≤ m.p.args.length),
     capok := ⟨m.capok.1, m.capok.2.1, Nat.le_trans (by rw [List.length_drop]; exact Nat.sub_le _ _) m.capok.2.2⟩ })

/-- `p->states + p->statecount - 1` -/
def topPtr (m : MP) : SPtr := { gen := m.sgen, idx := m.p.states.length - 1 }

/-- may `*sp` be accessed: it points into the current block and at a live frame -/
def derefOk (m : MP) (sp : SPtr) : Bool := sp.gen == m.sgen && decide (sp.idx < m.p.states.length)

/-- `*sp` -/
def readState (m : MP) (sp : SPtr) : Frame := m.p.states.getD (m.p.states.length - 1 - sp.idx) default

/-- `sp->field = …` -/
def writeState (m : MP) (sp : SPtr) (f : Frame → Frame) : MP :=
  (m.chk (derefOk m sp)).scal (fun p => { p with states := modifyFrame p.states (p.states.length - 1 - sp.idx) f })
    ⟨rfl, modifyFrame_len _ _ _, rfl⟩

/-- `p->error = "…"` -/
def setErrorM (m : MP) (e : String) : MP := m.scal (fun p => { p with error := some e }) ⟨rfl, rfl, rfl⟩

/-- `delim_error`: `s = parser->states + stack_index` is dereferenced when `stack_index > 0` -/
def delimErrorM (m : MP) (idx : Nat) (c : Option B) (msg : String) : MP :=
  (m.chk (idx == 0 || decide (idx < m.p.states.length))).scal (fun p => delimError p idx c msg) ⟨rfl, rfl, rfl⟩

/-! ### popstate, stringend -/

/-- `popstate`; fuel = statecount -/
def popstateM : Nat → MP → Value → MP
  | 0, m, _ => m.chk false
  | fuel + 1, m, val =>
    let top := m.p.states.headD default
    let m := decStateM m                                   -- JanetParseState top = p->states[--p->statecount];
    let np := topPtr m                                     -- JanetParseState *newtop = p->states + p->statecount - 1;
    let m := m.chk (derefOk m np)
    let newtop := readState m np
    let val := val.withSm top.line top.column
    if hasFlag newtop.flags PFLAG_CONTAINER then
      let m := writeState m np (fun s => { s with argn := s.argn + 1 })
      if m.p.states.length == 1 then
        let m := m.scal (fun p => { p with pending := p.pending + 1 }) ⟨rfl, rfl, rfl⟩
        pushArgM m (.tuple false top.line top.column [val])
      else pushArgM m val
    else if hasFlag newtop.flags PFLAG_READERMAC then
      popstateM fuel m (Value.tuple false newtop.line newtop.column [.sym (strBytes (readerMacName (newtop.flags &&& 0xFF))), val])
    else m

/-- `stringend` -/
def stringendM (m : MP) (sp : SPtr) : MP :=
  let m := m.chk (derefOk m sp)
  let state := readState m sp
  let long := hasFlag state.flags PFLAG_LONGSTRING
  -- the two re-indent loops run at index level, in place, on the scratch block (`Parse/StrIdx.lean`): every `*r`, `*(r + 1)`, `*w++ =` is checked
  let di := dedentI ((m.p.states.headD default).column - 1) m.p.buf   -- JanetParseState top = p->states[p->statecount - 1];
  let m := m.chk (!long || di.2)
  let bytes := if long then di.1 else m.p.buf
  let ret := if hasFlag state.flags PFLAG_BUFFER then Value.buf bytes else Value.str bytes
  popstateM m.p.states.length (clearBufM m) ret

/-! ### consumers -/

/-- `stringchar` -/
def stringcharM (m : MP) (sp : SPtr) (c : B) : MP × Bool :=
  if c == 92 then (writeState m sp (fun s => { s with consumer := .escape1 }), true)
  else if c == 34 then (stringendM m sp, true)
  else if c != 10 && c != 13 then (pushBufM m c, true)
  else (m, true)

/-- `escapeh` -/
def escapehM (m : MP) (sp : SPtr) (c : B) : MP × Bool :=
  match toHex c with
  | none => (setErrorM m "invalid hex digit in hex escape", true)
  | some d =>
    let m := writeState m sp (fun s => { s with argn := (s.argn <<< 4) + d })
    let m := writeState m sp (fun s => { s with counter := s.counter - 1 })
    if (readState m sp).counter == 0 then
      let m := pushBufM m ((readState m sp).argn &&& 0xFF).toUInt8
      let m := writeState m sp (fun s => { s with argn := 0 })
      (writeState m sp (fun s => { s with consumer := .stringchar }), true)
    else (m, true)

/-- `write_codepoint`: one `push_buf` per byte -/
def pushBytesM (m : MP) (bs : List B) : MP := bs.foldl pushBufM m

/-- `escapeu` -/
def escapeuM (m : MP) (sp : SPtr) (c : B) : MP × Bool :=
  match toHex c with
  | none => (setErrorM m "invalid hex digit in unicode escape", true)
  | some d =>
    let m := writeState m sp (fun s => { s with argn := (s.argn <<< 4) + d })
    let m := writeState m sp (fun s => { s with counter := s.counter - 1 })
    if (readState m sp).counter == 0 then
      if (readState m sp).argn > maxCodepoint then (setErrorM m "invalid unicode codepoint", true)
      else
        let m := pushBytesM m (writeCodepoint (readState m sp).argn)
        let m := writeState m sp (fun s => { s with argn := 0 })
        (writeState m sp (fun s => { s with consumer := .stringchar }), true)
    else (m, true)

/-- `escape1` -/
def escape1M (m : MP) (sp : SPtr) (c : B) : MP × Bool :=
  if c == 120 then
    let m := writeState m sp (fun s => { s with counter := hexDigitsX })
    let m := writeState m sp (fun s => { s with argn := 0 })
    (writeState m sp (fun s => { s with consumer := .escapeh }), true)
  else if c == 117 || c == 85 then
    let m := writeState m sp (fun s => { s with counter := if c == 117 then hexDigitsU else hexDigitsBigU })
    let m := writeState m sp (fun s => { s with argn := 0 })
    (writeState m sp (fun s => { s with consumer := .escapeu }), true)
  else match checkEscape c with
    | none => (setErrorM m "invalid string escape sequence", true)
    | some e =>
      let m := pushBufM m e
      (writeState m sp (fun s => { s with consumer := .stringchar }), true)

/-- `tokenchar` -/
def tokencharM (scan : List B → Option String) (m : MP) (sp : SPtr) (c : B) : MP × Bool :=
  if isSymbolChar c then
    let m := pushBufM m c
    (if c > 127 then writeState m sp (fun s => { s with argn := 1 }) else m, true)
  else
    let m := m.chk (decide (0 < m.p.buf.length))           -- p->buf[0]
    let m := m.chk (derefOk m sp)                          -- state->argn
    match classifyToken scan m.p.buf ((readState m sp).argn != 0) with
    | .error e => (setErrorM m e, false)
    | .ok v => (popstateM m.p.states.length (clearBufM m) v, false)

/-- `comment` -/
def commentM (m : MP) (_sp : SPtr) (c : B) : MP × Bool :=
  if c == 10 then (clearBufM (decStateM m), true)
  else (pushBufM m c, true)

/-- `longstring` -/
def longstringM (m : MP) (sp : SPtr) (c : B) : MP × Bool :=
  let m := m.chk (derefOk m sp)
  let state := readState m sp
  if hasFlag state.flags PFLAG_INSTRING then
    if c == 96 then
      let m := writeState m sp (fun s => { s with flags := s.flags ||| PFLAG_END_CANDIDATE })
      let m := writeState m sp (fun s => { s with flags := s.flags &&& (0xFFFFFFFF ^^^ PFLAG_INSTRING) })
      (writeState m sp (fun s => { s with counter := 1 }), true)
    else (pushBufM m c, true)
  else if hasFlag state.flags PFLAG_END_CANDIDATE then
    if state.counter == state.argn then (stringendM m sp, false)
    else if c == 96 && state.counter < state.argn then (writeState m sp (fun s => { s with counter := s.counter + 1 }), true)
    else
      let m := pushBytesM m (List.replicate state.counter 96)
      let m := pushBufM m c
      let m := writeState m sp (fun s => { s with counter := 0 })
      let m := writeState m sp (fun s => { s with flags := s.flags &&& (0xFFFFFFFF ^^^ PFLAG_END_CANDIDATE) })
      (writeState m sp (fun s => { s with flags := s.flags ||| PFLAG_INSTRING }), true)
  else
    let m := writeState m sp (fun s => { s with argn := s.argn + 1 })
    if c != 96 then
      let m := writeState m sp (fun s => { s with flags := s.flags ||| PFLAG_INSTRING })
      (pushBufM m c, true)
    else (m, true)

/-- `atsign` -/
def atsignM (m : MP) (_sp : SPtr) (c : B) : MP × Bool :=
  let m := decStateM m
  if c == 123 then (pushstateM m .root (PFLAG_CONTAINER ||| PFLAG_CURLYBRACKETS ||| PFLAG_ATSYM), true)
  else if c == 34 then (pushstateM m .stringchar (PFLAG_BUFFER ||| PFLAG_STRING), true)
  else if c == 96 then (pushstateM m .longstring (PFLAG_BUFFER ||| PFLAG_LONGSTRING), true)
  else if c == 91 then (pushstateM m .root (PFLAG_CONTAINER ||| PFLAG_SQRBRACKETS ||| PFLAG_ATSYM), true)
  else if c == 40 then (pushstateM m .root (PFLAG_CONTAINER ||| PFLAG_PARENS ||| PFLAG_ATSYM), true)
  else (pushBufM (pushstateM m .tokenchar PFLAG_TOKEN) 64, false)

/-- closing delimiters in `root` (close_tuple / close_array / close_struct / close_table + popstate) -/
def closeDelimM (m : MP) (sp : SPtr) (c : B) : MP × Bool :=
  if m.p.states.length == 1 then (delimErrorM m 0 (some c) "unexpected closing delimiter ", true)
  else
    let m := m.chk (derefOk m sp)
    let state := readState m sp
    if (c == 41 && hasFlag state.flags PFLAG_PARENS) || (c == 93 && hasFlag state.flags PFLAG_SQRBRACKETS) then
      let (items, m) := popArgsM m state.argn
      let ds := if hasFlag state.flags PFLAG_ATSYM then Value.array items else Value.tuple (c == 93) 0 0 items
      (popstateM m.p.states.length m ds, true)
    else if c == 125 && hasFlag state.flags PFLAG_CURLYBRACKETS then
      if state.argn % 2 == 1 then (setErrorM m "struct and table literals expect even number of arguments", true)
      else
        let (items, m) := popArgsM m state.argn
        let ds := if hasFlag state.flags PFLAG_ATSYM then
            let (ks, vs) := buildDict tablePut items ([], [])
            Value.table ks vs
          else
            let (ks, vs) := buildDict structPut items ([], [])
            Value.struct ks vs
        (popstateM m.p.states.length m ds, true)
    else (delimErrorM m (m.p.states.length - 1) (some c) "mismatched delimiter ", true)

/-- `root` -/
def rootM (m : MP) (sp : SPtr) (c : B) : MP × Bool :=
  if c == 39 || c == 44 || c == 59 || c == 126 || c == 124 then (pushstateM m .root (PFLAG_READERMAC ||| c.toNat), true)
  else if c == 34 then (pushstateM m .stringchar PFLAG_STRING, true)
  else if c == 35 then (pushstateM m .comment PFLAG_COMMENT, true)
  else if c == 64 then (pushstateM m .atsign PFLAG_ATSYM, true)
  else if c == 96 then (pushstateM m .longstring PFLAG_LONGSTRING, true)
  else if c == 41 || c == 93 || c == 125 then closeDelimM m sp c
  else if c == 40 then (pushstateM m .root (PFLAG_CONTAINER ||| PFLAG_PARENS), true)
  else if c == 91 then (pushstateM m .root (PFLAG_CONTAINER ||| PFLAG_SQRBRACKETS), true)
  else if c == 123 then (pushstateM m .root (PFLAG_CONTAINER ||| PFLAG_CURLYBRACKETS), true)
  else if isWhitespace c then (m, true)
  else if !isSymbolChar c then (setErrorM m "unexpected character", true)
  else (pushstateM m .tokenchar PFLAG_TOKEN, false)

theorem advancePos_lens (p : Parser) (c : B) : (advancePos p c).buf.length = p.buf.length ∧
    (advancePos p c).states.length = p.states.length ∧ (advancePos p c).args.length = p.args.length := by
  unfold advancePos
  by_cases h1 : (c == 13) = true
  · rw [if_pos h1]; exact ⟨rfl, rfl, rfl⟩
  · rw [if_neg h1]
    by_cases h2 : (c == 10) = true
    · rw [if_pos h2]; exact ⟨rfl, rfl, rfl⟩
    · rw [if_neg h2]; exact ⟨rfl, rfl, rfl⟩

/-- loop body: `state = parser->states + parser->statecount - 1; consumed = state->consumer(parser, state, c)` -/
def stepM (scan : List B → Option String) (m : MP) (c : B) : MP × Bool :=
  let sp := topPtr m
  let m := m.chk (derefOk m sp)                            -- state->consumer
  match (readState m sp).consumer with
  | .root => rootM m sp c
  | .tokenchar => tokencharM scan m sp c
  | .stringchar => stringcharM m sp c
  | .escape1 => escape1M m sp c
  | .escapeh => escapehM m sp c
  | .escapeu => escapeuM m sp c
  | .longstring => longstringM m sp c
  | .comment => commentM m sp c
  | .atsign => atsignM m sp c

/-- `while (!consumed && !parser->error)`; out of fuel (never: `consume_total`) counts as a fault -/
def consumeLoopM (scan : List B → Option String) : Nat → MP → B → MP
  | 0, m, _ => m.chk false
  | fuel + 1, m, c =>
    if m.p.error.isSome then m
    else
      let (m', consumed) := stepM scan m c
      if consumed then m' else consumeLoopM scan fuel m' c

/-- body of `janet_parser_consume` after the dead check -/
def consumeRawM (scan : List B → Option String) (m : MP) (c : B) : MP :=
  let m1 := m.scal (fun p => advancePos p c) (advancePos_lens m.p c)
  let m2 := consumeLoopM scan (loopFuel m1.p) m1 c
  m2.scal (fun p => { p with lookback := Int.ofNat c.toNat }) ⟨rfl, rfl, rfl⟩

/-- `janet_parser_consume` -/
def consumeM (scan : List B → Option String) (m : MP) (c : B) : MP :=
  match checkDead m.p with
  | some _ => m
  | none => consumeRawM scan m c

/-- `janet_parser_eof` -/
def eofM (scan : List B → Option String) (m : MP) : MP :=
  match checkDead m.p with
  | some _ => m
  | none =>
    let m1 := consumeRawM scan m 10
    let m2 := if m1.p.states.length > 1 then delimErrorM m1 (m1.p.states.length - 1) none "unexpected end of source" else m1
    m2.scal (fun q => { q with line := m.p.line, column := m.p.column, flag := q.flag ||| JANET_PARSER_DEAD }) ⟨rfl, rfl, rfl⟩

/-! ### the queue side: produce, flush, error -/

theorem decRootArgn_len (S : List Frame) : (decRootArgn S).length = S.length := by
  unfold decRootArgn
  cases h : S.reverse with
  | nil => simp [List.reverse_eq_nil_iff.mp h]
  | cons r rest =>
    have : S.length = rest.length + 1 := by rw [← List.length_reverse, h]; rfl
    simp [this]

/-- `janet_parser_produce_wrapped`: reads `args[0]`, shifts `args[1 .. argcount)` down by one, `argcount--`, `states[0].argn--` -/
def produceWrappedM (m : MP) : Option Value × MP :=
  if m.p.pending == 0 then (none, m)
  else
    let m := m.chk (decide (0 < m.p.args.length))          -- parser->args[0]; parser->argcount-- (size_t)
    let m := m.chk (decide (0 < m.p.states.length))        -- parser->states[0].argn--
    match m.p.args.reverse with
    | [] => (none, m)
    | v :: _ =>
      (some v,
       { p := { m.p with args := m.p.args.dropLast, pending := m.p.pending - 1, states := decRootArgn m.p.states },
         k := m.k, sgen := m.sgen, fault := m.fault,
         capok := ⟨m.capok.1, by rw [decRootArgn_len]; exact m.capok.2.1,
           Nat.le_trans (by rw [List.length_dropLast]; exact Nat.sub_le _ _) m.capok.2.2⟩ })

/-- `janet_parser_produce` -/
def produceM (m : MP) : Option Value × MP :=
  match produceWrappedM m with
  | (some v, m') => (some (unwrap1 v), m')
  | (none, m') => (none, m')

theorem flush_lens (p : Parser) : (flush p).buf.length ≤ p.buf.length ∧ (flush p).states.length ≤ p.states.length ∧
    (flush p).args.length ≤ p.args.length := by
  refine ⟨Nat.zero_le _, ?_, Nat.zero_le _⟩
  have hd : (p.states.drop (p.states.length - 1)).length ≤ p.states.length := by
    rw [List.length_drop]; exact Nat.sub_le _ _
  have hb : ∀ (b : Bool) (f : Frame → Frame) (X : List Frame), (if b = true then X.map f else X).length = X.length := by
    intro b f X; cases b <;> simp
  exact Nat.le_trans (Nat.le_of_eq (hb flushResetsRootArgn (fun s => { s with argn := 0 }) _)) hd

/-- `janet_parser_flush`: `statecount = 1` keeps the block; `states[0].argn = 0` needs the root frame to exist -/
def flushM (m : MP) : MP :=
  { p := flush m.p, k := m.k, sgen := m.sgen,
    fault := m.fault || !decide (0 < m.p.states.length),
    capok := ⟨Nat.le_trans (flush_lens m.p).1 m.capok.1, Nat.le_trans (flush_lens m.p).2.1 m.capok.2.1,
      Nat.le_trans (flush_lens m.p).2.2 m.capok.2.2⟩ }

/-- `janet_parser_error` -/
def takeErrorM (m : MP) : Option String × MP :=
  match m.p.error with
  | some e =>
    (some e, flushM (m.scal (fun p => { p with error := none, flag := p.flag &&& (0xFFFFFFFF ^^^ JANET_PARSER_GENERATED_ERROR) }) ⟨rfl, rfl, rfl⟩))
  | none => (none, m)

/-- `janet_parser_init` -/
def MP.init : MP :=
  { p := Parser.init, k := Caps.init, sgen := 1, fault := false,
    capok := ⟨Nat.le_refl _, by show 1 ≤ growCap 0 0; exact growCap_fits 0 0, Nat.le_refl _⟩ }

/-! ### parser/insert, clone, parser/state -/

theorem jumpCap_fits (cap n : Nat) : n ≤ jumpCap cap n := by
  unfold jumpCap
  by_cases h : cap < n
  · rw [if_pos h]; exact Nat.le_mul_of_pos_left _ (by decide)
  · rw [if_neg h]; omega

/-- string branch of `cfun_parse_insert`: grow the scratch buffer in one jump, `safe_memcpy(p->buf + p->bufcount, str, slen)` -/
def bufAppendM (m : MP) (bs : List B) : MP :=
  { p := { m.p with buf := m.p.buf ++ bs },
    k := { m.k with buf := jumpCap m.k.buf (m.p.buf.length + bs.length) },
    sgen := m.sgen,
    fault := m.fault || !decide (m.p.buf.length + bs.length ≤ jumpCap m.k.buf (m.p.buf.length + bs.length)),
    capok := ⟨by simpa using jumpCap_fits m.k.buf (m.p.buf.length + bs.length), m.capok.2.1, m.capok.2.2⟩ }

/-- first half of `cfun_parse_insert`: `s = p->states + p->statecount - 1; if (s->consumer == tokenchar) { consume(p, ' '); column-- }` -/
def insertPreM (scan : List B → Option String) (m : MP) : MP × Option String :=
  let sp := topPtr m
  let m := m.chk (derefOk m sp)
  if (readState m sp).consumer == .tokenchar then
    match checkDead m.p with
    | some msg => (m, some msg)
    | none => ((consumeRawM scan m 32).scal (fun p => { p with column := p.column - 1 }) ⟨rfl, rfl, rfl⟩, none)
  else (m, none)

/-- second half: `s` is recomputed after the consume; `if (s->flags & PFLAG_COMMENT) s--;` must stay inside the block -/
def insertAtM (m : MP) (v : Value) (vstr : List B) : MP × Option String :=
  let sp := topPtr m
  let m := m.chk (derefOk m sp)
  let cm := hasFlag (readState m sp).flags PFLAG_COMMENT
  let m := if cm then m.chk (decide (0 < sp.idx)) else m
  let sp : SPtr := if cm then { sp with idx := sp.idx - 1 } else sp
  let m := m.chk (derefOk m sp)
  let s := readState m sp
  if hasFlag s.flags PFLAG_CONTAINER then
    let m := writeState m sp (fun f => { f with argn := f.argn + 1 })
    let isRoot := if insertRootTestByFrame then sp.idx == 0 else m.p.states.length == 1
    if isRoot then
      (pushArgM (m.scal (fun p => { p with pending := p.pending + 1 }) ⟨rfl, rfl, rfl⟩) (Value.tuple false smNone smNone [v]), none)
    else (pushArgM m v, none)
  else if hasFlag s.flags (PFLAG_STRING ||| PFLAG_LONGSTRING) then (bufAppendM m vstr, none)
  else (m, some "cannot insert value into parser")

/-- `cfun_parse_insert` -/
def insertM (scan : List B → Option String) (m : MP) (v : Value) (vstr : List B) : MP × Option String :=
  match insertPreM scan m with
  | (m, some e) => (m, some e)
  | (m, none) => insertAtM m v vstr

/-- `janet_parser_clone`: three fresh blocks of exactly `count` elements, `memcpy` of `count` elements out of the source blocks -/
def cloneM (m : MP) : MP :=
  { p := clone m.p, k := cloneK m.p, sgen := m.sgen + 1,
    fault := m.fault || !(decide (m.p.buf.length ≤ m.k.buf) && decide (m.p.states.length ≤ m.k.states) && decide (m.p.args.length ≤ m.k.args)),
    capok := ⟨Nat.le_refl _, Nat.le_refl _, Nat.le_refl _⟩ }

/-- `p->bufcount = oldcount` (parser_state_delimiters): back to an earlier, smaller count -/
def truncBufM (m : MP) (n : Nat) : MP :=
  { p := { m.p with buf := m.p.buf.take n }, k := m.k, sgen := m.sgen,
    fault := m.fault || !decide (n ≤ m.p.buf.length),
    capok := ⟨Nat.le_trans (by rw [List.length_take]; exact Nat.min_le_right _ _) m.capok.1, m.capok.2.1, m.capok.2.2⟩ }

/-- `parser_state_delimiters`: push the delimiters behind the scratch contents, read them back, restore the count -/
def stateDelimsM (m : MP) : List B × MP :=
  let old := m.p.buf.length
  let m1 := pushBytesM m (delimiters m.p)
  (m1.p.buf.drop old, truncBufM m1 old)

/-- a machine state from its parts (used by the driver for the operations that are only in the capacity overlay: clone,
    `parser/insert`, `parser/state`); a capacity below its count -- excluded by `Props.C11.capacity_invariant` -- is raised to it -/
def MP.ofParts (p : Parser) (k : Caps) (sgen : Nat) (fault : Bool) : MP :=
  { p := p, k := ⟨max k.buf p.buf.length, max k.states p.states.length, max k.args p.args.length⟩, sgen := sgen, fault := fault,
    capok := ⟨Nat.le_max_right _ _, Nat.le_max_right _ _, Nat.le_max_right _ _⟩ }

/-! ### the client protocol (as `Run` / `feedByte` / `finish` in Model.lean) -/

structure MRun where
  m : MP
  out : List Event

def MRun.init : MRun := { m := MP.init, out := [] }

def drainAuxM : Nat → MP → List Event → MP × List Event
  | 0, m, acc => (m, acc)
  | n + 1, m, acc =>
    match produceM m with
    | (some v, m') => drainAuxM n m' (acc ++ [.value v])
    | (none, m') => (m', acc)

def drainM (r : MRun) : MRun :=
  let (m, out) := drainAuxM r.m.p.pending r.m r.out
  { m := m, out := out }

def handleErrorM (r : MRun) : MRun :=
  if r.m.p.error.isSome then
    let r := drainM r
    match takeErrorM r.m with
    | (some e, m) => { m := m, out := r.out ++ [.error e r.m.p.line r.m.p.column] }
    | (none, m) => { r with m := m }
  else r

def feedByteM (scan : List B → Option String) (r : MRun) (c : B) : MRun :=
  handleErrorM { r with m := consumeM scan r.m c }

def feedM (scan : List B → Option String) (r : MRun) (bs : List B) : MRun := bs.foldl (feedByteM scan) r

def finishM (scan : List B → Option String) (r : MRun) : MRun :=
  drainM (handleErrorM { r with m := eofM scan r.m })

end JanetModel.Parse
