/- Executable model of janet's parser (src/core/parse.c).  CORE LEAN ONLY (linked into jm_c11).

   The C's control structure is kept: one function per `Consumer` (root, tokenchar, stringchar, escape1, escapeh, escapeu,
   longstring, comment, atsign), `popstate`, `stringend`, `delim_error`, the `while (!consumed && !error)` loop of
   `janet_parser_consume` (fuelled; `Props.C11.consume_total` shows the fuel always suffices), eof / flush / error /
   produce / status / clone / parser/state.  Mutation of the parser struct is a returned `Parser`.

   Number tokens are abstract: every function that classifies a token takes `scan : List UInt8 → Option String`
   (janet_scan_numeric; `some tag` = a number whose canonical rendering is `tag`). -/
import JanetModel.Gen.Parse

namespace JanetModel.Parse
open JanetModel.Gen.Parse

abbrev B := UInt8

/-- Janet data values the parser can produce.  Numbers carry only the abstract tag returned by `scan`.
    Tuples carry the bracket flag and the source-map line/column the parser attaches. -/
inductive Value where
  | nil
  | bool (b : Bool)
  | num (tag : String)
  | str (bs : List B)
  | buf (bs : List B)
  | sym (bs : List B)
  | kw (bs : List B)
  | tuple (bracket : Bool) (line col : Nat) (items : List Value)
  | array (items : List Value)
  | struct (keys vals : List Value)
  | table (keys vals : List Value)
  deriving Inhabited

inductive Consumer where
  | root | tokenchar | stringchar | escape1 | escapeh | escapeu | longstring | comment | atsign
  deriving DecidableEq, Repr, Inhabited

/-- `struct JanetParseState` -/
structure Frame where
  counter : Nat
  argn : Nat
  flags : Nat
  line : Nat
  column : Nat
  consumer : Consumer
  deriving Inhabited

/-- `struct JanetParser`.  `states` and `args` are stacks with the TOP AT THE HEAD; `buf` is in order.
    Capacities are not modelled. -/
structure Parser where
  args : List Value
  error : Option String
  states : List Frame
  buf : List B
  line : Nat
  column : Nat
  pending : Nat
  lookback : Int
  flag : Nat
  deriving Inhabited

/-! ### character classes (tables from Gen) -/

def hasFlag (flags f : Nat) : Bool := flags &&& f != 0

def isWhitespace (c : B) : Bool := whitespace.contains c.toNat

def isSymbolChar (c : B) : Bool :=
  (symchars.getD (c.toNat >>> 5) 0 >>> (c.toNat &&& 0x1F)) &&& 1 == 1

def toHex (c : B) : Option Nat :=
  if 48 ≤ c.toNat ∧ c.toNat ≤ 57 then some (c.toNat - 48)
  else if 65 ≤ c.toNat ∧ c.toNat ≤ 70 then some (10 + c.toNat - 65)
  else if 97 ≤ c.toNat ∧ c.toNat ≤ 102 then some (10 + c.toNat - 97)
  else none

/-- `checkescape` for the single-letter escapes -/
def checkEscape (c : B) : Option B :=
  match checkescape.find? (fun kv => kv.1 == c.toNat) with
  | some kv => some kv.2.toUInt8
  | none => none

/-- `janet_valid_utf8` (fuel = length) -/
def validUtf8Aux : Nat → List B → Bool
  | 0, l => l.isEmpty
  | _, [] => true
  | fuel + 1, c :: t =>
    let n := if c < 0x80 then 1 else if c >>> 5 == 0x06 then 2 else if c >>> 4 == 0x0E then 3 else if c >>> 3 == 0x1E then 4 else 0
    if n == 0 then false
    else if n > t.length + 1 then false
    else if !((t.take (n - 1)).all (fun x => x >>> 6 == 2)) then false
    else if n == 2 && c < 0xC2 then false
    else if c == 0xE0 && t.headD 0 < 0xA0 then false
    else if c == 0xF0 && t.headD 0 < 0x90 then false
    else validUtf8Aux fuel (t.drop (n - 1))

def validUtf8 (l : List B) : Bool := validUtf8Aux l.length l

/-! ### values -/

def Value.isTuple : Value → Bool
  | .tuple .. => true
  | _ => false

def Value.isNil : Value → Bool
  | .nil => true
  | _ => false

/-- popstate's source-map update: only tuples carry one -/
def Value.withSm (v : Value) (line col : Nat) : Value :=
  match v with
  | .tuple b _ _ items => .tuple b line col items
  | v => v

/-- tags are `n<16 hex digits of the double>` (the printer driver appends `:<text>`) -/
def zeroTag (t : String) : Bool :=
  let h := String.ofList (t.toList.take 17)
  h == "n0000000000000000" || h == "n8000000000000000"

/-- `janet_equals` on parser-produced values, as used for struct / table keys.  Buffers, arrays and tables are
    compared by identity in C; two distinct literals are never the same object.  Fuelled (depth). -/
def keqF : Nat → Value → Value → Bool
  | 0, _, _ => false
  | fuel + 1, a, b =>
    let listEq (xs ys : List Value) : Bool := xs.length == ys.length && (xs.zip ys).all (fun ab => keqF fuel ab.1 ab.2)
    let lookup (k : Value) (ks vs : List Value) : Option Value :=
      ((ks.zip vs).find? (fun kv => keqF fuel kv.1 k)).map (·.2)
    match a, b with
    | .nil, .nil => true
    | .bool x, .bool y => x == y
    | .num x, .num y => x == y || (zeroTag x && zeroTag y)
    | .str x, .str y => x == y
    | .sym x, .sym y => x == y
    | .kw x, .kw y => x == y
    | .tuple b1 _ _ i1, .tuple b2 _ _ i2 => b1 == b2 && listEq i1 i2
    | .struct k1 v1, .struct k2 v2 =>
      k1.length == k2.length &&
      (k1.zip v1).all (fun kv => match lookup kv.1 k2 v2 with
        | some v => keqF fuel kv.2 v
        | none => false)
    | _, _ => false

def keq (a b : Value) : Bool := keqF 4096 a b

/-- `janet_struct_put` over an insertion-ordered association list: nil key or value ignored, an equal key keeps the
    first key and takes the new value -/
def structPut (ks vs : List Value) (k v : Value) : List Value × List Value :=
  if k.isNil || v.isNil then (ks, vs)
  else if ks.any (keq k) then (ks, (ks.zip vs).map (fun kv => if keq k kv.1 then v else kv.2))
  else (ks ++ [k], vs ++ [v])

/-- `janet_table_put`: nil key ignored, nil value removes, otherwise replace / append -/
def tablePut (ks vs : List Value) (k v : Value) : List Value × List Value :=
  if k.isNil then (ks, vs)
  else if v.isNil then (((ks.zip vs).filter (fun kv => !keq k kv.1)).map (·.1), ((ks.zip vs).filter (fun kv => !keq k kv.1)).map (·.2))
  else if ks.any (keq k) then (ks, (ks.zip vs).map (fun kv => if keq k kv.1 then v else kv.2))
  else (ks ++ [k], vs ++ [v])

def buildDict (put : List Value → List Value → Value → Value → List Value × List Value) : List Value → List Value × List Value → List Value × List Value
  | k :: v :: rest, acc => buildDict put rest (put acc.1 acc.2 k v)
  | _, acc => acc

/-! ### parser primitives -/

def rootFlags : Nat := PFLAG_CONTAINER

/-- `janet_parser_init` -/
def Parser.init : Parser :=
  { args := [], error := none, states := [{ counter := 0, argn := 0, flags := PFLAG_CONTAINER, line := 1, column := 0, consumer := .root }],
    buf := [], line := 1, column := 0, pending := 0, lookback := -1, flag := 0 }

/-- `pushstate` -/
def pushstate (p : Parser) (consumer : Consumer) (flags : Nat) : Parser :=
  { p with states := { counter := 0, argn := 0, flags := flags, line := p.line, column := p.column, consumer := consumer } :: p.states }

def pushBuf (p : Parser) (c : B) : Parser := { p with buf := p.buf ++ [c] }

def readerMacName (c : Nat) : String :=
  if c == 39 then "quote" else if c == 44 then "unquote" else if c == 59 then "splice" else if c == 124 then "short-fn"
  else if c == 126 then "quasiquote" else "<unknown>"

def strBytes (s : String) : List B := s.toUTF8.toList

/-- the `for (;;)` of `popstate`, as recursion over the state stack.  Returns the new stack, the argument to push
    (if any) and whether `pending` is incremented. -/
def popstateAux : List Frame → Value → List Frame × Option Value × Bool
  | [], _ => ([], none, false)
  | top :: rest, val =>
    let val := val.withSm top.line top.column
    match rest with
    | [] => ([], none, false)          -- C: reads states[-1]; unreachable (the root frame is a container and is never popped)
    | newtop :: rest' =>
      if hasFlag newtop.flags PFLAG_CONTAINER then
        let newtop' := { newtop with argn := newtop.argn + 1 }
        if rest'.isEmpty then
          (newtop' :: rest', some (.tuple false top.line top.column [val]), true)
        else
          (newtop' :: rest', some val, false)
      else if hasFlag newtop.flags PFLAG_READERMAC then
        let t := Value.tuple false newtop.line newtop.column [.sym (strBytes (readerMacName (newtop.flags &&& 0xFF))), val]
        popstateAux (newtop :: rest') t
      else
        (newtop :: rest', none, false)

def popstate (p : Parser) (val : Value) : Parser :=
  let (st, push, pend) := popstateAux p.states val
  { p with states := st,
           args := match push with | some v => v :: p.args | none => p.args,
           pending := if pend then p.pending + 1 else p.pending }

def natToDec (n : Nat) : String := toString n

/-- `delim_error`: `idx` is the C stack index (0 = root frame) -/
def delimError (p : Parser) (idx : Nat) (c : Option B) (msg : String) : Parser :=
  let n := p.states.length
  let s : Frame := p.states.getD (n - 1 - idx) default
  let m := msg ++ (match c with | some ch => String.ofList [Char.ofNat ch.toNat] | none => "")
  let m := if idx > 0 then
      let d := if hasFlag s.flags PFLAG_PARENS then "("
        else if hasFlag s.flags PFLAG_SQRBRACKETS then "["
        else if hasFlag s.flags PFLAG_CURLYBRACKETS then "{"
        else if hasFlag s.flags PFLAG_STRING then "\""
        else if hasFlag s.flags PFLAG_LONGSTRING then String.ofList (List.replicate s.argn '`')
        else ""
      m ++ ", " ++ d ++ " opened at line " ++ natToDec s.line ++ ", column " ++ natToDec s.column
    else m
  { p with error := some m, flag := p.flag ||| JANET_PARSER_GENERATED_ERROR }

def setTop (p : Parser) (f : Frame → Frame) : Parser :=
  match p.states with
  | [] => p
  | s :: rest => { p with states := f s :: rest }

/-! ### strings -/

/-- `write_codepoint` -/
def writeCodepoint (cp : Nat) : List B :=
  if cp ≤ 0x7F then [cp.toUInt8]
  else if cp ≤ 0x7FF then [(((cp >>> 6) &&& 0x1F) ||| 0xC0).toUInt8, ((cp &&& 0x3F) ||| 0x80).toUInt8]
  else if cp ≤ 0xFFFF then [(((cp >>> 12) &&& 0x0F) ||| 0xE0).toUInt8, (((cp >>> 6) &&& 0x3F) ||| 0x80).toUInt8, ((cp &&& 0x3F) ||| 0x80).toUInt8]
  else [(((cp >>> 18) &&& 0x07) ||| 0xF0).toUInt8, (((cp >>> 12) &&& 0x3F) ||| 0x80).toUInt8, (((cp >>> 6) &&& 0x3F) ||| 0x80).toUInt8,
        ((cp &&& 0x3F) ||| 0x80).toUInt8]

/-- inner `for` of the reindent check: at most `k` bytes, stop at '\n', fail on a non-space -/
def indentCheckLine : Nat → List B → Bool × List B
  | 0, l => (true, l)
  | _, [] => (true, [])
  | k + 1, c :: t => if c == 10 then (true, c :: t) else if c != 32 then (false, c :: t) else indentCheckLine k t

def startsCRLF : List B → Bool
  | a :: b :: _ => a == 13 && b == 10
  | _ => false

/-- first pass of `stringend` for long strings: can the text be re-indented? (fuel = length + 1) -/
def reindentCheck : Nat → Nat → List B → Bool
  | 0, _, _ => true
  | _, _, [] => true
  | fuel + 1, ind, c :: t =>
    if c == 10 then
      let (ok, r) := indentCheckLine ind t
      let ok := if startsCRLF r then true else ok
      if ok then reindentCheck fuel ind r else false
    else reindentCheck fuel ind t

/-- inner `for` of the rewrite pass: skip at most `k` bytes that are not '\n' -/
def skipIndent : Nat → List B → List B
  | 0, l => l
  | _, [] => []
  | k + 1, c :: t => if c == 10 then c :: t else skipIndent k t

/-- second pass of `stringend` (fuel = length + 1) -/
def reindent : Nat → Nat → List B → List B
  | 0, _, l => l
  | _, _, [] => []
  | fuel + 1, ind, c :: t =>
    if c == 10 then
      let r := skipIndent ind t
      match r with
      | a :: b :: r' => if a == 13 && b == 10 then c :: a :: reindent fuel ind (b :: r') else c :: reindent fuel ind r
      | _ => c :: reindent fuel ind r
    else c :: reindent fuel ind t

def stripLeadingEol : List B → List B
  | 13 :: 10 :: t => t
  | 10 :: t => t
  | l => l

def stripTrailingEol (l : List B) : List B :=
  match l.reverse with
  | 10 :: 13 :: t => t.reverse
  | 10 :: t => t.reverse
  | _ => l

/-- the long-string post-processing of `stringend` -/
def dedent (indentCol : Nat) (buf : List B) : List B :=
  let b := if reindentCheck (buf.length + 1) indentCol buf then reindent (buf.length + 1) indentCol buf else buf
  stripTrailingEol (stripLeadingEol b)

/-- `stringend` -/
def stringend (p : Parser) (state : Frame) : Parser :=
  let bytes := if hasFlag state.flags PFLAG_LONGSTRING then dedent (state.column - 1) p.buf else p.buf
  let ret := if hasFlag state.flags PFLAG_BUFFER then Value.buf bytes else Value.str bytes
  popstate { p with buf := [] } ret

/-- `stringchar` -/
def stringchar (p : Parser) (state : Frame) (c : B) : Parser × Bool :=
  if c == 92 then (setTop p (fun s => { s with consumer := .escape1 }), true)
  else if c == 34 then (stringend p state, true)
  else if c != 10 && c != 13 then (pushBuf p c, true)
  else (p, true)

/-- `escapeh` -/
def escapeh (p : Parser) (state : Frame) (c : B) : Parser × Bool :=
  match toHex c with
  | none => ({ p with error := some "invalid hex digit in hex escape" }, true)
  | some d =>
    let argn := (state.argn <<< 4) + d
    let counter := state.counter - 1
    if counter == 0 then
      (setTop (pushBuf p (argn &&& 0xFF).toUInt8) (fun s => { s with argn := 0, counter := counter, consumer := .stringchar }), true)
    else (setTop p (fun s => { s with argn := argn, counter := counter }), true)

/-- `escapeu` -/
def escapeu (p : Parser) (state : Frame) (c : B) : Parser × Bool :=
  match toHex c with
  | none => ({ p with error := some "invalid hex digit in unicode escape" }, true)
  | some d =>
    let argn := (state.argn <<< 4) + d
    let counter := state.counter - 1
    if counter == 0 then
      if argn > maxCodepoint then
        ({ setTop p (fun s => { s with argn := argn, counter := counter }) with error := some "invalid unicode codepoint" }, true)
      else
        (setTop { p with buf := p.buf ++ writeCodepoint argn } (fun s => { s with argn := 0, counter := counter, consumer := .stringchar }), true)
    else (setTop p (fun s => { s with argn := argn, counter := counter }), true)

/-- `escape1` -/
def escape1 (p : Parser) (_state : Frame) (c : B) : Parser × Bool :=
  if c == 120 then (setTop p (fun s => { s with counter := hexDigitsX, argn := 0, consumer := .escapeh }), true)
  else if c == 117 || c == 85 then
    (setTop p (fun s => { s with counter := if c == 117 then hexDigitsU else hexDigitsBigU, argn := 0, consumer := .escapeu }), true)
  else match checkEscape c with
    | none => ({ p with error := some "invalid string escape sequence" }, true)
    | some e => (setTop (pushBuf p e) (fun s => { s with consumer := .stringchar }), true)

/-! ### tokens -/

/-- `check_str_const(cstr, str, len) == 0` -/
def isConst : List B → List B → Bool
  | cs, [] => cs.isEmpty
  | [], c :: _ => c == 0
  | k :: ks, c :: t => c == k && isConst ks t

def nilBytes : List B := [110, 105, 108]
def trueBytes : List B := [116, 114, 117, 101]
def falseBytes : List B := [102, 97, 108, 115, 101]

/-- token classification part of `tokenchar` (after the token is complete): `Except error value` -/
def classifyToken (scan : List B → Option String) (buf : List B) (nonAscii : Bool) : Except String Value :=
  let b0 := buf.headD 0
  let startDig := 48 ≤ b0.toNat && b0.toNat ≤ 57
  let startNum := startDig || b0 == 45 || b0 == 43 || b0 == 46
  if b0 == 58 then
    if !nonAscii || validUtf8 (buf.drop 1) then .ok (.kw (buf.drop 1)) else .error "invalid utf-8 in keyword"
  else
    match (if startNum then scan buf else none) with
    | some tag => .ok (.num tag)
    | none =>
      if isConst nilBytes buf then .ok .nil
      else if isConst falseBytes buf then .ok (.bool false)
      else if isConst trueBytes buf then .ok (.bool true)
      else if startDig then .error "symbol literal cannot start with a digit"
      else if !nonAscii || validUtf8 buf then .ok (.sym buf)
      else .error "invalid utf-8 in symbol"

/-- `tokenchar` -/
def tokenchar (scan : List B → Option String) (p : Parser) (state : Frame) (c : B) : Parser × Bool :=
  if isSymbolChar c then
    let p := pushBuf p c
    (if c > 127 then setTop p (fun s => { s with argn := 1 }) else p, true)
  else
    match classifyToken scan p.buf (state.argn != 0) with
    | .error e => ({ p with error := some e }, false)
    | .ok v => (popstate { p with buf := [] } v, false)

/-- `comment` -/
def comment (p : Parser) (_state : Frame) (c : B) : Parser × Bool :=
  if c == 10 then ({ p with states := p.states.drop 1, buf := [] }, true)
  else (pushBuf p c, true)

/-! ### containers -/

/-- pop `n` arguments; returned in source order -/
def takeArgs (p : Parser) (n : Nat) : List Value × Parser :=
  ((p.args.take n).reverse, { p with args := p.args.drop n })

/-- `longstring` -/
def longstring (p : Parser) (state : Frame) (c : B) : Parser × Bool :=
  if hasFlag state.flags PFLAG_INSTRING then
    if c == 96 then
      (setTop p (fun s => { s with flags := (s.flags ||| PFLAG_END_CANDIDATE) &&& (0xFFFFFFFF ^^^ PFLAG_INSTRING), counter := 1 }), true)
    else (pushBuf p c, true)
  else if hasFlag state.flags PFLAG_END_CANDIDATE then
    if state.counter == state.argn then (stringend p state, false)
    else if c == 96 && state.counter < state.argn then (setTop p (fun s => { s with counter := s.counter + 1 }), true)
    else
      let p := { p with buf := p.buf ++ List.replicate state.counter 96 ++ [c] }
      (setTop p (fun s => { s with counter := 0, flags := (s.flags &&& (0xFFFFFFFF ^^^ PFLAG_END_CANDIDATE)) ||| PFLAG_INSTRING }), true)
  else
    let p := setTop p (fun s => { s with argn := s.argn + 1 })
    if c != 96 then (pushBuf (setTop p (fun s => { s with flags := s.flags ||| PFLAG_INSTRING })) c, true)
    else (p, true)

/-- `atsign` -/
def atsign (p : Parser) (_state : Frame) (c : B) : Parser × Bool :=
  let p := { p with states := p.states.drop 1 }
  if c == 123 then (pushstate p .root (PFLAG_CONTAINER ||| PFLAG_CURLYBRACKETS ||| PFLAG_ATSYM), true)
  else if c == 34 then (pushstate p .stringchar (PFLAG_BUFFER ||| PFLAG_STRING), true)
  else if c == 96 then (pushstate p .longstring (PFLAG_BUFFER ||| PFLAG_LONGSTRING), true)
  else if c == 91 then (pushstate p .root (PFLAG_CONTAINER ||| PFLAG_SQRBRACKETS ||| PFLAG_ATSYM), true)
  else if c == 40 then (pushstate p .root (PFLAG_CONTAINER ||| PFLAG_PARENS ||| PFLAG_ATSYM), true)
  else (pushBuf (pushstate p .tokenchar PFLAG_TOKEN) 64, false)

/-- closing delimiter handling of `root` -/
def closeDelim (p : Parser) (state : Frame) (c : B) : Parser × Bool :=
  if p.states.length == 1 then (delimError p 0 (some c) "unexpected closing delimiter ", true)
  else if (c == 41 && hasFlag state.flags PFLAG_PARENS) || (c == 93 && hasFlag state.flags PFLAG_SQRBRACKETS) then
    let (items, p) := takeArgs p state.argn
    let ds := if hasFlag state.flags PFLAG_ATSYM then Value.array items else Value.tuple (c == 93) 0 0 items
    (popstate p ds, true)
  else if c == 125 && hasFlag state.flags PFLAG_CURLYBRACKETS then
    if state.argn % 2 == 1 then ({ p with error := some "struct and table literals expect even number of arguments" }, true)
    else
      let (items, p) := takeArgs p state.argn
      let ds := if hasFlag state.flags PFLAG_ATSYM then
          let (ks, vs) := buildDict tablePut items ([], [])
          Value.table ks vs
        else
          let (ks, vs) := buildDict structPut items ([], [])
          Value.struct ks vs
      (popstate p ds, true)
  else (delimError p (p.states.length - 1) (some c) "mismatched delimiter ", true)

/-- `root` -/
def root (p : Parser) (state : Frame) (c : B) : Parser × Bool :=
  if c == 39 || c == 44 || c == 59 || c == 126 || c == 124 then (pushstate p .root (PFLAG_READERMAC ||| c.toNat), true)
  else if c == 34 then (pushstate p .stringchar PFLAG_STRING, true)
  else if c == 35 then (pushstate p .comment PFLAG_COMMENT, true)
  else if c == 64 then (pushstate p .atsign PFLAG_ATSYM, true)
  else if c == 96 then (pushstate p .longstring PFLAG_LONGSTRING, true)
  else if c == 41 || c == 93 || c == 125 then closeDelim p state c
  else if c == 40 then (pushstate p .root (PFLAG_CONTAINER ||| PFLAG_PARENS), true)
  else if c == 91 then (pushstate p .root (PFLAG_CONTAINER ||| PFLAG_SQRBRACKETS), true)
  else if c == 123 then (pushstate p .root (PFLAG_CONTAINER ||| PFLAG_CURLYBRACKETS), true)
  else if isWhitespace c then (p, true)
  else if !isSymbolChar c then ({ p with error := some "unexpected character" }, true)
  else (pushstate p .tokenchar PFLAG_TOKEN, false)

/-- dispatch `state->consumer(parser, state, c)` -/
def step (scan : List B → Option String) (p : Parser) (c : B) : Parser × Bool :=
  match p.states with
  | [] => (p, true)                       -- no frame: unreachable in C (root frame is never popped)
  | state :: _ =>
    match state.consumer with
    | .root => root p state c
    | .tokenchar => tokenchar scan p state c
    | .stringchar => stringchar p state c
    | .escape1 => escape1 p state c
    | .escapeh => escapeh p state c
    | .escapeu => escapeu p state c
    | .longstring => longstring p state c
    | .comment => comment p state c
    | .atsign => atsign p state c

/-- `while (!consumed && !parser->error)`; `none` = fuel exhausted (never: `Props.C11.consume_total`) -/
def consumeLoop (scan : List B → Option String) : Nat → Parser → B → Option Parser
  | 0, _, _ => none
  | fuel + 1, p, c =>
    if p.error.isSome then some p
    else
      let (p', consumed) := step scan p c
      if consumed then some p' else consumeLoop scan fuel p' c

def loopFuel (p : Parser) : Nat := 2 * p.states.length + 3

/-- line / column / lookback rule of `janet_parser_consume` -/
def advancePos (p : Parser) (c : B) : Parser :=
  if c == 13 then { p with line := p.line + 1, column := 0 }
  else if c == 10 then { p with column := 0, line := if p.lookback != 13 then p.line + 1 else p.line }
  else { p with column := p.column + 1 }

/-- `janet_parser_checkdead`: the panic message, if any -/
def checkDead (p : Parser) : Option String :=
  if p.flag != 0 then some "parser is dead, cannot consume"
  else if p.error.isSome then some "parser has unchecked error, cannot consume"
  else none

/-- body of `janet_parser_consume` after the dead check -/
def consumeRaw (scan : List B → Option String) (p : Parser) (c : B) : Parser :=
  let p1 := advancePos p c
  let p2 := (consumeLoop scan (loopFuel p1) p1 c).getD p1
  { p2 with lookback := Int.ofNat c.toNat }

/-- `janet_parser_consume`; a panic leaves the parser untouched -/
def consume (scan : List B → Option String) (p : Parser) (c : B) : Parser :=
  match checkDead p with
  | some _ => p
  | none => consumeRaw scan p c

/-- `janet_parser_eof` -/
def eof (scan : List B → Option String) (p : Parser) : Parser :=
  match checkDead p with
  | some _ => p
  | none =>
    let p1 := consumeRaw scan p 10
    let p2 := if p1.states.length > 1 then delimError p1 (p1.states.length - 1) none "unexpected end of source" else p1
    { p2 with line := p.line, column := p.column, flag := p2.flag ||| JANET_PARSER_DEAD }

inductive Status where
  | root | error | pending | dead
  deriving DecidableEq, Repr

/-- `janet_parser_status` -/
def status (p : Parser) : Status :=
  if p.error.isSome then .error
  else if p.flag != 0 then .dead
  else if p.states.length > 1 then .pending
  else .root

def Status.name : Status → String
  | .root => "root" | .error => "error" | .pending => "pending" | .dead => "dead"

/-- `janet_parser_flush`.  Whether `states[0].argn` is reset follows the current source (`Gen.flushResetsRootArgn`). -/
def flush (p : Parser) : Parser :=
  let bottom := p.states.drop (p.states.length - 1)
  { p with args := [], states := if flushResetsRootArgn then bottom.map (fun s => { s with argn := 0 }) else bottom, buf := [], pending := 0 }

/-- `janet_parser_error` -/
def takeError (p : Parser) : Option String × Parser :=
  match p.error with
  | some e => (some e, flush { p with error := none, flag := p.flag &&& (0xFFFFFFFF ^^^ JANET_PARSER_GENERATED_ERROR) })
  | none => (none, p)

def decRootArgn (states : List Frame) : List Frame :=
  match states.reverse with
  | [] => []
  | r :: rest => ({ r with argn := r.argn - 1 } :: rest).reverse

/-- `janet_parser_produce_wrapped`: dequeue `args[0]` (the bottom of the argument stack) -/
def produceWrapped (p : Parser) : Option Value × Parser :=
  if p.pending == 0 then (none, p)
  else
    match p.args.reverse with
    | [] => (none, p)
    | v :: rest => (some v, { p with args := rest.reverse, pending := p.pending - 1, states := decRootArgn p.states })

def unwrap1 : Value → Value
  | .tuple _ _ _ (v :: _) => v
  | v => v

/-- `janet_parser_produce` -/
def produce (p : Parser) : Option Value × Parser :=
  match produceWrapped p with
  | (some v, p') => (some (unwrap1 v), p')
  | (none, p') => (none, p')

/-- `janet_parser_has_more` -/
def hasMore (p : Parser) : Bool := p.pending != 0

/-- `janet_parser_clone`: every field is copied (deep copies of the three arrays) -/
def clone (p : Parser) : Parser := p

/-- `parser/where` without arguments -/
def whereAt (p : Parser) : Nat × Nat := (p.line, p.column)

/-- source-map fields of a tuple made by `janet_tuple_n` (-1 in C) -/
def smNone : Nat := 0xFFFFFFFF

/-- update the frame at index `i` from the top -/
def modifyFrame (states : List Frame) (i : Nat) (f : Frame → Frame) : List Frame :=
  match states, i with
  | [], _ => []
  | s :: rest, 0 => f s :: rest
  | s :: rest, i + 1 => s :: modifyFrame rest i f

/-- `parser/insert`.  `vstr` is `janet_to_string value` (only used inside string frames).  `Except.error` = panic message
    (a pending token may already have been finished by then).  Which frame counts as the
    root frame follows the current source (`Gen.insertRootTestByFrame`). -/
def insert (scan : List B → Option String) (p : Parser) (v : Value) (vstr : List B) : Parser × Option String :=
  let p1 : Parser × Option String :=
    match p.states with
    | top :: _ =>
      if top.consumer == .tokenchar then
        match checkDead p with
        | some msg => (p, some msg)
        | none => let q := consumeRaw scan p 32; ({ q with column := q.column - 1 }, none)
      else (p, none)
    | [] => (p, none)
  match p1 with
  | (p, some e) => (p, some e)
  | (p, none) =>
    let i := match p.states with
      | top :: _ => if hasFlag top.flags PFLAG_COMMENT then 1 else 0
      | [] => 0
    let s := p.states.getD i default
    if hasFlag s.flags PFLAG_CONTAINER then
      let states := modifyFrame p.states i (fun f => { f with argn := f.argn + 1 })
      let isRoot := if insertRootTestByFrame then i + 1 == p.states.length else p.states.length == 1
      if isRoot then
        ({ p with states := states, pending := p.pending + 1, args := Value.tuple false smNone smNone [v] :: p.args }, none)
      else ({ p with states := states, args := v :: p.args }, none)
    else if hasFlag s.flags (PFLAG_STRING ||| PFLAG_LONGSTRING) then ({ p with buf := p.buf ++ vstr }, none)
    else (p, some "cannot insert value into parser")

/-- `parser/where` with arguments: `Except.error` = panic message -/
def setWhere (p : Parser) (line : Option Int) (col : Option Int) : Except String Parser :=
  match line with
  | some l =>
    if l < 1 then .error s!"invalid line number {l}"
    else
      let p := { p with line := l.toNat }
      match col with
      | some c => if c < 0 then .error s!"invalid column number {c}" else .ok { p with column := c.toNat }
      | none => .ok p
  | none => .ok p

/-- `parser_state_delimiters` -/
def delimiters (p : Parser) : List B :=
  (p.states.reverse.map (fun s =>
    if hasFlag s.flags PFLAG_PARENS then [40]
    else if hasFlag s.flags PFLAG_SQRBRACKETS then [91]
    else if hasFlag s.flags PFLAG_CURLYBRACKETS then [123]
    else if hasFlag s.flags PFLAG_STRING then [34]
    else if hasFlag s.flags PFLAG_LONGSTRING then List.replicate s.argn 96
    else [])).flatten

/-- the `:type` of a frame in `janet_wrap_parse_state` -/
def frameType (s : Frame) : String :=
  if hasFlag s.flags PFLAG_PARENS || hasFlag s.flags PFLAG_SQRBRACKETS then (if hasFlag s.flags PFLAG_ATSYM then "array" else "tuple")
  else if hasFlag s.flags PFLAG_CURLYBRACKETS then (if hasFlag s.flags PFLAG_ATSYM then "table" else "struct")
  else if hasFlag s.flags PFLAG_STRING || hasFlag s.flags PFLAG_LONGSTRING then (if hasFlag s.flags PFLAG_BUFFER then "buffer" else "string")
  else if hasFlag s.flags PFLAG_COMMENT then "comment"
  else if hasFlag s.flags PFLAG_TOKEN then "token"
  else if hasFlag s.flags PFLAG_ATSYM then "at"
  else if hasFlag s.flags PFLAG_READERMAC then
    (let c := s.flags &&& 0xFF
     if c == 39 then "quote" else if c == 44 then "unquote" else if c == 59 then "splice" else if c == 126 then "quasiquote" else "<reader>")
  else "root"

/-- does `parser_state_frames` stay inside the argument array?  It walks the frames from the top, moving back by
    `argn` for every container frame: the sum of the container frames' `argn` must not exceed `argcount`. -/
def framesInBounds (p : Parser) : Bool :=
  ((p.states.filter (fun s => hasFlag s.flags PFLAG_CONTAINER)).map (·.argn)).sum ≤ p.args.length

/-! ### feeding byte strings -/

/-- An observable event: a produced value or a reported error (message, line, column at the time of the report). -/
inductive Event where
  | value (v : Value)
  | error (msg : String) (line col : Nat)
  deriving Inhabited

/-- Parser plus the events already handed to the consumer. -/
structure Run where
  p : Parser
  out : List Event
  deriving Inhabited

def Run.init : Run := { p := Parser.init, out := [] }

/-- dequeue everything (`while (parser/has-more p) (parser/produce p)`), fuel = pending -/
def drainAux : Nat → Parser → List Event → Parser × List Event
  | 0, p, acc => (p, acc)
  | n + 1, p, acc =>
    match produce p with
    | (some v, p') => drainAux n p' (acc ++ [.value v])
    | (none, p') => (p', acc)

def drain (r : Run) : Run :=
  let (p, out) := drainAux r.p.pending r.p r.out
  { p := p, out := out }

/-- the documented client protocol after an error is seen: dequeue the queue, then `parser/error` (which flushes) -/
def handleError (r : Run) : Run :=
  if r.p.error.isSome then
    let r := drain r
    match takeError r.p with
    | (some e, p) => { p := p, out := r.out ++ [.error e r.p.line r.p.column] }
    | (none, p) => { r with p := p }
  else r

/-- one byte through `janet_parser_consume` followed by the status check every entry point performs
    (`parser/consume` returns early on error; `parser/byte` and C clients test `janet_parser_status`) -/
def feedByte (scan : List B → Option String) (r : Run) (c : B) : Run :=
  handleError { r with p := consume scan r.p c }

/-- feed a chunk: a left fold of `feedByte` -/
def feed (scan : List B → Option String) (r : Run) (bs : List B) : Run := bs.foldl (feedByte scan) r

def finish (scan : List B → Option String) (r : Run) : Run :=
  drain (handleError { r with p := eof scan r.p })

/-- everything a client that dequeues at arbitrary times will eventually have seen -/
def Run.events (r : Run) : List Event := (drain r).out

/-- `parse-all`-like whole-text function -/
def parseAll (scan : List B → Option String) (bs : List B) : List Event := (finish scan (feed scan Run.init bs)).out

end JanetModel.Parse
