/- `parser/produce` and the pure queries can be interleaved at will also with `parser/insert`: lock-step of `insert` with
   removing the oldest queued value, and the schedule theorem for histories of bytes, inserts, dequeues and queries. -/
import JanetModel.Parse.Insert

namespace JanetModel.Parse
open JanetModel.Gen.Parse

theorem dropLast_snoc_cons (x : Value) (A : List Value) (z : Value) : (x :: (A ++ [z])).dropLast = x :: A := by
  rw [List.dropLast_cons_of_ne_nil (by simp)]; simp

/-- ★ the second half of `parser/insert` commutes with `parser/produce`'s removal of the oldest queued value -/
theorem insertAt_dropQ {p : Parser} {A : List Value} {z : Value} (v : Value) (vstr : List B)
    (hwf : WF p) (hp : 1 ≤ p.pending) (hargs : p.args = A ++ [z]) :
    insertAt (dropQ p) v vstr = (dropQ (insertAt p v vstr).1, (insertAt p v vstr).2) := by
  have hfix : insertRootTestByFrame = true := by decide
  obtain ⟨args, err, states, buf, line, column, pending, lb, flag⟩ := p
  obtain ⟨hok, hsum, hroot⟩ := hwf
  simp only at hok hsum hroot hp hargs
  subst hargs
  cases states with
  | nil => simp [okFrames] at hok
  | cons top rest =>
    cases rest with
    | nil =>
      -- only the root frame
      have hrc : top.consumer = .root ∧ hasFlag top.flags PFLAG_CONTAINER = true := by simpa [okFrames, isCont] using hok
      have hr1 : 1 ≤ top.argn := by simp only [rootArgn] at hroot; omega
      by_cases hcm : hasFlag top.flags PFLAG_COMMENT = true
      · have hd : hasFlag (default : Frame).flags PFLAG_CONTAINER = false := hasFlag_zero _
        have hd2 : hasFlag (default : Frame).flags (PFLAG_STRING ||| PFLAG_LONGSTRING) = false := hasFlag_zero _
        simp [insertAt, dropQ, decRoot, hcm, hd, hd2]
      · have e1 : top.argn - 1 + 1 = top.argn + 1 - 1 := by omega
        have e2 : pending - 1 + 1 = pending + 1 - 1 := by omega
        simp [insertAt, dropQ, decRoot, hcm, hrc.2, hfix, modifyFrame, dropLast_snoc_cons, e1, e2]
    | cons g l =>
      have hne : (g :: l) ≠ [] := by simp
      have hroot' : rootArgn (g :: l) = pending := by rw [rootArgn_cons hne] at hroot; exact hroot
      by_cases hcm : hasFlag top.flags PFLAG_COMMENT = true
      · cases l with
        | nil =>
          have hr1 : 1 ≤ g.argn := by simp only [rootArgn] at hroot'; omega
          have e1 : g.argn - 1 + 1 = g.argn + 1 - 1 := by omega
          have e2 : pending - 1 + 1 = pending + 1 - 1 := by omega
          by_cases hc : hasFlag g.flags PFLAG_CONTAINER = true
          · simp [insertAt, dropQ, decRoot, hcm, hc, hfix, modifyFrame, dropLast_snoc_cons, e1, e2]
          · by_cases hs : hasFlag g.flags (PFLAG_STRING ||| PFLAG_LONGSTRING) = true
            · simp [insertAt, dropQ, decRoot, hcm, hc, hs]
            · simp [insertAt, dropQ, decRoot, hcm, hc, hs]
        | cons h l' =>
          by_cases hc : hasFlag g.flags PFLAG_CONTAINER = true
          · simp [insertAt, dropQ, decRoot, decRoot_length, hcm, hc, hfix, modifyFrame, dropLast_snoc_cons]
          · by_cases hs : hasFlag g.flags (PFLAG_STRING ||| PFLAG_LONGSTRING) = true
            · simp [insertAt, dropQ, decRoot, hcm, hc, hs]
            · simp [insertAt, dropQ, decRoot, hcm, hc, hs]
      · by_cases hc : hasFlag top.flags PFLAG_CONTAINER = true
        · simp [insertAt, dropQ, decRoot, decRoot_length, hcm, hc, hfix, modifyFrame, dropLast_snoc_cons]
        · by_cases hs : hasFlag top.flags (PFLAG_STRING ||| PFLAG_LONGSTRING) = true
          · simp [insertAt, dropQ, decRoot, hcm, hc, hs]
          · simp [insertAt, dropQ, decRoot, hcm, hc, hs]

/-- `insertAt` pushes at most one argument on top and never shrinks the queue count -/
theorem insertAt_grows (p : Parser) (v : Value) (vstr : List B) :
    p.pending ≤ (insertAt p v vstr).1.pending ∧ ((insertAt p v vstr).1.args = p.args ∨ ∃ x, (insertAt p v vstr).1.args = x :: p.args) := by
  unfold insertAt
  simp only
  repeat' split
  all_goals first
    | exact ⟨Nat.le_succ _, Or.inr ⟨_, rfl⟩⟩
    | exact ⟨Nat.le_refl _, Or.inr ⟨_, rfl⟩⟩
    | exact ⟨Nat.le_refl _, Or.inl rfl⟩

theorem insertAt_sim {p : Parser} {A : List Value} {z : Value} (v : Value) (vstr : List B) (hwf : WF p) (hargs : p.args = A ++ [z]) :
    Sim z p (insertAt p v vstr).1 := by
  obtain ⟨hm, ha⟩ := insertAt_grows p v vstr
  refine ⟨WF_insertAt v vstr hwf, hm, ?_⟩
  rcases ha with h | ⟨x, h⟩
  · exact ⟨A, by rw [h, hargs]⟩
  · exact ⟨x :: A, by rw [h, hargs]; rfl⟩

theorem insertPre_dropQ (scan : List B → Option String) {p : Parser} {A : List Value} {z : Value}
    (hwf : WF p) (hp : 1 ≤ p.pending) (hargs : p.args = A ++ [z]) :
    insertPre scan (dropQ p) = (dropQ (insertPre scan p).1, (insertPre scan p).2) ∧ Sim z p (insertPre scan p).1 := by
  cases hs : p.states with
  | nil => have := hwf.ok; rw [hs] at this; simp [okFrames] at this
  | cons top rest =>
    have hds : ∃ top' rest', (dropQ p).states = top' :: rest' ∧ top'.consumer = top.consumer := by
      simp only [dropQ, hs]
      cases rest with
      | nil => exact ⟨_, _, rfl, rfl⟩
      | cons g l => exact ⟨_, _, rfl, rfl⟩
    obtain ⟨top', rest', hds', hcons⟩ := hds
    unfold insertPre
    rw [hds', hs]
    simp only [hcons]
    by_cases ht : (top.consumer == .tokenchar) = true
    · simp only [ht, if_true, checkDead_dropQ]
      cases hcd : checkDead p with
      | some msg => exact ⟨rfl, Sim.refl' hwf hargs⟩
      | none =>
        obtain ⟨hc, hsim⟩ := consumeRaw_dropQ scan p 32 A z hwf hp hargs
        simp only [hc]
        refine ⟨rfl, ⟨⟨hsim.wf.ok, hsim.wf.sum, hsim.wf.rootn⟩, hsim.mono, hsim.bottom⟩⟩
    · simp only [ht, Bool.false_eq_true, if_false]
      exact ⟨trivial, Sim.refl' hwf hargs⟩

/-- ★ `parser/insert` commutes with removing the oldest queued value; the parser stays well formed, the queue only grows and its
    bottom element stays in place -/
theorem insert_dropQ (scan : List B → Option String) {p : Parser} {A : List Value} {z : Value} (v : Value) (vstr : List B)
    (hwf : WF p) (hp : 1 ≤ p.pending) (hargs : p.args = A ++ [z]) :
    (insert scan (dropQ p) v vstr).1 = dropQ (insert scan p v vstr).1 ∧ Sim z p (insert scan p v vstr).1 := by
  obtain ⟨hpre, hsim⟩ := insertPre_dropQ scan hwf hp hargs
  rw [insert_eq, insert_eq, hpre]
  cases hq : insertPre scan p with
  | mk q oe =>
    rw [hq] at hsim
    cases oe with
    | some e => exact ⟨rfl, hsim⟩
    | none =>
      obtain ⟨A', hA'⟩ := hsim.bottom
      have hp' : 1 ≤ q.pending := Nat.le_trans hp hsim.mono
      simp only
      rw [insertAt_dropQ v vstr hsim.wf hp' hA']
      exact ⟨rfl, Sim.trans' hsim (insertAt_sim v vstr hsim.wf hA')⟩

/-! ### runs -/

/-- `parser/insert` followed by the status check of the error protocol (the token it finishes may be malformed) -/
def insertRun (scan : List B → Option String) (r : Run) (v : Value) (vstr : List B) : Run :=
  handleError { r with p := (insert scan r.p v vstr).1 }

/-- any parser transformation that commutes with `dropQ` (and keeps the queue's bottom) preserves `Rel` through the error protocol -/
theorem rel_of_lockstep (F : Parser → Parser) (a b : Run) (h : Rel a b)
    (hF : ∀ (A : List Value) (z : Value), WF a.p → 1 ≤ a.p.pending → a.p.args = A ++ [z] → F (dropQ a.p) = dropQ (F a.p) ∧ Sim z a.p (F a.p)) :
    Rel (handleError { a with p := F a.p }) (handleError { b with p := F b.p }) := by
  rcases h with h | ⟨hwf, hp, hb⟩
  · subst h; exact Or.inl rfl
  · obtain ⟨A, z, hargs⟩ := args_concat hwf hp
    rw [produceRun_eq hp hargs] at hb
    subst hb
    obtain ⟨hcomm, hsim⟩ := hF A z hwf hp hargs
    obtain ⟨A', hA'⟩ := hsim.bottom
    have hp' : 1 ≤ (F a.p).pending := Nat.le_trans hp hsim.mono
    have hpr : produceRun { a with p := F a.p } = { p := dropQ (F a.p), out := a.out ++ [.value (unwrap1 z)] } :=
      produceRun_eq (r := { a with p := F a.p }) hp' hA'
    simp only [hcomm]
    rw [← hpr]
    cases he : (F a.p).error.isSome with
    | true =>
      left
      have he2 : (produceRun { a with p := F a.p }).p.error.isSome = true := by rw [hpr]; exact he
      rw [handleError_of_error he2, handleError_of_error (r := { a with p := F a.p }) he,
        drain_produceRun (r := { a with p := F a.p }) hsim.wf]
    | false =>
      right
      have he2 : (produceRun { a with p := F a.p }).p.error.isSome = false := by rw [hpr]; exact he
      rw [handleError_of_ok he2, handleError_of_ok (r := { a with p := F a.p }) he]
      exact ⟨hsim.wf, hp', rfl⟩

theorem insertRun_rel (scan : List B → Option String) (a b : Run) (v : Value) (vstr : List B) (h : Rel a b) :
    Rel (insertRun scan a v vstr) (insertRun scan b v vstr) :=
  rel_of_lockstep (fun p => (insert scan p v vstr).1) a b h (fun _ _ hwf hp hargs => insert_dropQ scan v vstr hwf hp hargs)

theorem WF_insertRun (scan : List B → Option String) {r : Run} (v : Value) (vstr : List B) (h : WF r.p) : WF (insertRun scan r v vstr).p :=
  WF_handleError (r := { r with p := (insert scan r.p v vstr).1 }) (WF_insert scan v vstr h)

/-- client operations: bytes and inserts (both with the error protocol), dequeues, pure queries -/
inductive OpP where
  | byte (c : B)
  | insert (v : Value) (vstr : List B)
  | produce
  | query
  deriving Inhabited

def runOpP (scan : List B → Option String) (r : Run) : OpP → Run
  | .byte c => feedByte scan r c
  | .insert v vstr => insertRun scan r v vstr
  | .produce => produceRun r
  | .query => r

/-- the history without its dequeues and queries -/
def inputsOf : List OpP → List OpP
  | [] => []
  | .byte c :: ops => .byte c :: inputsOf ops
  | .insert v s :: ops => .insert v s :: inputsOf ops
  | _ :: ops => inputsOf ops

theorem WF_runOpP (scan : List B → Option String) {r : Run} (op : OpP) (h : WF r.p) : WF (runOpP scan r op).p := by
  cases op with
  | byte c => exact WF_feedByte scan c h
  | insert v s => exact WF_insertRun scan v s h
  | produce => exact WF_produceRun h
  | query => exact h

theorem inputs_rel (scan : List B → Option String) (ops : List OpP) : ∀ a b : Run, Rel a b →
    Rel ((inputsOf ops).foldl (runOpP scan) a) ((inputsOf ops).foldl (runOpP scan) b) := by
  induction ops with
  | nil => intro a b h; exact h
  | cons op ops ih =>
    intro a b h
    cases op with
    | byte c => exact ih _ _ (feedByte_rel scan a b c h)
    | insert v s => exact ih _ _ (insertRun_rel scan a b v s h)
    | produce => exact ih a b h
    | query => exact ih a b h

/-- ★ for EVERY history of bytes, `parser/insert`s, `parser/produce`s and queries from a well-formed run, the values and errors the
    client ends up with are those of the history with the dequeues and queries left out -/
theorem schedule_pure_insert (scan : List B → Option String) (ops : List OpP) : ∀ r : Run, WF r.p →
    (ops.foldl (runOpP scan) r).events = ((inputsOf ops).foldl (runOpP scan) r).events := by
  induction ops with
  | nil => intro r _; rfl
  | cons op ops ih =>
    intro r h
    cases op with
    | byte c => exact ih _ (WF_feedByte scan c h)
    | insert v s => exact ih _ (WF_insertRun scan v s h)
    | query => exact ih r h
    | produce =>
      simp only [List.foldl_cons, runOpP, inputsOf]
      rw [ih _ (WF_produceRun h)]
      apply events_rel
      apply inputs_rel
      by_cases h0 : r.p.pending = 0
      · left; exact produceRun_empty h0
      · right; exact ⟨h, by omega, rfl⟩

end JanetModel.Parse
