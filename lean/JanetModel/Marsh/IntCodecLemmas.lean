/-
Lemmas about the marshal integer codec (`pushint` / `readint`), used by Props/C09.lean and by the graph round trip.
-/
import JanetModel.Marsh.IntCodec

namespace JanetModel.Marsh
open JanetModel.Gen.Marsh

theorem signExtMid_eq (u : Nat) (h : u < 16384) :
    signExtMid u = if u < 8192 then (u : Int) else (u : Int) - 16384 := by
  unfold signExtMid toI32
  simp only [readSignThresh, readSignSub]
  by_cases c1 : u / 8192 ≠ 0
  · rw [if_pos c1]
    have c2 : ¬ (u + (4294967296 - 16384) < 2147483648) := by omega
    have c3 : ¬ (u < 8192) := by omega
    rw [if_neg c2, if_neg c3]; omega
  · have c3 : u < 8192 := by omega
    rw [if_neg c1, if_pos c3]

/-- Every `int32_t` survives `pushint` then `readint`, whatever follows it in the buffer. -/
theorem readint_pushint (x : Int) (tl : List Nat) (hlo : -2147483648 ≤ x) (hhi : x < 2147483648) :
    readint (pushint x ++ tl) = some (x, tl) := by
  unfold pushint
  simp only [pushSmallLim, pushMidHi, pushMidLo, pushMidDiv, pushMidMod, pushMidTag, pushLowMod, lb_integer]
  by_cases h1 : 0 ≤ x ∧ x < 128
  · simp only [h1, and_self, if_true, List.cons_append, List.nil_append, readint, readSmallLim]
    have : x.toNat < 128 := by omega
    simp [this]; omega
  · by_cases h2 : x ≤ 8191 ∧ x ≥ -8192
    · simp only [h1, h2, and_self, if_true, if_false, List.cons_append, List.nil_append, readint, readSmallLim,
        readMidLim, readMidMod, readMidMul, toI32]
      have e0 : ¬ ((x / 256 % 64).toNat + 128 < 128) := by omega
      have e1 : ((x / 256 % 64).toNat + 128 < 192) := by omega
      simp only [e0, e1, if_true, if_false]
      congr 1
      simp only [Prod.mk.injEq, and_true]
      rw [signExtMid_eq _ (by omega)]
      by_cases c1 : ((x / 256 % 64).toNat + 128) % 64 * 256 + (x % 256).toNat < 8192
      · rw [if_pos c1]; omega
      · rw [if_neg c1]; omega
    · simp only [h1, h2, if_false, List.cons_append, List.nil_append, readint, readSmallLim, readMidLim,
        lb_integer, toI32]
      simp only [show ¬ (205 < 128) by decide, show ¬ (205 < 192) by decide, if_false, if_true]
      congr 1
      simp only [Prod.mk.injEq, and_true]
      split <;> omega

/-- The three encodings are the shortest-first partition of int32 (sizes 1, 2, 5). -/
theorem pushint_length (x : Int) :
    (pushint x).length = if 0 ≤ x ∧ x < 128 then 1 else if -8192 ≤ x ∧ x ≤ 8191 then 2 else 5 := by
  unfold pushint
  simp only [pushSmallLim, pushMidHi, pushMidLo]
  by_cases h1 : 0 ≤ x ∧ x < 128
  · simp [h1]
  · by_cases h2 : x ≤ 8191 ∧ x ≥ -8192
    · have h3 : -8192 ≤ x ∧ x ≤ 8191 := ⟨h2.2, h2.1⟩
      simp [h1, h2]
    · have h3 : ¬(-8192 ≤ x ∧ x ≤ 8191) := fun h => h2 ⟨h.2, h.1⟩
      simp [h1, h2, h3]

/-- `readint` is total and never consumes more than it was given (no read past the end). -/
theorem readint_consumes (bs : List Nat) (x : Int) (tl : List Nat) (h : readint bs = some (x, tl)) :
    ∃ pre, bs = pre ++ tl ∧ 1 ≤ pre.length ∧ pre.length ≤ 5 := by
  unfold readint at h
  split at h
  · simp at h
  · rename_i b rest
    split at h
    · simp at h; exact ⟨[b], by simp [h.2]⟩
    · split at h
      · split at h
        · simp at h
        · rename_i c rest'
          simp at h; exact ⟨[b, c], by simp [h.2]⟩
      · split at h
        · split at h
          · rename_i b1 b2 b3 b4 rest'
            simp at h; exact ⟨[b, b1, b2, b3, b4], by simp [h.2]⟩
          · simp at h
        · simp at h


end JanetModel.Marsh
