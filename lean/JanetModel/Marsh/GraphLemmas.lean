/-
Helper lemmas for the data-graph round trip (Props/C09.lean): well-formedness predicates, heap slices,
`readnat ∘ pushint`, the children loop, `janet_table_put` / `janet_struct_put` on well-formed pair lists.
-/
import JanetModel.Marsh.Graph
import JanetModel.Marsh.IntCodecLemmas
import JanetModel.Marsh.Size

namespace JanetModel.Marsh
open JanetModel.Gen.Marsh

/-! ### well-formedness of descriptions (what the C types guarantee) -/

def Int32 (i : Int) : Prop := -2147483648 ≤ i ∧ i < 2147483648

def ValWF : Val → Prop
  | .int i => Int32 i
  | _ => True

/-- a pair list that is a finite map without nil keys / nil values (what a janet table or struct holds) -/
def KVsWF (kvs : List (Val × Val)) : Prop :=
  (∀ kv ∈ kvs, kv.1 ≠ .nil ∧ kv.2 ≠ .nil ∧ ValWF kv.1 ∧ ValWF kv.2) ∧ (kvs.map (·.1)).Nodup

def ProtoWF (p : Option Val) : Prop := ∀ v, p = some v → ValWF v

def ObjWF : Obj → Prop
  | .real bs => bs.length = 8
  | .str _ bs => bs.length < 2147483648
  | .reg name => name.length < 2147483648
  | .buffer bs => bs.length < 2147483648
  | .array _ items => items.length < 2147483648 ∧ ∀ v ∈ items, ValWF v
  | .tuple flag items => Int32 flag ∧ items.length < 2147483648 ∧ ∀ v ∈ items, ValWF v
  | .table weak proto kvs => weak ≤ 3 ∧ ProtoWF proto ∧ kvs.length < 2147483648 ∧ KVsWF kvs
  | .struct proto kvs => ProtoWF proto ∧ kvs.length < 2147483648 ∧ KVsWF kvs

def HeapWF (H : List Obj) : Prop := H.length < 2147483648 ∧ ∀ o ∈ H, ObjWF o

/-! ### heap slices: the objects numbered `a .. b-1` -/

def slice (H : List Obj) (a b : Nat) : List Obj := (H.drop a).take (b - a)

theorem slice_self (H : List Obj) (a : Nat) : slice H a a = [] := by simp [slice]

theorem slice_length (H : List Obj) (a b : Nat) (h : b ≤ H.length) : (slice H a b).length = b - a := by
  simp [slice, List.length_take, List.length_drop]; omega

theorem slice_append (H : List Obj) (a b c : Nat) (h1 : a ≤ b) (h2 : b ≤ c) :
    slice H a b ++ slice H b c = slice H a c := by
  unfold slice
  have e1 : c - a = (b - a) + (c - b) := by omega
  have e2 : H.drop b = (H.drop a).drop (b - a) := by
    rw [List.drop_drop]; congr 1; omega
  rw [e1, e2, List.take_add]

theorem slice_one (H : List Obj) (a : Nat) (o : Obj) (h : H[a]? = some o) : slice H a (a + 1) = [o] := by
  unfold slice
  have : a + 1 - a = 1 := by omega
  rw [this]
  have hlt : a < H.length := by
    rcases Nat.lt_or_ge a H.length with h' | h'
    · exact h'
    · rw [List.getElem?_eq_none h'] at h; cases h
  rw [List.getElem?_eq_getElem hlt] at h
  have ho : H[a] = o := Option.some.inj h
  rw [List.drop_eq_getElem_cons hlt, ho]
  simp

theorem lt_length_of_getElem? (H : List Obj) (a : Nat) (o : Obj) (h : H[a]? = some o) : a < H.length := by
  rcases Nat.lt_or_ge a H.length with h' | h'
  · exact h'
  · rw [List.getElem?_eq_none h'] at h; cases h

theorem slice_cons (H : List Obj) (a c : Nat) (o : Obj) (h : H[a]? = some o) (h2 : a + 1 ≤ c) :
    o :: slice H (a + 1) c = slice H a c := by
  rw [← slice_append H a (a + 1) c (by omega) h2, slice_one H a o h]; rfl

theorem slice_snoc (H : List Obj) (a b : Nat) (o : Obj) (h : H[b]? = some o) (h1 : a ≤ b) :
    slice H a b ++ [o] = slice H a (b + 1) := by
  rw [← slice_append H a b (b + 1) h1 (by omega), slice_one H b o h]

theorem objWF_of_getElem? (H : List Obj) (hH : HeapWF H) (a : Nat) (o : Obj) (h : H[a]? = some o) : ObjWF o := by
  have hlt := lt_length_of_getElem? H a o h
  rw [List.getElem?_eq_getElem hlt] at h
  have : o ∈ H := by
    have := List.getElem_mem hlt
    rw [Option.some.inj h] at this; exact this
  exact hH.2 o this

/-! ### integer codec facts used by the graph round trip -/

theorem readnat_pushint (k : Nat) (tl : List Nat) (h : k < 2147483648) :
    readnat (pushint (k : Int) ++ tl) = some (k, tl) := by
  unfold readnat
  rw [readint_pushint (k : Int) tl (by omega) (by omega)]
  have : ¬ ((k : Int) < 0) := by omega
  simp [this]

theorem pushint_head (i : Int) (_h : Int32 i) :
    ∃ lead rest, pushint i = lead :: rest ∧ (lead < lb_real ∨ lead = lb_integer) := by
  unfold pushint
  simp only [pushSmallLim, pushMidHi, pushMidLo, pushMidDiv, pushMidMod, pushMidTag, pushLowMod, lb_integer, lb_real]
  by_cases h1 : 0 ≤ i ∧ i < 128
  · refine ⟨i.toNat, [], ?_, ?_⟩
    · simp [h1]
    · left; omega
  · by_cases h2 : i ≤ 8191 ∧ i ≥ -8192
    · refine ⟨(i / 256 % 64).toNat + 128, [(i % 256).toNat], ?_, ?_⟩
      · simp [h1, h2]
      · left; omega
    · refine ⟨205, [(i / 16777216 % 256).toNat, (i / 65536 % 256).toNat, (i / 256 % 256).toNat, (i % 256).toNat], ?_, Or.inr rfl⟩
      simp [h1, h2]

theorem pushint_ne_nil (i : Int) : 1 ≤ (pushint i).length := by
  rw [pushint_length]; split
  · omega
  · split <;> omega

/-! ### the children loop -/

/-- what the induction hypothesis on the recursion depth provides for one value -/
def OneOK (H : List Obj) (g : Nat → Val → Option (List Nat × Nat))
    (d : Nat → List Nat → Option (Val × List Nat × List Obj)) : Prop :=
  ∀ (n : Nat) (x : Val) (bs : List Nat) (n' : Nat) (tl : List Nat), n ≤ H.length → ValWF x →
    g n x = some (bs, n') →
    n ≤ n' ∧ n' ≤ H.length ∧ 1 ≤ bs.length ∧ d n (bs ++ tl) = some (x, tl, slice H n n')

theorem list_roundtrip (H : List Obj) (g : Nat → Val → Option (List Nat × Nat))
    (d : Nat → List Nat → Option (Val × List Nat × List Obj)) (hgd : OneOK H g d) :
    ∀ (items : List Val) (n : Nat) (bs : List Nat) (n' : Nat) (tl : List Nat), n ≤ H.length →
      (∀ v ∈ items, ValWF v) → marshalList g n items = some (bs, n') →
      n ≤ n' ∧ n' ≤ H.length ∧ items.length ≤ bs.length ∧
        unmarshalN d items.length n (bs ++ tl) = some (items, tl, slice H n n') := by
  intro items
  induction items with
  | nil =>
    intro n bs n' tl hn _ hm
    simp [marshalList] at hm
    obtain ⟨rfl, rfl⟩ := hm
    simp [unmarshalN, slice_self, hn]
  | cons v vs ih =>
    intro n bs n' tl hn hwf hm
    simp only [marshalList] at hm
    cases hg : g n v with
    | none => simp [hg] at hm
    | some r1 =>
      obtain ⟨b1, n1⟩ := r1
      simp only [hg] at hm
      cases hl : marshalList g n1 vs with
      | none => simp [hl] at hm
      | some r2 =>
        obtain ⟨b2, n2⟩ := r2
        simp only [hl, Option.some.injEq, Prod.mk.injEq] at hm
        obtain ⟨rfl, rfl⟩ := hm
        have hv : ValWF v := hwf v (by simp)
        obtain ⟨h1, h2, h3, h4⟩ := hgd n v b1 n1 (b2 ++ tl) hn hv hg
        obtain ⟨k1, k2, k3, k4⟩ := ih n1 b2 n2 tl h2 (fun w hw => hwf w (by simp [hw])) hl
        refine ⟨by omega, k2, by simp; omega, ?_⟩
        simp only [List.length_cons, unmarshalN, List.append_assoc, h4]
        rw [slice_length H n n1 h2]
        have : n + (n1 - n) = n1 := by omega
        rw [this, k4]
        simp only []
        rw [slice_append H n n1 n2 h1 k1]

/-! ### tables and structs -/

theorem flatKV_length (kvs : List (Val × Val)) : (flatKV kvs).length = 2 * kvs.length := by
  induction kvs with
  | nil => rfl
  | cons kv rest ih => obtain ⟨k, v⟩ := kv; simp [flatKV, ih]; omega

theorem pairUp_flatKV (kvs : List (Val × Val)) : pairUp (flatKV kvs) = kvs := by
  induction kvs with
  | nil => rfl
  | cons kv rest ih => obtain ⟨k, v⟩ := kv; simp [flatKV, pairUp, ih]

theorem kvChildren_length (p : Option Val) (kvs : List (Val × Val)) :
    (kvChildren p kvs).length = (if p.isSome then 1 else 0) + 2 * kvs.length := by
  cases p <;> simp [kvChildren, flatKV_length]; omega

theorem splitProto_kvChildren (p : Option Val) (kvs : List (Val × Val)) :
    splitProto p.isSome (kvChildren p kvs) = (p, flatKV kvs) := by
  cases p <;> simp [splitProto, kvChildren]

theorem kvChildren_wf (p : Option Val) (kvs : List (Val × Val)) (hp : ProtoWF p) (hk : KVsWF kvs) :
    ∀ v ∈ kvChildren p kvs, ValWF v := by
  intro v hv
  simp only [kvChildren, List.mem_append] at hv
  rcases hv with hv | hv
  · cases p with
    | none => simp at hv
    | some q => simp at hv; rw [hv]; exact hp q rfl
  · have : ∀ (l : List (Val × Val)), (∀ kv ∈ l, ValWF kv.1 ∧ ValWF kv.2) → v ∈ flatKV l → ValWF v := by
      intro l
      induction l with
      | nil => intro _ h; simp [flatKV] at h
      | cons kv rest ih =>
        obtain ⟨a, b⟩ := kv
        intro hl h
        simp only [flatKV, List.mem_cons] at h
        rcases h with h | h | h
        · rw [h]; exact (hl (a, b) (by simp)).1
        · rw [h]; exact (hl (a, b) (by simp)).2
        · exact ih (fun kv hkv => hl kv (by simp [hkv])) h
    exact this kvs (fun kv hkv => ⟨(hk.1 kv hkv).2.2.1, (hk.1 kv hkv).2.2.2⟩) hv

theorem foldl_tablePut (pairs acc : List (Val × Val)) (h : KVsWF (acc ++ pairs)) :
    pairs.foldl (fun a kv => tablePut a kv.1 kv.2) acc = acc ++ pairs := by
  induction pairs generalizing acc with
  | nil => simp
  | cons kv rest ih =>
    obtain ⟨k, v⟩ := kv
    have hmem := h.1 (k, v) (by simp)
    have hnd := h.2
    simp only [List.map_append, List.map_cons] at hnd
    have hk : ¬ (acc.any fun kv => decide (kv.1 = k)) = true := by
      intro hc
      rw [List.any_eq_true] at hc
      obtain ⟨kv', hin, heq⟩ := hc
      have heq' : kv'.1 = k := by simpa using heq
      rw [List.nodup_append] at hnd
      exact hnd.2.2 kv'.1 (List.mem_map_of_mem hin) k (by simp) heq'
    simp only [List.foldl_cons]
    have e : tablePut acc k v = acc ++ [(k, v)] := by
      unfold tablePut
      simp [hmem.1, hmem.2.1, hk]
    rw [e, ih (acc ++ [(k, v)]) (by simpa using h)]
    simp

theorem foldl_structPut (pairs acc : List (Val × Val)) (h : KVsWF (acc ++ pairs)) :
    pairs.foldl (fun a kv => structPut a kv.1 kv.2) acc = acc ++ pairs := by
  induction pairs generalizing acc with
  | nil => simp
  | cons kv rest ih =>
    obtain ⟨k, v⟩ := kv
    have hmem := h.1 (k, v) (by simp)
    have hnd := h.2
    simp only [List.map_append, List.map_cons] at hnd
    have hk : ¬ (acc.any fun kv => decide (kv.1 = k)) = true := by
      intro hc
      rw [List.any_eq_true] at hc
      obtain ⟨kv', hin, heq⟩ := hc
      have heq' : kv'.1 = k := by simpa using heq
      rw [List.nodup_append] at hnd
      exact hnd.2.2 kv'.1 (List.mem_map_of_mem hin) k (by simp) heq'
    simp only [List.foldl_cons]
    have e : structPut acc k v = acc ++ [(k, v)] := by
      unfold structPut
      simp [hmem.1, hmem.2.1, hk]
    rw [e, ih (acc ++ [(k, v)]) (by simpa using h)]
    simp

theorem putAll_tablePut (kvs : List (Val × Val)) (h : KVsWF kvs) : putAll tablePut kvs = kvs := by
  unfold putAll; rw [foldl_tablePut kvs [] (by simpa using h)]; simp

theorem putAll_structPut (kvs : List (Val × Val)) (h : KVsWF kvs) : putAll structPut kvs = kvs := by
  unfold putAll; rw [foldl_structPut kvs [] (by simpa using h)]; simp

end JanetModel.Marsh
