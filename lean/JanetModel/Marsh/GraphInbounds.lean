/-
`unmarshalOne` only ever consumes a non-empty prefix of its input: the remaining bytes are a strict suffix.
(The model cannot read past the end by construction - every byte it looks at is an element of the list; this file
states the positive half: it is total, and what it returns as "rest" really is the unread tail.)
-/
import JanetModel.Marsh.GraphLemmas

namespace JanetModel.Marsh
open JanetModel.Gen.Marsh

/-- `r` is what is left of `d` after reading at least one byte -/
def StrictTail (r d : List Nat) : Prop := r <:+ d ∧ r.length < d.length

theorem StrictTail.trans {a b c : List Nat} (h1 : StrictTail a b) (h2 : StrictTail b c) : StrictTail a c :=
  ⟨h1.1.trans h2.1, Nat.lt_trans h1.2 h2.2⟩

theorem StrictTail.trans_suffix {a b c : List Nat} (h1 : a <:+ b) (h2 : StrictTail b c) : StrictTail a c :=
  ⟨h1.trans h2.1, Nat.lt_of_le_of_lt h1.length_le h2.2⟩

theorem StrictTail.cons (b : Nat) (r : List Nat) : StrictTail r (b :: r) :=
  ⟨List.suffix_cons b r, by simp⟩

theorem readint_tail (d : List Nat) (i : Int) (r : List Nat) (h : readint d = some (i, r)) : StrictTail r d := by
  obtain ⟨pre, he, h1, _⟩ := readint_consumes d i r h
  refine ⟨⟨pre, he.symm⟩, ?_⟩
  rw [he]; simp; omega

theorem readnat_tail (d : List Nat) (k : Nat) (r : List Nat) (h : readnat d = some (k, r)) : StrictTail r d := by
  unfold readnat at h
  cases hr : readint d with
  | none => simp [hr] at h
  | some p =>
    obtain ⟨i, r'⟩ := p
    simp only [hr] at h
    by_cases c : i < 0
    · simp [c] at h
    · simp [c] at h
      obtain ⟨-, rfl⟩ := h
      exact readint_tail d i r' hr

theorem unmarshalN_suffix (g : Nat → List Nat → Option (Val × List Nat × List Obj))
    (hg : ∀ n d v r o, g n d = some (v, r, o) → StrictTail r d) :
    ∀ (len n : Nat) (d : List Nat) (vs : List Val) (r : List Nat) (o : List Obj),
      unmarshalN g len n d = some (vs, r, o) → r <:+ d := by
  intro len
  induction len with
  | zero =>
    intro n d vs r o h
    simp [unmarshalN] at h
    obtain ⟨-, rfl, -⟩ := h
    exact List.suffix_refl _
  | succ len ih =>
    intro n d vs r o h
    simp only [unmarshalN] at h
    cases h1 : g n d with
    | none => simp [h1] at h
    | some p =>
      obtain ⟨v, r1, o1⟩ := p
      simp only [h1] at h
      cases h2 : unmarshalN g len (n + o1.length) r1 with
      | none => simp [h2] at h
      | some q =>
        obtain ⟨vs', r2, o2⟩ := q
        simp only [h2, Option.some.injEq, Prod.mk.injEq] at h
        obtain ⟨-, rfl, -⟩ := h
        exact (ih _ _ _ _ _ h2).trans (hg _ _ _ _ _ h1).1

end JanetModel.Marsh

namespace JanetModel.Marsh
open JanetModel.Gen.Marsh
theorem unmarshalOne_tail : ∀ (fuel n : Nat) (d : List Nat) (v : Val) (r : List Nat) (o : List Obj),
    unmarshalOne fuel n d = some (v, r, o) → StrictTail r d := by
  intro fuel
  induction fuel with
  | zero => intro n d v r o h; simp [unmarshalOne] at h
  | succ f ih =>
    intro n d v r o h
    have key := unmarshalN_suffix (fun a b => unmarshalOne f a b) (fun n d v r o h => ih n d v r o h)
    cases d with
    | nil => simp [unmarshalOne] at h
    | cons lead rest =>
      simp only [unmarshalOne] at h
      have tl1 : ∀ {r' : List Nat}, r' <:+ rest → StrictTail r' (lead :: rest) :=
        fun hs => StrictTail.trans_suffix hs (StrictTail.cons lead rest)
      by_cases c1 : lead < lb_real ∨ lead = lb_integer
      · rw [if_pos c1] at h
        cases hr : readint (lead :: rest) with
        | none => simp [hr] at h
        | some p =>
          obtain ⟨i, r1⟩ := p
          simp only [hr, Option.some.injEq, Prod.mk.injEq] at h
          obtain ⟨-, rfl, -⟩ := h
          exact readint_tail _ _ _ hr
      rw [if_neg c1] at h
      by_cases c2 : lead = lb_nil
      · rw [if_pos c2] at h
        simp only [Option.some.injEq, Prod.mk.injEq] at h
        obtain ⟨-, rfl, -⟩ := h
        exact StrictTail.cons _ _
      rw [if_neg c2] at h
      by_cases c3 : lead = lb_false
      · rw [if_pos c3] at h
        simp only [Option.some.injEq, Prod.mk.injEq] at h
        obtain ⟨-, rfl, -⟩ := h
        exact StrictTail.cons _ _
      rw [if_neg c3] at h
      by_cases c4 : lead = lb_true
      · rw [if_pos c4] at h
        simp only [Option.some.injEq, Prod.mk.injEq] at h
        obtain ⟨-, rfl, -⟩ := h
        exact StrictTail.cons _ _
      rw [if_neg c4] at h
      by_cases c5 : lead = lb_real
      · rw [if_pos c5] at h
        by_cases c : rest.length < 8
        · rw [if_pos c] at h; cases h
        · rw [if_neg c] at h
          simp only [Option.some.injEq, Prod.mk.injEq] at h
          obtain ⟨-, rfl, -⟩ := h
          exact tl1 (List.drop_suffix 8 rest)
      rw [if_neg c5] at h
      by_cases c6 : lead = lb_string ∨ lead = lb_symbol ∨ lead = lb_keyword ∨ lead = lb_buffer ∨ lead = lb_registry
      · rw [if_pos c6] at h
        cases hn : readnat rest with
        | none => simp [hn] at h
        | some p =>
          obtain ⟨len, r1⟩ := p
          simp only [hn] at h
          by_cases c : r1.length < len
          · rw [if_pos c] at h; cases h
          · rw [if_neg c] at h
            simp only [Option.some.injEq, Prod.mk.injEq] at h
            obtain ⟨-, rfl, -⟩ := h
            exact tl1 ((List.drop_suffix len r1).trans (readnat_tail _ _ _ hn).1)
      rw [if_neg c6] at h
      by_cases c7 : lead = lb_reference
      · rw [if_pos c7] at h
        cases hn : readnat rest with
        | none => simp [hn] at h
        | some p =>
          obtain ⟨k, r1⟩ := p
          simp only [hn] at h
          by_cases c : k < n
          · rw [if_pos c] at h
            simp only [Option.some.injEq, Prod.mk.injEq] at h
            obtain ⟨-, rfl, -⟩ := h
            exact tl1 (readnat_tail _ _ _ hn).1
          · rw [if_neg c] at h; cases h
      rw [if_neg c7] at h
      by_cases c8 : lead = lb_array ∨ lead = lb_array_weak
      · rw [if_pos c8] at h
        cases hn : readnat rest with
        | none => simp [hn] at h
        | some p =>
          obtain ⟨len, r1⟩ := p
          simp only [hn] at h
          by_cases c : r1.length < len
          · rw [if_pos c] at h; cases h
          · rw [if_neg c] at h
            cases hu : unmarshalN (fun a b => unmarshalOne f a b) len (childStart pushPreArray n) r1 with
            | none => simp [hu] at h
            | some q =>
              obtain ⟨items, r2, objs⟩ := q
              simp only [hu, Option.some.injEq, Prod.mk.injEq] at h
              obtain ⟨-, rfl, -⟩ := h
              exact tl1 ((key _ _ _ _ _ _ hu).trans (readnat_tail _ _ _ hn).1)
      rw [if_neg c8] at h
      by_cases c9 : lead = lb_tuple
      · rw [if_pos c9] at h
        cases hn : readnat rest with
        | none => simp [hn] at h
        | some p =>
          obtain ⟨len, r1⟩ := p
          simp only [hn] at h
          by_cases c : r1.length < len
          · rw [if_pos c] at h; cases h
          · rw [if_neg c] at h
            cases hf : readint r1 with
            | none => simp [hf] at h
            | some pf =>
              obtain ⟨flag, r1'⟩ := pf
              simp only [hf] at h
              cases hu : unmarshalN (fun a b => unmarshalOne f a b) len (childStart pushPreTuple n) r1' with
              | none => simp [hu] at h
              | some q =>
                obtain ⟨items, r2, objs⟩ := q
                simp only [hu, Option.some.injEq, Prod.mk.injEq] at h
                obtain ⟨-, rfl, -⟩ := h
                exact tl1 (((key _ _ _ _ _ _ hu).trans (readint_tail _ _ _ hf).1).trans (readnat_tail _ _ _ hn).1)
      rw [if_neg c9] at h
      by_cases c10 : lead = lb_struct ∨ lead = lb_struct_proto
      · rw [if_pos c10] at h
        cases hn : readnat rest with
        | none => simp [hn] at h
        | some p =>
          obtain ⟨len, r1⟩ := p
          simp only [hn] at h
          by_cases c : r1.length < len
          · rw [if_pos c] at h; cases h
          · rw [if_neg c] at h
            simp only [decide_eq_true_eq] at h
            cases hu : unmarshalN (fun a b => unmarshalOne f a b)
                ((if lead = lb_struct_proto then 1 else 0) + 2 * len) (childStart pushPreStruct n) r1 with
            | none => simp [hu] at h
            | some q =>
              obtain ⟨items, r2, objs⟩ := q
              simp only [hu, Option.some.injEq, Prod.mk.injEq] at h
              obtain ⟨-, rfl, -⟩ := h
              exact tl1 ((key _ _ _ _ _ _ hu).trans (readnat_tail _ _ _ hn).1)
      rw [if_neg c10] at h
      cases ht : tableOfLead lead with
      | none => simp [ht] at h
      | some wp =>
        obtain ⟨weak, hasProto⟩ := wp
        simp only [ht] at h
        cases hn : readnat rest with
        | none => simp [hn] at h
        | some p =>
          obtain ⟨len, r1⟩ := p
          simp only [hn] at h
          by_cases c : r1.length < len
          · rw [if_pos c] at h; cases h
          · rw [if_neg c] at h
            cases hu : unmarshalN (fun a b => unmarshalOne f a b)
                ((if hasProto = true then 1 else 0) + 2 * len) (childStart pushPreTable n) r1 with
            | none => simp [hu] at h
            | some q =>
              obtain ⟨items, r2, objs⟩ := q
              simp only [hu, Option.some.injEq, Prod.mk.injEq] at h
              obtain ⟨-, rfl, -⟩ := h
              exact tl1 ((key _ _ _ _ _ _ hu).trans (readnat_tail _ _ _ hn).1)
end JanetModel.Marsh
