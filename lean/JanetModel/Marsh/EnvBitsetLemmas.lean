import JanetModel.Marsh.EnvBitset

namespace JanetModel.Marsh
open JanetModel.Gen.Marsh

theorem slotCaptured_spec' (bitset : List Nat) (hw : ∀ w ∈ bitset, w < 4294967296) :
    ∀ i, slotCaptured bitset i = (bitsetValue bitset).testBit i := by
  induction bitset with
  | nil =>
    intro i
    simp [slotCaptured, bitsetValue]
  | cons w ws ih =>
    intro i
    have hw0 : w < 2 ^ 32 := by have := hw w (by simp); omega
    have ih' := ih (fun x hx => hw x (by simp [hx]))
    unfold bitsetValue
    have e : (4294967296 : Nat) = 2 ^ 32 := by decide
    rw [e, Nat.testBit_two_pow_mul_add _ hw0]
    by_cases c : i < 32
    · rw [if_pos c]
      have h0 : i / 2 ^ envWordShift = 0 := by simp [envWordShift]; omega
      have h1 : i % (envBitMask + 1) = i := by simp [envBitMask]; omega
      simp [slotCaptured, h0, h1, Nat.testBit_eq_decide_div_mod_eq]
    · rw [if_neg c, ← ih' (i - 32)]
      have h0 : i / 2 ^ envWordShift = (i - 32) / 2 ^ envWordShift + 1 := by simp [envWordShift]; omega
      have h1 : i % (envBitMask + 1) = (i - 32) % (envBitMask + 1) := by simp [envBitMask]; omega
      simp [slotCaptured, h0, h1]

theorem envWalkFrom_spec {α : Type} (bitset : List Nat) (nil : α) :
    ∀ (values : List α) (start k : Nat), k < values.length →
      (envWalkFrom bitset nil start values)[k]? =
        some (if slotCaptured bitset (start + k) then values.getD k nil else nil) := by
  intro values
  induction values with
  | nil => intro start k hk; simp at hk
  | cons v vs ih =>
    intro start k hk
    cases k with
    | zero => simp [envWalkFrom]
    | succ k =>
      simp only [envWalkFrom, List.getElem?_cons_succ]
      rw [ih (start + 1) k (by simpa using hk)]
      have : start + 1 + k = start + (k + 1) := by omega
      simp [this]

theorem envWalkFrom_length {α : Type} (bitset : List Nat) (nil : α) :
    ∀ (values : List α) (start : Nat), (envWalkFrom bitset nil start values).length = values.length := by
  intro values
  induction values with
  | nil => intro _; simp [envWalkFrom]
  | cons v vs ih => intro s; simp [envWalkFrom, ih]

end JanetModel.Marsh
