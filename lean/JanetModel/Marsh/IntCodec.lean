/-
Model of the marshal integer codec: `pushint` (marsh.c:137) and `readint` (marsh.c:720).
Core Lean only (the driver links this file).  Bytes are `Nat`s; `x` is a C `int32_t` as an `Int`
with the range carried as a hypothesis in the theorems.  All thresholds come from the generated file.
-/
import JanetModel.Gen.Marsh

namespace JanetModel.Marsh
open JanetModel.Gen.Marsh

/-- `pushint`: 1, 2 or 5 bytes. -/
def pushint (x : Int) : List Nat :=
  if 0 ≤ x ∧ x < pushSmallLim then [x.toNat]
  else if x ≤ pushMidHi ∧ x ≥ pushMidLo then
    [((x / pushMidDiv) % pushMidMod).toNat + pushMidTag, (x % pushLowMod).toNat]
  else
    [lb_integer, ((x / 16777216) % 256).toNat, ((x / 65536) % 256).toNat, ((x / 256) % 256).toNat, (x % 256).toNat]

/-- reinterpret a `uint32_t` as `int32_t` -/
def toI32 (u : Nat) : Int := if u < 2147483648 then (u : Int) else (u : Int) - 4294967296

/-- `uret |= (uret >> 13) ? 0xFFFFC000 : 0; ret = (int32_t) uret` -/
def signExtMid (uret : Nat) : Int :=
  if uret / readSignThresh ≠ 0 then toI32 (uret + (4294967296 - readSignSub)) else (uret : Int)

/-- `readint`: `none` = `MARSH_EOS` panic ("unexpected end of source") or "expected integer" panic.
Every byte inspected is an element of the list: the model cannot read past the end by construction. -/
def readint : List Nat → Option (Int × List Nat)
  | [] => none
  | b :: rest =>
    if b < readSmallLim then some ((b : Int), rest)
    else if b < readMidLim then
      match rest with
      | [] => none
      | c :: rest' =>
        let uret := (b % readMidMod) * readMidMul + c
        some (signExtMid uret, rest')
    else if b = lb_integer then
      match rest with
      | b1 :: b2 :: b3 :: b4 :: rest' => some (toI32 (b1 * 16777216 + b2 * 65536 + b3 * 256 + b4), rest')
      | _ => none
    else none

/-- number of bytes `readint` consumed -/
def readintLen (bs : List Nat) : Option Nat := (readint bs).map (fun r => bs.length - r.2.length)

end JanetModel.Marsh
