/-
Canonicity of the reference-order presentation: a description that `marshalOne` accepts is its own presentation — the
seen-table marshaller run on it (addresses = reference numbers) writes the same bytes and returns it unchanged.  With
`presentOne_sound` (PresentLemmas.lean): `present` is a projection onto the accepted descriptions.
-/
import JanetModel.Marsh.PresentLemmas
import JanetModel.Marsh.GraphRoundtrip

namespace JanetModel.Marsh
open JanetModel.Gen.Marsh

/-- the seen table of a heap in reference-number order: address `a` has number `a`, for exactly the addresses below `nextid` -/
def SeenId (s : Seen) (n : Nat) : Prop := ∀ a, s.find a = if a < n then some a else none

theorem Seen.find_cons (k v : Nat) (s : Seen) (a : Nat) :
    Seen.find ((k, v) :: s) a = if k = a then some v else s.find a := by
  unfold Seen.find
  by_cases h : k = a
  · simp [List.find?, h]
  · have hb : (k == a) = false := by simp [h]
    simp [List.find?, h, hb]

theorem SeenId.nil : SeenId [] 0 := by intro a; simp [Seen.find]

theorem SeenId.cons {s : Seen} {n : Nat} (h : SeenId s n) : SeenId ((n, n) :: s) (n + 1) := by
  intro a
  rw [Seen.find_cons, h a]
  by_cases h1 : n = a
  · subst h1; simp
  · by_cases h2 : a < n
    · simp [h1, h2, Nat.lt_succ_of_lt h2]
    · have : ¬ a < n + 1 := by omega
      simp [h1, h2, this]

def FixedOne (fuel : Nat) (H : List Obj) : Prop :=
  ∀ s n x bs n', marshalOne fuel H n x = some (bs, n') → n ≤ H.length → SeenId s n →
    ∃ s', presentOne fuel H s n x = some (bs, x, slice H n n', s') ∧ SeenId s' n' ∧ n ≤ n' ∧ n' ≤ H.length

theorem presentList_fixed (fuel : Nat) (H : List Obj) (ih : FixedOne fuel H) :
    ∀ (vs : List Val) s n bs n', marshalList (fun a b => marshalOne fuel H a b) n vs = some (bs, n') → n ≤ H.length → SeenId s n →
      ∃ s', presentList (fun s m v => presentOne fuel H s m v) s n vs = some (bs, vs, slice H n n', s') ∧ SeenId s' n' ∧
        n ≤ n' ∧ n' ≤ H.length := by
  intro vs
  induction vs with
  | nil =>
    intro s n bs n' h hn hs
    simp only [marshalList, Option.some.injEq, Prod.mk.injEq] at h
    obtain ⟨rfl, rfl⟩ := h
    exact ⟨s, by simp [presentList, slice_self], hs, Nat.le_refl _, hn⟩
  | cons v vs ihl =>
    intro s n bs n' h hn hs
    simp only [marshalList] at h
    cases h1 : marshalOne fuel H n v with
    | none => simp [h1] at h
    | some r1 =>
      obtain ⟨b1, n1⟩ := r1
      simp only [h1] at h
      cases h2 : marshalList (fun a b => marshalOne fuel H a b) n1 vs with
      | none => simp [h2] at h
      | some r2 =>
        obtain ⟨b2, n2⟩ := r2
        simp only [h2, Option.some.injEq, Prod.mk.injEq] at h
        obtain ⟨rfl, rfl⟩ := h
        obtain ⟨s1, p1, q1, l1, u1⟩ := ih s n v b1 n1 h1 hn hs
        obtain ⟨s2, p2, q2, l2, u2⟩ := ihl s1 n1 b2 n2 h2 u1 q1
        have hl : n + (slice H n n1).length = n1 := by rw [slice_length H n n1 u1]; omega
        refine ⟨s2, ?_, q2, by omega, u2⟩
        simp only [presentList, p1, hl, p2, slice_append H n n1 n2 l1 l2]

/-- a container whose description sits at `H[id]` -/
theorem presentBox_fixed (fuel : Nat) (H : List Obj) (pre : Bool) (id : Nat) (s : Seen) (n : Nat) (cs : List Val) (o : Obj)
    (mk : List Val → Obj) (hmk : mk cs = o) (ho : H[id]? = some o) (ih : FixedOne fuel H) (bs : List Nat) (n' : Nat)
    (h : wrapMark pre n id (fun m => marshalList (fun a b => marshalOne fuel H a b) m cs) = some (bs, n'))
    (hn : n ≤ H.length) (hs : SeenId s n) :
    ∃ s', presentBox pre id s n (fun s m => presentList (fun s m v => presentOne fuel H s m v) s m cs) mk
        = some (bs, .ref id, slice H n n', s') ∧ SeenId s' n' ∧ n ≤ n' ∧ n' ≤ H.length := by
  have hidlt := lt_length_of_getElem? H id o ho
  unfold wrapMark at h
  unfold presentBox
  cases pre with
  | true =>
    simp only [if_true] at h ⊢
    cases hm : markSeen n id with
    | none => simp [hm] at h
    | some n1 =>
      obtain ⟨rfl, rfl⟩ := markSeen_some n id n1 hm
      simp only [hm] at h
      obtain ⟨s', p, q, l, u⟩ := presentList_fixed fuel H ih cs ((id, id) :: s) (id + 1) bs n' h (by omega) hs.cons
      refine ⟨s', ?_, q, by omega, u⟩
      simp only [p, hmk, slice_cons H id n' o ho l]
  | false =>
    simp only [Bool.false_eq_true, if_false] at h ⊢
    cases hc : marshalList (fun a b => marshalOne fuel H a b) n cs with
    | none => simp [hc] at h
    | some rc =>
      obtain ⟨cb, n1⟩ := rc
      simp only [hc] at h
      cases hm : markSeen n1 id with
      | none => simp [hm] at h
      | some n2 =>
        obtain ⟨rfl, rfl⟩ := markSeen_some n1 id n2 hm
        simp only [hm, Option.some.injEq, Prod.mk.injEq] at h
        obtain ⟨rfl, rfl⟩ := h
        obtain ⟨s', p, q, l, u⟩ := presentList_fixed fuel H ih cs s n cb id hc hn hs
        have hl : n + (slice H n id).length = id := by rw [slice_length H n id u]; omega
        refine ⟨(id, id) :: s', ?_, q.cons, by omega, by omega⟩
        simp only [p, hl, hmk, slice_snoc H n id o ho l]

theorem mkTable_kvChildren (weak : Nat) (proto : Option Val) (kvs : List (Val × Val)) :
    mkTable weak proto.isSome (kvChildren proto kvs) = .table weak proto kvs := by
  simp [mkTable, splitProto_kvChildren, pairUp_flatKV]

theorem mkStruct_kvChildren (proto : Option Val) (kvs : List (Val × Val)) :
    mkStruct proto.isSome (kvChildren proto kvs) = .struct proto kvs := by
  simp [mkStruct, splitProto_kvChildren, pairUp_flatKV]

/-- **Canonicity**: on a heap that is in reference-number order the seen-table marshaller agrees with `marshalOne` and the
description it computes is the heap itself -/
theorem presentOne_fixed (H : List Obj) : ∀ fuel, FixedOne fuel H := by
  intro fuel
  induction fuel with
  | zero => intro s n x bs n' h; simp [marshalOne] at h
  | succ f ih =>
    intro s n x bs n' h hn hs
    cases x with
    | nil =>
      simp only [marshalOne, Option.some.injEq, Prod.mk.injEq] at h
      obtain ⟨rfl, rfl⟩ := h
      exact ⟨s, by simp [presentOne, slice_self], hs, Nat.le_refl _, hn⟩
    | bool b =>
      simp only [marshalOne, Option.some.injEq, Prod.mk.injEq] at h
      obtain ⟨rfl, rfl⟩ := h
      exact ⟨s, by simp [presentOne, slice_self], hs, Nat.le_refl _, hn⟩
    | int i =>
      simp only [marshalOne, Option.some.injEq, Prod.mk.injEq] at h
      obtain ⟨rfl, rfl⟩ := h
      exact ⟨s, by simp [presentOne, slice_self], hs, Nat.le_refl _, hn⟩
    | ref id =>
      simp only [marshalOne] at h
      by_cases hlt : id < n
      · simp only [hlt, if_true, Option.some.injEq, Prod.mk.injEq] at h
        obtain ⟨rfl, rfl⟩ := h
        have hf : s.find id = some id := by rw [hs id]; simp [hlt]
        exact ⟨s, by simp [presentOne, hf, slice_self], hs, Nat.le_refl _, hn⟩
      · simp only [hlt, if_false] at h
        have hf : s.find id = none := by rw [hs id]; simp [hlt]
        cases ho : H[id]? with
        | none => simp [ho] at h
        | some o =>
          simp only [ho] at h
          have hidlt := lt_length_of_getElem? H id o ho
          -- leaves: numbered at `n`, so `id = n`
          have leaf : ∀ (bs0 : List Nat), (id = n → n' = n + 1 → bs = bs0 →
              presentOne (f + 1) H s n (.ref id) = some (bs0, .ref n, [o], (id, n) :: s)) → id = n → n' = n + 1 → bs = bs0 →
              ∃ s', presentOne (f + 1) H s n (.ref id) = some (bs, .ref id, slice H n n', s') ∧ SeenId s' n' ∧ n ≤ n' ∧ n' ≤ H.length := by
            intro bs0 hp e1 e2 e3
            subst e1 e2 e3
            refine ⟨(id, id) :: s, ?_, hs.cons, by omega, by omega⟩
            rw [hp rfl rfl rfl, slice_one H id o ho]
          cases o with
          | reg name =>
            cases hm : markSeen n id with
            | none => simp [hm] at h
            | some n1 =>
              obtain ⟨e1, e2⟩ := markSeen_some n id n1 hm
              simp only [hm, Option.map_some, Option.some.injEq, Prod.mk.injEq] at h
              exact leaf _ (fun _ _ _ => by simp [presentOne, hf, ho]) e1 (by omega) h.1.symm
          | real rb =>
            cases hp : markPreNumber <;> simp only [wrapMark, hp, if_true, Bool.false_eq_true, if_false] at h <;>
            cases hm : markSeen n id with
            | none => simp [hm] at h
            | some n1 =>
              obtain ⟨e1, e2⟩ := markSeen_some n id n1 hm
              simp only [hm, Option.some.injEq, Prod.mk.injEq] at h
              exact leaf _ (fun _ _ _ => by simp [presentOne, hf, ho]) e1 (by omega) h.1.symm
          | str k sb =>
            cases hp : markPreString <;> simp only [wrapMark, hp, if_true, Bool.false_eq_true, if_false] at h <;>
            cases hm : markSeen n id with
            | none => simp [hm] at h
            | some n1 =>
              obtain ⟨e1, e2⟩ := markSeen_some n id n1 hm
              simp only [hm, Option.some.injEq, Prod.mk.injEq] at h
              exact leaf _ (fun _ _ _ => by simp [presentOne, hf, ho]) e1 (by omega) h.1.symm
          | buffer bb =>
            cases hp : markPreBuffer <;> simp only [wrapMark, hp, if_true, Bool.false_eq_true, if_false] at h <;>
            cases hm : markSeen n id with
            | none => simp [hm] at h
            | some n1 =>
              obtain ⟨e1, e2⟩ := markSeen_some n id n1 hm
              simp only [hm, Option.some.injEq, Prod.mk.injEq] at h
              exact leaf _ (fun _ _ _ => by simp [presentOne, hf, ho]) e1 (by omega) h.1.symm
          | array weak items =>
            cases hw : wrapMark markPreArray n id (fun m => marshalList (fun a b => marshalOne f H a b) m items) with
            | none => simp [hw] at h
            | some r =>
              obtain ⟨cb, n1⟩ := r
              simp only [hw, Option.some.injEq, Prod.mk.injEq] at h
              obtain ⟨rfl, rfl⟩ := h
              obtain ⟨s', p, q, l, u⟩ := presentBox_fixed f H markPreArray id s n items _ (fun vs => .array weak vs) rfl ho ih cb n1 hw hn hs
              exact ⟨s', by simp [presentOne, hf, ho, withHeader, p], q, l, u⟩
          | tuple flag items =>
            cases hw : wrapMark markPreTuple n id (fun m => marshalList (fun a b => marshalOne f H a b) m items) with
            | none => simp [hw] at h
            | some r =>
              obtain ⟨cb, n1⟩ := r
              simp only [hw, Option.some.injEq, Prod.mk.injEq] at h
              obtain ⟨rfl, rfl⟩ := h
              obtain ⟨s', p, q, l, u⟩ := presentBox_fixed f H markPreTuple id s n items _ (fun vs => .tuple flag vs) rfl ho ih cb n1 hw hn hs
              exact ⟨s', by simp [presentOne, hf, ho, withHeader, p], q, l, u⟩
          | table weak proto kvs =>
            cases hw : wrapMark markPreTable n id (fun m => marshalList (fun a b => marshalOne f H a b) m (kvChildren proto kvs)) with
            | none => simp [hw] at h
            | some r =>
              obtain ⟨cb, n1⟩ := r
              simp only [hw, Option.some.injEq, Prod.mk.injEq] at h
              obtain ⟨rfl, rfl⟩ := h
              obtain ⟨s', p, q, l, u⟩ := presentBox_fixed f H markPreTable id s n (kvChildren proto kvs) _ (mkTable weak proto.isSome)
                (mkTable_kvChildren weak proto kvs) ho ih cb n1 hw hn hs
              exact ⟨s', by simp [presentOne, hf, ho, withHeader, p], q, l, u⟩
          | struct proto kvs =>
            cases hw : wrapMark markPreStruct n id (fun m => marshalList (fun a b => marshalOne f H a b) m (kvChildren proto kvs)) with
            | none => simp [hw] at h
            | some r =>
              obtain ⟨cb, n1⟩ := r
              simp only [hw, Option.some.injEq, Prod.mk.injEq] at h
              obtain ⟨rfl, rfl⟩ := h
              obtain ⟨s', p, q, l, u⟩ := presentBox_fixed f H markPreStruct id s n (kvChildren proto kvs) _ (mkStruct proto.isSome)
                (mkStruct_kvChildren proto kvs) ho ih cb n1 hw hn hs
              exact ⟨s', by simp [presentOne, hf, ho, withHeader, p], q, l, u⟩

/-- entry point: an accepted description without garbage is the presentation of itself -/
theorem present_fixed (H : List Obj) (x : Val) (bs : List Nat) (h : marshalOne topFuel H 0 x = some (bs, H.length)) :
    present H x = some (bs, x, H) := by
  obtain ⟨s', p, _, _, _⟩ := presentOne_fixed H topFuel [] 0 x bs H.length h (Nat.zero_le _) SeenId.nil
  unfold present
  rw [p]
  simp [slice]

end JanetModel.Marsh
