/-
Model of `marshal_one` (marsh.c:464) and `unmarshal_one` (marsh.c:1312) on *data value graphs*.  Core Lean only.

Representation (the abstraction function is `harness/C09/graph.janet: describe`):
  * a value is `nil`, a boolean, a number that takes the integer path (`janet_checkintrange`, so -0.0 is `int 0`),
    or a pointer `ref id` to a heap object;
  * the heap is a list of objects **in reference-number order**: object `id` is the value that receives number `id`
    in `st->seen` (MARK_SEEN, `st->nextid++`) when marshalling and that is pushed as `st->lookup[id]` when unmarshalling.
    `st->seen` is keyed by janet equality, so the abstraction identifies immutable values (strings, tuples, structs,
    boxed reals) that are janet-`=`.  With this presentation `st->seen` contains exactly the ids `< nextid`, and the
    set of isomorphism classes of value graphs is in bijection with the heaps on which `marshalOne` succeeds:
    "same shape, same sharing and cycles" is *equality* of (value, heap).
  * every numbering point is explicit (`markSeen`): before the children for reals / strings / buffers / arrays / tables /
    registry values, after the children for tuples and structs.  Which of the two it is comes from the *generated*
    constants `markPre*` (marshal side) and `pushPre*` (unmarshal side), read off the current marsh.c on every run.
  * `fuel` is the C recursion depth: `MARSH_STACKCHECK` panics when `(flags & 0xFFFF) > JANET_RECURSION_GUARD`; every
    child is visited with `flags + 1`.  Top-level fuel is `recursionGuard + 1`.
Not modelled: `janet_asserttype` on decoded prototypes (the model accepts any value as prototype), weak-table GC
behaviour, unsafe pointers, functions / fibers / abstracts (compared behaviourally by the harness).
-/
import JanetModel.Marsh.IntCodec

namespace JanetModel.Marsh
open JanetModel.Gen.Marsh

inductive Val where
  | nil
  | bool (b : Bool)
  | int (i : Int)
  | ref (id : Nat)
  deriving DecidableEq, Repr, Inhabited

inductive SKind where
  | string | symbol | keyword
  deriving DecidableEq, Repr

inductive Obj where
  | real (bytes : List Nat)                       -- LB_REAL + 8 bytes (little endian IEEE double)
  | str (k : SKind) (bytes : List Nat)            -- LB_STRING / LB_SYMBOL / LB_KEYWORD
  | reg (name : List Nat)                         -- a value found in the reverse registry under `name` (LB_REGISTRY)
  | buffer (bytes : List Nat)
  | array (weak : Bool) (items : List Val)
  | tuple (flag : Int) (items : List Val)
  | table (weak : Nat) (proto : Option Val) (kvs : List (Val × Val))   -- weak: 0 none, 1 keys, 2 values, 3 both
  | struct (proto : Option Val) (kvs : List (Val × Val))
  deriving DecidableEq, Repr

/-- `MARK_SEEN()`: `janet_table_put(&st->seen, x, st->nextid++)`.  In reference-number order the object being
numbered must be object `n`. -/
def markSeen (n id : Nat) : Option Nat := if id = n then some (n + 1) else none

def strLead : SKind → Nat
  | .string => lb_string
  | .symbol => lb_symbol
  | .keyword => lb_keyword

def tableLead (weak : Nat) (hasProto : Bool) : Nat :=
  if weak = 1 then (if hasProto then lb_table_weakk_proto else lb_table_weakk)
  else if weak = 2 then (if hasProto then lb_table_weakv_proto else lb_table_weakv)
  else if weak = 3 then (if hasProto then lb_table_weakkv_proto else lb_table_weakkv)
  else (if hasProto then lb_table_proto else lb_table)

def tableOfLead (lead : Nat) : Option (Nat × Bool) :=
  if lead = lb_table then some (0, false)
  else if lead = lb_table_proto then some (0, true)
  else if lead = lb_table_weakk then some (1, false)
  else if lead = lb_table_weakk_proto then some (1, true)
  else if lead = lb_table_weakv then some (2, false)
  else if lead = lb_table_weakv_proto then some (2, true)
  else if lead = lb_table_weakkv then some (3, false)
  else if lead = lb_table_weakkv_proto then some (3, true)
  else none

def flatKV : List (Val × Val) → List Val
  | [] => []
  | (k, v) :: rest => k :: v :: flatKV rest

def pairUp : List Val → List (Val × Val)
  | k :: v :: rest => (k, v) :: pairUp rest
  | _ => []

/-- children of a table / struct in visiting order: prototype (if any), then key, value, key, value ... -/
def kvChildren (proto : Option Val) (kvs : List (Val × Val)) : List Val := proto.toList ++ flatKV kvs

/-- `for (i...) marshal_one(st, child[i], flags + 1)` with `g = marshalOne fuel H`. -/
def marshalList (g : Nat → Val → Option (List Nat × Nat)) : Nat → List Val → Option (List Nat × Nat)
  | n, [] => some ([], n)
  | n, v :: vs =>
    match g n v with
    | none => none
    | some (b1, n1) =>
      match marshalList g n1 vs with
      | none => none
      | some (b2, n2) => some (b1 ++ b2, n2)

/-- number the object before (`pre`) or after its children are visited -/
def wrapMark (pre : Bool) (n id : Nat) (children : Nat → Option (List Nat × Nat)) : Option (List Nat × Nat) :=
  if pre then
    match markSeen n id with
    | none => none
    | some n1 => children n1
  else
    match children n with
    | none => none
    | some (bs, n1) =>
      match markSeen n1 id with
      | none => none
      | some n2 => some (bs, n2)

/-- `marshal_one`.  Returns the bytes appended to `st->buf` and the new `st->nextid`; `none` = panic
(stack overflow, dangling pointer in the description, heap not in reference-number order). -/
def marshalOne : Nat → List Obj → Nat → Val → Option (List Nat × Nat)
  | 0, _, _, _ => none
  | fuel + 1, H, n, x =>
    match x with
    | .nil => some ([lb_nil], n)
    | .bool b => some ([if b then lb_true else lb_false], n)
    | .int i => some (pushint i, n)
    | .ref id =>
      if id < n then some (lb_reference :: pushint id, n)       -- found in st->seen
      else
        match H[id]? with
        | none => none
        | some o =>
          match o with
          | .reg name =>
            (markSeen n id).map fun n1 => (lb_registry :: (pushint name.length ++ name), n1)
          | .real bs =>
            wrapMark markPreNumber n id fun m => some (lb_real :: bs, m)
          | .str k bs =>
            wrapMark markPreString n id fun m => some (strLead k :: (pushint bs.length ++ bs), m)
          | .buffer bs =>
            wrapMark markPreBuffer n id fun m => some (lb_buffer :: (pushint bs.length ++ bs), m)
          | .array weak items =>
            match wrapMark markPreArray n id (fun m => marshalList (fun a b => marshalOne fuel H a b) m items) with
            | none => none
            | some (bs, n') => some ((if weak then lb_array_weak else lb_array) :: (pushint items.length ++ bs), n')
          | .tuple flag items =>
            match wrapMark markPreTuple n id (fun m => marshalList (fun a b => marshalOne fuel H a b) m items) with
            | none => none
            | some (bs, n') => some (lb_tuple :: (pushint items.length ++ (pushint flag ++ bs)), n')
          | .table weak proto kvs =>
            match wrapMark markPreTable n id (fun m => marshalList (fun a b => marshalOne fuel H a b) m (kvChildren proto kvs)) with
            | none => none
            | some (bs, n') => some (tableLead weak proto.isSome :: (pushint kvs.length ++ bs), n')
          | .struct proto kvs =>
            match wrapMark markPreStruct n id (fun m => marshalList (fun a b => marshalOne fuel H a b) m (kvChildren proto kvs)) with
            | none => none
            | some (bs, n') => some ((if proto.isSome then lb_struct_proto else lb_struct) :: (pushint kvs.length ++ bs), n')

/-- depth budget of the entry points (`janet_marshal` / `janet_unmarshal` start with depth 0) -/
def topFuel : Nat := recursionGuard + 1

/-- `janet_marshal` with a fresh state -/
def marshal (H : List Obj) (x : Val) : Option (List Nat) := (marshalOne topFuel H 0 x).map (·.1)

/-! ### unmarshal -/

/-- `readnat` -/
def readnat (data : List Nat) : Option (Nat × List Nat) :=
  match readint data with
  | none => none
  | some (i, rest) => if i < 0 then none else some (i.toNat, rest)

/-- `for (i < len) data = unmarshal_one(st, data, out + i, flags + 1)`; `n` = `janet_v_count(st->lookup)` -/
def unmarshalN (g : Nat → List Nat → Option (Val × List Nat × List Obj)) : Nat → Nat → List Nat → Option (List Val × List Nat × List Obj)
  | 0, _, data => some ([], data, [])
  | len + 1, n, data =>
    match g n data with
    | none => none
    | some (v, rest, objs) =>
      match unmarshalN g len (n + objs.length) rest with
      | none => none
      | some (vs, rest', objs') => some (v :: vs, rest', objs ++ objs')

/-- `janet_table_put` semantics on the association list -/
def tablePut (kvs : List (Val × Val)) (k v : Val) : List (Val × Val) :=
  if k = .nil then kvs
  else if v = .nil then kvs.filter (fun kv => kv.1 ≠ k)
  else if kvs.any (fun kv => kv.1 = k) then kvs.map (fun kv => if kv.1 = k then (k, v) else kv)
  else kvs ++ [(k, v)]

/-- `janet_struct_put` semantics -/
def structPut (kvs : List (Val × Val)) (k v : Val) : List (Val × Val) :=
  if k = .nil ∨ v = .nil then kvs
  else if kvs.any (fun kv => kv.1 = k) then kvs.map (fun kv => if kv.1 = k then (k, v) else kv)
  else kvs ++ [(k, v)]

def putAll (put : List (Val × Val) → Val → Val → List (Val × Val)) (pairs : List (Val × Val)) : List (Val × Val) :=
  pairs.foldl (fun acc kv => put acc kv.1 kv.2) []

/-- where does the new object go relative to the objects created by its children -/
def finishObj (pre : Bool) (n : Nat) (childObjs : List Obj) (o : Obj) : Val × List Obj :=
  if pre then (.ref n, o :: childObjs) else (.ref (n + childObjs.length), childObjs ++ [o])

def childStart (pre : Bool) (n : Nat) : Nat := if pre then n + 1 else n

/-- split the decoded children of a table / struct into prototype and pairs -/
def splitProto (hasProto : Bool) (vs : List Val) : Option Val × List Val :=
  if hasProto then
    match vs with
    | p :: rest => (some p, rest)
    | [] => (none, [])
  else (none, vs)

/-- `unmarshal_one`.  `n` = `janet_v_count(st->lookup)`.  Returns the value, the remaining bytes and the objects
appended to `st->lookup` (in order).  `none` = panic.  Every byte looked at is an element of `data`. -/
def unmarshalOne : Nat → Nat → List Nat → Option (Val × List Nat × List Obj)
  | 0, _, _ => none
  | fuel + 1, n, data =>
    match data with
    | [] => none
    | lead :: rest =>
      if lead < lb_real ∨ lead = lb_integer then
        match readint data with
        | none => none
        | some (i, r) => some (.int i, r, [])
      else if lead = lb_nil then some (.nil, rest, [])
      else if lead = lb_false then some (.bool false, rest, [])
      else if lead = lb_true then some (.bool true, rest, [])
      else if lead = lb_real then
        if rest.length < 8 then none else some (.ref n, rest.drop 8, [.real (rest.take 8)])
      else if lead = lb_string ∨ lead = lb_symbol ∨ lead = lb_keyword ∨ lead = lb_buffer ∨ lead = lb_registry then
        match readnat rest with
        | none => none
        | some (len, r) =>
          if r.length < len then none
          else
            let bs := r.take len
            let o := if lead = lb_string then Obj.str .string bs
                     else if lead = lb_symbol then Obj.str .symbol bs
                     else if lead = lb_keyword then Obj.str .keyword bs
                     else if lead = lb_buffer then Obj.buffer bs
                     else Obj.reg bs
            some (.ref n, r.drop len, [o])
      else if lead = lb_reference then
        match readnat rest with
        | none => none
        | some (k, r) => if k < n then some (.ref k, r, []) else none
      else if lead = lb_array ∨ lead = lb_array_weak then
        match readnat rest with
        | none => none
        | some (len, r) =>
          if r.length < len then none
          else
            match unmarshalN (fun a b => unmarshalOne fuel a b) len (childStart pushPreArray n) r with
            | none => none
            | some (items, r', objs) =>
              let (v, os) := finishObj pushPreArray n objs (.array (lead = lb_array_weak) items)
              some (v, r', os)
      else if lead = lb_tuple then
        match readnat rest with
        | none => none
        | some (len, r) =>
          if r.length < len then none
          else
            match readint r with
            | none => none
            | some (flag, r1) =>
              match unmarshalN (fun a b => unmarshalOne fuel a b) len (childStart pushPreTuple n) r1 with
              | none => none
              | some (items, r', objs) =>
                let (v, os) := finishObj pushPreTuple n objs (.tuple flag items)
                some (v, r', os)
      else if lead = lb_struct ∨ lead = lb_struct_proto then
        match readnat rest with
        | none => none
        | some (len, r) =>
          if r.length < len then none
          else
            let hasProto : Bool := lead = lb_struct_proto
            match unmarshalN (fun a b => unmarshalOne fuel a b) ((if hasProto then 1 else 0) + 2 * len) (childStart pushPreStruct n) r with
            | none => none
            | some (vs, r', objs) =>
              let (proto, kv) := splitProto hasProto vs
              let (v, os) := finishObj pushPreStruct n objs (.struct proto (putAll structPut (pairUp kv)))
              some (v, r', os)
      else
        match tableOfLead lead with
        | none => none
        | some (weak, hasProto) =>
          match readnat rest with
          | none => none
          | some (len, r) =>
            if r.length < len then none
            else
              match unmarshalN (fun a b => unmarshalOne fuel a b) ((if hasProto then 1 else 0) + 2 * len) (childStart pushPreTable n) r with
              | none => none
              | some (vs, r', objs) =>
                let (proto, kv) := splitProto hasProto vs
                let (v, os) := finishObj pushPreTable n objs (.table weak proto (putAll tablePut (pairUp kv)))
                some (v, r', os)

/-- `janet_unmarshal` with a fresh state: value, heap (the final `st->lookup`), number of bytes consumed -/
def unmarshal (data : List Nat) : Option (Val × List Obj × Nat) :=
  (unmarshalOne topFuel 0 data).map fun r => (r.1, r.2.2, data.length - r.2.1.length)

end JanetModel.Marsh
