/-
Model of `marshal_one` / `unmarshal_one` (marsh.c) on value graphs that contain **code objects**: functions
(`case JANET_FUNCTION` / `case LB_FUNCTION`), function definitions (`marshal_one_def` / `unmarshal_one_def`, numbered by
`st->seen_defs` / `st->lookup_defs`) and closure environments (`marshal_one_env` / `unmarshal_one_env`, numbered by
`st->seen_envs` / `st->lookup_envs`), on top of the data values of Graph.lean.  Core Lean only.

Representation (abstraction function: `harness/C09/codegraph.janet: describe` + the struct readers of
`harness/C09/codedesc.c`):
  * three tables, each listed **in the order in which marsh.c numbers its entries**: `objs` (MARK_SEEN / `st->lookup`),
    `defs` (`janet_v_push(st->seen_defs, def)` / `st->lookup_defs`), `envs` (`st->seen_envs` / `st->lookup_envs`);
    a function object is `func defIndex envIndices`, a funcdef lists its sub-funcdefs by index, an environment lists
    its values (detached) or its fiber (on the stack).  Sharing of a funcdef between two closures, of an environment
    between closures (the shared mutable captured variables), and cycles function -> env -> function are all
    *equality of indices*; "same graph" is equality of `(value, tables)`.
  * the marshaller state is the three counters `Ct` (`st->nextid`, `janet_v_count(st->seen_defs)`,
    `janet_v_count(st->seen_envs)`); an entry that is reached for the first time must be the next one of its table
    (`markObj` / `markDef` / `markEnv`), an entry with a smaller index is written as a reference.
  * the marshaller is written with the writer combinators `W` (sequence = the C statement sequence), the unmarshaller
    with the reader combinators `R`; `fuel` is the C recursion depth budget exactly as in Graph.lean (a callee that
    receives `flags + 1` gets `fuel - 1`; a callee without MARSH_STACKCHECK that passes `flags` on is a combinator
    applied at the same fuel).
Not modelled (validation of untrusted input, property C10): `janet_asserttype` on decoded names / prototypes / fibers,
the `lookup_defs_done` test, `def->bytecode_length == 0` and the environment-count test of `case LB_FUNCTION` (both are
implied for honest input: `janet_verify` rejects empty bytecode, and the count was written from the same funcdef).
`janet_verify` itself is the parameter `vf`.
-/
import JanetModel.Marsh.Graph
import JanetModel.Marsh.Size
import JanetModel.Gen.MarshCode

namespace JanetModel.Marsh
open JanetModel.Gen.Marsh JanetModel.Gen.MarshCode

/-! ### descriptions -/

/-- one `JanetSymbolMap` entry (the three `uint32_t` fields in their `int32_t` view, as `pushint` sees them) -/
structure SymEntry where
  birth : Int
  death : Int
  slot : Int
  sym : Val
  deriving DecidableEq, Repr

/-- `JanetFuncDef`.  Optional parts are present iff the corresponding flag bit is set (`janet_def_addflags`). -/
structure Def where
  flags : Int
  slotcount : Nat
  arity : Nat
  minArity : Nat
  maxArity : Nat
  name : Option Val
  source : Option Val
  constants : List Val
  symbolmap : List SymEntry
  bytecode : List Nat                -- uint32_t words
  environments : List Int
  defs : List Nat                    -- indices into the funcdef table
  sourcemap : List (Int × Int)       -- (line, column) per instruction
  bitset : List Nat                  -- closure_bitset words
  deriving DecidableEq, Repr

/-- `JanetFuncEnv`: detached (`offset = 0`, owns its values) or still on the stack of a fiber -/
inductive Env where
  | detached (values : List Val)
  | onstack (offset : Nat) (length : Nat) (fiber : Val)
  deriving DecidableEq, Repr

/-- one `JanetStackFrame` of a marshalled fiber with the slots above it (top frame first, as they are written).  `flags` is
`frame->flags` without JANET_STACKFRAME_HASENV (the sign bit), which is on the wire iff `env` is present. -/
structure Frame where
  flags : Int
  prevframe : Nat
  pcdiff : Nat
  func : Val
  env : Option Nat
  slots : List Val
  deriving DecidableEq, Repr

/-- one call of an abstract type's marshal hook on its `JanetMarshalContext` (see Abstract.lean) -/
inductive AItem where
  | int (i : Int)               -- janet_marshal_int
  | i64 (u : Nat)               -- janet_marshal_int64 / janet_marshal_size (the uint64_t view)
  | byte (b : Nat)              -- janet_marshal_byte
  | bytes (bs : List Nat)       -- janet_marshal_bytes
  | janet (v : Val)             -- janet_marshal_janet
  deriving DecidableEq, Repr

/-- heap objects: the data objects of Graph.lean, functions, and abstracts (recorded as the calls their marshal hook makes
before and after `janet_marshal_abstract`; the hook protocol is modelled in Abstract.lean, the dispatch on the type name is
not, so `marshalC` itself stops at an abstract) -/
inductive CObj where
  | data (o : Obj)
  | func (defIdx : Nat) (envs : List Nat)
  | abs (name : Val) (pre post : List AItem)
  /-- `JanetFiber`; `flags` is `fiber->flags` (JANET_FIBER_FLAG_HASCHILD / HASENV are wire-only bits) -/
  | fiber (flags : Int) (frame stackstart stacktop maxstack : Nat) (frames : List Frame)
      (env : Option Val) (child : Option Val) (last : Val)
  deriving DecidableEq, Repr

structure Heap where
  objs : List CObj
  defs : List Def
  envs : List Env
  deriving DecidableEq, Repr

/-- the three counters of `MarshalState` / the three table sizes of `UnmarshalState` -/
structure Ct where
  n : Nat
  d : Nat
  e : Nat
  deriving DecidableEq, Repr

/-- entries appended to the three lookup tables by a reader, in order -/
structure Out where
  objs : List CObj
  defs : List Def
  envs : List Env
  deriving DecidableEq, Repr

def Out.empty : Out := ⟨[], [], []⟩
def Out.append (a b : Out) : Out := ⟨a.objs ++ b.objs, a.defs ++ b.defs, a.envs ++ b.envs⟩
def Ct.add (c : Ct) (o : Out) : Ct := ⟨c.n + o.objs.length, c.d + o.defs.length, c.e + o.envs.length⟩

/-- `def->flags & bit` (bit a power of two) -/
def hasFlag (flags : Int) (bit : Int) : Bool := (flags / bit) % 2 = 1

/-- `janet_marshal_u32s`: little endian -/
def u32le (w : Nat) : List Nat := [w % 256, w / 256 % 256, w / 65536 % 256, w / 16777216 % 256]

def u32s : List Nat → List Nat
  | [] => []
  | w :: ws => u32le w ++ u32s ws

/-! ### writer combinators (marshal side) -/

/-- a piece of the marshaller: from the counters to the bytes appended and the new counters; `none` = panic -/
abbrev W := Ct → Option (List Nat × Ct)

def W.ret (bs : List Nat) : W := fun c => some (bs, c)
def W.fail : W := fun _ => none

/-- statement sequence -/
def W.seq (a b : W) : W := fun c =>
  match a c with
  | none => none
  | some (b1, c1) =>
    match b c1 with
    | none => none
    | some (b2, c2) => some (b1 ++ b2, c2)

/-- `pushbyte(st, lead)` followed by `w` -/
def W.lead (lead : Nat) (w : W) : W := fun c =>
  match w c with
  | none => none
  | some (bs, c') => some (lead :: bs, c')

/-- `for (i...) g(x[i])` -/
def W.list {α : Type} (g : α → W) : List α → W
  | [] => W.ret []
  | x :: xs => W.seq (g x) (W.list g xs)

/-- MARK_SEEN: in reference-number order the value being numbered must be object `c.n` -/
def W.markObj (id : Nat) : W := fun c => if id = c.n then some ([], { c with n := c.n + 1 }) else none
/-- `janet_v_push(st->seen_defs, def)` -/
def W.markDef (id : Nat) : W := fun c => if id = c.d then some ([], { c with d := c.d + 1 }) else none
/-- `janet_v_push(st->seen_envs, env)` -/
def W.markEnv (id : Nat) : W := fun c => if id = c.e then some ([], { c with e := c.e + 1 }) else none

/-- number the object before (`pre`) or after its children -/
def W.wrapMark (pre : Bool) (id : Nat) (children : W) : W :=
  if pre then W.seq (W.markObj id) children else W.seq children (W.markObj id)

def W.int (i : Int) : W := W.ret (pushint i)

/-- a pointer that must not be NULL when its flag is set (`def->name`, `def->source`) -/
def W.optVal (g : Val → W) : Option Val → W
  | some v => g v
  | none => W.fail

/-- source map: `pushint(line - current); pushint(column); current = line` -/
def smBytes : Int → List (Int × Int) → List Nat
  | _, [] => []
  | cur, (line, col) :: rest => pushint (line - cur) ++ (pushint col ++ smBytes line rest)

def optLen (flags : Int) (bit : Int) (len : Nat) : List Nat := if hasFlag flags bit then pushint len else []

/-- the integer header of `marshal_one_def` -/
def defHeader (df : Def) : List Nat :=
  pushint df.flags ++ (pushint df.slotcount ++ (pushint df.arity ++ (pushint df.minArity ++ (pushint df.maxArity ++
    (pushint df.constants.length ++ (pushint df.bytecode.length ++
      (optLen df.flags fdHasEnvs df.environments.length ++ (optLen df.flags fdHasDefs df.defs.length ++
        optLen df.flags fdHasSymbolMap df.symbolmap.length))))))))

def intsBytes : List Int → List Nat
  | [] => []
  | i :: is => pushint i ++ intsBytes is

/-- `fflags = fiber->flags | HASCHILD (if child) | HASENV (if env)` (the two bits are clear in `fiber->flags`) -/
def fiberWireFlags (flags : Int) (env child : Option Val) : Int :=
  flags + (if env.isSome then fiberHasEnv else 0) + (if child.isSome then fiberHasChild else 0)

/-- `frame->flags | JANET_STACKFRAME_HASENV` (= INT32_MIN, the sign bit) when the frame has an environment -/
def frameWireFlags (fr : Frame) : Int := if fr.env.isSome then fr.flags - 2147483648 else fr.flags

/-- one frame of `marshal_one_fiber`: flags, prevframe, pc offset, function, environment, the stack slots of the frame;
`g` = `marshal_one(…, flags + 1)`, `ge` = `marshal_one_env(…, flags + 1)` -/
def marshalFrame (g : Val → W) (ge : Nat → W) (fr : Frame) : W :=
  W.seq (W.ret (pushint (frameWireFlags fr) ++ (pushint fr.prevframe ++ pushint fr.pcdiff)))
  (W.seq (g fr.func)
  (W.seq (match fr.env with | some ei => ge ei | none => W.ret [])
         (W.list g fr.slots)))

/-- body of `marshal_one_fiber` after its MARSH_STACKCHECK -/
def marshalFiberBody (g : Val → W) (ge : Nat → W) (flags : Int) (frame stackstart stacktop maxstack : Nat) (frames : List Frame)
    (env child : Option Val) (last : Val) : W :=
  W.seq (W.ret (pushint (fiberWireFlags flags env child) ++ (pushint frame ++ (pushint stackstart ++ (pushint stacktop ++ pushint maxstack)))))
  (W.seq (W.list (marshalFrame g ge) frames)
  (W.seq (match env with | some v => g v | none => W.ret [])
  (W.seq (match child with | some v => g v | none => W.ret [])
         (g last))))

/-- body of `marshal_one_def` after the funcdef has been pushed on `seen_defs`; `g` = `marshal_one(…, flags + 1)`,
`gd` = `marshal_one_def(…, flags + 1)` -/
def marshalDefBody (g : Val → W) (gd : Nat → W) (df : Def) : W :=
  W.seq (W.ret (defHeader df))
  (W.seq (if hasFlag df.flags fdHasName then W.optVal g df.name else W.ret [])
  (W.seq (if hasFlag df.flags fdHasSource then W.optVal g df.source else W.ret [])
  (W.seq (W.list g df.constants)
  (W.seq (W.list (fun (s : SymEntry) => W.seq (W.ret (pushint s.birth ++ (pushint s.death ++ pushint s.slot))) (g s.sym)) df.symbolmap)
  (W.seq (W.ret (u32s df.bytecode))
  (W.seq (W.ret (intsBytes df.environments))
  (W.seq (W.list gd df.defs)
  (W.seq (W.ret (if hasFlag df.flags fdHasSourceMap then smBytes 0 df.sourcemap else []))
         (W.ret (if hasFlag df.flags fdHasCloBitset then u32s df.bitset else []))))))))))

mutual
/-- `marshal_one` -/
def marshalC : Nat → Heap → Val → W
  | 0, _, _ => W.fail
  | fuel + 1, T, x =>
    match x with
    | .nil => W.ret [lb_nil]
    | .bool b => W.ret [if b then lb_true else lb_false]
    | .int i => W.int i
    | .ref id => fun c =>
      if id < c.n then some (lb_reference :: pushint id, c)         -- found in st->seen
      else
        match T.objs[id]? with
        | none => none
        | some o =>
          (match o with
          | .data (.reg name) => W.lead lb_registry (W.seq (W.markObj id) (W.ret (pushint name.length ++ name)))
          | .data (.real bs) => W.lead lb_real (W.wrapMark markPreNumber id (W.ret bs))
          | .data (.str k bs) => W.lead (strLead k) (W.wrapMark markPreString id (W.ret (pushint bs.length ++ bs)))
          | .data (.buffer bs) => W.lead lb_buffer (W.wrapMark markPreBuffer id (W.ret (pushint bs.length ++ bs)))
          | .data (.array weak items) =>
            W.lead (if weak then lb_array_weak else lb_array) (W.seq (W.int items.length)
              (W.wrapMark markPreArray id (W.list (fun v c => marshalC fuel T v c) items)))
          | .data (.tuple flag items) =>
            W.lead lb_tuple (W.seq (W.int items.length) (W.seq (W.int flag)
              (W.wrapMark markPreTuple id (W.list (fun v c => marshalC fuel T v c) items))))
          | .data (.table weak proto kvs) =>
            W.lead (tableLead weak proto.isSome) (W.seq (W.int kvs.length)
              (W.wrapMark markPreTable id (W.list (fun v c => marshalC fuel T v c) (kvChildren proto kvs))))
          | .data (.struct proto kvs) =>
            W.lead (if proto.isSome then lb_struct_proto else lb_struct) (W.seq (W.int kvs.length)
              (W.wrapMark markPreStruct id (W.list (fun v c => marshalC fuel T v c) (kvChildren proto kvs))))
          | .func di envs =>
            -- pushbyte(LB_FUNCTION); pushint(environments_length); MARK_SEEN(); marshal_one_def(flags + 1); envs (flags + 1)
            W.lead lb_function (W.seq (W.int envs.length) (W.seq (W.markObj id)
              (W.seq (fun c => marshalDef fuel T di c) (W.list (fun ei c => marshalEnv fuel T ei c) envs))))
          | .abs _ _ _ => W.fail
          | .fiber flags frame stackstart stacktop maxstack frames env child last =>
            -- MARK_SEEN(); pushbyte(LB_FIBER); marshal_one_fiber(flags + 1) [MARSH_STACKCHECK], everything inside at flags + 2
            W.seq (W.markObj id) (W.lead lb_fiber (match fuel with
              | 0 => W.fail
              | f + 1 => marshalFiberBody (fun v c => marshalC f T v c) (fun ei c => marshalEnv f T ei c)
                           flags frame stackstart stacktop maxstack frames env child last))) c

/-- `marshal_one_def` -/
def marshalDef : Nat → Heap → Nat → W
  | 0, _, _ => W.fail
  | fuel + 1, T, di => fun c =>
    if di < c.d then some (lb_funcdef_ref :: pushint di, c)          -- found in st->seen_defs
    else
      match T.defs[di]? with
      | none => none
      | some df =>
        (W.seq (W.markDef di) (marshalDefBody (fun v c => marshalC fuel T v c) (fun sd c => marshalDef fuel T sd c) df)) c

/-- `marshal_one_env` (after `janet_env_maybe_detach`; the early-detach path presents the environment as detached, with
the values `envWalk` of EnvBitset.lean selects) -/
def marshalEnv : Nat → Heap → Nat → W
  | 0, _, _ => W.fail
  | fuel + 1, T, ei => fun c =>
    if ei < c.e then some (lb_funcenv_ref :: pushint ei, c)          -- found in st->seen_envs
    else
      match T.envs[ei]? with
      | none => none
      | some (.detached values) =>
        (W.seq (W.markEnv ei) (W.seq (W.ret (pushint 0 ++ pushint values.length))
          (W.list (fun v c => marshalC fuel T v c) values))) c
      | some (.onstack offset length fiber) =>
        (W.seq (W.markEnv ei) (W.seq (W.ret (pushint offset ++ pushint length)) (fun c => marshalC fuel T fiber c))) c

end

/-- `janet_marshal` with a fresh state -/
def marshalCode (T : Heap) (x : Val) : Option (List Nat) := (marshalC topFuel T x ⟨0, 0, 0⟩).map (·.1)

/-! ### reader combinators (unmarshal side) -/

/-- a piece of the unmarshaller: from the table sizes and the unread bytes to the result, the bytes left and the
entries appended to the tables; `none` = panic -/
abbrev R (α : Type) := Ct → List Nat → Option (α × List Nat × Out)

def R.pure {α : Type} (a : α) : R α := fun _ data => some (a, data, Out.empty)
def R.fail {α : Type} : R α := fun _ _ => none

def R.bind {α β : Type} (r : R α) (f : α → R β) : R β := fun c data =>
  match r c data with
  | none => none
  | some (a, rest, o1) =>
    match f a (c.add o1) rest with
    | none => none
    | some (b, rest', o2) => some (b, rest', o1.append o2)

def R.map {α β : Type} (r : R α) (f : α → β) : R β := fun c data =>
  match r c data with
  | none => none
  | some (a, rest, o) => some (f a, rest, o)

/-- `readint` -/
def R.int : R Int := fun _ data =>
  match readint data with
  | none => none
  | some (i, rest) => some (i, rest, Out.empty)

/-- `readnat` -/
def R.nat : R Nat := fun _ data =>
  match readnat data with
  | none => none
  | some (k, rest) => some (k, rest, Out.empty)

/-- `len` raw bytes (with the MARSH_EOS test) -/
def R.take (len : Nat) : R (List Nat) := fun _ data =>
  if data.length < len then none else some (data.take len, data.drop len, Out.empty)

/-- the "DOS check" `MARSH_EOS(st, data - 1 + len)` -/
def R.dos (len : Nat) : R Unit := fun _ data => if data.length < len then none else some ((), data, Out.empty)

/-- `for (i < len) read one` -/
def R.listN {α : Type} (g : R α) : Nat → R (List α)
  | 0 => R.pure []
  | len + 1 => R.bind g fun a => R.map (R.listN g len) fun as => a :: as

/-- `janet_v_push(st->lookup, *out)` before the rest of the object is read -/
def R.preObj {α : Type} (r : R α) (mk : α → CObj) : R Val := fun c data =>
  match r { c with n := c.n + 1 } data with
  | none => none
  | some (a, rest, o) => some (.ref c.n, rest, { o with objs := mk a :: o.objs })

/-- `janet_v_push(st->lookup, *out)` after the children have been read -/
def R.postObj {α : Type} (r : R α) (mk : α → CObj) : R Val := fun c data =>
  match r c data with
  | none => none
  | some (a, rest, o) => some (.ref (c.n + o.objs.length), rest, { o with objs := o.objs ++ [mk a] })

def R.wrapObj {α : Type} (pre : Bool) (r : R α) (mk : α → CObj) : R Val := if pre then R.preObj r mk else R.postObj r mk

/-- `janet_v_push(st->lookup_defs, def)` -/
def R.preDef (r : R Def) : R Nat := fun c data =>
  match r { c with d := c.d + 1 } data with
  | none => none
  | some (df, rest, o) => some (c.d, rest, { o with defs := df :: o.defs })

/-- `janet_v_push(st->lookup_envs, env)` -/
def R.preEnv (r : R Env) : R Nat := fun c data =>
  match r { c with e := c.e + 1 } data with
  | none => none
  | some (ev, rest, o) => some (c.e, rest, { o with envs := ev :: o.envs })

/-- `janet_unmarshal_u32s` -/
def readU32s : Nat → List Nat → Option (List Nat × List Nat)
  | 0, data => some ([], data)
  | k + 1, b0 :: b1 :: b2 :: b3 :: rest =>
    match readU32s k rest with
    | none => none
    | some (ws, rest') => some ((b0 + b1 * 256 + b2 * 65536 + b3 * 16777216) :: ws, rest')
  | _ + 1, _ => none

def R.u32s (k : Nat) : R (List Nat) := fun _ data =>
  match readU32s k data with
  | none => none
  | some (ws, rest) => some (ws, rest, Out.empty)

/-- source map: `current += readint(); line = current; column = readint()` -/
def R.sourcemap : Nat → Int → R (List (Int × Int))
  | 0, _ => R.pure []
  | k + 1, cur => R.bind R.int fun dl => R.bind R.int fun col =>
      R.map (R.sourcemap k (cur + dl)) fun rest => (cur + dl, col) :: rest

def R.guard (b : Bool) : R Unit := if b then R.pure () else R.fail

def R.optNat (flags : Int) (bit : Int) : R Nat := if hasFlag flags bit then R.nat else R.pure 0

/-- `unmarshal_one_env`; `g` = `unmarshal_one` at the depth the environment passes on -/
def unmarshalEnvWith (g : R Val) : R Nat := fun c data =>
  match data with
  | [] => none
  | lead :: rest =>
    if lead = lb_funcenv_ref then
      match readint rest with
      | none => none
      | some (idx, r) => if idx < 0 ∨ idx.toNat ≥ c.e then none else some (idx.toNat, r, Out.empty)
    else
      R.preEnv (R.bind R.nat fun offset => R.bind R.nat fun length =>
        if offset > 0 then R.map g fun fiber => Env.onstack offset length fiber
        else R.bind (R.guard (length ≠ 0)) fun _ => R.map (R.listN g length) fun vs => Env.detached vs) c data

/-- the frame loop of `unmarshal_one_fiber`: `while (stack > 0)`; `lf` bounds the number of iterations (every iteration
checks `prevframe + JANET_FRAME_SIZE <= stack`, so `stack` strictly decreases).  The tests that need the function's funcdef
(frame size = slot count, pc inside the bytecode, suspended at a call) are validation of untrusted input and not modelled. -/
def readFrames (g : R Val) (ge : R Nat) : Nat → Nat → Nat → R (List Frame)
  | 0, _, _ => R.fail
  | lf + 1, stack, stacktop =>
    if stack = 0 then R.pure []
    else
      R.bind R.int fun ff =>
      R.bind R.nat fun prevframe =>
      R.bind R.nat fun pcdiff =>
      R.bind g fun func =>
      R.bind (if ff < 0 then R.map ge some else R.pure none) fun env =>
      R.bind (R.guard (decide (prevframe + frameSize ≤ stack))) fun _ =>
      R.bind (R.listN g (stacktop - stack)) fun slots =>
      R.map (readFrames g ge lf prevframe (stack - frameSize)) fun rest =>
        (⟨if ff < 0 then ff + 2147483648 else ff, prevframe, pcdiff, func, env, slots⟩ : Frame) :: rest

/-- `fiber->flags` as `unmarshal_one_fiber` stores it: the flags read from the image with the two image-only pseudo flags
(`JANET_FIBER_FLAG_HASENV`, `JANET_FIBER_FLAG_HASCHILD`: "an environment table / a child fiber follows") cleared.  Which bits the
current marsh.c clears on the way from `readint` to `fiber->flags = …` is regenerated as `Gen.MarshCode.fiberMemStripMask`
(obligation `CodeObligations.fiber_wire_bits_stripped`). -/
@[reducible] def fiberMemFlags (ff : Int) : Int :=
  ff - (if hasFlag ff fiberHasEnv then fiberHasEnv else 0) - (if hasFlag ff fiberHasChild then fiberHasChild else 0)

/-- body of `unmarshal_one_fiber` after the new fiber has been pushed on `st->lookup` -/
def unmarshalFiberBody (g : R Val) (ge : R Nat) : R CObj :=
  R.bind R.int fun ff =>
  R.bind R.nat fun frame =>
  R.bind R.nat fun stackstart =>
  R.bind R.nat fun stacktop =>
  R.bind R.nat fun maxstack =>
  R.bind (R.guard (decide (frame + frameSize ≤ stackstart ∧ stackstart ≤ stacktop ∧ stacktop ≤ maxstack))) fun _ =>
  R.bind (readFrames g ge (frame + 1) frame (stackstart - frameSize)) fun frames =>
  R.bind (if hasFlag ff fiberHasEnv then R.map g some else R.pure none) fun env =>
  R.bind (if hasFlag ff fiberHasChild then R.map g some else R.pure none) fun child =>
  R.map g fun last =>
    CObj.fiber (fiberMemFlags ff)
      frame stackstart stacktop maxstack frames env child last

/-- body of `unmarshal_one_def` after the new funcdef has been pushed on `lookup_defs`; `g` = `unmarshal_one(…, flags + 1)`,
`gd` = `unmarshal_one_def(…, flags + 1)` -/
def unmarshalDefBody (g : R Val) (gd : R Nat) (vf : Def → Bool) : R Def :=
  R.bind R.int fun flags =>
  R.bind R.nat fun slotcount =>
  R.bind (R.guard (slotcount ≤ maxSlotcount)) fun _ =>
  R.bind R.nat fun arity =>
  R.bind R.nat fun minArity =>
  R.bind R.nat fun maxArity =>
  R.bind R.nat fun constantsLength =>
  R.bind R.nat fun bytecodeLength =>
  R.bind (R.optNat flags fdHasEnvs) fun environmentsLength =>
  R.bind (R.optNat flags fdHasDefs) fun defsLength =>
  R.bind (R.optNat flags fdHasSymbolMap) fun symbolmapLength =>
  R.bind (if hasFlag flags fdHasName then R.map g some else R.pure none) fun name =>
  R.bind (if hasFlag flags fdHasSource then R.map g some else R.pure none) fun source =>
  R.bind (R.listN g constantsLength) fun constants =>
  R.bind (if hasFlag flags fdHasSymbolMap then
            R.listN (R.bind R.int fun b => R.bind R.int fun dth => R.bind R.int fun s =>
              R.map g fun sym => SymEntry.mk b dth s sym) symbolmapLength
          else R.pure []) fun symbolmap =>
  R.bind (R.u32s bytecodeLength) fun bytecode =>
  R.bind (if hasFlag flags fdHasEnvs then
            R.listN (R.bind R.int fun inh => R.bind (R.guard (decide (-1 ≤ inh))) fun _ => R.pure inh) environmentsLength
          else R.pure []) fun environments =>
  R.bind (if hasFlag flags fdHasDefs then R.listN gd defsLength else R.pure []) fun defs =>
  R.bind (if hasFlag flags fdHasSourceMap then R.sourcemap bytecodeLength 0 else R.pure []) fun sourcemap =>
  R.bind (if hasFlag flags fdHasCloBitset then R.u32s ((slotcount + 31) / 32) else R.pure []) fun bitset =>
  let df : Def := ⟨flags, slotcount, arity, minArity, maxArity, name, source, constants, symbolmap, bytecode,
                   environments, defs, sourcemap, bitset⟩
  R.bind (R.guard (vf df)) fun _ => R.pure df

mutual
/-- `unmarshal_one` -/
def unmarshalC : Nat → (Def → Bool) → R Val
  | 0, _ => R.fail
  | fuel + 1, vf => fun c data =>
    match data with
    | [] => none
    | lead :: rest =>
      if lead < lb_real ∨ lead = lb_integer then R.map R.int Val.int c data
      else if lead = lb_nil then some (.nil, rest, Out.empty)
      else if lead = lb_false then some (.bool false, rest, Out.empty)
      else if lead = lb_true then some (.bool true, rest, Out.empty)
      else if lead = lb_real then R.preObj (R.take 8) (fun bs => .data (.real bs)) c rest
      else if lead = lb_string ∨ lead = lb_symbol ∨ lead = lb_keyword ∨ lead = lb_buffer ∨ lead = lb_registry then
        R.preObj (R.bind R.nat fun len => R.take len) (fun bs => .data (
          if lead = lb_string then Obj.str .string bs
          else if lead = lb_symbol then Obj.str .symbol bs
          else if lead = lb_keyword then Obj.str .keyword bs
          else if lead = lb_buffer then Obj.buffer bs
          else Obj.reg bs)) c rest
      else if lead = lb_reference then
        match readnat rest with
        | none => none
        | some (k, r) => if k < c.n then some (.ref k, r, Out.empty) else none
      else if lead = lb_array ∨ lead = lb_array_weak then
        R.bind R.nat (fun len => R.bind (R.dos len) fun _ =>
          R.wrapObj pushPreArray (R.listN (fun c d => unmarshalC fuel vf c d) len)
            (fun items => .data (.array (lead = lb_array_weak) items))) c rest
      else if lead = lb_tuple then
        R.bind R.nat (fun len => R.bind (R.dos len) fun _ => R.bind R.int fun flag =>
          R.wrapObj pushPreTuple (R.listN (fun c d => unmarshalC fuel vf c d) len)
            (fun items => .data (.tuple flag items))) c rest
      else if lead = lb_struct ∨ lead = lb_struct_proto then
        R.bind R.nat (fun len => R.bind (R.dos len) fun _ =>
          R.wrapObj pushPreStruct (R.listN (fun c d => unmarshalC fuel vf c d) ((if lead = lb_struct_proto then 1 else 0) + 2 * len))
            (fun vs => let pk := splitProto (lead = lb_struct_proto) vs
                       .data (.struct pk.1 (putAll structPut (pairUp pk.2))))) c rest
      else if lead = lb_function then
        -- readnat; len > 255 panics; janet_v_push(st->lookup); unmarshal_one_def(flags + 1); envs (flags + 1, values at that depth)
        R.bind R.nat (fun len => R.bind (R.guard (len ≤ maxFuncEnvs)) fun _ =>
          R.preObj (R.bind (fun c d => unmarshalDef fuel vf c d) fun di =>
                    R.map (R.listN (unmarshalEnvWith (fun c d => unmarshalC fuel vf c d)) len) fun envs => (di, envs))
            (fun p => .func p.1 p.2)) c rest
      else if lead = lb_fiber then
        -- unmarshal_one_fiber(flags + 1): janet_v_push(st->lookup, fiber) first, everything inside at flags + 2
        (match fuel with
         | 0 => R.fail
         | f + 1 => R.preObj (unmarshalFiberBody (fun c d => unmarshalC f vf c d) (unmarshalEnvWith (fun c d => unmarshalC f vf c d))) id) c rest
      else
        match tableOfLead lead with
        | none => none
        | some (weak, hasProto) =>
          R.bind R.nat (fun len => R.bind (R.dos len) fun _ =>
            R.wrapObj pushPreTable (R.listN (fun c d => unmarshalC fuel vf c d) ((if hasProto then 1 else 0) + 2 * len))
              (fun vs => let pk := splitProto hasProto vs
                         .data (.table weak pk.1 (putAll tablePut (pairUp pk.2))))) c rest

/-- `unmarshal_one_def` -/
def unmarshalDef : Nat → (Def → Bool) → R Nat
  | 0, _ => R.fail
  | fuel + 1, vf => fun c data =>
    match data with
    | [] => none
    | lead :: rest =>
      if lead = lb_funcdef_ref then
        match readint rest with
        | none => none
        | some (idx, r) => if idx < 0 ∨ idx.toNat ≥ c.d then none else some (idx.toNat, r, Out.empty)
      else
        R.preDef (unmarshalDefBody (fun c d => unmarshalC fuel vf c d) (fun c d => unmarshalDef fuel vf c d) vf) c data
end

/-- `janet_unmarshal` with a fresh state: value, final lookup tables, number of bytes consumed -/
def unmarshalCode (vf : Def → Bool) (data : List Nat) : Option (Val × Out × Nat) :=
  (unmarshalC topFuel vf ⟨0, 0, 0⟩ data).map fun r => (r.1, r.2.2, data.length - r.2.1.length)

end JanetModel.Marsh
